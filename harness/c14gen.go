package main

// C14 — generator of programs in the documented compiler dialect (docs/compiler.md).
//
// Every generated program is valid Go, terminates, and keeps every integer below 2^62 in magnitude
// *by construction*: integer expressions carry a bound, variables and results are kept below c14M by
// reducing modulo c14M wherever the bound of the assigned expression is larger, loops run a bounded
// number of times, recursion is on a clamped argument.  Run-time failures (division by zero, explicit
// panic) are generated on purpose, rarely.
//
// Not generated, with the reason (details and reproductions: notes/C14.md, corpus/C14/c14.json):
//   documented restrictions of the dialect   closures, integer types other than int, new(), goroutines, channels,
//                                            generics, copy() on non-byte slices, sub-slices of non-byte slices
//   known findings of this check             (function values with two or more arguments, F141, and a default clause that
//                                            is not last with fallthrough around it, F142, are repaired in /repo and
//                                            generated again; C14_DENY=lambda2,earlydefault leaves them out) copying a
//                                            struct value out of a variable, updating a value receiver (F143); < <= > >=
//                                            on strings (F144);
//                                            reading a map key that may be absent (F145); initialisers that depend on
//                                            later declarations (F146); deferred calls with non-constant arguments or
//                                            inside loops (F147); a panic under more than one pending defer (F148);
//                                            named results with recover (F149); function literals and return inside
//                                            init() (F150, F151); == / switch / map keys on concatenated strings
//                                            (F152); inlined helpers that assign a parameter in a nested block or get
//                                            an argument that can fail (F153)
//   not determined by Go itself              the order between a call with side effects and reads of variables in
//                                            one expression (such calls are whole right-hand sides), map iteration
//                                            order (only commutative accumulation), aliasing a slice and appending to
//                                            it (append only to slices created in the same function)
//   resource limits of the VM                containers and strings stay small, recursion shallow
// The environment variable C14_ALLOW (earlydefault, lambda2, structcopy, concat) switches four of the excluded
// constructs back on, to validate a repair.

import (
	"fmt"
	"math"
	"os"
	"strings"
)

const c14M = 1000003

type c14Var struct {
	name  string
	typ   string
	ro    bool    // not assignable (loop counters, range variables)
	bound float64 // ints: |x| <= bound; strings: length <= bound
	safe  int     // slices: number of leading elements known to exist
	noSt  bool    // struct value that must not be updated in place (value receiver: the compiler does not copy it)
	glob  bool
	buf   bool // string that may hold the result of a concatenation (a Buffer item for the unchanged compiler)
	own   bool // slice created in this function: the only kind that is appended to (no aliasing through append)
}

type c14FuncSig struct {
	name   string
	params []string
	rets   []string
	recv   string // "" | "S" | "*S"
	pure   bool   // does not touch globals
}

type c14Gen struct {
	r       *rng
	pkg     string
	helper  string // helper package name ("" = none)
	scopes  [][]*c14Var
	nvar    int
	nlabel  int
	funcs   []c14FuncSig // callable internal functions (already emitted, so recursion is only by template)
	globals []*c14Var
	inLoop  int
	labels  []string // enclosing labelled loops
	inSw    int
	retType string
	sb      *strings.Builder
	indent  int
	budget  int // remaining statements for the current function
	hist    map[string]int
	noGlob  bool // generating a pure function
	pending []*c14Var
	mrFuncs []c14FuncSig
	inInit  bool
	noFault int  // > 0: no expression that may fail (arguments of inlined helpers are substituted by name)
	noRet   bool // no early return (functions with several results)
}

func (g *c14Gen) tag(t string) { g.hist[t]++ }

func (g *c14Gen) emitf(format string, a ...any) {
	g.sb.WriteString(strings.Repeat("\t", g.indent))
	fmt.Fprintf(g.sb, format, a...)
	g.sb.WriteByte('\n')
	// a declared variable comes into scope after the line that declares it
	for _, v := range g.pending {
		g.addVar(v)
	}
	g.pending = nil
}

func (g *c14Gen) push() { g.scopes = append(g.scopes, nil) }
func (g *c14Gen) pop() {
	if len(g.scopes) > 0 {
		g.scopes = g.scopes[:len(g.scopes)-1]
	}
}

// use emits a blank use, so that the Go compiler never sees an unused variable
func (g *c14Gen) use(vs ...*c14Var) {
	for _, v := range vs {
		g.emitf("_ = %s", v.name)
	}
}
func (g *c14Gen) declare(typ string, ro bool, bound float64) *c14Var {
	g.nvar++
	v := &c14Var{name: fmt.Sprintf("v%d", g.nvar), typ: typ, ro: ro, bound: bound}
	g.pending = append(g.pending, v)
	return v
}
func (g *c14Gen) addVar(v *c14Var) { g.scopes[len(g.scopes)-1] = append(g.scopes[len(g.scopes)-1], v) }

func (g *c14Gen) vars(typ string, assignable bool) []*c14Var {
	var out []*c14Var
	for _, sc := range g.scopes {
		for _, v := range sc {
			if v.typ == typ && (!assignable || !v.ro) {
				out = append(out, v)
			}
		}
	}
	if !g.noGlob {
		for _, v := range g.globals {
			if v.typ == typ && (!assignable || !v.ro) {
				out = append(out, v)
			}
		}
	}
	return out
}

func (g *c14Gen) pickVar(typ string, assignable bool) *c14Var {
	vs := g.vars(typ, assignable)
	if len(vs) == 0 {
		return nil
	}
	return vs[g.r.intn(len(vs))]
}

// ---------- expressions ----------

func (g *c14Gen) lit() (string, float64) {
	c := []int64{0, 1, 2, 3, 5, 7, 10, 16, 17, 100, 255, 256, 1000, 65535, 99991}[g.r.intn(15)]
	return fmt.Sprint(c), float64(c)
}

// reduce makes an expression of bound bd fit a variable
func reduce(e string, bd float64) (string, float64) {
	if bd <= c14M {
		return e, bd
	}
	return fmt.Sprintf("(%s)%%%d", e, c14M), c14M
}

func (g *c14Gen) intLeaf() (string, float64) {
	switch g.r.intn(10) {
	case 0, 1:
		return g.lit()
	case 2:
		if v := g.pickVar("string", false); v != nil {
			return "len(" + v.name + ")", 4096
		}
	case 3:
		if v := g.pickVar("[]int", false); v != nil {
			return "len(" + v.name + ")", 4096
		}
	case 4:
		if v := g.pickVar("S", false); v != nil {
			return v.name + "." + pick(g.r, []string{"a", "in.p", "in.q"}), c14M
		}
		if v := g.pickVar("*S", false); v != nil {
			return v.name + "." + pick(g.r, []string{"a", "in.p"}), c14M
		}
	case 5:
		if v := g.pickVar("[]int", false); v != nil && v.safe > 0 {
			return fmt.Sprintf("%s[%d]", v.name, g.r.intn(v.safe)), c14M
		}
	}
	if v := g.pickVar("int", false); v != nil {
		return v.name, v.bound
	}
	return g.lit()
}

func (g *c14Gen) genInt(d int) (string, float64) {
	if d <= 0 || g.r.chance(25) {
		return g.intLeaf()
	}
	a, ba := g.genInt(d - 1)
	switch k := g.r.intn(16); k {
	case 0, 1, 2:
		b, bb := g.genInt(d - 1)
		return fmt.Sprintf("%s %s %s", a, pick(g.r, []string{"+", "-"}), g.par(b)), ba + bb
	case 3, 4:
		b, bb := g.genInt(d - 1)
		if ba*bb > 1e15 {
			a, ba = fmt.Sprintf("(%s)%%1009", a), 1009
			b, bb = reduce(b, bb)
		}
		return fmt.Sprintf("%s * %s", g.par(a), g.par(b)), ba * bb
	case 5:
		// safe divisor
		b, _ := g.genInt(d - 1)
		k := []int{2, 3, 7, 10, 16}[g.r.intn(5)]
		return fmt.Sprintf("%s / ((%s)%%%d + %d)", g.par(a), b, k, k+1), ba
	case 6:
		c := []int{1, 2, 3, 7, 10, 100, -3}[g.r.intn(7)]
		g.tag("divmod")
		if g.r.bool() {
			return fmt.Sprintf("%s / %s", g.par(a), g.par(fmt.Sprint(c))), ba
		}
		return fmt.Sprintf("%s %% %s", g.par(a), g.par(fmt.Sprint(c))), ba
	case 7:
		if v := g.pickVar("int", false); v != nil && g.noFault == 0 && g.r.chance(15) { // may divide by zero: both sides must fail
			g.tag("raw-div")
			return fmt.Sprintf("%s %s %s", g.par(a), pick(g.r, []string{"/", "%"}), v.name), ba
		}
		return "-" + g.par(a), ba
	case 8:
		b, bb := g.genInt(d - 1)
		g.tag("minmax")
		return fmt.Sprintf("%s(%s, %s)", pick(g.r, []string{"min", "max"}), a, b), max(ba, bb)
	case 9:
		g.tag("bitop")
		b, _ := g.genInt(d - 1)
		op := pick(g.r, []string{"&", "|", "^"})
		return fmt.Sprintf("((%s)&1023) %s ((%s)&4095)", a, op, b), 8192
	case 10:
		g.tag("shift")
		if g.r.bool() {
			return fmt.Sprintf("((%s)&255) << %d", a, 1+g.r.intn(6)), 255 * 64
		}
		return fmt.Sprintf("%s >> %d", g.par(a), 1+g.r.intn(4)), ba
	case 11, 12:
		if e, b, ok := g.callInt(d - 1); ok {
			return e, b
		}
		return a, ba
	case 13:
		if g.helper != "" {
			g.tag("inline-call")
			// arguments of an inlined function are substituted by name: an argument that can fail or that is
			// expensive would be evaluated a different number of times than in Go
			g.noFault++
			defer func() { g.noFault-- }()
			a, ba = g.genInt(d - 1)
			b, bb := g.genInt(d - 1)
			switch g.r.intn(5) {
			case 0:
				c, bc := g.intLeaf()
				return fmt.Sprintf("%s.Add3(%s, %s, %s)", g.helper, a, b, c), ba + bb + bc
			case 1:
				return fmt.Sprintf("%s.Clamp(%s, -50, 700)", g.helper, a), 700
			case 4:
				a, _ = reduce(a, ba)
				return fmt.Sprintf("%s.Bump(%s, %d)", g.helper, a, g.r.intn(9)), 3 * c14M
			case 2:
				return fmt.Sprintf("%s.Sel(%s, %s, %s)", g.helper, g.genBool(d-1), a, b), max(ba, bb)
			default:
				return fmt.Sprintf("%s.SumTo((%s)&15)", g.helper, a), 200
			}
		}
		return a, ba
	default:
		return "(" + a + ")", ba
	}
}

func (g *c14Gen) par(e string) string {
	if strings.ContainsAny(e, " -") && !(strings.HasPrefix(e, "(") && strings.HasSuffix(e, ")") && strings.Count(e, "(") == 1) {
		return "(" + e + ")"
	}
	return e
}

// an int expression that fits a variable
func (g *c14Gen) genIntFit(d int) string {
	e, b := g.genInt(d)
	e, _ = reduce(e, b)
	return e
}

func (g *c14Gen) callInt(d int) (string, float64, bool) {
	var cands []c14FuncSig
	for _, f := range g.funcs {
		// only functions without side effects inside expressions: Go leaves the order between a call and
		// the reads of variables in the same expression unspecified
		if len(f.rets) == 1 && f.rets[0] == "int" && f.pure {
			cands = append(cands, f)
		}
	}
	if len(cands) == 0 {
		return "", 0, false
	}
	f := cands[g.r.intn(len(cands))]
	e, ok := g.callExpr(f, d)
	if !ok {
		return "", 0, false
	}
	g.tag("call")
	return e, c14M, true
}

func (g *c14Gen) callExpr(f c14FuncSig, d int) (string, bool) {
	if f.recv != "" && len(g.vars(f.recv, false)) == 0 {
		return "", false
	}
	var as []string
	for _, p := range f.params {
		a, ok := g.genOf(p, d)
		if !ok {
			return "", false
		}
		as = append(as, a)
	}
	call := f.name + "(" + strings.Join(as, ", ") + ")"
	if f.recv != "" {
		v := g.pickVar(f.recv, false)
		if v == nil {
			return "", false
		}
		g.tag("method-call")
		call = v.name + "." + call
	}
	return call, true
}

func (g *c14Gen) genOf(typ string, d int) (string, bool) {
	switch typ {
	case "int":
		return g.genIntFit(d), true
	case "bool":
		return g.genBool(d), true
	case "string":
		return g.strPure(), true
	case "...int":
		n := 1 + g.r.intn(3)
		var xs []string
		for i := 0; i < n; i++ {
			xs = append(xs, g.genIntFit(d-1))
		}
		g.tag("variadic-call")
		return strings.Join(xs, ", "), true
	default:
		if v := g.pickVar(typ, false); v != nil {
			return v.name, true
		}
		switch typ {
		case "[]int":
			return fmt.Sprintf("[]int{%s, %s}", g.genIntFit(d-1), g.genIntFit(d-1)), true
		case "[]byte":
			return fmt.Sprintf("[]byte(%q)", pick(g.r, []string{"", "ab", "xyz1"})), true
		case "S":
			return g.structLit(d), true
		case "*S":
			return "&" + g.structLit(d), true
		case "T":
			return fmt.Sprintf("T{p: %s, q: %s}", g.genIntFit(d-1), g.genIntFit(d-1)), true
		case "map[int]int":
			return fmt.Sprintf("map[int]int{%d: %s}", g.r.intn(5), g.genIntFit(d-1)), true
		case "map[string]int":
			return fmt.Sprintf("map[string]int{%q: %s}", pick(g.r, []string{"a", "k", "zz"}), g.genIntFit(d-1)), true
		}
	}
	return "", false
}

func (g *c14Gen) structLit(d int) string {
	g.tag("struct-lit")
	if g.r.chance(30) {
		return fmt.Sprintf("S{%s, %s, %s, []int{%s}, T{%s, %s}}", g.genIntFit(d-1), g.genBool(d-1), g.strLeaf(), g.genIntFit(d-1), g.genIntFit(d-1), g.genIntFit(d-1))
	}
	fs := []string{}
	if g.r.chance(80) {
		fs = append(fs, "a: "+g.genIntFit(d-1))
	}
	if g.r.chance(50) {
		fs = append(fs, "b: "+g.genBool(d-1))
	}
	if g.r.chance(50) {
		fs = append(fs, "s: "+g.strLeaf())
	}
	if g.r.chance(40) {
		fs = append(fs, fmt.Sprintf("xs: []int{%s}", g.genIntFit(d-1)))
	}
	if g.r.chance(40) {
		fs = append(fs, fmt.Sprintf("in: T{p: %s}", g.genIntFit(d-1)))
	}
	return "S{" + strings.Join(fs, ", ") + "}"
}

func (g *c14Gen) genBool(d int) string {
	if d <= 0 {
		if v := g.pickVar("bool", false); v != nil && g.r.bool() {
			return v.name
		}
		a, _ := g.intLeaf()
		b, _ := g.intLeaf()
		return fmt.Sprintf("%s %s %s", a, pick(g.r, []string{"<", "<=", ">", ">=", "==", "!="}), b)
	}
	switch g.r.intn(12) {
	case 0, 1, 2, 3:
		a, _ := g.genInt(d - 1)
		b, _ := g.genInt(d - 1)
		return fmt.Sprintf("%s %s %s", a, pick(g.r, []string{"<", "<=", ">", ">=", "==", "!="}), g.par(b))
	case 4, 5:
		g.tag("short-circuit")
		return fmt.Sprintf("%s && %s", g.parB(g.genBool(d-1)), g.parB(g.genBool(d-1)))
	case 6, 7:
		g.tag("short-circuit")
		return fmt.Sprintf("%s || %s", g.parB(g.genBool(d-1)), g.parB(g.genBool(d-1)))
	case 8:
		return "!(" + g.genBool(d-1) + ")"
	case 9:
		g.tag("string-eq")
		return fmt.Sprintf("%s %s %s", g.strPure(), pick(g.r, []string{"==", "!="}), g.strPure())
	case 10:
		var cands []c14FuncSig
		for _, f := range g.funcs {
			if len(f.rets) == 1 && f.rets[0] == "bool" && f.pure {
				cands = append(cands, f)
			}
		}
		if len(cands) > 0 {
			if e, ok := g.callExpr(cands[g.r.intn(len(cands))], d-1); ok {
				g.tag("call")
				return e
			}
		}
		if v := g.pickVar("S", false); v != nil {
			return v.name + ".b"
		}
		return g.genBool(0)
	default:
		g.tag("bool-eq")
		return fmt.Sprintf("(%s) == (%s)", g.genBool(d-1), g.genBool(0))
	}
}

func (g *c14Gen) parB(e string) string {
	if strings.Contains(e, "&&") || strings.Contains(e, "||") {
		return "(" + e + ")"
	}
	return e
}

func (g *c14Gen) strLeaf() string {
	s, _ := g.strLeafB()
	return s
}

// strPure: a string that certainly is a ByteString item: a literal or a variable never assigned a
// concatenation. Equality, switch tags, map keys and string arguments use only these (known finding F152:
// a concatenation yields a Buffer, which compares by identity and is not a valid map key).
func (g *c14Gen) strPure() string {
	if c14Allow("concat") {
		s, _ := g.genStr(2)
		return "(" + s + ")"
	}
	var cands []*c14Var
	for _, v := range g.vars("string", false) {
		if !v.buf {
			cands = append(cands, v)
		}
	}
	if len(cands) > 0 && g.r.chance(60) {
		return cands[g.r.intn(len(cands))].name
	}
	return fmt.Sprintf("%q", pick(g.r, []string{"", "a", "neo", "hello", "zz9", "k", "go!"}))
}

func (g *c14Gen) strLeafB() (string, int) {
	if v := g.pickVar("string", false); v != nil && g.r.chance(60) {
		return v.name, int(v.bound)
	}
	return fmt.Sprintf("%q", pick(g.r, []string{"", "a", "neo", "hello", "zz9", "k", "go!"})), 8
}

func (g *c14Gen) genStr(d int) (string, int) {
	if d <= 0 || g.r.chance(50) {
		return g.strLeafB()
	}
	switch g.r.intn(4) {
	case 0, 1:
		a, la := g.genStr(d - 1)
		b, lb := g.genStr(d - 1)
		g.tag("string-concat")
		return a + " + " + b, la + lb
	case 2:
		if v := g.pickVar("[]byte", false); v != nil {
			g.tag("bytes-to-string")
			return "string(" + v.name + ")", 64
		}
	case 3:
		if v := g.pickVar("S", false); v != nil {
			return v.name + ".s", 64
		}
	}
	return g.strLeafB()
}

// ---------- statements ----------

func (g *c14Gen) block(n int) {
	g.push()
	g.stmts(n)
	g.pop()
}

func (g *c14Gen) stmts(n int) {
	for i := 0; i < n && g.budget > 0; i++ {
		g.stmt()
	}
}

func (g *c14Gen) zero(typ string) string {
	switch typ {
	case "int":
		return "0"
	case "bool":
		return "false"
	case "string":
		return `""`
	}
	return "nil"
}

func (g *c14Gen) retStmt() {
	if g.retType == "" {
		g.emitf("return")
		return
	}
	e, ok := g.genOf(g.retType, 2)
	if !ok {
		e = g.zero(g.retType)
	}
	g.emitf("return %s", e)
}

func (g *c14Gen) stmt() {
	g.budget--
	depth := len(g.scopes)
	k := g.r.intn(40)
	if depth > 5 && k >= 12 && k < 28 {
		k = g.r.intn(12)
	}
	switch {
	case k < 4: // declaration
		typ := pick(g.r, []string{"int", "int", "int", "bool", "string"})
		e, _ := g.genOf(typ, 3)
		isCat := false
		if typ == "string" && g.r.bool() {
			if e2, l := g.genStr(2); l <= 512 {
				e, isCat = e2, true
			}
		}
		v := g.declare(typ, false, c14M)
		if typ == "string" {
			v.bound, v.buf = 512, isCat
		}
		if g.r.chance(20) {
			g.emitf("var %s %s = %s", v.name, typ, e)
		} else {
			g.emitf("%s := %s", v.name, e)
		}
		g.use(v)
	case k < 8: // assignment
		typ := pick(g.r, []string{"int", "int", "int", "bool", "string"})
		v := g.pickVar(typ, true)
		if v == nil {
			return
		}
		if typ == "string" {
			// strings stay short: no growth in loops or through package-level variables
			if e, l := g.genStr(2); g.inLoop == 0 && !v.glob && l <= 512 {
				v.buf = true
				g.emitf("%s = %s", v.name, e)
			} else {
				g.emitf("%s = %q", v.name, pick(g.r, []string{"", "a", "neo", "zz9"}))
			}
			return
		}
		e, _ := g.genOf(typ, 3)
		g.emitf("%s = %s", v.name, e)
	case k < 10: // op-assign, inc/dec, always followed by a reduction
		v := g.pickVar("int", true)
		if v == nil {
			return
		}
		g.tag("op-assign")
		switch g.r.intn(5) {
		case 0:
			g.emitf("%s++", v.name)
		case 1:
			g.emitf("%s--", v.name)
		case 2:
			e, b := g.genInt(2)
			e, _ = reduce(e, b)
			g.emitf("%s %s %s", v.name, pick(g.r, []string{"+=", "-="}), e)
		case 3:
			g.emitf("%s *= %s", v.name, g.par(fmt.Sprintf("(%s)%%1009", g.genIntFit(1))))
		default:
			g.emitf("%s /= %d", v.name, 2+g.r.intn(5))
		}
		g.emitf("%s %%= %d", v.name, c14M)
	case k < 12: // if / else if / else
		g.tag("if")
		g.emitf("if %s {", g.genBool(2))
		g.indent++
		g.block(1 + g.r.intn(3))
		g.indent--
		if g.r.chance(40) {
			g.emitf("} else if %s {", g.genBool(2))
			g.indent++
			g.block(1 + g.r.intn(2))
			g.indent--
		}
		if g.r.chance(50) {
			g.emitf("} else {")
			g.indent++
			g.block(1 + g.r.intn(2))
			g.indent--
		}
		g.emitf("}")
	case k < 14: // counted loop
		g.forLoop()
	case k < 16:
		g.rangeLoop()
	case k < 17:
		g.whileLoop()
	case k < 19:
		g.switchStmt()
	case k < 20:
		g.labelledLoops()
	case k < 22:
		g.sliceStmt()
	case k < 24:
		g.mapStmt()
	case k < 26:
		g.structStmt()
	case k < 27: // break / continue / early return
		if g.inLoop > 0 && (g.r.chance(70) || g.noRet) {
			g.tag("break-continue")
			c := g.genBool(1)
			g.emitf("if %s {", c)
			g.indent++
			if len(g.labels) > 0 && g.r.chance(40) {
				g.emitf("%s %s", pick(g.r, []string{"break", "continue"}), g.labels[g.r.intn(len(g.labels))])
				g.tag("labelled-jump")
			} else if g.inSw > 0 {
				g.emitf("continue") // a bare break here would leave the switch only: also generated, in switchStmt
			} else {
				g.emitf("%s", pick(g.r, []string{"break", "continue"}))
			}
			g.indent--
			g.emitf("}")
		} else if !g.noRet {
			g.tag("early-return")
			g.emitf("if %s {", g.genBool(1))
			g.indent++
			g.retStmt()
			g.indent--
			g.emitf("}")
		}
	case k < 29: // call statements
		g.callStmt()
	case k < 30: // swap / multiple assignment
		a, b := g.pickVar("int", true), g.pickVar("int", true)
		if a != nil && b != nil && a != b {
			g.tag("multi-assign")
			g.emitf("%s, %s = %s, %s", a.name, b.name, b.name, g.genIntFit(1))
		}
	case k < 31:
		g.emitf("{")
		g.indent++
		g.block(2)
		g.indent--
		g.emitf("}")
	case k < 33:
		g.bytesStmt()
	case k < 34:
		g.arrayStmt()
	case k < 35:
		g.lambdaStmt()
	case k < 37:
		g.shadowStmt()
	case k < 39:
		g.keyedLitStmt()
	default:
		v := g.pickVar("int", true)
		if v != nil {
			g.emitf("%s = %s", v.name, g.genIntFit(3))
		}
	}
}

// shadowStmt: block scoping of names, on purpose. A name of an enclosing scope (parameter, local, package-level
// variable) is declared again with := inside a switch clause (any position, the default clause anywhere), a body
// of an if / else-if chain, as the variable of a for statement, in a bare block or inside a function literal,
// with the same or with another type. Clauses and bodies that come LATER in the text, the statements after the
// construct and the next iterations of the surrounding loop use the name meaning the outer variable: reads, and
// writes that must survive. (A compiler that keeps one name table for all the clauses of a switch resolves those
// later uses to the private slot of the earlier clause: Null, or a stale value of the previous iteration.)
func (g *c14Gen) shadowStmt() {
	if len(g.scopes) > 6 {
		return
	}
	typ := pick(g.r, []string{"int", "int", "int", "string", "bool"})
	xs := g.vars(typ, false)
	if len(xs) == 0 {
		typ = "int"
		xs = g.vars(typ, false)
	}
	if len(xs) == 0 {
		return
	}
	x := xs[g.r.intn(len(xs))]
	if x.buf { // a concatenated string would make len/== meet finding F152
		return
	}
	var acc *c14Var
	for _, a := range g.vars("int", true) {
		if a != x && !a.glob {
			acc = a
		}
	}
	if acc == nil {
		acc = g.declare("int", false, c14M)
		g.emitf("%s := %s", acc.name, g.genIntFit(1))
	}
	g.tag("shadow")
	if x.glob {
		g.tag("shadow-global")
	}
	X, A := x.name, acc.name
	k := func(n int) int { return 1 + g.r.intn(n) }
	// reading the variable whose type is typ
	read := func() {
		switch typ {
		case "int":
			g.emitf("%s = (%s*3 + %s%%1000) %% %d", A, A, X, c14M)
		case "string":
			g.emitf("%s = (%s*3 + len(%s)) %% %d", A, A, X, c14M)
			g.emitf("if %s == %q {", X, pick(g.r, []string{"", "a", "neo", "zz9"}))
			g.emitf("\t%s++", A)
			g.emitf("}")
		default:
			g.emitf("if %s {", X)
			g.emitf("\t%s = (%s + %d) %% %d", A, A, k(90), c14M)
			g.emitf("}")
		}
	}
	// what a later sibling does: read the outer variable or write it
	outer := func(i string) {
		if x.ro || (x.glob && g.noGlob) || g.r.chance(45) {
			read()
			return
		}
		g.tag("shadow-outer-write")
		switch typ {
		case "int":
			g.emitf("%s = (%s%%1000 + %s + %d) %% %d", X, X, i, k(30), c14M)
		case "string":
			g.emitf("%s = %q", X, pick(g.r, []string{"", "a", "neo", "zz9", "q7"}))
		default:
			g.emitf("%s = !%s", X, X)
		}
	}
	// the inner declaration of the same name (same or another type), used at once
	inner := func(i string) {
		ityp := typ
		if g.r.chance(40) {
			ityp = pick(g.r, []string{"int", "string", "bool"})
		}
		if ityp != typ {
			g.tag("shadow-other-type")
		}
		switch ityp {
		case "int":
			g.emitf("%s := %s*%d + %d", X, i, k(6), k(90))
			g.emitf("%s = (%s*3 + %s) %% %d", A, A, X, c14M)
		case "string":
			g.emitf("%s := %q", X, pick(g.r, []string{"s", "ab", "xyz", ""}))
			g.emitf("%s = (%s*3 + len(%s) + %d) %% %d", A, A, X, k(9), c14M)
		default:
			g.emitf("%s := %s%%2 == %d", X, i, g.r.intn(2))
			g.emitf("if %s {", X)
			g.emitf("\t%s = (%s + %d) %% %d", A, A, k(90), c14M)
			g.emitf("}")
		}
	}
	n := 3 + g.r.intn(3)
	g.nvar++
	i := fmt.Sprintf("i%d", g.nvar)
	shape := g.r.intn(5)
	if shape == 4 && g.inInit {
		shape = 0
	}
	switch shape {
	case 0, 1: // clauses of a switch, inside a loop
		g.tag("shadow-switch")
		g.emitf("for %s := 0; %s < %d; %s++ {", i, i, n, i)
		g.indent++
		m := 3 + g.r.intn(2)
		g.emitf("switch (%s + %d) %% %d {", i, g.r.intn(3), m)
		pos := g.r.intn(2)
		defAt := -1
		if g.r.chance(70) {
			defAt = g.r.intn(4)
			if defAt < 3 {
				g.tag("shadow-switch-early-default")
			}
		}
		body := func(c int) {
			g.indent++
			switch {
			case c == pos:
				inner(i)
			case c < pos:
				read()
			default:
				outer(i)
			}
			g.indent--
		}
		for c := 0; c <= 3; c++ {
			if c == defAt {
				g.emitf("default:")
				g.indent++
				if c <= pos {
					read()
				} else {
					outer(i)
				}
				g.emitf("%s = (%s + 7) %% %d", A, A, c14M)
				g.indent--
			}
			if c == 3 {
				break
			}
			if c == 1 && g.r.bool() {
				g.emitf("case 1, %d:", 3+g.r.intn(3))
			} else {
				g.emitf("case %d:", c)
			}
			body(c)
		}
		g.emitf("}")
		read()
		g.indent--
		g.emitf("}")
	case 2: // bodies of an if / else-if / else chain, inside a loop
		g.tag("shadow-if")
		g.emitf("for %s := 0; %s < %d; %s++ {", i, i, n, i)
		g.indent++
		g.emitf("if %s%%3 == %d {", i, g.r.intn(3))
		g.indent++
		inner(i)
		g.indent--
		g.emitf("} else if %s%%2 == %d {", i, g.r.intn(2))
		g.indent++
		outer(i)
		g.indent--
		g.emitf("} else {")
		g.indent++
		outer(i)
		g.emitf("%s = (%s + 5) %% %d", A, A, c14M)
		g.indent--
		g.emitf("}")
		read()
		g.indent--
		g.emitf("}")
	case 3: // the variable of a for statement (its post statement means the loop variable), a block in its body
		g.tag("shadow-for")
		g.emitf("for %s := %d; %s < %d; %s += %d {", X, g.r.intn(3), X, n, X, 1+g.r.intn(2))
		g.indent++
		g.emitf("%s = (%s*3 + %s) %% %d", A, A, X, c14M)
		g.emitf("{")
		g.indent++
		g.emitf("%s := %s*2 + %d", X, X, k(9))
		g.emitf("%s = (%s*3 + %s) %% %d", A, A, X, c14M)
		g.indent--
		g.emitf("}")
		g.emitf("%s = (%s*5 + %s) %% %d", A, A, X, c14M)
		g.indent--
		g.emitf("}")
	default: // a function literal declares the name as its own local; a bare block does, too
		g.tag("shadow-literal")
		g.nvar++
		fn := fmt.Sprintf("fn%d", g.nvar)
		g.emitf("%s := func(q int) int {", fn)
		g.indent++
		g.emitf("%s := q*%d + %d", X, k(5), k(9))
		g.emitf("{")
		g.emitf("\t%s := %s + %d", X, X, k(9))
		g.emitf("\tq += %s", X)
		g.emitf("}")
		g.emitf("return %s*2 + q", X)
		g.indent--
		g.emitf("}")
		g.emitf("for %s := 0; %s < %d; %s++ {", i, i, n, i)
		g.indent++
		g.emitf("{")
		g.indent++
		inner(i)
		g.indent--
		g.emitf("}")
		g.emitf("%s = (%s + %s(%s)) %% %d", A, A, fn, i, c14M)
		outer(i)
		g.indent--
		g.emitf("}")
	}
	read()
	if typ == "int" {
		x.bound = math.Max(x.bound, c14M)
	}
}

// ---------- keyed composite literals ----------

// c14KeyText writes a constant index the ways a program does: a literal, an iota constant, an expression of constants
func (g *c14Gen) c14KeyText(i int) string {
	if g.r.chance(55) {
		return fmt.Sprint(i)
	}
	switch {
	case i <= 3 && g.r.bool():
		return fmt.Sprintf("K%d", i)
	case i == 3:
		return "K1 + K2"
	case i == 4:
		return pick(g.r, []string{"2 * K2", "KN - 2", "K1 + K3"})
	case i == 5:
		return pick(g.r, []string{"KN - 1", "K2 + K3"})
	case i == 6:
		return pick(g.r, []string{"KN", "2 * K3"})
	case i >= 7:
		return fmt.Sprintf("KN + %d", i-6)
	}
	return fmt.Sprint(i)
}

// keyedLayout: the elements of an array or slice literal as they are written: runs of consecutive indices in random
// order; the first element of a run carries its index (except a run that starts the literal at 0, sometimes), the
// others continue from the previous one. Returns the written keys ("" = none), the index of each element and the
// length (largest index + 1, wherever in the literal it is written).
func (g *c14Gen) keyedLayout(maxIdx int) (keys []string, idx []int, length int) {
	used := map[int]bool{}
	type run struct{ start, n int }
	var runs []run
	for tries := 0; tries < 12 && len(runs) < 1+g.r.intn(4); tries++ {
		st, n := g.r.intn(maxIdx+1), 1+g.r.intn(3)
		ok := true
		for i := st; i < st+n; i++ {
			if used[i] || i > maxIdx {
				ok = false
			}
		}
		if !ok {
			continue
		}
		for i := st; i < st+n; i++ {
			used[i] = true
		}
		runs = append(runs, run{st, n})
	}
	if len(runs) == 0 {
		runs = []run{{g.r.intn(maxIdx + 1), 1}}
	}
	for i := len(runs) - 1; i > 0; i-- { // random order of the runs
		j := g.r.intn(i + 1)
		runs[i], runs[j] = runs[j], runs[i]
	}
	prev := -1
	for _, rn := range runs {
		for i := rn.start; i < rn.start+rn.n; i++ {
			k := ""
			if i != prev+1 || (i == rn.start && g.r.chance(35)) {
				k = g.c14KeyText(i)
			}
			keys = append(keys, k)
			idx = append(idx, i)
			prev = i
			if i+1 > length {
				length = i + 1
			}
		}
	}
	return
}

func c14JoinKeyed(keys, vals []string) string {
	var es []string
	for i := range keys {
		if keys[i] == "" {
			es = append(es, vals[i])
		} else {
			es = append(es, keys[i]+": "+vals[i])
		}
	}
	return strings.Join(es, ", ")
}

// fields of S / T in random order, a random subset (the others are zero)
func (g *c14Gen) keyedFields(typ string) string {
	var fs []string
	if typ == "T" {
		fs = []string{"p: " + g.genIntFit(1), "q: " + fmt.Sprint(g.r.intn(90))}
	} else {
		fs = []string{"a: " + g.genIntFit(1), "b: " + pick(g.r, []string{"true", "false", g.genBool(1)}),
			fmt.Sprintf("s: %q", pick(g.r, []string{"a", "neo", "zz9", "k"})),
			fmt.Sprintf("xs: []int{%d: %d, %d}", 1+g.r.intn(2), g.r.intn(50), g.r.intn(50)),
			fmt.Sprintf("in: T{q: %d}", g.r.intn(90))}
	}
	for i := len(fs) - 1; i > 0; i-- {
		j := g.r.intn(i + 1)
		fs[i], fs[j] = fs[j], fs[i]
	}
	return strings.Join(fs[:g.r.intn(len(fs)+1)], ", ")
}

// keyedLitStmt: composite literals with explicit keys — array and slice literals whose elements carry indexes out of
// order, with gaps (zero-filled) and unkeyed elements that continue from the previous index, constant-expression
// keys; the length is the largest index + 1 over all elements. Map literals with constant keys in any order, struct
// literals with a subset of the fields in any order, nested literals with elided types. Everything is consumed: len,
// every position (the gaps too), the last position, sums by range, struct fields.
func (g *c14Gen) keyedLitStmt() {
	var acc *c14Var
	for _, a := range g.vars("int", true) {
		if !a.glob {
			acc = a
		}
	}
	if acc == nil {
		return
	}
	g.tag("keyed-literal")
	g.noFault++
	defer func() { g.noFault-- }()
	A := acc.name
	g.nvar++
	x := fmt.Sprintf("kx%d", g.nvar)
	mix := func(e string) { g.emitf("%s = (%s*31 + %s) %% %d", A, A, e, c14M) }
	g.emitf("{")
	g.indent++
	defer func() {
		g.indent--
		g.emitf("}")
	}()
	// how an element of the given kind is written and how it is read
	elem := func(kind string) string {
		switch kind {
		case "int":
			if g.r.bool() {
				return fmt.Sprint(1 + g.r.intn(900))
			}
			return g.genIntFit(1)
		case "byte":
			return fmt.Sprint(1 + g.r.intn(255))
		case "bool":
			return pick(g.r, []string{"true", "true", g.genBool(1)})
		case "string":
			return fmt.Sprintf("%q", pick(g.r, []string{"a", "neo", "hello", "zz9", "k", "go!"}))
		case "S":
			return "{" + g.keyedFields("S") + "}"
		case "T":
			return "{" + g.keyedFields("T") + "}"
		default: // []int, itself keyed
			ks, _, _ := g.keyedLayout(4)
			vs := make([]string, len(ks))
			for i := range vs {
				vs[i] = fmt.Sprint(1 + g.r.intn(90))
			}
			return "{" + c14JoinKeyed(ks, vs) + "}"
		}
	}
	read := func(kind, e string) {
		switch kind {
		case "int":
			mix(e + "%1000003")
		case "byte":
			mix("int(" + e + ")")
		case "bool":
			g.emitf("if %s {", e)
			g.emitf("\t%s = (%s*2 + 1) %% %d", A, A, c14M)
			g.emitf("} else {")
			g.emitf("\t%s = (%s * 2) %% %d", A, A, c14M)
			g.emitf("}")
		case "string":
			mix("len(" + e + ")")
			g.emitf("if %s == %q {", e, pick(g.r, []string{"", "a", "neo", "zz9"}))
			g.emitf("\t%s++", A)
			g.emitf("}")
		case "S":
			mix(fmt.Sprintf("%s.a%%1000003 + len(%s.s)*3 + len(%s.xs)*5 + %s.in.q*7 + %s.in.p", e, e, e, e, e))
			g.emitf("if %s.b {", e)
			g.emitf("\t%s++", A)
			g.emitf("}")
			g.emitf("for _, w := range %s.xs {", e)
			g.emitf("\t%s = (%s + w) %% %d", A, A, c14M)
			g.emitf("}")
		case "T":
			mix(fmt.Sprintf("%s.p%%1000003 + %s.q*3", e, e))
		default:
			mix("len(" + e + ")")
			g.emitf("for j, w := range %s {", e)
			g.emitf("\t%s = (%s + w*(j+1)) %% %d", A, A, c14M)
			g.emitf("}")
		}
	}
	goType := func(kind string) string {
		if kind == "nested" {
			return "[]int"
		}
		return kind
	}
	switch g.r.intn(10) {
	default: // arrays and slices
		kind := pick(g.r, []string{"int", "int", "int", "byte", "byte", "bool", "string", "S", "T", "nested"})
		keys, _, n := g.keyedLayout(3 + g.r.intn(7))
		vals := make([]string, len(keys))
		for i := range vals {
			vals[i] = elem(kind)
		}
		body := c14JoinKeyed(keys, vals)
		switch g.r.intn(4) {
		case 0:
			g.tag("keyed-array")
			g.emitf("%s := [%d]%s{%s}", x, n+g.r.intn(3), goType(kind), body)
		case 1:
			g.tag("keyed-array")
			g.emitf("%s := [...]%s{%s}", x, goType(kind), body)
		default:
			g.tag("keyed-slice")
			g.emitf("%s := []%s{%s}", x, goType(kind), body)
		}
		g.tag("keyed-" + kind)
		mix("len(" + x + ")")
		switch g.r.intn(3) {
		case 0: // every position by a constant index, the gaps too
			g.emitf("if len(%s) == %d {", x, n) // (an array may be longer: then the loop below covers the tail)
			g.indent++
			for i := 0; i < n; i++ {
				read(kind, fmt.Sprintf("%s[%d]", x, i))
			}
			g.indent--
			g.emitf("}")
			g.emitf("for i := %d; i < len(%s); i++ {", n, x)
			g.indent++
			read(kind, x+"[i]")
			g.indent--
			g.emitf("}")
		case 1:
			g.emitf("for i := 0; i < len(%s); i++ {", x)
			g.indent++
			mix("i")
			read(kind, x+"[i]")
			g.indent--
			g.emitf("}")
		default:
			g.emitf("for i, v := range %s {", x)
			g.indent++
			mix("i")
			read(kind, "v")
			g.indent--
			g.emitf("}")
		}
		read(kind, fmt.Sprintf("%s[len(%s)-1]", x, x))
	case 0, 1: // map literal: constant keys in any order
		g.tag("keyed-map")
		str := g.r.bool()
		n := 2 + g.r.intn(4)
		var ks []string
		if str {
			ks = []string{`"a"`, `"neo"`, `"zz9"`, `"k"`, `""`, `"go!"`}
		} else {
			ks = []string{"5", "2", "K3", "KN", "0", "KN + 4", "-1", "K1"}
		}
		for i := len(ks) - 1; i > 0; i-- {
			j := g.r.intn(i + 1)
			ks[i], ks[j] = ks[j], ks[i]
		}
		ks = ks[:min(n, len(ks))]
		var es []string
		for _, k := range ks {
			es = append(es, k+": "+elem("int"))
		}
		if str {
			g.emitf("%s := map[string]int{%s}", x, strings.Join(es, ", "))
		} else {
			g.emitf("%s := map[int]int{%s}", x, strings.Join(es, ", "))
		}
		mix("len(" + x + ")")
		for i := len(ks) - 1; i >= 0; i-- { // the keys that are there (an absent key is finding F145)
			mix(fmt.Sprintf("%s[%s]%%1000003", x, ks[i]))
		}
	case 2: // struct literal: a subset of the fields, any order; also through a pointer
		g.tag("keyed-struct")
		if g.r.bool() {
			g.emitf("%s := S{%s}", x, g.keyedFields("S"))
		} else {
			g.emitf("%s := &S{%s}", x, g.keyedFields("S"))
		}
		read("S", x)
	}
}

func (g *c14Gen) forLoop() {
	g.tag("for")
	g.push()
	n := 1 + g.r.intn(6)
	i := g.declare("int", true, 16)
	switch g.r.intn(4) {
	case 0:
		g.emitf("for %s := %d; %s > 0; %s-- {", i.name, n, i.name, i.name)
	case 1:
		g.emitf("for %s := 0; %s < %d; %s += 2 {", i.name, i.name, 2*n, i.name)
	default:
		g.emitf("for %s := 0; %s < %d; %s++ {", i.name, i.name, n, i.name)
	}
	g.loopBody()
	g.emitf("}")
	g.pop()
}

func (g *c14Gen) loopBody() {
	g.indent++
	g.inLoop++
	sw := g.inSw
	g.inSw = 0
	g.block(1 + g.r.intn(3))
	g.inSw = sw
	g.inLoop--
	g.indent--
}

func (g *c14Gen) rangeLoop() {
	g.push()
	defer g.pop()
	switch g.r.intn(5) {
	case 0, 1:
		xs := g.pickVar("[]int", false)
		if xs == nil {
			return
		}
		g.tag("range-slice")
		switch g.r.intn(3) {
		case 0:
			i, v := g.declare("int", true, 4096), g.declare("int", true, c14M)
			g.emitf("for %s, %s := range %s {", i.name, v.name, xs.name)
			g.emitf("\t_, _ = %s, %s", i.name, v.name)
		case 1:
			v := g.declare("int", true, c14M)
			g.emitf("for _, %s := range %s {", v.name, xs.name)
			g.emitf("\t_ = %s", v.name)
		default:
			i := g.declare("int", true, 4096)
			g.emitf("for %s := range %s {", i.name, xs.name)
			g.emitf("\t_ = %s", i.name)
		}
	case 2:
		g.tag("range-int")
		i := g.declare("int", true, 16)
		g.emitf("for %s := range %d {", i.name, 1+g.r.intn(6))
		g.emitf("\t_ = %s", i.name)
	case 3:
		s := g.pickVar("string", false)
		if s == nil {
			return
		}
		g.tag("string-index")
		i := g.declare("int", true, 4096)
		g.emitf("for %s := 0; %s < len(%s); %s++ {", i.name, i.name, s.name, i.name)
		if acc := g.pickVar("int", true); acc != nil {
			g.indent++
			g.emitf("%s = (%s*31 + int(%s[%s])) %% %d", acc.name, acc.name, s.name, i.name, c14M)
			g.indent--
		}
	default:
		mt := pick(g.r, []string{"map[int]int", "map[string]int"})
		m := g.pickVar(mt, false)
		acc := g.pickVar("int", true)
		if m == nil || acc == nil {
			return
		}
		// order-insensitive use only: Go's iteration order is random
		g.tag("range-map")
		if mt == "map[int]int" {
			g.emitf("for k, v := range %s {", m.name)
			g.emitf("\t%s = (%s + k*7 + v) %% %d", acc.name, acc.name, c14M)
		} else {
			g.emitf("for k, v := range %s {", m.name)
			g.emitf("\t%s = (%s + len(k) + v) %% %d", acc.name, acc.name, c14M)
		}
		g.emitf("}")
		return
	}
	g.loopBody()
	g.emitf("}")
}

func (g *c14Gen) whileLoop() {
	g.tag("while")
	g.push()
	n := g.declare("int", true, c14M)
	e := g.genIntFit(2)
	g.emitf("%s := %s", n.name, e)
	g.emitf("if %s < 0 {", n.name)
	g.emitf("\t%s = -%s", n.name, n.name)
	g.emitf("}")
	if g.r.bool() {
		g.emitf("for %s > 0 {", n.name)
		g.indent++
		g.emitf("%s /= %d", n.name, 2+g.r.intn(3))
		g.indent--
	} else {
		g.emitf("for {")
		g.indent++
		g.emitf("%s /= 3", n.name)
		g.emitf("if %s <= 1 {", n.name)
		g.emitf("\tbreak")
		g.emitf("}")
		g.indent--
	}
	g.loopBody()
	g.emitf("}")
	g.pop()
}

func (g *c14Gen) switchStmt() {
	g.tag("switch")
	kind := g.r.intn(4)
	g.push()
	defer g.pop()
	switch kind {
	case 0: // integer tag
		e, _ := g.genInt(2)
		if g.r.chance(30) {
			x := g.declare("int", true, 64)
			g.tag("switch-init")
			g.emitf("switch %s := (%s) %% 6; %s {", x.name, e, x.name)
		} else {
			g.emitf("switch (%s) %% 6 {", e)
		}
	case 1: // tagless
		g.emitf("switch {")
	case 2: // string tag
		g.emitf("switch %s {", g.strPure())
	default:
		g.emitf("switch %s {", g.genBool(1))
	}
	ncase := 2 + g.r.intn(3)
	defAt := -1
	if g.r.chance(70) {
		// the default clause comes last: anywhere else the unchanged compiler swaps it with the last clause, which
		// changes the order of the tests and the targets of fallthrough (known finding F142)
		defAt = ncase
		if c14Allow("earlydefault") {
			defAt = g.r.intn(ncase + 1)
		}
	}
	used := map[string]bool{}
	for c := 0; c <= ncase; c++ {
		last := c == ncase
		if c == defAt {
			g.emitf("default:")
		} else if last {
			break
		} else {
			var vals []string
			for j := 0; j < 1+g.r.intn(2); j++ {
				var v string
				switch kind {
				case 0:
					v = fmt.Sprint(g.r.intn(7) - 1)
				case 1:
					v = g.genBool(2)
				case 2:
					v = fmt.Sprintf("%q", pick(g.r, []string{"", "a", "neo", "hello", "zz9", "k", "go!", "q"}))
				default:
					v = pick(g.r, []string{"true", "false"})
				}
				if kind != 1 && used[v] {
					continue // duplicate constant cases are a compile error
				}
				used[v] = true
				vals = append(vals, v)
			}
			if len(vals) == 0 {
				continue
			}
			g.emitf("case %s:", strings.Join(vals, ", "))
		}
		g.indent++
		g.inSw++
		g.push() // a clause is a scope of its own
		g.stmts(1 + g.r.intn(2))
		if g.r.chance(30) {
			// an unlabelled break leaves the switch, also after a loop nested in the same clause
			g.tag("break-in-switch")
			if g.r.chance(60) && len(g.scopes) < 7 {
				g.tag("loop-then-break-in-switch")
				if g.r.bool() {
					g.forLoop()
				} else {
					g.rangeLoop()
				}
			}
			g.emitf("if %s {", g.genBool(1))
			g.emitf("\tbreak")
			g.emitf("}")
			if x := g.pickVar("int", true); x != nil {
				g.emitf("%s = (%s + %d) %% %d", x.name, x.name, 1+g.r.intn(900), c14M)
			}
			g.stmts(1)
		}
		g.pop()
		g.inSw--
		if (defAt == ncase && c < ncase || c14Allow("earlydefault") && defAt > c) && g.r.chance(15) { // the default clause below is certainly emitted
			g.tag("fallthrough")
			g.emitf("fallthrough")
		}
		g.indent--
	}
	g.emitf("}")
}

func (g *c14Gen) labelledLoops() {
	g.tag("labelled-loops")
	g.nlabel++
	l := fmt.Sprintf("L%d", g.nlabel)
	g.push()
	g.emitf("%s:", l)
	i := g.declare("int", true, 16)
	g.emitf("for %s := 0; %s < %d; %s++ {", i.name, i.name, 2+g.r.intn(3), i.name)
	g.indent++
	g.inLoop++
	g.labels = append(g.labels, l)
	g.stmts(1)
	g.push()
	j := g.declare("int", true, 16)
	g.emitf("for %s := 0; %s < %d; %s++ {", j.name, j.name, 2+g.r.intn(3), j.name)
	g.indent++
	g.inLoop++
	g.emitf("if %s == %d {", j.name, g.r.intn(3))
	g.emitf("\t%s %s", pick(g.r, []string{"continue", "break"}), l)
	g.emitf("}")
	g.block(2)
	g.inLoop--
	g.indent--
	g.emitf("}")
	g.pop()
	g.stmts(1)
	g.labels = g.labels[:len(g.labels)-1]
	g.inLoop--
	g.indent--
	g.emitf("}")
	g.pop()
}

func (g *c14Gen) sliceStmt() {
	switch g.r.intn(6) {
	case 0: // new slice
		v := g.declare("[]int", false, 0)
		v.own = true
		g.tag("slice-new")
		switch g.r.intn(3) {
		case 0:
			g.emitf("%s := []int{%s, %s, %s}", v.name, g.genIntFit(1), g.genIntFit(1), g.genIntFit(1))
			v.safe = 3
		case 1:
			g.emitf("%s := make([]int, %d)", v.name, 1+g.r.intn(4))
			v.safe = 1
		default:
			g.emitf("var %s []int", v.name)
		}
		g.use(v)
	case 1, 2: // append (always back into the same variable, never inside a loop over it)
		v := g.pickVar("[]int", true)
		if v == nil || !v.own || g.inLoop > 1 {
			return
		}
		g.tag("append")
		// containers stay small (the VM counts every element against its 2048-item limit)
		g.emitf("if len(%s) < 24 {", v.name)
		g.emitf("\t%s = append(%s, %s)", v.name, v.name, g.genIntFit(2))
		g.emitf("}")
	case 3: // guarded element write
		v := g.pickVar("[]int", false)
		if v == nil {
			return
		}
		g.tag("slice-store")
		k := g.r.intn(3)
		g.emitf("if len(%s) > %d {", v.name, k)
		g.emitf("\t%s[%d] = %s", v.name, g.r.intn(k+1), g.genIntFit(2))
		if g.r.bool() {
			g.emitf("\t%s[%d]++", v.name, k)
			g.emitf("\t%s[%d] %%= %d", v.name, k, c14M)
		}
		g.emitf("}")
	case 4: // guarded read
		v := g.pickVar("[]int", false)
		x := g.pickVar("int", true)
		if v == nil || x == nil {
			return
		}
		g.tag("slice-load")
		k := g.r.intn(3)
		g.emitf("if len(%s) > %d {", v.name, k)
		g.emitf("\t%s = (%s + %s[%d]) %% %d", x.name, x.name, v.name, k, c14M)
		g.emitf("}")
	default: // swap of elements
		v := g.pickVar("[]int", false)
		if v == nil {
			return
		}
		g.tag("slice-swap")
		g.emitf("if len(%s) > 1 {", v.name)
		g.emitf("\t%s[0], %s[1] = %s[1], %s[0]", v.name, v.name, v.name, v.name)
		g.emitf("}")
	}
}

func (g *c14Gen) mapStmt() {
	mt := pick(g.r, []string{"map[int]int", "map[string]int"})
	key := func() string {
		if mt == "map[int]int" {
			return fmt.Sprintf("(%s)%%5", g.genIntFit(1))
		}
		return g.strPure()
	}
	switch g.r.intn(6) {
	case 0:
		v := g.declare(mt, false, 0)
		g.tag("map-new")
		if g.r.bool() {
			g.emitf("%s := make(%s)", v.name, mt)
		} else if mt == "map[int]int" {
			g.emitf("%s := map[int]int{1: %s, 3: %s}", v.name, g.genIntFit(1), g.genIntFit(1))
		} else {
			g.emitf("%s := map[string]int{\"a\": %s, \"neo\": %s}", v.name, g.genIntFit(1), g.genIntFit(1))
		}
		g.use(v)
	case 1, 2:
		m := g.pickVar(mt, false)
		if m == nil {
			return
		}
		g.tag("map-store")
		g.emitf("%s[%s] = %s", m.name, key(), g.genIntFit(2))
	case 3: // comma-ok read
		m := g.pickVar(mt, false)
		x := g.pickVar("int", true)
		if m == nil || x == nil {
			return
		}
		g.tag("map-commaok")
		g.emitf("if mv, ok := %s[%s]; ok {", m.name, key())
		g.emitf("\t%s = (%s + mv) %% %d", x.name, x.name, c14M)
		g.emitf("} else {")
		g.emitf("\t%s = mv - 1", x.name)
		g.emitf("}")
	case 4:
		m := g.pickVar(mt, false)
		if m == nil {
			return
		}
		g.tag("map-delete")
		g.emitf("delete(%s, %s)", m.name, key())
	default: // store then read the same (present) key, update in place
		m := g.pickVar(mt, false)
		x := g.pickVar("int", true)
		if m == nil || x == nil {
			return
		}
		g.tag("map-load")
		k := "2"
		if mt != "map[int]int" {
			k = `"zz9"`
		}
		g.emitf("%s[%s] = %s", m.name, k, g.genIntFit(1))
		g.emitf("%s[%s] += 3", m.name, k)
		g.emitf("%s = %s[%s] + len(%s)", x.name, m.name, k, m.name)
	}
}

func (g *c14Gen) structStmt() {
	switch g.r.intn(8) {
	case 0:
		v := g.declare("S", false, 0)
		g.emitf("%s := %s", v.name, g.structLit(2))
		g.use(v)
	case 1:
		v := g.declare("*S", false, 0)
		g.tag("struct-ptr")
		g.emitf("%s := &%s", v.name, g.structLit(2))
		g.use(v)
	case 2, 3:
		t := pick(g.r, []string{"S", "*S"})
		v := g.pickVar(t, false)
		if v == nil || v.noSt {
			return
		}
		g.tag("field-store")
		switch g.r.intn(6) {
		case 0:
			g.emitf("%s.a = %s", v.name, g.genIntFit(2))
		case 1:
			g.emitf("%s.b = %s", v.name, g.genBool(2))
		case 2:
			g.emitf("%s.in.p = %s", v.name, g.genIntFit(2))
		case 3:
			g.emitf("%s.in.q++", v.name)
			g.emitf("%s.in.q %%= %d", v.name, c14M)
		case 4:
			if t != "*S" {
				return
			}
			g.emitf("if len(%s.xs) < 24 {", v.name)
			g.emitf("\t%s.xs = append(%s.xs, %s)", v.name, v.name, g.genIntFit(1))
			g.emitf("}")
		default:
			g.emitf("%s.a, %s.in.p = %s.in.p, %s.a", v.name, v.name, v.name, v.name)
		}
	case 4: // slice of structs: append copies, element fields are updated in place
		v := g.declare("[]S", false, 0)
		g.tag("struct-slice")
		g.emitf("%s := []S{%s}", v.name, g.structLit(1))
		g.emitf("%s = append(%s, %s)", v.name, v.name, g.structLit(1))
		g.emitf("%s[1].a = %s", v.name, g.genIntFit(1))
		g.emitf("%s[0].in.q += 2", v.name)
		g.use(v)
		if x := g.pickVar("int", true); x != nil {
			g.emitf("for _, e := range %s {", v.name)
			g.emitf("\t%s = (%s + e.a + e.in.q + len(e.s)) %% %d", x.name, x.name, c14M)
			g.emitf("}")
		}
	case 5: // a struct stored in a slice is a copy
		s := g.pickVar("S", false)
		x := g.pickVar("int", true)
		if s == nil || x == nil {
			return
		}
		g.tag("struct-slice-copy")
		g.emitf("{")
		g.emitf("\tcp := []S{}")
		g.emitf("\tcp = append(cp, %s)", s.name)
		g.emitf("\tcp[0].a = %s.a + 1", s.name)
		g.emitf("\t%s = (cp[0].a - %s.a + %s) %% %d", x.name, s.name, x.name, c14M)
		g.emitf("}")
	case 6:
		s := g.pickVar("S", false)
		x := g.pickVar("int", true)
		if !c14Allow("structcopy") || s == nil || x == nil {
			return
		}
		g.tag("struct-copy")
		g.emitf("{")
		g.emitf("\tcp := %s", s.name)
		g.emitf("\tcp.a = %s.a + 1", s.name)
		g.emitf("\tcp.in.p = %s.in.p + 2", s.name)
		g.emitf("\tvar cq S")
		g.emitf("\tcq = cp")
		g.emitf("\tcq.a += 5")
		g.emitf("\t%s = (cp.a - %s.a + cp.in.p - %s.in.p + cq.a - cp.a + %s) %% %d", x.name, s.name, s.name, x.name, c14M)
		g.emitf("}")
	default: // slice of pointers
		p := g.pickVar("*S", false)
		if p == nil {
			return
		}
		g.tag("ptr-slice")
		g.emitf("{")
		g.emitf("\tps := []*S{%s, &%s}", p.name, g.structLit(1))
		g.emitf("\tps[0].a = (ps[0].a + ps[1].a) %% %d", c14M)
		g.emitf("\tps[1].in.p = ps[0].in.p")
		g.emitf("}")
	}
}

func (g *c14Gen) callStmt() {
	var cands []c14FuncSig
	for _, f := range g.funcs {
		if (len(f.rets) != 1 || !f.pure) && (f.pure || !g.noGlob) {
			cands = append(cands, f)
		}
	}
	if len(cands) == 0 {
		return
	}
	f := cands[g.r.intn(len(cands))]
	e, ok := g.callExpr(f, 2)
	if !ok {
		return
	}
	if len(f.rets) == 0 {
		g.tag("call-stmt")
		g.emitf("%s", e)
		return
	}
	if len(f.rets) == 1 {
		// a call with side effects is the whole right-hand side
		g.tag("call-assign")
		if v := g.pickVar(f.rets[0], true); v != nil && !(f.rets[0] == "string" && (v.glob || g.inLoop > 0)) {
			if f.rets[0] == "string" {
				v.buf = true
			}
			g.emitf("%s = %s", v.name, e)
		} else {
			g.emitf("_ = %s", e)
		}
		return
	}
	// multiple results
	g.tag("multi-return")
	var lhs []string
	fresh := g.r.bool()
	// results that are nil after a recovered panic ([]byte, pointer, map) are not made available to the other
	// statement templates, which assume non-nil values (copy from a nil slice, delete / comma-ok on a nil map fault
	// in the VM: F155 in notes/C14.md); they are consumed by reveal only
	nilProne := func(t string) bool { return t == "[]byte" || t == "*S" || strings.HasPrefix(t, "map[") }
	for _, t := range f.rets {
		if nilProne(t) {
			fresh = true
		}
	}
	for _, t := range f.rets {
		if fresh && nilProne(t) {
			g.nvar++
			lhs = append(lhs, fmt.Sprintf("w%d", g.nvar))
			continue
		}
		if fresh {
			v := g.declare(t, false, c14M)
			if t == "string" {
				v.bound, v.buf = 700, true
			}
			lhs = append(lhs, v.name)
		} else if v := g.pickVar(t, true); v != nil && !contains(lhs, v.name) && !(t == "string" && (v.glob || g.inLoop > 0)) {
			if t == "string" {
				v.bound, v.buf = max(v.bound, 700), true
			}
			lhs = append(lhs, v.name)
		} else {
			lhs = append(lhs, "_")
		}
	}
	op := "="
	if fresh {
		op = ":="
	}
	allBlank := true
	for _, l := range lhs {
		if l != "_" {
			allBlank = false
		}
	}
	if allBlank {
		op = "="
	}
	g.emitf("%s %s %s", strings.Join(lhs, ", "), op, e)
	if fresh {
		g.emitf("%s = %s", strings.TrimSuffix(strings.Repeat("_, ", len(lhs)), ", "), strings.Join(lhs, ", "))
	}
	// every result is used in a way that shows its type and its position
	if acc := g.pickVar("int", true); acc != nil && !contains(lhs, acc.name) {
		for i, l := range lhs {
			if l != "_" {
				g.reveal(acc.name, l, f.rets[i], i)
			}
		}
	}
}

// reveal folds the value v of type typ into the int variable acc so that a value of another type, or the zero value
// in place of a non-zero one, changes the outcome (or makes one side fail).
func (g *c14Gen) reveal(acc, v, typ string, pos int) {
	k := 3 + 2*pos
	switch typ {
	case "int":
		g.emitf("%s = (%s*31 + %s*%d) %% %d", acc, acc, v, k, c14M)
	case "bool":
		g.emitf("if %s {", v)
		g.emitf("\t%s = (%s + %d) %% %d", acc, acc, 100+k, c14M)
		g.emitf("}")
	case "string":
		g.emitf("%s = (%s*7 + len(%s)*%d) %% %d", acc, acc, v, k, c14M)
	case "[]int":
		g.emitf("%s = (%s + len(%s)*%d) %% %d", acc, acc, v, 10+k, c14M)
		g.emitf("for ri, rv := range %s {", v)
		g.emitf("\t%s = (%s + rv*(ri+%d)) %% %d", acc, acc, k, c14M)
		g.emitf("}")
	case "[]byte":
		g.emitf("%s = (%s + len(%s)*%d) %% %d", acc, acc, v, 20+k, c14M)
		g.emitf("if len(%s) > 0 {", v)
		g.emitf("\t%s = (%s + int(%s[0])) %% %d", acc, acc, v, c14M)
		g.emitf("}")
	case "S":
		g.emitf("%s = (%s + %s.a*%d + len(%s.s) + %s.in.p + len(%s.xs)) %% %d", acc, acc, v, k, v, v, v, c14M)
		g.emitf("if %s.b {", v)
		g.emitf("\t%s = (%s + %d) %% %d", acc, acc, 200+k, c14M)
		g.emitf("}")
	case "*S":
		g.emitf("if %s != nil {", v)
		g.emitf("\t%s = (%s + %s.a*%d + %s.in.q + 1) %% %d", acc, acc, v, k, v, c14M)
		g.emitf("}")
	case "map[int]int", "map[string]int":
		g.emitf("%s = (%s + len(%s)*%d) %% %d", acc, acc, v, 30+k, c14M)
		g.emitf("for _, rv := range %s {", v)
		g.emitf("\t%s = (%s + rv) %% %d", acc, acc, c14M)
		g.emitf("}")
	}
}

// nonZero: an expression of type typ that is not the zero value, built from the int variable x
func (g *c14Gen) nonZero(typ, x string) string {
	switch typ {
	case "int":
		return fmt.Sprintf("%s%%1000 + %d", x, 1001+g.r.intn(50))
	case "bool":
		return "true"
	case "string":
		return fmt.Sprintf("%q", pick(g.r, []string{"ok", "neo", "result!"}))
	case "[]int":
		return fmt.Sprintf("[]int{%s %% 100, %d}", x, 1+g.r.intn(9))
	case "[]byte":
		return fmt.Sprintf("[]byte{%d, %d, 3}", 1+g.r.intn(200), g.r.intn(200))
	case "S":
		return fmt.Sprintf("S{a: %s%%50 + 1, b: true, s: \"st\", xs: []int{1}, in: T{p: %d, q: 2}}", x, 1+g.r.intn(9))
	case "*S":
		return fmt.Sprintf("&S{a: %s%%50 + 1, in: T{q: %d}}", x, 1+g.r.intn(9))
	case "map[int]int":
		return fmt.Sprintf("map[int]int{1: %s %% 100, 2: %d}", x, 1+g.r.intn(9))
	}
	panic("nonZero " + typ)
}

// multiRecover: a function with two or three results of different types that recovers, in its own deferred call, a
// panic raised under it; after the recovery the results are the zero values, in the order of the result list (the
// code generator pushes them itself; the first result is on top of the stack). Results are unnamed, or named with
// one name per result and not assigned before the panic (F149, F154: see notes/C14.md).
func (g *c14Gen) multiRecover(name string) {
	r := g.r
	all := []string{"int", "bool", "string", "[]int", "[]byte", "S", "*S", "map[int]int", "int"}
	n := 2 + r.intn(2)
	var rets []string
	for len(rets) < n {
		t := all[r.intn(len(all))]
		if !contains(rets, t) || (t == "int" && r.chance(30)) {
			rets = append(rets, t)
		}
	}
	g.tag("multi-recover")
	named := r.chance(40)
	var rs []string
	for i, t := range rets {
		if named {
			rs = append(rs, fmt.Sprintf("r%d %s", i, t))
		} else {
			rs = append(rs, t)
		}
	}
	g.emitf("func %s(a int, f bool) (%s) {", name, strings.Join(rs, ", "))
	g.indent++
	switch r.intn(3) {
	case 0:
		g.emitf("defer func() {")
		g.emitf("\trecover()")
		g.emitf("}()")
	case 1:
		g.emitf("defer func() {")
		g.emitf("\tif x := recover(); x != nil {")
		g.emitf("\t\tnote(%d)", 500+r.intn(50))
		g.emitf("\t}")
		g.emitf("}()")
	default:
		g.emitf("defer recoverer()")
	}
	g.emitf("x := thrower(a) * 3")
	g.emitf("_ = x")
	if r.bool() {
		g.emitf("if f {")
		g.emitf("\tx = thrower(x+a) + x")
		g.emitf("}")
	}
	var vals []string
	for _, t := range rets {
		vals = append(vals, g.nonZero(t, "x"))
	}
	g.emitf("return %s", strings.Join(vals, ", "))
	g.indent--
	g.emitf("}")
	g.emitf("")
	g.funcs = append(g.funcs, c14FuncSig{name: name, params: []string{"int", "bool"}, rets: rets, pure: true})
	g.mrFuncs = append(g.mrFuncs, c14FuncSig{name: name, rets: rets})
}

func contains(xs []string, x string) bool {
	for _, y := range xs {
		if x == y {
			return true
		}
	}
	return false
}

func (g *c14Gen) bytesStmt() {
	switch g.r.intn(5) {
	case 0:
		v := g.declare("[]byte", false, 0)
		v.own = true
		g.tag("bytes-new")
		switch g.r.intn(3) {
		case 0:
			g.emitf("%s := []byte{1, 2, %d}", v.name, g.r.intn(256))
		case 1:
			g.emitf("%s := []byte(%s)", v.name, g.strLeaf())
		default:
			g.emitf("%s := make([]byte, %d)", v.name, 1+g.r.intn(4))
		}
		g.use(v)
	case 1:
		v := g.pickVar("[]byte", true)
		if v == nil || !v.own || g.inLoop > 1 {
			return
		}
		g.tag("bytes-append")
		if g.r.bool() {
			g.emitf("if len(%s) < 64 {", v.name)
			g.emitf("\t%s = append(%s, %d, %d)", v.name, v.name, g.r.intn(256), g.r.intn(256))
			g.emitf("}")
		} else {
			g.emitf("if len(%s) < 64 {", v.name)
			g.emitf("\t%s = append(%s, []byte(%s)...)", v.name, v.name, g.strLeaf())
			g.emitf("}")
		}
	case 2:
		v := g.pickVar("[]byte", false)
		x := g.pickVar("int", true)
		if v == nil || x == nil {
			return
		}
		g.tag("bytes-index")
		g.emitf("if len(%s) > 1 {", v.name)
		g.emitf("\t%s[0] = %s[1]", v.name, v.name)
		g.emitf("\t%s = (%s + int(%s[0])) %% %d", x.name, x.name, v.name, c14M)
		g.emitf("}")
	case 3:
		s := g.pickVar("string", false)
		t := g.pickVar("string", true)
		if s == nil || t == nil || t.glob || g.inLoop > 0 {
			return
		}
		t.buf = true
		g.tag("substring")
		g.emitf("if len(%s) >= 3 {", s.name)
		g.emitf("\t%s = %s[1:3] + %s[:1] + %s[2:]", t.name, s.name, s.name, s.name)
		g.emitf("}")
	default:
		v := g.pickVar("[]byte", false)
		if v == nil {
			return
		}
		g.tag("copy")
		g.emitf("{")
		g.emitf("\tdst := make([]byte, 3)")
		g.emitf("\tn := copy(dst, %s)", v.name)
		g.emitf("\tdst[2] = byte(n)")
		if x := g.pickVar("int", true); x != nil {
			g.emitf("\t%s = (%s + int(dst[0]) + int(dst[2])) %% %d", x.name, x.name, c14M)
		}
		g.emitf("}")
	}
}

func (g *c14Gen) arrayStmt() {
	x := g.pickVar("int", true)
	if x == nil {
		return
	}
	g.tag("array-value")
	g.emitf("{")
	g.emitf("\tar := [3]int{%s, 2, 3}", g.genIntFit(1))
	g.emitf("\tbr := ar")
	g.emitf("\tbr[1] = ar[0] + 1")
	g.emitf("\tar[2] = br[1] - br[2]")
	g.emitf("\t%s = (ar[0] + ar[1]*3 + ar[2]*5 + br[1]*7) %% %d", x.name, c14M)
	g.emitf("}")
}

func (g *c14Gen) lambdaStmt() {
	x := g.pickVar("int", true)
	if x == nil || g.inInit {
		return
	}
	// function values take one argument here: with two or more the unchanged compiler passes them in
	// reverse order (known finding, reproduced from corpus/C14)
	g.tag("lambda")
	if c14Allow("lambda2") {
		g.emitf("{")
		g.emitf("\tfn2 := func(p int, q bool, r int) int {")
		g.emitf("\t\tif q {")
		g.emitf("\t\t\treturn p*2 + r")
		g.emitf("\t\t}")
		g.emitf("\t\treturn p - r")
		g.emitf("\t}")
		g.emitf("\t%s = (fn2(%s, %s, 5) + fn2(3, false, %s)) %% %d", x.name, g.genIntFit(1), g.genBool(1), g.genIntFit(1), c14M)
		g.emitf("}")
		return
	}
	g.emitf("{")
	g.emitf("\tfn := func(p int) int {")
	g.emitf("\t\tif p%%2 == 0 {")
	g.emitf("\t\t\treturn p*2 + 1")
	g.emitf("\t\t}")
	g.emitf("\t\treturn p - 1")
	g.emitf("\t}")
	g.emitf("\tfs := []func(int) int{fn, func(q int) int { return q %% 7 }}")
	g.emitf("\t%s = (fn(%s) + fs[1](fs[0](3))) %% %d", x.name, g.genIntFit(1), c14M)
	g.emitf("}")
}

// ---------- functions ----------

func (g *c14Gen) function(name string, recv string, params []string, rets []string, nstmt int, pure bool, exported bool) {
	g.scopes = nil
	g.push()
	g.noGlob = pure
	g.inLoop, g.inSw, g.labels = 0, 0, nil
	var ps []string
	for _, t := range params {
		g.nvar++
		v := &c14Var{name: fmt.Sprintf("p%d", g.nvar), typ: strings.TrimPrefix(t, "..."), bound: c14M}
		if t == "string" {
			v.bound = 600
		}
		if t == "...int" {
			v.typ = "[]int"
			v.ro = true
		}
		g.addVar(v)
		ps = append(ps, v.name+" "+t)
	}
	rcv := ""
	if recv != "" {
		v := &c14Var{name: "rc", typ: recv, noSt: recv == "S"}
		g.addVar(v)
		rcv = "(rc " + recv + ") "
	}
	rs := strings.Join(rets, ", ")
	if len(rets) > 1 {
		rs = "(" + rs + ")"
	}
	g.emitf("func %s%s(%s) %s {", rcv, name, strings.Join(ps, ", "), rs)
	g.indent++
	g.retType = ""
	if len(rets) == 1 {
		g.retType = rets[0]
	}
	g.budget = nstmt
	g.noRet = len(rets) > 1 // an early return would need all the values
	acc := g.declare("int", false, c14M)
	g.emitf("%s := %s", acc.name, g.genIntFit(1))
	g.use(acc)
	if g.noRet {
		g.stmts(nstmt)
		var es []string
		for _, t := range rets {
			e, _ := g.genOf(t, 2)
			es = append(es, e)
		}
		g.pop()
		g.emitf("return %s", strings.Join(es, ", "))
	} else {
		g.stmts(nstmt)
		// every parameter takes part in the result
		for _, sc := range g.scopes[:1] {
			for _, v := range sc {
				switch {
				case v.typ == "int" && v.name != acc.name:
					g.emitf("%s = (%s*31 + %s) %% %d", acc.name, acc.name, v.name, c14M)
				case v.typ == "bool":
					g.emitf("if %s {", v.name)
					g.emitf("\t%s = (%s + 7) %% %d", acc.name, acc.name, c14M)
					g.emitf("}")
				case v.typ == "string" || v.typ == "[]int" || v.typ == "[]byte":
					g.emitf("%s = (%s*3 + len(%s)) %% %d", acc.name, acc.name, v.name, c14M)
				}
			}
		}
		if g.retType == "bool" {
			e := g.genBool(2)
			g.pop()
			g.emitf("return (%s) != (%s%%2 == 0)", e, acc.name)
		} else if g.retType == "int" {
			e, b := g.genInt(2)
			e, _ = reduce(fmt.Sprintf("%s + %s", acc.name, g.par(e)), b+c14M)
			g.pop()
			g.emitf("return %s", e)
		} else if g.retType != "" {
			e, ok := g.genOf(g.retType, 2)
			if !ok {
				e = g.zero(g.retType)
			}
			g.pop()
			g.emitf("return %s", e)
		} else {
			g.pop()
		}
	}
	g.indent--
	g.emitf("}")
	g.emitf("")
	g.funcs = append(g.funcs, c14FuncSig{name: name, params: params, rets: rets, recv: recv, pure: pure})
}

const c14Types = `
type T struct {
	p, q int
}

type S struct {
	a  int
	b  bool
	s  string
	xs []int
	in T
}

// constants for the keys of composite literals
const (
	K0 = iota
	K1
	K2
	K3
)
const KN = 6
`

// c14GenUnit generates one program.
func c14GenUnit(r *rng, pkg string, nEntry int, hist map[string]int) c14Unit {
	g := &c14Gen{r: r, pkg: pkg, sb: &strings.Builder{}, hist: hist}
	helper := "h" + pkg
	g.helper = helper
	var hdr strings.Builder
	fmt.Fprintf(&hdr, "package %s\n\nimport %q\n", pkg, c14InlinePath+"/"+helper)
	hdr.WriteString(c14Types)
	g.sb = &strings.Builder{}

	// package-level variables: every initialiser refers to earlier declarations only
	g.push()
	nglob := 2 + r.intn(5)
	g.noFault++
	g.emitf("var log []int")
	g.emitf("")
	g.noGlob = false
	for i := 0; i < nglob; i++ {
		typ := pick(r, []string{"int", "int", "bool", "string", "[]int", "map[int]int", "S", "*S", "map[string]int"})
		name := fmt.Sprintf("G%d", i)
		e, _ := g.genOf(typ, 2)
		if typ == "S" {
			e = g.structLit(2) // never a copy of another struct variable (known finding F143)
		}
		if typ == "int" && len(g.globals) > 0 && r.chance(50) {
			g.tag("global-dep")
		}
		g.emitf("var %s %s = %s", name, strings.TrimPrefix(typ, ""), e)
		v := &c14Var{name: name, typ: typ, bound: c14M, glob: true}
		if typ == "string" {
			v.bound = 64
		}
		g.globals = append(g.globals, v)
	}
	g.noFault--
	g.emitf("")
	// helpers used by the templates
	g.emitf("func note(k int) {")
	g.emitf("\tif len(log) < 48 {")
	g.emitf("\t\tlog = append(log, k)")
	g.emitf("\t}")
	g.emitf("}")
	g.emitf("")
	g.emitf("func logsum() int {")
	g.emitf("\ts := len(log)")
	g.emitf("\tfor i, k := range log {")
	g.emitf("\t\ts = (s*31 + k*(i+1)) %% %d", c14M)
	g.emitf("\t}")
	g.emitf("\treturn s")
	g.emitf("}")
	g.emitf("")
	g.emitf("func thrower(k int) int {")
	g.emitf("\tif k%%5 == 3 {")
	g.emitf("\t\tpanic(\"thrown\")")
	g.emitf("\t}")
	g.emitf("\treturn k + 1")
	g.emitf("}")
	g.emitf("")
	g.funcs = append(g.funcs, c14FuncSig{name: "note", params: []string{"int"}, rets: nil})
	// init functions
	for i := 0; i < r.intn(3); i++ {
		g.tag("init-func")
		g.scopes = nil
		g.push()
		g.emitf("func init() {")
		g.indent++
		g.retType = ""
		g.budget = 4
		// no return and no function literal inside init(): the unchanged compiler concatenates the init
		// functions into _initialize, where a return leaves all of it and a literal's code is fallen into
		// nothing that can fail either: under the Go toolchain all generated packages are linked into one
		// binary, a panic during initialisation would take every call of the batch with it
		g.noRet, g.inInit = true, true
		g.noFault++
		g.emitf("note(%d)", 900+i)
		g.stmts(3)
		g.noFault--
		g.noRet, g.inInit = false, false
		g.pop()
		g.indent--
		g.emitf("}")
		g.emitf("")
	}
	// internal functions: pure ones first (callable from anywhere), then stateful ones, methods
	g.function("fa", "", []string{"int", "int"}, []string{"int"}, 5, true, false)
	g.function("fb", "", []string{"int", "bool"}, []string{"bool"}, 4, true, false)
	g.function("fc", "", []string{"int", "...int"}, []string{"int"}, 4, true, false)
	g.function("fd", "", []string{"int", "int"}, []string{"int", "int"}, 4, true, false)
	g.function("fe", "", []string{"string", "int"}, []string{"int", "string", "bool"}, 3, true, false)
	g.function("ff", "", []string{"S", "int"}, []string{"int"}, 5, true, false)   // struct by value: the callee works on a copy
	g.function("fg", "", []string{"*S", "int"}, []string{"int"}, 5, false, false) // through a pointer: the caller sees the updates
	g.function("fh", "", []string{"[]int", "int"}, []string{"int"}, 5, false, false)
	g.function("fi", "", []string{"int"}, nil, 4, false, false)
	g.function("fj", "", []string{"int", "string"}, []string{"string"}, 4, false, false)
	g.function("sum3", "S", []string{"int", "int", "bool"}, []string{"int"}, 2, true, false)
	g.function("get", "S", []string{"int"}, []string{"int"}, 3, true, false) // value receiver: reads only (see notes: receivers are not copied)
	g.function("upd", "*S", []string{"int"}, nil, 4, false, false)
	g.function("calc", "*S", []string{"int", "bool"}, []string{"int"}, 4, false, false)
	// recursion by template: argument clamped by the entry function
	g.emitf("func rec1(n, acc int) int {")
	g.emitf("\tif n <= 0 {")
	g.emitf("\t\treturn acc")
	g.emitf("\t}")
	g.emitf("\treturn rec1(n-1, (acc*%d+n)%%%d)", 3+r.intn(9), c14M)
	g.emitf("}")
	g.emitf("")
	g.emitf("func recA(n int) int {")
	g.emitf("\tif n <= 0 {")
	g.emitf("\t\treturn %d", r.intn(9))
	g.emitf("\t}")
	g.emitf("\treturn recB(n-1) + %d", 1+r.intn(5))
	g.emitf("}")
	g.emitf("")
	g.emitf("func recB(n int) int {")
	g.emitf("\tif n <= 0 {")
	g.emitf("\t\treturn %d", r.intn(9))
	g.emitf("\t}")
	g.emitf("\tif n%%%d == 0 {", 2+r.intn(3))
	g.emitf("\t\treturn recA(n-2) * 2")
	g.emitf("\t}")
	g.emitf("\treturn recA(n-1) - 1")
	g.emitf("}")
	g.emitf("")
	g.emitf("func fib(n int) int {")
	g.emitf("\tif n < 2 {")
	g.emitf("\t\treturn n")
	g.emitf("\t}")
	g.emitf("\treturn fib(n-1) + fib(n-2)")
	g.emitf("}")
	g.emitf("")
	for _, n := range []string{"rec1", "recA", "recB", "fib"} {
		_ = n
	}
	// several results of different types, also after a recovered panic
	g.emitf("func recoverer() {")
	g.emitf("\trecover()")
	g.emitf("}")
	g.emitf("")
	for i := 0; i < 3+r.intn(3); i++ {
		g.multiRecover(fmt.Sprintf("mr%d", i))
	}
	// defer / recover templates
	ndef := 1 + r.intn(3)
	for i := 0; i < ndef; i++ {
		g.deferFunc(fmt.Sprintf("df%d", i))
	}
	// entry functions
	var entries []c14Func
	retTypes := []string{"int", "int", "int", "int", "bool", "string", "[]int", "[]byte", "map[int]int", "map[string]int", "S", "*S", "[]S", ""}
	for i := 0; i < nEntry; i++ {
		np := r.intn(4)
		var params []string
		for j := 0; j < np; j++ {
			params = append(params, pick(r, []string{"int", "int", "int", "bool", "string", "[]int", "[]byte"}))
		}
		ret := retTypes[r.intn(len(retTypes))]
		name := fmt.Sprintf("E%d", i)
		switch {
		case i%9 == 7: // recursion entry
			g.tag("recursion")
			g.emitf("func %s(n int, k int) int {", name)
			g.emitf("\tn = (n%%13 + 13) %% 13")
			g.emitf("\treturn (rec1(n, k%%%d)*7 + recA(n)*3 + fib(n)) %% %d", c14M, c14M)
			g.emitf("}")
			g.emitf("")
			entries = append(entries, c14Func{Name: name, Params: []string{"int", "int"}, Ret: "int"})
			continue
		case i%9 == 6: // several results, normal path and path of the recovered panic
			g.tag("multi-recover-entry")
			f := g.mrFuncs[r.intn(len(g.mrFuncs))]
			g.emitf("func %s(a int, f bool) int {", name)
			g.indent++
			g.emitf("acc := a %% 1000")
			for k, arg := range []string{"a", "(a%1000)*5 + 3", "(a%1000)*5 + 1"} {
				var lhs []string
				for i := range f.rets {
					lhs = append(lhs, fmt.Sprintf("u%d_%d", k, i))
				}
				if k == 2 && len(lhs) > 2 {
					lhs[1] = "_"
				}
				g.emitf("%s := %s(%s, f)", strings.Join(lhs, ", "), f.name, arg)
				for i, l := range lhs {
					if l != "_" {
						g.reveal("acc", l, f.rets[i], i)
					}
				}
			}
			g.emitf("return (acc + logsum()) %% %d", c14M)
			g.indent--
			g.emitf("}")
			g.emitf("")
			entries = append(entries, c14Func{Name: name, Params: []string{"int", "bool"}, Ret: "int"})
			continue
		case i%9 == 5: // named results, parameters and package-level variables hidden by inner declarations
			g.tag("shadow-entry")
			gi := ""
			for _, v := range g.globals {
				if v.typ == "int" {
					gi = v.name
				}
			}
			c1, c2, c3 := 1+r.intn(9), 1+r.intn(9), r.intn(3)
			g.emitf("func sh%d(p int, f bool) (res int, ok bool) {", i)
			g.emitf("\tres = p %% 1000")
			g.emitf("\tfor i := 0; i < %d; i++ {", 4+r.intn(3))
			g.emitf("\t\tswitch (i + %d) %% 4 {", c3)
			clauses := [][]string{
				{"case 0:", // hides both results, and the parameter with another type
					fmt.Sprintf("res := i*%d + %d", c1, c2), fmt.Sprintf("ok := res > %d", c2+2), "p := ok",
					"if p {", "\tres++", "}", "_ = res"},
				{"case 1:", fmt.Sprintf("res = (res*3 + p%%1000 + i) %% %d", c14M)},
				{"case 2:", "ok = !ok", "if f {", "\tp = (p%1000 + res + 1) % 1000", "}"},
				{"default:", fmt.Sprintf("res = (res + p%%7 + %d) %% %d", c1, c14M)},
			}
			if gi != "" {
				clauses[0] = append(clauses[0], fmt.Sprintf("%s := %q", gi, pick(r, []string{"g", "gg", ""})), fmt.Sprintf("res += len(%s)", gi), "_ = res")
				clauses[1] = append(clauses[1], fmt.Sprintf("res = (res + %s%%1000) %% %d", gi, c14M))
				clauses[3] = append(clauses[3], fmt.Sprintf("%s = (%s%%1000 + i + 1) %% %d", gi, gi, c14M))
			}
			// the default clause anywhere; the declaring clause before the ones that mean the outer names
			order := []int{0, 1, 2}
			at := r.intn(4)
			order = append(order[:at], append([]int{3}, order[at:]...)...)
			for _, c := range order {
				g.emitf("\t\t%s", clauses[c][0])
				for _, l := range clauses[c][1:] {
					g.emitf("\t\t\t%s", l)
				}
			}
			g.emitf("\t\t}")
			g.emitf("\t\tif i%%2 == 0 {")
			g.emitf("\t\t\tres := res + %d", c2)
			g.emitf("\t\t\tok = ok != (res%%2 == 0)")
			g.emitf("\t\t} else if p%%3 == %d {", r.intn(3))
			g.emitf("\t\t\tres = (res + 11) %% %d", c14M)
			g.emitf("\t\t}")
			g.emitf("\t}")
			if r.bool() {
				g.emitf("\treturn")
			} else {
				g.emitf("\treturn res, ok")
			}
			g.emitf("}")
			g.emitf("")
			g.emitf("func %s(a int, f bool) int {", name)
			g.emitf("\tv, ok := sh%d(a%%100000, f)", i)
			g.emitf("\tif ok {")
			g.emitf("\t\tv += 500009")
			g.emitf("\t}")
			if gi != "" {
				g.emitf("\treturn (v*31 + %s%%1000) %% %d", gi, c14M)
			} else {
				g.emitf("\treturn v %% %d", c14M)
			}
			g.emitf("}")
			g.emitf("")
			entries = append(entries, c14Func{Name: name, Params: []string{"int", "bool"}, Ret: "int"})
			continue
		case i%9 == 3 && c14Allow("arrret"): // fixed-size arrays returned among several results
			entries = append(entries, g.arrayRetEntry(name))
			continue
		case i%9 == 4 && c14Allow("recseq"): // several functions with defers / recovers in one invocation
			entries = append(entries, g.recoverSeqEntry(name))
			continue
		case i%9 == 8: // defer entry
			g.tag("defer-entry")
			g.emitf("func %s(a int, f bool) int {", name)
			g.emitf("\tr := df%d(a%%%d, f)", r.intn(ndef), 1000)
			g.emitf("\tr2 := df%d(a%%7+1, !f)", r.intn(ndef))
			g.emitf("\treturn (r*1009 + r2*31 + logsum()) %% %d", c14M)
			g.emitf("}")
			g.emitf("")
			entries = append(entries, c14Func{Name: name, Params: []string{"int", "bool"}, Ret: "int"})
			continue
		}
		var rets []string
		if ret != "" {
			rets = []string{ret}
		}
		g.function(name, "", params, rets, 6+r.intn(8), false, true)
		entries = append(entries, c14Func{Name: name, Params: params, Ret: ret})
	}
	g.pop()
	u := c14Unit{Pkg: pkg, Src: hdr.String() + "\n" + g.sb.String(), Funcs: entries,
		Helpers: map[string]string{helper: c14HelperSrc(helper, r)}}
	if !strings.Contains(u.Src, helper+".") {
		u.Src = strings.Replace(u.Src, fmt.Sprintf("import %q\n", c14InlinePath+"/"+helper), "", 1)
		u.Helpers = map[string]string{}
	}
	return u
}

// Two shapes, because the unchanged compiler handles only these (known findings in notes/C14.md): several
// deferred calls when nothing can panic under them, or a single deferred recover when something can.
func (g *c14Gen) deferFunc(name string) {
	g.tag("defer")
	r := g.r
	g.emitf("func %s(a int, f bool) int {", name)
	g.indent++
	if r.bool() {
		g.tag("defer-order")
		g.emitf("defer note(%d)", 100+r.intn(50))
		if r.bool() {
			g.emitf("if f {")
			g.emitf("\tdefer note(%d)", 200+r.intn(50))
			g.emitf("}")
			g.tag("defer-conditional")
		}
		if r.bool() {
			g.emitf("defer func() {")
			g.emitf("\tnote(%d)", 300+r.intn(50))
			g.emitf("}()")
		}
		g.emitf("defer note(%d)", 400+r.intn(50))
		g.emitf("note(a %% 97)")
		g.emitf("x := (a*3 + %d) %% 1000", r.intn(100))
		g.emitf("if x%%2 == 0 {")
		g.emitf("\tnote(x)")
		g.emitf("\treturn x + 1")
		g.emitf("}")
		g.emitf("note(x %% 89)")
		g.emitf("return x")
	} else {
		g.tag("recover")
		if r.bool() {
			g.emitf("defer func() {")
			g.emitf("\trecover()")
			g.emitf("}()")
		} else if r.bool() {
			g.emitf("defer func() {")
			g.emitf("\tif x := recover(); x != nil {")
			g.emitf("\t\tnote(%d)", 300+r.intn(50))
			g.emitf("\t}")
			g.emitf("}()")
		} else {
			g.emitf("defer func() {")
			g.emitf("\tnote(%d)", 350+r.intn(50))
			g.emitf("\trecover()")
			g.emitf("}()")
		}
		g.emitf("note(a %% 97)")
		g.emitf("x := thrower(a) * 3")
		if r.bool() {
			g.emitf("if f {")
			g.emitf("\tx = thrower(x + a)")
			g.emitf("}")
		}
		g.emitf("note(x %% 89)")
		g.emitf("return x %% %d", c14M)
	}
	g.indent--
	g.emitf("}")
	g.emitf("")
}

// ---------- the saved panic value across several defers / recovers of one invocation ----------
//
// recover() reads AND clears the slot that holds the panic value, in whatever syntactic position it stands. One entry
// function calls 2-4 functions with defers one after the other: bodies that panic or not (by argument), deferred
// closures that call recover() as a bare statement, as `_ = recover()`, as `r := recover()` tested for nil, inside a
// condition, not at all, or twice in a row (the second one must see nil); several defers in a function that does not
// panic (each recover() must see nil — also after an EARLIER function of the sequence swallowed a panic); an inner
// function that recovers under an outer one whose defers test recover(); a deferred function that panics again.
// Inside what the unchanged compiler handles like Go (notes: F147-F149): a function under which something can panic
// has exactly one defer, a closure that calls recover(); results are unnamed.

// recForm emits the body of a deferred closure; base: the note codes it uses
func (g *c14Gen) recForm(form, base int) {
	switch form {
	case 0:
		g.tag("rec-bare")
		g.emitf("recover()")
	case 1:
		g.tag("rec-blank")
		g.emitf("_ = recover()")
	case 2:
		g.tag("rec-var")
		g.emitf("r := recover()")
		g.emitf("if r != nil {")
		g.emitf("\tnote(%d)", base+1)
		g.emitf("} else {")
		g.emitf("\tnote(%d)", base)
		g.emitf("}")
	case 3:
		g.tag("rec-cond")
		g.emitf("if recover() != nil {")
		g.emitf("\tnote(%d)", base+1)
		g.emitf("} else {")
		g.emitf("\tnote(%d)", base)
		g.emitf("}")
	case 4:
		g.tag("rec-twice-bare")
		g.emitf("recover()")
		g.emitf("if r := recover(); r != nil {")
		g.emitf("\tnote(%d)", base+3)
		g.emitf("} else {")
		g.emitf("\tnote(%d)", base+2)
		g.emitf("}")
	case 5:
		g.tag("rec-twice-var")
		g.emitf("r1 := recover()")
		g.emitf("r2 := recover()")
		g.emitf("if r1 != nil {")
		g.emitf("\tnote(%d)", base+1)
		g.emitf("}")
		g.emitf("if r2 != nil {")
		g.emitf("\tnote(%d)", base+3)
		g.emitf("} else {")
		g.emitf("\tnote(%d)", base+2)
		g.emitf("}")
	default: // no recover at all
		g.emitf("note(%d)", base+4)
	}
}

func (g *c14Gen) recDefer(form, base int) {
	g.emitf("defer func() {")
	g.indent++
	g.recForm(form, base)
	g.indent--
	g.emitf("}()")
}

// recFunc emits one function `name(a int, f bool) int` of the sequence
func (g *c14Gen) recFunc(name string, base int) {
	r := g.r
	kind := r.intn(10)
	if kind >= 8 && !c14Allow("repanic") {
		kind = r.intn(8)
	}
	switch {
	case kind < 3: // may panic: one recovering closure
		g.tag("recseq-panic")
		g.emitf("func %s(a int, f bool) int {", name)
		g.indent++
		g.recDefer(r.intn(6), base)
		g.emitf("note(a %% 97)")
		g.emitf("x := thrower(a) * 3")
		if r.bool() {
			g.emitf("if f {")
			g.emitf("\tx = thrower(x + a)")
			g.emitf("}")
		}
		g.emitf("note(x %% 89)")
		g.emitf("return x %% %d", c14M)
	case kind < 6: // never panics: several defers, every recover() sees nil
		g.tag("recseq-quiet")
		g.emitf("func %s(a int, f bool) int {", name)
		g.indent++
		for k := 0; k < 1+r.intn(3); k++ {
			if r.chance(20) {
				g.emitf("defer note(%d)", base+40+k)
			} else {
				g.recDefer(r.intn(7), base+10*k)
			}
		}
		g.emitf("x := (a%%1000*3 + %d) %% 1000", r.intn(100))
		g.emitf("note(x)")
		g.emitf("return x")
	case kind < 8: // the inner function recovers, the defers of the outer one see nothing
		g.tag("recseq-nested")
		g.emitf("func %si(a int) int {", name)
		g.indent++
		g.recDefer(r.intn(6), base+50)
		g.emitf("return thrower(a) * 2")
		g.indent--
		g.emitf("}")
		g.emitf("")
		g.emitf("func %s(a int, f bool) int {", name)
		g.indent++
		for k := 0; k < 1+r.intn(2); k++ {
			g.recDefer(2+r.intn(4), base+10*k)
		}
		g.emitf("y := %si(a)", name)
		g.emitf("note(y %% 89)")
		g.emitf("return (y + 1) %% %d", c14M)
	default: // a deferred function panics again; the caller recovers that one
		g.tag("recseq-repanic")
		g.emitf("func %si(a int) int {", name)
		g.indent++
		g.emitf("defer func() {")
		g.emitf("\tif r := recover(); r != nil {")
		g.emitf("\t\tnote(%d)", base+60)
		g.emitf("\t\tpanic(\"again\")")
		g.emitf("\t}")
		g.emitf("}()")
		g.emitf("return thrower(a) * 2")
		g.indent--
		g.emitf("}")
		g.emitf("")
		g.emitf("func %s(a int, f bool) int {", name)
		g.indent++
		g.recDefer(r.intn(6), base)
		g.emitf("y := %si(a)", name)
		g.emitf("note(y %% 89)")
		g.emitf("return (y + 1) %% %d", c14M)
	}
	g.indent--
	g.emitf("}")
	g.emitf("")
}

func (g *c14Gen) recoverSeqEntry(name string) c14Func {
	r := g.r
	g.tag("recseq-entry")
	n := 2 + r.intn(3)
	for k := 0; k < n; k++ {
		g.recFunc(fmt.Sprintf("rs%s_%d", name, k), 1000+100*k)
	}
	g.emitf("func %s(a int, f bool) int {", name)
	g.indent++
	g.emitf("acc := 0")
	for k := 0; k < n; k++ {
		g.emitf("acc = (acc*31 + rs%s_%d(a%%7+%d, f)) %% %d", name, k, r.intn(10), c14M)
	}
	g.emitf("return (acc*31 + logsum()) %% %d", c14M)
	g.indent--
	g.emitf("}")
	g.emitf("")
	return c14Func{Name: name, Params: []string{"int", "bool"}, Ret: "int"}
}

// ---------- fixed-size arrays among several results ----------
//
// Go copies an array on assignment, call, range and return. Functions with two or three results, one or two of them a
// fixed-size array read from a package-level variable, a struct field, a parameter or a local; received as `a, ok := f()`,
// `a, _ = f()`, `var a, b = f()`, passed on as g(f()), returned through `return f()`. The receiver changes an element,
// then the source is changed the other way round; both sides are observed after each step. Also the same source as
// both results, arrays of arrays, and a named array result changed by a deferred closure after the return operands
// were evaluated. (Structs are left out: their copies are the recorded finding F143.)
func (g *c14Gen) arrayRetEntry(name string) c14Func {
	r := g.r
	g.tag("arrret-entry")
	n := name
	c := func() int { return 1 + r.intn(90) }
	g.emitf("var ag%s = [3]int{%d, %d, %d}", n, c(), c(), c())
	g.emitf("")
	g.emitf("type AH%s struct {", n)
	g.emitf("\tk   int")
	g.emitf("\tarr [3]int")
	g.emitf("}")
	g.emitf("")
	g.emitf("var ah%s = AH%s{k: %d, arr: [3]int{%d, %d, %d}}", n, n, c(), c(), c(), c())
	g.emitf("")
	g.emitf("var aa%s = [2][2]int{{%d, %d}, {%d, %d}}", n, c(), c(), c(), c())
	g.emitf("")
	fn := func(sig string, body ...string) {
		g.emitf("func %s {", sig)
		for _, l := range body {
			g.emitf("\t%s", l)
		}
		g.emitf("}")
		g.emitf("")
	}
	fn(fmt.Sprintf("afG%s(k int) ([3]int, bool)", n), fmt.Sprintf("return ag%s, k%%2 == 0", n))
	fn(fmt.Sprintf("afF%s(k int) ([3]int, int)", n), fmt.Sprintf("return ah%s.arr, k%%1000 + 1", n))
	fn(fmt.Sprintf("afP%s(p [3]int, k int) (int, [3]int)", n), "return k%1000 + 2, p")
	fn(fmt.Sprintf("afL%s(k int) (bool, [3]int, int)", n), "l := [3]int{k % 1000, 1, 2}", "return k > 0, l, l[0] + 1")
	fn(fmt.Sprintf("afT%s(k int) ([3]int, [3]int)", n), fmt.Sprintf("return ag%s, ag%s", n, n))
	fn(fmt.Sprintf("afR%s(k int) ([3]int, bool)", n), fmt.Sprintf("return afG%s(k + 1)", n))
	fn(fmt.Sprintf("afS%s(a [3]int, ok bool) int", n), "a[0] = a[0] + 1000", "if ok {", "\ta[1] = 0", "}", "return a[0] + a[1]*3 + a[2]*5")
	fn(fmt.Sprintf("afN%s(k int) ([2][2]int, bool)", n), fmt.Sprintf("return aa%s, k%%3 == 0", n))
	fn(fmt.Sprintf("afD%s(k int) (res [3]int, cnt int)", n),
		"defer func() {", "\tres[0] = 7777", "}()", fmt.Sprintf("res = ag%s", n), "res[1] = k % 1000", "return res, k%1000 + 5")
	// the blocks of the entry function
	fold := func(xs ...string) string {
		return fmt.Sprintf("acc = (acc*31 + %s) %% %d", strings.Join(xs, "*7 + "), c14M)
	}
	G, H, A := "ag"+n, "ah"+n+".arr", "aa"+n
	blocks := [][]string{
		{ // := from a package-level variable
			fmt.Sprintf("x1, ok1 := afG%s(a)", n), fmt.Sprintf("x1[%d] = %d + a%%7", r.intn(3), 100+c()),
			fold("x1[0]", "x1[1]", "x1[2]", G+"[0]", G+"[1]", G+"[2]"),
			fmt.Sprintf("%s[%d] = %d", G, r.intn(3), 200+c()), fold("x1[0]", "x1[1]", "x1[2]", G+"[0]", G+"[1]", G+"[2]"),
			"if ok1 {", "\tacc++", "}"},
		{ // = with a blank, from a struct field
			"var x2 [3]int", fmt.Sprintf("x2, _ = afF%s(a)", n), fmt.Sprintf("x2[%d] = %d", r.intn(3), 300+c()),
			fold("x2[0]", "x2[1]", "x2[2]", H+"[0]", H+"[1]", H+"[2]"),
			fmt.Sprintf("%s[%d] = %d", H, r.intn(3), 400+c()), fold("x2[0]", "x2[1]", "x2[2]", H+"[0]", H+"[1]", H+"[2]")},
		{ // var with several names, from a parameter
			fmt.Sprintf("src3 := [3]int{a %% 1000, %d, %d}", c(), c()), fmt.Sprintf("var n3, x3 = afP%s(src3, a)", n),
			fmt.Sprintf("x3[%d] = %d", r.intn(3), 500+c()), fold("n3", "x3[0]", "x3[1]", "x3[2]", "src3[0]", "src3[1]", "src3[2]"),
			fmt.Sprintf("src3[%d] = %d", r.intn(3), 600+c()), fold("x3[0]", "x3[1]", "x3[2]", "src3[0]", "src3[1]", "src3[2]")},
		{ // three results, the array in the middle, from a local
			fmt.Sprintf("ok4, x4, n4 := afL%s(a)", n), "x4[1] = x4[1] + n4", fold("x4[0]", "x4[1]", "x4[2]", "n4"), "if ok4 {", "\tacc += 3", "}"},
		{ // the same source twice
			fmt.Sprintf("t1, t2 := afT%s(a)", n), fmt.Sprintf("t1[0] = %d", 700+c()), fmt.Sprintf("t2[0] = %d", 800+c()),
			fmt.Sprintf("t2[1] = t1[1] + 1"), fold("t1[0]", "t1[1]", "t2[0]", "t2[1]", G+"[0]", G+"[1]")},
		{ // through return f()
			fmt.Sprintf("x6, ok6 := afR%s(a)", n), fmt.Sprintf("x6[%d] = %d", r.intn(3), 900+c()),
			fold("x6[0]", "x6[1]", "x6[2]", G+"[0]", G+"[1]", G+"[2]"), "if ok6 {", "\tacc += 5", "}"},
		{ // passed on: g(f())
			fold(fmt.Sprintf("afS%s(afG%s(a))", n, n), G+"[0]", G+"[1]", G+"[2]")},
	}
	if c14Allow("arrnest") {
		blocks = append(blocks, []string{ // arrays of arrays
			fmt.Sprintf("y8, ok8 := afN%s(a)", n), fmt.Sprintf("y8[%d][%d] = %d", r.intn(2), r.intn(2), 1000+c()),
			fold("y8[0][0]", "y8[0][1]", "y8[1][0]", "y8[1][1]", A+"[0][0]", A+"[0][1]", A+"[1][0]", A+"[1][1]"),
			fmt.Sprintf("%s[%d][%d] = %d", A, r.intn(2), r.intn(2), 1100+c()),
			fold("y8[0][0]", "y8[0][1]", "y8[1][0]", "y8[1][1]", A+"[0][0]", A+"[0][1]", A+"[1][0]", A+"[1][1]"),
			"if ok8 {", "\tacc += 7", "}"})
	}
	if c14Allow("arrnamed") {
		blocks = append(blocks, []string{ // named array result changed by a deferred closure
			fmt.Sprintf("x9, n9 := afD%s(a)", n), fmt.Sprintf("x9[2] = %d", 1200+c()),
			fold("x9[0]", "x9[1]", "x9[2]", "n9", G+"[0]", G+"[1]", G+"[2]")})
	}
	for i := len(blocks) - 1; i > 0; i-- {
		j := r.intn(i + 1)
		blocks[i], blocks[j] = blocks[j], blocks[i]
	}
	g.emitf("func %s(a int, f bool) int {", name)
	g.indent++
	g.emitf("acc := a %% 1000")
	for _, b := range blocks {
		if r.chance(15) {
			continue
		}
		for _, l := range b {
			g.emitf("%s", l)
		}
	}
	g.emitf("return acc")
	g.indent--
	g.emitf("}")
	g.emitf("")
	return c14Func{Name: name, Params: []string{"int", "bool"}, Ret: "int"}
}

// helper package: every function of it is inlined at its call sites by the compiler
func c14HelperSrc(name string, r *rng) string {
	k := 2 + r.intn(5)
	return fmt.Sprintf(`package %s

func Add3(a, b, c int) int { return a + b + c }

func Clamp(x, lo, hi int) int {
	if x < lo {
		return lo
	}
	if x > hi {
		return hi
	}
	return x
}

// assigns its parameter (at the top level of the body: inside a nested block the unchanged inliner loses it)
func Bump(x, k int) int {
	x += k
	return x * 2
}

func Sel(c bool, a, b int) int {
	if c {
		return a
	}
	return b
}

func SumTo(n int) int {
	s := 0
	for i := 0; i < n; i++ {
		if i%%%d == 0 {
			continue
		}
		s += i
	}
	return s
}
`, name, k)
}

// c14Allow: development switch (environment variable C14_ALLOW, comma separated) that re-enables a construct
// the generator leaves out because of a known finding; used to validate the repair of that finding.
func c14Allow(feature string) bool {
	for _, f := range strings.Split(os.Getenv("C14_DENY"), ",") {
		if f == feature {
			return false
		}
	}
	// repaired in /repo (F142: default clause not last, F141: function values with several arguments, F157: functions and
	// variables used only by an init() that is not the last one of its package): generated again
	if feature == "earlydefault" || feature == "lambda2" || feature == "initusage" || feature == "recseq" || feature == "repanic" || feature == "arrret" || feature == "arrnest" {
		return true
	}
	for _, f := range strings.Split(os.Getenv("C14_ALLOW"), ",") {
		if f == feature {
			return true
		}
	}
	return false
}

// ---------- argument tuples ----------

func c14GenTuples(r *rng, f c14Func, n int) [][]c14Val {
	ints := []int64{0, 1, -1, 2, 3, 7, -3, 12, 100, -50, 999, 4096, -65536, 123456, c14M - 1}
	strs := []string{"", "a", "hello", "zz9", "neo-go!", "k", "abcabcabc"}
	var out [][]c14Val
	for k := 0; k < n; k++ {
		var t []c14Val
		for _, p := range f.Params {
			switch p {
			case "int":
				t = append(t, c14Val{T: "int", I: ints[r.intn(len(ints))]})
			case "bool":
				t = append(t, c14Val{T: "bool", B: r.bool()})
			case "string":
				t = append(t, c14Val{T: "string", S: strs[r.intn(len(strs))]})
			case "[]byte":
				t = append(t, c14Val{T: "[]byte", S: strs[r.intn(len(strs))]})
			case "[]int":
				l := make([]int64, r.intn(5))
				for i := range l {
					l[i] = ints[r.intn(len(ints))]
				}
				t = append(t, c14Val{T: "[]int", L: l})
			}
		}
		out = append(out, t)
		if len(f.Params) == 0 {
			break
		}
	}
	return out
}

// c14Generate is the generating run: dialect programs ("diff", "meta") and MiniGo programs ("frag").
func c14Generate(co *caseOut, cf *commonFlags, work string) error {
	r := newRng(cf.seed)
	hist := map[string]int{}
	if os.Getenv("C14_ONLY") == "initframe" { // development: this kind alone
		return c14InitGenerate(co, cf, r, work)
	}
	// volume n = number of (program, entry function) cases of kind diff; programs of ~24 entry functions
	nUnits := max(1, cf.n/40)
	perUnit := 24
	batch := 12
	for b0 := 0; b0 < nUnits; b0 += batch {
		var units []c14Unit
		var jobs []c14Job
		var unitOf []int
		for k := b0; k < min(nUnits, b0+batch); k++ {
			u := c14GenUnit(r, fmt.Sprintf("p%d", k), perUnit, hist)
			units = append(units, u)
			for _, f := range u.Funcs {
				jobs = append(jobs, c14Job{unit: u, fn: f, tuples: c14GenTuples(r, f, 4), tag: c14RetTag(f)})
				unitOf = append(unitOf, len(units)-1)
			}
		}
		if err := c14RunBatch(co, filepath_join(work, fmt.Sprintf("b%d", b0)), units, jobs, unitOf); err != nil {
			return err
		}
	}
	co.extra["x_features"] = hist
	// programs the Go type checker rejects (and accepted twins of them)
	if err := c14RejectGenerate(co, cf, r, work); err != nil {
		return err
	}
	// the shared frames: several init() functions, _deploy, static slots
	if err := c14InitGenerate(co, cf, r, work); err != nil {
		return err
	}
	// MiniGo fragment
	return c14FragGenerate(co, cf, r, work)
}

func c14RetTag(f c14Func) string {
	if f.Ret == "" {
		return "void"
	}
	return "ret-" + f.Ret
}

func filepath_join(a, b string) string { return a + "/" + b }
