package main

// C17 — wire formats round-trip, and identity depends only on content.
// Sub-commands: c17 (primitives and modelled types, compared with the Coq model), c17x (every other serialisable
// type: direct round trips and mutated inputs into every binary decoder), c17t (text decoders with a numeric and
// structural boundary lattice), c17-worker (the child process in which every decode of arbitrary input runs, so
// that a hang or a runaway allocation can be observed and killed).

import (
	"bufio"
	"bytes"
	"encoding/binary"
	"encoding/json"
	"fmt"
	stdio "io"
	"math/big"
	"os"
	"os/exec"
	"regexp"
	"runtime"
	"strings"
	"time"

	"github.com/nspcc-dev/neo-go/pkg/core/block"
	"github.com/nspcc-dev/neo-go/pkg/core/state"
	"github.com/nspcc-dev/neo-go/pkg/core/transaction"
	"github.com/nspcc-dev/neo-go/pkg/io"
	"github.com/nspcc-dev/neo-go/pkg/network/payload"
	"github.com/nspcc-dev/neo-go/pkg/smartcontract/nef"
	"github.com/nspcc-dev/neo-go/pkg/smartcontract/trigger"
	"github.com/nspcc-dev/neo-go/pkg/util"
	"github.com/nspcc-dev/neo-go/pkg/vm/stackitem"
	"github.com/nspcc-dev/neo-go/pkg/vm/vmstate"
	"github.com/pierrec/lz4"
)

func init() {
	register("c17", func(a []string) error { return runC17(a, "c17") })
	register("c17x", func(a []string) error { return runC17(a, "c17x") })
	register("c17t", func(a []string) error { return runC17(a, "c17t") })
	register("c17-worker", runC17Worker)
}

// ---------------- guarded execution in a child process ----------------

type c17Req struct {
	Type string `json:"type"`
	Hex  string `json:"hex"`
}
type c17WRes struct {
	c17Dec
	Panic   string  `json:"panic,omitempty"`
	AllocKB uint64  `json:"alloc_kb"`
	Ms      float64 `json:"ms"`
}

func runC17Worker(args []string) error {
	// watchdog: a decode that makes the heap grow beyond 1.5 GB ends the process (the parent reports it)
	go func() {
		var m runtime.MemStats
		for {
			time.Sleep(30 * time.Millisecond)
			runtime.ReadMemStats(&m)
			if m.HeapAlloc > 1500<<20 {
				fmt.Println(`{"fatal":"heap above 1.5 GB"}`)
				os.Exit(7)
			}
		}
	}()
	in := bufio.NewReaderSize(os.Stdin, 1<<20)
	out := bufio.NewWriter(os.Stdout)
	for {
		line, err := in.ReadBytes('\n')
		if len(line) > 0 {
			var rq c17Req
			if e := json.Unmarshal(line, &rq); e != nil {
				return e
			}
			t := c17TypeByName(rq.Type)
			if t == nil {
				return fmt.Errorf("unknown type %q", rq.Type)
			}
			b := unhx(rq.Hex)
			var res c17WRes
			var m0, m1 runtime.MemStats
			runtime.ReadMemStats(&m0)
			t0 := time.Now()
			res.Panic = catch(func() { res.c17Dec = t.dec(b) })
			res.Ms = float64(time.Since(t0).Microseconds()) / 1000
			runtime.ReadMemStats(&m1)
			res.AllocKB = (m1.TotalAlloc - m0.TotalAlloc) >> 10
			if res.Panic != "" {
				res.c17Dec = c17Dec{Size: -1}
			}
			j, _ := json.Marshal(res)
			out.Write(j)
			out.WriteByte('\n')
			out.Flush()
		}
		if err != nil {
			return nil
		}
	}
}

type c17Guard struct {
	cmd   *exec.Cmd
	stdin stdio.WriteCloser
	lines chan []byte
	limit time.Duration
}

func (g *c17Guard) start() error {
	exe, err := os.Executable()
	if err != nil {
		return err
	}
	g.cmd = exec.Command(exe, "c17-worker")
	g.cmd.Stderr = nil
	g.stdin, err = g.cmd.StdinPipe()
	if err != nil {
		return err
	}
	so, err := g.cmd.StdoutPipe()
	if err != nil {
		return err
	}
	if err := g.cmd.Start(); err != nil {
		return err
	}
	g.lines = make(chan []byte, 4)
	go func(ch chan []byte) {
		rd := bufio.NewReaderSize(so, 1<<20)
		for {
			l, err := rd.ReadBytes('\n')
			if len(l) > 0 {
				ch <- l
			}
			if err != nil {
				close(ch)
				return
			}
		}
	}(g.lines)
	return nil
}
func (g *c17Guard) stop() {
	if g.cmd != nil {
		g.stdin.Close()
		g.cmd.Process.Kill()
		g.cmd.Wait()
		g.cmd = nil
	}
}

// run returns the worker's answer; status is "", "hang" or "died"
func (g *c17Guard) run(typ string, input []byte) (c17WRes, string) {
	if g.cmd == nil {
		if err := g.start(); err != nil {
			panic(err)
		}
	}
	j, _ := json.Marshal(c17Req{Type: typ, Hex: hx(input)})
	if _, err := g.stdin.Write(append(j, '\n')); err != nil {
		g.stop()
		return c17WRes{}, "died"
	}
	select {
	case l, ok := <-g.lines:
		if !ok {
			g.stop()
			return c17WRes{}, "died"
		}
		var res c17WRes
		if bytes.Contains(l, []byte(`"fatal"`)) {
			g.stop()
			return res, "died: " + strings.TrimSpace(string(l))
		}
		if err := json.Unmarshal(l, &res); err != nil {
			g.stop()
			return res, "died"
		}
		return res, ""
	case <-time.After(g.limit):
		g.stop()
		return c17WRes{}, "hang"
	}
}

// allocation budget of one decode (bytes): network-facing binary decoders are bounded by their stated maxima
// (MaxArraySize-sized buffers, the 32 MB P2P payload, decompression), text decoders must stay proportional to the input
func c17AllocBudget(t *c17Type, n int) uint64 {
	switch {
	case t.text:
		return 1<<20 + 256*uint64(n)
	case strings.HasPrefix(t.name, "p2pmessage"):
		return 80 << 20
	case t.name == "appexec" || t.name == "notification" || strings.HasPrefix(t.name, "nep1"):
		return 1400 << 20 // read from the node's own database only: MaxArraySize elements of a struct type
	default:
		return 40 << 20
	}
}

var c17PanicNorm = regexp.MustCompile(`[0-9]+`)

// how an accepted input differs from the re-encoding of what it decoded to
func c17DiffClass(input, reenc []byte) string {
	switch {
	case bytes.Equal(input, reenc):
		return "canonical"
	case len(reenc) < len(input):
		return "shorter" // non-minimal length prefix, uncompressed key, trailing bytes, merged entries
	case len(reenc) > len(input):
		return "longer"
	}
	for i := range input {
		if input[i] != reenc[i] && !(reenc[i] == 1 && input[i] > 1 && i > 0 && (input[i-1] == 0 || input[i-1] == 0x20)) {
			return "samelen"
		}
	}
	return "boolbyte" // only Boolean value bytes other than 0/1 differ (condition type 0x00 / item type 0x20)
}

// decodeGuarded runs one decode under the guard and reports what the property forbids; returns the result and whether it is usable
func c17DecodeGuarded(co *caseOut, g *c17Guard, t *c17Type, input []byte) (c17WRes, bool) {
	in := map[string]any{"type": t.name}
	if t.text {
		in["text"] = string(input)
	} else {
		in["bytes"] = hx(input)
	}
	res, st := g.run(t.name, input)
	switch {
	case st == "hang":
		co.violation("dec", fmt.Sprintf("%s: no answer within %v (decoder hangs or is super-linear in the input)", t.name, g.limit), in, nil)
		return res, false
	case st != "":
		co.violation("dec", fmt.Sprintf("%s: decoding ends the process (%s)", t.name, st), in, nil)
		return res, false
	}
	if strings.HasPrefix(t.name, "p2pmessage") && !res.OK && strings.Contains(res.Err, "lz4: ") && c17ValidCompressedFrame(input) {
		co.violation("dec", "p2pmessage: a VALID lz4 block is refused by the decompressor", in, map[string]any{"err": res.Err})
		return res, false
	}
	if b := c17AllocBudget(t, len(input)); res.AllocKB<<10 > b {
		co.violation("dec", fmt.Sprintf("%s: allocation not bounded by the input: an input of a few bytes makes the decoder allocate megabytes", t.name), in,
			map[string]any{"alloc_kb": res.AllocKB, "ms": res.Ms, "input_len": len(input), "budget_kb": b >> 10})
	}
	if res.Panic != "" {
		msg := res.Panic
		if len(msg) > 44 {
			msg = msg[:44]
		}
		co.violation("dec", fmt.Sprintf("%s: panic: %s", t.name, c17PanicNorm.ReplaceAllString(msg, "N")), in, map[string]any{"panic": res.Panic})
		return res, false
	}
	if res.Note != "" {
		n := res.Note
		if i := strings.Index(n, ":"); i > 0 && strings.HasPrefix(n, "identity depends") {
			n = n[:i] + " (re-encoding vs received bytes: " + c17DiffClass(input, unhx(res.Reenc)) + ")"
		}
		co.violation("dec", t.name+": "+n, in, res)
	}
	return res, true
}

// ---------------- mutation of encodings ----------------

func c17Mutate(r *rng, b []byte, text bool) []byte {
	b = bytes.Clone(b)
	for k := r.intn(3); k >= 0; k-- {
		switch r.intn(9) {
		case 0:
			if len(b) > 0 {
				b[r.intn(len(b))] ^= byte(1 << r.intn(8))
			}
		case 1:
			if len(b) > 0 {
				if text {
					b[r.intn(len(b))] = "0123456789abcdef\"{}[],:-.eE+tfn"[r.intn(31)]
				} else {
					b[r.intn(len(b))] = pick(r, []byte{0, 1, 2, 0x7f, 0x80, 0xfc, 0xfd, 0xfe, 0xff, byte(r.next())})
				}
			}
		case 2:
			if len(b) > 1 {
				b = b[:r.intn(len(b))]
			}
		case 3: // non-minimal var-int in place of a small byte
			if len(b) > 0 && !text {
				i := r.intn(len(b))
				if b[i] < 0xfd {
					var ins []byte
					switch r.intn(3) {
					case 0:
						ins = []byte{0xfd, b[i], 0}
					case 1:
						ins = []byte{0xfe, b[i], 0, 0, 0}
					default:
						ins = []byte{0xff, b[i], 0, 0, 0, 0, 0, 0, 0}
					}
					b = append(append(append([]byte{}, b[:i]...), ins...), b[i+1:]...)
				}
			}
		case 4: // extreme counts
			if len(b) > 0 && !text {
				i := r.intn(len(b))
				ins := pick(r, [][]byte{{0xfd, 0xff, 0xff}, {0xfe, 0xff, 0xff, 0xff, 0xff}, {0xfe, 0, 0, 0, 1}, {0xff, 0xff, 0xff, 0xff, 0xff, 0xff, 0xff, 0xff, 0xff},
					{0xff, 0, 0, 0, 0, 0, 0, 0, 0x80}, {0xff, 0xff, 0xff, 0xff, 0x7f, 0, 0, 0, 0}, {0xfd, 0, 8}, {0xfc}})
				b = append(append(append([]byte{}, b[:i]...), ins...), b[i+1:]...)
			}
		case 5:
			b = append(b, byte(r.next()))
		case 6: // duplicate a segment
			if len(b) > 1 {
				i := r.intn(len(b))
				j := i + r.intn(len(b)-i)
				b = append(append(append([]byte{}, b[:j]...), b[i:j]...), b[j:]...)
			}
		case 7: // delete a byte
			if len(b) > 0 {
				i := r.intn(len(b))
				b = append(b[:i:i], b[i+1:]...)
			}
		case 8: // numeric boundary inside a text
			if text {
				i := bytes.IndexAny(b, "0123456789")
				if i >= 0 {
					num := pick(r, []string{"1e100", "1e1000", "9007199254740993", "1e-5", "1.5", "-0", "1e77", "1e78", strings.Repeat("9", 90)})
					j := i
					for j < len(b) && strings.IndexByte("0123456789.eE+-", b[j]) >= 0 {
						j++
					}
					b = append(append(append([]byte{}, b[:i]...), num...), b[j:]...)
				}
			}
		}
	}
	return b
}

// hand-made structural extremes for the binary decoders
func c17Extremes(name string) [][]byte {
	rep := func(p []byte, n int, tail ...byte) []byte { return append(bytes.Repeat(p, n), tail...) }
	switch name {
	case "item", "item/protected":
		return [][]byte{{0x21, 0x21}, {0x21, 0x20}, {0x21, 0x00}, {0x21, 0xfd, 0x01, 0x00, 0x05}, {0x20, 0x02}, {0x48, 1, 0x40, 0, 0}, {0x48, 1, 0x00, 0}, {0x48, 1, 0x30, 0, 0},
			{0x48, 2, 0x21, 1, 5, 0, 0x21, 1, 5, 0x20, 1}, {0x48, 1, 0x28, 0x41}, append([]byte{0x48, 1, 0x28, 65}, make([]byte, 66)...),
			{0x40, 0xff, 0xff, 0xff, 0xff, 0xff, 0xff, 0xff, 0xff, 0xff}, {0x48, 0xff, 0xff, 0xff, 0xff, 0xff, 0xff, 0xff, 0xff, 0xff}, {0x40, 0xff, 0, 0, 0, 0, 0, 0, 0, 0x80},
			{0x40, 0xfd, 0xff, 0x07}, {0x40, 0xfd, 0x00, 0x08}, {0x48, 0xfd, 0xff, 0x03}, {0x48, 0xfd, 0x00, 0x04},
			rep([]byte{0x40, 0x01}, 2047, 0x00), rep([]byte{0x40, 0x01}, 2048, 0x00), rep([]byte{0x41, 0x01}, 5000, 0x00),
			// Array [Array of 2045/2046 Any; Any]: 2048 items (the largest accepted) and 2049 (the budget itself runs out, not an announced count)
			append(append([]byte{0x40, 0x02, 0x40, 0xfd, 0xfd, 0x07}, make([]byte, 2045)...), 0x00), append(append([]byte{0x40, 0x02, 0x40, 0xfd, 0xfe, 0x07}, make([]byte, 2046)...), 0x00),
			append([]byte{0x40, 0xfd, 0xff, 0x07}, make([]byte, 2047)...), append([]byte{0x40, 0xfd, 0x00, 0x08}, make([]byte, 2048)...),
			{0x28, 0xfe, 0xff, 0xff, 0x01, 0x00}, {0x28, 0xfe, 0xfe, 0xff, 0x01, 0x00}, {0x10, 0x01}, {0x60}, {0xff}}
	case "cond", "rule":
		p := []byte{}
		if name == "rule" {
			p = []byte{1}
		}
		mk := func(b ...byte) []byte { return append(append([]byte{}, p...), b...) }
		return [][]byte{mk(0, 0), mk(0, 1), mk(0, 2), mk(0, 0xff), mk(1, 0, 1), mk(1, 1, 0, 1), mk(1, 1, 1, 0, 1), mk(2, 0), mk(2, 1, 0x20), mk(2, 16), mk(2, 17),
			mk(2, 0xfd, 1, 0, 0x20), mk(3, 2, 0x20, 2, 1, 0x20), mk(3, 1, 2, 1, 2, 1, 0x20), mk(0x20), mk(0x21), mk(0x18), mk(0x19, 2), mk(0x19, 4)}
	case "mptnode":
		h := append([]byte{3}, make([]byte, 32)...)
		ext := func(klen int, next []byte) []byte {
			w := io.NewBufBinWriter()
			w.WriteB(1)
			w.WriteVarBytes(make([]byte, klen))
			w.WriteBytes(next)
			return w.Bytes()
		}
		chain := func(n int) []byte { // n nested extension nodes with one-nibble keys, then the empty node
			b := []byte{4}
			for i := 0; i < n; i++ {
				b = append([]byte{1, 1, 7}, b...)
			}
			return b
		}
		branch := func(child []byte) []byte {
			b := []byte{0}
			for i := 0; i < 17; i++ {
				if i == 3 {
					b = append(b, child...)
				} else {
					b = append(b, 4)
				}
			}
			return b
		}
		return [][]byte{{4}, h, {3}, {2, 0}, {2, 1, 9}, {5}, {0}, branch(h), branch([]byte{2, 1, 9}), branch([]byte{2, 0}), branch(branch(h)), branch(branch(h))[:20],
			ext(0, h), ext(1, h), ext(136, h), ext(137, h), ext(3, []byte{4}), ext(3, []byte{2, 1, 1}), ext(2, ext(2, h)), {1, 0xfd, 3, 0, 1, 2, 3, 4}, {1, 0xfe, 3, 0, 0, 0, 1, 2, 3, 4},
			{2, 0xfe, 0x03, 0, 1, 0}, {2, 0xfe, 0x04, 0, 1, 0}, {2, 0xfd, 1, 0, 9}, chain(135), chain(136), chain(137), chain(138), chain(400)}
	case "mptroot":
		base := append(append([]byte{0, 5, 0, 0, 0}, make([]byte, 32)...))
		return [][]byte{append(bytes.Clone(base), 0), append(bytes.Clone(base), 1, 0, 0), append(bytes.Clone(base), 2, 0, 0, 0, 0), append(bytes.Clone(base), 0xfd, 1, 0, 1, 7, 0),
			append(bytes.Clone(base), 0xfd, 0, 0), base, append(bytes.Clone(base), 1, 0xfd, 1, 4), append(append(bytes.Clone(base), 1, 0xfd, 0, 4), make([]byte, 1025)...)}
	case "getblocks":
		mk := func(c uint16) []byte { return append(make([]byte, 32), byte(c), byte(c>>8)) }
		return [][]byte{mk(0), mk(1), mk(500), mk(0x7fff), mk(0x8000), mk(0xfffe), mk(0xffff), mk(1)[:33]}
	case "getblockbyindex":
		mk := func(c uint16) []byte { return []byte{1, 0, 0, 0, byte(c), byte(c >> 8)} }
		return [][]byte{mk(0), mk(1), mk(2000), mk(2001), mk(0x7fff), mk(0x8000), mk(0xfffe), mk(0xffff)}
	case "inventory", "mptinventory":
		pre := []byte{}
		if name == "inventory" {
			pre = []byte{0x2b}
		}
		mk := func(cnt []byte, n int) []byte { return append(append(bytes.Clone(pre), cnt...), make([]byte, 32*n)...) }
		out := [][]byte{mk([]byte{0}, 0), mk([]byte{1}, 1), mk([]byte{2}, 1), mk([]byte{0xfd, 1, 0}, 1), mk([]byte{32}, 32), mk([]byte{33}, 33), mk([]byte{0xfd, 0xf4, 1}, 2), mk([]byte{0xfd, 0xf5, 1}, 2), mk([]byte{0xff, 0xff, 0xff, 0xff, 0xff, 0xff, 0xff, 0xff, 0xff}, 1)}
		if name == "inventory" {
			out = append(out, []byte{0x00, 0}, []byte{0xff, 1}, mk([]byte{0xfd, 0xf4, 1}, 500), mk([]byte{0xfd, 0xf5, 1}, 501)) // the largest accepted, and one more
		}
		return out
	case "headers", "headers/sr", "mptdata", "addrlist":
		return [][]byte{{0}, {0xfd, 0xd1, 0x07}, {0xfd, 0xd0, 0x07}, {0xfd, 0xc9, 0}, {0xfd, 0xc8, 0}, {0xfe, 0xff, 0xff, 0xff, 0xff}, {0xff, 0, 0, 0, 0, 0, 0, 0, 0x80}, {1}, {1, 0}, {2, 1, 5, 0}, {1, 0xfe, 0, 0, 0, 1}, {1, 0xfe, 1, 0, 0, 1, 7}}
	case "version", "addr":
		pre := make([]byte, 16)
		if name == "addr" {
			pre = make([]byte, 20)
		} else {
			pre = append(pre, 0) // empty user agent
		}
		mk := func(caps ...byte) []byte { return append(bytes.Clone(pre), caps...) }
		out := [][]byte{mk(0), mk(1, 1, 0x50, 0), mk(2, 1, 1, 0, 1, 2, 0), mk(2, 1, 1, 0, 2, 2, 0), mk(2, 2, 1, 0, 2, 2, 0), mk(3, 2, 1, 0, 1, 5, 0, 2, 2, 0), mk(2, 0x10, 1, 0, 0, 0, 0x10, 2, 0, 0, 0), mk(1, 0x11, 0), mk(1, 0x11, 1), mk(2, 0x11, 0, 0x11, 0),
			mk(1, 3, 0), mk(1, 3, 5), mk(2, 3, 0, 3, 0), mk(2, 0xf0, 0, 0xf0, 1, 9), mk(1, 0x77, 0xfd, 1, 0, 9), mk(33), mk(append([]byte{32}, bytes.Repeat([]byte{0xf1, 0}, 32)...)...), mk(append([]byte{33}, bytes.Repeat([]byte{0xf1, 0}, 33)...)...)}
		if name == "version" {
			ua := func(n int) []byte {
				w := io.NewBufBinWriter()
				w.WriteBytes(make([]byte, 16))
				w.WriteVarBytes(make([]byte, n))
				w.WriteB(0)
				return w.Bytes()
			}
			out = append(out, ua(1024), ua(1025))
		}
		return out
	case "extensible":
		mk := func(cat int, pad byte) []byte {
			w := io.NewBufBinWriter()
			w.WriteVarBytes(bytes.Repeat([]byte{'c'}, cat))
			w.WriteU32LE(1)
			w.WriteU32LE(2)
			w.WriteBytes(make([]byte, 20))
			w.WriteVarBytes([]byte{1, 2, 3})
			w.WriteB(pad)
			w.WriteBytes([]byte{1, 7, 0})
			return w.Bytes()
		}
		return [][]byte{mk(0, 1), mk(4, 1), mk(32, 1), mk(33, 1), mk(4, 0), mk(4, 2), mk(4, 1)[:30], append([]byte{0xfd, 4, 0}, mk(4, 1)[1:]...)}
	case "notification":
		pre := append(make([]byte, 20), 2, 'e', 'v')
		mk := func(item ...byte) []byte { return append(bytes.Clone(pre), item...) }
		return [][]byte{mk(0x40, 0), mk(0x41, 0), mk(0x41, 2, 0, 0x20, 1), mk(0x40, 1, 0x21, 1, 5), mk(0x48, 0), mk(0x21, 1, 5), mk(0x00), mk(0x40, 1, 0x60), mk(0x40, 1, 0x10, 1), mk(0x40, 1, 0xff),
			mk(0x40, 0xfd, 0xff, 0x07), append(mk(0x40, 0xfd, 0xff, 0x07), make([]byte, 2047)...), append(mk(0x40, 0xfd, 0x00, 0x08), make([]byte, 2048)...), mk(0x40, 2, 0x48, 1, 0x40, 0, 0, 0)}
	case "appexec":
		hd := func(state byte, stack ...byte) []byte {
			b := append(make([]byte, 32), 0x40, state)
			b = append(b, 1, 0, 0, 0, 0, 0, 0, 0)
			return append(b, stack...)
		}
		tail := []byte{0, 0} // no events, empty fault string
		cat := func(xs ...[]byte) []byte { return bytes.Join(xs, nil) }
		inv := append(append(make([]byte, 20), 1, 'm', 2, 0, 0, 0), 0, 1, 0x00)
		invT := append(append(make([]byte, 20), 1, 'm', 2, 0, 0, 0), 7)
		return [][]byte{cat(hd(1, 0), tail), cat(hd(1, 1, 0x60), tail), cat(hd(1, 2, 0x10, 7, 0xff), tail), cat(hd(1, 1, 0x40, 2, 0x60, 0x10, 0xfd, 1, 0), tail), cat(hd(1, 1, 0x48, 1, 0x60, 0), tail),
			cat(hd(2, 1, 0x21, 0x21), tail), cat(hd(0x81, 0), tail, []byte{0}), cat(hd(0x81, 0), tail, []byte{1}, inv), cat(hd(0x81, 0), tail, []byte{1}, invT), cat(hd(0x80, 0), tail), cat(hd(0xff, 0), tail, []byte{0}),
			cat(hd(1, 0xfd, 0x00, 0x08), make([]byte, 2048), tail), cat(hd(1, 0xfd, 0x01, 0x08), make([]byte, 2049), tail), cat(hd(1, 0), []byte{1}, make([]byte, 20), []byte{0, 0x40, 0}, []byte{0}),
			cat(hd(1, 0), []byte{1}, make([]byte, 20), []byte{0, 0x41, 1, 0x60}, []byte{0}), cat(hd(1, 0), []byte{0, 3, 'e', 'r', 'r'})}
	case "nef":
		// well-formed files (right checksum) that break one decode-time rule each: empty script, method "_x", call flags 0x10
		var out [][]byte
		for k := 0; k < 4; k++ {
			f, _ := nef.NewFile([]byte{0x11, 0x40})
			f.Tokens = []nef.MethodToken{{Hash: util.Uint160{1}, Method: "m", ParamCount: 1, HasReturn: true, CallFlag: 15}}
			switch k {
			case 1:
				f.Script = []byte{}
			case 2:
				f.Tokens[0].Method = "_x"
			case 3:
				f.Tokens[0].CallFlag = 0x10
			}
			f.Checksum = f.CalculateChecksum()
			if b, err := f.BytesLong(); err == nil {
				out = append(out, b)
			}
		}
		return append(out, [][]byte{{0x4e, 0x45, 0x46, 0x33}, {0x4e, 0x45, 0x46, 0x34}, make([]byte, 80)}...)
	case "consensus", "consensus/sr":
		// recovery messages nested in recovery messages (the embedded "PrepareRequest" message may be of any type until
		// its type is checked, after it was decoded): 20 000 levels; a recovery message whose embedded message is a Commit
		deep := func(depth int) []byte {
			var d []byte
			for i := 0; i < depth; i++ {
				d = append(d, 0x41, 1, 0, 0, 0, 0, 0, 0, 1)
			}
			d = append(d, 0x41, 1, 0, 0, 0, 0, 0, 0, 0, 0, 0, 0)
			for i := 0; i < depth; i++ {
				d = append(d, 0, 0)
			}
			return c17MustEnc(&payload.Extensible{Category: payload.ConsensusCategory, ValidBlockEnd: 1, Data: d})
		}
		wrongType := c17MustEnc(&payload.Extensible{Category: payload.ConsensusCategory, ValidBlockEnd: 1,
			Data: append(append([]byte{0x41, 1, 0, 0, 0, 0, 0, 0, 1, 0x30, 1, 0, 0, 0, 0, 0}, make([]byte, 64)...), 0, 0)})
		return [][]byte{deep(1), deep(20000), wrongType}
	case "p2pmessage", "p2pmessage/sr":
		return [][]byte{{0, 1, 0}, {0, 0x10, 0}, {0, 0x25, 0}, {0, 0x32, 0}, {0, 0x18, 0}, {0, 0x00, 0}, {1, 1, 0}, {0xff, 1, 0}, {0, 0x99, 1, 0}, {0, 0x2f, 1, 0}, {0, 0x18, 12, 1, 0, 0, 0, 2, 0, 0, 0, 3, 0, 0, 0},
			{0, 0x18, 13, 1, 0, 0, 0, 2, 0, 0, 0, 3, 0, 0, 0, 9}, {0, 0x18, 11, 1, 0, 0, 0, 2, 0, 0, 0, 3, 0, 0}, {0, 0x18, 0xfd, 12, 0, 1, 0, 0, 0, 2, 0, 0, 0, 3, 0, 0, 0}, {2, 0x19, 12, 1, 0, 0, 0, 2, 0, 0, 0, 3, 0, 0, 0},
			{0, 0x18, 0xfe, 0, 0, 0, 2}, {0, 0x18, 0xfe, 1, 0, 0, 2}, {0, 0x18, 0xff, 0xff, 0xff, 0xff, 0xff, 0xff, 0xff, 0xff, 0xff}, {1, 0x18, 3, 1, 2, 3}, {1, 0x18, 5, 12, 0, 0, 0, 0},
			{0, 0x27, 34, 0x2b, 1, 1, 2, 3, 4, 5, 6, 7, 8, 9, 10, 11, 12, 13, 14, 15, 16, 17, 18, 19, 20, 21, 22, 23, 24, 25, 26, 27, 28, 29, 30, 31, 32}, {0, 0x2b, 1, 0}, {0, 0x24, 34, 1, 2, 3}}
	case "tx/bytes", "tx/stream":
		return nil
	}
	return nil
}

// ---------------- the runs ----------------

type c17Input struct {
	V      string    `json:"v,omitempty"`
	Max    int       `json:"max,omitempty"`
	Bytes  string    `json:"bytes,omitempty"`
	Text   string    `json:"text,omitempty"`
	Type   string    `json:"type,omitempty"`
	Tx     *c17Tx    `json:"tx,omitempty"`
	Item   *c17Item  `json:"item,omitempty"`
	Shared []c17Item `json:"shared,omitempty"` // instances that "ref" items of Item denote (one Go instance each)
	N      int       `json:"n,omitempty"`
	Seed   uint64    `json:"seed,omitempty"`
	Idx    int       `json:"idx,omitempty"`
}

var c17Modelled = map[string]string{"tx/bytes": "CTxDec 0", "tx/stream": "CTxDec 1", "signer": "CSignerDec", "cond": "CCondDec", "attr": "CAttrDec",
	"witness": "CWitnessDec", "header": "CHeaderDec false", "header/sr": "CHeaderDec true", "block": "CBlockDec false", "block/sr": "CBlockDec true", "item": "CItemDec",
	// extension round: MPT nodes, state root, NEF, P2P payloads (by command byte), the frame
	"notification": "CNotifDec", "appexec": "CAerDec", "mptnode": "CMptDec", "mptroot": "CMptRootDec", "nef": "CNefDec", "addr": "CNetAddrDec", "p2pmessage": "CFrameDec",
	"version": "CPayloadDec 0", "addrlist": "CPayloadDec 17", "inventory": "CPayloadDec 39", "getblocks": "CPayloadDec 36", "getblockbyindex": "CPayloadDec 41",
	"headers": "CPayloadDec 33", "ping": "CPayloadDec 24", "mptinventory": "CPayloadDec 81", "mptdata": "CPayloadDec 82", "extensible": "CPayloadDec 46",
	// configuration round: the same decoders with StateRootInHeader
	"headers/sr": "CPayloadDecSr true 33", "p2pmessage/sr": "CFrameDecSr true"}

// MPTData announces its element count without a maximum (the decoder appends element by element and stops at the end of
// the input): an announced count above the input length is refused by both sides, but the model would count it in unary
func c17UnboundedCount(typ string, b []byte) bool {
	if strings.HasPrefix(typ, "p2pmessage") {
		if len(b) < 3 || b[1] != 0x52 || b[0]&1 == 1 {
			return false
		}
		r := io.NewBinReaderFromBuf(b[2:])
		_ = r.ReadVarUint()
		if r.Err != nil {
			return false
		}
		b = b[len(b)-r.Len():]
	} else if typ != "mptdata" {
		return false
	}
	r := io.NewBinReaderFromBuf(b)
	n := r.ReadVarUint()
	return r.Err == nil && n > uint64(len(b))
}

// reference LZ4 block decoder (format: token, literal length, literals, 2-byte offset, match length), independent of the
// library: used to tell a corrupt compressed payload from a valid one that the library's decoder refuses (finding F52)
func c17RefLZ4(src []byte, max int) ([]byte, bool) {
	var out []byte
	i := 0
	for i < len(src) {
		tok := src[i]
		i++
		ll := int(tok >> 4)
		if ll == 15 {
			for {
				if i >= len(src) {
					return nil, false
				}
				x := int(src[i])
				i++
				ll += x
				if x != 255 {
					break
				}
			}
		}
		if i+ll > len(src) || len(out)+ll > max {
			return nil, false
		}
		out = append(out, src[i:i+ll]...)
		i += ll
		if i >= len(src) {
			return out, true // the last sequence has literals only
		}
		if i+2 > len(src) {
			return nil, false
		}
		off := int(src[i]) | int(src[i+1])<<8
		i += 2
		ml := int(tok & 15)
		if ml == 15 {
			for {
				if i >= len(src) {
					return nil, false
				}
				x := int(src[i])
				i++
				ml += x
				if x != 255 {
					break
				}
			}
		}
		ml += 4
		if off == 0 || off > len(out) || len(out)+ml > max {
			return nil, false
		}
		for k := 0; k < ml; k++ {
			out = append(out, out[len(out)-off])
		}
	}
	return nil, false // a block ends with literals
}

// a frame whose compressed payload is a valid LZ4 block of exactly the announced size
func c17ValidCompressedFrame(b []byte) bool {
	if len(b) < 3 || b[0]&1 == 0 {
		return false
	}
	r := io.NewBinReaderFromBuf(b[2:])
	l := r.ReadVarUint()
	if r.Err != nil || l < 4 || l > 0x02000000 || uint64(r.Len()) < l {
		return false
	}
	raw := make([]byte, l)
	r.ReadBytes(raw)
	n := binary.LittleEndian.Uint32(raw[:4])
	if n > 0x02000000 {
		return false
	}
	out, ok := c17RefLZ4(raw[4:], int(n))
	return ok && len(out) == int(n)
}

// commands whose payload the frame model does not carry (merkleblock, notary request): frames with them are checked directly only
func c17FrameUnmodelled(b []byte) bool { return len(b) > 1 && (b[1] == 0x38 || b[1] == 0x50) }

// what network.decompress gives for the raw payload of a frame (pkg/network/compress.go: 4-byte little-endian length
// of the uncompressed data, then one lz4 block); None when the frame is not compressed or the data does not decompress
func c17FrameDecompressed(b []byte) string {
	if len(b) < 3 || b[0]&1 == 0 {
		return "None"
	}
	r := io.NewBinReaderFromBuf(b[2:])
	l := r.ReadVarUint()
	if r.Err != nil || l == 0 || l > 0x02000000 {
		return "None"
	}
	raw := make([]byte, l)
	r.ReadBytes(raw)
	if r.Err != nil || len(raw) < 4 {
		return "None"
	}
	n := binary.LittleEndian.Uint32(raw[:4])
	if n > 0x02000000 {
		return "None"
	}
	dest := make([]byte, n)
	size, err := lz4.UncompressBlock(raw[4:], dest)
	if err != nil || uint32(size) != n || n > 6000 {
		return "None"
	}
	return "(Some " + coqBytes(dest) + ")"
}

var c17ECErr = regexp.MustCompile(`computing Y|not on the|bigger than P|point at infinity|not correct`)

func c17CoqDimpl(res c17WRes) string {
	if !res.OK {
		return "None"
	}
	h := "[]"
	if res.Hash != "" && !strings.Contains(res.Hash, "/") {
		h = coqBytes(unhx(res.Hash))
	}
	return fmt.Sprintf("(Some (%s, %s, %s))", coqBytes(unhx(res.Reenc)), h, coqZi(int64(res.Size)))
}

type c17Runner struct {
	co   *caseOut
	g    *c17Guard
	tier string
	mode string
}

func (x *c17Runner) runCase(kind string, in c17Input) {
	co := x.co
	switch kind {
	case "varuint_w":
		v, _ := new(big.Int).SetString(in.V, 10)
		w := io.NewBufBinWriter()
		w.WriteVarUint(v.Uint64())
		b := w.Bytes()
		co.add(kind, fmt.Sprintf("len%d", len(b)), v.Uint64() >= 0xfd, in, hx(b), fmt.Sprintf("CVarW %s %s", v, coqBytes(b)))
	case "varsize":
		v, _ := new(big.Int).SetString(in.V, 10)
		sz := io.GetVarSize(int(v.Int64()))
		co.add(kind, fmt.Sprintf("size%d", sz), v.Int64() >= 0xfd, in, sz, fmt.Sprintf("CVarSize %s %d", v, sz))
	case "varbytes_size": // GetVarSize([]byte) against the length of WriteVarBytes (direct: the value is too long for a Coq term)
		b := make([]byte, in.N)
		w := io.NewBufBinWriter()
		w.WriteVarBytes(b)
		if got, want := io.GetVarSize(b), len(w.Bytes()); got != want {
			co.violation(kind, "size differs from the length of the encoding: io.GetVarSize([]byte) vs WriteVarBytes", in, map[string]int{"GetVarSize": got, "len(encoding)": want})
		}
		s := string(b)
		w2 := io.NewBufBinWriter()
		w2.WriteString(s)
		if got, want := io.GetVarSize(s), len(w2.Bytes()); got != want {
			co.violation(kind, "size differs from the length of the encoding: io.GetVarSize(string) vs WriteString", in, map[string]int{"GetVarSize": got, "len(encoding)": want})
		}
		co.hist[kind+"/direct"]++
	case "varuint_r":
		b := unhx(in.Bytes)
		r := io.NewBinReaderFromBuf(b)
		v := r.ReadVarUint()
		impl := "None"
		if r.Err == nil {
			impl = fmt.Sprintf("(Some (%d, %d))", v, r.Len())
		}
		tag := "err"
		if r.Err == nil {
			w := io.NewBufBinWriter()
			w.WriteVarUint(v)
			tag = "minimal"
			if len(w.Bytes()) != len(b)-r.Len() {
				tag = "non-minimal"
			}
		}
		co.add(kind, tag, tag == "non-minimal" || len(b) > 1, in, impl, fmt.Sprintf("CVarR %s %s", coqBytes(b), impl))
	case "varbytes_r":
		b := unhx(in.Bytes)
		r := io.NewBinReaderFromBuf(b)
		got := r.ReadVarBytes(in.Max)
		impl, tag := "None", "err"
		if r.Err == nil {
			impl, tag = fmt.Sprintf("(Some (%s, %d))", coqBytes(got), r.Len()), "ok"
		}
		co.add(kind, tag, len(b) > 1, in, impl, fmt.Sprintf("CVarBytesR %d %s %s", in.Max, coqBytes(b), impl))
	case "tx_enc":
		tx := in.Tx.build()
		b := tx.Bytes()
		if b == nil {
			co.violation(kind, "generated transaction does not encode", in, nil)
			return
		}
		size, h := tx.Size(), tx.Hash()
		if gv := io.GetVarSize(tx); gv != len(b) || size != len(b) {
			co.violation(kind, "size differs from the length of the encoding", in, map[string]int{"Size": size, "GetVarSize": gv, "len": len(b)})
		}
		if msg := c17JSONRoundTrip(tx, func() any { return &transaction.Transaction{} }); msg != "" {
			co.violation(kind, "tx: "+msg, in, nil)
		}
		tag := fmt.Sprintf("signers%d/attrs%d", len(tx.Signers), len(tx.Attributes))
		nontriv := len(tx.Attributes) > 0 || len(tx.Signers) > 1 || tx.Signers[0].Scopes&0x70 != 0
		co.add(kind, tag, nontriv, in, map[string]any{"bytes": hx(b), "size": size, "hash": hx(h.BytesBE())},
			fmt.Sprintf("CTxEnc %s %s %d %s", in.Tx.coq(), coqBytes(b), size, coqBytes(h.BytesBE())))
	case "item_enc":
		it := in.Item.build()
		b, err := stackitem.Serialize(it)
		impl := "None"
		if err == nil {
			impl = "(Some " + coqBytes(b) + ")"
			w := io.NewBufBinWriter()
			stackitem.EncodeBinary(it, w.BinWriter)
			if w.Err != nil || !bytes.Equal(w.Bytes(), b) {
				co.violation(kind, "item: EncodeBinary differs from Serialize", in, nil)
			}
			if sc := stackitem.NewSerializationContext(); true {
				if b2, err := sc.Serialize(it, false); err != nil || !bytes.Equal(b2, b) {
					co.violation(kind, "item: SerializationContext.Serialize differs from Serialize", in, nil)
				}
			}
		}
		co.add(kind, in.Item.T, in.Item.T == "array" || in.Item.T == "struct" || in.Item.T == "map" || in.Item.T == "int", in, hx(b), fmt.Sprintf("CItemEnc %s %s", in.Item.coq(), impl))
	case "item_dag":
		c17ItemDAG(x, in)
	case "zero":
		c17ZeroCase(x, in)
	case "stackform":
		c17StackCase(x, in)
	case "stackfrom":
		c17StackFromCase(x, in)
	case "cfgwire":
		c17CfgCase(x, in)
	case "bound":
		c17BoundCase(x, in)
	case "dec":
		t := c17TypeByName(in.Type)
		if t == nil {
			panic("unknown type " + in.Type)
		}
		input := []byte(in.Text)
		if !t.text {
			input = unhx(in.Bytes)
		}
		res, ok := c17DecodeGuarded(co, x.g, t, input)
		tag := in.Type + "/err"
		if res.OK {
			tag = in.Type + "/ok"
			if res.Reenc != hx(input) && !t.text {
				tag = in.Type + "/ok-noncanonical-" + c17DiffClass(input, unhx(res.Reenc))
			} else if res.Reenc != hx(input) {
				tag = in.Type + "/ok-noncanonical"
			}
		}
		ctor, modelled := c17Modelled[in.Type]
		if x.mode != "c17" { // no Coq evaluation in these runs: the record is the evidence, the term only identifies the case
			co.add("dec", tag, res.OK || len(input) > 2, in, res, "direct "+in.Type+" "+hx(input))
			return
		}
		// (a decode that allocated megabytes read a length or count in the millions: the Coq evaluation would have to build
		//  that number in unary; such inputs - refused for lack of data a moment later - are checked directly only)
		if !ok || !modelled || len(input) > 17000 || res.AllocKB > 2048 || c17UnboundedCount(in.Type, input) || (!res.OK && c17ECErr.MatchString(res.Err)) {
			co.hist["dec/"+tag+"(direct only)"]++
			return
		}
		var term string
		if in.Type == "item" {
			impl := "None"
			if res.OK {
				if res.Reenc == "" && res.Err != "" {
					impl = "(Some None)"
				} else {
					impl = "(Some (Some " + coqBytes(unhx(res.Reenc)) + "))"
				}
			}
			term = fmt.Sprintf("%s %s %s", ctor, coqBytes(input), impl)
		} else if strings.HasPrefix(in.Type, "p2pmessage") {
			dz := c17FrameDecompressed(input)
			if c17FrameUnmodelled(input) || (len(input) > 0 && input[0]&1 == 1 && dz == "None" && res.OK) {
				co.hist["dec/"+tag+"(direct only)"]++ // a command outside the frame model, or a decompressed payload too long for a term
				return
			}
			term = fmt.Sprintf("%s %s %s %s", ctor, coqBytes(input), dz, c17CoqDimpl(res))
		} else {
			term = fmt.Sprintf("%s %s %s", ctor, coqBytes(input), c17CoqDimpl(res))
		}
		co.add("dec", tag, res.OK || len(input) > 2, in, res, term)
	case "roundtrip":
		t := c17TypeByName(in.Type)
		if t == nil || t.value == nil {
			panic("no value generator for " + in.Type)
		}
		r := newRng(in.Seed*1000003 + uint64(in.Idx))
		v, fresh := t.value(r)
		c17DirectRoundTrip(co, in, v, fresh)
		if x.mode != "c17" {
			co.add("roundtrip", in.Type, true, in, nil, fmt.Sprintf("direct roundtrip %s %d %d", in.Type, in.Seed, in.Idx))
		}
	case "txhash":
		c17TxHashPaths(co, in)
		co.hist["txhash/direct"]++
	default:
		panic("unknown kind " + kind)
	}
}

// binary (and JSON, where the type has one) round trip of a generated value, size against length
func c17DirectRoundTrip(co *caseOut, in c17Input, v any, fresh func() any) {
	s, ok := v.(io.Serializable)
	if !ok {
		return
	}
	p := catch(func() {
		b, err := c17Enc(s)
		if err != nil {
			co.violation("roundtrip", in.Type+": generated value does not encode: "+err.Error(), in, nil)
			return
		}
		if gv := io.GetVarSize(v); gv != len(b) {
			co.violation("roundtrip", in.Type+": size differs from the length of the encoding (io.GetVarSize)", in, map[string]int{"GetVarSize": gv, "len": len(b)})
		}
		t := fresh().(io.Serializable)
		rd := io.NewBinReaderFromBuf(b)
		t.DecodeBinary(rd)
		if rd.Err != nil {
			co.violation("roundtrip", in.Type+": own encoding is rejected: "+rd.Err.Error(), in, hx(b))
			return
		}
		if rd.Len() != 0 {
			co.violation("roundtrip", in.Type+": decoder leaves bytes of its own encoding unread", in, hx(b))
		}
		b2, err := c17Enc(t)
		if err != nil || !bytes.Equal(b, b2) {
			co.violation("roundtrip", in.Type+": encode;decode;encode changes the bytes", in, map[string]string{"first": hx(b), "second": hx(b2)})
		}
		switch x := v.(type) {
		case *transaction.Transaction:
			y := t.(*transaction.Transaction)
			if x.Hash() != y.Hash() || x.Size() != y.Size() || x.Size() != len(b) {
				co.violation("roundtrip", in.Type+": hash or size changes over a round trip", in, nil)
			}
		case *block.Block:
			y := t.(*block.Block)
			if x.Hash() != y.Hash() || y.GetExpectedBlockSize() != len(b) {
				co.violation("roundtrip", in.Type+": hash changes over a round trip or GetExpectedBlockSize differs from the length of the encoding", in,
					map[string]int{"GetExpectedBlockSize": y.GetExpectedBlockSize(), "len": len(b)})
			}
		case *block.Header:
			if y := t.(*block.Header); x.Hash() != y.Hash() {
				co.violation("roundtrip", in.Type+": hash changes over a round trip", in, nil)
			}
		}
		if _, isJ := v.(json.Marshaler); isJ && !strings.HasPrefix(in.Type, "merkleblock") { // MerkleBlock only inherits the JSON methods of its embedded *Header
			if _, isU := fresh().(json.Unmarshaler); isU {
				if msg := c17JSONRoundTrip(v, fresh); msg != "" {
					co.violation("roundtrip", in.Type+": "+msg, in, nil)
				}
			}
		}
	})
	if p != "" {
		co.violation("roundtrip", in.Type+": panic: "+p, in, nil)
	}
}

// hash and size of one transaction byte string through every path by which a node can receive it
func c17TxHashPaths(co *caseOut, in c17Input) {
	b := unhx(in.Bytes)
	type hs struct {
		Hash string `json:"hash"`
		Size int    `json:"size"`
	}
	got := map[string]hs{}
	p := catch(func() {
		if tx, err := transaction.NewTransactionFromBytes(b); err == nil { // RPC sendrawtransaction, P2P tx message
			got["NewTransactionFromBytes"] = hs{hx(tx.Hash().BytesBE()), tx.Size()}
			re := tx.Bytes()
			tx2 := &transaction.Transaction{}
			r := io.NewBinReaderFromBuf(re)
			tx2.DecodeBinary(r)
			if r.Err == nil {
				got["DecodeBinary;EncodeBinary;DecodeBinary"] = hs{hx(tx2.Hash().BytesBE()), tx2.Size()}
			}
			if j, err := json.Marshal(tx2); err == nil { // RPC JSON form of the canonical content
				tx3 := &transaction.Transaction{}
				if json.Unmarshal(j, tx3) == nil {
					got["JSON"] = hs{hx(tx3.Hash().BytesBE()), tx3.Size()}
				}
			}
		}
		txs := &transaction.Transaction{}
		r := io.NewBinReaderFromBuf(b)
		txs.DecodeBinary(r) // database, stream
		if r.Err == nil && r.Len() == 0 {
			got["DecodeBinary"] = hs{hx(txs.Hash().BytesBE()), txs.Size()}
		}
		// block body
		hdr := c17GenHeader(newRng(7), false)
		w := io.NewBufBinWriter()
		hdr.EncodeBinary(w.BinWriter)
		w.WriteVarUint(1)
		w.WriteBytes(b)
		blk := block.New(false)
		rb := io.NewBinReaderFromBuf(w.Bytes())
		blk.DecodeBinary(rb)
		if rb.Err == nil && rb.Len() == 0 && len(blk.Transactions) == 1 {
			got["block body"] = hs{hx(blk.Transactions[0].Hash().BytesBE()), blk.Transactions[0].Size()}
		}
	})
	if p != "" {
		co.violation("txhash", "panic: "+p, in, nil)
		return
	}
	var first *hs
	for _, k := range []string{"DecodeBinary;EncodeBinary;DecodeBinary", "NewTransactionFromBytes", "DecodeBinary", "block body", "JSON"} {
		v, ok := got[k]
		if !ok {
			continue
		}
		if first == nil {
			first = &v
		} else if v != *first {
			what := "hash"
			if v.Hash == first.Hash {
				what = "size"
			}
			cls := "?"
			if tx, err := transaction.NewTransactionFromBytes(b); err == nil {
				cls = c17DiffClass(b, tx.Bytes())
			} else {
				txs := &transaction.Transaction{}
				r := io.NewBinReaderFromBuf(b)
				txs.DecodeBinary(r)
				if r.Err == nil {
					cls = c17DiffClass(b, txs.Bytes())
				}
			}
			co.violation("txhash", "one transaction, two identities ("+cls+"): "+what+" depends on the path by which the bytes arrived", in, got)
			return
		}
	}
}

func runC17(args []string, mode string) error {
	cf, fs := parseCommon(mode, args)
	fs.Parse(args)
	rules := map[string]string{
		"c17": "var-uint/var-bytes primitives on boundary lattices (minimal and non-minimal forms); generated transactions, stack items (Coq term = value + bytes + size + hash); " +
			"valid, mutated and hand-made extreme byte strings into the decoders of the modelled types (tx via both paths, signer, condition, attribute, witness, header, block, stack item), " +
			"each decode in a guarded child process; non-trivial = accepted input, or rejected input longer than 2 bytes; distinct by Coq term",
		"c17x": "every serialisable type of the table: generated values through binary and JSON round trips with size checks (direct), valid/mutated/extreme byte strings into every binary decoder " +
			"under panic recovery, a time limit and an allocation budget in a child process; fixpoint and identity checks on everything accepted",
		"c17t": "text decoders (stack-item JSON in both precisions, typed item JSON, transaction/block/header/signer/manifest/notification/parameter JSON): generated documents, mutations with numeric " +
			"boundary substitution, and a lattice of exponents, long digit strings, deep nesting and long keys; guarded child process",
	}
	co := newCaseOut(cf.out, "Harness.C17", "Z", rules[mode])
	co.shard = 150
	limit := 4 * time.Second
	if cf.tier == "thorough" {
		limit = 10 * time.Second
	}
	x := &c17Runner{co: co, g: &c17Guard{limit: limit}, tier: cf.tier, mode: mode}
	defer x.g.stop()
	if cf.replay != "" {
		cases, err := readReplay(cf.replay)
		if err != nil {
			return err
		}
		for _, c := range cases {
			var rc struct {
				Kind  string   `json:"kind"`
				Input c17Input `json:"input"`
			}
			if err := json.Unmarshal(c, &rc); err != nil {
				return err
			}
			x.runCase(rc.Kind, rc.Input)
		}
		return co.finish()
	}
	r := newRng(cf.seed)
	switch mode {
	case "c17":
		c17RunModelled(x, r, cf)
	case "c17x":
		c17RunAllTypes(x, r, cf, false)
	case "c17t":
		c17RunAllTypes(x, r, cf, true)
	}
	return co.finish()
}

func c17RunModelled(x *c17Runner, r *rng, cf *commonFlags) {
	// primitives
	vals := []uint64{0, 1, 0xfc, 0xfd, 0xfe, 0xff, 0x100, 0xfffe, 0xffff, 0x10000, 0x10001, 0xfffffffe, 0xffffffff, 0x100000000, 1<<63 - 1, 1 << 63, 1<<64 - 1}
	for i := 0; i < 8; i++ {
		vals = append(vals, r.next()>>uint(r.intn(64)))
	}
	for _, v := range vals {
		x.runCase("varuint_w", c17Input{V: fmt.Sprint(v)})
		if v <= 1<<62 {
			x.runCase("varsize", c17Input{V: fmt.Sprint(v)})
		}
	}
	for _, n := range []int{0, 1, 0xfc, 0xfd, 0xfe, 0xfffe, 0xffff, 0x10000, 0x10001} {
		x.runCase("varbytes_size", c17Input{N: n})
	}
	for _, v := range vals {
		for _, form := range [][]byte{{byte(v)}, append([]byte{0xfd}, le(v, 2)...), append([]byte{0xfe}, le(v, 4)...), append([]byte{0xff}, le(v, 8)...)} {
			b := append(form, r.bytes(r.intn(3))...)
			if r.chance(15) && len(b) > 1 {
				b = b[:r.intn(len(b))]
			}
			x.runCase("varuint_r", c17Input{Bytes: hx(b)})
		}
	}
	for i := 0; i < 40; i++ {
		n := pick(r, []int{0, 1, 2, 5, 252, 253})
		mx := pick(r, []int{0, 1, 4, 5, 252, 253, 1024})
		var b []byte
		switch r.intn(3) {
		case 0:
			b = append([]byte{byte(n)}, r.bytes(n+r.intn(3))...)
		case 1:
			b = append(append([]byte{0xfd}, le(uint64(n), 2)...), r.bytes(n)...)
		default:
			b = append(append([]byte{0xfe}, le(uint64(n), 4)...), r.bytes(max(0, n-r.intn(2)))...)
		}
		x.runCase("varbytes_r", c17Input{Max: mx, Bytes: hx(b)})
	}
	x.runCase("varbytes_r", c17Input{Max: 16777216, Bytes: "feffffff00"})
	x.runCase("varbytes_r", c17Input{Max: 16777216, Bytes: "ffffffffffffffffff"})
	// values of the modelled types
	n := cf.n
	var txs []c17Tx
	for i := 0; i < n/4+4; i++ {
		t := c17GenTx(r)
		if len(t.build().Bytes()) > 2500 { // keep Coq terms small
			continue
		}
		txs = append(txs, t)
		x.runCase("tx_enc", c17Input{Tx: &t})
	}
	for i := 0; i < n/4+4; i++ {
		budget := 25
		it := c17GenItem(r, 3, &budget)
		x.runCase("item_enc", c17Input{Item: &it})
	}
	// items with sharing: one compound instance reachable several times (the serialisers' "seen" replay path)
	for i := 0; i < n/5+8; i++ {
		sh, top := c17GenDAG(r)
		x.runCase("item_dag", c17Input{Item: &top, Shared: sh})
	}
	for _, kind := range []string{"array", "struct", "map"} {
		for _, k := range []int{1, 2, 5, 10, 11} {
			if kind != "array" && k == 5 {
				continue
			}
			sh, top := c17GenDoubling(kind, k)
			x.runCase("item_dag", c17Input{Item: &top, Shared: sh})
		}
	}
	for _, kind := range []string{"array", "struct", "map"} {
		for _, total := range []int{2048, 2049} {
			sh, top := c17GenBudgetEdge(kind, total)
			x.runCase("item_dag", c17Input{Item: &top, Shared: sh})
		}
	}
	{ // size limit reached only through the repetition of a shared instance
		big := c17Item{T: "array", L: []c17Item{{T: "bytes", D: hx(make([]byte, 43000))}}}
		for _, n := range []int{3, 4} {
			top := c17Item{T: "struct", L: []c17Item{}}
			for i := 0; i < n; i++ {
				top.L = append(top.L, c17Ref(0))
			}
			x.runCase("item_dag", c17Input{Item: &top, Shared: []c17Item{big}})
		}
	}
	// decoders of the modelled types: valid, mutated, extreme
	for name := range c17Modelled {
		_ = name
	}
	names := []string{"tx/bytes", "tx/stream", "signer", "cond", "attr", "witness", "header", "header/sr", "block", "block/sr", "item",
		"notification", "appexec", "mptnode", "mptroot", "nef", "version", "addr", "addrlist", "inventory", "getblocks", "getblockbyindex", "headers", "ping", "mptinventory", "mptdata", "extensible", "p2pmessage", "headers/sr", "p2pmessage/sr"}
	for _, name := range names {
		t := c17TypeByName(name)
		var seeds [][]byte
		for i := 0; i < 6; i++ {
			s := t.gen(r)
			if len(s) <= 2500 {
				seeds = append(seeds, s)
			}
		}
		if len(seeds) == 0 {
			seeds = append(seeds, t.gen(r))
		}
		for _, s := range seeds[:min(3, len(seeds))] {
			x.runCase("dec", c17Input{Type: name, Bytes: hx(s)})
		}
		for _, e := range c17Extremes(name) {
			x.runCase("dec", c17Input{Type: name, Bytes: hx(e)})
		}
		k := n / 8
		if strings.HasPrefix(name, "tx/") || name == "item" {
			k = n / 3
		}
		for i := 0; i < k; i++ {
			x.runCase("dec", c17Input{Type: name, Bytes: hx(c17Mutate(r, pick(r, seeds), false))})
		}
	}
	// transactions that break exactly one decode-time rule (Go's encoder does not check them): every one must be refused
	for i, t := range c17OverLimitTxs(r) {
		b := t.build().Bytes()
		if b == nil || len(b) > 6000 {
			continue
		}
		x.runCase("dec", c17Input{Type: pick(r, []string{"tx/bytes", "tx/stream"}), Bytes: hx(b)})
		_ = i
	}
	// the stored (stack-item) form of manifests against the model
	c17RunStackForms(x, r, cf.seed, n)
	c17RunCfgWire(x, r, cf.seed, n)
	c17RunBounds(x, cf.seed)
	// zero values of every field of the modelled types: the model decides accept/reject and the bytes
	for _, name := range []string{"tx/stream", "signer", "witness", "attr", "header", "header/sr", "block", "block/sr", "mptroot", "notification", "appexec",
		"version", "addr", "addrlist", "inventory", "getblocks", "getblockbyindex", "headers", "ping", "mptinventory", "mptdata", "extensible", "mptnode"} {
		c17RunZeros(x, name, cf.seed)
	}
	// identity through all paths: canonical bytes, then the two non-canonical classes (non-minimal var-int; boolean byte > 1)
	for i, t := range txs {
		if i >= n/6+3 {
			break
		}
		b := t.build().Bytes()
		x.runCase("txhash", c17Input{Bytes: hx(b)})
		// signer count is at offset 25
		nb := append(append(append([]byte{}, b[:25]...), 0xfd, b[25], 0x00), b[26:]...)
		x.runCase("txhash", c17Input{Bytes: hx(nb)})
		if i < 6 {
			x.runCase("dec", c17Input{Type: "tx/bytes", Bytes: hx(nb)})
			x.runCase("dec", c17Input{Type: "tx/stream", Bytes: hx(nb)})
		}
		if j := c17FindBoolCond(t, b); j >= 0 {
			nb := bytes.Clone(b)
			nb[j] = 2 + byte(r.intn(254))
			x.runCase("txhash", c17Input{Bytes: hx(nb)})
			x.runCase("dec", c17Input{Type: "tx/bytes", Bytes: hx(nb)})
		}
		x.runCase("txhash", c17Input{Bytes: hx(c17Mutate(r, b, false))})
	}
}

// offset of the value byte of the first Boolean condition with value true in the encoding (-1 if none)
func c17FindBoolCond(t c17Tx, b []byte) int {
	var find func(c c17Cond) bool
	find = func(c c17Cond) bool {
		if c.T == "bool" && c.B {
			return true
		}
		for _, x := range c.L {
			if find(x) {
				return true
			}
		}
		return false
	}
	for _, s := range t.Signers {
		for _, ru := range s.Rules {
			if find(ru.Cond) {
				// locate by re-encoding the condition alone and searching for its bytes
				w := io.NewBufBinWriter()
				ru.Cond.build().EncodeBinary(w.BinWriter)
				enc := w.Bytes()
				i := bytes.Index(b, enc)
				j := bytes.Index(enc, []byte{0x00, 0x01})
				// the pair 00 01 inside the condition encoding that is a Boolean(true): verify by flipping and re-decoding
				for i >= 0 && j >= 0 {
					nb := bytes.Clone(b)
					nb[i+j+1] = 0
					if tx, err := transaction.NewTransactionFromBytes(nb); err == nil && !bytes.Equal(tx.Bytes(), b) && len(tx.Bytes()) == len(b) {
						return i + j + 1
					}
					k := bytes.Index(enc[j+1:], []byte{0x00, 0x01})
					if k < 0 {
						break
					}
					j += 1 + k
				}
			}
		}
	}
	return -1
}

func c17RunAllTypes(x *c17Runner, r *rng, cf *commonFlags, text bool) {
	n := cf.n
	for _, t := range c17Types() {
		if t.text != text {
			continue
		}
		tt := t
		var seeds [][]byte
		for i := 0; i < 6; i++ {
			seeds = append(seeds, t.gen(r))
		}
		mk := func(b []byte) c17Input {
			if text {
				return c17Input{Type: tt.name, Text: string(b)}
			}
			return c17Input{Type: tt.name, Bytes: hx(b)}
		}
		for _, s := range seeds {
			res, ok := c17DecodeGuarded(x.co, x.g, &tt, s)
			if ok && !res.OK {
				x.co.violation("dec", tt.name+": own encoding is rejected", mk(s), res)
			}
			x.co.add("dec", tt.name+"/valid", true, mk(s), res, "direct "+tt.name+" "+hx(s))
		}
		if !text && t.value != nil {
			for i := 0; i < max(4, n/40); i++ {
				x.runCase("roundtrip", c17Input{Type: t.name, Seed: cf.seed, Idx: i})
			}
			c17RunZeros(x, t.name, cf.seed) // every field at its zero value, one at a time and all at once
		}
		if !text {
			for _, e := range c17Extremes(t.name) {
				x.runCase("dec", mk(e))
			}
		}
		if text && strings.HasPrefix(t.name, "item/json") && t.name != "item/jsontypes" {
			for _, s := range c17JSONLattice(cf.tier) {
				x.runCase("dec", mk([]byte(s)))
			}
		}
		k := n / 4
		if _, m := c17Modelled[t.name]; m {
			k = n / 16 // already exercised against the model by c17
		}
		for i := 0; i < k; i++ {
			x.runCase("dec", mk(c17Mutate(r, pick(r, seeds), text)))
		}
	}
	if !text {
		c17RunStackForms(x, r, cf.seed, n)
		c17RunCfgWire(x, r, cf.seed, n)
		c17RunBounds(x, cf.seed)
	}
	x.co.extra["x_types"] = func() []string {
		var ns []string
		for _, t := range c17Types() {
			if t.text == text {
				ns = append(ns, t.name)
			}
		}
		return ns
	}()
}

func le(v uint64, n int) []byte {
	b := make([]byte, n)
	for i := range b {
		b[i] = byte(v >> (8 * uint(i)))
	}
	return b
}

// valid transactions turned invalid by one rule each: counts over the limits, duplicates, empty script, fee overflow, long scripts
func c17OverLimitTxs(r *rng) []c17Tx {
	base := func() c17Tx {
		t := c17GenTx(r)
		for len(t.Signers) > 2 {
			t.Signers, t.Wits = t.Signers[:2], t.Wits[:2]
		}
		t.Attrs = []c17Attr{}
		return t
	}
	conflicts := func(n int) []c17Attr {
		var a []c17Attr
		for i := 0; i < n; i++ {
			a = append(a, c17Attr{T: 0x21, Data: c17GenHash(r, 32)})
		}
		return a
	}
	var out []c17Tx
	t := base() // signers + attributes = 17
	t.Attrs = conflicts(17 - len(t.Signers))
	out = append(out, t)
	t = base() // exactly 16: the largest valid
	t.Attrs = conflicts(16 - len(t.Signers))
	out = append(out, t)
	t = base() // 17 signers
	for len(t.Signers) < 17 {
		t.Signers = append(t.Signers, c17GenSigner(r, len(t.Signers)))
		t.Wits = append(t.Wits, c17Wit{})
	}
	out = append(out, t)
	t = base() // duplicate signer account
	t.Signers = append(t.Signers[:1], t.Signers[0])
	t.Wits = append(t.Wits[:1], t.Wits[0])
	out = append(out, t)
	t = base() // duplicate single-instance attribute
	t.Attrs = []c17Attr{{T: 1}, {T: 1}}
	out = append(out, t)
	t = base()
	t.Attrs = []c17Attr{{T: 0x20, Height: 1}, {T: 0x20, Height: 2}}
	out = append(out, t)
	t = base() // empty script
	t.Script = ""
	out = append(out, t)
	t = base() // witness count differs from signer count
	t.Wits = append(t.Wits, c17Wit{})
	out = append(out, t)
	t = base()
	t.Wits = t.Wits[:len(t.Wits)-1]
	out = append(out, t)
	t = base() // negative fee, fee sum overflow, version 1
	t.SysFee = -1
	out = append(out, t)
	t = base()
	t.SysFee, t.NetFee = 1<<62, 1<<62
	out = append(out, t)
	t = base()
	t.Version = 1
	out = append(out, t)
	t = base() // invocation script of 1025 bytes
	t.Wits[0].Inv = hx(r.bytes(1025))
	out = append(out, t)
	t = base() // 1024: the largest valid
	t.Wits[0].Ver = hx(r.bytes(1024))
	out = append(out, t)
	t = base() // 17 allowed contracts / 17 rules / oracle result with a non-success code
	t.Signers[0].Scopes = 0x10
	t.Signers[0].Contracts, t.Signers[0].Groups, t.Signers[0].Rules = nil, nil, nil
	for i := 0; i < 17; i++ {
		t.Signers[0].Contracts = append(t.Signers[0].Contracts, c17GenHash(r, 20))
	}
	out = append(out, t)
	t = base()
	t.Attrs = []c17Attr{{T: 0x11, ID: 1, Code: 0x10, Data: "01"}}
	out = append(out, t)
	t = base()
	t.Attrs = []c17Attr{{T: 0x11, ID: 1, Code: 0x11}}
	out = append(out, t)
	t = base() // scopes: Global combined with another scope; unknown scope bit
	t.Signers[0].Scopes, t.Signers[0].Contracts, t.Signers[0].Groups, t.Signers[0].Rules = 0x81, nil, nil, nil
	out = append(out, t)
	t = base()
	t.Signers[0].Scopes, t.Signers[0].Contracts, t.Signers[0].Groups, t.Signers[0].Rules = 0x02, nil, nil, nil
	out = append(out, t)
	return out
}

// one item with shared instances through every serialiser; oracle = the tree obtained by unfolding (built with fresh
// instances in Go, and the value-semantics item model in Coq)
func c17ItemDAG(x *c17Runner, in c17Input) {
	co := x.co
	bad := func(note string, impl any) { co.violation("item_dag", "shared instance: "+note, in, impl) }
	p := catch(func() {
		dag := in.Item.buildCtx(&c17ItemCtx{shared: in.Shared, share: true})
		tree := in.Item.buildCtx(&c17ItemCtx{shared: in.Shared, share: false})
		es := func(e error) string {
			if e == nil {
				return ""
			}
			return e.Error()
		}
		bd, errD := stackitem.Serialize(dag)
		bd = bytes.Clone(bd)
		bt, errT := stackitem.Serialize(tree)
		if (errD == nil) != (errT == nil) || !bytes.Equal(bd, bt) {
			bad("Serialize differs from Serialize of the unfolded tree", map[string]string{"dag": hx(bd), "dagErr": es(errD), "tree": hx(bt), "treeErr": es(errT)})
		}
		if b2, err := stackitem.SerializeLimited(dag, stackitem.MaxSerialized); (err == nil) != (errD == nil) || !bytes.Equal(b2, bd) {
			bad("SerializeLimited(MaxSerialized) differs from Serialize", es(err))
		}
		w := io.NewBufBinWriter()
		stackitem.EncodeBinary(dag, w.BinWriter)
		if (w.Err == nil) != (errD == nil) || (w.Err == nil && !bytes.Equal(w.Bytes(), bd)) {
			bad("EncodeBinary differs from Serialize", es(w.Err))
		}
		w = io.NewBufBinWriter()
		stackitem.EncodeBinaryProtected(dag, w.BinWriter)
		if pb := w.Bytes(); (errD == nil && !bytes.Equal(pb, bd)) || (errD != nil && !bytes.Equal(pb, []byte{byte(stackitem.InvalidT)})) {
			bad("EncodeBinaryProtected differs from Serialize (or is not the Invalid marker on error)", hx(pb))
		}
		sc := stackitem.NewSerializationContext()
		_, _ = sc.Serialize(tree, false) // the context is reused: earlier contents must not leak into the next call
		for k := 0; k < 2; k++ {
			b3, err := sc.Serialize(dag, false)
			if (err == nil) != (errD == nil) || (err == nil && !bytes.Equal(b3, bd)) {
				bad("reused SerializationContext.Serialize differs from Serialize", map[string]any{"call": k, "err": es(err), "bytes": hx(b3)})
			}
		}
		if b4, err := sc.Serialize(dag, true); err != nil || (errD == nil && !bytes.Equal(b4, bd)) {
			bad("protected SerializationContext.Serialize differs", es(err))
		}
		if errD == nil {
			back, err := stackitem.Deserialize(bd)
			if err != nil {
				bad("own encoding is rejected: "+err.Error(), hx(bd))
			} else {
				if b5, err := stackitem.Serialize(back); err != nil || !bytes.Equal(b5, bd) {
					bad("decode;encode changes the bytes", nil)
				}
				if !c17DeepItemEq(back, tree) {
					if _, e := stackitem.ToJSONWithTypes(tree); e == nil {
						bad("decoded value differs from the unfolded tree", nil)
					}
				}
			}
		}
		// JSON forms
		jd, e1 := stackitem.ToJSONWithTypes(dag)
		jt, e2 := stackitem.ToJSONWithTypes(tree)
		if (e1 == nil) != (e2 == nil) || !bytes.Equal(jd, jt) {
			bad("ToJSONWithTypes differs from that of the unfolded tree", map[string]string{"dagErr": es(e1), "treeErr": es(e2)})
		} else if e1 == nil {
			if back, err := stackitem.FromJSONWithTypes(jd); err != nil || !c17DeepItemEq(back, tree) {
				bad("FromJSONWithTypes(ToJSONWithTypes) differs from the unfolded tree", es(err))
			}
		}
		jd, e1 = stackitem.ToJSON(dag)
		jt, e2 = stackitem.ToJSON(tree)
		if (e1 == nil) != (e2 == nil) || !bytes.Equal(jd, jt) {
			bad("ToJSON differs from that of the unfolded tree", map[string]string{"dagErr": es(e1), "treeErr": es(e2)})
		}
		// execution results and notifications carrying the shared instances (one SerializationContext for all of them)
		mk := func(it stackitem.Item) (*state.AppExecResult, *state.NotificationEvent) {
			arr := stackitem.NewArray([]stackitem.Item{it, stackitem.Make(7), it})
			ne := state.NotificationEvent{Name: "ev", Item: arr}
			aer := &state.AppExecResult{Container: util.Uint256{1}, Execution: state.Execution{Trigger: trigger.Application, VMState: vmstate.Halt, GasConsumed: 5,
				Stack: []stackitem.Item{it, arr, it}, Events: []state.NotificationEvent{ne, ne}}}
			return aer, &ne
		}
		ad, nd := mk(dag)
		at, nt := mk(tree)
		for _, pr := range []struct {
			name string
			d, t io.Serializable
			f    func() io.Serializable
		}{{"NotificationEvent", nd, nt, func() io.Serializable { return &state.NotificationEvent{} }}, {"AppExecResult", ad, at, func() io.Serializable { return &state.AppExecResult{} }}} {
			b1, e1 := c17Enc(pr.d)
			b2, e2 := c17Enc(pr.t)
			if (e1 == nil) != (e2 == nil) || !bytes.Equal(b1, b2) {
				bad(pr.name+".EncodeBinary differs from that of the unfolded tree", map[string]string{"dagErr": es(e1), "treeErr": es(e2)})
				continue
			}
			if e1 != nil {
				continue
			}
			v := pr.f()
			rd := io.NewBinReaderFromBuf(b1)
			v.DecodeBinary(rd)
			if rd.Err != nil {
				bad(pr.name+": own encoding is rejected: "+rd.Err.Error(), nil)
			} else if b3, err := c17Enc(v); err != nil || !bytes.Equal(b3, b1) {
				bad(pr.name+": decode;encode changes the bytes", nil)
			}
			j1, e1 := json.Marshal(pr.d)
			j2, e2 := json.Marshal(pr.t)
			if (e1 == nil) != (e2 == nil) || !bytes.Equal(j1, j2) {
				bad(pr.name+" JSON differs from that of the unfolded tree", nil)
			}
		}
		// the model on the unfolded value
		term := in.Item.coqCtx(in.Shared)
		tag := fmt.Sprintf("shared%d/%v", len(in.Shared), errD == nil)
		if len(term) > 120000 {
			co.hist["item_dag/"+tag+"(direct only)"]++
			return
		}
		impl := "None"
		if errD == nil {
			impl = "(Some " + coqBytes(bd) + ")"
		}
		co.add("item_dag", tag, true, in, map[string]any{"bytes": hx(bd), "err": es(errD)}, fmt.Sprintf("CItemEnc %s %s", term, impl))
	})
	if p != "" {
		bad("panic: "+p, nil)
	}
}
