package main

// C04 harness, part 1: call trees and their compilation to REAL NeoVM code.
//
// A call tree (c04Node) is executed on the real chain in two ways at once:
//   * the transaction's entry script is compiled straight-line from the entry-level part of the tree
//     (TRYL/ENDTRYL/ENDFINALLY/THROW/ABORT + System.Contract.Call with the chosen call flags);
//   * every contract-level subtree is passed as a stack item (nested arrays) to the method `run` of one of the
//     deployed test contracts, a small hand-assembled NeoVM interpreter of the tree language
//     (System.Storage.Put/Delete/Get, System.Runtime.Notify, TRY/CATCH/FINALLY around internal CALLs,
//     System.Contract.Call to other test contracts with call flags, GAS.transfer with `data` = the payment
//     callback's tree (run by onNEP17Payment of the receiving contract), Policy.setFeePerByte/getFeePerByte).
// Faults and throws can therefore be injected at every node of a tree.

import (
	"encoding/binary"
	"fmt"
	"strings"

	"github.com/nspcc-dev/neo-go/pkg/core/interop/interopnames"
	"github.com/nspcc-dev/neo-go/pkg/util"
	"github.com/nspcc-dev/neo-go/pkg/vm/emit"
	"github.com/nspcc-dev/neo-go/pkg/vm/opcode"
)

// ---- tiny assembler with labels (long jump forms only) ----

type c04Fix struct {
	pos   int // where the int32 goes
	base  int // instruction start (offsets are relative to it)
	label string
}

type c04Asm struct {
	buf    []byte
	labels map[string]int
	fixes  []c04Fix
	n      int
}

func c04NewAsm() *c04Asm { return &c04Asm{labels: map[string]int{}} }

func (a *c04Asm) fresh(p string) string { a.n++; return fmt.Sprintf("%s_%d", p, a.n) }
func (a *c04Asm) op(ops ...opcode.Opcode) {
	for _, o := range ops {
		a.buf = append(a.buf, byte(o))
	}
}
func (a *c04Asm) raw(b ...byte)     { a.buf = append(a.buf, b...) }
func (a *c04Asm) label(name string) { a.labels[name] = len(a.buf) }
func (a *c04Asm) ref(base int, label string) {
	if label == "" {
		a.raw(0, 0, 0, 0)
		return
	}
	a.fixes = append(a.fixes, c04Fix{pos: len(a.buf), base: base, label: label})
	a.raw(0, 0, 0, 0)
}

// jmp emits a long-form jump/call/endtry (JMPL, JMPIFL, JMPIFNOTL, CALLL, ENDTRYL)
func (a *c04Asm) jmp(o opcode.Opcode, label string) {
	base := len(a.buf)
	a.op(o)
	a.ref(base, label)
}
func (a *c04Asm) try(catch, fin string) {
	base := len(a.buf)
	a.op(opcode.TRYL)
	a.ref(base, catch)
	a.ref(base, fin)
}
func (a *c04Asm) pushInt(n int64) {
	w := c04W()
	emit.Int(w.BinWriter, n)
	a.raw(w.Bytes()...)
}
func (a *c04Asm) pushBytes(b []byte) {
	w := c04W()
	emit.Bytes(w.BinWriter, b)
	a.raw(w.Bytes()...)
}
func (a *c04Asm) pushStr(s string) { a.pushBytes([]byte(s)) }
func (a *c04Asm) syscall(name string) {
	w := c04W()
	emit.Syscall(w.BinWriter, name)
	a.raw(w.Bytes()...)
}
func (a *c04Asm) bytes() []byte {
	for _, f := range a.fixes {
		t, ok := a.labels[f.label]
		if !ok {
			panic("c04 asm: undefined label " + f.label)
		}
		binary.LittleEndian.PutUint32(a.buf[f.pos:], uint32(int32(t-f.base)))
	}
	return a.buf
}

// ---- the tree language ----

// Node tags (also the interpreter's dispatch values).
const (
	c04Skip = iota
	c04Put
	c04Del
	c04Notify
	c04NotifyVal
	c04NotifyFee
	c04Move
	c04SetFee
	c04Seq
	c04Call
	c04Try
	c04Throw
	c04Abort
	c04MoveNeo
	c04Vote
	c04CallT  // a call node with T set travels under this tag
	c04Update // set-up only: ContractManagement.update(nef, manifest) of the executing contract
	c04Mut     // read key k, derive a Buffer from the value by instruction V, mutate it in place, then NotifyVal k
	c04CallMut // read key k, pass the value to contract C which derives a Buffer from it and mutates it; then notify what the caller still holds
	c04MutArg  // callee side of callmut (built at run time)
	c04Dyn     // System.Runtime.LoadScript of a script compiled from Body, with requested flags Flags
)

// ways to derive a Buffer from a ByteString (mut / callmut: field V)
const (
	c04HowConvert = iota
	c04HowCatR    // v ++ ""
	c04HowCatL    // "" ++ v
	c04HowSubstr  // SUBSTR 0 len
	c04HowLeft    // LEFT len
	c04HowRight   // RIGHT len
	c04HowMemcpy  // NEWBUFFER len, MEMCPY
	c04HowZero    // LEFT 0, RIGHT 0, SUBSTR 0 0: boundary, nothing to mutate
	c04HowFind    // value from Storage.Find (values only) -> Iterator.Value, then CONVERT   (mut only)
	c04HowFindR   // ... then RIGHT len                                                      (mut only)
	c04NHow
)

var c04OpNames = []string{"skip", "put", "del", "notify", "notifyval", "notifyfee", "move", "setfee", "seq", "call", "try", "throw", "abort", "moveneo", "vote", "callt", "update", "mut", "callmut", "mutarg", "dyn"}

// c04Node is one node of a call tree. JSON form is what replay files carry.
//
//	put k v | del k | notify e | notifyval k | notifyfee | move to amt [cb] | moveneo to amt [cb] | setfee v |
//	vote v (set-up only: 1 = vote for the candidate, 0 = revoke) |
//	seq ops | call c flags body | try body [catch] [finally] | throw | abort | skip
type c04Node struct {
	Op    string     `json:"op"`
	K     int        `json:"k,omitempty"`
	V     int        `json:"v,omitempty"`
	C     int        `json:"c,omitempty"`     // call: callee contract; move: recipient account
	Flags int        `json:"flags,omitempty"` // call: requested call flags
	T     bool       `json:"t,omitempty"`     // call: through a method token of the calling contract (CALLT) instead of System.Contract.Call
	Raw   [][]byte   `json:"-"`               // update: nef, manifest
	Ops   []*c04Node `json:"ops,omitempty"`   // seq
	Body  *c04Node   `json:"body,omitempty"`  // call body / try body / move callback
	Catch *c04Node   `json:"catch,omitempty"`
	Fin   *c04Node   `json:"finally,omitempty"`
}

func (n *c04Node) tag() int {
	for i, s := range c04OpNames {
		if s == n.Op {
			return i
		}
	}
	panic("c04: unknown op " + n.Op)
}

func c04SeqOf(ops []*c04Node) *c04Node { return &c04Node{Op: "seq", Ops: ops} }

// size counts nodes
func (n *c04Node) size() int {
	if n == nil {
		return 0
	}
	s := 1 + n.Body.size() + n.Catch.size() + n.Fin.size()
	for _, o := range n.Ops {
		s += o.size()
	}
	return s
}

// Coq term of a tree (type NG.Exec.CallTree.prog)
func (n *c04Node) coq() string {
	opt := func(x *c04Node) string {
		if x == nil {
			return "None"
		}
		return "(Some " + x.coq() + ")"
	}
	switch n.tag() {
	case c04Skip:
		return "Skip"
	case c04Put:
		return fmt.Sprintf("(Put %d %d)", n.K, n.V)
	case c04Del:
		return fmt.Sprintf("(Del %d)", n.K)
	case c04Notify:
		return fmt.Sprintf("(Notify %d)", n.V)
	case c04NotifyVal:
		return fmt.Sprintf("(NotifyVal %d)", n.K)
	case c04NotifyFee:
		return "NotifyFee"
	case c04Move:
		cb := "Skip"
		if n.Body != nil {
			cb = n.Body.coq()
		}
		return fmt.Sprintf("(Move %d %d %s)", n.C, n.V, cb)
	case c04SetFee:
		return fmt.Sprintf("(SetFee %d)", n.V)
	case c04MoveNeo:
		cb := "Skip"
		if n.Body != nil {
			cb = n.Body.coq()
		}
		return fmt.Sprintf("(MoveNeo %d %d %s)", n.C, n.V, cb)
	case c04Vote:
		return "Abort" // not part of the model: set-up transactions only
	case c04Seq:
		if len(n.Ops) == 0 {
			return "Skip"
		}
		var sb strings.Builder
		for i, o := range n.Ops {
			if i+1 < len(n.Ops) {
				sb.WriteString("(Seq " + o.coq() + " ")
			} else {
				sb.WriteString(o.coq())
			}
		}
		sb.WriteString(strings.Repeat(")", len(n.Ops)-1))
		return sb.String()
	case c04Call, c04CallT:
		if n.T {
			return fmt.Sprintf("(CallV true %d %d %s)", n.C, n.Flags, n.Body.coq())
		}
		return fmt.Sprintf("(Call %d %d %s)", n.C, n.Flags, n.Body.coq())
	case c04Update, c04MutArg:
		return "Abort"
	case c04Dyn: // a frame without a layer whose flags are caller & requested & ReadOnly: the model's call with read-only flags
		return fmt.Sprintf("(Call 0 %d %s)", n.Flags&5, n.Body.coq())
	case c04Mut: // values are immutable in the model: reading and scribbling on a copy is NotifyVal
		return fmt.Sprintf("(NotifyVal %d)", n.K)
	case c04CallMut:
		return fmt.Sprintf("(Seq (Call %d 15 Skip) (NotifyVal %d))", n.C, n.K)
	case c04Try:
		return fmt.Sprintf("(Try %s %s %s)", n.Body.coq(), opt(n.Catch), opt(n.Fin))
	case c04Throw:
		return "Throw"
	case c04Abort:
		return "Abort"
	}
	panic("unreachable")
}

// ---- environment the code refers to ----

type c04Env struct {
	contracts []util.Uint160 // test contracts 0..n-1
	plain     []util.Uint160 // plain accounts n..n+len-1 (no contract there, no payment callback)
	gas       util.Uint160
	policy    util.Uint160
	neo       util.Uint160
	cand      []byte         // public key of the registered candidate
	senders   []util.Uint160 // accounts 5,6: plain accounts that send transactions (GAS only)
}

func (e *c04Env) account(i int) util.Uint160 {
	if i < len(e.contracts) {
		return e.contracts[i]
	}
	if j := i - len(e.contracts) - len(e.plain); j >= 0 && j < len(e.senders) {
		return e.senders[j]
	}
	return e.plain[(i-len(e.contracts))%len(e.plain)]
}

// ---- pushing a tree as a stack item (nested arrays) ----

func c04Key(k int) []byte { return []byte{byte(k + 1)} }
func c04Val(v int) []byte { return []byte{byte(v)} }

// pushItem emits code leaving the array encoding of n on the stack.
func (e *c04Env) pushItem(a *c04Asm, n *c04Node) {
	if n == nil {
		a.op(opcode.PUSHNULL)
		return
	}
	// fields are pushed in reverse order, then the tag, then PACK
	cnt := 1
	switch n.tag() {
	case c04Put:
		a.pushBytes(c04Val(n.V))
		a.pushBytes(c04Key(n.K))
		cnt = 3
	case c04Del, c04NotifyVal:
		a.pushBytes(c04Key(n.K))
		cnt = 2
	case c04Notify, c04SetFee, c04Abort:
		a.pushInt(int64(n.V))
		cnt = 2
	case c04Move, c04MoveNeo:
		e.pushItem(a, n.Body)
		a.pushInt(int64(n.V))
		a.pushBytes(e.account(n.C).BytesBE())
		cnt = 4
	case c04Vote:
		if n.V != 0 {
			a.pushBytes(e.cand)
		} else {
			a.op(opcode.PUSHNULL)
		}
		cnt = 2
	case c04Seq:
		for i := len(n.Ops) - 1; i >= 0; i-- {
			e.pushItem(a, n.Ops[i])
		}
		cnt = 1 + len(n.Ops)
	case c04Dyn:
		a.pushInt(int64(n.Flags))
		a.pushBytes(e.entryScript(n.Body))
		cnt = 3
	case c04Mut:
		a.pushInt(int64(n.V))
		a.pushBytes(c04Key(n.K))
		cnt = 3
	case c04CallMut:
		a.pushInt(int64(n.V))
		if n.C < len(e.contracts) {
			a.pushBytes(e.contracts[n.C].BytesBE())
		} else {
			a.pushBytes(make([]byte, 20))
		}
		a.pushBytes(c04Key(n.K))
		cnt = 4
	case c04Update:
		a.pushBytes(n.Raw[1])
		a.pushBytes(n.Raw[0])
		cnt = 3
	case c04Call:
		if n.T { // [callt, callee index, flags, body]: the interpreter picks the method token (index*16 + flags)
			e.pushItem(a, n.Body)
			a.pushInt(int64(n.Flags))
			a.pushInt(int64(n.C))
			a.pushInt(int64(c04CallT))
			a.pushInt(4)
			a.op(opcode.PACK)
			return
		}
		e.pushItem(a, n.Body)
		a.pushInt(int64(n.Flags))
		if n.C < len(e.contracts) {
			a.pushBytes(e.contracts[n.C].BytesBE())
		} else {
			a.pushBytes(make([]byte, 20)) // no such contract
		}
		cnt = 4
	case c04Try:
		e.pushItem(a, n.Fin)
		e.pushItem(a, n.Catch)
		e.pushItem(a, n.Body)
		cnt = 4
	}
	a.pushInt(int64(n.tag()))
	a.pushInt(int64(cnt))
	a.op(opcode.PACK)
}

// abort flavours: all are the same uncatchable fault for the model
func c04AbortCode(a *c04Asm, v int) {
	switch v {
	case 1:
		a.op(opcode.PUSHF, opcode.ASSERT)
	case 2:
		a.pushStr("m")
		a.op(opcode.ABORTMSG)
	default:
		a.op(opcode.ABORT)
	}
}

// ---- entry script: straight-line compilation of the entry-level tree ----

// entryOK: the entry script has no storage of its own and no manifest, so only control flow and calls appear there.
func (n *c04Node) entryOK() bool {
	if n == nil {
		return true
	}
	switch n.tag() {
	case c04Dyn:
		return n.Body.entryOK()
	case c04Call:
		return !n.T // an entry script has no method tokens
	case c04Skip, c04Throw, c04Abort:
		return true
	case c04Seq:
		for _, o := range n.Ops {
			if !o.entryOK() {
				return false
			}
		}
		return true
	case c04Try:
		return n.Body.entryOK() && n.Catch.entryOK() && n.Fin.entryOK()
	}
	return false
}

func (e *c04Env) compileEntry(a *c04Asm, n *c04Node) {
	switch n.tag() {
	case c04Skip:
		a.op(opcode.NOP)
	case c04Seq:
		for _, o := range n.Ops {
			e.compileEntry(a, o)
		}
	case c04Throw:
		a.pushStr("x")
		a.op(opcode.THROW)
	case c04Abort:
		c04AbortCode(a, n.V)
	case c04Dyn:
		a.op(opcode.NEWARRAY0)
		a.pushInt(int64(n.Flags))
		a.pushBytes(e.entryScript(n.Body))
		a.syscall(interopnames.SystemRuntimeLoadScript)
		a.op(opcode.CLEAR)
	case c04Call:
		e.pushItem(a, n.Body)
		a.pushInt(1)
		a.op(opcode.PACK)
		a.pushInt(int64(n.Flags))
		a.pushStr("run")
		if n.C < len(e.contracts) {
			a.pushBytes(e.contracts[n.C].BytesBE())
		} else {
			a.pushBytes(make([]byte, 20))
		}
		a.syscall(interopnames.SystemContractCall)
		a.op(opcode.CLEAR)
	case c04Try:
		lc, lf, le := "", "", a.fresh("end")
		if n.Catch != nil {
			lc = a.fresh("catch")
		}
		if n.Fin != nil {
			lf = a.fresh("fin")
		}
		a.try(lc, lf)
		e.compileEntry(a, n.Body)
		a.jmp(opcode.ENDTRYL, le)
		if n.Catch != nil {
			a.label(lc)
			a.op(opcode.CLEAR)
			e.compileEntry(a, n.Catch)
			a.jmp(opcode.ENDTRYL, le)
		}
		if n.Fin != nil {
			a.label(lf)
			e.compileEntry(a, n.Fin)
			a.op(opcode.ENDFINALLY)
		}
		a.label(le)
		a.op(opcode.NOP)
	default:
		panic("c04: op not allowed at entry level: " + n.Op)
	}
}

func (e *c04Env) entryScript(n *c04Node) []byte {
	a := c04NewAsm()
	e.compileEntry(a, n)
	a.op(opcode.RET)
	return a.bytes()
}

// ---- the interpreter contract ----

// c04Interpreter assembles the test contract: method run(p) (offset 0, returns Integer) and
// onNEP17Payment(from, amount, data) (void; runs `data` as a tree when it is not null).
func c04Interpreter(gas, policy, neo, mgmt util.Uint160) (script []byte, runOff, payOff int) {
	a := c04NewAsm()
	item := func(i int) { // p[i]
		a.op(opcode.LDARG0)
		a.pushInt(int64(i))
		a.op(opcode.PICKITEM)
	}
	runSub := func() { // run the tree on top of the stack in a new internal context of this contract
		a.jmp(opcode.CALLL, "run")
		a.op(opcode.CLEAR)
	}
	a.label("run")
	runOff = len(a.buf)
	a.op(opcode.INITSLOT)
	a.raw(1, 1)
	item(0)
	for t := range c04OpNames {
		a.op(opcode.DUP)
		a.pushInt(int64(t))
		a.op(opcode.NUMEQUAL)
		a.jmp(opcode.JMPIFL, "op_"+c04OpNames[t])
	}
	a.op(opcode.ABORT)

	a.label("ret")
	a.op(opcode.CLEAR, opcode.PUSH1, opcode.RET)

	a.label("op_skip")
	a.jmp(opcode.JMPL, "ret")

	a.label("op_put")
	a.op(opcode.DROP)
	item(2)
	item(1)
	a.syscall(interopnames.SystemStorageGetContext)
	a.syscall(interopnames.SystemStoragePut)
	a.jmp(opcode.JMPL, "ret")

	a.label("op_del")
	a.op(opcode.DROP)
	item(1)
	a.syscall(interopnames.SystemStorageGetContext)
	a.syscall(interopnames.SystemStorageDelete)
	a.jmp(opcode.JMPL, "ret")

	a.label("op_notify")
	a.op(opcode.DROP)
	item(1)
	a.pushInt(1)
	a.op(opcode.PACK)
	a.pushStr("E")
	a.syscall(interopnames.SystemRuntimeNotify)
	a.jmp(opcode.JMPL, "ret")

	a.label("op_notifyval")
	a.op(opcode.DROP)
	item(1)
	a.syscall(interopnames.SystemStorageGetContext)
	a.syscall(interopnames.SystemStorageGet)
	item(1)
	a.pushInt(2)
	a.op(opcode.PACK)
	a.pushStr("V")
	a.syscall(interopnames.SystemRuntimeNotify)
	a.jmp(opcode.JMPL, "ret")

	a.label("op_notifyfee")
	a.op(opcode.DROP)
	a.op(opcode.NEWARRAY0)
	a.pushInt(15)
	a.pushStr("getFeePerByte")
	a.pushBytes(policy.BytesBE())
	a.syscall(interopnames.SystemContractCall)
	a.pushInt(1)
	a.op(opcode.PACK)
	a.pushStr("P")
	a.syscall(interopnames.SystemRuntimeNotify)
	a.jmp(opcode.JMPL, "ret")

	a.label("op_move")
	a.op(opcode.DROP)
	item(3)
	item(2)
	item(1)
	a.syscall(interopnames.SystemRuntimeGetExecutingScriptHash)
	a.pushInt(4)
	a.op(opcode.PACK)
	a.pushInt(15)
	a.pushStr("transfer")
	a.pushBytes(gas.BytesBE())
	a.syscall(interopnames.SystemContractCall)
	a.jmp(opcode.JMPL, "ret")

	a.label("op_moveneo")
	a.op(opcode.DROP)
	item(3)
	item(2)
	item(1)
	a.syscall(interopnames.SystemRuntimeGetExecutingScriptHash)
	a.pushInt(4)
	a.op(opcode.PACK)
	a.pushInt(15)
	a.pushStr("transfer")
	a.pushBytes(neo.BytesBE())
	a.syscall(interopnames.SystemContractCall)
	a.jmp(opcode.JMPL, "ret")

	a.label("op_vote")
	a.op(opcode.DROP)
	item(1)
	a.syscall(interopnames.SystemRuntimeGetExecutingScriptHash)
	a.pushInt(2)
	a.op(opcode.PACK)
	a.pushInt(15)
	a.pushStr("vote")
	a.pushBytes(neo.BytesBE())
	a.syscall(interopnames.SystemContractCall)
	a.op(opcode.ASSERT)
	a.jmp(opcode.JMPL, "ret")

	a.label("op_setfee")
	a.op(opcode.DROP)
	item(1)
	a.pushInt(1)
	a.op(opcode.PACK)
	a.pushInt(15)
	a.pushStr("setFeePerByte")
	a.pushBytes(policy.BytesBE())
	a.syscall(interopnames.SystemContractCall)
	a.jmp(opcode.JMPL, "ret")

	a.label("op_seq")
	a.op(opcode.DROP)
	a.op(opcode.PUSH1, opcode.STLOC0)
	a.label("seq_loop")
	a.op(opcode.LDLOC0, opcode.LDARG0, opcode.SIZE, opcode.LT)
	a.jmp(opcode.JMPIFNOTL, "ret")
	a.op(opcode.LDARG0, opcode.LDLOC0, opcode.PICKITEM)
	runSub()
	a.op(opcode.LDLOC0, opcode.INC, opcode.STLOC0)
	a.jmp(opcode.JMPL, "seq_loop")

	a.label("op_call")
	a.op(opcode.DROP)
	item(3)
	a.pushInt(1)
	a.op(opcode.PACK)
	item(2)
	a.pushStr("run")
	item(1)
	a.syscall(interopnames.SystemContractCall)
	a.jmp(opcode.JMPL, "ret")

	a.label("op_try")
	a.op(opcode.DROP)
	item(2)
	a.op(opcode.ISNULL)
	a.jmp(opcode.JMPIFL, "try_f")
	item(3)
	a.op(opcode.ISNULL)
	a.jmp(opcode.JMPIFL, "try_c")
	// try / catch / finally
	a.try("tcf_c", "tcf_f")
	item(1)
	runSub()
	a.jmp(opcode.ENDTRYL, "ret")
	a.label("tcf_c")
	a.op(opcode.CLEAR)
	item(2)
	runSub()
	a.jmp(opcode.ENDTRYL, "ret")
	a.label("tcf_f")
	item(3)
	runSub()
	a.op(opcode.ENDFINALLY)
	// try / catch
	a.label("try_c")
	a.try("tc_c", "")
	item(1)
	runSub()
	a.jmp(opcode.ENDTRYL, "ret")
	a.label("tc_c")
	a.op(opcode.CLEAR)
	item(2)
	runSub()
	a.jmp(opcode.ENDTRYL, "ret")
	// try / finally
	a.label("try_f")
	a.try("", "tf_f")
	item(1)
	runSub()
	a.jmp(opcode.ENDTRYL, "ret")
	a.label("tf_f")
	item(3)
	runSub()
	a.op(opcode.ENDFINALLY)

	// call through a method token: token id = callee index * 16 + requested flags (48 tokens in the NEF)
	a.label("op_callt")
	a.op(opcode.DROP)
	item(1)
	a.pushInt(16)
	a.op(opcode.MUL)
	item(2)
	a.op(opcode.ADD)
	for id := 0; id < c04NContracts*16; id++ {
		a.op(opcode.DUP)
		a.pushInt(int64(id))
		a.op(opcode.NUMEQUAL)
		a.jmp(opcode.JMPIFL, fmt.Sprintf("tok_%d", id))
	}
	a.op(opcode.ABORT) // no such contract / flags out of range
	for id := 0; id < c04NContracts*16; id++ {
		a.label(fmt.Sprintf("tok_%d", id))
		a.op(opcode.DROP)
		item(3)
		a.op(opcode.CALLT)
		a.raw(byte(id), byte(id>>8))
		a.jmp(opcode.JMPL, "ret")
	}

	a.label("op_update")
	a.op(opcode.DROP)
	item(2)
	item(1)
	a.pushInt(2)
	a.op(opcode.PACK)
	a.pushInt(15)
	a.pushStr("update")
	a.pushBytes(mgmt.BytesBE())
	a.syscall(interopnames.SystemContractCall)
	a.jmp(opcode.JMPL, "ret")

	// ---- in-place mutation of Buffers derived from stored / passed byte strings ----
	// derive: [v] -> [buf] by the instruction numbered on top of the stack: [v, how] -> [buf]
	derive := func(prefix string, hows int) {
		for h := 0; h < hows; h++ {
			a.op(opcode.DUP)
			a.pushInt(int64(h))
			a.op(opcode.NUMEQUAL)
			a.jmp(opcode.JMPIFL, fmt.Sprintf("%s_how_%d", prefix, h))
		}
		a.op(opcode.ABORT)
		done := prefix + "_derived"
		lbl := func(h int) { a.label(fmt.Sprintf("%s_how_%d", prefix, h)); a.op(opcode.DROP) }
		lbl(c04HowConvert)
		a.op(opcode.CONVERT)
		a.raw(0x30)
		a.jmp(opcode.JMPL, done)
		lbl(c04HowCatR)
		a.pushBytes([]byte{})
		a.op(opcode.CAT)
		a.jmp(opcode.JMPL, done)
		lbl(c04HowCatL)
		a.pushBytes([]byte{})
		a.op(opcode.SWAP, opcode.CAT)
		a.jmp(opcode.JMPL, done)
		lbl(c04HowSubstr)
		a.op(opcode.PUSH0, opcode.OVER, opcode.SIZE, opcode.SUBSTR)
		a.jmp(opcode.JMPL, done)
		lbl(c04HowLeft)
		a.op(opcode.DUP, opcode.SIZE, opcode.LEFT)
		a.jmp(opcode.JMPL, done)
		lbl(c04HowRight)
		a.op(opcode.DUP, opcode.SIZE, opcode.RIGHT)
		a.jmp(opcode.JMPL, done)
		lbl(c04HowMemcpy)
		a.op(opcode.DUP, opcode.SIZE, opcode.NEWBUFFER, opcode.STLOC0)
		a.op(opcode.LDLOC0, opcode.SWAP, opcode.PUSH0, opcode.SWAP, opcode.DUP, opcode.SIZE, opcode.PUSH0, opcode.SWAP, opcode.MEMCPY)
		a.op(opcode.LDLOC0)
		a.jmp(opcode.JMPL, done)
		lbl(c04HowZero)
		a.op(opcode.DUP, opcode.PUSH0, opcode.LEFT, opcode.DROP)
		a.op(opcode.DUP, opcode.PUSH0, opcode.RIGHT, opcode.DROP)
		a.op(opcode.PUSH0, opcode.PUSH0, opcode.SUBSTR)
		a.jmp(opcode.JMPL, done)
		if hows > c04HowFind {
			// the value again, this time through an iterator: Storage.Find(ctx, key, ValuesOnly) -> Next -> Value
			for _, h := range []int{c04HowFind, c04HowFindR} {
				lbl(h)
				a.op(opcode.DROP)
				a.pushInt(4)
				item(1)
				a.syscall(interopnames.SystemStorageGetContext)
				a.syscall(interopnames.SystemStorageFind)
				a.op(opcode.DUP)
				a.syscall(interopnames.SystemIteratorNext)
				a.op(opcode.ASSERT)
				a.syscall(interopnames.SystemIteratorValue)
				if h == c04HowFind {
					a.op(opcode.CONVERT)
					a.raw(0x30)
				} else {
					a.op(opcode.DUP, opcode.SIZE, opcode.RIGHT)
				}
				a.jmp(opcode.JMPL, done)
			}
		}
		a.label(done)
		// scribble: every byte position 0 := 0xEE, then reverse (no-op on one byte), when there is a byte
		a.op(opcode.DUP, opcode.SIZE, opcode.PUSH0, opcode.NUMEQUAL)
		a.jmp(opcode.JMPIFL, prefix+"_nomut")
		a.op(opcode.DUP, opcode.PUSH0)
		a.pushInt(0xEE)
		a.op(opcode.SETITEM)
		a.op(opcode.DUP, opcode.REVERSEITEMS)
		a.label(prefix + "_nomut")
		a.op(opcode.DROP)
	}

	a.label("op_dyn") // [dyn, script, flags]; LoadScript itself needs AllowCall only: generated bodies begin with a call, which
	// needs ReadStates too (as the model's call frame does)
	a.op(opcode.DROP)
	a.op(opcode.NEWARRAY0)
	item(2)
	item(1)
	a.syscall(interopnames.SystemRuntimeLoadScript)
	a.jmp(opcode.JMPL, "ret")

	a.label("op_mut") // [mut, k, how]
	a.op(opcode.DROP)
	item(1)
	a.syscall(interopnames.SystemStorageGetContext)
	a.syscall(interopnames.SystemStorageGet)
	a.op(opcode.DUP, opcode.ISNULL)
	a.jmp(opcode.JMPIFL, "mut_read")
	item(2)
	derive("mut", c04NHow)
	a.label("mut_read")
	a.op(opcode.CLEAR)
	item(1)
	a.syscall(interopnames.SystemStorageGetContext)
	a.syscall(interopnames.SystemStorageGet)
	item(1)
	a.pushInt(2)
	a.op(opcode.PACK)
	a.pushStr("V")
	a.syscall(interopnames.SystemRuntimeNotify)
	a.jmp(opcode.JMPL, "ret")

	a.label("op_callmut") // [callmut, k, callee hash, how]: the callee gets [mutarg, how, v]
	a.op(opcode.DROP)
	item(1)
	a.syscall(interopnames.SystemStorageGetContext)
	a.syscall(interopnames.SystemStorageGet)
	a.op(opcode.STLOC0)
	a.op(opcode.LDLOC0)
	item(3)
	a.pushInt(int64(c04MutArg))
	a.pushInt(3)
	a.op(opcode.PACK)
	a.pushInt(1)
	a.op(opcode.PACK)
	a.pushInt(15)
	a.pushStr("run")
	item(2)
	a.syscall(interopnames.SystemContractCall)
	a.op(opcode.CLEAR)
	a.op(opcode.LDLOC0) // what the caller still holds
	item(1)
	a.pushInt(2)
	a.op(opcode.PACK)
	a.pushStr("V")
	a.syscall(interopnames.SystemRuntimeNotify)
	a.jmp(opcode.JMPL, "ret")

	a.label("op_mutarg") // [mutarg, how, v]
	a.op(opcode.DROP)
	item(2)
	a.op(opcode.DUP, opcode.ISNULL)
	a.jmp(opcode.JMPIFL, "ret")
	item(1)
	derive("arg", c04HowFind)
	a.jmp(opcode.JMPL, "ret")

	a.label("op_throw")
	a.op(opcode.DROP)
	a.pushStr("x")
	a.op(opcode.THROW)

	a.label("op_abort") // p[1]: 0 ABORT, 1 ASSERT false, 2 ABORTMSG
	a.op(opcode.DROP)
	item(1)
	a.op(opcode.DUP, opcode.PUSH1, opcode.NUMEQUAL)
	a.jmp(opcode.JMPIFL, "abort_assert")
	a.op(opcode.PUSH2, opcode.NUMEQUAL)
	a.jmp(opcode.JMPIFL, "abort_msg")
	a.op(opcode.ABORT)
	a.label("abort_assert")
	a.op(opcode.PUSHF, opcode.ASSERT)
	a.label("abort_msg")
	a.pushStr("m")
	a.op(opcode.ABORTMSG)

	// onNEP17Payment(from, amount, data)
	payOff = len(a.buf)
	a.op(opcode.INITSLOT)
	a.raw(0, 3)
	a.op(opcode.LDARG2, opcode.ISNULL)
	a.jmp(opcode.JMPIFL, "pay_out")
	a.op(opcode.LDARG2)
	a.jmp(opcode.CALLL, "run")
	a.op(opcode.CLEAR)
	a.label("pay_out")
	a.op(opcode.RET)
	return a.bytes(), runOff, payOff
}
