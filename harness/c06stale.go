package main

// C06, "stale pool" family: AddBlock does not re-verify a block transaction it finds in the node's own
// mempool, so the validity of such a transaction at acceptance time rests on the pool having been refreshed
// correctly (RemoveStale / IsTxStillRelevant at the NEW height) when the previous block was stored.
// Scenario: pool T at height H, accept block H+1 that makes T invalid (without containing it), offer a
// correctly linked and signed block H+2 containing T - with T pooled and not pooled, VerifyTransactions on/off.

import (
	"bytes"
	"fmt"
	"strings"

	"github.com/nspcc-dev/neo-go/pkg/core"
	"github.com/nspcc-dev/neo-go/pkg/core/native"
	"github.com/nspcc-dev/neo-go/pkg/core/native/noderoles"
	"github.com/nspcc-dev/neo-go/pkg/core/state"
	"github.com/nspcc-dev/neo-go/pkg/crypto/keys"
	nio "github.com/nspcc-dev/neo-go/pkg/io"
	"github.com/nspcc-dev/neo-go/pkg/smartcontract"
	"github.com/nspcc-dev/neo-go/pkg/smartcontract/callflag"
	"github.com/nspcc-dev/neo-go/pkg/smartcontract/manifest"
	"github.com/nspcc-dev/neo-go/pkg/smartcontract/nef"
	"github.com/nspcc-dev/neo-go/pkg/util"
	"github.com/nspcc-dev/neo-go/pkg/vm/emit"
	"github.com/nspcc-dev/neo-go/pkg/vm/opcode"
	"github.com/nspcc-dev/neo-go/pkg/vm/stackitem"
	"github.com/nspcc-dev/neo-go/pkg/wallet"

	"github.com/nspcc-dev/neo-go/pkg/core/block"
	"github.com/nspcc-dev/neo-go/pkg/core/native/nativenames"
	"github.com/nspcc-dev/neo-go/pkg/core/transaction"
	"github.com/nspcc-dev/neo-go/pkg/neotest"
)

var c06StaleFams = []string{"control", "vub", "conflict-in", "conflict-out", "balance", "blocked", "nvb", "oracle",
	// a committee change of a Policy value in block H+1 (c06PolicyFams)
	"fpb-up3", "fpb-up20", "fpb-down-up", "fpb-down", "execfee-up", "execfee-down", "attrfee-up", "maxvub-down", "unblocked"}

// c06PolicyFams: block H+1 carries a committee transaction that changes a Policy value T's validity depends on.
//   fpb-up3      FeePerByte x3: T's fee per byte (network fee / size, verification included) stays above the new value,
//                but what is left after size*FeePerByte no longer pays for the verification
//   fpb-up20     FeePerByte x20: T's fee per byte is below the new value
//   fpb-down-up  a preparation block lowers FeePerByte to a half, T (a large transaction, small fee per byte) is pooled
//                under it, H+1 raises it again, but not above the value the pool saw before the decrease
//   fpb-down     FeePerByte halved in H+1; T pays for the new value only (cannot be pooled at H: fresh variant only)
//   execfee-up   ExecFeeFactor x3: T's network fee no longer covers its signature check
//   execfee-down ExecFeeFactor lowered; T pays for the new value only (fresh variant only)
//   attrfee-up   the fee of the Conflicts attribute raised from 0; T carries one
//   maxvub-down  MaxValidUntilBlockIncrement lowered to 1; T's ValidUntilBlock is further away
//   unblocked    T's signer was blocked by a preparation block and is unblocked in H+1 (fresh variant only)
var c06PolicyFams = []string{"fpb-up3", "fpb-up20", "fpb-down-up", "fpb-down", "execfee-up", "execfee-down", "attrfee-up", "maxvub-down", "unblocked"}

// families whose T cannot be in the pool at H
var c06FreshOnly = map[string]bool{"nvb": true, "fpb-down": true, "execfee-down": true, "unblocked": true}

type c06StaleIn struct {
	Cfg    c02Cfg    `json:"cfg"`
	Blocks [][]c02Tx `json:"blocks"`
	Ops    []string  `json:"ops"` // "<family>/<pooled|fresh>/<verify|noverify>"
}

func c06RunStale(co *caseOut, in c06StaleIn) error {
	b, err := c02Build(c02History{Cfg: in.Cfg, Blocks: in.Blocks})
	if err != nil {
		return err
	}
	defer b.close()
	H := uint32(len(b.Blocks) - 1)
	snap := b.Snaps[H].Dump
	kind := "stale"
	for _, op := range in.Ops {
		parts := strings.Split(op, "/")
		if len(parts) != 3 {
			return fmt.Errorf("bad stale op %q", op)
		}
		fam, pooled, verify := parts[0], parts[1] == "pooled", parts[2] == "verify"
		vin := in
		vin.Ops = []string{op}
		viol := func(class, note string) {
			co.violation(kind, fmt.Sprintf("%s/%s op=%s: %s", kind, class, op, note), vin, map[string]any{"op": op, "class": class})
		}
		// ---- builder replica: T, the intervening block B1, the offered block B2 and a valid alternative ----
		rb, _, vs, fail := c06Fork(in.Cfg, snap)
		if fail != "" {
			return fmt.Errorf("fork: %s", fail)
		}
		t := &c02T{}
		e := neotest.NewExecutor(t, rb, vs, vs)
		accs := c02Accounts()
		gas := e.NativeHash(t, nativenames.Gas)
		var T, b1txsOracle *transaction.Transaction
		var b1, b2, b2alt *block.Block
		var pre []*block.Block // family-specific preparation blocks (all replicas process them first)
		var freshErr error
		H := H
		fail = c02Try(func() {
			if fam == "oracle" {
				T, b1txsOracle = c06OracleSetup(t, e, rb)
				for i := H + 1; i <= rb.BlockHeight(); i++ {
					pb, err := rb.GetBlock(rb.GetHeaderHash(i))
					if err != nil {
						panic(err)
					}
					pre = append(pre, pb)
				}
				H = rb.BlockHeight()
			}
			mkT := func(from int, vub uint32, sysfee int64, attrs ...transaction.Attribute) *transaction.Transaction {
				tx := e.NewUnsignedTx(t, gas, "transfer", accs[from].ScriptHash(), accs[(from+1)%c02NAcc].ScriptHash(), 1, nil)
				tx.ValidUntilBlock = vub
				tx.Attributes = attrs
				return e.SignTx(t, tx, sysfee, accs[from])
			}
			policyTx := func(method string, args ...any) *transaction.Transaction {
				tx := e.NewUnsignedTx(t, e.NativeHash(t, nativenames.Policy), method, args...)
				tx.ValidUntilBlock = rb.BlockHeight() + 3
				return e.SignTx(t, tx, 5_0000_0000, e.Committee)
			}
			// preparation blocks (every replica processes them before H)
			prep := func(txs ...*transaction.Transaction) {
				pb := e.NewUnsignedBlock(t, txs...)
				e.SignBlock(pb)
				if err := rb.AddBlock(pb); err != nil {
					panic("preparation block refused: " + err.Error())
				}
				pre = append(pre, pb)
				H = rb.BlockHeight()
			}
			fpb0 := rb.FeePerByte()
			// a transfer with a large script: size bytes of data are pushed and dropped first
			mkBig := func(from int, vub uint32, size int) *transaction.Transaction {
				w := nio.NewBufBinWriter()
				emit.Bytes(w.BinWriter, bytes.Repeat([]byte{0x42}, size))
				emit.Opcodes(w.BinWriter, opcode.DROP)
				emit.AppCall(w.BinWriter, gas, "transfer", callflag.All, accs[from].ScriptHash(), accs[(from+1)%c02NAcc].ScriptHash(), 1, nil)
				emit.Opcodes(w.BinWriter, opcode.ASSERT)
				tx := transaction.New(w.Bytes(), 0)
				tx.Nonce = neotest.Nonce()
				tx.ValidUntilBlock = vub
				return e.SignTx(t, tx, 1_0000_0000, accs[from]) // adds the signer (CalledByEntry) and the minimal network fee
			}
			switch fam {
			case "fpb-down-up":
				prep() // the victim's pool sees the original value first
				prep(policyTx("setFeePerByte", fpb0/2))
			case "unblocked":
				prep(policyTx("blockAccount", accs[2].ScriptHash()))
			}
			var b1txs []*transaction.Transaction
			switch fam {
			case "control":
				T = mkT(0, H+3, 1_0000_0000)
			case "vub":
				T = mkT(0, H+1, 1_0000_0000) // boundary: the last block that may carry it is H+1
			case "conflict-in":
				T = mkT(0, H+3, 1_0000_0000)
				c := mkT(0, H+3, 1_0000_0000, transaction.Attribute{Type: transaction.ConflictsT, Value: &transaction.Conflicts{Hash: T.Hash()}})
				b1txs = append(b1txs, c)
			case "conflict-out":
				x := mkT(0, H+3, 1_0000_0000)
				b1txs = append(b1txs, x)
				T = mkT(0, H+3, 1_0000_0000, transaction.Attribute{Type: transaction.ConflictsT, Value: &transaction.Conflicts{Hash: x.Hash()}})
			case "balance":
				T = mkT(3, H+3, 1500_0000_0000)
				bal := rb.GetUtilityTokenBalance(accs[3].ScriptHash(), accs[3].ScriptHash())
				away := e.NewUnsignedTx(t, gas, "transfer", accs[3].ScriptHash(), accs[0].ScriptHash(), bal.Int64()-100_0000_0000, nil)
				away.ValidUntilBlock = H + 3
				b1txs = append(b1txs, e.SignTx(t, away, 1_0000_0000, accs[3]))
			case "blocked":
				T = mkT(2, H+3, 1_0000_0000)
				blk := e.NewUnsignedTx(t, e.NativeHash(t, nativenames.Policy), "blockAccount", accs[2].ScriptHash())
				blk.ValidUntilBlock = H + 3
				b1txs = append(b1txs, e.SignTx(t, blk, 5_0000_0000, e.Committee))
			case "nvb":
				T = mkT(0, H+5, 1_0000_0000, transaction.Attribute{Type: transaction.NotValidBeforeT, Value: &transaction.NotValidBefore{Height: H + 3}})
			case "oracle":
				// T answers request 0; the intervening block carries ANOTHER response to the same request
				b1txs = append(b1txs, b1txsOracle)
			case "fpb-up3", "fpb-up20":
				T = mkT(0, H+3, 1_0000_0000)
				k := int64(3)
				if fam == "fpb-up20" {
					k = 20
				}
				b1txs = append(b1txs, policyTx("setFeePerByte", rb.FeePerByte()*k))
			case "fpb-down-up":
				// T: a large script (the verification is a small part of its network fee), minimal fee under the halved value
				T = mkBig(0, H+3, 6000)
				b1txs = append(b1txs, policyTx("setFeePerByte", fpb0*9/10))
			case "fpb-down":
				b1txs = append(b1txs, policyTx("setFeePerByte", rb.FeePerByte()/2))
			case "execfee-up":
				T = mkT(0, H+3, 1_0000_0000)
				b1txs = append(b1txs, policyTx("setExecFeeFactor", execFactor(rb)*3))
			case "execfee-down":
				b1txs = append(b1txs, policyTx("setExecFeeFactor", execFactor(rb)/3))
			case "attrfee-up":
				T = mkT(0, H+3, 1_0000_0000, transaction.Attribute{Type: transaction.ConflictsT, Value: &transaction.Conflicts{Hash: util.Uint256{0xc0, 0x6}}})
				b1txs = append(b1txs, policyTx("setAttributeFee", int64(transaction.ConflictsT), int64(500_0000)))
			case "maxvub-down":
				T = mkT(0, H+rb.GetMaxValidUntilBlockIncrement(), 1_0000_0000)
				b1txs = append(b1txs, policyTx("setMaxValidUntilBlockIncrement", int64(1)))
			case "unblocked":
				b1txs = append(b1txs, policyTx("unblockAccount", accs[2].ScriptHash()))
			default:
				panic("unknown family " + fam)
			}
			b1 = e.NewUnsignedBlock(t, b1txs...)
			e.SignBlock(b1)
			if err := rb.AddBlock(b1); err != nil {
				panic("intervening block refused: " + err.Error())
			}
			switch fam {
			case "fpb-down", "execfee-down":
				T = mkT(0, H+3, 1_0000_0000) // signed at H+1: its network fee is the minimum under the NEW policy
			case "unblocked":
				T = mkT(2, H+3, 1_0000_0000)
			}
			freshErr = rb.VerifyTx(T) // a node that never pooled T, at H+1
			b2 = e.NewUnsignedBlock(t, T)
			e.SignBlock(b2)
			alt := mkT(1, H+4, 1_0000_0000)
			b2alt = e.NewUnsignedBlock(t, alt)
			e.SignBlock(b2alt)
		})
		rb.Close()
		if fail != "" {
			viol("setup", c02Short(fail))
			continue
		}
		freshOK := freshErr == nil
		// ---- the victim ----
		vcfg := in.Cfg
		vcfg.NoVerify = !verify
		v, store, _, fail := c06Fork(vcfg, snap)
		if fail != "" {
			return fmt.Errorf("fork: %s", fail)
		}
		func() {
			defer v.Close()
			for _, pb := range pre {
				if err := v.AddBlock(pb); err != nil {
					viol("setup-pre", err.Error())
					return
				}
			}
			if pooled {
				if err := v.PoolTx(T); err != nil {
					if c06FreshOnly[fam] {
						return // cannot be pooled at H: only the fresh variant exists
					}
					viol("setup-pool", err.Error())
					return
				}
			}
			if err := v.AddBlock(b1); err != nil {
				viol("setup-b1", err.Error())
				return
			}
			kept := v.GetMemPool().ContainsKey(T.Hash())
			if kept && !freshOK {
				viol("stale-tx-kept", fmt.Sprintf("after block %d the mempool still holds a transaction that a fresh verification at this height refuses (%v)", H+1, freshErr))
			}
			v.VerifPersist()
			n, hh := v.BlockHeight(), v.HeaderHeight()
			before := c02NormDump(c02Dump(store))
			poolBefore := c06PoolHashes(v)
			tip, root := v.CurrentBlockHash(), v.GetStateModule().CurrentLocalStateRoot()
			var err error
			if m := c02Try(func() { err = v.AddBlock(b2) }); m != "" {
				viol("panic", c02Short(m))
				return
			}
			verdict := c06Class(err)
			accepted := err == nil
			if verify && accepted && !freshOK {
				viol("stale-tx-accepted", fmt.Sprintf("block %d carrying a transaction that is invalid at this height (%v) was accepted because the transaction sat in the node's mempool", H+2, freshErr))
			}
			if verify && !accepted && freshOK {
				viol("valid-refused", fmt.Sprintf("block %d with a valid transaction refused: %v", H+2, err))
			}
			v.VerifPersist()
			if !accepted {
				if v.BlockHeight() != n || v.CurrentBlockHash() != tip || v.GetStateModule().CurrentLocalStateRoot() != root {
					viol("ledger-changed", "rejected ("+verdict+") but height / tip / state root changed")
				}
				hdrRecorded := v.HeaderHeight() == hh+1
				allowed := func(k string, va, vb []byte) bool {
					if !hdrRecorded {
						return false
					}
					c := c02Class(k, va)
					if va == nil {
						c = c02Class(k, vb)
					}
					return c == "curheader" || (c == "blk" && va == nil)
				}
				after := c02NormDump(c02Dump(store))
				if nd, ex := c02DiffDumps(before, after, allowed); nd > 0 {
					viol("db-changed", fmt.Sprintf("rejected (%s) but the database changed in %d keys, classes=%s: %v", verdict, nd, c02DiffClasses(before, after, allowed), ex))
				}
				if pa := c06PoolHashes(v); strings.Join(pa, ",") != strings.Join(poolBefore, ",") {
					viol("mempool-changed", fmt.Sprintf("rejected (%s) but the mempool changed: %d -> %d transactions", verdict, len(poolBefore), len(pa)))
				}
				// the header of b2 is validly signed and now recorded: the node is committed to it, so the
				// alternative valid block can only be offered to a replica that has not seen b2
				if !hdrRecorded {
					if err2 := v.AddBlock(b2alt); err2 != nil {
						viol("retry-rejected", "the valid block is not accepted afterwards: "+err2.Error())
					}
				}
			}
			famIdx := 0
			for i, f := range c06StaleFams {
				if f == fam {
					famIdx = i
				}
			}
			co.add(kind, fmt.Sprintf("%s/%s", fam, verdict), !freshOK, vin,
				map[string]any{"kept": kept, "fresh_ok": freshOK, "fresh_err": fmt.Sprint(freshErr), "verdict": verdict},
				fmt.Sprintf("CStale %d %s %s %s %s %s", famIdx, coqBool(verify), coqBool(pooled), coqBool(kept), coqBool(freshOK), coqBool(accepted)))
		}()
	}
	return nil
}

func c06StaleOps() []string {
	var ops []string
	for _, f := range c06StaleFams {
		for _, p := range []string{"pooled", "fresh"} {
			ops = append(ops, f+"/"+p+"/verify")
		}
	}
	for _, f := range []string{"control", "vub", "blocked"} {
		ops = append(ops, f+"/pooled/noverify", f+"/fresh/noverify")
	}
	// remove the pooled variant of the families whose T cannot be pooled at H
	out := ops[:0]
	for _, o := range ops {
		f, rest, _ := strings.Cut(o, "/")
		if c06FreshOnly[f] && strings.HasPrefix(rest, "pooled") && f != "nvb" {
			continue
		}
		out = append(out, o)
	}
	return out
}

// c06OracleSetup deploys a minimal contract that files an oracle request, designates one oracle node, funds
// its multisignature address and files request 0 (three blocks).  It returns two different, individually valid
// response transactions for request 0.
func c06OracleSetup(t *c02T, e *neotest.Executor, bc *core.Blockchain) (*transaction.Transaction, *transaction.Transaction) {
	oracleHash := e.NativeHash(t, nativenames.Oracle)
	w := nio.NewBufBinWriter()
	emit.AppCall(w.BinWriter, oracleHash, "request", callflag.All, "https://c06.example/x", nil, "cb", nil, int64(2000_1234))
	emit.Opcodes(w.BinWriter, opcode.DROP, opcode.RET)
	cbOff := w.Len()
	emit.Instruction(w.BinWriter, opcode.INITSLOT, []byte{0, 4})
	emit.Opcodes(w.BinWriter, opcode.RET)
	ne, err := nef.NewFile(w.Bytes())
	if err != nil {
		panic(err)
	}
	m := manifest.NewManifest("c06orc")
	m.ABI.Methods = []manifest.Method{
		{Name: "req", Offset: 0, ReturnType: smartcontract.VoidType, Parameters: []manifest.Parameter{}},
		{Name: "cb", Offset: cbOff, ReturnType: smartcontract.VoidType, Parameters: []manifest.Parameter{
			manifest.NewParameter("url", smartcontract.StringType), manifest.NewParameter("data", smartcontract.AnyType),
			manifest.NewParameter("code", smartcontract.IntegerType), manifest.NewParameter("res", smartcontract.ByteArrayType)}},
	}
	perm := manifest.NewPermission(manifest.PermissionWildcard)
	perm.Methods.Value = nil
	m.Permissions = []manifest.Permission{*perm}
	c := &neotest.Contract{Hash: state.CreateContractHash(e.Validator.ScriptHash(), ne.Checksum, m.Name), NEF: ne, Manifest: m}
	e.DeployContract(t, c, nil)
	// one oracle node with a fixed key
	pk, _ := keys.NewPrivateKeyFromBytes(append(bytes.Repeat([]byte{0x55}, 31), 3))
	acc := wallet.NewAccountFromPrivateKey(pk)
	pub := acc.PublicKey()
	desig := e.CommitteeInvoker(e.NativeHash(t, nativenames.Designation))
	desig.Invoke(t, stackitem.Null{}, "designateAsRole", int(noderoles.Oracle), []any{pub.Bytes()})
	if err := acc.ConvertMultisig(1, []*keys.PublicKey{pub}); err != nil {
		panic(err)
	}
	multi := neotest.NewMultiSigner(acc)
	gasInv := e.CommitteeInvoker(e.NativeHash(t, nativenames.Gas))
	gasInv.Invoke(t, true, "transfer", gasInv.CommitteeHash, multi.ScriptHash(), 100_0000_0000, nil)
	e.ValidatorInvoker(c.Hash).Invoke(t, stackitem.Null{}, "req")
	resp := func(result []byte) *transaction.Transaction {
		tx := transaction.New(native.CreateOracleResponseScript(oracleHash), 1000_0000)
		tx.Nonce = neotest.Nonce()
		tx.ValidUntilBlock = bc.BlockHeight() + 3
		tx.Attributes = []transaction.Attribute{{Type: transaction.OracleResponseT,
			Value: &transaction.OracleResponse{ID: 0, Code: transaction.Success, Result: result}}}
		tx.Signers = []transaction.Signer{{Account: multi.ScriptHash(), Scopes: transaction.None}, {Account: oracleHash, Scopes: transaction.None}}
		tx.NetworkFee = 1000_1234
		tx.Scripts = []transaction.Witness{
			{InvocationScript: multi.SignHashable(uint32(bc.GetConfig().Magic), tx), VerificationScript: multi.Script()},
			{InvocationScript: []byte{}, VerificationScript: []byte{}},
		}
		return tx
	}
	return resp([]byte{1, 2, 3}), resp([]byte{9, 9})
}

// the ExecFeeFactor as Policy's setter takes it (all hardforks are active on the harness's chains: since Faun the
// setter takes the factor multiplied by vm.ExecFeeFactorMultiplier, which is what GetBaseExecFee returns)
func execFactor(bc *core.Blockchain) int64 {
	return bc.GetBaseExecFee()
}
