package main

// C17, eighth round: documented per-field LENGTH BOUNDS of the decoders.
//
// The malformed-input stream mutates valid encodings (bit flips, truncations, announced counts without the bytes); it
// does not produce a WELL-FRAMED value whose one field is one over its maximum with all bytes present and everything else
// valid (checksums recomputed). Kind "bound": for every decoder with a documented bound the field at max-1, max and
// max+1. Law: up to the maximum the value is accepted and re-encodes to the same bytes; one over is REFUSED WITH AN
// ERROR - never accepted, never a panic (a decoder that accepts an over-long field hands it to code that relies on the
// bound: NEF's checksum re-encodes the file). The maxima are the Go constants where they are exported; unexported ones are
// stated here and marked. In the modelled run the same bytes go through the Coq decoders, which carry the same bounds.

import (
	"bytes"
	"fmt"
	"strings"

	"github.com/nspcc-dev/neo-go/pkg/consensus"
	"github.com/nspcc-dev/neo-go/pkg/core/block"
	"github.com/nspcc-dev/neo-go/pkg/core/state"
	"github.com/nspcc-dev/neo-go/pkg/core/transaction"
	"github.com/nspcc-dev/neo-go/pkg/crypto/hash"
	"github.com/nspcc-dev/neo-go/pkg/io"
	"github.com/nspcc-dev/neo-go/pkg/network/capability"
	"github.com/nspcc-dev/neo-go/pkg/network/payload"
	"github.com/nspcc-dev/neo-go/pkg/smartcontract/nef"
	"github.com/nspcc-dev/neo-go/pkg/util"
	"github.com/nspcc-dev/neo-go/pkg/vm/stackitem"
)

type c17Bound struct {
	name    string // type/field
	max     int
	typ     string                         // name in the type table, when the modelled run can hand the bytes to Coq
	gen     func(r *rng, n int) []byte     // a well-framed encoding with the field at n
	dec     func(b []byte) ([]byte, error) // decode; the re-encoding on success
	heavy   bool                           // megabytes: thorough tier only
	lenient string                         // why max+1 is NOT expected to be refused by this decoder (documented elsewhere), if so
}

func c17W(f func(w *io.BinWriter)) []byte {
	w := io.NewBufBinWriter()
	f(w.BinWriter)
	if w.Err != nil {
		panic("harness: " + w.Err.Error())
	}
	return w.Bytes()
}

func c17SerDec(fresh func() io.Serializable) func(b []byte) ([]byte, error) {
	return func(b []byte) ([]byte, error) {
		v := fresh()
		r := io.NewBinReaderFromBuf(b)
		v.DecodeBinary(r)
		if r.Err != nil {
			return nil, r.Err
		}
		return c17Enc(v)
	}
}

// a NEF file laid out by hand: source of sl bytes, nt method tokens (method names of ml bytes), script of scl bytes
func c17NefBytes(r *rng, sl, nt, ml, scl int) []byte {
	body := c17W(func(w *io.BinWriter) {
		w.WriteU32LE(nef.Magic)
		comp := make([]byte, 64)
		copy(comp, "neo-go-3.0")
		w.WriteBytes(comp)
		w.WriteVarBytes(bytes.Repeat([]byte{'u'}, sl))
		w.WriteB(0)
		w.WriteVarUint(uint64(nt))
		for i := 0; i < nt; i++ {
			w.WriteBytes(r.bytes(20))
			w.WriteVarBytes(bytes.Repeat([]byte{'m'}, ml))
			w.WriteU16LE(uint16(i % 3))
			w.WriteB(byte(i % 2))
			w.WriteB(0x0f)
		}
		w.WriteU16LE(0)
		w.WriteVarBytes(bytes.Repeat([]byte{0x21}, scl)) // NOPs
	})
	return append(body, hash.Checksum(body)...)
}

func c17TxWith(r *rng, f func(t *transaction.Transaction)) []byte {
	t := transaction.New([]byte{0x11}, 1)
	t.ValidUntilBlock = 100
	t.Signers = []transaction.Signer{{Account: c17Hashes160(r, 1)[0], Scopes: transaction.CalledByEntry}}
	t.Scripts = []transaction.Witness{{InvocationScript: r.bytes(66), VerificationScript: r.bytes(35)}}
	f(t)
	return c17W(func(w *io.BinWriter) { t.EncodeBinary(w) })
}

func c17Hashes160(r *rng, n int) (out []util.Uint160) {
	for i := 0; i < n; i++ {
		var u util.Uint160
		copy(u[:], r.bytes(20))
		out = append(out, u)
	}
	return out
}

var c17BoundTable []c17Bound

func c17Bounds() []c17Bound {
	if c17BoundTable != nil {
		return c17BoundTable
	}
	txDec := func(b []byte) ([]byte, error) {
		t, err := transaction.NewTransactionFromBytes(b)
		if err != nil {
			return nil, err
		}
		return t.Bytes(), nil
	}
	nefDec := func(b []byte) ([]byte, error) {
		f, err := nef.FileFromBytes(b)
		if err != nil {
			return nil, err
		}
		return f.BytesLong()
	}
	wit := func(inv, ver int) func(r *rng, n int) []byte {
		return func(r *rng, n int) []byte {
			i, v := inv, ver
			if i < 0 {
				i = n
			}
			if v < 0 {
				v = n
			}
			return c17W(func(w *io.BinWriter) { w.WriteVarBytes(r.bytes(i)); w.WriteVarBytes(r.bytes(v)) })
		}
	}
	hashes := func(pre []byte) func(r *rng, n int) []byte {
		return func(r *rng, n int) []byte {
			return c17W(func(w *io.BinWriter) { w.WriteBytes(pre); w.WriteVarUint(uint64(n)); w.WriteBytes(r.bytes(32 * n)) })
		}
	}
	extensible := func(cat, data int) func(r *rng, n int) []byte {
		return func(r *rng, n int) []byte {
			c, d := cat, data
			if c < 0 {
				c = n
			}
			if d < 0 {
				d = n
			}
			return c17W(func(w *io.BinWriter) {
				w.WriteVarBytes(bytes.Repeat([]byte{'c'}, c))
				w.WriteU32LE(1)
				w.WriteU32LE(2)
				w.WriteBytes(r.bytes(20))
				w.WriteVarBytes(make([]byte, d))
				w.WriteB(1)
				w.WriteVarBytes(r.bytes(66))
				w.WriteVarBytes(r.bytes(35))
			})
		}
	}
	consData := func(build func(w *io.BinWriter, n int)) func(r *rng, n int) []byte {
		return func(r *rng, n int) []byte {
			data := c17W(func(w *io.BinWriter) { build(w, n) })
			return c17MustEnc(&payload.Extensible{Category: payload.ConsensusCategory, ValidBlockEnd: 7, Data: data,
				Witness: transaction.Witness{InvocationScript: r.bytes(66), VerificationScript: r.bytes(35)}})
		}
	}
	consDec := func(b []byte) ([]byte, error) {
		p, err := c17DecodeCons(b, false)
		if err != nil {
			return nil, err
		}
		return c17Enc(p)
	}
	c17BoundTable = []c17Bound{
		// ---- NEF (nef.go, method_token.go) ----
		{name: "nef/source url", max: nef.MaxSourceURLLength, typ: "nef", gen: func(r *rng, n int) []byte { return c17NefBytes(r, n, 1, 3, 5) }, dec: nefDec},
		{name: "nef/method token name (maxMethodLength, unexported)", max: 32, typ: "nef", gen: func(r *rng, n int) []byte { return c17NefBytes(r, 10, 2, n, 5) }, dec: nefDec},
		{name: "nef/method tokens", max: 128, typ: "nef", gen: func(r *rng, n int) []byte { return c17NefBytes(r, 10, n, 3, 5) }, dec: nefDec,
			lenient: "nef.File.DecodeBinary reads the tokens with the default array maximum; the count is not limited by the file format code (the reference node limits it to 128)"},
		{name: "nef/script", max: stackitem.MaxSize, gen: func(r *rng, n int) []byte { return c17NefBytes(r, 0, 0, 3, n) }, dec: func(b []byte) ([]byte, error) {
			var f nef.File
			r := io.NewBinReaderFromBuf(b)
			f.DecodeBinary(r)
			if r.Err != nil {
				return nil, r.Err
			}
			return f.BytesLong()
		}, heavy: true},
		// ---- transaction ----
		{name: "tx/script", max: transaction.MaxScriptLength, typ: "tx/bytes", gen: func(r *rng, n int) []byte {
			return c17TxWith(r, func(t *transaction.Transaction) { t.Script = bytes.Repeat([]byte{0x21}, n) })
		}, dec: txDec},
		{name: "tx/signers", max: transaction.MaxAttributes, typ: "tx/bytes", gen: func(r *rng, n int) []byte {
			return c17TxWith(r, func(t *transaction.Transaction) {
				t.Signers, t.Scripts = nil, nil
				for _, h := range c17Hashes160(r, n) {
					t.Signers = append(t.Signers, transaction.Signer{Account: h, Scopes: transaction.CalledByEntry})
					t.Scripts = append(t.Scripts, transaction.Witness{InvocationScript: []byte{1}, VerificationScript: []byte{}})
				}
			})
		}, dec: txDec},
		{name: "tx/attributes (with one signer: MaxAttributes - 1)", max: transaction.MaxAttributes - 1, typ: "tx/bytes", gen: func(r *rng, n int) []byte {
			return c17TxWith(r, func(t *transaction.Transaction) {
				for i := 0; i < n; i++ { // Conflicts may repeat
					t.Attributes = append(t.Attributes, transaction.Attribute{Type: transaction.ConflictsT, Value: &transaction.Conflicts{Hash: c17Hashes(r, 1)[0]}})
				}
			})
		}, dec: txDec},
		{name: "witness/invocation script", max: transaction.MaxInvocationScript, typ: "witness", gen: wit(-1, 35), dec: c17SerDec(func() io.Serializable { return &transaction.Witness{} })},
		{name: "witness/verification script", max: transaction.MaxVerificationScript, typ: "witness", gen: wit(66, -1), dec: c17SerDec(func() io.Serializable { return &transaction.Witness{} })},
		{name: "signer/allowed contracts", max: transaction.MaxAttributes, typ: "signer", gen: func(r *rng, n int) []byte {
			return c17W(func(w *io.BinWriter) {
				w.WriteBytes(r.bytes(20))
				w.WriteB(byte(transaction.CustomContracts))
				w.WriteVarUint(uint64(n))
				w.WriteBytes(r.bytes(20 * n))
			})
		}, dec: c17SerDec(func() io.Serializable { return &transaction.Signer{} })},
		{name: "signer/rules", max: transaction.MaxAttributes, typ: "signer", gen: func(r *rng, n int) []byte {
			return c17W(func(w *io.BinWriter) {
				w.WriteBytes(r.bytes(20))
				w.WriteB(byte(transaction.Rules))
				w.WriteVarUint(uint64(n))
				for i := 0; i < n; i++ {
					w.WriteB(1)                                      // allow
					w.WriteB(byte(transaction.WitnessCalledByEntry)) // condition without operands
				}
			})
		}, dec: c17SerDec(func() io.Serializable { return &transaction.Signer{} })},
		{name: "attribute/oracle response result", max: transaction.MaxOracleResultSize, typ: "attr", gen: func(r *rng, n int) []byte {
			return c17W(func(w *io.BinWriter) {
				w.WriteB(byte(transaction.OracleResponseT))
				w.WriteU64LE(7)
				w.WriteB(byte(transaction.Success))
				w.WriteVarBytes(make([]byte, n))
			})
		}, dec: c17SerDec(func() io.Serializable { return &transaction.Attribute{} })},
		// ---- block ----
		{name: "block/transactions", max: block.MaxTransactionsPerBlock, gen: func(r *rng, n int) []byte {
			h := c17GenHeader(r, false)
			one := c17TxWith(r, func(t *transaction.Transaction) {})
			return c17W(func(w *io.BinWriter) {
				h.EncodeBinary(w)
				w.WriteVarUint(uint64(n))
				for i := 0; i < n; i++ {
					w.WriteBytes(one)
				}
			})
		}, dec: func(b []byte) ([]byte, error) { // the count is checked before the transactions are read: only acceptance is asked
			blk := block.New(false)
			r := io.NewBinReaderFromBuf(b)
			blk.DecodeBinary(r)
			if r.Err != nil {
				return nil, r.Err
			}
			return b, nil
		}, heavy: true},
		{name: "state root/witnesses", max: 1, typ: "mptroot", gen: func(r *rng, n int) []byte {
			return c17W(func(w *io.BinWriter) {
				w.WriteB(0)
				w.WriteU32LE(5)
				w.WriteBytes(r.bytes(32))
				w.WriteVarUint(uint64(n))
				for i := 0; i < n; i++ {
					w.WriteVarBytes(r.bytes(66))
					w.WriteVarBytes(r.bytes(35))
				}
			})
		}, dec: c17SerDec(func() io.Serializable { return &state.MPTRoot{} })},
		// ---- P2P ----
		{name: "inventory/hashes", max: payload.MaxHashesCount, typ: "inventory", gen: hashes([]byte{byte(payload.TXType)}), dec: c17SerDec(func() io.Serializable { return &payload.Inventory{} })},
		{name: "mptinventory/hashes", max: payload.MaxMPTHashesCount, typ: "mptinventory", gen: hashes(nil), dec: c17SerDec(func() io.Serializable { return &payload.MPTInventory{} })},
		{name: "headers/count", max: payload.MaxHeadersAllowed, gen: func(r *rng, n int) []byte {
			one := c17MustEnc(c17GenHeader(r, false))
			return c17W(func(w *io.BinWriter) {
				w.WriteVarUint(uint64(n))
				for i := 0; i < n; i++ {
					w.WriteBytes(one)
				}
			})
		}, dec: c17SerDec(func() io.Serializable { return &payload.Headers{} }),
			lenient: "payload.Headers keeps the first MaxHeadersAllowed headers and reports ErrTooManyHeaders, which network.Message treats as success (documented behaviour)"},
		{name: "addr/addresses", max: payload.MaxAddrsCount, typ: "addrlist", gen: func(r *rng, n int) []byte {
			return c17W(func(w *io.BinWriter) {
				w.WriteVarUint(uint64(n))
				for i := 0; i < n; i++ {
					w.WriteU32LE(uint32(i))
					w.WriteBytes(make([]byte, 16))
					w.WriteVarUint(1)
					w.WriteB(byte(capability.TCPServer))
					w.WriteU16LE(10333)
				}
			})
		}, dec: c17SerDec(func() io.Serializable { return &payload.AddressList{} })},
		{name: "version/user agent (1024, unexported)", max: 1024, typ: "version", gen: func(r *rng, n int) []byte {
			return c17W(func(w *io.BinWriter) {
				w.WriteU32LE(1)
				w.WriteU32LE(0)
				w.WriteU32LE(3)
				w.WriteU32LE(4)
				w.WriteVarBytes(bytes.Repeat([]byte{'a'}, n))
				w.WriteVarUint(1)
				w.WriteB(byte(capability.FullNode))
				w.WriteU32LE(9)
			})
		}, dec: c17SerDec(func() io.Serializable { return &payload.Version{} })},
		{name: "version/capabilities (capability.MaxCapabilities)", max: capability.MaxCapabilities, typ: "version", gen: func(r *rng, n int) []byte {
			return c17W(func(w *io.BinWriter) {
				w.WriteU32LE(1)
				w.WriteU32LE(0)
				w.WriteU32LE(3)
				w.WriteU32LE(4)
				w.WriteVarBytes([]byte("/a/"))
				w.WriteVarUint(uint64(n))
				for i := 0; i < n; i++ { // unknown capability types may repeat
					w.WriteB(0xf0)
					w.WriteVarBytes([]byte{byte(i)})
				}
			})
		}, dec: c17SerDec(func() io.Serializable { return &payload.Version{} })},
		{name: "extensible/category (maxExtensibleCategorySize, unexported)", max: 32, typ: "extensible", gen: extensible(-1, 10), dec: c17SerDec(func() io.Serializable { return payload.NewExtensible() })},
		{name: "extensible/data", max: payload.MaxSize, gen: extensible(4, -1), dec: c17SerDec(func() io.Serializable { return payload.NewExtensible() }), heavy: true},
		// ---- consensus ----
		{name: "consensus/compact invocation script", max: 1024, gen: consData(func(w *io.BinWriter, n int) {
			c17WriteMsgHead(w, 0x41, 7, 1, 0)
			w.WriteVarUint(0)
			w.WriteB(0)
			w.WriteVarUint(0)
			w.WriteVarUint(1)
			w.WriteB(2)
			w.WriteVarBytes(make([]byte, n))
			w.WriteVarUint(0)
		}), dec: consDec},
		// ---- stack items ----
		{name: "stack item/byte string", max: stackitem.MaxSize - 6, gen: func(r *rng, n int) []byte { // the whole serialised item is bounded by MaxSize
			return c17W(func(w *io.BinWriter) { w.WriteB(byte(stackitem.ByteArrayT)); w.WriteVarBytes(make([]byte, n)) })
		}, dec: func(b []byte) ([]byte, error) {
			it, err := stackitem.Deserialize(b)
			if err != nil {
				return nil, err
			}
			return stackitem.Serialize(it)
		}, heavy: true},
		{name: "stack item/integer bytes", max: 32, typ: "item", gen: func(r *rng, n int) []byte {
			return c17W(func(w *io.BinWriter) {
				w.WriteB(byte(stackitem.IntegerT))
				w.WriteVarBytes(append(make([]byte, n-1), 1))
			})
		}, dec: func(b []byte) ([]byte, error) {
			it, err := stackitem.Deserialize(b)
			if err != nil {
				return nil, err
			}
			return stackitem.Serialize(it)
		}},
	}
	_ = consensus.NewPayload
	return c17BoundTable
}

type c17BoundRes struct {
	Accepted bool   `json:"accepted"`
	Err      string `json:"err,omitempty"`
	Panic    string `json:"panic,omitempty"`
}

func c17BoundCase(x *c17Runner, in c17Input) {
	co := x.co
	var b *c17Bound
	for i := range c17Bounds() {
		if c17Bounds()[i].name == in.Type {
			b = &c17Bounds()[i]
		}
	}
	if b == nil {
		panic("unknown bound " + in.Type)
	}
	n := b.max + in.N // N in {-1, 0, +1}
	r := newRng(in.Seed*2654435761 + uint64(in.Idx))
	enc := b.gen(r, n)
	var re []byte
	var err error
	res := c17BoundRes{}
	if p := catch(func() { re, err = b.dec(enc) }); p != "" {
		res.Panic = p[:min(len(p), 120)]
		co.violation("bound", fmt.Sprintf("%s = %d (maximum %d): the decoder PANICS on a well-framed value", b.name, n, b.max), in, res)
		return
	}
	res.Accepted = err == nil
	if err != nil {
		res.Err = err.Error()
	}
	switch {
	case in.N <= 0 && err != nil:
		co.violation("bound", fmt.Sprintf("%s = %d (maximum %d): a value within the documented bound is refused", b.name, n, b.max), in, res)
	case in.N <= 0 && !bytes.Equal(re, enc) && !strings.HasPrefix(b.name, "stack item/integer"):
		co.violation("bound", fmt.Sprintf("%s = %d (maximum %d): decode then encode changes the bytes", b.name, n, b.max), in, res)
	case in.N > 0 && err == nil && b.lenient == "":
		co.violation("bound", fmt.Sprintf("%s = %d, ONE OVER the documented maximum %d, with all bytes present: ACCEPTED", b.name, n, b.max), in, res)
	case in.N > 0 && err == nil:
		co.hist["bound/over the maximum accepted (documented: "+b.name+")"]++
	}
	tag := fmt.Sprintf("%s/%+d", b.name, in.N)
	if x.mode == "c17" {
		return // the modelled run hands the same bytes to kind "dec" (see c17RunBounds)
	}
	co.add("bound", tag, true, in, res, fmt.Sprintf("direct bound %s %d %d", b.name, in.N, in.Seed))
}

func c17RunBounds(x *c17Runner, seed uint64) {
	for i, b := range c17Bounds() {
		if b.heavy && x.tier == "quick" {
			continue
		}
		for _, d := range []int{-1, 0, 1} {
			in := c17Input{Type: b.name, N: d, Seed: seed, Idx: i}
			if x.mode != "c17" {
				x.runCase("bound", in)
				continue
			}
			// the Coq decoders carry the same bounds: same bytes through the modelled decoder
			if b.typ != "" && b.max < 3000 {
				r := newRng(in.Seed*2654435761 + uint64(in.Idx))
				x.runCase("dec", c17Input{Type: b.typ, Bytes: hx(b.gen(r, b.max+d))})
			}
		}
	}
}
