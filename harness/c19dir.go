package main

// C19, directed scenarios (sub-command c19d): REAL consensus services that are not started — the harness plays their event
// loops through consensus.VerifDriver (hook pkg/consensus/verif_hooks.go), so the schedule is exact and no timer is involved.
//
//  kind "stale":    k <= f validators commit in view 0 (only they get M preparations), the others change view and decide in
//                   view 1 while the view-0 Commit payloads sit in their commit tables; for every choice of the stale
//                   validators' indices, 4 and 7 validators. Checked: the block each service hands to its ledger is accepted by
//                   that ledger and by an independent ledger, its witness consists of M valid signatures in validator order,
//                   all services hand over the same block; the commit table and the witness go to the Coq model
//                   (Consensus/Witness.v: first M signatures of commits OF THE CURRENT VIEW).
//  kind "proposal": one real backup and a simulated primary that sends a crafted PrepareRequest (wrong previous hash, version,
//                   state root, too many hashes, stale timestamp, unknown transaction, invalid transaction, duplicate transaction,
//                   over-size, over-fee, or nothing wrong). Checked against the transcription of verifyRequest/verifyBlock in
//                   Harness/C19.v: PrepareResponse exactly for acceptable proposals, ChangeView for refused ones, a transaction
//                   request for unknown ones.

import (
	"bytes"
	"encoding/hex"
	"encoding/json"
	"fmt"
	"os"
	"path/filepath"
	"reflect"
	"runtime/debug"
	"strings"
	"time"

	"github.com/nspcc-dev/neo-go/pkg/config"
	"github.com/nspcc-dev/neo-go/pkg/consensus"
	"github.com/nspcc-dev/neo-go/pkg/core"
	"github.com/nspcc-dev/neo-go/pkg/core/block"
	"github.com/nspcc-dev/neo-go/pkg/core/transaction"
	"github.com/nspcc-dev/neo-go/pkg/crypto/keys"
	"github.com/nspcc-dev/neo-go/pkg/io"
	"github.com/nspcc-dev/neo-go/pkg/neotest"
	"github.com/nspcc-dev/neo-go/pkg/neotest/chain"
	npayload "github.com/nspcc-dev/neo-go/pkg/network/payload"
	"github.com/nspcc-dev/neo-go/pkg/smartcontract"
	"github.com/nspcc-dev/neo-go/pkg/util"
	"github.com/nspcc-dev/neo-go/pkg/vm/emit"
	"github.com/nspcc-dev/neo-go/pkg/vm/opcode"
	"github.com/nspcc-dev/neo-go/pkg/wallet"
)

type c19dSent struct {
	raw  []byte
	typ  int // 0 PrepareRequest 1 PrepareResponse 2 Commit 3 ChangeView 4 RecoveryRequest 5 RecoveryMessage
	h    uint32
	view int
}

type c19dNode struct {
	i      int
	bc     *core.Blockchain
	drv    *consensus.VerifDriver
	tb     *c20TB
	sent   []c19dSent
	taken  int // sent[:taken] already looked at by the script
	put    []*block.Block
	puterr []error
	reqTx  []util.Uint256
}

type c19dNet struct {
	n      int
	ks     []*keys.PrivateKey
	pubs   keys.PublicKeys
	nodes  []*c19dNode
	obs    *core.Blockchain // independent ledger
	obstb  *c20TB
	hook   func(*config.Blockchain)
	extra  []*c20TB // fresh ledgers made for cross checks
	signer neotest.Signer
	dir    string
	viol   []string
	nonce  uint32
}

func (n *c19dNet) violate(f string, a ...any) { n.viol = append(n.viol, fmt.Sprintf(f, a...)) }

type c19dBQ struct{ nd *c19dNode }

func (q c19dBQ) Put(b *block.Block) error {
	err := q.nd.bc.AddBlock(b)
	q.nd.put = append(q.nd.put, b)
	q.nd.puterr = append(q.nd.puterr, err)
	return err
}

// services: which validators get a real service (others are only keys)
func c19dBuild(n int, stateRoot bool, services []int, tweak func(*config.Blockchain)) *c19dNet {
	net := &c19dNet{n: n, ks: c19Keys(n), nonce: 5000}
	var committee []string
	for _, k := range net.ks {
		net.pubs = append(net.pubs, k.PublicKey())
		committee = append(committee, hex.EncodeToString(k.PublicKey().Bytes()))
	}
	hook := func(c *config.Blockchain) {
		c.StandbyCommittee = committee
		c.ValidatorsCount = uint32(n)
		c.TimePerBlock = time.Second
		c.Genesis.TimePerBlock = time.Second
		c.StateRootInHeader = stateRoot
		c.MaxValidUntilBlockIncrement = 100
		c.Hardforks = map[string]uint32{}
		for _, hf := range config.Hardforks {
			c.Hardforks[hf.String()] = 0
		}
		if tweak != nil {
			tweak(c)
		}
	}
	dir, err := os.MkdirTemp("", "c19d-")
	if err != nil {
		panic(err)
	}
	net.dir = dir
	m := smartcontract.GetDefaultHonestNodeCount(n)
	var msAccs []*wallet.Account
	for _, k := range net.ks {
		ma := wallet.NewAccountFromPrivateKey(k)
		if err := ma.ConvertMultisig(m, net.pubs); err != nil {
			panic(err)
		}
		msAccs = append(msAccs, ma)
	}
	net.signer = neotest.NewMultiSigner(msAccs...)
	net.hook = hook
	net.obstb = &c20TB{}
	net.obs, _ = chain.NewSingleWithOptions(net.obstb, &chain.Options{Logger: c20Logger(), BlockchainConfigHook: hook})
	for _, i := range services {
		tb := &c20TB{}
		bc, _ := chain.NewSingleWithOptions(tb, &chain.Options{Logger: c20Logger(), BlockchainConfigHook: hook})
		nd := &c19dNode{i: i, bc: bc, tb: tb}
		path := filepath.Join(dir, fmt.Sprintf("w%d.json", i))
		w, err := wallet.NewWallet(path)
		if err != nil {
			panic(err)
		}
		w.Scrypt = keys.ScryptParams{N: 2, R: 1, P: 1}
		acc := wallet.NewAccountFromPrivateKey(net.ks[i])
		if err := acc.Encrypt("pass", w.Scrypt); err != nil {
			panic(err)
		}
		w.AddAccount(acc)
		if err := w.Save(); err != nil {
			panic(err)
		}
		srv, err := consensus.NewService(consensus.Config{
			Logger: c20Logger(),
			Broadcast: func(p *npayload.Extensible) {
				w := io.NewBufBinWriter()
				p.EncodeBinary(w.BinWriter)
				typ, h, _, view, _ := c19Decode(p.Data)
				nd.sent = append(nd.sent, c19dSent{raw: bytes.Clone(w.Bytes()), typ: typ, h: h, view: view})
			},
			Chain:                 bc,
			BlockQueue:            c19dBQ{nd},
			ProtocolConfiguration: bc.GetConfig().ProtocolConfiguration,
			RequestTx:             func(h ...util.Uint256) { nd.reqTx = append(nd.reqTx, h...) },
			StopTxFlow:            func() {},
			Wallet:                config.Wallet{Path: path, Password: "pass"},
		})
		if err != nil {
			panic(err)
		}
		nd.drv = consensus.VerifDrive(srv)
		net.nodes = append(net.nodes, nd)
	}
	return net
}

func (n *c19dNet) close() {
	for _, nd := range n.nodes {
		nd.tb.done()
	}
	n.obstb.done()
	for _, tb := range n.extra {
		tb.done()
	}
	os.RemoveAll(n.dir)
}

func (n *c19dNet) node(i int) *c19dNode {
	for _, nd := range n.nodes {
		if nd.i == i {
			return nd
		}
	}
	return nil
}

func c19dExt(raw []byte) *npayload.Extensible {
	var e npayload.Extensible
	r := io.NewBinReaderFromBuf(raw)
	e.DecodeBinary(r)
	if r.Err != nil {
		panic(r.Err)
	}
	return &e
}

// new messages of the given type/height/view sent by the node since the script last looked
func (nd *c19dNode) take(typ int, h uint32, view int) [][]byte {
	var out [][]byte
	for _, s := range nd.sent[nd.taken:] {
		if s.typ == typ && s.h == h && (view < 0 || s.view == view) {
			out = append(out, s.raw)
		}
	}
	return out
}

func (nd *c19dNode) find(typ int, h uint32, view int) []byte {
	for _, s := range nd.sent {
		if s.typ == typ && s.h == h && s.view == view {
			return s.raw
		}
	}
	return nil
}

func (n *c19dNet) tx(sysFee int64, vub uint32) *transaction.Transaction {
	n.nonce++
	tx := transaction.New([]byte{byte(opcode.PUSH1), byte(opcode.RET)}, sysFee)
	tx.Nonce = n.nonce
	tx.ValidUntilBlock = vub
	tx.Signers = []transaction.Signer{{Account: n.signer.ScriptHash(), Scopes: transaction.CalledByEntry}}
	neotest.AddNetworkFee(n.obstb, n.obs, tx, n.signer)
	if err := n.signer.SignTx(n.obs.GetConfig().Magic, tx); err != nil {
		panic(err)
	}
	return tx
}

// ---------------- kind "stale" ----------------

type c19dHeight struct {
	Stale       []int `json:"stale"`         // validators that commit in view 0 and stay there
	CommitFirst bool  `json:"commit_first"`  // their Commits reach the others before (true) or after the view change
	Txs         int   `json:"txs,omitempty"` // transactions pooled everywhere before the height
	TxFee       int64 `json:"tx_fee,omitempty"`
	// every validator gets the block event of the block it already builds on once more, in the middle of the round (the
	// service reads the tip itself when its event loop starts AND is subscribed to block events: the same block twice)
	ReplayEvent bool `json:"replay_event,omitempty"`
}

type c19dStaleInput struct {
	N         int          `json:"n"`
	StateRoot bool         `json:"state_root"`
	Ops       []c19dHeight `json:"ops"`
}

type c19dAccept struct {
	Node    int    `json:"node"`
	Height  uint32 `json:"height"`
	View    int    `json:"view"`
	Views   []int  `json:"commit_views"` // the service's commit table when it handed the block over
	Signers []int  `json:"signers"`      // validator whose key verifies each signature of the witness, -1 if none
	OwnOK   bool   `json:"own_ok"`
	OtherOK bool   `json:"other_ok"`
	Hash    string `json:"hash"`
}

func (n *c19dNet) witnessSigners(b *block.Block) []int {
	inv := b.Script.InvocationScript
	var out []int
	for len(inv) >= 66 && inv[0] == byte(opcode.PUSHDATA1) && inv[1] == 64 {
		sig := inv[2:66]
		inv = inv[66:]
		who := -1
		for i, p := range n.pubs {
			if p.VerifyHashable(sig, uint32(n.obs.GetConfig().Magic), b) {
				who = i
				break
			}
		}
		out = append(out, who)
	}
	if len(inv) != 0 {
		out = append(out, -2)
	}
	return out
}

func c19dIn(x int, l []int) bool {
	for _, y := range l {
		if x == y {
			return true
		}
	}
	return false
}

// one height; returns false when the network cannot go on
func (n *c19dNet) staleHeight(op c19dHeight, accepts *[]c19dAccept) bool {
	h := n.nodes[0].bc.BlockHeight() + 1
	N := n.n
	p0 := int(h) % N
	p1 := (int(h) - 1 + N) % N
	f := (N - 1) / 3
	var stale, rest []int
	for i := 0; i < N; i++ {
		if c19dIn(i, op.Stale) && len(stale) < f && i != p1 {
			stale = append(stale, i)
		} else {
			rest = append(rest, i)
		}
	}
	for _, nd := range n.nodes {
		nd.taken = len(nd.sent)
		if st := nd.drv.State(); st.Height != h || st.View != 0 {
			n.violate("validator %d is at height %d view %d when height %d starts", nd.i, st.Height, st.View, h)
			return false
		}
	}
	fee := op.TxFee
	if fee == 0 {
		fee = 1_0000000
	}
	for k := 0; k < op.Txs; k++ {
		tx := n.tx(fee, h+50)
		for _, nd := range n.nodes {
			if err := nd.bc.PoolTx(tx); err != nil {
				panic(err)
			}
		}
	}
	deliver := func(to int, raws ...[]byte) {
		for _, r := range raws {
			n.node(to).drv.Deliver(c19dExt(r))
		}
	}
	// view 0: request to everybody, responses only to the validators that are to commit here
	if n.node(p0).find(0, h, 0) == nil {
		n.node(p0).drv.Timeout()
	}
	req0 := n.node(p0).find(0, h, 0)
	if req0 == nil {
		n.violate("primary %d does not propose at height %d view 0", p0, h)
		return false
	}
	for i := 0; i < N; i++ {
		if i != p0 {
			deliver(i, req0)
		}
	}
	var resp0 [][]byte
	for i := 0; i < N; i++ {
		if i != p0 {
			r := n.node(i).find(1, h, 0)
			if r == nil {
				n.violate("backup %d does not answer a proposal of an honest primary (height %d view 0)", i, h)
				return false
			}
			resp0 = append(resp0, r)
		}
	}
	if op.ReplayEvent {
		for _, nd := range n.nodes {
			tip, err := nd.bc.GetBlock(nd.bc.CurrentBlockHash())
			if err != nil {
				panic(err)
			}
			before, sent := nd.drv.State(), len(nd.sent)
			nd.drv.ChainBlock(tip)
			if after := nd.drv.State(); !reflect.DeepEqual(before, after) || len(nd.sent) != sent {
				n.violate("a repeated event for the block a validator builds on disturbs its round: validator %d at height %d: %+v before, %+v after, %d payloads sent", nd.i, h, before, after, len(nd.sent)-sent)
				return false
			}
		}
	}
	if len(stale) == 0 {
		rest = nil
		for i := 0; i < N; i++ {
			rest = append(rest, i)
		}
		for _, i := range rest {
			deliver(i, resp0...)
		}
		return n.finishView(h, 0, rest, nil, accepts)
	}
	var staleCommits [][]byte
	for _, s := range stale {
		deliver(s, resp0...)
		c := n.node(s).find(2, h, 0)
		if c == nil {
			n.violate("validator %d has all preparations of height %d view 0 but does not commit", s, h)
			return false
		}
		staleCommits = append(staleCommits, c)
	}
	if op.CommitFirst {
		for _, i := range rest {
			deliver(i, staleCommits...)
		}
	}
	// the others time out until each has asked for view 1 (recovery requests let them see each other first)
	for round := 0; round < 4; round++ {
		moved := func(i int) bool { return n.node(i).find(3, h, 0) != nil || n.node(i).drv.State().View >= 1 }
		all := true
		for _, i := range rest {
			all = all && moved(i)
		}
		if all {
			break
		}
		for _, i := range rest {
			nd := n.node(i)
			if moved(i) {
				continue
			}
			before := len(nd.sent)
			nd.drv.Timeout()
			if os.Getenv("C19DEBUG") != "" {
				for _, s := range nd.sent[before:] {
					fmt.Fprintf(os.Stderr, "h%d round %d: validator %d timeout -> type %d view %d; state %+v\n", h, round, i, s.typ, s.view, nd.drv.State())
				}
				if len(nd.sent) == before {
					fmt.Fprintf(os.Stderr, "h%d round %d: validator %d timeout -> nothing; state %+v\n", h, round, i, nd.drv.State())
				}
			}
			for _, s := range nd.sent[before:] {
				if (s.typ == 4 || s.typ == 3) && s.h == h {
					for _, j := range rest {
						if j != i {
							deliver(j, s.raw)
						}
					}
				}
			}
		}
	}
	for _, i := range rest {
		cv := n.node(i).find(3, h, 0)
		if cv == nil {
			if n.node(i).drv.State().View >= 1 {
				continue // moved on M ChangeViews of the others before its own timer fired
			}
			n.violate("validator %d never asks for a view change at height %d although the round cannot complete", i, h)
			return false
		}
		for _, j := range rest {
			if j != i {
				deliver(j, cv)
			}
		}
	}
	for _, i := range rest {
		if st := n.node(i).drv.State(); st.View != 1 {
			n.violate("validator %d holds %d ChangeViews but stays in view %d (height %d)", i, len(rest), st.View, h)
			return false
		}
	}
	if !op.CommitFirst {
		for _, i := range rest {
			deliver(i, staleCommits...)
		}
	}
	// view 1 among the others
	n.node(p1).drv.Timeout()
	req1 := n.node(p1).find(0, h, 1)
	if req1 == nil {
		n.violate("primary %d does not propose at height %d view 1", p1, h)
		return false
	}
	for _, i := range rest {
		if i != p1 {
			deliver(i, req1)
		}
	}
	var resp1 [][]byte
	for _, i := range rest {
		if i != p1 {
			r := n.node(i).find(1, h, 1)
			if r == nil {
				n.violate("backup %d does not answer the proposal of view 1 (height %d)", i, h)
				return false
			}
			resp1 = append(resp1, r)
		}
	}
	for _, i := range rest {
		deliver(i, resp1...)
	}
	return n.finishView(h, 1, rest, stale, accepts)
}

// commits of the view among [live]; then everybody gets the block
func (n *c19dNet) finishView(h uint32, view int, live, stale []int, accepts *[]c19dAccept) bool {
	var commits [][]byte
	for _, i := range live {
		c := n.node(i).find(2, h, view)
		if c == nil {
			n.violate("validator %d has M preparations but does not commit (height %d view %d)", i, h, view)
			return false
		}
		commits = append(commits, c)
	}
	var blk *block.Block
	ok := true
	for _, i := range live {
		nd := n.node(i)
		nput := len(nd.put)
		for _, c := range commits {
			nd.drv.Deliver(c19dExt(c))
		}
		if len(nd.put) != nput+1 {
			n.violate("validator %d holds M commits of height %d view %d and hands %d blocks to its ledger", i, h, view, len(nd.put)-nput)
			ok = false
			continue
		}
		b := nd.put[nput]
		st := nd.drv.State()
		a := c19dAccept{Node: i, Height: h, View: int(st.View), Views: st.CommitViews, Signers: n.witnessSigners(b),
			OwnOK: nd.puterr[nput] == nil, Hash: b.Hash().StringLE()}
		if blk == nil {
			blk = b
		} else if b.Hash() != blk.Hash() {
			n.violate("two services hand different blocks to their ledgers at height %d", h)
			ok = false
		}
		if n.obs.BlockHeight() < h {
			a.OtherOK = n.obs.AddBlock(b) == nil
		} else {
			a.OtherOK = n.obs.GetHeaderHash(h) == b.Hash() && c19dWitnessOK(n, b)
		}
		if !a.OwnOK {
			n.violate("own ledger rejects the block the consensus service committed (directed: %d stale commit(s) of an older view in the table): %v", len(stale), nd.puterr[nput])
			ok = false
		}
		if !a.OtherOK {
			n.violate("an independent ledger rejects the block a consensus service committed (directed: %d stale commit(s) of an older view in the table)", len(stale))
			ok = false
		}
		*accepts = append(*accepts, a)
	}
	if !ok || blk == nil {
		return false
	}
	for _, nd := range n.nodes {
		if nd.bc.BlockHeight() < h {
			if err := nd.bc.AddBlock(blk); err != nil {
				n.violate("ledger of validator %d rejects the committed block of height %d: %v", nd.i, h, err)
				return false
			}
		}
		nd.drv.ChainBlock(blk)
	}
	return true
}

func c19dWitnessOK(n *c19dNet, b *block.Block) bool {
	s := n.witnessSigners(b)
	m := smartcontract.GetDefaultHonestNodeCount(n.n)
	if len(s) != m {
		return false
	}
	for i := range s {
		if s[i] < 0 || (i > 0 && s[i] <= s[i-1]) {
			return false
		}
	}
	return true
}

// A validator that panics under an admissible schedule (messages of the protocol from its peers, timeouts, blocks of the
// chain) violates C19's liveness clause just as one that stops answering: the case is reported as a violation with the
// schedule as its replay.  Panics of the harness itself (set-up checks, chain helpers) stay infrastructure errors: the
// distinction is where the panic was raised — beneath a call into the node through the driver, or not.
const c19dPanicNote = "node panics under an admissible schedule: "

func c19dCatch(f func()) (p string, node bool) {
	defer func() {
		if r := recover(); r != nil {
			p = fmt.Sprint(r)
			st := string(debug.Stack()) // still contains the frames of the panicking call
			node = strings.Contains(st, "consensus.(*VerifDriver).")
		}
	}()
	f()
	return "", false
}

func c19dRunStale(co *caseOut, raw json.RawMessage) error {
	var in c19dStaleInput
	if err := json.Unmarshal(raw, &in); err != nil {
		return err
	}
	if in.N != 7 {
		in.N = 4
	}
	var all []int
	for i := 0; i < in.N; i++ {
		all = append(all, i)
	}
	var accepts []c19dAccept
	var net *c19dNet
	if p, node := c19dCatch(func() {
		net = c19dBuild(in.N, in.StateRoot, all, nil)
		defer net.close()
		for _, nd := range net.nodes {
			nd.drv.Start()
		}
		for _, op := range in.Ops {
			if !net.staleHeight(op, &accepts) {
				break
			}
		}
	}); p != "" {
		if node {
			co.violation("stale", c19dPanicNote+p, in, accepts)
			return nil
		}
		return fmt.Errorf("harness failure in directed consensus case %s: %s", string(raw), p)
	}
	for _, v := range net.viol {
		co.violation("stale", v, in, accepts)
	}
	// one Coq case per hand-over
	for _, a := range accepts {
		var vs, ss []string
		for _, v := range a.Views {
			vs = append(vs, coqZi(int64(v))+"%Z")
		}
		for _, s := range a.Signers {
			ss = append(ss, coqZi(int64(s))+"%Z")
		}
		stale := 0
		for _, v := range a.Views {
			if v >= 0 && v != a.View {
				stale++
			}
		}
		co.add("stale", fmt.Sprintf("n%d/view%d/stale%d", in.N, a.View, stale), stale > 0, map[string]any{"case": in, "accept": a.Node, "height": a.Height}, a,
			fmt.Sprintf("CWitness %d %d %s %s %s %s", in.N, a.View, coqList(vs), coqList(ss), coqBool(a.OwnOK), coqBool(a.OtherOK)))
	}
	return nil
}

// ---------------- kind "proposal" ----------------

type c19dPropInput struct {
	StateRoot bool   `json:"state_root"`
	Defect    string `json:"defect"`          // none | prev | version | stateroot | count | timestamp | unknown_tx | invalid_tx | dup_tx | size | fee
	Txs       int    `json:"txs"`             // valid pooled transactions in the proposal besides the defect
	Backup    int    `json:"backup"`          // index of the real service (the primary of height 1 is validator 1)
	Bound     string `json:"bound,omitempty"` // defect "boundary": count | size | fee ...
	Delta     int    `json:"delta,omitempty"` // ... at the limit + delta (-1, 0, +1)
}

type c19dPropImpl struct {
	Responded  bool `json:"responded"`
	ChangeView bool `json:"change_view"`
	Requested  int  `json:"requested_txs"`
}

func c19dRunProposal(co *caseOut, raw json.RawMessage) error {
	var in c19dPropInput
	if err := json.Unmarshal(raw, &in); err != nil {
		return err
	}
	const N = 4
	if in.Backup < 0 || in.Backup >= N || in.Backup == 1 {
		in.Backup = 2
	}
	maxTx := 6
	if in.Defect == "boundary" {
		maxTx = 3
	}
	var impl c19dPropImpl
	// facts about the crafted proposal, by construction
	prevOK, verOK, srOK, cntOK, tsOK, sizeOK, feeOK := true, true, true, true, true, true, true
	var status []int // per transaction: 0 known and valid, 1 unknown and not obtainable, 2 obtainable but invalid, 3 repetition
	if p, node := c19dCatch(func() {
		maxSize := uint32(2000)
		if in.Defect == "boundary" && in.Bound == "size" {
			// three transactions: the size the BACKUP computes (witness of the block still empty) is the limit + delta
			hb := (&block.Block{Header: block.Header{StateRootEnabled: in.StateRoot}}).GetExpectedBlockSizeWithoutTransactions(3)
			maxSize = uint32(hb + 3*c19dTxSize() - in.Delta)
		}
		net := c19dBuild(N, in.StateRoot, []int{in.Backup}, func(c *config.Blockchain) {
			c.MaxTransactionsPerBlock = uint16(maxTx)
			c.MaxBlockSize = maxSize
			c.MaxBlockSystemFee = 25_000000
			c.MemPoolSize = 100
		})
		defer net.close()
		nd := net.nodes[0]
		nd.drv.Start()
		bc := nd.bc
		h := uint32(1)
		prim := 1
		top, _ := bc.GetBlock(bc.CurrentBlockHash())
		prev := bc.CurrentBlockHash()
		version := uint32(0)
		ts := uint64(time.Now().UnixMilli())
		if ts <= top.Timestamp {
			ts = top.Timestamp + 1
		}
		var hashes []util.Uint256
		var later []*transaction.Transaction
		addValid := func(k int, fee int64) {
			for j := 0; j < k; j++ {
				tx := net.tx(fee, h+50)
				if err := bc.PoolTx(tx); err != nil {
					panic(err)
				}
				hashes = append(hashes, tx.Hash())
				status = append(status, 0)
			}
		}
		addValid(min(in.Txs, 2), 1_000000)
		var sr util.Uint256
		if in.StateRoot {
			r, err := bc.GetStateRoot(h - 1)
			if err != nil {
				panic(err)
			}
			sr = r.Root
		}
		switch in.Defect {
		case "prev":
			prev[3] ^= 0x40
			prevOK = false
		case "version":
			version = 1
			verOK = false
		case "stateroot":
			if in.StateRoot {
				sr[7] ^= 1
				srOK = false
			}
		case "count":
			for len(hashes) <= maxTx {
				hashes = append(hashes, util.Uint256{byte(len(hashes)), 9})
				status = append(status, 1)
			}
			cntOK = false
		case "timestamp":
			ts = top.Timestamp
			tsOK = false
		case "unknown_tx":
			hashes = append(hashes, util.Uint256{0xaa, 1})
			status = append(status, 1)
		case "invalid_tx":
			tx := net.tx(1_000000, h+50)
			tx.Scripts[0].InvocationScript[10] ^= 0xff // broken signature; obtainable from the "network"
			hashes = append(hashes, tx.Hash())
			status = append(status, 2)
			later = append(later, tx)
		case "dup_tx":
			if len(hashes) == 0 {
				addValid(1, 1_000000)
			}
			hashes = append(hashes, hashes[0])
			status = append(status, 3)
		case "size":
			// six transactions of ~450 bytes each: above MaxBlockSize = 2000, system fee far below the limit
			hashes, status = nil, nil
			addValid(maxTx, 100000)
			sizeOK = false
		case "fee":
			hashes, status = nil, nil
			addValid(3, 10_000000) // 0.3 GAS > MaxBlockSystemFee = 0.25 GAS, ~1.4 kB
			feeOK = false
		case "boundary":
			hashes, status = nil, nil
			switch in.Bound {
			case "count": // limit 3
				addValid(3+in.Delta, 100000)
				cntOK = in.Delta <= 0
			case "fee": // limit 25_000000
				addValid(2, 10_000000)
				addValid(1, int64(5_000000+in.Delta))
				feeOK = in.Delta <= 0
			default: // size
				addValid(3, 100000)
				sizeOK = in.Delta <= 0
			}
		}
		total := 0
		for _, x := range hashes {
			if tx, ok := bc.GetMemPool().TryGetValue(x); ok {
				total += tx.Size()
			}
		}
		if in.Defect == "boundary" && in.Bound == "size" && total != 3*c19dTxSize() {
			panic(fmt.Sprintf("transactions of %d bytes, expected 3 x %d", total, c19dTxSize()))
		}
		if in.Defect == "size" && total <= 2000 || in.Defect != "size" && in.Defect != "count" && in.Defect != "boundary" && total+500 >= 2000 {
			panic(fmt.Sprintf("crafted proposal of %d bytes of transactions does not have the intended size class", total))
		}
		// the primary's PrepareRequest, hand-encoded (pkg/consensus/prepare_request.go, payload.go)
		w := io.NewBufBinWriter()
		w.WriteB(0x20)
		w.WriteU32LE(h)
		w.WriteB(byte(prim))
		w.WriteB(0)
		w.WriteU32LE(version)
		w.WriteBytes(prev[:])
		w.WriteU64LE(ts)
		w.WriteU64LE(0x1122334455667788)
		w.WriteVarUint(uint64(len(hashes)))
		for _, x := range hashes {
			w.WriteBytes(x[:])
		}
		if in.StateRoot {
			w.WriteBytes(sr[:])
		}
		ext := &npayload.Extensible{Category: npayload.ConsensusCategory, ValidBlockStart: 0, ValidBlockEnd: h,
			Sender: net.pubs[prim].GetScriptHash(), Data: w.Bytes()}
		sig := net.ks[prim].SignHashable(uint32(bc.GetConfig().Magic), ext)
		iw := io.NewBufBinWriter()
		emit.Bytes(iw.BinWriter, sig)
		ext.Witness = transaction.Witness{InvocationScript: iw.Bytes(), VerificationScript: net.pubs[prim].GetVerificationScript()}
		if !nd.drv.Deliver(ext) {
			panic("crafted PrepareRequest does not pass payload validation")
		}
		for _, tx := range later {
			_ = bc.PoolTx(tx)
			nd.drv.Transaction(tx)
		}
		impl.Responded = nd.find(1, h, 0) != nil
		impl.ChangeView = nd.find(3, h, 0) != nil
		impl.Requested = len(nd.reqTx)
	}); p != "" {
		if node {
			co.violation("proposal", c19dPanicNote+p, in, impl)
			return nil
		}
		return fmt.Errorf("harness failure in crafted-proposal case %s: %s", string(raw), p)
	}
	var st []string
	for _, s := range status {
		st = append(st, fmt.Sprint(s))
	}
	acceptable := prevOK && verOK && srOK && cntOK && tsOK && sizeOK && feeOK
	for _, s := range status {
		acceptable = acceptable && s == 0
	}
	if impl.Responded && !acceptable {
		co.violation("proposal", fmt.Sprintf("backup answers a proposal that must be refused (defect: %s)", in.Defect), in, impl)
	}
	if !impl.Responded && acceptable {
		co.violation("proposal", "backup does not answer an acceptable proposal of the primary", in, impl)
	}
	ptag := in.Defect
	if in.Defect == "boundary" {
		ptag = fmt.Sprintf("boundary-%s%+d", in.Bound, in.Delta)
	}
	co.add("proposal", ptag, in.Defect != "none", in, impl,
		fmt.Sprintf("CProposal %s %s %s %s %s %s %s %s %s %s %s", coqBool(prevOK), coqBool(verOK), coqBool(srOK), coqBool(cntOK), coqBool(tsOK),
			coqBool(sizeOK), coqBool(feeOK), coqList(st), coqBool(impl.Responded), coqBool(impl.ChangeView), coqBool(impl.Requested > 0)))
	return nil
}

func init() { register("c19d", runC19d) }

const c19dRule = "stale: directed schedules of 4 and 7 real (not started, hand-driven) consensus services: k <= f validators commit in view 0, the " +
	"rest changes view and decides in view 1 with the old Commits in the table, every choice of the stale validators, Commits arriving before or " +
	"after the view change, plain rounds in between; one case per block hand-over, non-trivial when the table held a Commit of another view; " +
	"proposal: a real backup and a simulated primary sending a crafted PrepareRequest (11 defect classes x state root on/off x backup index), " +
	"non-trivial when a defect was injected; recovery: f validators dead, proposals below the target view (1 or 2) lost, in the target view any " +
	"combination of PrepareRequest/PrepareResponse/Commit/ChangeView lost on the way to a victim whose commit is needed, then synchrony; every " +
	"victim x every combination x 4 and 7 validators (quick: all for 4 validators at view 1, a seeded third of the rest), non-trivial when " +
	"RecoveryMessages were exchanged and payloads rebuilt from them"

func runC19d(args []string) error {
	cf, fs := parseCommon("c19d", args)
	fs.Parse(args)
	co := newCaseOut(cf.out, "Harness.C19", "N", c19dRule)
	if cf.replay != "" {
		cases, err := readReplay(cf.replay)
		if err != nil {
			return err
		}
		for _, c := range cases {
			var x c20QCase
			if err := json.Unmarshal(c, &x); err != nil {
				return err
			}
			var err error
			var wrapAny struct {
				Case json.RawMessage `json:"case"`
			}
			if json.Unmarshal(x.Input, &wrapAny) == nil && wrapAny.Case != nil {
				x.Input = wrapAny.Case // a per-hand-over record wraps the scenario it came from
			}
			if x.Kind == "proposal" {
				err = c19dRunProposal(co, x.Input)
			} else if x.Kind == "witness" {
				err = c19dRunWitness(co, x.Input)
			} else if x.Kind == "full" {
				err = c19dRunFull(co, x.Input)
			} else if x.Kind == "recovery" {
				err = c19dRunRecovery(co, x.Input)
			} else {
				in := x.Input
				// a shrunk "stale" record wraps the scenario
				var wrap struct {
					Case json.RawMessage `json:"case"`
				}
				if json.Unmarshal(in, &wrap) == nil && wrap.Case != nil {
					in = wrap.Case
				}
				err = c19dRunStale(co, in)
			}
			if err != nil {
				return err
			}
		}
		return co.finish()
	}
	r := newRng(cf.seed)
	// systematic part: every single stale validator (4 validators) and every pair (7 validators) at a height where it is
	// not the primary of view 1; both delivery orders
	mk := func(n int, sets [][]int, first bool) c19dStaleInput {
		in := c19dStaleInput{N: n, StateRoot: r.bool()}
		for _, s := range sets {
			in.Ops = append(in.Ops, c19dHeight{Stale: s, CommitFirst: first, Txs: r.intn(3), ReplayEvent: len(in.Ops)%2 == 1})
		}
		return in
	}
	var stales []c19dStaleInput
	// heights 1..: primary of view 1 is (h-1) mod n; a requested stale validator equal to it is skipped by the scenario,
	// so each index is requested at two consecutive heights
	stales = append(stales, mk(4, [][]int{{1}, {2}, {3}, {0}, {0}, {1}, {}, {2}}, true))
	stales = append(stales, mk(4, [][]int{{3}, {3}, {0}, {2}, {1}, {}, {1}}, false))
	if cf.n >= 2 {
		stales = append(stales, mk(7, [][]int{{1, 2}, {3}, {0, 6}, {4, 5}, {5, 6}, {0, 1}, {2, 4}}, r.bool()))
	}
	for i := 3; i < cf.n; i++ {
		n := 4
		if i%3 == 0 {
			n = 7
		}
		var sets [][]int
		for j := 0; j < 3+r.intn(5); j++ {
			var s []int
			for k := 0; k < r.intn((n-1)/3+1); k++ {
				s = append(s, r.intn(n))
			}
			sets = append(sets, s)
		}
		stales = append(stales, mk(n, sets, r.bool()))
	}
	for _, in := range stales {
		raw, _ := json.Marshal(in)
		if err := c19dRunStale(co, raw); err != nil {
			return err
		}
	}
	defects := []string{"none", "prev", "version", "stateroot", "count", "timestamp", "unknown_tx", "invalid_tx", "dup_tx", "size", "fee"}
	for i, d := range defects {
		for _, sr := range []bool{false, true} {
			if cf.n < 3 && sr != (i%2 == 0) {
				continue
			}
			in := c19dPropInput{StateRoot: sr, Defect: d, Txs: r.intn(3), Backup: []int{0, 2, 3}[r.intn(3)]}
			raw, _ := json.Marshal(in)
			if err := c19dRunProposal(co, raw); err != nil {
				return err
			}
		}
	}
	for _, b := range []string{"count", "size", "fee"} {
		for _, d := range []int{-1, 0, 1} {
			in := c19dPropInput{StateRoot: r.bool(), Defect: "boundary", Bound: b, Delta: d, Backup: []int{0, 2, 3}[r.intn(3)]}
			raw, _ := json.Marshal(in)
			if err := c19dRunProposal(co, raw); err != nil {
				return err
			}
		}
	}
	// one block, several equally valid witnesses: every validator completes the block from another M-subset of the commits
	for _, n := range []int{4, 7} {
		for off := 0; off < 2; off++ {
			in := c19dWitInput{N: n, StateRoot: r.bool(), Step: 1 + off + r.intn(2), Txs: r.intn(3)}
			raw, _ := json.Marshal(in)
			if err := c19dRunWitness(co, raw); err != nil {
				return err
			}
		}
	}
	// full blocks: the real primary's proposal when its pool holds more than fits, for each binding limit
	for _, b := range []string{"count", "fee", "size"} {
		for _, n := range []int{4, 7} {
			if n == 7 && cf.n < 20 && b != pick(r, []string{"count", "fee", "size"}) {
				continue
			}
			in := c19dFullInput{N: n, StateRoot: r.bool(), Bound: b, Pool: 4 + r.intn(4)}
			raw, _ := json.Marshal(in)
			if err := c19dRunFull(co, raw); err != nil {
				return err
			}
		}
	}
	// recovery: every victim, every combination of lost kinds, views 1 and 2, 4 and 7 validators
	kinds := []string{"req", "resp", "commit", "cv"}
	for _, nv := range [][2]int{{4, 1}, {4, 2}, {7, 1}, {7, 2}} {
		liveN := nv[0] - (nv[0]-1)/3
		for mask := 1; mask < 16; mask++ {
			var l []string
			for b, k := range kinds {
				if mask&(1<<b) != 0 {
					l = append(l, k)
				}
			}
			for v := 0; v < liveN; v++ {
				// quick tier: all victims for 4 validators at view 1, a seeded third of the rest
				if !(nv[0] == 4 && nv[1] == 1) && cf.n < 20 && r.intn(3) != 0 {
					continue
				}
				in := c19dRecInput{N: nv[0], StateRoot: r.bool(), View: nv[1], Victim: v, Lost: l, Txs: r.intn(3), After: 1 + r.intn(2)}
				raw, _ := json.Marshal(in)
				if len(co.direct) >= 8 {
					continue // the tree is broken in this area: enough evidence, keep the run short
				}
				if err := c19dRunRecovery(co, raw); err != nil {
					return err
				}
			}
		}
	}
	return co.finish()
}

// ---------------- kind "recovery" ----------------
//
// Loss, then synchrony, through the repository's recovery glue (pkg/consensus/recovery_message.go) at views above 0:
// f validators (the primary of view 0 among them) are dead for the height, the proposals of the views below the target view
// are lost, so the M live validators change view; in the target view the payload kinds listed in Lost never reach the victim
// V, whose commit is needed (exactly M validators are alive). Then nothing is lost any more: timers fire round by round and
// everything, RecoveryRequests and RecoveryMessages included, is delivered. Every live service must hand the same block to
// its ledger within a bounded number of rounds, and every RecoveryMessage is checked structurally: the payloads the receiver
// rebuilds from it are, field by field, payloads that were really sent (type, validator, height, VIEW, body, witness).

type c19dRecInput struct {
	N         int      `json:"n"`
	StateRoot bool     `json:"state_root"`
	View      int      `json:"view"`   // target view, 1 or 2
	Victim    int      `json:"victim"` // position of V among the live validators
	Lost      []string `json:"lost"`   // of req, resp, commit, cv
	Txs       int      `json:"txs"`
	After     int      `json:"after"` // plain synchronous heights afterwards
}

type c19dRestored struct {
	Typ     int  `json:"typ"`
	Idx     int  `json:"idx"`
	View    int  `json:"view"`      // view carried by the rebuilt payload
	Orig    int  `json:"orig_view"` // view of the payload it is a copy of, -1 if there is none
	Equal   bool `json:"equal"`
	SigOK   bool `json:"sig_ok"`
	RecView int  `json:"rec_view"` // view of the RecoveryMessage
}

type c19dRecImpl struct {
	Victim     int            `json:"victim"`
	Live       []int          `json:"live"`
	VictimView int            `json:"victim_view_before"` // view of V when the loss ends
	Committed  int            `json:"committed_before"`   // live validators that had committed when the loss ends
	Rounds     int            `json:"rounds"`             // synchronous rounds until every live ledger has the block
	Relayed    int            `json:"relayed"`            // live validators that got it by relay, not from their own service
	Decided    bool           `json:"decided"`
	SameBlock  bool           `json:"same_block"`
	Accepted   bool           `json:"accepted"` // own ledgers and the independent ledger
	RecMsgs    int            `json:"recovery_messages"`
	Restored   []c19dRestored `json:"restored"`
	AfterOK    bool           `json:"after_ok"`
	FinalView  int            `json:"final_view"`
}

const c19dMaxRounds = 6

func (n *c19dNet) originals(typ int, h uint32, vi int) []c19dSent {
	var out []c19dSent
	for _, nd := range n.nodes {
		if nd.i != vi {
			continue
		}
		for _, s := range nd.sent {
			if s.typ == typ && s.h == h {
				out = append(out, s)
			}
		}
	}
	return out
}

func (n *c19dNet) sigOK(e *npayload.Extensible, vi int) bool {
	inv := e.Witness.InvocationScript
	if len(inv) != 66 || inv[0] != byte(opcode.PUSHDATA1) || inv[1] != 64 || vi < 0 || vi >= len(n.pubs) {
		return false
	}
	return n.pubs[vi].VerifyHashable(inv[2:], uint32(n.obs.GetConfig().Magic), e) &&
		bytes.Equal(e.Witness.VerificationScript, n.pubs[vi].GetVerificationScript())
}

// structural check of what [to] rebuilds from a RecoveryMessage
func (n *c19dNet) checkRestore(to *c19dNode, raw []byte, impl *c19dRecImpl) {
	restored, recView, ok := to.drv.Restore(c19dExt(raw))
	if !ok {
		n.violate("a RecoveryMessage broadcast by a validator is not decodable / acceptable at validator %d", to.i)
		return
	}
	impl.RecMsgs++
	for _, e := range restored {
		typ, h, vi, view, ok := c19Decode(e.Data)
		if !ok {
			n.violate("payload rebuilt from a RecoveryMessage is not decodable")
			continue
		}
		if typ == 1 && vi == (int(h)-view%n.n+n.n)%n.n {
			continue // the primary's entry of the preparation list, rebuilt as a response: ignored by dBFT
		}
		it := c19dRestored{Typ: typ, Idx: vi, View: view, Orig: -1, RecView: int(recView)}
		for _, o := range n.originals(typ, h, vi) {
			oe := c19dExt(o.raw)
			same := false
			switch typ {
			case 3: // the compact form drops the reason: compare the timestamp
				same = len(oe.Data) >= 15 && len(e.Data) >= 15 && bytes.Equal(oe.Data[7:15], e.Data[7:15])
			default:
				same = bytes.Equal(oe.Data[7:], e.Data[7:])
			}
			if !same {
				continue
			}
			it.Orig = o.view
			if typ == 3 {
				it.Equal = bytes.Equal(oe.Data[:15], e.Data[:15]) && oe.Sender == e.Sender && oe.ValidBlockEnd == e.ValidBlockEnd &&
					bytes.Equal(oe.Witness.InvocationScript, e.Witness.InvocationScript) && bytes.Equal(oe.Witness.VerificationScript, e.Witness.VerificationScript)
				it.SigOK = it.Equal && (len(oe.Data) < 16 || oe.Data[15] != 0 || n.sigOK(e, vi))
			} else {
				it.Equal = bytes.Equal(oe.Data, e.Data) && oe.Sender == e.Sender && oe.ValidBlockEnd == e.ValidBlockEnd && oe.Category == e.Category &&
					oe.ValidBlockStart == e.ValidBlockStart &&
					bytes.Equal(oe.Witness.InvocationScript, e.Witness.InvocationScript) && bytes.Equal(oe.Witness.VerificationScript, e.Witness.VerificationScript)
				it.SigOK = n.sigOK(e, vi)
			}
			if it.Equal {
				break
			}
		}
		if !it.Equal || !it.SigOK {
			n.violate("RecoveryMessage round trip: the %s of validator %d rebuilt by the receiver (view %d, from a recovery message of view %d) is not the payload that was sent (its view: %d; witness verifies: %v)",
				[]string{"PrepareRequest", "PrepareResponse", "Commit", "ChangeView"}[typ], vi, view, recView, it.Orig, it.SigOK)
		}
		impl.Restored = append(impl.Restored, it)
	}
}

func c19dRunRecovery(co *caseOut, raw json.RawMessage) error {
	var in c19dRecInput
	if err := json.Unmarshal(raw, &in); err != nil {
		return err
	}
	if in.N != 7 {
		in.N = 4
	}
	if in.View != 2 {
		in.View = 1
	}
	N, W := in.N, in.View
	f := (N - 1) / 3
	lost := map[int]bool{}
	for _, l := range in.Lost {
		switch l {
		case "req":
			lost[0] = true
		case "resp":
			lost[1] = true
		case "commit":
			lost[2] = true
		case "cv":
			lost[3] = true
		}
	}
	var impl c19dRecImpl
	var net *c19dNet
	if p, node := c19dCatch(func() {
		var all []int
		for i := 0; i < N; i++ {
			all = append(all, i)
		}
		net = c19dBuild(N, in.StateRoot, all, nil)
		defer net.close()
		h := uint32(1)
		prim := func(v int) int { return ((int(h)-v)%N + N) % N }
		pW := prim(W)
		dead := map[int]bool{prim(0): true}
		for v := 1; v < W && len(dead) < f; v++ {
			dead[prim(v)] = true
		}
		for d := (pW + 3) % N; len(dead) < f; d = (d + 1) % N {
			if d != pW {
				dead[d] = true
			}
		}
		var live []int
		for i := 0; i < N; i++ {
			if !dead[i] {
				live = append(live, i)
			}
		}
		V := live[((in.Victim%len(live))+len(live))%len(live)]
		X := live[len(live)-1]
		if X == V {
			X = live[0]
		}
		impl.Victim, impl.Live = V, live
		for k := 0; k < in.Txs; k++ {
			tx := net.tx(1_0000000, h+50)
			for _, nd := range net.nodes {
				if err := nd.bc.PoolTx(tx); err != nil {
					panic(err)
				}
			}
		}
		for _, nd := range net.nodes {
			nd.drv.Start()
		}
		cursor := map[int]int{}
		for _, nd := range net.nodes {
			cursor[nd.i] = len(nd.sent) // what was sent at start (the dead primary's proposal) goes nowhere
		}
		seenRec := map[string]bool{}
		// deliver everything new among the live validators until nothing new is sent
		pump := func(allow func(from, to int, s c19dSent) bool, check bool) {
			for iter := 0; iter < 200; iter++ {
				progress := false
				for _, from := range live {
					nd := net.node(from)
					for cursor[from] < len(nd.sent) {
						s := nd.sent[cursor[from]]
						cursor[from]++
						progress = true
						for _, to := range live {
							if to == from || !allow(from, to, s) {
								continue
							}
							if s.typ == 5 && check && !seenRec[string(s.raw)] {
								seenRec[string(s.raw)] = true
								net.checkRestore(net.node(to), s.raw, &impl)
							}
							if len(net.viol) > 0 {
								return // one violation per case is enough; do not grind on
							}
							net.node(to).drv.Deliver(c19dExt(s.raw))
						}
					}
				}
				if !progress {
					return
				}
			}
			panic("message pump does not come to rest")
		}
		view := func(i int) int { return int(net.node(i).drv.State().View) }
		// the views below the target: proposals lost, everybody alive asks for the next view
		for v := 0; v < W; v++ {
			if p := prim(v); !dead[p] && view(p) == v {
				net.node(p).drv.Timeout() // its PrepareRequest is lost
				cursor[p] = len(net.node(p).sent)
			}
			lastStep := v == W-1
			for round := 0; round < 6; round++ {
				done := true
				for _, i := range live {
					if view(i) <= v && !(lastStep && lost[3] && i == V && net.node(i).find(3, h, v) != nil) {
						done = false
					}
				}
				if done {
					break
				}
				order := append([]int{}, live...)
				for k, i := range order { // V's timer fires last: it has then seen everybody alive
					if i == V {
						order = append(append(order[:k:k], order[k+1:]...), V)
						break
					}
				}
				for _, i := range order {
					if view(i) > v || net.node(i).find(3, h, v) != nil {
						continue
					}
					net.node(i).drv.Timeout()
					pump(func(from, to int, s c19dSent) bool {
						if s.typ != 3 && s.typ != 4 {
							return false // only requests for a view change / for recovery get through
						}
						// "cv lost": the ChangeView of one live validator X never reaches V, which then holds M-1
						return !(lastStep && lost[3] && to == V && s.typ == 3 && from == X)
					}, false)
				}
			}
		}
		for _, i := range live {
			want := W
			if lost[3] && i == V {
				want = W - 1
			}
			if view(i) != want {
				panic(fmt.Sprintf("set-up: validator %d is in view %d, expected %d", i, view(i), want))
			}
		}
		// the target view, with the listed kinds lost on the way to V; no recovery traffic yet
		if view(pW) == W {
			net.node(pW).drv.Timeout()
		}
		pump(func(from, to int, s c19dSent) bool {
			if s.typ >= 3 {
				return false
			}
			return !(to == V && lost[s.typ])
		}, false)
		impl.VictimView = view(V)
		for _, i := range live {
			if net.node(i).drv.State().CommitSent {
				impl.Committed++
			}
		}
		// synchrony
		// a validator whose service has produced the block stops talking (dBFT: BlockSent) and the server relays the
		// block: the others may get it that way instead of assembling it themselves
		relay := func() {
			var b *block.Block
			for _, i := range live {
				if nd := net.node(i); len(nd.put) > 0 && nd.puterr[0] == nil {
					b = nd.put[0]
				}
			}
			if b == nil {
				return
			}
			for _, i := range live {
				if nd := net.node(i); len(nd.put) == 0 && nd.bc.BlockHeight() < h {
					if err := nd.bc.AddBlock(b); err != nil {
						net.violate("ledger of validator %d rejects the relayed block committed after recovery: %v", i, err)
					} else {
						impl.Relayed++
					}
				}
			}
		}
		decided := func() bool {
			for _, i := range live {
				if net.node(i).bc.BlockHeight() < h {
					return false
				}
			}
			return true
		}
		everything := func(from, to int, s c19dSent) bool { return true }
		for impl.Rounds = 0; impl.Rounds < c19dMaxRounds && !decided() && len(net.viol) == 0; {
			impl.Rounds++
			net.node(V).drv.Timeout()
			pump(everything, true)
			relay()
			if decided() {
				break
			}
			for _, i := range live {
				if i != V && len(net.node(i).put) == 0 {
					net.node(i).drv.Timeout()
				}
			}
			pump(everything, true)
			relay()
		}
		impl.Decided = decided()
		impl.FinalView = view(V)
		if len(net.viol) > 0 {
			return
		}
		if !impl.Decided {
			var st []string
			for _, i := range live {
				s := net.node(i).drv.State()
				st = append(st, fmt.Sprintf("%d:view%d,commit=%v,block=%v", i, s.View, s.CommitSent, s.BlockSent))
			}
			net.violate("after the loss ends, %d synchronous rounds (timers fire, everything is delivered, recovery included) do not bring the block to every live validator at view >= %d: %v",
				c19dMaxRounds, W, st)
			return
		}
		impl.SameBlock, impl.Accepted = true, true
		var blk *block.Block
		for _, i := range live {
			nd := net.node(i)
			if len(nd.put) == 0 {
				continue // got the block by relay
			}
			b := nd.put[0]
			if blk == nil {
				blk = b
			} else if b.Hash() != blk.Hash() {
				impl.SameBlock = false
				net.violate("after recovery two services hand different blocks to their ledgers")
			}
			if nd.puterr[0] != nil {
				impl.Accepted = false
				net.violate("own ledger rejects the block the consensus service committed after recovery (validator %d): %v", i, nd.puterr[0])
			}
			if net.obs.BlockHeight() < h {
				if err := net.obs.AddBlock(b); err != nil {
					impl.Accepted = false
					net.violate("an independent ledger rejects the block committed after recovery: %v", err)
				}
			} else if !c19dWitnessOK(net, b) || net.obs.GetHeaderHash(h) != b.Hash() {
				impl.Accepted = false
				net.violate("an independent ledger would reject the block validator %d committed after recovery", i)
			}
		}
		if !impl.SameBlock || !impl.Accepted {
			return
		}
		for _, nd := range net.nodes {
			if nd.bc.BlockHeight() < h {
				if err := nd.bc.AddBlock(blk); err != nil {
					net.violate("ledger of validator %d rejects the block committed after recovery: %v", nd.i, err)
					return
				}
			}
			nd.drv.ChainBlock(blk)
		}
		// and the chain keeps advancing with everybody back
		impl.AfterOK = true
		var acc []c19dAccept
		for k := 0; k < in.After; k++ {
			if !net.staleHeight(c19dHeight{Txs: k % 2}, &acc) {
				impl.AfterOK = false
				break
			}
		}
	}); p != "" {
		if node {
			co.violation("recovery", c19dPanicNote+p, in, impl)
			return nil
		}
		return fmt.Errorf("harness failure in recovery case %s: %s", string(raw), p)
	}
	for _, v := range net.viol {
		co.violation("recovery", v, in, impl)
	}
	var items []string
	for _, it := range impl.Restored {
		items = append(items, fmt.Sprintf("(%d,%d,%d,%s,%s,%s)", it.Typ, it.View, it.RecView, coqZi(int64(it.Orig))+"%Z", coqBool(it.Equal), coqBool(it.SigOK)))
	}
	small := impl
	small.Restored = nil
	tag := fmt.Sprintf("n%d/view%d/lost", N, W)
	for _, l := range []string{"req", "resp", "commit", "cv"} {
		for _, x := range in.Lost {
			if x == l {
				tag += "-" + l
			}
		}
	}
	co.add("recovery", tag, impl.RecMsgs > 0 && len(impl.Restored) > 0, in, map[string]any{"summary": small, "restored": len(impl.Restored)},
		fmt.Sprintf("CRecovery %d %d %s %d %s %s %s %s", N, W, coqList(items), impl.Rounds, coqBool(impl.Decided), coqBool(impl.SameBlock), coqBool(impl.Accepted), coqBool(impl.AfterOK)))
	return nil
}

// ---------------- kind "full" ----------------
//
// Liveness with a full block: every pool holds more valid transactions than one block may carry; the REAL primary builds its
// proposal from its pool (getVerifiedTx -> ApplyPolicyToTxSet), the real backups must answer it; block after block the pool
// drains in chunks of exactly what the binding limit (count, system fee or size) allows.

type c19dFullInput struct {
	N         int    `json:"n"`
	StateRoot bool   `json:"state_root"`
	Bound     string `json:"bound"` // which limit binds: count (3 per block) | fee | size (2 per block)
	Pool      int    `json:"pool"`  // transactions in every pool
}

var c19dTxSizeCache = map[int]int{}

// size of the transactions c19dNet.tx builds for n validators (fixed-width fields: the same for every nonce and fee)
func c19dTxSizeN(n int) int {
	if c19dTxSizeCache[n] == 0 {
		net := c19dBuild(n, false, nil, nil)
		c19dTxSizeCache[n] = net.tx(100000, 50).Size()
		if net.tx(10_000000, 51).Size() != c19dTxSizeCache[n] {
			panic("transaction size depends on the fee")
		}
		net.close()
	}
	return c19dTxSizeCache[n]
}

func c19dTxSize() int { return c19dTxSizeN(4) }

func c19dRunFull(co *caseOut, raw json.RawMessage) error {
	var in c19dFullInput
	if err := json.Unmarshal(raw, &in); err != nil {
		return err
	}
	if in.N != 7 {
		in.N = 4
	}
	if in.Pool < 1 {
		in.Pool = 5
	}
	const fee = 1_000000
	cap := 3
	var counts, reqCounts []int
	var net *c19dNet
	if p, node := c19dCatch(func() {
		tweak := func(c *config.Blockchain) {
			c.MaxTransactionsPerBlock = 3
			c.MemPoolSize = 100
			switch in.Bound {
			case "fee":
				c.MaxBlockSystemFee = 2 * fee // two transactions sit exactly at the limit
			case "size":
				m := smartcontract.GetDefaultHonestNodeCount(in.N)
				ks := c19Keys(in.N)
				var pubs keys.PublicKeys
				for _, k := range ks {
					pubs = append(pubs, k.PublicKey())
				}
				verif, err := smartcontract.CreateDefaultMultiSigRedeemScript(pubs)
				if err != nil {
					panic(err)
				}
				tmpl := &block.Block{Header: block.Header{StateRootEnabled: in.StateRoot,
					Script: transaction.Witness{InvocationScript: make([]byte, 66*m), VerificationScript: verif}}}
				// the size the PRIMARY computes for two transactions is exactly the limit
				c.MaxBlockSize = uint32(tmpl.GetExpectedBlockSizeWithoutTransactions(3) + 2*c19dTxSizeN(in.N))
			}
		}
		if in.Bound == "fee" || in.Bound == "size" {
			cap = 2
		}
		var all []int
		for i := 0; i < in.N; i++ {
			all = append(all, i)
		}
		net = c19dBuild(in.N, in.StateRoot, all, tweak)
		defer net.close()
		for k := 0; k < in.Pool; k++ { // in every pool before consensus starts (the first primary proposes at once)
			tx := net.tx(fee, 60)
			for _, nd := range net.nodes {
				if err := nd.bc.PoolTx(tx); err != nil {
					panic(err)
				}
			}
		}
		for _, nd := range net.nodes {
			nd.drv.Start()
		}
		var acc []c19dAccept
		left := in.Pool
		for hgt := 1; left > 0 && hgt <= in.Pool+1; hgt++ {
			op := c19dHeight{}
			h := net.nodes[0].bc.BlockHeight() + 1
			if !net.staleHeight(op, &acc) {
				break
			}
			b, err := net.nodes[0].bc.GetBlock(net.nodes[0].bc.GetHeaderHash(h))
			if err != nil {
				panic(err)
			}
			counts = append(counts, len(b.Transactions))
			left -= len(b.Transactions)
			if req := net.node(int(h)%in.N).find(0, h, 0); req != nil {
				e := c19dExt(req)
				if len(e.Data) > 59 {
					reqCounts = append(reqCounts, int(e.Data[59]))
				}
			}
			if len(b.Transactions) == 0 {
				break
			}
		}
	}); p != "" {
		if node {
			co.violation("full", c19dPanicNote+p, in, nil)
			return nil
		}
		return fmt.Errorf("harness failure in full-block case %s: %s", string(raw), p)
	}
	var want []int
	for left := in.Pool; left > 0; left -= cap {
		want = append(want, min(cap, left))
	}
	if len(net.viol) == 0 && fmt.Sprint(counts) != fmt.Sprint(want) {
		net.violate("pools hold %d valid transactions and %s allows %d per block: blocks carry %v transactions, expected %v", in.Pool, in.Bound, cap, counts, want)
	}
	for _, v := range net.viol {
		co.violation("full", "full block ("+in.Bound+" limit binding): "+v, in, map[string]any{"blocks": counts, "proposed": reqCounts})
	}
	co.add("full", fmt.Sprintf("n%d/%s", in.N, in.Bound), len(counts) > 1, in, map[string]any{"blocks": counts, "proposed": reqCounts},
		fmt.Sprintf("CFull %d %d %s %s", in.Pool, cap, c20Ints(counts), c20Ints(reqCounts)))
	return nil
}

// ---------------- kind "witness" ----------------
//
// The block hash does not cover the witness.  Honest validators that complete block N from different M-subsets of the Commit
// payloads build different, equally valid witnesses.  Two heights are decided with every validator i receiving, besides its
// own, the commits of the next M-1 validators in steps of Step (so the subsets differ); the blocks as built by EACH validator
// are collected; then fresh ledgers take the header from one validator's copy and the block from another's, in every order.

type c19dWitInput struct {
	N         int  `json:"n"`
	StateRoot bool `json:"state_root"`
	Step      int  `json:"step"`
	Txs       int  `json:"txs"`
}

func (n *c19dNet) fresh() *core.Blockchain {
	tb := &c20TB{}
	bc, _ := chain.NewSingleWithOptions(tb, &chain.Options{Logger: c20Logger(), BlockchainConfigHook: n.hook})
	n.extra = append(n.extra, tb)
	return bc
}

// one height in which validator i completes the block from its own commit and those of i+Step, i+2*Step, ... (M in all)
func (n *c19dNet) witnessHeight(step, txs int, accepts *[]c19dAccept) []*block.Block {
	h := n.nodes[0].bc.BlockHeight() + 1
	N := n.n
	M := smartcontract.GetDefaultHonestNodeCount(N)
	p0 := int(h) % N
	for k := 0; k < txs; k++ {
		tx := n.tx(1_0000000, h+50)
		for _, nd := range n.nodes {
			if err := nd.bc.PoolTx(tx); err != nil {
				panic(err)
			}
		}
	}
	if n.node(p0).find(0, h, 0) == nil {
		n.node(p0).drv.Timeout()
	}
	req := n.node(p0).find(0, h, 0)
	if req == nil {
		n.violate("primary %d does not propose at height %d", p0, h)
		return nil
	}
	var resps [][]byte
	for i := 0; i < N; i++ {
		if i != p0 {
			n.node(i).drv.Deliver(c19dExt(req))
			r := n.node(i).find(1, h, 0)
			if r == nil {
				n.violate("backup %d does not answer a proposal of an honest primary (height %d)", i, h)
				return nil
			}
			resps = append(resps, r)
		}
	}
	commits := make([][]byte, N)
	for i := 0; i < N; i++ {
		for _, r := range resps {
			n.node(i).drv.Deliver(c19dExt(r))
		}
		commits[i] = n.node(i).find(2, h, 0)
		if commits[i] == nil {
			n.violate("validator %d has all preparations and does not commit (height %d)", i, h)
			return nil
		}
	}
	blocks := make([]*block.Block, N)
	for i := 0; i < N; i++ {
		nd := n.node(i)
		// a subset of M distinct validators containing i
		sub := map[int]bool{i: true}
		for j := (i + step) % N; len(sub) < M; j = (j + step) % N {
			if sub[j] {
				j = (j + 1) % N
			}
			sub[j] = true
		}
		nput := len(nd.put)
		for j := 0; j < N; j++ {
			if sub[j] && j != i {
				nd.drv.Deliver(c19dExt(commits[j]))
			}
		}
		if len(nd.put) != nput+1 {
			n.violate("validator %d holds M commits and hands %d blocks to its ledger (height %d)", i, len(nd.put)-nput, h)
			return nil
		}
		b := nd.put[nput]
		blocks[i] = b
		st := nd.drv.State()
		a := c19dAccept{Node: i, Height: h, View: int(st.View), Views: st.CommitViews, Signers: n.witnessSigners(b), OwnOK: nd.puterr[nput] == nil, Hash: b.Hash().StringLE()}
		if n.obs.BlockHeight() < h {
			a.OtherOK = n.obs.AddBlock(b) == nil
		} else {
			a.OtherOK = n.obs.GetHeaderHash(h) == b.Hash() && c19dWitnessOK(n, b)
		}
		if !a.OwnOK || !a.OtherOK {
			n.violate("a ledger rejects the block validator %d completed from its subset of the commits (height %d)", i, h)
		}
		*accepts = append(*accepts, a)
	}
	for _, nd := range n.nodes {
		nd.drv.ChainBlock(blocks[nd.i])
	}
	return blocks
}

func c19dRunWitness(co *caseOut, raw json.RawMessage) error {
	var in c19dWitInput
	if err := json.Unmarshal(raw, &in); err != nil {
		return err
	}
	if in.N != 7 {
		in.N = 4
	}
	if in.Step < 1 {
		in.Step = 1
	}
	var accepts []c19dAccept
	var items []string // (mode, accepted)
	distinct := 0
	var net *c19dNet
	if p, node := c19dCatch(func() {
		var all []int
		for i := 0; i < in.N; i++ {
			all = append(all, i)
		}
		net = c19dBuild(in.N, in.StateRoot, all, nil)
		defer net.close()
		for _, nd := range net.nodes {
			nd.drv.Start()
		}
		b1 := net.witnessHeight(in.Step, in.Txs, &accepts)
		if b1 == nil {
			return
		}
		b2 := net.witnessHeight(in.Step, 1, &accepts)
		if b2 == nil {
			return
		}
		wit := map[string]bool{}
		for _, bs := range [][]*block.Block{b1, b2} {
			for i, b := range bs {
				if b.Hash() != bs[0].Hash() {
					net.violate("validators %d and 0 completed different blocks at height %d", i, b.Index)
					return
				}
			}
		}
		for _, b := range b1 {
			wit[string(b.Script.InvocationScript)] = true
		}
		distinct = len(wit)
		if distinct < 2 {
			panic("set-up: all validators built the same witness")
		}
		M := smartcontract.GetDefaultHonestNodeCount(in.N)
		rec := func(mode int, ok bool, what string, a, b int) {
			items = append(items, fmt.Sprintf("(%d,%s)", mode, coqBool(ok)))
			want := mode <= 2
			if ok != want {
				net.violate("one block, two valid witnesses: %s (header/first copy from validator %d, block from validator %d): accepted=%v", what, a, b, ok)
			}
		}
		pairs := 0
		for a := 0; a < in.N; a++ {
			for b := 0; b < in.N; b++ {
				if a == b || bytes.Equal(b1[a].Script.InvocationScript, b1[b].Script.InvocationScript) {
					continue
				}
				if in.N == 7 && (a*7+b)%4 != in.Step%4 {
					continue // a quarter of the 42 ordered pairs
				}
				pairs++
				// header first from A, block from B
				l := net.fresh()
				if err := l.AddHeaders(&b1[a].Header); err != nil {
					panic(fmt.Sprintf("AddHeaders of a committed header: %v", err))
				}
				err := l.AddBlock(b1[b])
				rec(0, err == nil && l.BlockHeight() == 1, "header known, then the block with another valid witness", a, b)
				// negative controls on a ledger that knows A's header: B's block with M-1 signatures / with a signature for another block
				l2 := net.fresh()
				_ = l2.AddHeaders(&b1[a].Header)
				short := *b1[b]
				short.Script = transaction.Witness{InvocationScript: bytes.Clone(b1[b].Script.InvocationScript[:66*(M-1)]), VerificationScript: b1[b].Script.VerificationScript}
				rec(3, l2.AddBlock(&short) == nil, "header known, then the block with M-1 signatures", a, b)
				foreign := *b1[b]
				inv := bytes.Clone(b1[b].Script.InvocationScript)
				copy(inv[:66], b2[b].Script.InvocationScript[:66]) // a signature of the same validator set over the NEXT block
				foreign.Script = transaction.Witness{InvocationScript: inv, VerificationScript: b1[b].Script.VerificationScript}
				rec(4, l2.AddBlock(&foreign) == nil, "header known, then the block with a signature that is not over it", a, b)
				if l2.BlockHeight() != 0 {
					net.violate("a refused block changed the ledger")
				}
				// block from A, then block from B: already known, nothing changes
				l3 := net.fresh()
				if err := l3.AddBlock(b1[a]); err != nil {
					panic(err)
				}
				err = l3.AddBlock(b1[b])
				rec(1, err != nil && l3.BlockHeight() == 1 && l3.GetHeaderHash(1) == b1[a].Hash(), "the block, then the same block with another witness", a, b)
				// two headers from A, then both blocks from B
				l4 := net.fresh()
				if err := l4.AddHeaders(&b1[a].Header, &b2[a].Header); err != nil {
					panic(fmt.Sprintf("AddHeaders of two committed headers: %v", err))
				}
				e1 := l4.AddBlock(b1[b])
				e2 := l4.AddBlock(b2[b])
				rec(2, e1 == nil && e2 == nil && l4.BlockHeight() == 2, "two headers known, then the two blocks with other valid witnesses", a, b)
			}
		}
		if pairs == 0 {
			panic("set-up: no pair of validators with different witnesses")
		}
	}); p != "" {
		if node {
			co.violation("witness", c19dPanicNote+p, in, nil)
			return nil
		}
		return fmt.Errorf("harness failure in witness case %s: %s", string(raw), p)
	}
	for _, v := range net.viol {
		co.violation("witness", v, in, map[string]any{"distinct_witnesses": distinct})
	}
	for _, a := range accepts {
		var vs, ss []string
		for _, v := range a.Views {
			vs = append(vs, coqZi(int64(v))+"%Z")
		}
		for _, s := range a.Signers {
			ss = append(ss, coqZi(int64(s))+"%Z")
		}
		co.add("witness", fmt.Sprintf("n%d/subset", in.N), true, map[string]any{"case": in, "accept": a.Node, "height": a.Height}, a,
			fmt.Sprintf("CWitness %d %d %s %s %s %s", in.N, a.View, coqList(vs), coqList(ss), coqBool(a.OwnOK), coqBool(a.OtherOK)))
	}
	co.add("witness", fmt.Sprintf("n%d", in.N), distinct > 1, in, map[string]any{"distinct_witnesses": distinct, "checks": len(items)},
		fmt.Sprintf("CCross %s", coqList(items)))
	return nil
}
