package main

import (
	"fmt"
	"os"

	"github.com/nspcc-dev/neo-go/pkg/core/block"
)

func init() { register("c20x", runC20x) }

func runC20x(args []string) error {
	r := newRng(1)
	src := c20NewSource(r, 14, 6)
	defer src.close()
	P := uint32(12)
	root := src.root(P)
	ns := src.nodes(root)
	fmt.Println("height", src.height, "nodes", len(ns), "content", len(src.content(root)))
	dir, _ := os.MkdirTemp("", "c20x-")
	defer os.RemoveAll(dir)
	b, err := c20OpenBolt(dir)
	if err != nil {
		return err
	}
	m := b.bc.GetStateSyncModule()
	fmt.Println("init:", m.Init(src.height))
	var hs []*block.Header
	for i := uint32(1); i <= src.height; i++ {
		hs = append(hs, src.header(i))
	}
	fmt.Println("headers:", m.AddHeaders(hs...), "need storage", m.NeedStorageData(), "syncpoint", m.GetStateSyncPoint())
	byH := map[string]c20Node{}
	for _, n := range ns {
		byH[string(n.h[:])] = n
	}
	step := 0
	for {
		need := m.GetUnknownMPTNodesBatch(1000)
		if len(need) == 0 {
			break
		}
		var add [][]byte
		for _, h := range need {
			add = append(add, byH[string(h[:])].bytes)
		}
		fmt.Println("round", step, "need", len(need), "err", m.AddMPTNodes(add))
		step++
		if step >= 1 {
			p := catch(func() {
				err := b.reopen()
				fmt.Println("reopen:", err)
				m = b.bc.GetStateSyncModule()
				fmt.Println("init again:", m.Init(src.height), "need storage", m.NeedStorageData())
			})
			fmt.Println("restart panic:", p)
			if p != "" {
				return nil
			}
		}
	}
	fmt.Println("blocks needed", m.NeedBlocks(), "height", m.BlockHeight())
	for i := m.BlockHeight() + 1; i <= P; i++ {
		if err := m.AddBlock(src.block(i)); err != nil {
			fmt.Println("addblock", i, err)
		}
	}
	fmt.Println("active", m.IsActive(), "bolt height", b.bc.BlockHeight(), "root equal", b.bc.GetStateModule().CurrentLocalStateRoot() == root)
	ok, why := c20KVEqual(src.content(root), c20Dump(b.bc))
	fmt.Println("dump equal", ok, why)
	for i := P + 1; i <= src.height; i++ {
		fmt.Println("continue", i, b.bc.AddBlock(src.block(i)))
	}
	b.close()
	return nil
}
