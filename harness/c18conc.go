package main

// C18 (and the hot paths of C17), eighth round: pure codec functions called CONCURRENTLY.
//
// Every function here is a FUNCTION in the models: the result depends on the arguments only. A package-level scratch
// buffer, a shared temporary, a cache handing out one mutable object contradict that - and are invisible to sequential
// callers. Kind "conc": each function from 8 goroutines at once (released by a barrier), every goroutine on ITS OWN
// inputs (plus a few inputs all goroutines share, for the caches), a few hundred calls each; every result is compared with
// the result computed sequentially before. This is a SAMPLING check of schedule freedom (a race that does not occur in
// the sampled schedules is not seen; the Go scheduler is trusted to interleave); the only proved concurrency statement
// of the property is the multi-signature schedule theorem.

import (
	"bytes"
	"crypto/elliptic"
	"fmt"
	"math/big"
	"runtime"
	"sync"

	mrbase58 "github.com/mr-tron/base58"
	"github.com/nspcc-dev/neo-go/pkg/core/block"
	"github.com/nspcc-dev/neo-go/pkg/core/transaction"
	"github.com/nspcc-dev/neo-go/pkg/crypto/hash"
	"github.com/nspcc-dev/neo-go/pkg/crypto/keys"
	"github.com/nspcc-dev/neo-go/pkg/encoding/address"
	"github.com/nspcc-dev/neo-go/pkg/encoding/base58"
	"github.com/nspcc-dev/neo-go/pkg/encoding/bigint"
	"github.com/nspcc-dev/neo-go/pkg/encoding/fixedn"
	"github.com/nspcc-dev/neo-go/pkg/io"
	"github.com/nspcc-dev/neo-go/pkg/smartcontract"
	"github.com/nspcc-dev/neo-go/pkg/util"
	"github.com/nspcc-dev/neo-go/pkg/vm/emit"
	"github.com/nspcc-dev/neo-go/pkg/vm/stackitem"
)

const c18ConcWorkers = 8

// one pure function under test: inputs are generated per worker, f renders the result as bytes
type c18ConcFn struct {
	name string
	gen  func(r *rng) any
	f    func(in any) []byte
}

func c18ConcFns() []c18ConcFn {
	hashesOf := func(r *rng) any {
		n := pick(r, []int{1, 2, 3, 5, 8, 13, 33, 100})
		hs := make([]util.Uint256, n)
		for i := range hs {
			copy(hs[i][:], r.bytes(32))
		}
		return hs
	}
	bigOf := func(r *rng) any {
		b := r.bytes(1 + r.intn(32))
		z := new(big.Int).SetBytes(b)
		if r.bool() {
			z.Neg(z)
		}
		if z.BitLen() > 255 {
			z.Rsh(z, 2)
		}
		return z
	}
	bytesOf := func(lens ...int) func(r *rng) any { return func(r *rng) any { return r.bytes(pick(r, lens)) } }
	keyOf := func(r *rng) any { return c18Nep2Key(r.next()).PublicKey().Bytes() }
	return []c18ConcFn{
		{"hash.CalcMerkleRoot", hashesOf, func(in any) []byte {
			h := hash.CalcMerkleRoot(append([]util.Uint256{}, in.([]util.Uint256)...))
			return h[:]
		}},
		{"hash.NewMerkleTree(..).Root", hashesOf, func(in any) []byte {
			t, err := hash.NewMerkleTree(append([]util.Uint256{}, in.([]util.Uint256)...))
			if err != nil {
				return []byte(err.Error())
			}
			h := t.Root()
			return h[:]
		}},
		{"bigint.ToBytes", bigOf, func(in any) []byte { return bigint.ToBytes(in.(*big.Int)) }},
		{"bigint.ToPreallocatedBytes", bigOf, func(in any) []byte { return bigint.ToPreallocatedBytes(in.(*big.Int), make([]byte, 0, 32)) }},
		{"bigint.FromBytes", bytesOf(1, 2, 8, 9, 17, 32), func(in any) []byte { return []byte(bigint.FromBytes(in.([]byte)).String()) }},
		{"emit.BigInt", bigOf, func(in any) []byte {
			w := io.NewBufBinWriter()
			emit.BigInt(w.BinWriter, in.(*big.Int))
			return w.Bytes()
		}},
		{"stackitem.Serialize(Integer)", bigOf, func(in any) []byte { b, _ := stackitem.Serialize(stackitem.NewBigInteger(in.(*big.Int))); return b }},
		{"base58.Encode", bytesOf(1, 20, 25, 38), func(in any) []byte { return []byte(mrbase58.Encode(in.([]byte))) }},
		{"base58.CheckEncode/CheckDecode", bytesOf(1, 21, 34), func(in any) []byte {
			s := base58.CheckEncode(bytes.Clone(in.([]byte)))
			b, err := base58.CheckDecode(s)
			return append([]byte(s+fmt.Sprint(err)), b...)
		}},
		{"address.Uint160ToString/StringToUint160", bytesOf(20), func(in any) []byte {
			u, _ := util.Uint160DecodeBytesBE(in.([]byte))
			s := address.Uint160ToString(u)
			v, err := address.StringToUint160(s)
			return append([]byte(s+fmt.Sprint(err)), v[:]...)
		}},
		{"fixedn.ToString/FromString", bigOf, func(in any) []byte {
			s := fixedn.ToString(in.(*big.Int), 8)
			z, err := fixedn.FromString(s, 8)
			return []byte(s + fmt.Sprint(z, err))
		}},
		{"fixedn.Fixed8", func(r *rng) any { return int64(r.next()) >> uint(r.intn(40)) }, func(in any) []byte {
			s := fixedn.Fixed8(in.(int64)).String()
			f, err := fixedn.Fixed8FromString(s)
			return []byte(s + fmt.Sprint(int64(f), err))
		}},
		{"hash.Hash160/Sha256/DoubleSha256/Checksum", bytesOf(0, 1, 33, 64, 200), func(in any) []byte {
			b := in.([]byte)
			h1, h2, h3 := hash.Hash160(b), hash.Sha256(b), hash.DoubleSha256(b)
			return bytes.Join([][]byte{h1[:], h2[:], h3[:], hash.Checksum(b)}, nil)
		}},
		{"util.Uint160/Uint256 string forms", bytesOf(32), func(in any) []byte {
			b := in.([]byte)
			u, _ := util.Uint160DecodeBytesBE(b[:20])
			v, _ := util.Uint256DecodeBytesBE(b)
			u2, e1 := util.Uint160DecodeStringLE(u.StringLE())
			v2, e2 := util.Uint256DecodeStringBE(v.StringBE())
			return []byte(u.StringBE() + v.StringLE() + fmt.Sprint(u2 == u, v2 == v, e1, e2))
		}},
		{"keys.NewPublicKeyFromBytes (LRU cache)", keyOf, func(in any) []byte {
			k, err := keys.NewPublicKeyFromBytes(in.([]byte), elliptic.P256())
			if err != nil {
				return []byte(err.Error())
			}
			return bytes.Join([][]byte{k.Bytes(), k.X.Bytes(), k.Y.Bytes(), k.UncompressedBytes(), k.GetVerificationScript(), []byte(k.Address())}, nil)
		}},
		{"smartcontract.CreateMultiSigRedeemScript", func(r *rng) any {
			n := 1 + r.intn(5)
			var ks keys.PublicKeys
			for i := 0; i < n; i++ {
				ks = append(ks, c18Nep2Key(r.next()%16).PublicKey())
			}
			return ks
		}, func(in any) []byte {
			ks := in.(keys.PublicKeys)
			s, err := smartcontract.CreateMultiSigRedeemScript(1+len(ks)/2, ks.Copy())
			return append([]byte(fmt.Sprint(err)), s...)
		}},
		// C17 hot paths
		{"transaction: decode, hash, size, re-encode", func(r *rng) any { return c17TxFromDesc(r).Bytes() }, func(in any) []byte {
			t, err := transaction.NewTransactionFromBytes(in.([]byte))
			if err != nil {
				return []byte(err.Error())
			}
			h := t.Hash()
			return append(append(h[:], byte(t.Size()), byte(t.Size()>>8)), t.Bytes()...)
		}},
		{"block: decode, hash, merkle root, re-encode", func(r *rng) any { return c17MustEnc(c17GenBlock(r, false)) }, func(in any) []byte {
			b := block.New(false)
			rd := io.NewBinReaderFromBuf(in.([]byte))
			b.DecodeBinary(rd)
			if rd.Err != nil {
				return []byte(rd.Err.Error())
			}
			h := b.Hash()
			m := b.ComputeMerkleRoot()
			return bytes.Join([][]byte{h[:], m[:], c17MustEnc(b)}, nil)
		}},
		{"stackitem: serialize, deserialize", func(r *rng) any { return c17GenStackItem(r) }, func(in any) []byte {
			b, err := stackitem.Serialize(in.(stackitem.Item))
			if err != nil {
				return []byte(err.Error())
			}
			it, err := stackitem.Deserialize(b)
			if err != nil {
				return []byte(err.Error())
			}
			b2, _ := stackitem.Serialize(it)
			return append(b, b2...)
		}},
	}
}

func c18Conc(co *caseOut, in c18xInput) {
	fns := c18ConcFns()
	fn := fns[in.N%len(fns)]
	calls := 150
	if in.Mode > 0 {
		calls = in.Mode
	}
	// inputs: per worker its own, plus 4 shared by all; expected results sequentially, before any concurrency
	shared := make([]any, 6)
	sr := newRng(in.Seed ^ 0x5ca1ab1e)
	for i := range shared {
		shared[i] = fn.gen(sr)
	}
	type job struct {
		in   any
		want []byte
	}
	jobs := make([][]job, c18ConcWorkers)  // phase A: every worker on its own inputs
	sjobs := make([][]job, c18ConcWorkers) // phase B: all workers on the SAME argument values
	for w := range jobs {
		r := newRng(in.Seed*1000003 + uint64(w)*7919 + 1)
		for i := 0; i < 12; i++ {
			jobs[w] = append(jobs[w], job{in: fn.gen(r)})
		}
		for _, s := range shared {
			sjobs[w] = append(sjobs[w], job{in: s})
		}
		for i := range jobs[w] {
			jobs[w][i].want = fn.f(jobs[w][i].in)
		}
		for i := range sjobs[w] {
			sjobs[w][i].want = fn.f(sjobs[w][i].in)
		}
	}
	old := runtime.GOMAXPROCS(c18ConcWorkers)
	defer runtime.GOMAXPROCS(old)
	phase := func(jobs [][]job, calls int) (int, string) {
		start := make(chan struct{})
		var wg sync.WaitGroup
		var mu sync.Mutex
		var firstBad string
		nbad := 0
		for w := 0; w < c18ConcWorkers; w++ {
			wg.Add(1)
			go func(w int) {
				defer wg.Done()
				defer func() {
					if p := recover(); p != nil {
						mu.Lock()
						nbad++
						if firstBad == "" {
							firstBad = fmt.Sprintf("panic: %v", p)
						}
						mu.Unlock()
					}
				}()
				<-start
				for c := 0; c < calls; c++ {
					j := jobs[w][c%len(jobs[w])]
					if got := fn.f(j.in); !bytes.Equal(got, j.want) {
						mu.Lock()
						nbad++
						if firstBad == "" {
							firstBad = fmt.Sprintf("worker %d, call %d: %s instead of %s", w, c, hx(got[:min(len(got), 40)]), hx(j.want[:min(len(j.want), 40)]))
						}
						mu.Unlock()
					}
					if c%16 == 0 {
						runtime.Gosched()
					}
				}
			}(w)
		}
		close(start)
		wg.Wait()
		return nbad, firstBad
	}
	if nbad, first := phase(jobs, calls); nbad > 0 {
		co.violation("conc", fn.name+": called from "+fmt.Sprint(c18ConcWorkers)+" goroutines at once, EACH ON ITS OWN INPUTS, it returns other results than sequentially: it is not a function of its arguments (shared mutable state)", in,
			map[string]any{"wrong_results": nbad, "of": calls * c18ConcWorkers, "first": first})
	}
	if nbad, first := phase(sjobs, 2*calls); nbad > 0 {
		co.violation("conc", fn.name+": called from "+fmt.Sprint(c18ConcWorkers)+" goroutines at once ON THE SAME ARGUMENT VALUES it returns other results than sequentially: it writes to its argument or to shared state", in,
			map[string]any{"wrong_results": nbad, "of": 2 * calls * c18ConcWorkers, "first": first})
	}
	// the sequential results again, afterwards: nothing was left behind in shared state
	for w := range jobs {
		for _, j := range jobs[w][:3] {
			if !bytes.Equal(fn.f(j.in), j.want) {
				co.violation("conc", fn.name+": after the concurrent calls a sequential call returns another result than before", in, nil)
				return
			}
		}
	}
	co.hist["conc/"+fn.name]++
}

func c18ConcGenerate(co *caseOut, cf *commonFlags) {
	rounds := 1
	if cf.tier != "quick" {
		rounds = 6
	}
	for i := range c18ConcFns() {
		for k := 0; k < rounds; k++ {
			c18xRun(co, "conc", c18xInput{N: i, Seed: cf.seed*131 + uint64(k)})
		}
	}
}
