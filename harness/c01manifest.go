package main

// C01: manifests that exercise every optional / edge shape of the stored (stack item) form -- the Management cache of a
// running node holds the manifest as parsed from JSON at deploy / update time, a restarted node rebuilds it from the
// stored form (InitializeCache -> Manifest.FromStackItem) -- and the Coq terms of the details the model follows
// (permissions, groups, safe methods: Tokens/Model.v mshape).

import (
	"bytes"
	"encoding/json"
	"fmt"
	"strings"
	"sync"

	"github.com/nspcc-dev/neo-go/pkg/core/native/nativehashes"
	"github.com/nspcc-dev/neo-go/pkg/crypto/hash"
	"github.com/nspcc-dev/neo-go/pkg/crypto/keys"
	"github.com/nspcc-dev/neo-go/pkg/neotest"
	"github.com/nspcc-dev/neo-go/pkg/smartcontract/manifest"
	"github.com/nspcc-dev/neo-go/pkg/util"
	"github.com/nspcc-dev/neo-go/pkg/vm/stackitem"
)

const c01NShapes = 8

// c01ContractHash: the hash of the storage contract deployed by account a.
func c01ContractHash(t *c05TB, u *c05Universe, a int) util.Uint160 {
	cc, err := c01Compile(t, u.hashes[a])
	if err != nil {
		panic(c05Fatal{err.Error()})
	}
	return cc.v1.Hash
}

// c01ShapeManifest: the manifest account a deploys (updated = the second version) in the given shape.
//
//	0 the compiler's: may call everything
//	1 Management only, every other contract with an EXPLICITLY EMPTY method list
//	2 per-contract permissions: take of contract 13 only, contract 14 with an empty list; trusts wildcard; safe take/version/peek
//	3 Management.update only + everything of the contracts of group G0; member of group G1; explicit trusts; a standard
//	4 wildcard contract with an explicit method list; member of G0 and G1; put declared SAFE (its write must fault)
//	5 no permission at all; member of G0; nested extra
//	6 group G1 with an explicit list, Management wildcard, contract 13 wildcard; trusts wildcard; two standards
//	7 hash permissions with mixed lists incl. an empty one for Management (update / destroy must fault); safe put and take
func c01ShapeManifest(t *c05TB, u *c05Universe, a, shape int, updated bool) *manifest.Manifest {
	cc, err := c01Compile(t, u.hashes[a])
	if err != nil {
		panic(c05Fatal{err.Error()})
	}
	base := cc.v1.Manifest
	if updated {
		base = cc.v2.Manifest
	}
	raw, _ := json.Marshal(base)
	m := new(manifest.Manifest)
	if err := json.Unmarshal(raw, m); err != nil {
		panic(c05Fatal{err.Error()})
	}
	shape = ((shape % c01NShapes) + c01NShapes) % c01NShapes
	h := cc.v1.Hash
	perm := func(typ manifest.PermissionType, arg any, methods []string) manifest.Permission {
		var p *manifest.Permission
		if arg == nil {
			p = manifest.NewPermission(typ)
		} else {
			p = manifest.NewPermission(typ, arg)
		}
		p.Methods.Value = methods // nil = wildcard, empty non-nil = nothing
		return *p
	}
	group := func(k int) manifest.Group {
		priv := u.signers[u.acctOfKey[k]].(neotest.SingleSigner).Account().PrivateKey()
		return manifest.Group{PublicKey: u.keys[k], Signature: priv.Sign(h.BytesBE())}
	}
	safe := func(names ...string) {
		for i := range m.ABI.Methods {
			for _, n := range names {
				if m.ABI.Methods[i].Name == n {
					m.ABI.Methods[i].Safe = true
				}
			}
		}
	}
	mgmt := nativehashes.ContractManagement
	c13, c14 := c01ContractHash(t, u, 13), c01ContractHash(t, u, 14)
	g0, g1 := u.keys[0], u.keys[1]
	none := []string{}
	m.Groups = []manifest.Group{}
	m.Trusts = manifest.WildPermissionDescs{Value: []manifest.PermissionDesc{}}
	m.SupportedStandards = []string{}
	extra := fmt.Sprintf(`{"shape":%d}`, shape)
	switch shape {
	case 0:
		m.Permissions = []manifest.Permission{perm(manifest.PermissionWildcard, nil, nil)}
	case 1:
		m.Permissions = []manifest.Permission{perm(manifest.PermissionHash, mgmt, nil), perm(manifest.PermissionWildcard, nil, none)}
	case 2:
		m.Permissions = []manifest.Permission{perm(manifest.PermissionHash, mgmt, nil), perm(manifest.PermissionHash, c13, []string{"take"}), perm(manifest.PermissionHash, c14, none)}
		m.Trusts = manifest.WildPermissionDescs{Wildcard: true}
		safe("take", "version", "peek")
	case 3:
		m.Permissions = []manifest.Permission{perm(manifest.PermissionHash, mgmt, []string{"update"}), perm(manifest.PermissionGroup, g0, nil)}
		m.Groups = []manifest.Group{group(1)}
		m.Trusts = manifest.WildPermissionDescs{Value: []manifest.PermissionDesc{{Type: manifest.PermissionHash, Value: c13}, {Type: manifest.PermissionGroup, Value: g0}}}
		m.SupportedStandards = []string{"X-verif-1"}
	case 4:
		m.Permissions = []manifest.Permission{perm(manifest.PermissionWildcard, nil, []string{"take", "put", "update", "destroy"})}
		m.Groups = []manifest.Group{group(0), group(1)}
		safe("put")
	case 5:
		m.Permissions = []manifest.Permission{}
		m.Groups = []manifest.Group{group(0)}
		extra = fmt.Sprintf(`{"shape":%d,"nested":{"a":[1,2,{"b":null}],"s":"x"}}`, shape)
	case 6:
		m.Permissions = []manifest.Permission{perm(manifest.PermissionGroup, g1, []string{"put"}), perm(manifest.PermissionHash, mgmt, nil), perm(manifest.PermissionHash, c13, nil)}
		m.Trusts = manifest.WildPermissionDescs{Wildcard: true}
		m.SupportedStandards = []string{"X-verif-1", "X-verif-2"}
	case 7:
		m.Permissions = []manifest.Permission{perm(manifest.PermissionHash, mgmt, none), perm(manifest.PermissionHash, c13, []string{"put", "take"}), perm(manifest.PermissionHash, c14, []string{"put"})}
		m.Groups = []manifest.Group{group(1)}
		safe("put", "take")
	}
	m.Extra = json.RawMessage(extra)
	return m
}

func c01MethodName(n string) string {
	switch n {
	case "version", "put", "del", "fill", "sweep", "fillFail", "fillS", "peek", "keep", "keepTwice", "natives", "peekNatives",
		"take", "relay", "update", "destroy", "callPut", "callTake", "witnessed", "getContract", "transfer", "balanceOf":
		return "s_" + n
	}
	return "s_other"
}

// c01ShapeTerm: the Coq term (mshape) of the details of a manifest the model follows.
func c01ShapeTerm(u *c05Universe, m *manifest.Manifest) string {
	var ps, gs, ss []string
	for _, p := range m.Permissions {
		d := "DWild"
		switch p.Contract.Type {
		case manifest.PermissionHash:
			h := p.Contract.Hash()
			n := 999
			if h.Equals(nativehashes.ContractManagement) {
				n = 64
			} else {
				u.mu.Lock()
				if i, ok := u.idx[h]; ok {
					n = i
				}
				u.mu.Unlock()
			}
			d = fmt.Sprintf("(DHash %d)", n)
		case manifest.PermissionGroup:
			d = fmt.Sprintf("(DGroup %d)", u.key(p.Contract.Group().Bytes()))
		}
		ms := "MWild"
		if !p.Methods.IsWildcard() {
			var l []string
			for _, x := range p.Methods.Value {
				l = append(l, c01MethodName(x))
			}
			ms = "(MList [" + strings.Join(l, ";") + "])"
		}
		ps = append(ps, fmt.Sprintf("mk_perm %s %s", d, ms))
	}
	for _, g := range m.Groups {
		gs = append(gs, fmt.Sprint(u.key(g.PublicKey.Bytes())))
	}
	for _, md := range m.ABI.Methods {
		if md.Safe {
			ss = append(ss, c01MethodName(md.Name))
		}
	}
	return fmt.Sprintf("(mkShape [%s] [%s]%%N [%s])", strings.Join(ps, ";"), strings.Join(gs, ";"), strings.Join(ss, ";"))
}

// c01ServedManifest: the direct check of what Management.getContract serves for the storage contract of account a:
// the served manifest item must be, byte for byte in its serialised form, the stack-item form of the manifest that was
// deployed (recomputed from the shape number it carries in "extra" and the update counter, converted by ToStackItem --
// the comparison does not go through FromStackItem, the function a restarted node's cache depends on).
// Returns the manifest decoded from the item (for the model's term) and "" or the complaint.
func c01ServedManifest(t *c05TB, u *c05Universe, a, counter int, item stackitem.Item) (*manifest.Manifest, string) {
	m := new(manifest.Manifest)
	if err := m.FromStackItem(item); err != nil {
		m = nil
	}
	f, ok := item.Value().([]stackitem.Item)
	if !ok || len(f) != 8 {
		return m, fmt.Sprintf("contract %d: served manifest is not a struct of 8 fields", a)
	}
	var ex struct {
		Shape *int `json:"shape"`
	}
	eb, _ := f[7].TryBytes()
	if err := json.Unmarshal(eb, &ex); err != nil || ex.Shape == nil {
		return m, fmt.Sprintf("contract %d: served manifest has no shape number in extra (%s)", a, string(eb))
	}
	key := [3]int{a, *ex.Shape, 0}
	if counter > 0 {
		key[2] = 1
	}
	var exp []byte
	if v, ok := c01ExpectedManifests.Load(key); ok {
		exp = v.([]byte)
	} else {
		if err := c05Try(func() {
			si, err := c01ShapeManifest(t, u, a, *ex.Shape, counter > 0).ToStackItem()
			if err != nil {
				panic(c05Fatal{err.Error()})
			}
			if exp, err = stackitem.Serialize(si); err != nil {
				panic(c05Fatal{err.Error()})
			}
		}); err != nil {
			return m, err.Error()
		}
		c01ExpectedManifests.Store(key, exp)
	}
	got, err := stackitem.Serialize(item)
	if err != nil || !bytes.Equal(got, exp) {
		gj, _ := stackitem.ToJSONWithTypes(item)
		var wj []byte
		if wi, e := stackitem.Deserialize(exp); e == nil {
			wj, _ = stackitem.ToJSONWithTypes(wi)
		}
		return m, fmt.Sprintf("contract %d: getContract serves a manifest that differs from the deployed one (shape %d): served %s, deployed %s", a, *ex.Shape, gj, wj)
	}
	return m, ""
}

// expected manifests as JSON by (account, shape, updated): the universe is the same in every case of a run
var c01ExpectedManifests sync.Map

var _ = hash.Sha256
var _ *keys.PublicKey
