package main

// Slot initialisation (after the fifth mutation round): INITSSLOT / INITSLOT executed more than once, with every operand
// combination from {0,1,2,255}, in one context and across CALL boundaries, followed by a load or store of each kind at
// index 0, n-1, n; and two scripts loaded on one VM (statics are per script).  The compiler never emits such sequences.

import (
	"fmt"

	"github.com/nspcc-dev/neo-go/pkg/smartcontract/callflag"
	"github.com/nspcc-dev/neo-go/pkg/util"
	"github.com/nspcc-dev/neo-go/pkg/vm/opcode"
	"github.com/nspcc-dev/neo-go/pkg/vm/vmstate"
)

type c13SlotInit struct {
	static  bool
	s, l, a int
}

func (x c13SlotInit) String() string {
	if x.static {
		return fmt.Sprintf("S%d", x.s)
	}
	return fmt.Sprintf("L%dA%d", x.l, x.a)
}

var c13SlotCounts = []int{0, 1, 2, 255}

// the 20 slot-initialising instructions
func c13SlotInits() []c13SlotInit {
	var out []c13SlotInit
	for _, n := range c13SlotCounts {
		out = append(out, c13SlotInit{static: true, s: n})
	}
	for _, l := range c13SlotCounts {
		for _, a := range c13SlotCounts {
			out = append(out, c13SlotInit{l: l, a: a})
		}
	}
	return out
}

// items for the arguments of the instructions are put on the stack first
func c13SlotPrefix(a *c13Asm, seq []c13SlotInit) {
	for _, x := range seq {
		switch {
		case x.static || x.a == 0:
		case x.a <= 2:
			for k := 0; k < x.a; k++ {
				a.op(opcode.PUSH1 + opcode.Opcode(k))
			}
		default:
			a.i(int64(x.a)).op(opcode.NEWARRAY).op(opcode.UNPACK).op(opcode.DROP)
		}
	}
}

func c13SlotEmit(a *c13Asm, seq []c13SlotInit) {
	for _, x := range seq {
		if x.static {
			a.op(opcode.INITSSLOT, byte(x.s))
		} else {
			a.op(opcode.INITSLOT, byte(x.l), byte(x.a))
		}
	}
}

// probe p in 0..17: kind (static, local, argument) x index (0, n-1, n) x (load, store); n = the largest count any
// instruction of seq gives the kind
func c13SlotProbe(a *c13Asm, seq []c13SlotInit, p int) {
	kind, sel, store := p%3, (p/3)%3, (p/9)%2 == 1
	n := 0
	for _, x := range seq {
		c := []int{x.s, x.l, x.a}[kind]
		if (kind == 0) == x.static && c > n {
			n = c
		}
	}
	idx := []int{0, n - 1, n}[sel]
	if idx < 0 {
		idx = 0
	}
	if idx > 255 {
		idx = 255
	}
	ld0 := []opcode.Opcode{opcode.LDSFLD0, opcode.LDLOC0, opcode.LDARG0}[kind]
	st0 := []opcode.Opcode{opcode.STSFLD0, opcode.STLOC0, opcode.STARG0}[kind]
	ldn := []opcode.Opcode{opcode.LDSFLD, opcode.LDLOC, opcode.LDARG}[kind]
	stn := []opcode.Opcode{opcode.STSFLD, opcode.STLOC, opcode.STARG}[kind]
	if store {
		a.op(opcode.PUSH7)
		if idx <= 6 {
			a.op(st0 + opcode.Opcode(idx))
		} else {
			a.op(stn, byte(idx))
		}
	}
	if idx <= 6 && p%2 == 0 {
		a.op(ld0 + opcode.Opcode(idx))
	} else {
		a.op(ldn, byte(idx))
	}
	a.op(opcode.DEPTH)
}

// c13SlotScript: the instructions of seq[:cut] in the entry context, the rest in a CALLed function (cut = len(seq): all in
// one context); probes in every context used
func c13SlotScript(seq []c13SlotInit, cut int, probe int) *c13Asm {
	a := &c13Asm{}
	if cut >= len(seq) {
		c13SlotPrefix(a, seq)
		c13SlotEmit(a, seq)
		c13SlotProbe(a, seq, probe)
		return a
	}
	tail := &c13Asm{}
	c13SlotProbe(tail, seq[:cut], (probe+5)%18)
	tail.op(opcode.RET)
	c13SlotPrefix(a, seq[:cut])
	c13SlotEmit(a, seq[:cut])
	a.op(opcode.CALL, byte(2+len(tail.b)))
	a.raw(tail.b...)
	c13SlotPrefix(a, seq[cut:])
	c13SlotEmit(a, seq[cut:])
	c13SlotProbe(a, seq[cut:], probe)
	a.op(opcode.RET)
	return a
}

func c13SlotTag(seq []c13SlotInit, cut int) string {
	t := ""
	for i, x := range seq {
		if i == cut {
			t += "|call|"
		} else if i > 0 {
			t += ","
		}
		t += x.String()
	}
	return t
}

// ---- two scripts on one VM ----

// c13RunLoad: script A runs `pause` instructions, then script B is loaded on top (LoadScript: same zero hash, all
// results returned / LoadScriptWithHash: another hash, exactly one result), and the VM runs to the end.
func c13RunLoad(co *caseOut, tag string, in c13Input) {
	a, b := unhx(in.Script), unhx(in.Script2)
	run := func() (c13Result, bool) {
		var res c13Result
		v := c13NewVM(in.Base, in.Limit)
		v.SetOnExecHook(func(_ util.Uint160, _ int, _ opcode.Opcode) { res.Steps++ })
		ok := true
		var err error
		res.Panic = catch(func() {
			v.LoadScript(a)
			for i := 0; i < in.Pause; i++ {
				if e := v.Step(); e != nil || v.State() == vmstate.Fault || v.Context() == nil {
					ok = false
					return
				}
			}
			if v.Context() == nil || v.Context().NextIP() >= len(a) {
				ok = false
				return
			}
			if in.WithHash {
				v.LoadScriptWithHash(b, util.Uint160{2}, callflag.NoneFlag)
			} else {
				v.LoadScript(b)
			}
			err = v.Run()
		})
		if err != nil {
			res.ErrStr = err.Error()
			if len(res.ErrStr) > 120 {
				res.ErrStr = res.ErrStr[:120]
			}
		}
		res.Gas = v.GasConsumed()
		if res.Panic == "" && ok && v.State() == vmstate.Halt {
			res.Halt = true
			res.Stack = c13SerStack(v.Estack())
		}
		return res, ok
	}
	r1, ok := run()
	if !ok {
		return // script A did not survive to the pause: not a case
	}
	r2, _ := run()
	if r1.Panic != "" {
		co.violation("load", "Go panic escaped: "+r1.Panic, in, r1)
		return
	}
	if r1.Halt != r2.Halt || r1.Gas != r2.Gas || r1.Stack != r2.Stack || r1.Steps != r2.Steps {
		co.violation("load", "execution is not deterministic: two runs differ", in, []c13Result{r1, r2})
		return
	}
	out := "fault"
	if r1.Halt {
		out = "halt"
	}
	sid, rv := 1, -1
	if in.WithHash {
		sid, rv = 2, 1
	}
	term := fmt.Sprintf("CLoad %s %d%%nat %s %d%%N (%d) %d %d %d%%positive %s", coqBytes(a), in.Pause, coqBytes(b), sid, rv,
		in.Base, in.Limit*10000, r1.Steps+16, r1.coq())
	co.add("load", tag+"/"+out, true, in, r1, term)
}

// c13LoadCases: deterministic two-script cases around the static slots
func c13LoadCases(co *caseOut) {
	O := func() *c13Asm { return &c13Asm{} }
	type sc struct {
		tag   string
		a     *c13Asm
		pause int
	}
	as := []sc{
		{"A-static-set", O().op(opcode.INITSSLOT, 1).op(opcode.PUSH5).op(opcode.STSFLD0).op(opcode.LDSFLD0).op(opcode.DEPTH), 3},
		{"A-static-set-stack", O().op(opcode.INITSSLOT, 2).op(opcode.PUSH5).op(opcode.STSFLD1).op(opcode.PUSH6).op(opcode.LDSFLD1).op(opcode.LDSFLD0).op(opcode.DEPTH), 4},
		{"A-no-static", O().op(opcode.NOP).op(opcode.LDSFLD0).op(opcode.DEPTH), 1},
		{"A-no-static-init-later", O().op(opcode.NOP).op(opcode.INITSSLOT, 1).op(opcode.LDSFLD0).op(opcode.DEPTH), 1},
		{"A-locals", O().op(opcode.PUSH1).op(opcode.INITSLOT, 1, 1).op(opcode.PUSH4).op(opcode.STLOC0).op(opcode.LDLOC0).op(opcode.LDARG0).op(opcode.DEPTH), 4},
		{"A-in-call", O().op(opcode.INITSSLOT, 1).op(opcode.CALL, 4).op(opcode.LDSFLD0).op(opcode.RET).op(opcode.INITSLOT, 1, 0).op(opcode.PUSH3).op(opcode.STSFLD0).op(opcode.LDLOC0).op(opcode.RET), 3},
	}
	bs := []struct {
		tag string
		b   *c13Asm
	}{
		{"B-init-load", O().op(opcode.INITSSLOT, 1).op(opcode.LDSFLD0)},
		{"B-init-store", O().op(opcode.INITSSLOT, 1).op(opcode.PUSH9).op(opcode.STSFLD0).op(opcode.LDSFLD0)},
		{"B-load-uninit", O().op(opcode.LDSFLD0)},
		{"B-store-uninit", O().op(opcode.PUSH9).op(opcode.STSFLD0).op(opcode.PUSH1)},
		{"B-init2-store1", O().op(opcode.INITSSLOT, 2).op(opcode.PUSH9).op(opcode.STSFLD1).op(opcode.LDSFLD1)},
		{"B-locals", O().op(opcode.PUSH2).op(opcode.INITSLOT, 1, 1).op(opcode.LDLOC0).op(opcode.DROP).op(opcode.LDARG0)},
		{"B-ldloc-uninit", O().op(opcode.LDLOC0)},
		{"B-ldarg-uninit", O().op(opcode.LDARG0)},
		{"B-plain", O().op(opcode.PUSH8)},
		{"B-two-results", O().op(opcode.PUSH8).op(opcode.PUSH9)},
		{"B-throw", O().op(opcode.INITSSLOT, 1).op(opcode.PUSH9).op(opcode.THROW)},
	}
	for _, x := range as {
		for _, y := range bs {
			for _, wh := range []bool{false, true} {
				t := x.tag + "+" + y.tag
				if wh {
					t += "+hash"
				}
				c13RunLoad(co, t, c13Input{Script: hx(x.a.b), Script2: hx(y.b.b), Pause: x.pause, WithHash: wh, Base: 1, Limit: 100000})
			}
		}
	}
	// every slot-initialising instruction in A, then every one in B
	ins := c13SlotInits()
	for i, x := range ins {
		for j, y := range ins {
			if (i+j)%3 != 0 && !(x.static && y.static) {
				continue
			}
			a := &c13Asm{}
			c13SlotPrefix(a, []c13SlotInit{x})
			pause := len(a.b) // all prefix instructions here are one byte long, except for 255 arguments
			if x.a == 255 {
				pause = 4
			}
			c13SlotEmit(a, []c13SlotInit{x})
			pause++
			c13SlotProbe(a, []c13SlotInit{x}, (i+j)%18)
			b := &c13Asm{}
			c13SlotPrefix(b, []c13SlotInit{y})
			c13SlotEmit(b, []c13SlotInit{y})
			c13SlotProbe(b, []c13SlotInit{y}, (i*3+j)%18)
			c13RunLoad(co, "init-"+x.String()+"+"+y.String(), c13Input{Script: hx(a.b), Script2: hx(b.b), Pause: pause, WithHash: (i+j)%2 == 1, Base: 1, Limit: 1000000})
		}
	}
}

// c13SlotCases: all ordered pairs in one context and across a CALL (deterministic), random triples
func c13SlotCases(co *caseOut, r *rng, ntriples int) {
	ins := c13SlotInits()
	k := 0
	for _, x := range ins {
		for _, y := range ins {
			seq := []c13SlotInit{x, y}
			for _, cut := range []int{2, 1} {
				a := c13SlotScript(seq, cut, (k*7+cut)%18)
				c13Run(co, "slots", "pair", c13Input{Script: hx(a.b), Base: 1, Limit: 1000000})
			}
			k++
		}
	}
	for i := 0; i < ntriples; i++ {
		seq := []c13SlotInit{pick(r, ins), pick(r, ins), pick(r, ins)}
		a := c13SlotScript(seq, 1+r.intn(3), r.intn(18))
		c13Run(co, "slots", "triple", c13Input{Script: hx(a.b), Base: 1, Limit: 1000000})
	}
}
