package main

// C04 harness, part 2: neotest chains inside a plain binary, deployment of the interpreter contracts,
// observation of ledger state (storage dumps, balances, Policy value via cache and via storage, state root,
// token transfer logs, execution results).

import (
	"bytes"
	"encoding/json"
	"fmt"
	"math/big"
	"reflect"
	"sort"
	"testing"

	"github.com/nspcc-dev/neo-go/pkg/config"
	"github.com/nspcc-dev/neo-go/pkg/core"
	"github.com/nspcc-dev/neo-go/pkg/core/native/nativenames"
	"github.com/nspcc-dev/neo-go/pkg/core/state"
	"github.com/nspcc-dev/neo-go/pkg/core/transaction"
	"github.com/nspcc-dev/neo-go/pkg/crypto/keys"
	"github.com/nspcc-dev/neo-go/pkg/vm/opcode"
	"github.com/nspcc-dev/neo-go/pkg/wallet"
	"github.com/nspcc-dev/neo-go/pkg/encoding/bigint"
	"github.com/nspcc-dev/neo-go/pkg/io"
	"github.com/nspcc-dev/neo-go/pkg/neotest"
	"github.com/nspcc-dev/neo-go/pkg/neotest/chain"
	"github.com/nspcc-dev/neo-go/pkg/smartcontract"
	"github.com/nspcc-dev/neo-go/pkg/smartcontract/callflag"
	"github.com/nspcc-dev/neo-go/pkg/smartcontract/manifest"
	"github.com/nspcc-dev/neo-go/pkg/smartcontract/nef"
	"github.com/nspcc-dev/neo-go/pkg/util"
	"github.com/nspcc-dev/neo-go/pkg/vm/stackitem"
	"go.uber.org/zap"
)

func c04W() *io.BufBinWriter { return io.NewBufBinWriter() }

// c04T is a testing.TB for neotest outside `go test`: failures panic with c04Fail.
type c04Fail struct{ msg string }

type c04T struct {
	testing.TB
	cleanups []func()
}

func (t *c04T) Helper()                   {}
func (t *c04T) Name() string              { return "nghx-c04" }
func (t *c04T) Logf(string, ...any)       {}
func (t *c04T) Log(...any)                {}
func (t *c04T) Errorf(f string, a ...any) { panic(c04Fail{fmt.Sprintf(f, a...)}) }
func (t *c04T) Fatalf(f string, a ...any) { panic(c04Fail{fmt.Sprintf(f, a...)}) }
func (t *c04T) Fatal(a ...any)            { panic(c04Fail{fmt.Sprint(a...)}) }
func (t *c04T) Error(a ...any)            { panic(c04Fail{fmt.Sprint(a...)}) }
func (t *c04T) FailNow()                  { panic(c04Fail{"FailNow"}) }
func (t *c04T) Fail()                     { panic(c04Fail{"Fail"}) }
func (t *c04T) Failed() bool              { return false }
func (t *c04T) Cleanup(f func())          { t.cleanups = append(t.cleanups, f) }
func (t *c04T) Setenv(string, string)     {}
func (t *c04T) Skip(...any)               {}
func (t *c04T) Skipf(string, ...any)      {}
func (t *c04T) SkipNow()                  {}
func (t *c04T) Skipped() bool             { return false }
func (t *c04T) TempDir() string           { panic("no TempDir") }
func (t *c04T) done() {
	for i := len(t.cleanups) - 1; i >= 0; i-- {
		t.cleanups[i]()
	}
}

const (
	c04NContracts = 3 // test contracts 0,1,2
	c04NPlain     = 2 // plain accounts 3,4
	c04NKeys      = 6 // storage keys 0..5 per contract
	c04NSenders   = 2 // accounts 5,6: plain accounts with keys that send (and pay for) transactions
	c04NAcc       = c04NContracts + c04NPlain + c04NSenders
	c04NNeo       = c04NContracts + c04NPlain // accounts that may hold NEO
)

type c04Chain struct {
	t     *c04T
	bc    *core.Blockchain
	e     *neotest.Executor
	owner neotest.Signer
	env   *c04Env
	ids   []int32 // contract ids of the test contracts
	gasID int32
	polID int32
	neoID int32
	// senders: single-signature accounts 5,6 (the committee co-signs their transactions with Global scope, so that
	// committee-only natives behave the same whoever pays)
	senders []neotest.Signer
}

func c04PlainAccount(i int) util.Uint160 {
	var u util.Uint160
	for j := range u {
		u[j] = byte(0xA0 + i)
	}
	return u
}

// c04NewChain: single-validator in-memory chain (default neotest configuration), three interpreter contracts deployed.
func c04NewChain() *c04Chain {
	t := &c04T{}
	bc, acc := chain.NewSingleWithOptions(t, &chain.Options{Logger: zap.NewNop()})
	e := neotest.NewExecutor(t, bc, acc, acc)
	c := &c04Chain{t: t, bc: bc, e: e, owner: acc}
	env := &c04Env{gas: e.NativeHash(t, nativenames.Gas), policy: e.NativeHash(t, nativenames.Policy), neo: e.NativeHash(t, nativenames.Neo)}
	c.gasID = e.NativeID(t, nativenames.Gas)
	c.polID = e.NativeID(t, nativenames.Policy)
	c.neoID = e.NativeID(t, nativenames.Neo)
	c.env = env
	// the standby validator's key becomes a registered candidate (test contracts vote for it)
	single := acc.(neotest.MultiSigner).Single(0)
	env.cand = single.Account().PublicKey().Bytes()
	c.mustHalt(c.newTx(c04TransferScript(c, single.ScriptHash(), 1100_0000_0000), 1_0000_0000))
	{
		a := c04NewAsm()
		a.pushBytes(env.cand)
		a.pushInt(1)
		a.raw(byte(opcode.PACK))
		a.pushInt(15)
		a.pushStr("registerCandidate")
		a.pushBytes(env.neo.BytesBE())
		a.syscall("System.Contract.Call")
		a.raw(byte(opcode.ASSERT))
		tx := transaction.New(a.bytes(), 1010_0000_0000)
		tx.Nonce = neotest.Nonce()
		tx.ValidUntilBlock = bc.BlockHeight() + 1
		tx.Signers = []transaction.Signer{{Account: single.ScriptHash(), Scopes: transaction.Global}}
		neotest.AddNetworkFee(t, bc, tx, single)
		if err := single.SignTx(bc.GetConfig().Magic, tx); err != nil {
			panic(err)
		}
		c.mustHalt(tx)
	}
	for i := 0; i < c04NSenders; i++ {
		b := make([]byte, 32)
		b[0], b[31] = 0x5e, byte(i+1)
		pk, err := keys.NewPrivateKeyFromBytes(b)
		if err != nil {
			panic(err)
		}
		sg := neotest.NewSingleSigner(wallet.NewAccountFromPrivateKey(pk))
		c.senders = append(c.senders, sg)
		env.senders = append(env.senders, sg.ScriptHash())
	}
	script, runOff, payOff := c04Interpreter(env.gas, env.policy, env.neo, bc.ManagementContractHash())
	var manifests []*manifest.Manifest
	config.Version = "0.0.0"
	for i := 0; i < c04NContracts; i++ {
		ne, err := nef.NewFile(script)
		if err != nil {
			panic(err)
		}
		m := manifest.NewManifest(fmt.Sprintf("c04-%d", i))
		anyP := func(n string) manifest.Parameter { return manifest.Parameter{Name: n, Type: smartcontract.AnyType} }
		m.ABI.Methods = []manifest.Method{
			{Name: "run", Offset: runOff, Parameters: []manifest.Parameter{anyP("p")}, ReturnType: smartcontract.IntegerType},
			{Name: manifest.MethodOnNEP17Payment, Offset: payOff, Parameters: []manifest.Parameter{anyP("from"), anyP("amount"), anyP("data")}, ReturnType: smartcontract.VoidType},
		}
		m.ABI.Events = []manifest.Event{
			{Name: "E", Parameters: []manifest.Parameter{anyP("e")}},
			{Name: "V", Parameters: []manifest.Parameter{anyP("k"), anyP("v")}},
			{Name: "P", Parameters: []manifest.Parameter{anyP("fee")}},
		}
		m.Permissions = []manifest.Permission{*manifest.NewPermission(manifest.PermissionWildcard)}
		h := state.CreateContractHash(acc.ScriptHash(), ne.Checksum, m.Name)
		ct := &neotest.Contract{Hash: h, NEF: ne, Manifest: m}
		e.DeployContract(t, ct, nil)
		env.contracts = append(env.contracts, h)
		manifests = append(manifests, m)
		c.ids = append(c.ids, bc.GetContractState(h).ID)
	}
	// method tokens need the callees' hashes, which depend on the NEFs: the contracts update themselves to the same
	// script with 48 tokens each (callee 0..2 x requested flags 0..15 -> run/1, with return value)
	ne, err := nef.NewFile(script)
	if err != nil {
		panic(err)
	}
	for ci := 0; ci < c04NContracts; ci++ {
		for f := 0; f < 16; f++ {
			ne.Tokens = append(ne.Tokens, nef.MethodToken{Hash: env.contracts[ci], Method: "run", ParamCount: 1, HasReturn: true, CallFlag: callflag.CallFlag(f)})
		}
	}
	ne.Checksum = ne.CalculateChecksum()
	neb, err := ne.Bytes()
	if err != nil {
		panic(err)
	}
	for i := 0; i < c04NContracts; i++ {
		mb, err := json.Marshal(manifests[i])
		if err != nil {
			panic(err)
		}
		up := &c04Node{Op: "call", C: i, Flags: 15, Body: &c04Node{Op: "update", Raw: [][]byte{neb, mb}}}
		c.mustHalt(c.newTx(env.entryScript(up), 50_0000_0000))
		if n := len(bc.GetContractState(env.contracts[i]).NEF.Tokens); n != c04NContracts*16 {
			panic(fmt.Sprintf("c04: contract %d has %d method tokens after the update", i, n))
		}
	}
	for i := 0; i < c04NPlain; i++ {
		env.plain = append(env.plain, c04PlainAccount(i))
	}
	return c
}

func (c *c04Chain) mustHalt(tx *transaction.Transaction) {
	if err := c.addBlock(tx); err != nil {
		panic(err)
	}
	c.e.CheckHalt(c.t, tx.Hash())
}

func (c *c04Chain) close() { c.t.done() }

// tx signed by the committee/validator account with Global scope and an explicit system fee.
func (c *c04Chain) newTx(script []byte, sysFee int64) *transaction.Transaction {
	return c.newTxUntil(script, sysFee, 1)
}

func (c *c04Chain) newTxUntil(script []byte, sysFee int64, blocks uint32) *transaction.Transaction {
	return c.newTxFrom(-1, script, sysFee, blocks)
}

// newTxFrom: sender < 0: the committee account pays; sender = 0,1: account 5,6 pays and the committee co-signs.
func (c *c04Chain) newTxFrom(sender int, script []byte, sysFee int64, blocks uint32) *transaction.Transaction {
	tx := transaction.New(script, sysFee)
	tx.Nonce = neotest.Nonce()
	tx.ValidUntilBlock = c.bc.BlockHeight() + blocks
	signers := []neotest.Signer{c.owner}
	if sender >= 0 {
		signers = []neotest.Signer{c.senders[sender], c.owner}
	}
	for _, sg := range signers {
		tx.Signers = append(tx.Signers, transaction.Signer{Account: sg.ScriptHash(), Scopes: transaction.Global})
	}
	neotest.AddNetworkFee(c.t, c.bc, tx, signers...)
	if blocks > 1 {
		// the fee per byte may be raised by an earlier transaction of the same case before this one is verified
		// in a block of its own on the replica
		tx.NetworkFee += 1000_0000
	}
	for _, sg := range signers {
		if err := sg.SignTx(c.bc.GetConfig().Magic, tx); err != nil {
			panic(err)
		}
	}
	return tx
}

// resign after changing fees
func (c *c04Chain) resign(tx *transaction.Transaction) {
	tx.Scripts = nil
	for _, sn := range tx.Signers {
		var sg neotest.Signer = c.owner
		for _, x := range c.senders {
			if x.ScriptHash() == sn.Account {
				sg = x
			}
		}
		if err := sg.SignTx(c.bc.GetConfig().Magic, tx); err != nil {
			panic(err)
		}
	}
}

func (c *c04Chain) addBlock(txs ...*transaction.Transaction) (err error) {
	defer func() {
		if r := recover(); r != nil {
			err = fmt.Errorf("%v", r)
		}
	}()
	c.e.AddNewBlock(c.t, txs...)
	return nil
}

// ---- observation ----

type c04KV struct {
	C int `json:"c"`
	K int `json:"k"`
	V int `json:"v"`
}

type c04State struct {
	Store    []c04KV `json:"store"`     // storage of the test contracts (sorted)
	Bal      []int64 `json:"bal"`       // GAS balances of accounts 0..6
	FeeCache int64   `json:"fee_cache"` // Policy.getFeePerByte as the node sees it (native cache)
	FeeStore int64   `json:"fee_store"` // the same value as stored in Policy's contract storage
	Neo      []int64 `json:"neo"`       // NEO balances of accounts 0..4
	Vote     []int   `json:"vote"`      // 1: the account votes for the candidate
	Cand     int64   `json:"cand"`      // votes of the candidate
	Voters   int64   `json:"voters"`    // voters count
	VC       bool    `json:"vc"`        // NEO cache: votesChanged (hook)
	// GAS each account would be minted if its NEO balance were touched in the NEXT block: input of the model, decided
	// by heights (not reproduced by a replay, which observes its own)
	Claim []int64 `json:"claim"`
}

// same: equality of everything but the claims
func (s c04State) same(o c04State) bool {
	s.Claim, o.Claim = nil, nil
	return reflect.DeepEqual(s, o)
}

// samePre: as a starting point (votesChanged is reset at the start of every block)
func (s c04State) samePre(o c04State) bool {
	s.VC, o.VC = false, false
	return s.same(o)
}

func (c *c04Chain) observe() c04State {
	var s c04State
	s.Store = []c04KV{}
	for i, id := range c.ids {
		c.bc.SeekStorage(id, nil, func(k, v []byte) bool {
			kv := c04KV{C: i, K: -1, V: -1}
			if len(k) == 1 {
				kv.K = int(k[0]) - 1
			}
			if len(v) == 1 {
				kv.V = int(v[0])
			} else if len(v) == 0 {
				kv.V = 0
			}
			s.Store = append(s.Store, kv)
			return true
		})
	}
	sort.Slice(s.Store, func(a, b int) bool {
		if s.Store[a].C != s.Store[b].C {
			return s.Store[a].C < s.Store[b].C
		}
		return s.Store[a].K < s.Store[b].K
	})
	for i := 0; i < c04NAcc; i++ {
		s.Bal = append(s.Bal, c.bc.GetUtilityTokenBalance(c.env.account(i), util.Uint160{}).Int64())
	}
	for i := 0; i < c04NNeo; i++ {
		acc := c.env.account(i)
		var bal int64
		vote := 0
		if it := c.bc.GetStorageItem(c.neoID, append([]byte{20}, acc.BytesBE()...)); it != nil {
			nb, err := state.NEOBalanceFromBytes(it)
			if err != nil {
				panic(err)
			}
			bal = nb.Balance.Int64()
			if nb.VoteTo != nil {
				vote = 1
				if !bytes.Equal(nb.VoteTo.Bytes(), c.env.cand) {
					vote = 2
				}
			}
		}
		s.Neo = append(s.Neo, bal)
		s.Vote = append(s.Vote, vote)
		cl, err := c.bc.CalculateClaimable(acc, c.bc.BlockHeight()+1)
		if err != nil {
			panic(err)
		}
		s.Claim = append(s.Claim, cl.Int64())
	}
	if it := c.bc.GetStorageItem(c.neoID, append([]byte{33}, c.env.cand...)); it != nil {
		si, err := stackitem.Deserialize(it)
		if err != nil {
			panic(err)
		}
		arr := si.Value().([]stackitem.Item)
		v, _ := arr[1].TryInteger()
		s.Cand = v.Int64()
	}
	if it := c.bc.GetStorageItem(c.neoID, []byte{1}); it != nil {
		s.Voters = bigint.FromBytes(it).Int64()
	}
	s.VC = c.bc.VerifNeoVotesChanged()
	s.FeeCache = c.bc.FeePerByte()
	s.FeeStore = -1
	if it := c.bc.GetStorageItem(c.polID, []byte{10}); it != nil { // feePerByteKey
		s.FeeStore = bigint.FromBytes(it).Int64()
	}
	return s
}

// full dump of every contract's storage (natives included), for the replica comparison
func (c *c04Chain) dumpAll() map[string]string {
	out := map[string]string{}
	ids := []int32{}
	for id := int32(-20); id < 0; id++ {
		ids = append(ids, id)
	}
	ids = append(ids, c.ids...)
	for _, id := range ids {
		c.bc.SeekStorage(id, nil, func(k, v []byte) bool {
			out[fmt.Sprintf("%d/%x", id, k)] = fmt.Sprintf("%x", v)
			return true
		})
	}
	return out
}

func (c *c04Chain) stateRoot() string {
	return c.bc.GetStateModule().CurrentLocalStateRoot().StringLE()
}

// transfer log of one account, newest first: (asset, counterparty, amount, block); tx hash and timestamp left out
func (c *c04Chain) transfers(acc util.Uint160) []string {
	var out []string
	_ = c.bc.ForEachNEP17Transfer(acc, ^uint64(0)>>1, func(t *state.NEP17Transfer) (bool, error) {
		out = append(out, fmt.Sprintf("a%d %s>%s %s b%d", t.Asset, t.Counterparty.StringLE(), acc.StringLE(), (*big.Int)(t.Amount).String(), t.Block))
		return len(out) < 40, nil // the newest entries: older ones were compared when they were new
	})
	return out
}

// events of an execution result, in the model's vocabulary
type c04Event struct {
	Kind string `json:"kind"` // E V P T ?
	C    int    `json:"c"`    // emitting test contract (E V P), or transfer source (T)
	A    int64  `json:"a"`    // E: e; V: key; P: fee; T: recipient account
	B    int64  `json:"b"`    // V: value (-1 = null); T: amount
}

func (e c04Event) coq() string {
	switch e.Kind {
	case "E":
		return fmt.Sprintf("EvN %d %d", e.C, e.A)
	case "V":
		if e.B < 0 {
			return fmt.Sprintf("EvV %d %d None", e.C, e.A)
		}
		return fmt.Sprintf("EvV %d %d (Some %d)", e.C, e.A, e.B)
	case "P":
		return fmt.Sprintf("EvP %d %d", e.C, e.A)
	case "T":
		return fmt.Sprintf("EvT %d %d %d", e.C, e.A, e.B)
	case "TN":
		return fmt.Sprintf("EvTN %d %d %d", e.C, e.A, e.B)
	}
	return "EvBad"
}

func (c *c04Chain) accountIndex(h util.Uint160) int {
	for i := 0; i < c04NAcc; i++ {
		if c.env.account(i) == h {
			return i
		}
	}
	return 99
}

func (c *c04Chain) decodeEvents(evs []state.NotificationEvent) []c04Event {
	out := []c04Event{}
	for _, ev := range evs {
		items := ev.Item.Value().([]stackitem.Item)
		num := func(it stackitem.Item) int64 {
			if _, ok := it.(stackitem.Null); ok {
				return -1
			}
			if b, err := it.TryBytes(); err == nil && it.Type() != stackitem.IntegerT {
				if len(b) == 1 {
					return int64(b[0])
				}
				if len(b) == 20 {
					u, _ := util.Uint160DecodeBytesBE(b)
					return int64(c.accountIndex(u))
				}
				return -2
			}
			bi, err := it.TryInteger()
			if err != nil {
				return -2
			}
			return bi.Int64()
		}
		x := c04Event{Kind: "?", C: c.accountIndex(ev.ScriptHash)}
		switch {
		case ev.ScriptHash == c.env.neo && ev.Name == "Transfer" && len(items) == 3:
			x = c04Event{Kind: "TN", C: int(num(items[0])), A: num(items[1]), B: num(items[2])}
			if _, ok := items[0].(stackitem.Null); ok {
				x.C = 98
			}
		case ev.ScriptHash == c.env.gas && ev.Name == "Transfer" && len(items) == 3:
			x = c04Event{Kind: "T", C: int(num(items[0])), A: num(items[1]), B: num(items[2])}
			if _, ok := items[0].(stackitem.Null); ok {
				x.C = 98
			}
		case ev.Name == "E" && len(items) == 1:
			x.Kind, x.A = "E", num(items[0])
		case ev.Name == "V" && len(items) == 2:
			x.Kind, x.A, x.B = "V", num(items[0])-1, num(items[1])
		case ev.Name == "P" && len(items) == 1:
			x.Kind, x.A = "P", num(items[0])
		}
		out = append(out, x)
	}
	return out
}

func c04SameMap(a, b map[string]string) (diff []string) {
	for k, v := range a {
		if w, ok := b[k]; !ok || w != v {
			diff = append(diff, fmt.Sprintf("%s: %s vs %s", k, v, b[k]))
		}
	}
	for k, v := range b {
		if _, ok := a[k]; !ok {
			diff = append(diff, fmt.Sprintf("%s: (absent) vs %s", k, v))
		}
	}
	sort.Strings(diff)
	if len(diff) > 8 {
		diff = diff[:8]
	}
	return
}

var _ = bytes.Equal

// script transferring GAS from the owner to an account with null data
func c04TransferScript(c *c04Chain, to util.Uint160, amt int64) []byte {
	return c04TokenTransferScript(c, c.env.gas, to, amt)
}

func c04TokenTransferScript(c *c04Chain, token, to util.Uint160, amt int64) []byte {
	a := c04NewAsm()
	a.raw(byte(0x0b)) // PUSHNULL (data)
	a.pushInt(amt)
	a.pushBytes(to.BytesBE())
	a.pushBytes(c.owner.ScriptHash().BytesBE())
	a.pushInt(4)
	a.raw(byte(0xc0)) // PACK
	a.pushInt(15)
	a.pushStr("transfer")
	a.pushBytes(token.BytesBE())
	a.syscall("System.Contract.Call")
	a.raw(byte(0x39)) // ASSERT
	return a.bytes()
}
