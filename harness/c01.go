package main

// C01 — replicated state transition is deterministic and restart-transparent.
// Replica differential: a block history is built on a source node (the C05 operation mix plus Policy fee changes,
// role designation, deploy/update/destroy of a small storage contract, storage-heavy and faulting invocations),
// then the SAME blocks are fed to replicas that differ in store backend, flush points (hook VerifPersist), node-local
// options (KeepOnlyLatestState, RemoveUntraceableBlocks+GC, SkipBlockVerification, VerifyTransactions off,
// SaveStorageBatch), mempool junk and restart heights (close + reopen).  At every height the state root, the full
// contract storage, the execution results and the committee / validator / policy answers are compared.
// The governance model (Tokens/Model.v, Node/Gov.v) is compared with the public getters of the source node
// (Harness/C01.v), with model restarts at the heights the case names.

import (
	"bytes"
	"crypto/sha256"
	"encoding/binary"
	"encoding/hex"
	"encoding/json"
	"errors"
	"fmt"
	"path/filepath"
	"reflect"
	"sort"
	"strings"
	"sync"

	"github.com/nspcc-dev/neo-go/pkg/compiler"
	"github.com/nspcc-dev/neo-go/pkg/config"
	"github.com/nspcc-dev/neo-go/pkg/core"
	"github.com/nspcc-dev/neo-go/pkg/core/block"
	"github.com/nspcc-dev/neo-go/pkg/core/native/nativenames"
	"github.com/nspcc-dev/neo-go/pkg/core/native/noderoles"
	"github.com/nspcc-dev/neo-go/pkg/core/state"
	"github.com/nspcc-dev/neo-go/pkg/core/storage"
	"github.com/nspcc-dev/neo-go/pkg/core/storage/dbconfig"
	"github.com/nspcc-dev/neo-go/pkg/core/transaction"
	"github.com/nspcc-dev/neo-go/pkg/io"
	"github.com/nspcc-dev/neo-go/pkg/neotest"
	"github.com/nspcc-dev/neo-go/pkg/smartcontract"
	"github.com/nspcc-dev/neo-go/pkg/smartcontract/callflag"
	"github.com/nspcc-dev/neo-go/pkg/smartcontract/manifest"
	"github.com/nspcc-dev/neo-go/pkg/smartcontract/trigger"
	"github.com/nspcc-dev/neo-go/pkg/util"
	"github.com/nspcc-dev/neo-go/pkg/vm/emit"
	"github.com/nspcc-dev/neo-go/pkg/vm/opcode"
	"github.com/nspcc-dev/neo-go/pkg/vm/stackitem"
)

func init() { register("c01", runC01) }

// ---------- the storage contract ----------

const c01SrcStore = `package vstore
import (
	"github.com/nspcc-dev/neo-go/pkg/interop"
	"github.com/nspcc-dev/neo-go/pkg/interop/contract"
	"github.com/nspcc-dev/neo-go/pkg/interop/iterator"
	"github.com/nspcc-dev/neo-go/pkg/interop/native/management"
	"github.com/nspcc-dev/neo-go/pkg/interop/native/neo"
	"github.com/nspcc-dev/neo-go/pkg/interop/native/std"
	"github.com/nspcc-dev/neo-go/pkg/interop/runtime"
	"github.com/nspcc-dev/neo-go/pkg/interop/storage"
)
func _deploy(data any, isUpdate bool) {
	ctx := storage.GetContext()
	if isUpdate {
		storage.Put(ctx, "updated", VERSION)
		return
	}
	storage.Put(ctx, "init", VERSION)
}
func Version() int { return VERSION }
func Put(k, v []byte) { storage.Put(storage.GetContext(), k, v) }
func Del(k []byte) { storage.Delete(storage.GetContext(), k) }
func Fill(seed, n int) {
	ctx := storage.GetContext()
	for i := 0; i < n; i++ {
		k := []byte{byte(seed), byte(i), byte(i / 256)}
		storage.Put(ctx, k, append(k, byte(VERSION)))
	}
	runtime.Notify("Filled", seed, n)
}
func Sweep(seed int) int {
	ctx := storage.GetContext()
	it := storage.Find(ctx, []byte{byte(seed)}, storage.KeysOnly)
	n := 0
	for iterator.Next(it) {
		storage.Delete(ctx, iterator.Value(it).([]byte))
		n++
	}
	runtime.Notify("Swept", seed, n)
	return n
}
func FillFail(seed, n int) {
	Fill(seed, n)
	panic("fill refused")
}
// FillS: like Fill with serialised arrays as values (for DeserializeValues / PickField)
func FillS(seed, n int) {
	ctx := storage.GetContext()
	for i := 0; i < n; i++ {
		k := []byte{byte(seed), byte(i), byte(i / 256)}
		storage.Put(ctx, k, std.Serialize([]any{i, append(k, byte(VERSION)), "item"}))
	}
}
// collect keeps EVERY value the iterator hands out while it advances, and returns them only after it is exhausted
func collect(prefix []byte, opts int) []any {
	it := storage.Find(storage.GetContext(), prefix, storage.FindFlags(opts))
	res := []any{}
	for iterator.Next(it) {
		res = append(res, iterator.Value(it))
	}
	return res
}
func Peek(seed, opts int) []any { return collect([]byte{byte(seed)}, opts) }
func Keep(seed, opts int) []any {
	r := collect([]byte{byte(seed)}, opts)
	storage.Put(storage.GetContext(), []byte{0xEE, byte(seed), byte(opts)}, std.Serialize(r))
	return r
}
// KeepTwice: the same read twice in one execution, another iteration in between
func KeepTwice(seed, other, opts int) []any {
	a := collect([]byte{byte(seed)}, opts)
	c := collect([]byte{byte(other)}, 1)
	b := collect([]byte{byte(seed)}, opts)
	r := []any{a, c, b}
	storage.Put(storage.GetContext(), []byte{0xEF, byte(seed), byte(opts)}, std.Serialize(r))
	return r
}
// Natives: the iterators of NEO.getAllCandidates and Management.getContractHashes, values kept across Next
func Natives() []any {
	it := neo.GetAllCandidates()
	cs := []any{}
	for iterator.Next(it) {
		cs = append(cs, iterator.Value(it))
	}
	ih := management.GetContractHashes()
	hs := []any{}
	for iterator.Next(ih) {
		hs = append(hs, iterator.Value(ih))
	}
	it2 := neo.GetAllCandidates()
	cs2 := []any{}
	for iterator.Next(it2) {
		cs2 = append(cs2, iterator.Value(it2))
	}
	r := []any{cs, hs, cs2}
	storage.Put(storage.GetContext(), []byte{0xED}, std.Serialize(r))
	return r
}
func PeekNatives() []any {
	it := neo.GetAllCandidates()
	cs := []any{}
	for iterator.Next(it) {
		cs = append(cs, iterator.Value(it))
	}
	ih := management.GetContractHashes()
	hs := []any{}
	for iterator.Next(ih) {
		hs = append(hs, iterator.Value(ih))
	}
	return []any{cs, hs}
}
// CallPut / CallTake: cross-contract calls the caller's manifest must permit (unless the callee declares the method safe)
func CallPut(h interop.Hash160, k, v []byte) { contract.Call(h, "put", contract.All, k, v) }
func CallTake(h interop.Hash160, x any) int { return contract.Call(h, "take", contract.All, x).(int) }
// Witnessed: CheckWitness as THIS contract sees it (a signer with a group scope is a witness here iff the manifest of
// this contract lists one of the groups); the answer is stored
func Witnessed(acc interop.Hash160) bool {
	ok := runtime.CheckWitness(acc)
	v := 0
	if ok {
		v = 1
	}
	storage.Put(storage.GetContext(), []byte{0xEC}, v)
	return ok
}
func Take(x any) int { return VERSION }
func Relay(h interop.Hash160, x any) int { return contract.Call(h, "take", contract.ReadOnly, x).(int) }
func Update(nef, manif []byte) { management.Update(nef, manif) }
func Destroy() { management.Destroy() }
`

type c01Compiled struct{ v1, v2 *neotest.Contract }

var c01Contracts = map[util.Uint160]*c01Compiled{}

var c01Base *c01Compiled // compiled once; the hash of a deployment depends on the sender only

func c01Compile(t *c05TB, sender util.Uint160) (*c01Compiled, error) {
	if c, ok := c01Contracts[sender]; ok {
		return c, nil
	}
	if c01Base == nil {
		var out c01Compiled
		err := c05Try(func() {
			mk := func(ver string) *neotest.Contract {
				src := strings.ReplaceAll(c01SrcStore, "VERSION", ver)
				ev := func(name string) compiler.HybridEvent {
					return compiler.HybridEvent{Name: name, Parameters: []compiler.HybridParameter{
						{Parameter: manifest.NewParameter("seed", smartcontract.IntegerType)},
						{Parameter: manifest.NewParameter("n", smartcontract.IntegerType)}}}
				}
				perm := manifest.NewPermission(manifest.PermissionWildcard)
				return neotest.CompileSource(t, sender, strings.NewReader(src), &compiler.Options{
					Name: "verif-store", NoPermissionsCheck: true,
					ContractEvents: []compiler.HybridEvent{ev("Filled"), ev("Swept")},
					Permissions:    []manifest.Permission{*perm},
				})
			}
			c05InHarnessDir(func() { out.v1, out.v2 = mk("1"), mk("2") })
		})
		if err != nil {
			return nil, err
		}
		c01Base = &out
	}
	v1, v2 := *c01Base.v1, *c01Base.v2
	v1.Hash = state.CreateContractHash(sender, v1.NEF.Checksum, v1.Manifest.Name)
	v2.Hash = v1.Hash
	c01Contracts[sender] = &c01Compiled{&v1, &v2}
	return c01Contracts[sender], nil
}

// c01RegisterContracts gives the storage contract of every signing account a its fixed index 100 + a.
func c01RegisterContracts(t *c05TB, u *c05Universe) error {
	for a := 1; a <= 14; a++ {
		cc, err := c01Compile(t, u.hashes[a])
		if err != nil {
			return err
		}
		u.mu.Lock()
		u.idx[cc.v1.Hash] = 100 + a
		u.mu.Unlock()
	}
	return nil
}

// c01BuildTx: the operations C01 adds to the C05 mix.  To = the account that deployed the contract addressed.
func (c *c05Chain) c01BuildTx(op c05Op) (*transaction.Transaction, error) {
	u := c.u
	target := func() (util.Uint160, *c01Compiled, error) {
		if op.To < 0 || op.To >= len(u.signers) || u.signers[op.To] == nil {
			return util.Uint160{}, nil, fmt.Errorf("no contract of account %d", op.To)
		}
		cc, err := c01Compile(c.t, u.hashes[op.To])
		if err != nil {
			return util.Uint160{}, nil, err
		}
		return cc.v1.Hash, cc, nil
	}
	kb := func(seed, n int) []byte { return []byte{byte(seed), byte(n), 0} }
	switch op.T {
	case "deploy":
		cc, err := c01Compile(c.t, u.hashes[op.F])
		if err != nil {
			return nil, err
		}
		var mb []byte
		if err := c05Try(func() { mb, _ = json.Marshal(c01ShapeManifest(c.t, u, op.F, op.K, false)) }); err != nil {
			return nil, err
		}
		nb, _ := cc.v1.NEF.Bytes()
		return c.mkTx(c.mgmtH, "deploy", []any{nb, mb, nil}, 20_0000_0000, nil, op.F)
	case "cupdate":
		h, cc, err := target()
		if err != nil {
			return nil, err
		}
		var mb []byte
		if err := c05Try(func() { mb, _ = json.Marshal(c01ShapeManifest(c.t, u, op.To, op.K, true)) }); err != nil {
			return nil, err
		}
		nb, _ := cc.v2.NEF.Bytes()
		return c.mkTx(h, "update", []any{nb, mb}, 20_0000_0000, nil, op.F)
	case "cdestroy":
		h, _, err := target()
		if err != nil {
			return nil, err
		}
		return c.mkTx(h, "destroy", []any{}, c05FeeSimple, nil, op.F)
	case "cput":
		h, _, err := target()
		if err != nil {
			return nil, err
		}
		v := make([]byte, 1+op.A%200)
		for i := range v {
			v[i] = byte(op.N + i)
		}
		return c.mkTx(h, "put", []any{kb(op.N, op.K), v}, c05FeeSimple, nil, op.F)
	case "cdel":
		h, _, err := target()
		if err != nil {
			return nil, err
		}
		return c.mkTx(h, "del", []any{kb(op.N, op.K)}, c05FeeSimple, nil, op.F)
	case "cfill":
		h, _, err := target()
		if err != nil {
			return nil, err
		}
		return c.mkTx(h, "fill", []any{int64(op.N), op.A}, 30_0000_0000, nil, op.F)
	case "cfillfail":
		h, _, err := target()
		if err != nil {
			return nil, err
		}
		return c.mkTx(h, "fillFail", []any{int64(op.N), op.A}, 30_0000_0000, nil, op.F)
	case "csweep":
		h, _, err := target()
		if err != nil {
			return nil, err
		}
		return c.mkTx(h, "sweep", []any{int64(op.N)}, 30_0000_0000, nil, op.F)
	case "ccall": // the contract of To calls the contract of W: N = 0 relay -> take (read-only), 1 callTake, 2 callPut
		h, _, err := target()
		if err != nil {
			return nil, err
		}
		if op.W < 1 || op.W > 14 {
			return nil, fmt.Errorf("no callee contract %d", op.W)
		}
		var h2 util.Uint160
		if err := c05Try(func() { h2 = c01ContractHash(c.t, u, op.W) }); err != nil {
			return nil, err
		}
		switch op.N % 3 {
		case 0:
			return c.mkTx(h, "relay", []any{h2, op.A}, c05FeeSimple, nil, op.F)
		case 1:
			return c.mkTx(h, "callTake", []any{h2, op.A}, c05FeeSimple, nil, op.F)
		default:
			return c.mkTx(h, "callPut", []any{h2, kb(7, op.K), []byte{byte(op.A), 1}}, c05FeeSimple, nil, op.F)
		}
	case "cgrp": // witnessed(F) of the contract of To, the signer F carrying the scope CustomGroups{key K}
		h, _, err := target()
		if err != nil {
			return nil, err
		}
		return c.mkTxGroupScoped(h, "witnessed", []any{u.hashes[op.F]}, c05FeeSimple, op.F, ((op.K%len(u.keys))+len(u.keys))%len(u.keys))
	case "cfills": // serialised values under prefix N (4 or 5)
		h, _, err := target()
		if err != nil {
			return nil, err
		}
		return c.mkTx(h, "fillS", []any{int64(op.N), op.A}, 30_0000_0000, nil, op.F)
	case "citer": // iterator values held across Next: K = Find options, N = prefix; A = 0 keep, 1 keepTwice (other prefix W), 2 natives
		h, _, err := target()
		if err != nil {
			return nil, err
		}
		switch op.A {
		case 0:
			return c.mkTx(h, "keep", []any{int64(op.N), int64(op.K)}, 30_0000_0000, nil, op.F)
		case 1:
			return c.mkTx(h, "keepTwice", []any{int64(op.N), int64(op.W), int64(op.K)}, 30_0000_0000, nil, op.F)
		default:
			return c.mkTx(h, "natives", []any{}, 30_0000_0000, nil, op.F)
		}
	case "role":
		role, kids := c01RoleArgs(u, op)
		var ks []any
		for _, k := range kids {
			ks = append(ks, u.keys[k].Bytes())
		}
		return c.mkTx(c.desH, "designateAsRole", []any{int64(role), ks}, c05FeeSimple, nil, c05AValidators, c05ACommittee)
	case "wl": // Policy.setWhitelistFeeContract(contract of To, "put", 2, fee A) (Faun)
		h, _, err := target()
		if err != nil {
			return nil, err
		}
		return c.mkTx(c.polH, "setWhitelistFeeContract", []any{h, "put", int64(2), op.A}, c05FeeSimple, nil, c05AValidators, c05ACommittee)
	case "wlrm":
		h, _, err := target()
		if err != nil {
			return nil, err
		}
		return c.mkTx(c.polH, "removeWhitelistFeeContract", []any{h, "put", int64(2)}, c05FeeSimple, nil, c05AValidators, c05ACommittee)
	case "xarg": // a call whose argument is unusual but legal for the VM (variant N), directly (K=0) or relayed by the contract (K=1)
		h, _, err := target()
		if err != nil {
			return nil, err
		}
		return c.mkTx(util.Uint160{}, "", nil, 40_0000_0000, c.c01ArgScript(h, op.N, int(op.A), op.K != 0), op.F)
	case "setvub":
		return c.mkTx(c.polH, "setMaxValidUntilBlockIncrement", []any{op.A}, c05FeeSimple, nil, c05AValidators, c05ACommittee)
	case "setms":
		return c.mkTx(c.polH, "setMillisecondsPerBlock", []any{op.A}, c05FeeSimple, nil, c05AValidators, c05ACommittee)
	}
	return nil, nil
}

var c01Roles = []noderoles.Role{noderoles.StateValidator, noderoles.Oracle, noderoles.P2PNotary, noderoles.NeoFSAlphabet}

// c01RoleArgs: role number and key ids of a "role" operation (A selects the role, K the first key, N%3+1 keys).
func c01RoleArgs(u *c05Universe, op c05Op) (int, []int) {
	var ks []int
	for i := 0; i <= op.N%3; i++ {
		ks = append(ks, (op.K+i)%len(u.keys))
	}
	return int(c01Roles[int(op.A)%len(c01Roles)]), ks
}

// c01ArgScript: build one unusual argument x on the stack, then System.Contract.Call h.take(x) — or
// h.relay(h, x), which passes x on through another System.Contract.Call — and drop the result.
//
//	0 iterator from NeoToken.getAllCandidates   1 iterator from Management.getContractHashes   2 Pointer
//	3 array containing itself   4 map containing itself   5 array nested `size` deep (default 150)
//	6 Buffer of stackitem.MaxSize - size bytes (its serialisation is just under / over MaxSize)   7 small Buffer
//	8 struct holding an iterator, a pointer and a self-referencing array
func (c *c05Chain) c01ArgScript(h util.Uint160, variant, size int, relay bool) []byte {
	w := io.NewBufBinWriter()
	b := w.BinWriter
	selfArr := func() { emit.Opcodes(b, opcode.NEWARRAY0, opcode.DUP, opcode.DUP, opcode.APPEND) }
	switch variant % 9 {
	case 0:
		emit.AppCall(b, c.neoH, "getAllCandidates", callflag.ReadOnly)
	case 1:
		emit.AppCall(b, c.mgmtH, "getContractHashes", callflag.ReadOnly)
	case 2:
		emit.Instruction(b, opcode.PUSHA, []byte{0, 0, 0, 0})
	case 3:
		selfArr()
	case 4:
		emit.Opcodes(b, opcode.NEWMAP, opcode.DUP, opcode.PUSH1, opcode.OVER, opcode.SETITEM)
	case 5:
		d := size
		if d <= 0 || d > 400 {
			d = 150
		}
		emit.Opcodes(b, opcode.NEWARRAY0)
		for i := 0; i < d; i++ {
			emit.Opcodes(b, opcode.PUSH1, opcode.PACK)
		}
	case 6:
		n := stackitem.MaxSize - size
		if n < 1 || n > stackitem.MaxSize {
			n = stackitem.MaxSize
		}
		emit.Int(b, int64(n))
		emit.Opcodes(b, opcode.NEWBUFFER)
	case 7:
		emit.Opcodes(b, opcode.PUSH8, opcode.NEWBUFFER)
	case 8:
		emit.AppCall(b, c.neoH, "getAllCandidates", callflag.ReadOnly)
		emit.Instruction(b, opcode.PUSHA, []byte{0, 0, 0, 0})
		selfArr()
		emit.Opcodes(b, opcode.PUSH3, opcode.PACKSTRUCT)
	}
	if relay {
		emit.Bytes(b, h.BytesBE())
		emit.Opcodes(b, opcode.PUSH2, opcode.PACK)
		emit.AppCallNoArgs(b, h, "relay", callflag.All)
	} else {
		emit.Opcodes(b, opcode.PUSH1, opcode.PACK)
		emit.AppCallNoArgs(b, h, "take", callflag.All)
	}
	emit.Opcodes(b, opcode.DROP)
	return w.Bytes()
}

// ---------- node-local options, enumerated from the configuration types ----------

// c01ProtocolParams: the fields of config.Blockchain (incl. the embedded ProtocolConfiguration / Ledger) that are
// parameters of the PROTOCOL or of the database format and therefore must be EQUAL on all replicas of one chain.
var c01ProtocolParams = map[string]string{
	"Magic": "network id", "InitialGASSupply": "genesis", "MaxBlockSize": "block validity", "MaxBlockSystemFee": "block validity",
	"MaxTraceableBlocks": "contract-visible ledger window", "MaxTransactionsPerBlock": "block validity",
	"MaxValidUntilBlockIncrement": "transaction validity", "P2PSigExtensions": "native Notary / attributes",
	"P2PStateExchangeExtensions": "state sync protocol", "NeoFSStateSyncExtensions": "state sync protocol",
	"ReservedAttributes": "transaction validity", "StateRootInHeader": "block format", "StateSyncInterval": "state sync protocol",
	"TimePerBlock": "genesis / Policy", "MaxTimePerBlock": "consensus timing", "ValidatorsCount": "governance",
}

// c01NotToggled: node-local fields the differential does not vary, with the reason.
var c01NotToggled = map[string]string{
	"KeepOnlyLatestState": "varied by the base replicas", "RemoveUntraceableBlocks": "varied by the base replicas",
	"OIDBatchSize": "NeoFS fetcher (needs a NeoFS network)", "DownloaderWorkersCount": "NeoFS fetcher", "BQueueSize": "NeoFS fetcher",
	"Enabled": "NeoFS fetcher", "SkipIndexFilesSearch": "NeoFS fetcher", "IndexFileSize": "NeoFS fetcher", "KeySizeThreshold": "NeoFS fetcher",
	"Index": "TrustedHeader (state sync start point)",
}

type c01Option struct {
	Name string
	Alt  int64 // the value the toggling replica uses (bool: 1 = the opposite of the source's false)
}

// c01NodeLocalOptions reflects over config.Blockchain and returns every bool / integer field that is neither a
// protocol parameter nor excluded: each is toggled singly on one replica and in random combinations on others.
func c01NodeLocalOptions() (opts []c01Option, skipped []string) {
	alt := map[string]int64{"GarbageCollectionPeriod": 3, "MemPoolSize": 9, "P2PNotaryRequestPayloadPoolSize": 3}
	seen := map[string]bool{}
	var walk func(t reflect.Type)
	walk = func(t reflect.Type) {
		for i := 0; i < t.NumField(); i++ {
			f := t.Field(i)
			switch f.Type.Kind() {
			case reflect.Struct:
				walk(f.Type)
			case reflect.Bool, reflect.Int, reflect.Int32, reflect.Int64, reflect.Uint16, reflect.Uint32, reflect.Uint64:
				if seen[f.Name] {
					continue
				}
				seen[f.Name] = true
				if _, ok := c01ProtocolParams[f.Name]; ok {
					continue
				}
				if why, ok := c01NotToggled[f.Name]; ok {
					skipped = append(skipped, f.Name+": "+why)
					continue
				}
				a, ok := alt[f.Name]
				if !ok {
					if f.Type.Kind() != reflect.Bool {
						a = 5 // an integer option this harness has never seen: a small value
					} else {
						a = 1
					}
				}
				opts = append(opts, c01Option{f.Name, a})
			}
		}
	}
	walk(reflect.TypeOf(config.Blockchain{}))
	sort.Slice(opts, func(i, j int) bool { return opts[i].Name < opts[j].Name })
	sort.Strings(skipped)
	return
}

// c01ApplyOptions sets the named fields (bool: value != 0 means "the opposite of what the hook left").
func c01ApplyOptions(c *config.Blockchain, opts map[string]int64) {
	v := reflect.ValueOf(c).Elem()
	for name, val := range opts {
		f := v.FieldByName(name)
		if !f.IsValid() || !f.CanSet() {
			continue
		}
		switch f.Kind() {
		case reflect.Bool:
			if val != 0 {
				f.SetBool(!f.Bool())
			}
		case reflect.Int, reflect.Int32, reflect.Int64:
			f.SetInt(val)
		case reflect.Uint16, reflect.Uint32, reflect.Uint64:
			f.SetUint(uint64(val))
		}
	}
}

// ---------- observation of a node at its tip ----------

type c01Obs struct {
	Height    uint32  `json:"height"`
	Root      string  `json:"root"`
	Storage   string  `json:"storage"` // sha256 over the sorted (contract id, key, value) list of all contracts
	NItems    int     `json:"nitems"`
	AERs      string  `json:"aers"` // sha256 over the JSON of every execution result of the block
	Committee []int   `json:"committee"`
	NextVals  []int   `json:"next_validators"`
	NewEpoch  []int   `json:"compute_next_validators"`
	Policy    []int64 `json:"policy"` // feePerByte, baseExecFee, storagePrice, maxTraceable, maxVUBInc, msPerBlock
	Blocked   []int   `json:"blocked"`
	// digests of read-only contract method answers (served from the native caches), by group
	QPolicy     string            `json:"q_policy"`    // Policy.isBlocked of every universe account, fee getters
	QNeo        string            `json:"q_neo"`       // NEO getCommittee, getNextBlockValidators, getCandidates, getGasPerBlock, getRegisterPrice, getCandidateVote
	QUnclaimed  string            `json:"q_unclaimed"` // NEO.unclaimedGas of every universe account (reads the gas-per-vote cache)
	QAccounts   string            `json:"q_accounts"`  // NEO.getAccountState of every universe account
	QNotary     string            `json:"q_notary"`    // Notary balanceOf / expirationOf / getMaxNotValidBeforeDelta
	QWhitelist  string            `json:"q_whitelist"` // Policy.getWhitelistFeeContracts (Faun): the cached whitelist with its fees
	GasPerBlock int64             `json:"-"`           // NEO.getGasPerBlock / getRegisterPrice as answered (for the model; digested in q_neo)
	RegPrice    int64             `json:"-"`
	Whitelist   []int64           `json:"-"`           // (contract account, fee) pairs of the cached whitelist, for the model
	QContracts  string            `json:"q_contracts"` // Management.getContract of the storage contract of every signing account
	QRoles      string            `json:"q_roles"`     // RoleManagement.getDesignatedByRole of every role at the tip and at historic heights
	QIter       string            `json:"q_iter"`      // peek(prefix, options) of the storage contracts: Find iterators whose values are kept across Next
	RoleQ       []c01RoleQ        `json:"-"`
	ContractQ   []c01ContractQ    `json:"-"` // Management.getContract of the storage contract of every account
	Enroll      string            `json:"enrollments"`
	Natives     string            `json:"natives"`
	Contracts   string            `json:"contracts"`
	Roles       string            `json:"roles"`
	Err         []string          `json:"err,omitempty"`
	items       map[string][]byte // full contract storage ("id:keyhex" -> value), for the diagnosis of a divergence
}

type c01RoleQ struct {
	Role, Index int
	Keys        []int
}
type c01ContractQ struct {
	A, ID, Counter int
	Shape          string // Coq term of the permissions / groups / safe methods of the served manifest
}

func c01Hash(parts ...[]byte) string {
	h := sha256.New()
	for _, p := range parts {
		var l [4]byte
		l[0], l[1], l[2], l[3] = byte(len(p)>>24), byte(len(p)>>16), byte(len(p)>>8), byte(len(p))
		h.Write(l[:])
		h.Write(p)
	}
	return hex.EncodeToString(h.Sum(nil))[:24]
}

func c01Observe(bc *core.Blockchain, u *c05Universe, b *block.Block) *c01Obs {
	o := &c01Obs{Height: bc.BlockHeight()}
	bad := func(f string, a ...any) { o.Err = append(o.Err, fmt.Sprintf(f, a...)) }
	if sr, err := bc.GetStateRoot(o.Height); err != nil {
		bad("GetStateRoot(%d): %v", o.Height, err)
	} else {
		o.Root = sr.Root.StringLE()
	}
	// full contract storage
	type kv struct {
		id   int32
		k, v []byte
	}
	var items []kv
	for id := int32(-12); id <= 24; id++ {
		if id == 0 {
			continue
		}
		bc.SeekStorage(id, nil, func(k, v []byte) bool {
			items = append(items, kv{id, append([]byte{}, k...), append([]byte{}, v...)})
			return true
		})
	}
	sort.Slice(items, func(i, j int) bool {
		if items[i].id != items[j].id {
			return items[i].id < items[j].id
		}
		return string(items[i].k) < string(items[j].k)
	})
	hs := sha256.New()
	o.items = make(map[string][]byte, len(items))
	for _, it := range items {
		fmt.Fprintf(hs, "%d:%x=%x;", it.id, it.k, it.v)
		o.items[fmt.Sprintf("%d:%x", it.id, it.k)] = it.v
	}
	o.Storage = hex.EncodeToString(hs.Sum(nil))[:24]
	o.NItems = len(items)
	// execution results
	var parts [][]byte
	addAER := func(h util.Uint256) {
		aers, err := bc.GetAppExecResults(h, trigger.All)
		if err != nil {
			bad("GetAppExecResults(%s): %v", h.StringLE(), err)
			return
		}
		for i := range aers {
			aers[i].Invocations = nil // node-local option SaveInvocations
			j, err := json.Marshal(&aers[i])
			if err != nil {
				bad("marshal result: %v", err)
			}
			parts = append(parts, j)
		}
	}
	if b != nil {
		addAER(b.Hash())
		for _, tx := range b.Transactions {
			addAER(tx.Hash())
		}
	}
	o.AERs = c01Hash(parts...)
	if cm, err := bc.GetCommittee(); err != nil {
		bad("GetCommittee: %v", err)
	} else {
		for _, k := range cm {
			o.Committee = append(o.Committee, u.key(k.Bytes()))
		}
	}
	if nv, err := bc.GetNextBlockValidators(); err != nil {
		bad("GetNextBlockValidators: %v", err)
	} else {
		for _, k := range nv {
			o.NextVals = append(o.NextVals, u.key(k.Bytes()))
		}
	}
	for _, k := range bc.ComputeNextBlockValidators() {
		o.NewEpoch = append(o.NewEpoch, u.key(k.Bytes()))
	}
	o.Policy = []int64{bc.FeePerByte(), bc.GetBaseExecFee(), bc.GetStoragePrice(), int64(bc.GetMaxTraceableBlocks()),
		int64(bc.GetMaxValidUntilBlockIncrement()), int64(bc.GetMillisecondsPerBlock())}
	c01Queries(bc, u, o, bad)
	c01IterQueries(bc, u, o, bad)
	if en, err := bc.GetEnrollments(); err != nil {
		bad("GetEnrollments: %v", err)
	} else {
		var sb strings.Builder
		for _, v := range en {
			fmt.Fprintf(&sb, "%d:%s;", u.key(v.Key.Bytes()), v.Votes)
		}
		o.Enroll = sb.String()
	}
	var nparts [][]byte
	for _, ncs := range bc.GetNatives() {
		it, err := ncs.ToStackItem()
		if err != nil {
			bad("native %d: %v", ncs.ID, err)
			continue
		}
		j, _ := stackitem.Serialize(it)
		nparts = append(nparts, j)
	}
	o.Natives = c01Hash(nparts...)
	var cparts [][]byte
	for id := int32(1); id <= 24; id++ {
		h, err := bc.GetContractScriptHash(id)
		if err != nil {
			continue
		}
		cs := bc.GetContractState(h)
		if cs == nil {
			cparts = append(cparts, []byte(fmt.Sprintf("%d:nil", id)))
			continue
		}
		// compared through the canonical stack-item serialisation (the one contracts and the trie see); the JSON
		// rendering differs between a freshly deployed and a reloaded manifest in nil-vs-empty slices only
		// ("permissions":null vs []), which is outside the property's statement
		it, err := cs.ToStackItem()
		if err != nil {
			bad("contract %d: %v", id, err)
			continue
		}
		j, err := stackitem.Serialize(it)
		if err != nil {
			bad("contract %d: %v", id, err)
		}
		cparts = append(cparts, j)
	}
	o.Contracts = c01Hash(cparts...)
	var rs strings.Builder
	for _, r := range []noderoles.Role{noderoles.StateValidator, noderoles.Oracle, noderoles.P2PNotary, noderoles.NeoFSAlphabet} {
		ks, h, err := bc.GetDesignatedByRole(r)
		if err != nil {
			bad("GetDesignatedByRole(%v): %v", r, err)
			continue
		}
		fmt.Fprintf(&rs, "%d@%d:", r, h)
		for _, k := range ks {
			fmt.Fprintf(&rs, "%d,", u.key(k.Bytes()))
		}
		rs.WriteByte(';')
	}
	o.Roles = rs.String()
	return o
}

// c01Queries runs read-only contract methods (they answer from the native caches) in one test invocation at the
// tip and stores digests of the resulting stack by group, plus the decoded answers the model is compared with.
func c01Queries(bc *core.Blockchain, u *c05Universe, o *c01Obs, bad func(string, ...any)) {
	neoH, _ := bc.GetNativeContractScriptHash(nativenames.Neo)
	polH, _ := bc.GetNativeContractScriptHash(nativenames.Policy)
	notH, _ := bc.GetNativeContractScriptHash(nativenames.Notary)
	desH, _ := bc.GetNativeContractScriptHash(nativenames.Designation)
	mgmH, _ := bc.GetNativeContractScriptHash(nativenames.Management)
	w := io.NewBufBinWriter()
	const (
		gPolicy, gNeo, gUnclaimed, gAccounts, gNotary, gWhitelist, gRoles, gContracts = 0, 1, 2, 3, 4, 5, 6, 7
	)
	type qcall struct {
		group  int
		handle func(stackitem.Item)
		script []byte
	}
	var calls []qcall
	call := func(g int, handle func(stackitem.Item), h util.Uint160, m string, args ...any) {
		cw := io.NewBufBinWriter()
		emit.AppCall(cw.BinWriter, h, m, callflag.ReadOnly, args...)
		calls = append(calls, qcall{g, handle, cw.Bytes()})
	}
	_ = w
	contracts := map[int]util.Uint160{}
	u.mu.Lock()
	for h, i := range u.idx {
		if i > 100 && i <= 114 {
			contracts[i] = h
		}
	}
	u.mu.Unlock()
	blockedQ := func(idx int) func(stackitem.Item) {
		return func(it stackitem.Item) {
			if b, err := it.TryBool(); err == nil && b {
				o.Blocked = append(o.Blocked, idx)
			}
		}
	}
	for i := 0; i < c05AFixed; i++ {
		call(gPolicy, blockedQ(i), polH, "isBlocked", u.hashes[i])
	}
	for a := 1; a <= 14; a++ {
		call(gPolicy, blockedQ(100+a), polH, "isBlocked", contracts[100+a])
	}
	call(gPolicy, nil, polH, "getFeePerByte")
	call(gPolicy, nil, polH, "getExecFeeFactor")
	call(gPolicy, nil, polH, "getStoragePrice")
	for _, a := range []int64{1, 0x11, 0x20, 0x21, 0x22} {
		call(gPolicy, nil, polH, "getAttributeFee", a)
	}
	call(gNeo, nil, neoH, "getCommittee")
	call(gNeo, nil, neoH, "getNextBlockValidators")
	call(gNeo, nil, neoH, "getCandidates")
	call(gNeo, func(it stackitem.Item) {
		if v, err := it.TryInteger(); err == nil {
			o.GasPerBlock = v.Int64()
		}
	}, neoH, "getGasPerBlock")
	call(gNeo, func(it stackitem.Item) {
		if v, err := it.TryInteger(); err == nil {
			o.RegPrice = v.Int64()
		}
	}, neoH, "getRegisterPrice")
	for _, k := range u.keys {
		call(gNeo, nil, neoH, "getCandidateVote", k.Bytes())
	}
	for i := 0; i < c05AFixed; i++ {
		call(gUnclaimed, nil, neoH, "unclaimedGas", u.hashes[i], int64(bc.BlockHeight()+1))
		call(gAccounts, nil, neoH, "getAccountState", u.hashes[i])
		call(gNotary, nil, notH, "balanceOf", u.hashes[i])
		call(gNotary, nil, notH, "expirationOf", u.hashes[i])
	}
	call(gNotary, nil, notH, "getMaxNotValidBeforeDelta")
	// designated nodes of every role at the tip (+1: effective from the next block) and at historic heights
	h := int(bc.BlockHeight())
	seenIdx := map[int]bool{}
	for _, idx := range []int{h + 1, h, h - 1, h - 3, h - 7, 1} {
		if idx < 0 || seenIdx[idx] {
			continue
		}
		seenIdx[idx] = true
		for _, r := range c01Roles {
			role, index := int(r), idx
			call(gRoles, func(it stackitem.Item) {
				q := c01RoleQ{Role: role, Index: index}
				if arr, ok := it.Value().([]stackitem.Item); ok {
					for _, x := range arr {
						kb, _ := x.TryBytes()
						q.Keys = append(q.Keys, u.key(kb))
					}
				}
				o.RoleQ = append(o.RoleQ, q)
			}, desH, "getDesignatedByRole", int64(role), int64(index))
		}
	}
	for a := 1; a <= 14; a++ {
		acct := a
		call(gContracts, func(it stackitem.Item) {
			if f, ok := it.Value().([]stackitem.Item); ok && len(f) >= 2 {
				id, _ := f[0].TryInteger()
				cnt, _ := f[1].TryInteger()
				if id != nil && cnt != nil {
					q := c01ContractQ{A: acct, ID: int(id.Int64()), Counter: int(cnt.Int64())}
					if len(f) >= 5 {
						m, complaint := c01ServedManifest(&c05TB{}, u, acct, q.Counter, f[4])
						if complaint != "" {
							bad("%s", complaint)
						}
						if m != nil {
							q.Shape = c01ShapeTerm(u, m)
						}
					}
					o.ContractQ = append(o.ContractQ, q)
				}
			}
		}, mgmH, "getContract", contracts[100+a])
	}
	faun, hasFaun := bc.GetConfig().Hardforks[config.HFFaun.String()]
	if hasFaun && faun <= bc.BlockHeight()+1 {
		call(gWhitelist, func(it stackitem.Item) { // drain the iterator over the cached whitelist
			iter, ok := it.Value().(interface {
				Next() bool
				Value() stackitem.Item
			})
			if !ok {
				return
			}
			for iter.Next() {
				v := iter.Value()
				if f, ok := v.Value().([]stackitem.Item); ok && len(f) == 4 {
					hb, _ := f[0].TryBytes()
					hh, _ := util.Uint160DecodeBytesBE(hb)
					fee, _ := f[3].TryInteger()
					if fee != nil {
						o.Whitelist = append(o.Whitelist, int64(c01DeployerOf(u, hh)), fee.Int64())
					}
				}
			}
		}, polH, "getWhitelistFeeContracts")
	}
	// The VM counts at most 2048 stack items per execution, every element of every answer left on the stack included.
	// The calls are therefore spread over several invocations: two getContract calls (a manifest is a few hundred items) or
	// up to 32 of the small answers per invocation; what one invocation left on the stack is counted afterwards and has to
	// stay below half the limit -- a harness error (panic) long before the VM could refuse a script of the harness.
	var items []stackitem.Item
	var countItems func(it stackitem.Item, depth int) int
	countItems = func(it stackitem.Item, depth int) int {
		n := 1
		if depth > 12 {
			return n
		}
		switch v := it.Value().(type) {
		case []stackitem.Item:
			for _, x := range v {
				n += countItems(x, depth+1)
			}
		case []stackitem.MapElement:
			for _, x := range v {
				n += countItems(x.Key, depth+1) + countItems(x.Value, depth+1)
			}
		}
		return n
	}
	for lo := 0; lo < len(calls); {
		hi, lim := lo, 32
		for hi < len(calls) && hi-lo < lim {
			if calls[hi].group == gContracts || calls[hi].group == gWhitelist {
				if hi > lo && calls[lo].group != calls[hi].group {
					break
				}
				lim = 2
			} else if hi > lo && (calls[lo].group == gContracts || calls[lo].group == gWhitelist) {
				break
			}
			hi++
		}
		sw := io.NewBufBinWriter()
		for _, cl := range calls[lo:hi] {
			sw.WriteBytes(cl.script)
		}
		ic, err := bc.GetTestVM(trigger.Application, nil, nil)
		if err != nil {
			bad("GetTestVM: %v", err)
			return
		}
		ic.VM.LoadScriptWithFlags(sw.Bytes(), callflag.ReadOnly)
		ic.VM.SetGasLimit(1000_0000_0000)
		if err := ic.VM.Run(); err != nil {
			ic.Finalize()
			bad("read-only queries faulted: %v", err)
			return
		}
		got := ic.VM.Estack().ToArray()
		if len(got) != hi-lo {
			ic.Finalize()
			bad("read-only queries: %d answers for %d calls", len(got), hi-lo)
			return
		}
		total := 0
		for i, it := range got {
			total += countItems(it, 0)
			// iterators are drained while their invocation is alive
			if calls[lo+i].group == gWhitelist && calls[lo+i].handle != nil {
				calls[lo+i].handle(it)
			}
		}
		ic.Finalize()
		if total > 1024 {
			panic(fmt.Sprintf("c01Queries: one invocation left %d stack items (calls %d..%d)", total, lo, hi))
		}
		items = append(items, got...)
		lo = hi
	}
	parts := make([][][]byte, 8)
	for i, it := range items {
		if calls[i].group == gWhitelist {
			continue
		}
		if calls[i].handle != nil {
			calls[i].handle(it)
		}
		j, err := stackitem.ToJSONWithTypes(it)
		if err != nil {
			j = []byte(err.Error())
		}
		parts[calls[i].group] = append(parts[calls[i].group], j)
	}
	wl, _ := json.Marshal(o.Whitelist)
	o.QPolicy, o.QNeo, o.QUnclaimed, o.QAccounts, o.QNotary = c01Hash(parts[0]...), c01Hash(parts[1]...), c01Hash(parts[2]...), c01Hash(parts[3]...), c01Hash(parts[4]...)
	o.QWhitelist = c01Hash(wl)
	o.QRoles = c01Hash(parts[gRoles]...)
	o.QContracts = c01Hash(parts[gContracts]...)
}

// c01FindOpts: every legal combination class of System.Storage.Find options the histories and the direct check use
// (1 KeysOnly, 2 RemovePrefix, 4 ValuesOnly, 8 DeserializeValues, 16 PickField0, 32 PickField1, 128 Backwards);
// the second list needs serialised values (prefixes 4 and 5, written by fillS).
var c01FindOpts = []int{0, 1, 2, 3, 4, 128, 129, 130, 131, 132}
var c01FindOptsDeser = []int{8, 10, 12, 24, 28, 40, 44, 136, 140, 156, 172}

// c01IterExpected: what an iterator made by Find(prefix, opts) must hand out, computed from a plain Seek dump
// (pairs of full key and value, ascending) the way interop/storage.Iterator.Value does.
func c01IterExpected(pairs [][2][]byte, opts int) (res [][]byte, err error) {
	if opts&128 != 0 {
		rev := make([][2][]byte, len(pairs))
		for i := range pairs {
			rev[len(pairs)-1-i] = pairs[i]
		}
		pairs = rev
	}
	for _, kv := range pairs {
		key := kv[0]
		if opts&2 != 0 {
			key = key[1:]
		}
		var it stackitem.Item
		if opts&1 != 0 {
			it = stackitem.NewByteArray(key)
		} else {
			value := stackitem.Item(stackitem.NewByteArray(kv[1]))
			if opts&8 != 0 {
				if value, err = stackitem.Deserialize(kv[1]); err != nil {
					return nil, err
				}
			}
			if opts&(16|32) != 0 {
				f, ok := value.Value().([]stackitem.Item)
				if !ok || len(f) < 2 {
					return nil, errors.New("not an array")
				}
				if opts&16 != 0 {
					value = f[0]
				} else {
					value = f[1]
				}
			}
			if opts&4 != 0 {
				it = value
			} else {
				it = stackitem.NewStruct([]stackitem.Item{stackitem.NewByteArray(key), value})
			}
		}
		b, e := stackitem.Serialize(it)
		if e != nil {
			return nil, e
		}
		res = append(res, b)
	}
	return res, nil
}

// c01IterQueries: the direct check of the iterator contract on THIS node.  Read-only invocations of peek(prefix, opts)
// of up to four deployed storage contracts -- the method keeps every value the iterator hands out until the iterator is
// exhausted -- must return exactly what a plain SeekStorage dump of the same prefix says (a different number of
// items, an item that changed after the iterator advanced, a wrong order are reported through bad); the answers also
// go into the digest q_iter, compared between the replicas like every other answer.  The option combinations rotate
// with the height so that every node asks the same questions at the same height.
func c01IterQueries(bc *core.Blockchain, u *c05Universe, o *c01Obs, bad func(string, ...any)) {
	contracts := map[int]util.Uint160{}
	u.mu.Lock()
	for h, i := range u.idx {
		if i > 100 && i <= 114 {
			contracts[i-100] = h
		}
	}
	u.mu.Unlock()
	var present []c01ContractQ
	for _, cq := range o.ContractQ {
		if cq.A == 13 || cq.A == 14 {
			present = append(present, cq)
		}
	}
	for _, cq := range o.ContractQ {
		if cq.A != 13 && cq.A != 14 && len(present) < 4 {
			present = append(present, cq)
		}
	}
	if len(present) == 0 {
		o.QIter = c01Hash()
		return
	}
	type q struct {
		cq         c01ContractQ
		seed, opts int
		natives    bool
	}
	// The VM counts at most 2048 stack items per execution (every element of every array an answer holds).  The answers of
	// ONE invocation therefore stay below c01IterBudget by construction: the size of every answer is known beforehand from
	// the plain dump of the prefix (8 references per stored pair cover key + value + struct, or a deserialised value of
	// three fields, and the copy the contract holds while iterating), the queries are spread over as many invocations as
	// needed, and a prefix too big for one invocation alone is not asked (recorded as such in the digest, identically on
	// every node since it depends on the node's own storage only).
	const c01IterBudget = 1400
	var qs []q
	h := int(bc.BlockHeight())
	dumps := map[[2]int][][2][]byte{}
	dumpOf := func(cq c01ContractQ, seed int) [][2][]byte {
		key := [2]int{cq.ID, seed}
		pairs, ok := dumps[key]
		if !ok {
			bc.SeekStorage(int32(cq.ID), []byte{byte(seed)}, func(k, v []byte) bool {
				pairs = append(pairs, [2][]byte{append([]byte{byte(seed)}, k...), bytes.Clone(v)})
				return true
			})
			dumps[key] = pairs
		}
		return pairs
	}
	var items []stackitem.Item
	var skipped [][]byte
	w := io.NewBufBinWriter()
	pending, est := 0, 0
	run := func() bool {
		if pending == 0 {
			return true
		}
		if est > c01IterBudget {
			panic(fmt.Sprintf("c01IterQueries: one invocation would hold about %d stack items", est))
		}
		ic, err := bc.GetTestVM(trigger.Application, nil, nil)
		if err != nil {
			bad("GetTestVM: %v", err)
			return false
		}
		defer ic.Finalize()
		ic.VM.LoadScriptWithFlags(w.Bytes(), callflag.ReadOnly)
		ic.VM.SetGasLimit(1000_0000_0000)
		if err := ic.VM.Run(); err != nil {
			bad("iterator queries faulted: %v", err)
			return false
		}
		got := ic.VM.Estack().ToArray()
		if len(got) != pending {
			bad("iterator queries: %d answers for %d calls", len(got), pending)
			return false
		}
		items = append(items, got...)
		w = io.NewBufBinWriter()
		pending, est = 0, 0
		return true
	}
	for _, cq := range present {
		for seed := 0; seed < 6; seed++ {
			list := c01FindOpts
			if seed >= 4 {
				list = append(append([]int{}, c01FindOpts...), c01FindOptsDeser...)
			}
			cost := 8*len(dumpOf(cq, seed)) + 16
			for j := 0; j < 3; j++ {
				opts := list[(h*3+seed*5+cq.A+j*7)%len(list)]
				if cost > c01IterBudget {
					skipped = append(skipped, []byte(fmt.Sprintf("not asked: contract %d prefix %d holds %d items", cq.A, seed, len(dumpOf(cq, seed)))))
					continue
				}
				if est+cost > c01IterBudget && !run() {
					return
				}
				emit.AppCall(w.BinWriter, contracts[cq.A], "peek", callflag.ReadOnly, int64(seed), int64(opts))
				qs = append(qs, q{cq: cq, seed: seed, opts: opts})
				pending++
				est += cost
			}
		}
	}
	if !run() {
		return
	}
	// the natives' iterators (candidates, contract hashes: a few dozen entries) in an invocation of their own
	emit.AppCall(w.BinWriter, contracts[present[0].A], "peekNatives", callflag.ReadOnly)
	qs = append(qs, q{cq: present[0], natives: true})
	pending, est = 1, 600
	if !run() {
		return
	}
	if len(items) != len(qs) {
		bad("iterator queries: %d answers for %d calls", len(items), len(qs))
		return
	}
	parts := skipped
	for i, it := range items {
		arr, ok := it.Value().([]stackitem.Item)
		if !ok {
			bad("iterator query %d: not an array", i)
			continue
		}
		var got [][]byte
		for _, x := range arr {
			b, err := stackitem.Serialize(x)
			if err != nil {
				b = []byte(err.Error())
			}
			got = append(got, b)
			parts = append(parts, b)
		}
		parts = append(parts, []byte{0xff})
		x := qs[i]
		if x.natives {
			// Management.getContractHashes against the plain dump of its id -> hash records (prefix 12)
			if len(arr) == 2 {
				var want, have []string
				bc.SeekStorage(-1, []byte{12}, func(k, v []byte) bool {
					if len(k) == 4 && int32(binary.BigEndian.Uint32(k)) >= 0 {
						want = append(want, hex.EncodeToString(k)+":"+hex.EncodeToString(v))
					}
					return true
				})
				if hs, ok := arr[1].Value().([]stackitem.Item); ok {
					for _, e := range hs {
						if f, ok := e.Value().([]stackitem.Item); ok && len(f) == 2 {
							kb, _ := f[0].TryBytes()
							vb, _ := f[1].TryBytes()
							have = append(have, hex.EncodeToString(kb)+":"+hex.EncodeToString(vb))
						}
					}
				}
				if strings.Join(want, ",") != strings.Join(have, ",") {
					bad("getContractHashes iterator (values kept across Next) differs from the Seek dump: have %v, want %v", have, want)
				}
			}
			continue
		}
		pairs := dumpOf(x.cq, x.seed)
		want, err := c01IterExpected(pairs, x.opts)
		if err != nil {
			bad("iterator query contract %d prefix %d opts %d: dump not decodable: %v", x.cq.A, x.seed, x.opts, err)
			continue
		}
		same := len(want) == len(got)
		for j := 0; same && j < len(want); j++ {
			same = bytes.Equal(want[j], got[j])
		}
		if !same {
			bad("Find iterator (values kept across Next) differs from the Seek dump: contract %d prefix %d opts %d: %d items vs %d", x.cq.A, x.seed, x.opts, len(got), len(want))
		}
	}
	o.QIter = c01Hash(parts...)
}

// c01DeployerOf: the universe account whose storage contract has the given hash (-1 = none).
func c01DeployerOf(u *c05Universe, h util.Uint160) int {
	u.mu.Lock()
	defer u.mu.Unlock()
	if i, ok := u.idx[h]; ok && i > 100 && i <= 114 {
		return i - 100
	}
	return -1
}

var c01ContractNames = map[string]string{"-1": "Management", "-4": "Ledger", "-5": "NEO", "-6": "GAS", "-7": "Policy", "-8": "Designate", "-9": "Oracle", "-10": "Notary", "-11": "Treasury"}

// c01KeyDiff lists the categories (contract:prefix, with the differing fields for NEO account items) of the storage
// items in which two nodes differ.
func c01KeyDiff(a, b *c01Obs) []string {
	cats := map[string]bool{}
	cat := func(key string, va, vb []byte) string {
		id, kh, _ := strings.Cut(key, ":")
		name := c01ContractNames[id]
		if name == "" {
			name = "contract" + id
		}
		pfx := "?"
		if len(kh) >= 2 {
			if b, err := hex.DecodeString(kh[:2]); err == nil {
				pfx = fmt.Sprint(b[0])
			}
		}
		c := name + ":" + pfx
		if name == "NEO" && pfx == "20" && va != nil && vb != nil {
			x, e1 := state.NEOBalanceFromBytes(va)
			y, e2 := state.NEOBalanceFromBytes(vb)
			if e1 == nil && e2 == nil {
				var f []string
				if x.Balance.Cmp(&y.Balance) != 0 {
					f = append(f, "balance")
				}
				if x.BalanceHeight != y.BalanceHeight {
					f = append(f, "height")
				}
				if (x.VoteTo == nil) != (y.VoteTo == nil) || (x.VoteTo != nil && !x.VoteTo.Equal(y.VoteTo)) {
					f = append(f, "vote")
				}
				if x.LastGasPerVote.Cmp(&y.LastGasPerVote) != 0 {
					f = append(f, "lastGasPerVote")
				}
				c += "[" + strings.Join(f, ",") + "]"
			}
		}
		return c
	}
	for k, va := range a.items {
		if vb, ok := b.items[k]; !ok {
			cats[cat(k, va, nil)+"(missing on replica)"] = true
		} else if string(va) != string(vb) {
			cats[cat(k, va, vb)] = true
		}
	}
	for k, vb := range b.items {
		if _, ok := a.items[k]; !ok {
			cats[cat(k, nil, vb)+"(missing on source)"] = true
		}
	}
	var l []string
	for c := range cats {
		l = append(l, c)
	}
	sort.Strings(l)
	return l
}

// c01Diff names the fields in which two observations differ (fields, "field: source X, replica Y").
func c01Diff(a, b *c01Obs) (fields, detail []string) {
	ja, _ := json.Marshal(a)
	jb, _ := json.Marshal(b)
	if string(ja) == string(jb) {
		return nil, nil
	}
	var ma, mb map[string]any
	json.Unmarshal(ja, &ma)
	json.Unmarshal(jb, &mb)
	for k := range ma {
		x, _ := json.Marshal(ma[k])
		y, _ := json.Marshal(mb[k])
		if string(x) != string(y) {
			fields = append(fields, k)
			detail = append(detail, fmt.Sprintf("%s: source %s, replica %s", k, x, y))
		}
	}
	for k := range mb {
		if _, ok := ma[k]; !ok {
			y, _ := json.Marshal(mb[k])
			fields = append(fields, k)
			detail = append(detail, fmt.Sprintf("%s: source (absent), replica %s", k, y))
		}
	}
	sort.Strings(fields)
	sort.Strings(detail)
	return
}

// c01Divergence describes the first height at which a replica differs from the source node.
type c01Divergence struct {
	Height       int      `json:"height"`
	AfterRestart bool     `json:"after_restart"` // seen right after reopening, before the next block
	Fields       []string `json:"fields"`
	Keys         []string `json:"storage_keys"`
	Detail       []string `json:"detail"`
	Error        string   `json:"error,omitempty"`
	// circumstances (used to tell listed findings from anything else)
	EpochEnd         bool   `json:"at_last_block_of_epoch"`
	RestartedInEpoch bool   `json:"restarted_in_this_epoch"`
	BlocklistChanged bool   `json:"blocklist_changed_in_this_epoch"`
	Rotation         bool   `json:"at_first_block_of_epoch"` // the committee is rotated in this block
	RestartedPrev    bool   `json:"restarted_in_previous_epoch"`
	BlocklistPrev    bool   `json:"blocklist_changed_in_previous_epoch"`
	BlocklistBefore  bool   `json:"blocklist_changed_before"`
	Stale            string `json:"unchanged_next_epoch_validators"` // source | replica | none
	Fault            string `json:"fault_phase,omitempty"`           // seen during / after an injected failing flush (c01fault.go)
	Signature        string `json:"signature"`
}

// ---------- replicas ----------

type c01Replica struct {
	Store    string `json:"store"`              // mem | level | bolt
	Flush    string `json:"flush"`              // never | random | every
	KeepOnly bool   `json:"keep_only_latest"`   // KeepOnlyLatestState
	GC       bool   `json:"remove_untraceable"` // RemoveUntraceableBlocks + GarbageCollectionPeriod 2 (flushes run the collector)
	SkipVer  bool   `json:"skip_block_verification"`
	NoTxVer  bool   `json:"no_tx_verification"` // VerifyTransactions off
	Batch    bool   `json:"save_storage_batch"`
	Junk     bool   `json:"mempool_junk"`
	Restarts []int  `json:"restarts"` // close + reopen after these heights
	Seed     uint64 `json:"seed"`
	// further node-local options by field name of config.Blockchain (see c01NodeLocalOptions): bool 1 = flipped
	Opts map[string]int64 `json:"opts,omitempty"`
	// flushes that fail, with blocks added while they are in progress (c01fault.go)
	Faults []c01Fault `json:"faults,omitempty"`
}

type c01Proto struct {
	HF       string `json:"hf"`
	SRInHdr  bool   `json:"state_root_in_header"`
	SmallMTB bool   `json:"small_max_traceable"` // MaxTraceableBlocks 24 so that the collector has work on short chains
}

func (p c01Proto) hook(c *config.Blockchain) {
	c.Hardforks = c05Hardforks(p.HF)
	c.P2PSigExtensions = true
	c.StateRootInHeader = p.SRInHdr
	if p.SmallMTB {
		c.MaxTraceableBlocks = 24
		c.Genesis.MaxTraceableBlocks = 24
		c.MaxValidUntilBlockIncrement = 8
		c.Genesis.MaxValidUntilBlockIncrement = 8
	}
}

func (rp c01Replica) hook(p c01Proto) func(c *config.Blockchain) {
	return func(c *config.Blockchain) {
		p.hook(c)
		c.KeepOnlyLatestState = rp.KeepOnly
		c.RemoveUntraceableBlocks = rp.GC
		if rp.GC {
			c.GarbageCollectionPeriod = 2
		}
		c.SkipBlockVerification = rp.SkipVer
		c.VerifyTransactions = !rp.NoTxVer
		c.SaveStorageBatch = rp.Batch
		c01ApplyOptions(c, rp.Opts)
		if c.RemoveUntraceableBlocks && c.GarbageCollectionPeriod == 0 {
			c.GarbageCollectionPeriod = 2
		}
	}
}

func c01OpenStore(kind, dir string) (storage.Store, error) {
	switch kind {
	case "level":
		return storage.NewLevelDBStore(dbconfig.LevelDBOptions{DataDirectoryPath: filepath.Join(dir, "ldb")})
	case "bolt":
		return storage.NewBoltDBStore(dbconfig.BoltDBOptions{FilePath: filepath.Join(dir, "chain.bolt")})
	}
	return storage.NewMemoryStore(), nil
}

// c01RunReplica feeds the blocks to one replica and returns the first height at which it differs from the source.
func c01RunReplica(p c01Proto, rp c01Replica, src *c05Chain, blocks []*block.Block, obs []*c01Obs, fstats map[string]int) (dv *c01Divergence, err error) {
	t := &c05TB{}
	defer t.done()
	dir := t.TempDir()
	r := newRng(rp.Seed)
	var fst *c01FaultStore // the lower store of a replica with failing flushes
	open := func() (*core.Blockchain, error) {
		st, err := c01OpenStore(rp.Store, dir)
		if err != nil {
			return nil, err
		}
		if len(rp.Faults) > 0 {
			fst = &c01FaultStore{Store: st}
			st = fst
		}
		bc, _, _, err := c05NewChain(t, rp.hook(p), st)
		return bc, err
	}
	bc, err := open()
	if err != nil {
		return nil, err
	}
	defer func() {
		if fst != nil {
			fst.disarm()
		}
		bc.Close()
	}()
	restart := map[int]bool{}
	for _, h := range rp.Restarts {
		restart[h] = true
	}
	mk := func(i int, after bool, mine *c01Obs, fields, detail []string, errs string) *c01Divergence {
		h := int(blocks[i].Index)
		d := &c01Divergence{Height: h, AfterRestart: after, Fields: fields, Detail: detail, Error: errs}
		if mine != nil {
			d.Keys = c01KeyDiff(obs[i], mine)
		}
		csz := src.csz
		d.EpochEnd = (h+1)%csz == 0
		e0 := h - h%csz // first block of the epoch
		for x := e0; x <= h; x++ {
			if restart[x] && rp.Store != "mem" && (x < h || after) {
				d.RestartedInEpoch = true
			}
		}
		// blocked accounts at the end of the previous epoch vs now (obs[j] belongs to height j+1)
		if e0-2 >= 0 && e0-2 < len(obs) {
			d.BlocklistChanged = fmt.Sprint(obs[e0-2].Blocked) != fmt.Sprint(obs[i].Blocked)
		}
		d.Rotation = h%csz == 0
		for x := e0 - csz; x < e0; x++ {
			if x >= 1 && restart[x] && rp.Store != "mem" {
				d.RestartedPrev = true
			}
		}
		if e0-csz-2 >= 0 && e0-2 < len(obs) {
			d.BlocklistPrev = fmt.Sprint(obs[e0-csz-2].Blocked) != fmt.Sprint(obs[e0-2].Blocked)
		}
		// the running node keeps a next-epoch committee computed before a change of the block list for as long as
		// nothing moves NEO: what matters is whether the list changed at any earlier height
		for j := 1; j <= i; j++ {
			if fmt.Sprint(obs[j-1].Blocked) != fmt.Sprint(obs[j].Blocked) {
				d.BlocklistBefore = true
			}
		}
		// which side still announces its current validators for the next epoch (did not recompute)
		d.Stale = "none"
		if mine != nil {
			switch {
			case fmt.Sprint(obs[i].NewEpoch) == fmt.Sprint(obs[i].NextVals) && fmt.Sprint(mine.NewEpoch) != fmt.Sprint(mine.NextVals):
				d.Stale = "source"
			case fmt.Sprint(mine.NewEpoch) == fmt.Sprint(mine.NextVals) && fmt.Sprint(obs[i].NewEpoch) != fmt.Sprint(obs[i].NextVals):
				d.Stale = "replica"
			}
		}
		d.Signature = fmt.Sprintf("fields=%s;keys=%s;epoch_end=%v;restarted_in_epoch=%v;after_restart=%v;rotation=%v;restarted_in_prev_epoch=%v;blocklist_changed_before=%v;unchanged_next_epoch_validators=%s",
			strings.Join(d.Fields, ","), strings.Join(d.Keys, ","), d.EpochEnd, d.RestartedInEpoch, after, d.Rotation, d.RestartedPrev, d.BlocklistBefore, d.Stale)
		return d
	}
	junkNonce := uint32(1 << 30)
	faultAt := map[int]c01Fault{}
	for _, f := range rp.Faults {
		faultAt[f.At] = f
	}
	noFlushAfter := map[int]bool{} // heights after which the regular flush is left out (a fault wants a big batch)
	for _, f := range rp.Faults {
		for x := f.At - f.Gather; x <= f.At; x++ {
			noFlushAfter[x] = true
		}
		if f.Gather == 0 {
			delete(noFlushAfter, f.At-1)
		}
	}
	// check compares this node with the source at block i
	check := func(i int, after bool, phase string) *c01Divergence {
		mine := c01Observe(bc, src.u, blocks[i])
		if f, d := c01Diff(obs[i], mine); f != nil {
			dv := mk(i, after, mine, f, d, "")
			if phase != "" {
				dv.Fault = phase
				dv.Signature += ";fault=" + phase
			}
			return dv
		}
		return nil
	}
	// stepBlock adds block i (quiet: no flush and no restart of the regular schedule) and compares
	var stepBlock func(i int, quiet bool, phase string) *c01Divergence
	stepBlock = func(i int, quiet bool, phase string) *c01Divergence {
		b := blocks[i]
		if rp.Junk && r.chance(60) {
			// junk in the pool: valid transactions that never make it into a block, and copies of the next block's
			// transactions (so that the block finds some of its transactions already pooled)
			for k := 0; k < 1+r.intn(3); k++ {
				a := pick(r, c05Signers)
				junkNonce++
				w := src.u.signers[a]
				tx := transaction.New([]byte{0x11, 0x40}, 0) // PUSH1 RET
				tx.Nonce = junkNonce
				tx.ValidUntilBlock = bc.BlockHeight() + 1 + uint32(r.intn(4))
				tx.Signers = []transaction.Signer{{Account: w.ScriptHash(), Scopes: transaction.CalledByEntry}}
				tx.SystemFee = 100_0000
				_ = c05Try(func() {
					neotest.AddNetworkFee(t, bc, tx, w)
					if err := w.SignTx(bc.GetConfig().Magic, tx); err == nil {
						_ = bc.PoolTx(tx)
					}
				})
			}
			for _, tx := range b.Transactions {
				if r.chance(40) {
					_ = bc.PoolTx(tx)
				}
			}
		}
		if err := bc.AddBlock(b); err != nil {
			return mk(i, false, nil, []string{"AddBlock"}, nil, "AddBlock: "+err.Error())
		}
		var err error
		flush := rp.Flush
		if quiet || noFlushAfter[int(b.Index)] {
			flush = "never"
		}
		if _, ok := faultAt[int(b.Index)+1]; ok && faultAt[int(b.Index)+1].Gather == 0 && !quiet {
			flush = "every" // the batch of the failing flush is the next block alone
		}
		switch flush {
		case "every":
			if rp.GC {
				_, err = bc.VerifPersistGC()
			} else {
				_, err = bc.VerifPersist()
			}
		case "random":
			if r.chance(40) {
				if rp.GC {
					_, err = bc.VerifPersistGC()
				} else {
					_, err = bc.VerifPersist()
				}
			}
		}
		if err != nil {
			return mk(i, false, nil, []string{"VerifPersist"}, nil, "VerifPersist: "+err.Error())
		}
		if dv := check(i, false, phase); dv != nil {
			return dv
		}
		if restart[int(b.Index)] && rp.Store != "mem" && !quiet && len(faultAt) == 0 {
			bc.Close()
			bc, err = open()
			if err != nil {
				return mk(i, true, nil, []string{"restart"}, nil, "restart: "+err.Error())
			}
			if dv := check(i, true, phase); dv != nil {
				return dv
			}
		}
		return nil
	}
	for i := 0; i < len(blocks); i++ {
		if dv := stepBlock(i, false, ""); dv != nil {
			return dv, nil
		}
		if f, ok := faultAt[int(blocks[i].Index)]; ok {
			reopen := func() error {
				fst.disarm()
				bc.Close()
				var err error
				bc, err = open()
				return err
			}
			if dv := c01RunFault(f, &i, len(blocks), func() *core.Blockchain { return bc }, func() *c01FaultStore { return fst }, stepBlock, check, mk, reopen, restart, rp.Store != "mem", fstats); dv != nil {
				return dv, nil
			}
		}
	}
	return nil, nil
}

// ---------- generator ----------

func c01RandomOp(g *c05Gen, deployed map[int]bool) c05Op {
	r := g.r
	a := pick(r, c05Signers)
	mutable := func() int { // a contract that may be destroyed: 13 and 14 are kept alive (most calls aim at them)
		var l []int
		for k := range deployed {
			if k != 13 && k != 14 {
				l = append(l, k)
			}
		}
		sort.Ints(l)
		if len(l) == 0 {
			return pick(r, c05Signers[:12])
		}
		return pick(r, l)
	}
	anyDeployed := func() int {
		var l []int
		for k := range deployed {
			l = append(l, k)
		}
		sort.Ints(l)
		if len(l) == 0 || r.chance(10) {
			return pick(r, c05Signers)
		}
		return pick(r, l)
	}
	if r.chance(7) { // iterator values held across Next (see c01Generate); now and then options Find refuses
		opts := pick(r, c01FindOpts)
		seed := r.intn(6)
		if seed >= 4 || r.chance(10) {
			opts = pick(r, c01FindOptsDeser) // on plain values: DeserializeValues faults, the same on every node
		}
		if r.chance(5) {
			opts = pick(r, []int{5, 9, 48, 64, 133})
		}
		return c05Op{T: "citer", F: a, To: anyDeployed(), N: seed, W: r.intn(6), K: opts, A: int64(pick(r, []int{0, 0, 0, 1, 1, 2}))}
	}
	if r.chance(5) { // outcomes that depend on manifest details (see c01ManifestUses)
		if r.chance(30) {
			return c05Op{T: "cgrp", F: a, To: anyDeployed(), K: r.intn(3)}
		}
		return c05Op{T: "ccall", F: a, To: anyDeployed(), W: anyDeployed(), N: r.intn(3), K: r.intn(4), A: int64(r.intn(100))}
	}
	if r.chance(3) {
		return c05Op{T: "cfills", F: a, To: anyDeployed(), N: 4 + r.intn(2), A: int64(1 + r.intn(20))}
	}
	switch x := r.intn(100); {
	case x < 40:
		return g.randomOp()
	case x < 47: // governance-heavy: votes for registered candidates
		return c05Op{T: "vote", F: a, K: g.c.u.keyOfAcct[pick(r, c05Signers[:8])]}
	case x < 52:
		return c05Op{T: "reg", F: pick(r, c05Signers[:8])}
	case x < 55:
		return c05Op{T: "unreg", F: pick(r, c05Signers[:8])}
	case x < 60:
		return c05Op{T: pick(r, []string{"block", "block", "unblock"}), To: pick(r, c05Signers[:8])}
	case x < 64:
		return c05Op{T: pick(r, []string{"setfpb", "setexec", "setstor"}), A: int64(1+r.intn(60)) * int64(1+r.intn(40))}
	case x < 66:
		return c05Op{T: "setattr", N: pick(r, []int{1, 0x11, 0x20, 0x21, 0x22}), A: int64(r.intn(5000_0000))}
	case x < 68:
		return c05Op{T: pick(r, []string{"setvub", "setms"}), A: int64(2 + r.intn(20))}
	case x < 72:
		return c05Op{T: "role", A: int64(r.intn(4)), K: r.intn(14), N: r.intn(3)}
	case x < 76:
		deployed[a] = true
		return c05Op{T: "deploy", F: a, K: r.intn(c01NShapes)}
	case x < 80:
		return c05Op{T: "cput", F: a, To: anyDeployed(), N: r.intn(4), K: r.intn(6), A: int64(r.intn(400))}
	case x < 84: // a call with an unusual but legal argument, directly or relayed through the contract
		sz := int64(0)
		if r.chance(60) {
			sz = int64(r.intn(12)) // Buffer of MaxSize-sz bytes: its serialisation is just under / over MaxSize
		} else {
			sz = int64(r.intn(300))
		}
		return c05Op{T: "xarg", F: a, To: anyDeployed(), N: r.intn(9), K: r.intn(2), A: sz}
	case x < 87:
		return c05Op{T: "cdel", F: a, To: anyDeployed(), N: r.intn(4), K: r.intn(6)}
	case x < 92:
		return c05Op{T: "cfill", F: a, To: anyDeployed(), N: r.intn(4), A: int64(1 + r.intn(60))}
	case x < 94:
		return c05Op{T: "cfillfail", F: a, To: anyDeployed(), N: r.intn(4), A: int64(1 + r.intn(30))}
	case x < 96:
		return c05Op{T: "csweep", F: a, To: anyDeployed(), N: r.intn(4)}
	case x < 97:
		return c05Op{T: "cupdate", F: a, To: anyDeployed(), K: r.intn(c01NShapes)}
	case x < 98:
		return c05Op{T: "cdestroy", F: a, To: mutable()}
	default:
		return c05Op{T: pick(r, []string{"wl", "wl", "wlrm"}), To: anyDeployed(), A: int64(r.intn(3)) * int64(1+r.intn(2000000))}
	}
}

// c01ManifestUses: transactions whose outcome depends on a detail of the manifest of the contract of d as the node has
// it in its Management cache: cross-contract calls from d (permitted or not by each permission shape; a safe callee
// method needs no permission), calls into d from 13 / 14 (their permissions, d's groups and safe flags), a write through
// a method d may have declared safe, CheckWitness inside d for a signer with a group scope (d's groups).
func c01ManifestUses(r *rng, d int) []c05Op {
	sg := func() int { return pick(r, c05Signers) }
	out := []c05Op{
		{T: "ccall", F: sg(), To: d, W: 13, N: r.intn(3), K: r.intn(4), A: int64(r.intn(100))},
		{T: "ccall", F: sg(), To: d, W: 14, N: r.intn(3), K: r.intn(4), A: int64(r.intn(100))},
		{T: "ccall", F: sg(), To: pick(r, []int{13, 14}), W: d, N: r.intn(3), K: r.intn(4), A: int64(r.intn(100))},
		{T: "cput", F: sg(), To: d, N: 1, K: r.intn(3), A: int64(r.intn(50))},
		{T: "cgrp", F: sg(), To: d, K: r.intn(3)},
	}
	if r.chance(50) {
		out = append(out, c05Op{T: "ccall", F: sg(), To: d, W: d, N: 2, K: r.intn(4), A: 1}, c05Op{T: "cgrp", F: sg(), To: pick(r, []int{13, 14}), K: r.intn(2)})
	}
	return out
}

// c01MultiUpdate: 2-3 updates of ONE committee setting for one block (a "set2" transaction carries two of them),
// and a generator of the transactions that read and use the setting in the following blocks.
func c01MultiUpdate(g *c05Gen, deployed map[int]bool, faun bool, kinds []int) ([]c05Op, func() []c05Op) {
	r := g.r
	kind := pick(r, kinds)
	val := func() int64 {
		switch kind {
		case 0:
			return int64(r.intn(11)) * 1_0000_0000 / int64(1+r.intn(3))
		case 1:
			return int64(1+r.intn(4)) * 400_0000_0000
		case 2:
			return int64(200 + r.intn(3000))
		case 3:
			return int64(1 + r.intn(90))
		case 4:
			return int64(1 + r.intn(2000))
		default:
			return int64(r.intn(3000_0000))
		}
	}
	name, _ := c05Set2(c05Op{K: kind})
	single := func() c05Op {
		o := c05Op{T: name, A: val()}
		if name == "setattr" {
			o.N = 0x22
		}
		return o
	}
	double := func() c05Op { return c05Op{T: "set2", K: kind, A: val(), N: int(val())} }
	holder := func() int { return pick(r, c05Signers[:8]) }
	var ups []c05Op
	switch r.intn(4) {
	case 0:
		ups = []c05Op{double()}
	case 1:
		ups = []c05Op{single(), single()}
	case 2:
		ups = []c05Op{single(), double()}
	default:
		ups = []c05Op{single(), {T: "nt", F: holder(), To: 0, A: 0}, single(), single()}
	}
	if kind == 5 && faun && r.chance(50) {
		// the whitelisted fee of a contract set twice in the block
		for _, d := range []int{13, 14} {
			if deployed[d] {
				ups = []c05Op{{T: "wl", To: d, A: int64(1 + r.intn(5000))}, {T: "wl", To: d, A: int64(100000 + r.intn(3000000))}}
				break
			}
		}
	}
	for i := range ups {
		if ups[i].T == "nt" { // a claim inside the block of the updates: a self-transfer of nothing
			ups[i].To = ups[i].F
		}
	}
	reads := func() []c05Op {
		a, b := holder(), holder()
		out := []c05Op{{T: "nt", F: a, To: a, A: 0}, {T: "nt", F: b, To: pick(r, c05Signers), A: int64(1 + r.intn(50))}}
		switch kind {
		case 1:
			out = append(out, c05Op{T: "reg", F: pick(r, c05Signers)}, c05Op{T: "unreg", F: pick(r, c05Signers)})
		case 5:
			for _, d := range []int{13, 14} {
				if deployed[d] {
					out = append(out, c05Op{T: "cput", F: pick(r, c05Signers), To: d, N: 1, K: 1, A: 3})
				}
			}
			if g.notary {
				out = append(out, c05Op{T: "na", F: pick(r, c05Signers), To: pick(r, c05Signers), A: 5, N: r.intn(3)})
			}
		default:
			out = append(out, c05Op{T: "gt", F: pick(r, c05Signers), To: pick(r, c05Signers), A: int64(1 + r.intn(1000))})
		}
		return out
	}
	return ups, reads
}

// c01Scenario: the governance skeleton the random mix is laid over — candidates registered and voted into the
// committee (with enough NEO for a 20% turnout), so that Policy block/unblock, unvote, unregister, re-register hit
// committee members; the rest of the history is random.
func c01Generate(r *rng, c *c05Chain, run *c05Runner, nblocks int) ([]c05Op, error) {
	g := &c05Gen{r: r, c: c, run: run}
	emit := func(ops ...c05Op) error {
		for _, o := range ops {
			if err := g.emit(o); err != nil {
				return err
			}
		}
		return nil
	}
	if err := g.fund(true); err != nil {
		return g.ops, err
	}
	deployed := map[int]bool{}
	if r.chance(80) {
		if err := g.push(); err != nil {
			return g.ops, err
		}
	}
	if r.chance(75) { // the two contracts that are never updated or destroyed (whitelist targets)
		for _, d := range []int{13, 14} {
			if r.chance(80) {
				deployed[d] = true
				// 13: the compiler's manifest or member of group G1; 14: compiler's, member of G0 without permissions, or
				// the group / hash permissions of shape 6 (neither declares a safe method: they are the call targets)
				k := pick(r, []int{0, 0, 3})
				if d == 14 {
					k = pick(r, []int{0, 5, 6})
				}
				if err := emit(c05Op{T: "deploy", F: d, K: k}); err != nil {
					return g.ops, err
				}
			}
		}
		if err := emit(c05Op{T: "blk"}); err != nil {
			return g.ops, err
		}
	}
	if r.chance(70) { // gas per block / register price updated several times within one block, used in the next one
		ups, reads := c01MultiUpdate(g, deployed, false, []int{0, 0, 0, 1})
		if err := emit(ups...); err != nil {
			return g.ops, err
		}
		if err := emit(c05Op{T: "blk"}); err != nil {
			return g.ops, err
		}
		if err := emit(reads()...); err != nil {
			return g.ops, err
		}
		if err := emit(c05Op{T: "blk"}); err != nil {
			return g.ops, err
		}
	}
	if r.chance(50) { // notary service: nodes designated, deposits; g.randomOp then sends NotaryAssisted transactions
		g.notary = true
		if err := emit(c05Op{T: "role", A: 2, K: r.intn(len(c.u.keys)), N: r.intn(3)}); err != nil {
			return g.ops, err
		}
		for i := 0; i < 2+r.intn(3); i++ {
			if err := emit(c05Op{T: "dep", F: pick(r, c05Signers), A: int64(5_0000_0000 + r.intn(20_0000_0000)), N: int(c.bc.BlockHeight()) + 10 + r.intn(30)}); err != nil {
				return g.ops, err
			}
		}
		if err := emit(c05Op{T: "blk"}); err != nil {
			return g.ops, err
		}
	}
	// voters of a key / elected committee members with votes, at the last block boundary
	votersOf := func(k int) []int {
		var l []int
		for _, a := range g.snap.Neo {
			if a.Vote == k && a.A >= 1 && a.A <= 14 {
				l = append(l, a.A)
			}
		}
		return l
	}
	voted := func() []int {
		var l []int
		for _, m := range g.snap.Committee {
			if m.V != "0" && m.K < len(c.u.keys) {
				l = append(l, m.K)
			}
		}
		return l
	}
	quietUntil := 0     // blocks up to this height carry no operation that moves NEO or touches candidates
	var later [][]c05Op // scripted continuations: later[i] goes into the i-th next block
	for b := 0; b < nblocks; b++ {
		h := int(c.bc.BlockHeight()) + 1 // the block being filled
		if len(later) > 0 {
			if err := emit(later[0]...); err != nil {
				return g.ops, err
			}
			later = later[1:]
		}
		if vs := voted(); len(vs) > 0 && len(later) == 0 && h > quietUntil {
			switch x := r.intn(100); {
			case x < 10 && h%c.csz != 0:
				// a committee member's account is blocked (or a blocked one unblocked) and nothing moves NEO until
				// the epoch has ended: the committee of the next epoch must not depend on whether the node restarted
				k := pick(r, vs)
				if len(g.snap.Blocked) > 0 && r.chance(40) {
					if err := emit(c05Op{T: "unblock", To: pick(r, g.snap.Blocked)}); err != nil {
						return g.ops, err
					}
				} else if err := emit(c05Op{T: "block", To: c.u.acctOfKey[k]}); err != nil {
					return g.ops, err
				}
				quietUntil = (h/c.csz+1)*c.csz + r.intn(3)
			case x >= 20 && x < 30 && (deployed[13] || deployed[14]) && in01Faun(c):
				// the same whitelist entry is set twice with different fees, then the method is called
				d := 13
				if !deployed[13] || (deployed[14] && r.bool()) {
					d = 14
				}
				if err := emit(c05Op{T: "wl", To: d, A: int64(r.intn(50))}); err != nil {
					return g.ops, err
				}
				later = append(later, []c05Op{{T: "wl", To: d, A: int64(100000 + r.intn(3000000))}})
				for i := 0; i < r.intn(2); i++ {
					later = append(later, nil)
				}
				later = append(later, []c05Op{{T: "cput", F: pick(r, c05Signers), To: d, N: r.intn(4), K: r.intn(6), A: 9}})
			case x >= 50 && x < 66 && (deployed[13] || deployed[14]):
				// iterators whose values are held across Next: items written now, read 2-4 blocks later (flushed to
				// disk / re-read after a restart on some replicas by then) with every class of Find options, the
				// same read twice in one execution, and the iterators of getAllCandidates / getContractHashes
				d := 13
				if !deployed[13] || (deployed[14] && r.chance(50)) {
					d = 14
				}
				s1, s2 := r.intn(4), 4+r.intn(2)
				if err := emit(c05Op{T: "cfill", F: pick(r, c05Signers), To: d, N: s1, A: int64(3 + r.intn(20))},
					c05Op{T: "cfills", F: pick(r, c05Signers), To: d, N: s2, A: int64(3 + r.intn(12))}); err != nil {
					return g.ops, err
				}
				for i := 0; i < 1+r.intn(3); i++ {
					later = append(later, nil)
				}
				var reads []c05Op
				for i := 0; i < 3; i++ {
					reads = append(reads, c05Op{T: "citer", F: pick(r, c05Signers), To: d, N: s1, K: pick(r, c01FindOpts)})
				}
				all := append(append([]int{}, c01FindOpts...), c01FindOptsDeser...)
				for i := 0; i < 3; i++ {
					reads = append(reads, c05Op{T: "citer", F: pick(r, c05Signers), To: d, N: s2, K: pick(r, all)})
				}
				reads = append(reads, c05Op{T: "citer", F: pick(r, c05Signers), To: d, N: s2, W: s1, K: pick(r, all), A: 1},
					c05Op{T: "citer", F: pick(r, c05Signers), To: d, A: 2})
				later = append(later, reads)
				later = append(later, []c05Op{{T: "citer", F: pick(r, c05Signers), To: d, N: s1, W: s2, K: pick(r, []int{2, 3, 4, 130, 132}), A: 1},
					{T: "cdel", F: pick(r, c05Signers), To: d, N: s1, K: r.intn(3)},
					{T: "citer", F: pick(r, c05Signers), To: d, N: s1, K: pick(r, []int{2, 4, 132})}})
			case x >= 66 && x < 82:
				// one governance setting updated 2-3 times within this block (in one transaction and / or in several);
				// the caches that keep a history by index (gas per block) then hold several records of one index.
				// Blocks N+1 and N+2 read and USE the setting: GAS claims across the boundary, a registration paying
				// the register price, ordinary transactions whose network fee was computed from the fee settings
				ups, reads := c01MultiUpdate(g, deployed, in01Faun(c), []int{0, 0, 0, 0, 1, 1, 2, 3, 4, 5})
				if err := emit(ups...); err != nil {
					return g.ops, err
				}
				later = append(later, reads(), reads())
			case x >= 30 && x < 40:
				// designations of several roles across blocks (each effective from the next block; a second designation of
				// the same role in one block faults); answered at historic heights by every replica afterwards
				ra, rb := r.intn(4), r.intn(4)
				if err := emit(c05Op{T: "role", A: int64(ra), K: r.intn(14), N: r.intn(3)}, c05Op{T: "role", A: int64(rb), K: r.intn(14), N: r.intn(3)}); err != nil {
					return g.ops, err
				}
				later = append(later, []c05Op{{T: "role", A: int64(ra), K: r.intn(14), N: r.intn(3)}})
				for i := 0; i < r.intn(3); i++ {
					later = append(later, nil)
				}
				later = append(later, []c05Op{{T: "role", A: int64(ra), K: r.intn(14), N: r.intn(3)}, {T: "role", A: int64(r.intn(4)), K: r.intn(14), N: r.intn(3)}})
			case x >= 40 && x < 50:
				// the life of a contract: deploy, update, whitelist its method, destroy (hash blocked, whitelist cleaned),
				// then a second deployment and a whitelisting that must fail
				d := pick(r, c05Signers[:12])
				deployed[d] = true
				if err := emit(c05Op{T: "deploy", F: d, K: r.intn(c01NShapes)}); err != nil {
					return g.ops, err
				}
				later = append(later, c01ManifestUses(r, d))
				later = append(later, []c05Op{{T: "cupdate", F: pick(r, c05Signers), To: d, K: r.intn(c01NShapes)}})
				later = append(later, append([]c05Op{{T: "wl", To: d, A: int64(r.intn(5000))}, {T: "cput", F: pick(r, c05Signers), To: d, N: 1, K: 1, A: 3}}, c01ManifestUses(r, d)...))
				if r.chance(50) {
					later = append(later, []c05Op{{T: "cupdate", F: pick(r, c05Signers), To: d, K: r.intn(c01NShapes)}})
					later = append(later, c01ManifestUses(r, d))
				}
				later = append(later, []c05Op{{T: "cdestroy", F: pick(r, c05Signers), To: d}})
				later = append(later, []c05Op{{T: "deploy", F: d, K: r.intn(c01NShapes)}, {T: "wl", To: d, A: 5}})
			case x >= 82 && x < 96 && (deployed[13] || deployed[14]):
				// waves over the same contract keys in consecutive blocks: many keys put, all of them deleted in the next
				// block, put again, ...; beside them a few keys going the other way round (what a flush in progress was
				// writing is deleted meanwhile and vice versa; more / fewer keys than the block before)
				d := 13
				if !deployed[13] || (deployed[14] && r.chance(50)) {
					d = 14
				}
				s1, s2 := r.intn(2), 2+r.intn(2)
				big, small := int64(30+r.intn(90)), int64(1+r.intn(4))
				k := r.intn(6)
				sg := func() int { return pick(r, c05Signers) }
				if err := emit(c05Op{T: "cfill", F: sg(), To: d, N: s1, A: big}, c05Op{T: "cdel", F: sg(), To: d, N: s2, K: k}, c05Op{T: "csweep", F: sg(), To: d, N: s2}); err != nil {
					return g.ops, err
				}
				for w := 0; w < 2+r.intn(4); w++ {
					if w%2 == 0 {
						later = append(later, []c05Op{{T: "csweep", F: sg(), To: d, N: s1}, {T: "cfill", F: sg(), To: d, N: s2, A: small}, {T: "cput", F: sg(), To: d, N: s2, K: k, A: int64(r.intn(300))}})
					} else {
						later = append(later, []c05Op{{T: "cfill", F: sg(), To: d, N: s1, A: big}, {T: "csweep", F: sg(), To: d, N: s2}, {T: "cdel", F: sg(), To: d, N: s2, K: k}})
					}
				}
			case x < 20:
				// a voted candidate loses its voters and unregisters (its record is dropped), registers again later and
				// is voted again
				k := pick(r, vs)
				vl := votersOf(k)
				var ops1 []c05Op
				for _, v := range vl {
					ops1 = append(ops1, c05Op{T: "vote", F: v, K: -1})
				}
				if err := emit(ops1...); err != nil {
					return g.ops, err
				}
				gap := r.intn(3)
				later = append(later, []c05Op{{T: "unreg", F: c.u.acctOfKey[k]}})
				for i := 0; i < gap; i++ {
					later = append(later, nil)
				}
				later = append(later, []c05Op{{T: "reg", F: c.u.acctOfKey[k]}})
				for i := 0; i < r.intn(2); i++ {
					later = append(later, nil)
				}
				var ops2 []c05Op
				for _, v := range vl {
					ops2 = append(ops2, c05Op{T: "vote", F: v, To: c.u.acctOfKey[k]})
				}
				later = append(later, ops2)
			}
		}
		n := r.intn(4)
		if r.chance(30) {
			n = 0
		}
		for i := 0; i < n; i++ {
			op := c01RandomOp(g, deployed)
			if h <= quietUntil {
				switch op.T {
				case "nt", "vote", "reg", "unreg", "regpay", "fault", "oog", "block", "unblock":
					continue
				}
			}
			if err := emit(op); err != nil {
				return g.ops, err
			}
		}
		if err := emit(c05Op{T: "blk"}); err != nil {
			return g.ops, err
		}
	}
	return g.ops, nil
}

// ---------- case ----------

type c01Input struct {
	Proto    c01Proto     `json:"proto"`
	Ops      []c05Op      `json:"ops"`
	Replicas []c01Replica `json:"replicas"`
}

func c01Replicas(r *rng, nblocks int, tier string) []c01Replica {
	var out []c01Replica
	all := func() []int {
		var l []int
		for h := 1; h <= nblocks; h++ {
			l = append(l, h)
		}
		return l
	}
	some := func(p int) []int {
		var l []int
		for h := 1; h <= nblocks; h++ {
			if r.chance(p) {
				l = append(l, h)
			}
		}
		return l
	}
	seed := func() uint64 { return r.next() }
	out = append(out,
		c01Replica{Store: "mem", Flush: "random", Junk: true, Seed: seed()},
		c01Replica{Store: "level", Flush: "never", Restarts: nil, NoTxVer: true, Seed: seed()},
		c01Replica{Store: "bolt", Flush: "every", Restarts: some(15), KeepOnly: true, Seed: seed()},
		c01Replica{Store: "level", Flush: "random", Restarts: some(25), GC: true, Batch: true, Seed: seed()},
		c01Replica{Store: "mem", Flush: "every", SkipVer: true, KeepOnly: true, GC: true, Seed: seed()},
	)
	// flushes that fail, with blocks added while they hang inside the store (c01fault.go)
	for k, st := range []string{"mem", "level", "bolt", pick(r, []string{"level", "bolt"})} {
		out = append(out, c01Replica{Store: st, Flush: pick(r, []string{"never", "random", "random"}), KeepOnly: k == 3 && r.bool(), Junk: k == 0,
			Faults: c01FaultSchedule(r, nblocks), Seed: seed()})
	}
	// every other node-local option of the configuration, singly and in a few random combinations
	opts, _ := c01NodeLocalOptions()
	for _, o := range opts {
		out = append(out, c01Replica{Store: pick(r, []string{"mem", "level", "bolt"}), Flush: pick(r, []string{"never", "random", "every"}),
			Restarts: some(6), Opts: map[string]int64{o.Name: o.Alt}, Seed: seed()})
	}
	for k := 0; k < 3; k++ {
		m := map[string]int64{}
		for _, o := range opts {
			if r.chance(50) {
				m[o.Name] = o.Alt
			}
		}
		out = append(out, c01Replica{Store: pick(r, []string{"level", "bolt"}), Flush: "random", Restarts: some(12), GC: r.bool(), KeepOnly: r.bool(), Opts: m, Seed: seed()})
	}
	// restart at every height on short chains: one replica per height (a restarted node keeps its re-initialised
	// caches, so one replica restarted everywhere would hide what a single restart changes)
	if nblocks <= 40 || tier == "thorough" {
		for _, h := range all() {
			out = append(out, c01Replica{Store: pick(r, []string{"level", "bolt"}), Flush: pick(r, []string{"never", "random"}), Restarts: []int{h}, Seed: seed()})
		}
		// consecutive restarts: every height of one third of the chain (three replicas, so none is the long pole)
		a := all()
		for part := 0; part < 3; part++ {
			lo, hi := part*len(a)/3, (part+1)*len(a)/3
			out = append(out, c01Replica{Store: pick(r, []string{"level", "bolt"}), Flush: "random", Restarts: a[lo:hi], Seed: seed()})
		}
	} else {
		// every epoch-relative offset at least once
		for off := 0; off < 6; off++ {
			var l []int
			for h := 1 + off + 6*r.intn(2); h <= nblocks; h += 6 * (1 + r.intn(3)) {
				l = append(l, h)
			}
			out = append(out, c01Replica{Store: pick(r, []string{"level", "bolt"}), Flush: "random", Restarts: l, Seed: seed()})
		}
	}
	return out
}

func c01RunCase(co *caseOut, in c01Input, gen func(c *c05Chain, run *c05Runner) ([]c05Op, error), mkReplicas func(nblocks int) []c01Replica, stats map[string]int) error {
	t := &c05TB{}
	c, err := c05Setup(t, in.Proto.HF, in.Proto.hook)
	if err != nil {
		t.done()
		return err
	}
	defer c.close()
	// block 1 (the prelude) is part of what replicas are fed
	var blocks []*block.Block
	var obs []*c01Obs
	run, err := c05NewRunner(c, func(rec *c05BlockRec) {
		blocks = append(blocks, rec.blk)
		obs = append(obs, c01Observe(c.bc, c.u, rec.blk))
	})
	if err != nil {
		return err
	}
	if gen != nil {
		in.Ops, err = gen(c, run)
	} else {
		for _, op := range in.Ops {
			if err = run.submit(op); err != nil {
				break
			}
		}
	}
	if err == nil && len(run.pending) > 0 {
		err = run.flush()
	}
	if err != nil {
		co.violation("history", "history could not be executed on the source node: "+err.Error(), in, nil)
		return nil
	}
	for _, o := range obs {
		if len(o.Err) > 0 {
			co.violation("history", fmt.Sprintf("source node cannot answer at height %d: %s", o.Height, strings.Join(o.Err, "; ")), in, o)
			break
		}
	}
	if mkReplicas != nil {
		in.Replicas = mkReplicas(len(blocks))
	}
	// replicas are independent nodes: run them on a small worker pool, report in order
	type rres struct {
		dv  *c01Divergence
		err error
		fst map[string]int // what the failing flushes of this replica met (c01fault.go)
	}
	res := make([]rres, len(in.Replicas))
	var wg sync.WaitGroup
	sem := make(chan struct{}, 8)
	for i := range in.Replicas {
		wg.Add(1)
		sem <- struct{}{}
		go func(i int) {
			defer wg.Done()
			defer func() { <-sem }()
			defer func() {
				if r := recover(); r != nil {
					res[i].err = fmt.Errorf("panic: %v", r)
				}
			}()
			res[i].fst = map[string]int{}
			res[i].dv, res[i].err = c01RunReplica(in.Proto, in.Replicas[i], c, blocks, obs, res[i].fst)
		}(i)
	}
	wg.Wait()
	nviol := 0
	seenSig := map[string]bool{}
	for i, rp := range in.Replicas {
		dv, err := res[i].dv, res[i].err
		if err != nil {
			// a replica that cannot be opened, panics or errors while the source node went through the same blocks
			// has diverged from it
			dv = &c01Divergence{Height: -1, Fields: []string{"error"}, Error: err.Error(),
				Signature: "fields=error;" + strings.SplitN(err.Error(), "\n", 2)[0]}
		}
		for k, v := range res[i].fst {
			stats[k] += v
		}
		stats["replicas"]++
		stats["heights"] += len(blocks)
		stats["restarts"] += len(rp.Restarts)
		if dv != nil {
			// one report per distinct signature of a history (many replicas hit the same divergence)
			if !seenSig[dv.Signature] && nviol < 6 {
				seenSig[dv.Signature] = true
				nviol++
				one := in
				one.Replicas = []c01Replica{rp}
				co.violation("history", fmt.Sprintf("%s: replica diverges from the source node at height %d: %s", dv.Signature, dv.Height, strings.Join(dv.Detail, "; ")),
					one, map[string]any{"replica": rp, "divergence": dv})
			}
		}
	}
	tag, nontrivial := c01Tag(in.Ops, run.blocks)
	co.add("history", tag, nontrivial, in, map[string]any{"heights": len(blocks), "replicas": len(in.Replicas), "tip": obs[len(obs)-1]}, c01CoqCase(c, in, run.blocks, obs))
	return nil
}

func in01Faun(c *c05Chain) bool {
	_, ok := c.bc.GetConfig().Hardforks[config.HFFaun.String()]
	return ok
}

// c01Tag: non-trivial = the committee changed at least once and a Policy block/unblock succeeded.
func c01Tag(ops []c05Op, blocks []*c05BlockRec) (string, bool) {
	changed, blk, contract := 0, 0, 0
	var last string
	for _, b := range blocks {
		s := fmt.Sprint(b.Dump.Committee)
		if last != "" && s != last {
			changed++
		}
		last = s
		for _, t := range b.Txs {
			if t.Op < 0 {
				continue
			}
			switch ops[t.Op].T {
			case "block", "unblock":
				if t.Res == 1 {
					blk++
				}
			case "deploy", "cupdate", "cdestroy", "cfill", "csweep":
				if t.Halt {
					contract++
				}
			}
		}
	}
	cls := func(n int) string {
		switch {
		case n == 0:
			return "0"
		case n < 3:
			return "few"
		}
		return "many"
	}
	return fmt.Sprintf("committee-changes-%s/block-unblock-%s/contract-ops-%s", cls(changed), cls(blk), cls(contract)), changed > 0 && blk > 0
}

func runC01(args []string) error {
	cf, fs := parseCommon("c01", args)
	fs.Parse(args)
	co := newCaseOut(cf.out, "Harness.C01", "Z",
		"random block histories on a source node (C05 token/governance mix with candidates voted into the committee, Policy block/unblock and fee changes, "+
			"designations of several roles across blocks (answered at historic heights), deploy/update/whitelist/destroy/redeploy lives of storage contracts, "+
			"NotaryAssisted transactions, iterators whose values are kept across Next, storage-heavy and faulting invocations), replayed on replicas differing in "+
			"backend (memory/LevelDB/BoltDB), flush points, KeepOnlyLatestState, RemoveUntraceableBlocks+GC, SkipBlockVerification, VerifyTransactions, mempool junk "+
			"and restart heights (one replica per restart height on chains up to 40 blocks); one case = one history, compared at every height on every replica; "+
			"non-trivial = the committee changed and a Policy block/unblock succeeded; distinct by Coq term")
	co.shard = 4
	stats := map[string]int{}
	defer func() {
		co.extra["x_replicas"] = stats["replicas"]
		co.extra["x_heights_compared"] = stats["heights"]
		co.extra["x_restarts"] = stats["restarts"]
		for k, v := range stats {
			if strings.HasPrefix(k, "x_fault_") {
				co.extra[k] = v
			}
		}
	}()
	if cf.replay != "" {
		cases, err := readReplay(cf.replay)
		if err != nil {
			return err
		}
		for _, cs := range cases {
			var x struct {
				Kind  string   `json:"kind"`
				Input c01Input `json:"input"`
			}
			if err := json.Unmarshal(cs, &x); err != nil {
				return err
			}
			if err := c01RunCase(co, x.Input, nil, nil, stats); err != nil {
				return err
			}
		}
		co.extra["x_replicas"] = stats["replicas"]
		co.extra["x_heights_compared"] = stats["heights"]
		co.extra["x_restarts"] = stats["restarts"]
		for k, v := range stats {
			if strings.HasPrefix(k, "x_fault_") {
				co.extra[k] = v
			}
		}
		return co.finish()
	}
	r := newRng(cf.seed)
	hfs := []string{"gorgon", "all", "echidna", "gorgon"}
	for i := 0; i < cf.n; i++ {
		nb := 14 + r.intn(22)
		if cf.tier == "thorough" && r.chance(25) {
			nb = 40 + r.intn(40)
		}
		sub := newRng(r.next())
		rsub := newRng(r.next())
		in := c01Input{Proto: c01Proto{HF: hfs[i%len(hfs)], SRInHdr: i%3 == 1, SmallMTB: i%2 == 1}}
		err := c01RunCase(co, in,
			func(c *c05Chain, run *c05Runner) ([]c05Op, error) { return c01Generate(sub, c, run, nb) },
			func(nblocks int) []c01Replica { return c01Replicas(rsub, nblocks, cf.tier) }, stats)
		if err != nil {
			return err
		}
	}
	co.extra["x_replicas"] = stats["replicas"]
	co.extra["x_heights_compared"] = stats["heights"]
	co.extra["x_restarts"] = stats["restarts"]
	for k, v := range stats {
		if strings.HasPrefix(k, "x_fault_") {
			co.extra[k] = v
		}
	}
	return co.finish()
}

var _ = state.Contract{}
