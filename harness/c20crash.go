package main

// C20 (iii): state synchronisation with CRASHES. The syncing node runs over the recording store of the C02 harness
// (c02Rec, c02.go: every batch handed to the backend is recorded; any prefix of the batches can be materialised), the
// periodic flush timer is moved out of the way (core.VerifSetPersistInterval) and the harness flushes after every
// operation (Blockchain.VerifPersist), so the batch sequence is: the module's own PersistSync's (end of headers, end of MPT
// stage, end of blocks stage), the batches of the state jump (jumpToStateInternal persists after every stage), and one
// batch per operation.  A crash after batch k = a fresh backend holding batches 0..k and nothing of the write cache.
// For every chosen k: the node must open, resume the synchronisation where the durable state says, finish it, have the
// source's state roots from the sync point on, the source's contract storage, and accept the following blocks in lockstep.
//
// Not placed (see notes, H1): a flush BETWEEN two Puts of one AddMPTNodes call.

import (
	"encoding/json"
	"fmt"
	"sort"
	"strings"
	"time"

	"github.com/nspcc-dev/neo-go/pkg/config"
	"github.com/nspcc-dev/neo-go/pkg/core"
	"github.com/nspcc-dev/neo-go/pkg/core/block"
	"github.com/nspcc-dev/neo-go/pkg/core/storage"
	"github.com/nspcc-dev/neo-go/pkg/neotest/chain"
)

type c20CrashInput struct {
	Src    c20SrcParams `json:"src"`
	Remote uint32       `json:"remote"`
	Batch  int          `json:"batch"` // MPT nodes per AddMPTNodes call (1 = single nodes)
	After  int          `json:"after"` // blocks added the ordinary way after the jump before the run ends
	Ops    []int        `json:"ops"`   // crash points: numbers of batches that reached the backend (0 = nothing); -1 = all
}

type c20CrashPoint struct {
	K     int    `json:"k"`
	Stage string `json:"stage"` // what the node was doing when batch k-1 was written
	OK    bool   `json:"ok"`
	Note  string `json:"note,omitempty"`
}

type c20CrashImpl struct {
	Batches int             `json:"batches"`
	Stages  map[string]int  `json:"stages"` // batches per stage
	Points  []c20CrashPoint `json:"points"`
}

func c20OpenOver(st storage.Store, trusted config.HashIndex) (*core.Blockchain, *c20TB, string) {
	tb := &c20TB{}
	var bc *core.Blockchain
	p := catch(func() {
		bc, _ = chain.NewSingleWithOptions(tb, &chain.Options{Logger: c20Logger(), BlockchainConfigHook: func(c *config.Blockchain) {
			c20BoltCfg(c)
			c.TrustedHeader = trusted
		}, Store: st, SkipRun: true})
	})
	if p != "" {
		return nil, tb, p
	}
	go bc.Run()
	return bc, tb, ""
}

// drive the synchronisation from whatever state the node is in; step is called after every operation with the stage name
func c20Drive(src *c20Source, bc *core.Blockchain, remote uint32, nodeBatch int, nodes map[string][]byte, upTo uint32, step func(stage string) error) error {
	m := bc.GetStateSyncModule()
	if err := m.Init(remote); err != nil {
		return fmt.Errorf("statesync Init: %w", err)
	}
	if err := step("init"); err != nil {
		return err
	}
	for guard := 0; m.IsActive() && guard < 100000; guard++ {
		stage := ""
		switch {
		case m.NeedHeaders():
			stage = "headers"
			from := max(bc.HeaderHeight()+1, bc.GetConfig().TrustedHeader.Index)
			to := min(from+3, src.height)
			var hs []*block.Header
			for i := from; i <= to; i++ {
				hs = append(hs, src.header(i))
			}
			if len(hs) == 0 {
				return fmt.Errorf("headers requested but none left (header height %d)", bc.HeaderHeight())
			}
			if err := m.AddHeaders(hs...); err != nil {
				return fmt.Errorf("AddHeaders(%d..%d): %w", from, to, err)
			}
		case m.NeedStorageData():
			stage = "mpt"
			need := m.GetUnknownMPTNodesBatch(1 << 20)
			if len(need) == 0 {
				return fmt.Errorf("MPT data needed but nothing is requested")
			}
			sort.Slice(need, func(i, j int) bool { return need[i].Compare(need[j]) < 0 })
			var add [][]byte
			for _, h := range need[:min(nodeBatch, len(need))] {
				nb, ok := nodes[string(h[:])]
				if !ok {
					return fmt.Errorf("node %s requested, not part of the source state", h.StringLE())
				}
				add = append(add, nb)
			}
			if err := m.AddMPTNodes(add); err != nil {
				return fmt.Errorf("AddMPTNodes: %w", err)
			}
		case m.NeedBlocks():
			stage = "blocks"
			i := m.BlockHeight() + 1
			if i > src.height {
				return fmt.Errorf("block %d requested", i)
			}
			if !m.IsActive() || m.GetStateSyncPoint() == i {
				stage = "jump" // this AddBlock completes the stage and performs the state jump
			}
			if err := m.AddBlock(src.block(i)); err != nil {
				return fmt.Errorf("statesync AddBlock(%d): %w", i, err)
			}
		default:
			return fmt.Errorf("active module needs nothing")
		}
		if err := step(stage); err != nil {
			return err
		}
	}
	for i := bc.BlockHeight() + 1; i <= upTo; i++ {
		if err := bc.AddBlock(src.block(i)); err != nil {
			return fmt.Errorf("block %d after the sync point: %w", i, err)
		}
		if err := step("after"); err != nil {
			return err
		}
	}
	return nil
}

func c20RunCrashCase(co *caseOut, raw json.RawMessage) error {
	var in c20CrashInput
	if err := json.Unmarshal(raw, &in); err != nil {
		return err
	}
	if in.Batch < 1 {
		in.Batch = 1
	}
	core.VerifSetPersistInterval(time.Hour)
	src := c20GetSource(in.Src)
	P := (in.Remote / c20Interval) * c20Interval
	nodes := map[string][]byte{}
	for _, n := range src.nodes(src.root(P)) {
		nodes[string(n.h[:])] = n.bytes
	}
	impl := c20CrashImpl{Stages: map[string]int{}}
	var viol []string
	// ---- the recorded run ----
	stage := "open"
	var stages []string
	rec := &c02Rec{base: storage.NewMemoryStore()}
	rec.onBatch = func(i int) { stages = append(stages, stage) }
	// a light node is configured with a trusted header (as in the repository's own state-sync test): the state jump removes
	// the genesis block, and on a chain shorter than one page of header hashes a restart walks the headers back to it
	if P < 16 {
		return fmt.Errorf("crash cases need a sync point >= 16 (trusted header above 8): %s", string(raw))
	}
	ti := P - c20Traceable - 1
	trusted := config.HashIndex{Hash: src.bc.GetHeaderHash(ti), Index: ti}
	bc, tb, perr := c20OpenOver(rec, trusted)
	if perr != "" {
		return fmt.Errorf("recorded node does not open: %s", perr)
	}
	upTo := min(P+uint32(in.After), src.height)
	var derr error
	if p := catch(func() {
		derr = c20Drive(src, bc, in.Remote, in.Batch, nodes, upTo, func(st string) error {
			// batches written during the operation (the module's own PersistSync, the jump's stages) belong to its stage
			for i := range stages {
				if stages[i] == "?" {
					stages[i] = st
				}
			}
			stage = st
			_, err := bc.VerifPersist()
			stage = "?"
			return err
		})
	}); p != "" {
		derr = fmt.Errorf("panic: %s", p)
	}
	for i := range stages {
		if stages[i] == "?" {
			stages[i] = "end"
		}
	}
	catch(func() { bc.Close() })
	tb.done()
	if derr != nil {
		return fmt.Errorf("crash-free recorded run fails (%s): %v", string(raw), derr)
	}
	rec.mu.Lock()
	batches := append([]c02Batch{}, rec.batches...)
	rec.mu.Unlock()
	impl.Batches = len(batches)
	for len(stages) < len(batches) {
		stages = append(stages, "end")
	}
	for _, s := range stages[:len(batches)] {
		impl.Stages[s]++
	}
	// ---- crash points ----
	want := map[int]bool{}
	all := len(in.Ops) == 1 && in.Ops[0] == -1
	for _, k := range in.Ops {
		if k >= 0 {
			want[k%(len(batches)+1)] = true
		}
	}
	for k := 0; k <= len(batches); k++ {
		last := k > 0 && (k == len(batches) || stages[k-1] != stages[k]) // right after the last batch of a stage
		inJump := k > 0 && stages[k-1] == "jump" || k < len(batches) && stages[k] == "jump"
		if all || last || inJump {
			want[k] = true
		}
	}
	var ks []int
	for k := range want {
		ks = append(ks, k)
	}
	sort.Ints(ks)
	wantTop := src.content(src.root(src.height))
	for _, k := range ks {
		pt := c20CrashPoint{K: k, Stage: "start"}
		if k > 0 {
			pt.Stage = stages[k-1]
		}
		fail := func(f string, a ...any) {
			pt.Note = fmt.Sprintf(f, a...)
			viol = append(viol, fmt.Sprintf("crash during state sync (stage %s): after a restart from the durable state the node %s", pt.Stage, pt.Note))
		}
		st := storage.NewMemoryStore()
		if err := c02Apply(st, batches[:k]); err != nil {
			return err
		}
		bc2, tb2, perr := c20OpenOver(st, trusted)
		if perr != "" {
			if i := strings.Index(perr, "Error:"); i >= 0 { // the message inside neotest's assertion report
				perr = perr[i+6:]
				if j := strings.Index(perr, "Test:"); j >= 0 {
					perr = perr[:j]
				}
			}
			fail("does not start: %s", strings.Join(strings.Fields(perr), " "))
			tb2.done()
			impl.Points = append(impl.Points, pt)
			continue
		}
		var err error
		if p := catch(func() {
			err = c20Drive(src, bc2, in.Remote, max(in.Batch, 8), nodes, src.height, func(string) error { return nil })
		}); p != "" {
			err = fmt.Errorf("panic: %s", p)
		}
		switch {
		case err != nil:
			fail("cannot finish the synchronisation / follow the chain: %v", err)
		case bc2.BlockHeight() != src.height:
			fail("stops at height %d of %d", bc2.BlockHeight(), src.height)
		default:
			pt.OK = true
			for i := P; i <= src.height && pt.OK; i++ {
				r, e := bc2.GetStateModule().GetStateRoot(i)
				if e != nil || r.Root != src.root(i) {
					pt.OK = false
					fail("has another state root at height %d than the source (%v)", i, e)
				}
			}
			if pt.OK {
				if ok, why := c20KVEqual(wantTop, c20Dump(bc2)); !ok {
					pt.OK = false
					fail("ends with other contract storage than the source: %s", why)
				}
			}
		}
		catch(func() { bc2.Close() })
		tb2.done()
		impl.Points = append(impl.Points, pt)
	}
	for _, v := range viol {
		co.violation("crash", v, in, impl)
	}
	var items []string
	code := map[string]int{"start": 0, "open": 0, "init": 1, "headers": 2, "mpt": 3, "blocks": 4, "jump": 5, "after": 6, "end": 7}
	for _, p := range impl.Points {
		items = append(items, fmt.Sprintf("(%d,%s)", code[p.Stage], coqBool(p.OK)))
	}
	co.add("crash", fmt.Sprintf("batch%d/points%d", min(in.Batch, 9), min(len(impl.Points)/10*10, 90)), impl.Stages["jump"] > 0 && len(impl.Points) > 5, in,
		map[string]any{"batches": impl.Batches, "stages": impl.Stages, "points": len(impl.Points)}, fmt.Sprintf("CCrash %s", coqList(items)))
	return nil
}

func init() { register("c20crash", runC20Crash) }

const c20CrashRule = "crash: the syncing node over a recording backend, flush after every operation; crash = a fresh backend with the first k batches; " +
	"k ranges over every batch of the state jump and the last batch of every stage (always) plus a seeded sample of the others (quick) or all of " +
	"them (thorough); header portions of 4, MPT nodes singly or in batches, 0-3 ordinary blocks after the jump; non-trivial when the jump wrote " +
	"batches and more than five crash points were tried"

func runC20Crash(args []string) error {
	cf, fs := parseCommon("c20crash", args)
	fs.Parse(args)
	co := newCaseOut(cf.out, "Harness.C20", "N", c20CrashRule)
	defer func() {
		for _, s := range c20Sources {
			s.close()
		}
	}()
	if cf.replay != "" {
		cases, err := readReplay(cf.replay)
		if err != nil {
			return err
		}
		for _, c := range cases {
			var x c20QCase
			if err := json.Unmarshal(c, &x); err != nil {
				return err
			}
			if err := c20RunCrashCase(co, x.Input); err != nil {
				return err
			}
		}
		return co.finish()
	}
	r := newRng(cf.seed)
	for i := 0; i < cf.n; i++ {
		// the trusted header of a state-syncing node must be above max(2 x interval, MaxTraceableBlocks) = 8 and not above the
		// first block of the window: sync points 16 and 20
		src := c20SrcParams{Seed: cf.seed*1000 + uint64(i%3), Height: 18 + 4*r.intn(2), PerBlock: 2 + r.intn(3)}
		P := uint32(16)
		if src.Height >= 21 && r.bool() {
			P = 20
		}
		in := c20CrashInput{Src: src, Remote: min(P+uint32(r.intn(c20Interval)), uint32(src.Height)), Batch: pick(r, []int{1, 1, 3, 8, 1000}), After: r.intn(4)}
		if cf.tier == "thorough" {
			in.Ops = []int{-1}
		} else {
			for j := 0; j < 12; j++ {
				in.Ops = append(in.Ops, r.intn(100000))
			}
		}
		raw, _ := json.Marshal(in)
		if err := c20RunCrashCase(co, raw); err != nil {
			return err
		}
	}
	return co.finish()
}
