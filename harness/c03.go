package main

// C03 — the state root of every height commits exactly to contract storage.
//
// A neotest chain (single validator) runs a generated history of blocks whose transactions drive a generic
// storage contract assembled from raw NeoVM (put / delete / get / find with option bits / destroy) plus native
// activity (GAS and NEO transfers, role designation).  After every block the live contract storage of ALL
// contracts is dumped through the DAO together with the results of a set of read-only invocations.  At the end,
// for EVERY retained height h the trie named by root_h is read back through the state module (FindStates,
// GetState, SeekStates, GetStateProof + mpt.VerifyProof) and through the TrieStore-backed historic DAO
// (GetTestHistoricVM: Seek in both directions, the same read-only invocations) and compared with what was
// recorded live at h.  The Coq side (Harness/C03.v) gets the per-block change sets with the batch the real
// MapToMPTBatch built from them, and the storage dumps (content recurrence).

import (
	"bytes"
	"context"
	"encoding/base64"
	"encoding/binary"
	"encoding/json"
	"errors"
	"fmt"
	"os"
	"sort"
	"strings"
	"testing"

	"github.com/nspcc-dev/neo-go/pkg/config"
	"github.com/nspcc-dev/neo-go/pkg/core"
	"github.com/nspcc-dev/neo-go/pkg/core/interop/interopnames"
	"github.com/nspcc-dev/neo-go/pkg/core/mpt"
	"github.com/nspcc-dev/neo-go/pkg/core/native/noderoles"
	"github.com/nspcc-dev/neo-go/pkg/core/state"
	"github.com/nspcc-dev/neo-go/pkg/core/storage"
	"github.com/nspcc-dev/neo-go/pkg/core/transaction"
	"github.com/nspcc-dev/neo-go/pkg/crypto/keys"
	"github.com/nspcc-dev/neo-go/pkg/encoding/fixedn"
	"github.com/nspcc-dev/neo-go/pkg/io"
	"github.com/nspcc-dev/neo-go/pkg/neorpc"
	"github.com/nspcc-dev/neo-go/pkg/neorpc/result"
	"github.com/nspcc-dev/neo-go/pkg/neotest"
	"github.com/nspcc-dev/neo-go/pkg/neotest/chain"
	"github.com/nspcc-dev/neo-go/pkg/services/rpcsrv"
	"github.com/nspcc-dev/neo-go/pkg/smartcontract"
	"github.com/nspcc-dev/neo-go/pkg/smartcontract/callflag"
	"github.com/nspcc-dev/neo-go/pkg/smartcontract/manifest"
	"github.com/nspcc-dev/neo-go/pkg/smartcontract/nef"
	"github.com/nspcc-dev/neo-go/pkg/smartcontract/trigger"
	"github.com/nspcc-dev/neo-go/pkg/util"
	"github.com/nspcc-dev/neo-go/pkg/vm/emit"
	"github.com/nspcc-dev/neo-go/pkg/vm/opcode"
	"github.com/nspcc-dev/neo-go/pkg/vm/stackitem"
	"go.uber.org/zap"
)

func init() { register("c03", runC03); register("c03seek", runC03Seek) }

// ---- testing.TB outside `go test` ----

type c03T struct {
	testing.TB
	cleanups []func()
}
type c03Fail struct{ msg string }

func (t *c03T) Helper()                   {}
func (t *c03T) Name() string              { return "nghx-c03" }
func (t *c03T) Logf(string, ...any)       {}
func (t *c03T) Log(...any)                {}
func (t *c03T) Errorf(f string, a ...any) { panic(c03Fail{fmt.Sprintf(f, a...)}) }
func (t *c03T) Fatalf(f string, a ...any) { panic(c03Fail{fmt.Sprintf(f, a...)}) }
func (t *c03T) Fatal(a ...any)            { panic(c03Fail{fmt.Sprint(a...)}) }
func (t *c03T) Error(a ...any)            { panic(c03Fail{fmt.Sprint(a...)}) }
func (t *c03T) FailNow()                  { panic(c03Fail{"FailNow"}) }
func (t *c03T) Fail()                     { panic(c03Fail{"Fail"}) }
func (t *c03T) Failed() bool              { return false }
func (t *c03T) Cleanup(f func())          { t.cleanups = append(t.cleanups, f) }
func (t *c03T) done() {
	for i := len(t.cleanups) - 1; i >= 0; i-- {
		t.cleanups[i]()
	}
}

// ---- the generic storage contract, raw NeoVM ----

func c03Code(f func(w *io.BinWriter)) []byte {
	w := io.NewBufBinWriter()
	f(w.BinWriter)
	if w.Err != nil {
		panic(w.Err)
	}
	return w.Bytes()
}

type c03Method struct {
	name    string
	nparams int
	void    bool
	safe    bool
	body    []byte
}

func c03Contract(sender util.Uint160, name string, mgmt util.Uint160, version int) *neotest.Contract {
	methods := []c03Method{
		{"put", 2, true, false, c03Code(func(w *io.BinWriter) { // stack: key (top), value
			emit.Syscall(w, interopnames.SystemStorageGetContext)
			emit.Syscall(w, interopnames.SystemStoragePut)
			emit.Opcodes(w, opcode.RET)
		})},
		{"del", 1, true, false, c03Code(func(w *io.BinWriter) {
			emit.Syscall(w, interopnames.SystemStorageGetContext)
			emit.Syscall(w, interopnames.SystemStorageDelete)
			emit.Opcodes(w, opcode.RET)
		})},
		{"get", 1, false, true, c03Code(func(w *io.BinWriter) {
			emit.Syscall(w, interopnames.SystemStorageGetReadOnlyContext)
			emit.Syscall(w, interopnames.SystemStorageGet)
			emit.Opcodes(w, opcode.RET)
		})},
		{"find", 2, false, true, c03Code(func(w *io.BinWriter) { // find(prefix, options) -> array of iterator values
			emit.InitSlot(w, 2, 2)                                          // 0
			emit.Opcodes(w, opcode.LDARG1, opcode.LDARG0)                   // 3
			emit.Syscall(w, interopnames.SystemStorageGetReadOnlyContext)   // 5
			emit.Syscall(w, interopnames.SystemStorageFind)                 // 10
			emit.Opcodes(w, opcode.STLOC0, opcode.NEWARRAY0, opcode.STLOC1) // 15
			emit.Opcodes(w, opcode.LDLOC0)                                  // 18 loop
			emit.Syscall(w, interopnames.SystemIteratorNext)                // 19
			emit.Instruction(w, opcode.JMPIFNOT, []byte{12})                // 24 -> 36
			emit.Opcodes(w, opcode.LDLOC1, opcode.LDLOC0)                   // 26
			emit.Syscall(w, interopnames.SystemIteratorValue)               // 28
			emit.Opcodes(w, opcode.APPEND)                                  // 33
			emit.Instruction(w, opcode.JMP, []byte{byte(0x100 - 16)})       // 34 -> 18
			emit.Opcodes(w, opcode.LDLOC1, opcode.RET)                      // 36
		})},
		{"destroy", 0, true, false, c03Code(func(w *io.BinWriter) {
			emit.AppCall(w, mgmt, "destroy", callflag.All)
			emit.Opcodes(w, opcode.DROP, opcode.RET) // a call of a void method leaves Null behind
		})},
		{"upd", 2, true, false, c03Code(func(w *io.BinWriter) { // upd(nef, manifest): ContractManagement.update of itself
			emit.Opcodes(w, opcode.PUSH2, opcode.PACK)
			emit.AppCallNoArgs(w, mgmt, "update", callflag.All)
			emit.Opcodes(w, opcode.DROP, opcode.RET)
		})},
	}
	var script []byte
	m := manifest.NewManifest(name)
	for _, md := range methods {
		ps := make([]manifest.Parameter, md.nparams)
		for i := range ps {
			ps[i] = manifest.Parameter{Name: fmt.Sprintf("a%d", i), Type: smartcontract.AnyType}
		}
		rt := smartcontract.AnyType
		if md.void {
			rt = smartcontract.VoidType
		}
		m.ABI.Methods = append(m.ABI.Methods, manifest.Method{Name: md.name, Offset: len(script), Parameters: ps, ReturnType: rt, Safe: md.safe})
		script = append(script, md.body...)
	}
	for i := 0; i < version; i++ {
		script = append(script, byte(opcode.NOP))
	}
	m.Permissions = []manifest.Permission{*manifest.NewPermission(manifest.PermissionWildcard)}
	config.Version = "0.0.0"
	ne, err := nef.NewFile(script)
	if err != nil {
		panic(err)
	}
	h := state.CreateContractHash(sender, ne.Checksum, m.Name)
	return &neotest.Contract{Hash: h, NEF: ne, Manifest: m}
}

// ---- input ----

type c03Tx struct {
	T    string      `json:"t"`              // "deploy" | "kv" | "destroy" | "update" | "gas" | "neo" | "role"
	Slot int         `json:"slot,omitempty"` // contract slot (its name is "c<slot>")
	KV   [][2]string `json:"kv,omitempty"`   // kv: [key hex, value hex | "-" (delete)] in execution order
	Amt  int64       `json:"amt,omitempty"`
	To   int         `json:"to,omitempty"`
	Fail bool        `json:"fail,omitempty"` // kv: ABORT at the end of the script (everything is rolled back)
}

type c03Block struct {
	// Drop: before this block a DIFFERENT block for the same height is executed up to and including AddMPTBatch and then
	// refused (hook VerifDropMPTBatch: what storeBlock's error returns leave behind); its storage changes:
	// [contract id ++ key hex, value hex | "-"]
	Drop    [][2]string `json:"drop,omitempty"`
	Txs     []c03Tx     `json:"txs"`
	Persist int         `json:"persist,omitempty"` // after the block: 1 = flush the write cache, 2 = flush + GC tick
}

type c03Probe struct {
	T    string `json:"t"` // "get" | "find" | "neo" | "gas" | "role" | "mgmt"
	Slot int    `json:"slot,omitempty"`
	Key  string `json:"key,omitempty"`
	Opts int    `json:"opts,omitempty"`
}

type c03Input struct {
	// NoKnown: do not report the classes of violation that known_findings.json lists as OPEN for C03 (they are
	// reported by the corpus cases on every run; repeating them on every generated chain would let the shrinker of
	// ./check drift from a new failure to a listed one).  Set by the generator, never in corpus cases.
	NoKnown bool       `json:"no_known,omitempty"`
	Cfg     string     `json:"cfg"` // "full" | "srh" | "latest" | "gc"
	Ops     []c03Block `json:"ops"`
	Probes  []c03Probe `json:"probes"`
	Absent  []string   `json:"absent"` // extra storage keys (contract-relative, per slot 0..) probed for absence
}

// batch cases are re-runnable on their own: the change set of one block
type c03BatchInput struct {
	Changes [][2]string `json:"changes"` // [storage key hex (with the 0x70 prefix), value hex | "-"]
}

// ---- classes of violation that belong to listed findings ----

var c03KnownClasses = []string{
	"TrieStore-backed Seek backwards with a start point",
	"TrieStore-backed Seek forwards with a start point",
	"historic getDesignatedByRole",
	"GetTestHistoricVM fails for a retained height",
}

// c03OpenKnown: which of the classes above are listed as open findings of C03 right now.
func c03OpenKnown() map[string]bool {
	res := map[string]bool{}
	path := os.Getenv("VERIF_KNOWN")
	if path == "" {
		path = "/verif/known_findings.json"
	}
	b, err := os.ReadFile(path)
	if err != nil {
		return res
	}
	var k struct {
		Findings []struct {
			Property string `json:"property"`
			Match    struct {
				Regex string `json:"regex"`
			} `json:"match"`
		} `json:"findings"`
	}
	if json.Unmarshal(b, &k) != nil {
		return res
	}
	for _, f := range k.Findings {
		if f.Property != "C03" {
			continue
		}
		for _, c := range c03KnownClasses {
			if strings.Contains(f.Match.Regex, c) {
				res[c] = true
			}
		}
	}
	return res
}

// ---- helpers ----

type c03KV struct {
	K, V []byte
}

func c03Sorted(m map[string][]byte) []c03KV {
	out := make([]c03KV, 0, len(m))
	for k, v := range m {
		out = append(out, c03KV{[]byte(k), v})
	}
	sort.Slice(out, func(i, j int) bool { return bytes.Compare(out[i].K, out[j].K) < 0 })
	return out
}

// c03Vals interns values: the model treats storage values as opaque (only their equality matters), so a case
// carries each distinct value as a one-number token; keys are carried in full.
type c03Vals struct{ m map[string]int }

func (x *c03Vals) tok(v []byte) string {
	if x == nil {
		return coqBytes(v)
	}
	id, ok := x.m[string(v)]
	if !ok {
		id = len(x.m) + 1
		x.m[string(v)] = id
	}
	return fmt.Sprintf("[%d]", id)
}

func c03CoqKVs(vals *c03Vals, kvs []c03KV) string {
	out := make([]string, 0, len(kvs))
	for _, kv := range kvs {
		out = append(out, fmt.Sprintf("(%s, %s)", coqBytes(kv.K), vals.tok(kv.V)))
	}
	return coqList(out)
}

func c03CoqChanges(vals *c03Vals, ch [][2][]byte) string { // (key, option value)
	out := make([]string, 0, len(ch))
	for _, p := range ch {
		if p[1] == nil {
			out = append(out, fmt.Sprintf("(%s, None)", coqBytes(p[0])))
		} else {
			out = append(out, fmt.Sprintf("(%s, Some %s)", coqBytes(p[0]), vals.tok(p[1])))
		}
	}
	return coqList(out)
}

func c03AccHash(i int) util.Uint160 {
	var u util.Uint160
	u[0] = 0xAC
	u[19] = byte(i + 1)
	return u
}

func c03PubKey(i int) *keys.PublicKey {
	b := make([]byte, 32)
	b[31] = byte(i + 1)
	b[0] = 0x33
	k, err := keys.NewPrivateKeyFromBytes(b)
	if err != nil {
		panic(err)
	}
	return k.PublicKey()
}

type c03Res struct {
	State string `json:"state"`
	Stack string `json:"stack"`
	Fault string `json:"fault,omitempty"`
	Err   string `json:"err,omitempty"`
}

func c03StackJSON(items []stackitem.Item) string {
	var parts []string
	for _, it := range items {
		b, err := stackitem.ToJSONWithTypes(it)
		if err != nil {
			parts = append(parts, "\"!"+err.Error()+"\"")
		} else {
			parts = append(parts, string(b))
		}
	}
	return "[" + strings.Join(parts, ",") + "]"
}

// c03Range is the specification of a range query on the flat storage of one height (the range_query C09 proves for
// every store of the node, Store/Spec.v; restated in StateRoot/Model.v sm_range): keys with the prefix, prefix cut;
// forwards: suffix >= start; backwards: suffix <= start or suffix extends start; in the direction asked.
func c03Range(dump map[string][]byte, prefix, start []byte, backwards bool) (res []c03KV) {
	ps := append(append([]byte{}, prefix...), start...)
	for _, kv := range c03Sorted(dump) {
		if !bytes.HasPrefix(kv.K, prefix) {
			continue
		}
		c := bytes.Compare(kv.K, ps)
		if !backwards && c < 0 {
			continue
		}
		if backwards && c > 0 && !bytes.HasPrefix(kv.K, ps) {
			continue
		}
		res = append(res, c03KV{kv.K[len(prefix):], kv.V})
	}
	if backwards {
		for i, j := 0, len(res)-1; i < j; i, j = i+1, j-1 {
			res[i], res[j] = res[j], res[i]
		}
	}
	return res
}

// c03Query is one range in the key space of the trie (contract id ++ contract key; no storage prefix byte).
type c03Query struct {
	prefix, start []byte
	bw            bool
}

// c03Queries builds ranges that probe the structure of the trie holding keys: seek prefixes ending above a single leaf,
// inside the path shared by all items below them, at a branch, at a leaf and beyond; start points that are a proper
// part of that shared path, equal to it, diverging below / above it, equal to / around / extending items, of every
// length from 0 to a full key; both directions.
func c03Queries(keys [][]byte, r *rng, limit int) []c03Query {
	seen := map[string]bool{}
	var out []c03Query
	add := func(p, s []byte) {
		id := hx(p) + "|" + hx(s)
		if s == nil {
			id += "nil"
		}
		if seen[id] {
			return
		}
		seen[id] = true
		out = append(out, c03Query{bytes.Clone(p), bytes.Clone(s), false}, c03Query{bytes.Clone(p), bytes.Clone(s), true})
	}
	bump := func(b []byte, i int, d byte) []byte {
		c := bytes.Clone(b)
		c[i] += d
		return c
	}
	var prefixes [][]byte
	pseen := map[string]bool{}
	addP := func(p []byte) {
		if !pseen[string(p)] {
			pseen[string(p)] = true
			prefixes = append(prefixes, bytes.Clone(p))
		}
	}
	addP([]byte{})
	for i, k := range keys {
		if len(keys) > 12 && i%(len(keys)/12+1) != 0 {
			continue
		}
		for l := 1; l <= len(k); l++ {
			addP(k[:l])
		}
		addP(append(bytes.Clone(k), 0x00))
		if len(k) > 0 {
			addP(bump(k, len(k)-1, 1))
		}
	}
	for _, p := range prefixes {
		var items [][]byte
		for _, k := range keys {
			if bytes.HasPrefix(k, p) {
				items = append(items, k[len(p):])
			}
		}
		add(p, nil)
		if len(items) == 0 {
			add(p, []byte{0x61})
			continue
		}
		shared := bytes.Clone(items[0])
		for _, it := range items[1:] {
			n := 0
			for n < len(shared) && n < len(it) && shared[n] == it[n] {
				n++
			}
			shared = shared[:n]
		}
		for l := 1; l <= len(shared); l++ { // proper parts of the shared path, then the shared path itself
			add(p, shared[:l])
		}
		if len(shared) > 0 {
			add(p, bump(shared, len(shared)-1, 0xff)) // diverging below
			add(p, bump(shared, len(shared)-1, 1))    // diverging above
			add(p, bump(shared, 0, 0xff))
			add(p, bump(shared, 0, 1))
			if len(shared) > 1 {
				add(p, bump(shared[:len(shared)-1], len(shared)-2, 1))
			}
		}
		add(p, append(bytes.Clone(shared), 0x00))
		add(p, append(bytes.Clone(shared), 0xff))
		for i, it := range items {
			if len(items) > 4 && i%(len(items)/4+1) != 0 {
				continue
			}
			for l := 0; l <= len(it); l++ {
				add(p, it[:l])
			}
			add(p, append(bytes.Clone(it), 0x00))
			if len(it) > 0 {
				add(p, bump(it, len(it)-1, 0xff))
				add(p, bump(it, len(it)-1, 1))
			}
		}
	}
	if np, want := len(out)/2, limit/2; limit > 0 && np > want && want > 0 {
		// a spread sample; the forward and the backward query of a range stay together
		step := (np + want - 1) / want
		var s2 []c03Query
		for i := r.intn(step); i < np; i += step {
			s2 = append(s2, out[2*i], out[2*i+1])
		}
		out = s2
	}
	return out
}

// c03TrieStoreSeek drives mpt.TrieStore directly through the storage.Store interface.
func c03TrieStoreSeek(root util.Uint256, mode mpt.TrieMode, st storage.Store, q c03Query) (got []c03KV, panicked string) {
	pre := append([]byte{byte(storage.STStorage)}, q.prefix...)
	panicked = catch(func() {
		var ts storage.Store = mpt.NewTrieStore(root, mode, st)
		ts.Seek(storage.SeekRange{Prefix: bytes.Clone(pre), Start: bytes.Clone(q.start), Backwards: q.bw}, func(k, v []byte) bool {
			if len(k) >= len(pre) {
				got = append(got, c03KV{bytes.Clone(k[len(pre):]), bytes.Clone(v)})
			} else {
				got = append(got, c03KV{bytes.Clone(k), bytes.Clone(v)})
			}
			return true
		})
	})
	return got, panicked
}

func c03EqKVs(a, b []c03KV) bool {
	if len(a) != len(b) {
		return false
	}
	for i := range a {
		if !bytes.Equal(a[i].K, b[i].K) || !bytes.Equal(a[i].V, b[i].V) {
			return false
		}
	}
	return true
}

func c03ShowKVs(a []c03KV) []string {
	out := []string{}
	for i, kv := range a {
		if i >= 8 {
			out = append(out, "...")
			break
		}
		out = append(out, hx(kv.K)+"="+hx(kv.V))
	}
	return out
}

// ---- batch case (pure): the real MapToMPTBatch on a change set ----

func c03RunBatch(co *caseOut, in c03BatchInput, r *rng) {
	m := map[string][]byte{}
	var changes [][2][]byte
	for _, p := range in.Changes {
		k := unhx(p[0])
		var v []byte
		if p[1] != "-" {
			v = unhx(p[1])
			if v == nil {
				v = []byte{}
			}
		}
		changes = append(changes, [2][]byte{k, v})
	}
	// the map is filled in a shuffled order (Go randomises map iteration on top of that)
	perm := make([]int, len(changes))
	for i := range perm {
		perm[i] = i
	}
	for i := len(perm) - 1; i > 0; i-- {
		j := r.intn(i + 1)
		perm[i], perm[j] = perm[j], perm[i]
	}
	for _, i := range perm {
		m[string(changes[i][0])] = changes[i][1]
	}
	ks, vs := mpt.MapToMPTBatch(m).VerifC11BatchKV()
	ks2, vs2 := mpt.MapToMPTBatch(m).VerifC11BatchKV()
	same := len(ks) == len(ks2)
	for i := 0; same && i < len(ks); i++ {
		same = bytes.Equal(ks[i], ks2[i]) && bytes.Equal(vs[i], vs2[i]) && (vs[i] == nil) == (vs2[i] == nil)
	}
	if !same {
		co.violation("batch", "two MapToMPTBatch calls on the same change map give different batches", in, nil)
	}
	var impl [][2][]byte
	for i := range ks {
		impl = append(impl, [2][]byte{ks[i], vs[i]})
	}
	dels := 0
	for _, c := range changes {
		if c[1] == nil {
			dels++
		}
	}
	tag := "puts"
	if dels > 0 {
		tag = "puts+deletes"
	}
	co.add("batch", tag, len(changes) > 1, in, map[string]any{"n": len(ks)},
		func() string {
			vals := &c03Vals{m: map[string]int{}}
			return fmt.Sprintf("CBatch %s %s", c03CoqChanges(vals, changes), c03CoqChanges(vals, impl))
		}())
}

// ---- seek case (self-contained): a key set put into a fresh trie, one range through mpt.TrieStore ----

type c03SeekInput struct {
	Ops    [][2]string `json:"ops"`    // the trie's content: [key hex (contract id ++ key), value hex]
	Prefix string      `json:"prefix"` // seek prefix in the same key space (the harness adds the storage prefix byte)
	Start  *string     `json:"start"`  // null: no start point
	Bw     bool        `json:"bw"`
	RC     bool        `json:"rc,omitempty"` // nodes stored with the reference-counting suffix (ModeLatest)
}

func c03RunSeek(co *caseOut, in c03SeekInput) {
	mode := mpt.ModeAll
	if in.RC {
		mode = mpt.ModeLatest
	}
	st := storage.NewMemoryStore()
	dump := map[string][]byte{}
	var got []c03KV
	q := c03Query{prefix: unhx(in.Prefix), bw: in.Bw}
	if in.Start != nil {
		q.start = unhx(*in.Start)
		if q.start == nil {
			q.start = []byte{}
		}
	}
	p := catch(func() {
		mc := storage.NewMemCachedStore(st)
		tr := mpt.NewTrie(nil, mode, mc)
		for _, kv := range in.Ops {
			k, v := unhx(kv[0]), unhx(kv[1])
			if len(k) == 0 {
				continue
			}
			if v == nil {
				v = []byte{}
			}
			if err := tr.Put(k, v); err != nil {
				panic(err)
			}
			dump[string(k)] = v
		}
		tr.Flush(0)
		if _, err := mc.Persist(); err != nil {
			panic(err)
		}
		var pp string
		got, pp = c03TrieStoreSeek(tr.StateRoot(), mode, st, q)
		if pp != "" {
			panic(pp)
		}
	})
	if p != "" {
		co.violation("seek", "TrieStore.Seek over a freshly built trie panics: "+p, in, nil)
		return
	}
	want := c03Range(dump, q.prefix, q.start, q.bw)
	if !c03EqKVs(got, want) {
		dir := "forwards"
		if q.bw {
			dir = "backwards"
		}
		co.violation("seek", "TrieStore.Seek "+dir+" over a freshly built trie differs from the range query on its content", in,
			map[string]any{"got": c03ShowKVs(got), "want": c03ShowKVs(want)})
	}
	// classification of the start point against the path shared by the items below the prefix
	tag := "nostart"
	var shared []byte
	n := 0
	for k := range dump {
		if bytes.HasPrefix([]byte(k), q.prefix) {
			it := []byte(k)[len(q.prefix):]
			if n == 0 {
				shared = bytes.Clone(it)
			} else {
				m := 0
				for m < len(shared) && m < len(it) && shared[m] == it[m] {
					m++
				}
				shared = shared[:m]
			}
			n++
		}
	}
	switch {
	case n == 0:
		tag = "nothing-below-prefix"
	case len(q.start) == 0:
	case len(q.start) < len(shared) && bytes.HasPrefix(shared, q.start):
		tag = "start-proper-part-of-shared-path"
	case bytes.Equal(shared, q.start):
		tag = "start-is-shared-path"
	case bytes.HasPrefix(q.start, shared):
		tag = "start-inside-subtrie"
	case bytes.Compare(q.start, shared) < 0:
		tag = "start-diverges-below"
	default:
		tag = "start-diverges-above"
	}
	if q.bw {
		tag = "bwd/" + tag
	} else {
		tag = "fwd/" + tag
	}
	vals := &c03Vals{m: map[string]int{}}
	co.add("seek", tag, n > 0 && len(q.start) > 0, in, map[string]any{"n": len(got)},
		fmt.Sprintf("CSeek %s %s %s %s %s", c03CoqKVs(vals, c03Sorted(dump)), coqBytes(q.prefix), coqBytes(q.start), coqBool(q.bw), c03CoqKVs(vals, got)))
}

func c03GenSeekSets(r *rng) [][2][]byte {
	id := pick(r, [][]byte{{1, 0, 0, 0}, {0xfa, 0xff, 0xff, 0xff}, {2, 0, 0, 0}})
	var bodies [][]byte
	switch r.intn(5) {
	case 0: // items sharing a long path below a short prefix: acct/alice, acct/bob, acct/al, acct/
		for _, t := range []string{"alice", "bob", "al", "", "alicf", "b"} {
			if r.chance(60) {
				bodies = append(bodies, []byte("acct/"+t))
			}
		}
	case 1: // a single item
		bodies = append(bodies, pick(r, [][]byte{[]byte("acct/alice"), {0x0a}, {0x61, 0x62, 0x63}, {}}))
	case 2: // keys that are prefixes of one another
		k := []byte{}
		for i, m := 0, 2+r.intn(4); i < m; i++ {
			k = append(k, pick(r, []byte{0x61, 0x62, 0x00, 0xff}))
			if r.chance(70) {
				bodies = append(bodies, bytes.Clone(k))
			}
		}
		if r.chance(50) {
			bodies = append(bodies, []byte{})
		}
	case 3: // a branch right below the contract id, with shared paths further down
		for i, m := 0, 2+r.intn(4); i < m; i++ {
			b := []byte{pick(r, []byte{0x10, 0x11, 0x61, 0xf0})}
			b = append(b, pick(r, [][]byte{{}, {0x62, 0x63}, {0x62, 0x64}, {0x00}})...)
			bodies = append(bodies, b)
		}
	default: // two contracts: the path below a prefix shorter than the id
		bodies = append(bodies, []byte("k1"), []byte("k2"))
	}
	var out [][2][]byte
	seen := map[string]bool{}
	for i, b := range bodies {
		k := append(bytes.Clone(id), b...)
		if i%2 == 1 && r.chance(20) {
			k[0] ^= 0x02 // another contract
		}
		if !seen[string(k)] {
			seen[string(k)] = true
			out = append(out, [2][]byte{k, pick(r, [][]byte{{1}, {2}, []byte("v"), {}})})
		}
	}
	if len(out) == 0 {
		out = append(out, [2][]byte{append(bytes.Clone(id), 0x61), {1}})
	}
	return out
}

// ---- the real RPC handlers (pkg/services/rpcsrv), called in-process through Server.RegisterLocal ----

type c03RPC struct {
	call   func(*neorpc.Request) (*neorpc.Response, error)
	cancel context.CancelFunc
	id     uint64
}

func c03NewRPC(bc *core.Blockchain) *c03RPC {
	cfg := config.RPC{MaxGasInvoke: fixedn.Fixed8FromInt64(100), MaxFindResultItems: 100}
	cfg.Enabled = true
	srv := rpcsrv.New(bc, cfg, nil, nil, zap.NewNop(), make(chan error, 4))
	ctx, cancel := context.WithCancel(context.Background())
	ev := make(chan neorpc.Notification, 64)
	go func() {
		for range ev {
		}
	}()
	return &c03RPC{call: srv.RegisterLocal(ctx, ev), cancel: cancel}
}

// do calls one handler; the result is the raw JSON result or the error message.
func (r *c03RPC) do(method string, ps ...any) (res json.RawMessage, errMsg string) {
	r.id++
	p := catch(func() {
		resp, err := r.call(&neorpc.Request{JSONRPC: neorpc.JSONRPCVersion, Method: method, Params: ps, ID: r.id})
		if err != nil {
			errMsg = "request failed: " + err.Error()
			return
		}
		if resp.Error != nil {
			errMsg = fmt.Sprintf("%d %s %s", resp.Error.Code, resp.Error.Message, resp.Error.Data)
			return
		}
		res = resp.Result
	})
	if p != "" {
		errMsg = "panic: " + p
	}
	return
}

// what of an invocation result is compared between the live and the historic call
func c03InvokeView(res json.RawMessage, errMsg string) string {
	if errMsg != "" {
		return "error: " + errMsg
	}
	var v struct {
		State     string          `json:"state"`
		Stack     json.RawMessage `json:"stack"`
		Exception *string         `json:"exception"`
	}
	if err := json.Unmarshal(res, &v); err != nil {
		return "undecodable: " + err.Error()
	}
	ex := ""
	if v.Exception != nil {
		ex = *v.Exception
		if len(ex) > 120 {
			ex = ex[:120]
		}
	}
	return v.State + " " + string(v.Stack) + " " + ex
}

func c03B64(b []byte) string { return base64.StdEncoding.EncodeToString(b) }

// ---- chain case ----

type c03Chain struct {
	t      *c03T
	bc     *core.Blockchain
	e      *neotest.Executor
	owner  neotest.Signer
	bottom storage.Store
	slots  map[int]*neotest.Contract
}

func c03NewChain(cfgName string) *c03Chain {
	t := &c03T{}
	bottom := storage.NewMemoryStore()
	bc, acc := chain.NewSingleWithOptions(t, &chain.Options{
		Logger: zap.NewNop(),
		Store:  bottom,
		BlockchainConfigHook: func(c *config.Blockchain) {
			c.Hardforks = map[string]uint32{}
			for _, hf := range config.Hardforks {
				c.Hardforks[hf.String()] = 0
			}
			c.P2PSigExtensions = true
			c.SaveStorageBatch = true
			switch cfgName {
			case "srh":
				c.StateRootInHeader = true
			case "latest":
				c.KeepOnlyLatestState = true
			case "gc":
				c.RemoveUntraceableBlocks = true
				c.MaxTraceableBlocks = 6
				c.Genesis.MaxTraceableBlocks = 6
				c.MaxValidUntilBlockIncrement = 3
				c.Genesis.MaxValidUntilBlockIncrement = 3
				c.GarbageCollectionPeriod = 2
			}
		},
	})
	e := neotest.NewExecutor(t, bc, acc, acc)
	return &c03Chain{t: t, bc: bc, e: e, owner: acc, bottom: bottom, slots: map[int]*neotest.Contract{}}
}

func (c *c03Chain) slot(i int) *neotest.Contract {
	if ct, ok := c.slots[i]; ok {
		return ct
	}
	ct := c03Contract(c.owner.ScriptHash(), fmt.Sprintf("c%d", i), c.bc.ManagementContractHash(), 0)
	c.slots[i] = ct
	return ct
}

func (c *c03Chain) buildTx(x c03Tx) *transaction.Transaction {
	if x.T == "deploy" {
		return c.e.NewDeployTx(c.t, c.slot(x.Slot), nil)
	}
	script := c03Code(func(w *io.BinWriter) {
		switch x.T {
		case "kv":
			h := c.slot(x.Slot).Hash
			for _, p := range x.KV {
				if p[1] == "-" {
					emit.AppCall(w, h, "del", callflag.All, unhx(p[0]))
				} else {
					emit.AppCall(w, h, "put", callflag.All, unhx(p[0]), unhx(p[1]))
				}
			}
			if x.Fail {
				emit.Opcodes(w, opcode.ABORT)
			}
		case "destroy":
			emit.AppCall(w, c.slot(x.Slot).Hash, "destroy", callflag.All)
		case "update":
			// the same contract (same hash, same id) with another script: its storage must stay where it is
			nc := c03Contract(c.owner.ScriptHash(), fmt.Sprintf("c%d", x.Slot), c.bc.ManagementContractHash(), 1+int(x.Amt))
			nb, err := nc.NEF.Bytes()
			if err != nil {
				panic(err)
			}
			mb, err := json.Marshal(nc.Manifest)
			if err != nil {
				panic(err)
			}
			emit.AppCall(w, c.slot(x.Slot).Hash, "upd", callflag.All, nb, mb)
		case "gas", "neo":
			name := "GasToken"
			if x.T == "neo" {
				name = "NeoToken"
			}
			emit.AppCall(w, c.e.NativeHash(c.t, name), "transfer", callflag.All, c.owner.ScriptHash(), c03AccHash(x.To), x.Amt, nil)
			emit.Opcodes(w, opcode.ASSERT)
		case "role":
			emit.AppCall(w, c.e.NativeHash(c.t, "RoleManagement"), "designateAsRole", callflag.All,
				int64(noderoles.Oracle), []any{c03PubKey(x.To).Bytes()})
		default:
			emit.Opcodes(w, opcode.NOP)
		}
	})
	tx := c.e.PrepareInvocationNoSign(c.t, script)
	// the system fee is taken from a test run on the state BEFORE the block; other transactions of the same block may
	// make the same script dearer (a key deleted earlier in the block is a new key again), hence the margin
	tx.Signers = []transaction.Signer{{Account: c.owner.ScriptHash(), Scopes: transaction.Global}}
	neotest.AddNetworkFee(c.t, c.bc, tx, c.owner)
	v, _ := c.e.TestInvoke(tx)
	tx.SystemFee = v.GasConsumed()*2 + 5_0000_0000
	if err := c.owner.SignTx(c.bc.GetConfig().Magic, tx); err != nil {
		panic(err)
	}
	return tx
}

// dump of the live contract storage of all contracts through the DAO (key = 4-byte LE id ++ contract key)
func (c *c03Chain) liveDump(maxID int32, extraIDs map[int32]bool) map[string][]byte {
	res := map[string][]byte{}
	ids := []int32{}
	for _, n := range c.bc.GetNatives() {
		ids = append(ids, n.ID)
	}
	for i := int32(-20); i <= maxID+2; i++ {
		ids = append(ids, i)
	}
	for i := range extraIDs {
		ids = append(ids, i)
	}
	seen := map[int32]bool{}
	for _, id := range ids {
		if seen[id] {
			continue
		}
		seen[id] = true
		pre := make([]byte, 4)
		binary.LittleEndian.PutUint32(pre, uint32(id))
		c.bc.SeekStorage(id, []byte{}, func(k, v []byte) bool {
			res[string(append(append([]byte{}, pre...), k...))] = bytes.Clone(v)
			return true
		})
	}
	return res
}

func (c *c03Chain) probeScript(p c03Probe) []byte {
	return c03Code(func(w *io.BinWriter) {
		switch p.T {
		case "get":
			emit.AppCall(w, c.slot(p.Slot).Hash, "get", callflag.ReadOnly, unhx(p.Key))
		case "find":
			emit.AppCall(w, c.slot(p.Slot).Hash, "find", callflag.ReadOnly, unhx(p.Key), int64(p.Opts))
		case "neo":
			emit.AppCall(w, c.e.NativeHash(c.t, "NeoToken"), "balanceOf", callflag.ReadOnly, c03AccHash(p.Slot))
		case "gas":
			emit.AppCall(w, c.e.NativeHash(c.t, "GasToken"), "balanceOf", callflag.ReadOnly, c03AccHash(p.Slot))
		case "role":
			emit.AppCall(w, c.e.NativeHash(c.t, "RoleManagement"), "getDesignatedByRole", callflag.ReadOnly, int64(noderoles.Oracle), int64(p.Slot))
		case "mgmt":
			emit.AppCall(w, c.bc.ManagementContractHash(), "getContract", callflag.ReadOnly, c.slot(p.Slot).Hash)
		}
	})
}

func (c *c03Chain) runProbe(script []byte, historicNext uint32) (res c03Res) {
	tx := transaction.New(script, 0)
	tx.ValidUntilBlock = c.bc.BlockHeight() + 1
	p := catch(func() {
		var err error
		var run func() error
		var st func() (string, []stackitem.Item)
		if historicNext == 0 {
			ic, e := c.bc.GetTestVM(trigger.Application, tx, nil)
			err = e
			if e == nil {
				defer ic.Finalize()
				ic.VM.SetGasLimit(100_0000_0000)
				ic.VM.LoadWithFlags(script, callflag.All)
				run = ic.VM.Run
				st = func() (string, []stackitem.Item) { return ic.VM.State().String(), ic.VM.Estack().ToArray() }
			}
		} else {
			ic, e := c.bc.GetTestHistoricVM(trigger.Application, tx, historicNext)
			err = e
			if e == nil {
				defer ic.Finalize()
				ic.VM.SetGasLimit(100_0000_0000)
				ic.VM.LoadWithFlags(script, callflag.All)
				run = ic.VM.Run
				st = func() (string, []stackitem.Item) { return ic.VM.State().String(), ic.VM.Estack().ToArray() }
			}
		}
		if err != nil {
			res.Err = err.Error()
			return
		}
		if e := run(); e != nil {
			res.Fault = e.Error()
			if len(res.Fault) > 200 {
				res.Fault = res.Fault[:200]
			}
		}
		s, items := st()
		res.State = s
		if s == "HALT" {
			res.Stack = c03StackJSON(items)
		}
	})
	if p != "" {
		res.Err = "panic: " + p
	}
	return res
}

func c03RunChain(co *caseOut, in c03Input, r *rng) {
	kind := "chain"
	seenNote := map[string]bool{}
	openKnown := map[string]bool{}
	if in.NoKnown {
		openKnown = c03OpenKnown()
	}
	viol := func(note string, impl any) {
		// one report per class and chain (the same defect shows at every height)
		if seenNote[note] {
			return
		}
		seenNote[note] = true
		for c := range openKnown {
			if strings.HasPrefix(note, c) {
				n, _ := co.extra["x_listed_findings_not_repeated"].(int)
				co.extra["x_listed_findings_not_repeated"] = n + 1
				return
			}
		}
		co.violation(kind, note, in, impl)
	}
	var c *c03Chain
	if p := catch(func() { c = c03NewChain(in.Cfg) }); p != "" {
		viol("chain construction failed: "+p, nil)
		return
	}
	defer c.t.done()
	bc := c.bc
	sm := bc.GetStateModule()

	type heightRec struct {
		root    util.Uint256
		dump    map[string][]byte
		probes  []c03Res
		rpcLive []string      // invokescript through the RPC handler, right after the block
		slotID  map[int]int32 // generic contracts that exist at this height, with their ids
	}
	rpc := c03NewRPC(bc)
	defer rpc.cancel()
	var recs []heightRec
	maxSlot := int32(0)
	extraIDs := map[int32]bool{}
	record := func() bool {
		h := bc.BlockHeight()
		sr, err := sm.GetStateRoot(h)
		if err != nil {
			viol(fmt.Sprintf("no state root stored for the current height %d: %v", h, err), map[string]any{"height": h})
			return false
		}
		rec := heightRec{root: sr.Root, dump: c.liveDump(maxSlot, extraIDs)}
		for _, p := range in.Probes {
			rec.probes = append(rec.probes, c.runProbe(c.probeScript(p), 0))
			rec.rpcLive = append(rec.rpcLive, c03InvokeView(rpc.do("invokescript", c03B64(c.probeScript(p)))))
		}
		rec.slotID = map[int]int32{}
		for i, ct := range c.slots {
			if cs := bc.GetContractState(ct.Hash); cs != nil {
				rec.slotID[i] = cs.ID
			}
		}
		for int(h) >= len(recs) {
			recs = append(recs, heightRec{})
		}
		recs[h] = rec
		return true
	}
	if !record() {
		return
	}
	var coqBlocks []string
	vals := &c03Vals{m: map[string]int{}}
	coqGenesis := c03CoqKVs(vals, c03Sorted(recs[0].dump))
	txCount, faults, refused := 0, 0, 0
	for bi, blk := range in.Ops {
		var txs []*transaction.Transaction
		failed := ""
		for _, x := range blk.Txs {
			if x.T == "deploy" || x.T == "kv" || x.T == "destroy" || x.T == "update" {
				if int32(x.Slot)+1 > maxSlot {
					maxSlot = int32(x.Slot) + 1
				}
			}
			if p := catch(func() { txs = append(txs, c.buildTx(x)) }); p != "" {
				failed = p
				break
			}
		}
		if failed != "" {
			// the transaction cannot even be built (e.g. deployment of an existing contract fails in the test run
			// used for the fee): not part of the property, skip the block
			continue
		}
		prev := recs[len(recs)-1].dump
		if len(blk.Drop) > 0 {
			ch := map[string][]byte{}
			for _, p := range blk.Drop {
				k := append([]byte{byte(storage.STStorage)}, unhx(p[0])...)
				if p[1] == "-" {
					ch[string(k)] = nil
				} else if v := unhx(p[1]); v != nil {
					ch[string(k)] = v
				} else {
					ch[string(k)] = []byte{}
				}
			}
			var derr error
			if p := catch(func() { _, derr = bc.VerifDropMPTBatch(ch) }); p != "" || derr != nil {
				viol(fmt.Sprintf("executing a block that is then refused fails in AddMPTBatch: %s %v", p, derr), map[string]any{"height": bc.BlockHeight() + 1})
				return
			}
			refused++
			// the refused block's batch stays applied on the module's side until the next block: reads at the LATEST
			// root (and the one before, where retained) through the accessors the RPC server uses and through the RPC
			// handlers must answer from the storage of that height alone
			hh := bc.BlockHeight()
			for back := uint32(0); back <= 1 && back <= hh; back++ {
				if back == 1 && (in.Cfg == "latest" || in.Cfg == "gc") {
					break
				}
				rec := recs[hh-back]
				at := func(m map[string]any) map[string]any {
					m["height"], m["latest"], m["refused_batch"] = hh-back, back == 0, blk.Drop
					return m
				}
				note := "while a refused block's MPT batch is pending: "
				dumpS := c03Sorted(rec.dump)
				var kvs []storage.KeyValue
				var ferr error
				if p := catch(func() { kvs, ferr = sm.FindStates(rec.root, []byte{}, nil, 1<<20) }); p != "" || ferr != nil {
					viol(note+"FindStates at a stored root fails", at(map[string]any{"error": fmt.Sprint(p, ferr)}))
					return
				}
				var got []c03KV
				for _, kv := range kvs {
					got = append(got, c03KV{kv.Key, kv.Value})
				}
				if !c03EqKVs(got, dumpS) {
					viol(note+"FindStates at a stored root differs from the contract storage of that height", at(map[string]any{"trie_pairs": len(got), "storage_pairs": len(dumpS)}))
					return
				}
				var keys [][]byte
				for _, pr := range blk.Drop {
					keys = append(keys, unhx(pr[0]))
				}
				for i := 0; i < len(dumpS); i += len(dumpS)/6 + 1 {
					keys = append(keys, dumpS[i].K)
				}
				for _, k := range keys {
					if len(k) < 4 {
						continue
					}
					want, present := rec.dump[string(k)]
					// prefix ranges around the key
					for _, pl := range []int{4, len(k) - 1, len(k)} {
						if pl < 4 || pl > len(k) {
							continue
						}
						var wq, gq []c03KV
						for _, kv := range dumpS {
							if bytes.HasPrefix(kv.K, k[:pl]) {
								wq = append(wq, kv)
							}
						}
						fk, ferr := sm.FindStates(rec.root, k[:pl], nil, 1<<20)
						for _, kv := range fk {
							gq = append(gq, c03KV{kv.Key, kv.Value})
						}
						if (ferr != nil && !errors.Is(ferr, mpt.ErrNotFound)) || !c03EqKVs(gq, wq) {
							viol(note+"FindStates with a prefix at a stored root differs from the range query on the storage of that height",
								at(map[string]any{"prefix": hx(k[:pl]), "got": c03ShowKVs(gq), "want": c03ShowKVs(wq), "error": fmt.Sprint(ferr)}))
							return
						}
					}
					v, e1 := sm.GetState(rec.root, k)
					var pv []byte
					ok := false
					var e2 error
					if in.Cfg != "latest" {
						var proof [][]byte
						if proof, e2 = sm.GetStateProof(rec.root, k); e2 == nil {
							pv, ok = mpt.VerifyProof(rec.root, k, proof)
						}
					}
					if present && (e1 != nil || !bytes.Equal(v, want) || (in.Cfg != "latest" && (!ok || !bytes.Equal(pv, want)))) {
						viol(note+"GetState / GetStateProof at a stored root do not give the value stored at that height",
							at(map[string]any{"key": hx(k), "want": hx(want), "got": hx(v), "get_error": fmt.Sprint(e1), "proof_error": fmt.Sprint(e2), "proved": hx(pv), "verifies": ok}))
						return
					}
					if !present && (e1 == nil || ok) {
						viol(note+"a key absent at that height is readable or provable at its stored root",
							at(map[string]any{"key": hx(k), "got": hx(v), "proved": hx(pv), "verifies": ok}))
						return
					}
					// the RPC handler (contract hash + contract-relative key)
					id := int32(binary.LittleEndian.Uint32(k[:4]))
					if hash, herr := bc.GetContractScriptHash(id); herr == nil {
						res, em := rpc.do("getstate", rec.root.StringLE(), hash.StringLE(), c03B64(k[4:]))
						var gv []byte
						if em == "" {
							_ = json.Unmarshal(res, &gv)
						}
						if (present && (em != "" || !bytes.Equal(gv, want))) || (!present && em == "") {
							viol(note+"RPC getstate at a stored root does not answer from the storage of that height",
								at(map[string]any{"key": hx(k), "present": present, "want": hx(want), "got": hx(gv), "error": em}))
							return
						}
					}
				}
			}
		}
		if p := catch(func() { c.e.AddNewBlock(c.t, txs...) }); p != "" {
			viol(fmt.Sprintf("block %d (op %d) rejected: %s", bc.BlockHeight()+1, bi, p), map[string]any{"height": bc.BlockHeight() + 1})
			return
		}
		h := bc.BlockHeight()
		for _, tx := range txs {
			txCount++
			if aer, err := bc.GetAppExecResults(tx.Hash(), trigger.Application); err == nil && len(aer) > 0 && aer[0].VMState.HasFlag(2) {
				faults++
			}
		}
		// the block's change set as the node saw it
		var changes [][2][]byte
		var bin c03BatchInput
		if lb := bc.LastBatch(); lb != nil {
			for _, kv := range lb.Put {
				if len(kv.Key) > 0 && kv.Key[0] == byte(storage.STStorage) {
					changes = append(changes, [2][]byte{bytes.Clone(kv.Key), bytes.Clone(kv.Value)})
					if kv.Value == nil {
						changes[len(changes)-1][1] = []byte{}
					}
				}
			}
			for _, kv := range lb.Deleted {
				if len(kv.Key) > 0 && kv.Key[0] == byte(storage.STStorage) {
					changes = append(changes, [2][]byte{bytes.Clone(kv.Key), nil})
				}
			}
		}
		sort.Slice(changes, func(i, j int) bool { return bytes.Compare(changes[i][0], changes[j][0]) < 0 })
		// a shuffled presentation for the model (the model must not depend on the order)
		for i := len(changes) - 1; i > 0; i-- {
			j := r.intn(i + 1)
			changes[i], changes[j] = changes[j], changes[i]
		}
		for _, ch := range changes {
			v := "-"
			if ch[1] != nil {
				v = hx(ch[1])
			}
			bin.Changes = append(bin.Changes, [2]string{hx(ch[0]), v})
		}
		if !record() {
			return
		}
		cur := recs[h].dump
		// storage recurrence, checked directly: dump_h = dump_{h-1} with the block's changes applied
		exp := map[string][]byte{}
		for k, v := range prev {
			exp[k] = v
		}
		for _, ch := range changes {
			if ch[1] == nil {
				delete(exp, string(ch[0][1:]))
			} else {
				exp[string(ch[0][1:])] = ch[1]
			}
		}
		if !c03EqKVs(c03Sorted(exp), c03Sorted(cur)) {
			viol(fmt.Sprintf("height %d: the storage dump is not the previous dump with the block's change set applied", h), map[string]any{"height": h})
		}
		c03RunBatch(co, bin, r)
		coqBlocks = append(coqBlocks, fmt.Sprintf("(%s, %s)", c03CoqChanges(vals, func() [][2][]byte {
			out := make([][2][]byte, len(changes))
			for i, ch := range changes {
				out[i] = [2][]byte{ch[0][1:], ch[1]}
			}
			return out
		}()), c03CoqKVs(vals, c03Sorted(cur))))
		switch blk.Persist {
		case 1:
			bc.VerifPersist()
		case 2:
			bc.VerifPersistGC()
		}
		if blk.Persist != 0 {
			// what a restarted node would read: the latest root through a trie in the node's OWN mode (which ignores
			// inactive entries under RemoveUntraceableBlocks) over the persistent store
			liveMode := mpt.ModeAll
			switch in.Cfg {
			case "latest":
				liveMode = mpt.ModeLatest
			case "gc":
				liveMode = mpt.ModeGC
			}
			var lkv []storage.KeyValue
			var lerr error
			if p := catch(func() {
				lt := mpt.NewTrie(mpt.NewHashNode(recs[h].root), liveMode, storage.NewMemCachedStore(c.bottom))
				lkv, lerr = lt.Find([]byte{}, nil, 1<<20)
			}); p != "" {
				lerr = errors.New("panic: " + p)
			}
			var lgot []c03KV
			for _, kv := range lkv {
				lgot = append(lgot, c03KV{kv.Key, kv.Value})
			}
			if lerr != nil || !c03EqKVs(lgot, c03Sorted(recs[h].dump)) {
				viol("after a flush the latest state root read from the persistent store in the node's own trie mode does not give the contract storage",
					map[string]any{"height": h, "err": fmt.Sprint(lerr), "trie_pairs": len(lgot), "storage_pairs": len(recs[h].dump)})
			}
			// after a flush the bottom store holds everything: no storage key outside the dump, none missing
			bd := map[string][]byte{}
			c.bottom.Seek(storage.SeekRange{Prefix: []byte{byte(storage.STStorage)}}, func(k, v []byte) bool {
				bd[string(k[1:])] = bytes.Clone(v)
				return true
			})
			if !c03EqKVs(c03Sorted(bd), c03Sorted(cur)) {
				for k := range bd {
					if len(k) >= 4 {
						extraIDs[int32(binary.LittleEndian.Uint32([]byte(k[:4])))] = true
					}
				}
				cur2 := c.liveDump(maxSlot, extraIDs)
				if !c03EqKVs(c03Sorted(bd), c03Sorted(cur2)) {
					viol(fmt.Sprintf("height %d: contract storage in the persistent store differs from the dump through the DAO", h), map[string]any{"height": h})
				} else {
					rec := recs[h]
					rec.dump = cur2
					recs[h] = rec
				}
			}
		}
	}

	// ---- every height against its root ----
	bc.VerifPersist() // the persistent store now holds every node (TrieStore is also driven directly over it)
	H := bc.BlockHeight()
	mtb := bc.GetMaxTraceableBlocks()
	checks := 0
	for h := uint32(0); h <= H; h++ {
		rec := recs[h]
		if rec.dump == nil {
			continue
		}
		retained := true
		switch in.Cfg {
		case "latest":
			retained = h == H
		case "gc":
			retained = h+mtb >= H
		}
		at := func(m map[string]any) map[string]any { m["height"] = h; m["retained"] = retained; return m }
		dumpS := c03Sorted(rec.dump)
		// (1) whole content through FindStates and SeekStates
		var all []storage.KeyValue
		var ferr error
		if p := catch(func() { all, ferr = sm.FindStates(rec.root, []byte{}, nil, 1<<20) }); p != "" {
			viol(fmt.Sprintf("FindStates on the root of height %d panics: %s", h, p), at(map[string]any{}))
			continue
		}
		if ferr != nil && !retained {
			continue // not retained: failing cleanly is what is asked
		}
		if ferr != nil && !(errors.Is(ferr, mpt.ErrNotFound) && len(dumpS) == 0) {
			viol(fmt.Sprintf("reading the trie of a retained height fails: %v", ferr), at(map[string]any{}))
			continue
		}
		var got []c03KV
		for _, kv := range all {
			got = append(got, c03KV{kv.Key, kv.Value})
		}
		checks++
		if !c03EqKVs(got, dumpS) {
			missing, extra := "", ""
			gm := map[string][]byte{}
			for _, kv := range got {
				gm[string(kv.K)] = kv.V
			}
			for _, kv := range dumpS {
				if v, ok := gm[string(kv.K)]; !ok || !bytes.Equal(v, kv.V) {
					missing = hx(kv.K)
					break
				}
			}
			for _, kv := range got {
				if v, ok := rec.dump[string(kv.K)]; !ok || !bytes.Equal(v, kv.V) {
					extra = hx(kv.K)
					break
				}
			}
			viol("the trie at the state root does not hold exactly the contract storage recorded at that height",
				at(map[string]any{"key_missing_or_different_in_trie": missing, "key_extra_or_different_in_trie": extra, "trie_pairs": len(got), "storage_pairs": len(dumpS)}))
			continue
		}
		var seekAll []c03KV
		if p := catch(func() {
			sm.SeekStates(rec.root, []byte{}, func(k, v []byte) bool {
				seekAll = append(seekAll, c03KV{bytes.Clone(k), bytes.Clone(v)})
				return true
			})
		}); p != "" {
			viol(fmt.Sprintf("SeekStates panics: %s", p), at(map[string]any{}))
		} else if !c03EqKVs(seekAll, dumpS) {
			viol("SeekStates over the whole trie differs from the recorded storage", at(map[string]any{"got": len(seekAll), "want": len(dumpS)}))
		}
		// keys to probe: every key of the generic contracts and a sample of native keys; absent neighbours
		var present [][]byte
		for i, kv := range dumpS {
			id := int32(binary.LittleEndian.Uint32(kv.K[:4]))
			if id > 0 || i%7 == 0 {
				present = append(present, kv.K)
			}
		}
		var absent [][]byte
		addAbsent := func(k []byte) {
			if _, ok := rec.dump[string(k)]; !ok && len(k) > 0 && len(k) <= 64 {
				absent = append(absent, k)
			}
		}
		for i, k := range present {
			if i%2 == 0 {
				addAbsent(append(append([]byte{}, k...), 0x00))
				addAbsent(k[:len(k)-1])
				k2 := append([]byte{}, k...)
				k2[len(k2)-1]++
				addAbsent(k2)
			}
		}
		for s := int32(1); s <= maxSlot+1; s++ {
			for _, a := range in.Absent {
				k := make([]byte, 4)
				binary.LittleEndian.PutUint32(k, uint32(s))
				addAbsent(append(k, unhx(a)...))
			}
		}
		// (2) GetState, proofs
		for _, k := range present {
			want := rec.dump[string(k)]
			var v []byte
			var err error
			if p := catch(func() { v, err = sm.GetState(rec.root, k) }); p != "" {
				err = errors.New("panic: " + p)
			}
			checks++
			if err != nil || !bytes.Equal(v, want) {
				viol("GetState at the root of a retained height does not return the stored value", at(map[string]any{"key": hx(k), "err": fmt.Sprint(err), "got": hx(v), "want": hx(want)}))
				break
			}
		}
		for _, k := range absent {
			var v []byte
			var err error
			if p := catch(func() { v, err = sm.GetState(rec.root, k) }); p != "" {
				viol("GetState panics for an absent key: "+p, at(map[string]any{"key": hx(k)}))
				break
			}
			checks++
			if err == nil {
				viol("GetState returns a value for a key that contract storage did not hold at that height", at(map[string]any{"key": hx(k), "got": hx(v)}))
				break
			}
		}
		if in.Cfg != "latest" || h == H {
			np := 0
			for i, k := range present {
				id := int32(binary.LittleEndian.Uint32(k[:4]))
				if id <= 0 && i%3 != 0 {
					continue
				}
				want := rec.dump[string(k)]
				var proof [][]byte
				var err error
				if p := catch(func() { proof, err = sm.GetStateProof(rec.root, k) }); p != "" {
					err = errors.New("panic: " + p)
				}
				if err != nil {
					viol("GetStateProof fails for a stored key", at(map[string]any{"key": hx(k), "err": err.Error()}))
					break
				}
				var v []byte
				var ok bool
				if p := catch(func() { v, ok = mpt.VerifyProof(rec.root, k, proof) }); p != "" {
					viol("VerifyProof panics on a genuine proof: "+p, at(map[string]any{"key": hx(k)}))
					break
				}
				checks++
				if !ok || !bytes.Equal(v, want) {
					viol("a proof produced for a stored key does not verify to the stored value", at(map[string]any{"key": hx(k), "ok": ok, "got": hx(v), "want": hx(want)}))
					break
				}
				np++
				// soundness: whatever verifies must be what storage held
				sound := func(what string, root util.Uint256, key []byte, pr [][]byte, dump map[string][]byte, hh uint32) bool {
					var v []byte
					var ok bool
					if p := catch(func() { v, ok = mpt.VerifyProof(root, key, pr) }); p != "" {
						viol("VerifyProof panics on a tampered proof ("+what+")", at(map[string]any{"key": hx(key), "panic": p}))
						return false
					}
					checks++
					if ok {
						w, has := dump[string(key)]
						if !has || !bytes.Equal(w, v) {
							viol("a tampered proof verifies ("+what+"): value accepted for a key that storage did not hold with that value",
								at(map[string]any{"key": hx(key), "accepted": hx(v), "against_height": hh}))
							return false
						}
					}
					return true
				}
				if np > 6 {
					continue
				}
				okAll := true
				// the proof of k presented for neighbouring keys (absent ones and present ones holding other values)
				k1 := append(bytes.Clone(k), 0x00)
				k2 := bytes.Clone(k)
				k2[len(k2)-1]++
				k3 := bytes.Clone(k)
				k3[len(k3)-1] ^= 0x10
				for _, a := range [][]byte{k[:len(k)-1], k1, k2, k3, present[(i+1)%len(present)], present[(i+len(present)-1)%len(present)]} {
					if len(a) > 0 && !bytes.Equal(a, k) {
						okAll = okAll && sound("proof of one key presented for another key", rec.root, a, proof, rec.dump, h)
					}
				}
				if len(proof) > 0 {
					// flip one byte of one node
					for t := 0; t < 2 && okAll; t++ {
						pr := make([][]byte, len(proof))
						for j := range proof {
							pr[j] = bytes.Clone(proof[j])
						}
						j := r.intn(len(pr))
						pr[j][r.intn(len(pr[j]))] ^= byte(1 << uint(r.intn(8)))
						okAll = okAll && sound("one bit flipped", rec.root, k, pr, rec.dump, h)
					}
					// replace the value in the leaf (last node) without fixing hashes
					pr := make([][]byte, len(proof))
					for j := range proof {
						pr[j] = bytes.Clone(proof[j])
					}
					last := pr[len(pr)-1]
					if len(last) > 2 {
						last[len(last)-1] ^= 0xff
						okAll = okAll && sound("leaf value replaced", rec.root, k, pr, rec.dump, h)
					}
					// a consistent forged leaf for another value appended
					forged := append([]byte{0x02, byte(len(want) + 1)}, append(bytes.Clone(want), 0x42)...)
					okAll = okAll && sound("forged leaf appended", rec.root, k, append(append([][]byte{}, proof...), forged), rec.dump, h)
					okAll = okAll && sound("forged leaf first", rec.root, k, append([][]byte{forged}, proof...), rec.dump, h)
					// node dropped
					if len(proof) > 1 {
						j := r.intn(len(proof))
						pr2 := append(append([][]byte{}, proof[:j]...), proof[j+1:]...)
						okAll = okAll && sound("node dropped", rec.root, k, pr2, rec.dump, h)
					}
					// the same proof against the root of another height
					if h > 0 && recs[h-1].dump != nil {
						okAll = okAll && sound("proof presented against the previous height's root", recs[h-1].root, k, proof, recs[h-1].dump, h-1)
					}
				}
				if !okAll {
					break
				}
			}
			for i, k := range absent {
				if i%3 != 0 {
					continue
				}
				var proof [][]byte
				var err error
				if p := catch(func() { proof, err = sm.GetStateProof(rec.root, k) }); p != "" {
					viol("GetStateProof panics for an absent key: "+p, at(map[string]any{"key": hx(k)}))
					break
				}
				checks++
				if err == nil {
					var v []byte
					var ok bool
					if p := catch(func() { v, ok = mpt.VerifyProof(rec.root, k, proof) }); p != "" {
						viol("VerifyProof panics on the proof produced for an absent key: "+p, at(map[string]any{"key": hx(k)}))
						break
					}
					if ok {
						viol("a proof is produced and verifies for an absent key", at(map[string]any{"key": hx(k), "value": hx(v)}))
						break
					}
				}
			}
		}
		// (3) FindStates with prefixes / start points / limits
		type fq struct {
			prefix, start []byte
			max           int
		}
		var fqs []fq
		for i, k := range present {
			if binary.LittleEndian.Uint32(k[:4]) == 0 || i%3 != 0 {
				continue
			}
			for _, pl := range []int{4, 5, len(k) - 1, len(k)} {
				if pl < 4 || pl > len(k) {
					continue
				}
				fqs = append(fqs, fq{k[:pl], nil, 1000})
				fqs = append(fqs, fq{k[:pl], []byte{}, 2})
				fqs = append(fqs, fq{k[:pl], k[pl:], 1000})
				if pl < len(k) {
					s := bytes.Clone(k[pl:])
					s[len(s)-1]--
					fqs = append(fqs, fq{k[:pl], s, 3})
				}
			}
		}
		for _, a := range absent {
			if len(a) >= 4 {
				fqs = append(fqs, fq{a, nil, 1000})
			}
		}
		if len(fqs) > 60 {
			fqs = fqs[:60]
		}
		for _, q := range fqs {
			var kvs []storage.KeyValue
			var err error
			if p := catch(func() { kvs, err = sm.FindStates(rec.root, q.prefix, q.start, q.max) }); p != "" {
				viol("FindStates panics: "+p, at(map[string]any{"prefix": hx(q.prefix), "start": hx(q.start)}))
				break
			}
			if err != nil && !errors.Is(err, mpt.ErrNotFound) {
				viol("FindStates fails on a retained height: "+err.Error(), at(map[string]any{"prefix": hx(q.prefix), "start": hx(q.start)}))
				break
			}
			var want []c03KV
			for _, kv := range dumpS {
				if !bytes.HasPrefix(kv.K, q.prefix) {
					continue
				}
				if q.start != nil && bytes.Compare(kv.K[len(q.prefix):], q.start) <= 0 {
					continue
				}
				want = append(want, kv)
			}
			if len(want) > q.max {
				want = want[:q.max]
			}
			var gotq []c03KV
			for _, kv := range kvs {
				gotq = append(gotq, c03KV{kv.Key, kv.Value})
			}
			checks++
			if !c03EqKVs(gotq, want) {
				viol("FindStates at the root of a retained height differs from the range query on the recorded storage",
					at(map[string]any{"prefix": hx(q.prefix), "start": hx(q.start), "start_nil": q.start == nil, "max": q.max, "got": c03ShowKVs(gotq), "want": c03ShowKVs(want)}))
				break
			}
		}
		// (3a) the RPC handlers themselves: they resolve contract hash -> id and root -> height before touching the trie,
		// and must do so in the state NAMED BY THE ROOT (a contract destroyed / updated / deployed later must not matter)
		if retained {
			histOK := in.Cfg != "latest" // getproof / verifyproof / historic invocations are refused with KeepOnlyLatestState
			rootS := rec.root.StringLE()
			// all keys any generic contract ever held, per slot (for "absent at h, present at another height")
			ever := map[int]map[string]bool{}
			for _, rr := range recs {
				for sl, id := range rr.slotID {
					for k := range rr.dump {
						if int32(binary.LittleEndian.Uint32([]byte(k[:4]))) == id {
							if ever[sl] == nil {
								ever[sl] = map[string]bool{}
							}
							ever[sl][k[4:]] = true
						}
					}
				}
			}
			slots := make([]int, 0, len(c.slots))
			for sl := range c.slots {
				slots = append(slots, sl)
			}
			sort.Ints(slots)
			rpcBad := false
			for _, sl := range slots {
				if rpcBad {
					break
				}
				hashS := c.slots[sl].Hash.StringLE()
				id, exists := rec.slotID[sl]
				var keysHere, keysElse []string
				pre := make([]byte, 4)
				binary.LittleEndian.PutUint32(pre, uint32(id))
				if exists {
					for _, kv := range dumpS {
						if bytes.HasPrefix(kv.K, pre) {
							keysHere = append(keysHere, string(kv.K[4:]))
						}
					}
				}
				for k := range ever[sl] {
					if _, ok := rec.dump[string(pre)+k]; !exists || !ok {
						keysElse = append(keysElse, k)
					}
				}
				sort.Strings(keysElse)
				if len(keysHere) > 8 {
					keysHere = keysHere[:8]
				}
				if len(keysElse) > 6 {
					keysElse = keysElse[:6]
				}
				for _, k := range keysHere {
					want := rec.dump[string(pre)+k]
					res, em := rpc.do("getstate", rootS, hashS, c03B64([]byte(k)))
					checks++
					var got []byte
					if em == "" {
						_ = json.Unmarshal(res, &got)
					}
					if em != "" || !bytes.Equal(got, want) {
						viol("RPC getstate against the root of a retained height does not return what the contract stored at that height",
							at(map[string]any{"slot": sl, "key": hx([]byte(k)), "error": em, "got": hx(got), "want": hx(want)}))
						rpcBad = true
						break
					}
					if !histOK {
						continue
					}
					res, em = rpc.do("getproof", rootS, hashS, c03B64([]byte(k)))
					checks++
					var proofS string
					if em == "" {
						_ = json.Unmarshal(res, &proofS)
					}
					var vres json.RawMessage
					vem := "no proof"
					if em == "" {
						vres, vem = rpc.do("verifyproof", rootS, proofS)
					}
					var vp result.VerifyProof
					if vem == "" {
						_ = json.Unmarshal(vres, &vp)
					}
					if em != "" || vem != "" || !bytes.Equal(vp.Value, want) {
						viol("RPC getproof + verifyproof against the root of a retained height do not give the value stored at that height (getstate does)",
							at(map[string]any{"slot": sl, "key": hx([]byte(k)), "getproof_error": em, "verifyproof_error": vem, "got": hx(vp.Value), "want": hx(want)}))
						rpcBad = true
						break
					}
					res, em = rpc.do("invokefunctionhistoric", h, hashS, "get", []any{map[string]any{"type": "ByteArray", "value": c03B64([]byte(k))}})
					checks++
					view := c03InvokeView(res, em)
					wantItem := fmt.Sprintf(`{"type":"ByteString","value":"%s"}`, c03B64(want))
					if !strings.HasPrefix(view, "HALT ") || !strings.Contains(strings.ReplaceAll(view, " ", ""), strings.ReplaceAll(wantItem, " ", "")) {
						viol("RPC invokefunctionhistoric get(key) at a retained height does not return the value stored at that height",
							at(map[string]any{"slot": sl, "key": hx([]byte(k)), "got": view, "want": hx(want)}))
						rpcBad = true
						break
					}
				}
				for _, k := range keysElse {
					if rpcBad {
						break
					}
					res, em := rpc.do("getstate", rootS, hashS, c03B64([]byte(k)))
					checks++
					if em == "" {
						viol("RPC getstate returns a value for a key the contract did not hold at that height (it holds or held it at another height)",
							at(map[string]any{"slot": sl, "key": hx([]byte(k)), "contract_exists_at_height": exists, "got": string(res)}))
						rpcBad = true
						break
					}
					if !histOK {
						continue
					}
					res, em = rpc.do("getproof", rootS, hashS, c03B64([]byte(k)))
					checks++
					if em == "" {
						var proofS string
						_ = json.Unmarshal(res, &proofS)
						if vres, vem := rpc.do("verifyproof", rootS, proofS); vem == "" && string(vres) != `"invalid"` {
							viol("RPC getproof produces a proof that verifies for a key the contract did not hold at that height",
								at(map[string]any{"slot": sl, "key": hx([]byte(k)), "contract_exists_at_height": exists, "verified": string(vres)}))
							rpcBad = true
							break
						}
					}
				}
				if exists && !rpcBad {
					for _, fp := range [][]byte{{}, {0x61}} {
						res, em := rpc.do("findstates", rootS, hashS, c03B64(fp))
						checks++
						var fs result.FindStates
						if em == "" {
							_ = json.Unmarshal(res, &fs)
						}
						var want []c03KV
						for _, kv := range dumpS {
							if bytes.HasPrefix(kv.K, append(bytes.Clone(pre), fp...)) {
								want = append(want, c03KV{kv.K[4:], kv.V})
							}
						}
						var gotf []c03KV
						for _, kv := range fs.Results {
							gotf = append(gotf, c03KV{kv.Key, kv.Value})
						}
						if em != "" || !c03EqKVs(gotf, want) {
							viol("RPC findstates against the root of a retained height differs from the contract's storage at that height",
								at(map[string]any{"slot": sl, "prefix": hx(fp), "error": em, "got": c03ShowKVs(gotf), "want": c03ShowKVs(want)}))
							rpcBad = true
							break
						}
					}
				}
			}
			if histOK {
				for pi, p := range in.Probes {
					if rpcBad {
						break
					}
					view := c03InvokeView(rpc.do("invokescripthistoric", h, c03B64(c.probeScript(p))))
					checks++
					if view != rec.rpcLive[pi] {
						viol("RPC invokescripthistoric at a retained height returns something else than invokescript returned live at that height",
							at(map[string]any{"probe": p, "historic": view, "live": rec.rpcLive[pi]}))
						break
					}
				}
			}
		}
		// (3b) mpt.TrieStore driven directly through the storage.Store interface over the persistent store: every range
		// has one answer on the storage of height h (C09), the trie at root_h must give it
		var dkeys [][]byte
		for _, kv := range dumpS {
			dkeys = append(dkeys, kv.K)
		}
		queries := c03Queries(dkeys, r, 140)
		readMode := mpt.ModeAll
		if in.Cfg == "latest" || in.Cfg == "gc" {
			readMode = mpt.ModeLatest
		}
		for _, q := range queries {
			want := c03Range(rec.dump, q.prefix, q.start, q.bw)
			gotq, p := c03TrieStoreSeek(rec.root, readMode, c.bottom, q)
			if p != "" {
				viol("TrieStore.Seek panics: "+p, at(map[string]any{"prefix": hx(q.prefix), "start": hx(q.start), "bw": q.bw}))
				break
			}
			checks++
			if !c03EqKVs(gotq, want) {
				dir := "forwards"
				if q.bw {
					dir = "backwards"
				}
				viol("TrieStore.Seek "+dir+" (driven directly) differs from the range query on the storage of that height",
					at(map[string]any{"prefix": hx(q.prefix), "start": hx(q.start), "start_nil": q.start == nil, "bw": q.bw, "got": c03ShowKVs(gotq), "want": c03ShowKVs(want)}))
			}
		}
		// (4) the TrieStore-backed historic DAO and historic invocations
		if h+1 > H+1 || h+1 < 1 {
			continue
		}
		tx := transaction.New([]byte{byte(opcode.RET)}, 0)
		ic, err := bc.GetTestHistoricVM(trigger.Application, tx, h+1)
		if err != nil {
			if retained && in.Cfg != "latest" {
				viol("GetTestHistoricVM fails for a retained height: "+err.Error(), at(map[string]any{}))
			}
			continue
		}
		if in.Cfg == "latest" {
			ic.Finalize()
			viol("GetTestHistoricVM succeeds although only the latest state is kept", at(map[string]any{}))
			continue
		}
		for _, q := range queries {
			if len(q.prefix) < 4 {
				continue // the DAO always seeks below a contract id
			}
			id := int32(binary.LittleEndian.Uint32(q.prefix[:4]))
			want := c03Range(rec.dump, q.prefix, q.start, q.bw)
			var gotq []c03KV
			if p := catch(func() {
				ic.DAO.Seek(id, storage.SeekRange{Prefix: bytes.Clone(q.prefix[4:]), Start: bytes.Clone(q.start), Backwards: q.bw}, func(k, v []byte) bool {
					gotq = append(gotq, c03KV{bytes.Clone(k), bytes.Clone(v)})
					return true
				})
			}); p != "" {
				viol("historic DAO Seek panics: "+p, at(map[string]any{"id": id, "prefix": hx(q.prefix[4:]), "start": hx(q.start), "bw": q.bw}))
				break
			}
			checks++
			if !c03EqKVs(gotq, want) {
				dir := "forwards"
				if q.bw {
					dir = "backwards"
				}
				with := "without a start point"
				if len(q.start) > 0 {
					with = "with a start point"
				}
				viol("TrieStore-backed Seek "+dir+" "+with+" differs from the range query on the recorded storage",
					at(map[string]any{"id": id, "prefix": hx(q.prefix[4:]), "start": hx(q.start), "bw": q.bw, "got": c03ShowKVs(gotq), "want": c03ShowKVs(want)}))
			}
		}
		ic.Finalize()
		for pi, p := range in.Probes {
			hres := c.runProbe(c.probeScript(p), h+1)
			live := rec.probes[pi]
			checks++
			if hres != live {
				note := "a read-only invocation against the state of a retained height returns something else than it returned live at that height"
				if p.T == "role" {
					note = "historic getDesignatedByRole (backward Seek with a start point over the TrieStore) returns something else than it returned live at that height"
				}
				viol(note, at(map[string]any{"probe": p, "historic": hres, "live": live}))
				if p.T != "role" {
					break
				}
			}
		}
	}
	tag := in.Cfg
	if faults > 0 {
		tag += "+faults"
	}
	if maxSlot == 0 {
		tag += "+natives-only"
	}
	if refused > 0 {
		tag += "+refused-blocks"
	}
	co.add(kind, tag, txCount > 0 && H > 1, in, map[string]any{"height": H, "txs": txCount, "faulted": faults, "refused": refused, "checks": checks},
		fmt.Sprintf("CHistory %s %s", coqGenesis, coqList(coqBlocks)))
}

// ---- generator ----

func c03GenChain(r *rng, cfg string) c03Input {
	in := c03Input{Cfg: cfg, NoKnown: true}
	// contract-relative keys: prefixes of one another, shared prefixes, the empty key
	stems := [][]byte{{}, {0x61}, {0x61, 0x62}, {0x61, 0x62, 0x63}, {0x61, 0x00}, {0x62}, {0xff}, {0x61, 0x62, 0x63, 0x64, 0x65}}
	if r.chance(40) {
		// every key of the contracts shares a long path below a short prefix (acct/alice, acct/bob, acct/ ...)
		for i := range stems {
			stems[i] = append([]byte("acct/"), stems[i]...)
		}
	}
	var pool [][]byte
	for len(pool) < 10 {
		k := append([]byte{}, pick(r, stems)...)
		if r.chance(40) {
			k = append(k, pick(r, []byte{0x00, 0x01, 0x61, 0xff}))
		}
		pool = append(pool, k)
	}
	vals := [][]byte{{0x01}, {0x02}, []byte("value"), {}, bytes.Repeat([]byte{0xab}, 40)}
	nslots := 1
	deployed := map[int]bool{}
	live := map[string][]byte{} // slot:key -> value (as intended; faults do not matter for generation)
	nb := 6 + r.intn(9)
	if cfg == "gc" {
		nb = 12 + r.intn(8)
		if r.chance(25) {
			nb = 2 + r.intn(4) // a chain shorter than MaxTraceableBlocks
		}
	}
	// a chain with native contracts only: every storage key starts with nibble F, the root of the trie is an extension
	nativesOnly := r.chance(30)
	if !nativesOnly {
		in.Ops = append(in.Ops, c03Block{Txs: []c03Tx{{T: "deploy", Slot: 0}}})
		deployed[0] = true
	}
	dropIDs := [][]byte{{0xfb, 0xff, 0xff, 0xff}, {0xfa, 0xff, 0xff, 0xff}, {0xf9, 0xff, 0xff, 0xff}}
	if !nativesOnly {
		dropIDs = append(dropIDs, []byte{0x01, 0x00, 0x00, 0x00}, []byte{0x02, 0x00, 0x00, 0x00})
	}
	for b := 0; b < nb; b++ {
		blk := c03Block{}
		if r.chance(30) {
			// a different block for this height is executed and refused first; it writes keys the accepted one does not
			for i, m := 0, 1+r.intn(3); i < m; i++ {
				k := append(bytes.Clone(pick(r, dropIDs)), 0x77, byte(r.intn(4)))
				if r.chance(25) {
					k = append(bytes.Clone(pick(r, dropIDs)), pick(r, pool)...)
				}
				v := hx(pick(r, vals))
				if r.chance(15) {
					v = "-"
				}
				blk.Drop = append(blk.Drop, [2]string{hx(k), v})
			}
		}
		if r.chance(35) {
			blk.Persist = 1 + r.intn(2)
		}
		if cfg == "gc" && r.chance(50) {
			blk.Persist = 2
		}
		ntx := 1 + r.intn(4)
		for t := 0; t < ntx; t++ {
			c := r.intn(100)
			if nativesOnly {
				c = 62 + r.intn(18) // GAS / NEO transfers and role designation only
			}
			switch {
			case c < 62:
				slot := r.intn(nslots)
				x := c03Tx{T: "kv", Slot: slot}
				for i, m := 0, 1+r.intn(5); i < m; i++ {
					k := pick(r, pool)
					id := fmt.Sprintf("%d:%x", slot, k)
					cur, has := live[id]
					switch {
					case has && r.chance(30):
						x.KV = append(x.KV, [2]string{hx(k), "-"})
						if r.chance(40) { // delete and recreate within the same transaction
							v := pick(r, vals)
							x.KV = append(x.KV, [2]string{hx(k), hx(v)})
							live[id] = v
						} else {
							delete(live, id)
						}
					case has && r.chance(25): // overwrite with the equal value
						x.KV = append(x.KV, [2]string{hx(k), hx(cur)})
					case !has && r.chance(8):
						x.KV = append(x.KV, [2]string{hx(k), "-"})
					default:
						v := pick(r, vals)
						x.KV = append(x.KV, [2]string{hx(k), hx(v)})
						live[id] = v
					}
				}
				x.Fail = r.chance(8)
				blk.Txs = append(blk.Txs, x)
			case c < 70:
				blk.Txs = append(blk.Txs, c03Tx{T: "gas", To: r.intn(3), Amt: int64(1 + r.intn(1000))})
			case c < 76:
				blk.Txs = append(blk.Txs, c03Tx{T: "neo", To: r.intn(3), Amt: int64(1 + r.intn(5))})
			case c < 80:
				blk.Txs = append(blk.Txs, c03Tx{T: "role", To: r.intn(4)})
			case c < 83:
				blk.Txs = append(blk.Txs, c03Tx{T: "update", Slot: r.intn(nslots), Amt: int64(b)})
			case c < 90 && nslots < 4:
				blk.Txs = append(blk.Txs, c03Tx{T: "deploy", Slot: nslots})
				deployed[nslots] = true
				nslots++
			default:
				slot := r.intn(nslots)
				if deployed[slot] && b > 1 {
					blk.Txs = append(blk.Txs, c03Tx{T: "destroy", Slot: slot})
					for k := range live {
						if strings.HasPrefix(k, fmt.Sprintf("%d:", slot)) {
							delete(live, k)
						}
					}
				}
			}
		}
		if len(blk.Txs) > 0 || len(blk.Drop) > 0 {
			in.Ops = append(in.Ops, blk)
		}
	}
	for s := 0; s < nslots; s++ {
		for i := 0; i < 3; i++ {
			in.Probes = append(in.Probes, c03Probe{T: "get", Slot: s, Key: hx(pick(r, pool))})
		}
		in.Probes = append(in.Probes, c03Probe{T: "find", Slot: s, Key: "", Opts: 0})
		in.Probes = append(in.Probes, c03Probe{T: "find", Slot: s, Key: hx(pick(r, stems)), Opts: pick(r, []int{0, 1, 2, 3, 4, 128, 130})})
		in.Probes = append(in.Probes, c03Probe{T: "mgmt", Slot: s})
	}
	in.Probes = append(in.Probes, c03Probe{T: "neo", Slot: r.intn(3)}, c03Probe{T: "gas", Slot: r.intn(3)},
		c03Probe{T: "role", Slot: 1 + r.intn(nb)}, c03Probe{T: "role", Slot: nb + 3})
	for i := 0; i < 4; i++ {
		in.Absent = append(in.Absent, hx(append(append([]byte{}, pick(r, stems)...), byte(0x70+i))))
	}
	return in
}

func runC03(args []string) error {
	cf, fs := parseCommon("c03", args)
	fs.Parse(args)
	co := newCaseOut(cf.out, "Harness.C03", "N",
		"block histories (7-20 blocks, 1-4 transactions each) on a single-validator neotest chain in four configurations (full history, full history with "+
			"StateRootInHeader, KeepOnlyLatestState, RemoveUntraceableBlocks with MaxTraceableBlocks 6 and GC): raw-NeoVM storage contract put/delete over keys that are "+
			"prefixes of one another, overwrite with the equal value, delete-and-recreate, ABORTed transactions, contract destruction, GAS/NEO transfers, role designation; "+
			"every retained height compared key for key, every range (structured prefixes/start points, both directions) through mpt.TrieStore directly and through the historic DAO; "+
			"'seek' cases: small structured key sets (shared long paths, single items, keys that are prefixes of one another) in a fresh trie, one range each; one 'batch' case per block (the block's change set through the real MapToMPTBatch); a chain case is "+
			"non-trivial when it has transactions and more than one block, a batch case when it has more than one change; distinct by Coq term")
	co.shard = 24
	r := newRng(cf.seed)
	if cf.replay != "" {
		cases, err := readReplay(cf.replay)
		if err != nil {
			return err
		}
		for _, c := range cases {
			var x struct {
				Kind  string          `json:"kind"`
				Input json.RawMessage `json:"input"`
			}
			if err := json.Unmarshal(c, &x); err != nil {
				return err
			}
			switch x.Kind {
			case "seek":
				var in c03SeekInput
				if err := json.Unmarshal(x.Input, &in); err != nil {
					return err
				}
				c03RunSeek(co, in)
			case "batch":
				var in c03BatchInput
				if err := json.Unmarshal(x.Input, &in); err != nil {
					return err
				}
				c03RunBatch(co, in, r)
			default:
				var in c03Input
				if err := json.Unmarshal(x.Input, &in); err != nil {
					return err
				}
				c03RunChain(co, in, r)
			}
		}
		return co.finish()
	}
	cfgs := []string{"full", "srh", "gc", "full", "latest", "gc"}
	for i := 0; i < cf.n; i++ {
		c03RunChain(co, c03GenChain(r, cfgs[i%len(cfgs)]), r)
	}
	return co.finish()
}

// runC03Seek: the self-contained range cases (kind "seek"): n structured key sets, up to 24 ranges each.
func runC03Seek(args []string) error {
	cf, fs := parseCommon("c03seek", args)
	fs.Parse(args)
	co := newCaseOut(cf.out, "Harness.C03", "N",
		"small structured key sets (items sharing a long path below a short prefix, a single item, keys that are prefixes of one another, a branch below "+
			"the contract id, two contracts) put into a fresh trie (ModeAll and ModeLatest node format), one range each through mpt.TrieStore.Seek driven "+
			"directly: seek prefixes ending above a single leaf / inside the shared path / at a branch / at a leaf / beyond, start points that are a proper "+
			"part of the shared path, equal to it, diverging below and above it, equal to / around / extending items, of every length, both directions; "+
			"non-trivial when something lies below the prefix and a start point is given; distinct by Coq term")
	co.shard = 300
	if cf.replay != "" {
		cases, err := readReplay(cf.replay)
		if err != nil {
			return err
		}
		for _, c := range cases {
			var x struct {
				Kind  string       `json:"kind"`
				Input c03SeekInput `json:"input"`
			}
			if err := json.Unmarshal(c, &x); err != nil {
				return err
			}
			c03RunSeek(co, x.Input)
		}
		return co.finish()
	}
	r := newRng(cf.seed)
	for i := 0; i < cf.n; i++ {
		set := c03GenSeekSets(r)
		var keys [][]byte
		var ops [][2]string
		for _, kv := range set {
			keys = append(keys, kv[0])
			ops = append(ops, [2]string{hx(kv[0]), hx(kv[1])})
		}
		for _, q := range c03Queries(keys, r, 24) {
			in := c03SeekInput{Ops: ops, Prefix: hx(q.prefix), Bw: q.bw, RC: i%2 == 1}
			if q.start != nil {
				st := hx(q.start)
				in.Start = &st
			}
			c03RunSeek(co, in)
		}
	}
	return co.finish()
}
