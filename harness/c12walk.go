package main

// c12: independent walk of the real VM's stacks and slots (what is really reachable), and the limit checks.

import (
	"fmt"
	"math/big"

	"github.com/nspcc-dev/neo-go/pkg/vm"
	"github.com/nspcc-dev/neo-go/pkg/vm/opcode"
	"github.com/nspcc-dev/neo-go/pkg/vm/stackitem"
)

type c12Walk struct {
	total    int  // entries of all distinct stacks and slots + child references of every distinct reachable compound
	cyclic   bool // some reachable compound reaches itself
	limitErr string
}

var c12IntLo = new(big.Int).Neg(new(big.Int).Lsh(big.NewInt(1), 255))
var c12IntHi = new(big.Int).Lsh(big.NewInt(1), 255)

// c12DoWalk counts references by actually walking every evaluation stack and slot of every context.
func c12DoWalk(v *vm.VM, extra ...[]stackitem.Item) c12Walk {
	var w c12Walk
	seenStack := map[*vm.Stack]bool{}
	seenSlot := map[*stackitem.Item]bool{}
	seen := map[any]bool{}
	onPath := map[any]bool{}
	var visit func(it stackitem.Item)
	prim := func(it stackitem.Item) {
		switch t := it.(type) {
		case *stackitem.BigInteger:
			if t.Big().Cmp(c12IntLo) < 0 || t.Big().Cmp(c12IntHi) >= 0 {
				w.limitErr = "integer outside 256 bits: " + t.Big().String()
			}
		case *stackitem.ByteArray:
			if len(t.Value().([]byte)) > stackitem.MaxSize {
				w.limitErr = fmt.Sprintf("byte string of %d bytes", len(t.Value().([]byte)))
			}
		case *stackitem.Buffer:
			if t.Len() > stackitem.MaxSize {
				w.limitErr = fmt.Sprintf("buffer of %d bytes", t.Len())
			}
		}
	}
	visit = func(it stackitem.Item) {
		switch t := it.(type) {
		case *stackitem.Array, *stackitem.Struct:
			if onPath[t] {
				w.cyclic = true
			}
			if seen[t] {
				return
			}
			seen[t] = true
			onPath[t] = true
			arr := t.Value().([]stackitem.Item)
			w.total += len(arr)
			for _, e := range arr {
				visit(e)
			}
			delete(onPath, t)
		case *stackitem.Map:
			if onPath[t] {
				w.cyclic = true
			}
			if seen[t] {
				return
			}
			seen[t] = true
			onPath[t] = true
			els := t.Value().([]stackitem.MapElement)
			w.total += 2 * len(els)
			for _, e := range els {
				visit(e.Key)
				visit(e.Value)
			}
			delete(onPath, t)
		default:
			prim(it)
		}
	}
	doStack := func(s *vm.Stack) {
		if s == nil || seenStack[s] {
			return
		}
		seenStack[s] = true
		w.total += s.Len()
		s.Iter(func(e vm.Element) { visit(e.Item()) })
	}
	doSlot := func(sl *vm.Slot) {
		if sl == nil || *sl == nil || len(*sl) == 0 {
			return
		}
		k := &(*sl)[0]
		if seenSlot[k] {
			return
		}
		seenSlot[k] = true
		w.total += len(*sl)
		for _, it := range *sl {
			if it != nil {
				visit(it)
			}
		}
	}
	doStack(v.Estack())
	for _, its := range extra { // what was on stacks no context uses any more: the unrepaired counter still holds it (finding F58)
		w.total += len(its)
		for _, it := range its {
			visit(it)
		}
	}
	for _, c := range v.Istack() {
		doStack(c.Estack())
		doSlot(c.ArgumentsSlot())
		doSlot(c.LocalsSlot())
		doSlot(c.StaticsSlot())
	}
	if len(v.Istack()) > vm.MaxInvocationStackSize {
		w.limitErr = fmt.Sprintf("invocation stack of %d contexts", len(v.Istack()))
	}
	return w
}

// c12Reaches: can container be reached from it by following compound children (it itself included)?
func c12Reaches(it stackitem.Item, container stackitem.Item) bool {
	seen := map[any]bool{}
	var visit func(x stackitem.Item) bool
	visit = func(x stackitem.Item) bool {
		switch t := x.(type) {
		case *stackitem.Array, *stackitem.Struct:
			if x == container {
				return true
			}
			if seen[t] {
				return false
			}
			seen[t] = true
			for _, e := range t.Value().([]stackitem.Item) {
				if visit(e) {
					return true
				}
			}
		case *stackitem.Map:
			if x == container {
				return true
			}
			if seen[t] {
				return false
			}
			seen[t] = true
			for _, e := range t.Value().([]stackitem.MapElement) {
				if visit(e.Value) {
					return true
				}
			}
		}
		return false
	}
	return visit(it)
}

// c12ClosesCycle: is the instruction about to be executed an APPEND/SETITEM that stores into a compound something from
// which that compound can be reached?  (A cycle can become unreachable in the very instruction that closes it, so the
// "no cycle was built so far" flag must be kept as history, not read off what is still reachable.  Over-approximation:
// struct values are copied on the way in, which may break the cycle.)
func c12ClosesCycle(v *vm.VM, op opcode.Opcode) bool {
	es := v.Estack()
	switch op {
	case opcode.APPEND:
		if es.Len() >= 2 {
			return c12Reaches(es.Peek(0).Item(), es.Peek(1).Item())
		}
	case opcode.SETITEM:
		if es.Len() >= 3 {
			return c12Reaches(es.Peek(0).Item(), es.Peek(2).Item())
		}
	}
	return false
}

// c12F50Shape: REMOVE about to be executed on a Map that has the key, where the map can be reached from the entry's
// value (finding F50: vm.go un-counts key and value before dropping the entry).
func c12F50Shape(v *vm.VM, op opcode.Opcode) bool {
	es := v.Estack()
	if op != opcode.REMOVE || es.Len() < 2 {
		return false
	}
	m, ok := es.Peek(1).Item().(*stackitem.Map)
	if !ok || stackitem.IsValidMapKey(es.Peek(0).Item()) != nil {
		return false
	}
	i := m.Index(es.Peek(0).Item())
	if i < 0 {
		return false
	}
	return c12Reaches(m.Value().([]stackitem.MapElement)[i].Value, m)
}
