package main

// C17: JSON-able descriptions of the values of the modelled types (transaction and its parts, header, block,
// stack items), builders of the real Go values from them, generators and Coq term printers.

import (
	"crypto/elliptic"
	"fmt"
	"math/big"
	"strings"

	"github.com/nspcc-dev/neo-go/pkg/core/block"
	"github.com/nspcc-dev/neo-go/pkg/core/transaction"
	"github.com/nspcc-dev/neo-go/pkg/crypto/keys"
	"github.com/nspcc-dev/neo-go/pkg/util"
	"github.com/nspcc-dev/neo-go/pkg/vm/stackitem"
)

type c17Cond struct {
	T string    `json:"t"` // bool not and or hash group entry bycontract bygroup
	B bool      `json:"b,omitempty"`
	L []c17Cond `json:"l,omitempty"` // sub-conditions (one for not)
	H string    `json:"h,omitempty"` // 20-byte hash or 33-byte key, hex
}
type c17Rule struct {
	Action byte    `json:"action"`
	Cond   c17Cond `json:"cond"`
}
type c17Signer struct {
	Account   string    `json:"account"`
	Scopes    byte      `json:"scopes"`
	Contracts []string  `json:"contracts,omitempty"`
	Groups    []string  `json:"groups,omitempty"`
	Rules     []c17Rule `json:"rules,omitempty"`
}
type c17Attr struct {
	T      byte   `json:"t"`
	ID     uint64 `json:"id,omitempty"`
	Code   byte   `json:"code,omitempty"`
	Data   string `json:"data,omitempty"` // oracle result / reserved value / conflicts hash
	Height uint32 `json:"height,omitempty"`
	NKeys  byte   `json:"nkeys,omitempty"`
}
type c17Wit struct {
	Inv string `json:"inv"`
	Ver string `json:"ver"`
}
type c17Tx struct {
	Version byte        `json:"version"`
	Nonce   uint32      `json:"nonce"`
	SysFee  int64       `json:"sysfee"`
	NetFee  int64       `json:"netfee"`
	VUB     uint32      `json:"vub"`
	Signers []c17Signer `json:"signers"`
	Attrs   []c17Attr   `json:"attrs"`
	Script  string      `json:"script"`
	Wits    []c17Wit    `json:"wits"`
}
type c17Item struct {
	T   string    `json:"t"` // any bool int bytes buffer array struct map ref (ref: the Ref-th shared instance of the case)
	Ref int       `json:"ref,omitempty"`
	B   bool      `json:"b,omitempty"`
	Z   string    `json:"z,omitempty"`
	D   string    `json:"d,omitempty"`
	L   []c17Item `json:"l,omitempty"` // elements; for map: k0,v0,k1,v1,...
}

// a small pool of valid P-256 public keys (compressed, hex); derived from fixed private scalars so that the
// harness is deterministic and key generation costs nothing per case
var c17KeyPool []*keys.PublicKey

func c17Keys() []*keys.PublicKey {
	if c17KeyPool == nil {
		for i := 1; i <= 8; i++ {
			b := make([]byte, 32)
			b[31] = byte(i)
			b[0] = byte(0x10 + i)
			p, err := keys.NewPrivateKeyFromBytes(b)
			if err != nil {
				panic(err)
			}
			c17KeyPool = append(c17KeyPool, p.PublicKey())
		}
	}
	return c17KeyPool
}

func c17PrivPool() []*keys.PrivateKey {
	var out []*keys.PrivateKey
	for i := 1; i <= 8; i++ {
		b := make([]byte, 32)
		b[31] = byte(i)
		b[0] = byte(0x10 + i)
		p, _ := keys.NewPrivateKeyFromBytes(b)
		out = append(out, p)
	}
	return out
}

// ---------- builders ----------

func c17U160(h string) util.Uint160 {
	u, err := util.Uint160DecodeBytesBE(unhx(h))
	if err != nil {
		panic(err)
	}
	return u
}
func c17U256(h string) util.Uint256 {
	u, err := util.Uint256DecodeBytesBE(unhx(h))
	if err != nil {
		panic(err)
	}
	return u
}
func c17Key(h string) *keys.PublicKey {
	k, err := keys.NewPublicKeyFromBytes(unhx(h), elliptic.P256())
	if err != nil {
		panic(err)
	}
	return k
}

func (c c17Cond) build() transaction.WitnessCondition {
	switch c.T {
	case "bool":
		b := transaction.ConditionBoolean(c.B)
		return &b
	case "not":
		return &transaction.ConditionNot{Condition: c.L[0].build()}
	case "and", "or":
		var l []transaction.WitnessCondition
		for _, x := range c.L {
			l = append(l, x.build())
		}
		if c.T == "and" {
			a := transaction.ConditionAnd(l)
			return &a
		}
		o := transaction.ConditionOr(l)
		return &o
	case "hash":
		h := transaction.ConditionScriptHash(c17U160(c.H))
		return &h
	case "group":
		return (*transaction.ConditionGroup)(c17Key(c.H))
	case "entry":
		return transaction.ConditionCalledByEntry{}
	case "bycontract":
		h := transaction.ConditionCalledByContract(c17U160(c.H))
		return &h
	case "bygroup":
		return (*transaction.ConditionCalledByGroup)(c17Key(c.H))
	}
	panic("bad cond " + c.T)
}

func (s c17Signer) build() transaction.Signer {
	out := transaction.Signer{Account: c17U160(s.Account), Scopes: transaction.WitnessScope(s.Scopes)}
	for _, c := range s.Contracts {
		out.AllowedContracts = append(out.AllowedContracts, c17U160(c))
	}
	for _, g := range s.Groups {
		out.AllowedGroups = append(out.AllowedGroups, c17Key(g))
	}
	for _, r := range s.Rules {
		out.Rules = append(out.Rules, transaction.WitnessRule{Action: transaction.WitnessAction(r.Action), Condition: r.Cond.build()})
	}
	return out
}

func (a c17Attr) build() transaction.Attribute {
	t := transaction.AttrType(a.T)
	switch {
	case t == transaction.HighPriority:
		return transaction.Attribute{Type: t}
	case t == transaction.OracleResponseT:
		return transaction.Attribute{Type: t, Value: &transaction.OracleResponse{ID: a.ID, Code: transaction.OracleResponseCode(a.Code), Result: unhx(a.Data)}}
	case t == transaction.NotValidBeforeT:
		return transaction.Attribute{Type: t, Value: &transaction.NotValidBefore{Height: a.Height}}
	case t == transaction.ConflictsT:
		return transaction.Attribute{Type: t, Value: &transaction.Conflicts{Hash: c17U256(a.Data)}}
	case t == transaction.NotaryAssistedT:
		return transaction.Attribute{Type: t, Value: &transaction.NotaryAssisted{NKeys: a.NKeys}}
	case a.T >= transaction.ReservedLowerBound:
		return transaction.Attribute{Type: t, Value: &transaction.Reserved{Value: unhx(a.Data)}}
	}
	panic("bad attr")
}

func (t c17Tx) build() *transaction.Transaction {
	tx := &transaction.Transaction{Version: t.Version, Nonce: t.Nonce, SystemFee: t.SysFee, NetworkFee: t.NetFee,
		ValidUntilBlock: t.VUB, Script: unhx(t.Script), Attributes: []transaction.Attribute{}, Signers: []transaction.Signer{}, Scripts: []transaction.Witness{}}
	for _, s := range t.Signers {
		tx.Signers = append(tx.Signers, s.build())
	}
	for _, a := range t.Attrs {
		tx.Attributes = append(tx.Attributes, a.build())
	}
	for _, w := range t.Wits {
		tx.Scripts = append(tx.Scripts, transaction.Witness{InvocationScript: unhx(w.Inv), VerificationScript: unhx(w.Ver)})
	}
	return tx
}

// c17ItemCtx resolves "ref" items: with share the SAME Go instance is returned for every occurrence (a DAG),
// without it every occurrence is built afresh (the tree obtained by unfolding)
type c17ItemCtx struct {
	shared []c17Item
	share  bool
	inst   []stackitem.Item
}

func (it c17Item) build() stackitem.Item { return it.buildCtx(nil) }

func (it c17Item) buildCtx(ctx *c17ItemCtx) stackitem.Item {
	switch it.T {
	case "ref":
		if ctx == nil || it.Ref >= len(ctx.shared) {
			panic("item ref without shared instances")
		}
		if !ctx.share {
			return ctx.shared[it.Ref].buildCtx(ctx)
		}
		if ctx.inst == nil {
			ctx.inst = make([]stackitem.Item, len(ctx.shared))
		}
		if ctx.inst[it.Ref] == nil {
			ctx.inst[it.Ref] = ctx.shared[it.Ref].buildCtx(ctx) // entries refer to earlier entries only: no cycles
		}
		return ctx.inst[it.Ref]
	case "any":
		return stackitem.Null{}
	case "bool":
		return stackitem.NewBool(it.B)
	case "int":
		z, _ := new(big.Int).SetString(it.Z, 10)
		return stackitem.NewBigInteger(z)
	case "bytes":
		return stackitem.NewByteArray(unhx(it.D))
	case "buffer":
		return stackitem.NewBuffer(unhx(it.D))
	case "array", "struct":
		l := []stackitem.Item{}
		for _, x := range it.L {
			l = append(l, x.buildCtx(ctx))
		}
		if it.T == "array" {
			return stackitem.NewArray(l)
		}
		return stackitem.NewStruct(l)
	case "map":
		m := stackitem.NewMap()
		for i := 0; i+1 < len(it.L); i += 2 {
			m.Add(it.L[i].buildCtx(ctx), it.L[i+1].buildCtx(ctx))
		}
		return m
	}
	panic("bad item " + it.T)
}

// ---------- Coq printers ----------

func coqHexBytes(h string) string { return coqBytes(unhx(h)) }
func coqKeyHex(h string) string {
	b := unhx(h)
	return fmt.Sprintf("(Key %d %s)", b[0], coqBytes(b[1:]))
}
func (c c17Cond) coq() string {
	switch c.T {
	case "bool":
		return "(CBool " + coqBool(c.B) + ")"
	case "not":
		return "(CNot " + c.L[0].coq() + ")"
	case "and", "or":
		var l []string
		for _, x := range c.L {
			l = append(l, x.coq())
		}
		n := "CAnd"
		if c.T == "or" {
			n = "COr"
		}
		return "(" + n + " " + coqList(l) + ")"
	case "hash":
		return "(CScriptHash " + coqHexBytes(c.H) + ")"
	case "group":
		return "(CGroup " + coqKeyHex(c.H) + ")"
	case "entry":
		return "CCalledByEntry"
	case "bycontract":
		return "(CCalledByContract " + coqHexBytes(c.H) + ")"
	case "bygroup":
		return "(CCalledByGroup " + coqKeyHex(c.H) + ")"
	}
	panic("bad cond")
}
func (s c17Signer) coq() string {
	var cs, gs, rs []string
	for _, c := range s.Contracts {
		cs = append(cs, coqHexBytes(c))
	}
	for _, g := range s.Groups {
		gs = append(gs, coqKeyHex(g))
	}
	for _, r := range s.Rules {
		rs = append(rs, fmt.Sprintf("(Rule %d %s)", r.Action, r.Cond.coq()))
	}
	return fmt.Sprintf("(Signer %s %d %s %s %s)", coqHexBytes(s.Account), s.Scopes, coqList(cs), coqList(gs), coqList(rs))
}
func (a c17Attr) coq() string {
	t := transaction.AttrType(a.T)
	switch {
	case t == transaction.HighPriority:
		return "AHigh"
	case t == transaction.OracleResponseT:
		return fmt.Sprintf("(AOracle %d %d %s)", a.ID, a.Code, coqHexBytes(a.Data))
	case t == transaction.NotValidBeforeT:
		return fmt.Sprintf("(ANotValidBefore %d)", a.Height)
	case t == transaction.ConflictsT:
		return "(AConflicts " + coqHexBytes(a.Data) + ")"
	case t == transaction.NotaryAssistedT:
		return fmt.Sprintf("(ANotary %d)", a.NKeys)
	default:
		return fmt.Sprintf("(AReserved %d %s)", a.T, coqHexBytes(a.Data))
	}
}
func (t c17Tx) coq() string {
	var ss, as, ws []string
	for _, s := range t.Signers {
		ss = append(ss, s.coq())
	}
	for _, a := range t.Attrs {
		as = append(as, a.coq())
	}
	for _, w := range t.Wits {
		ws = append(ws, fmt.Sprintf("(Witness %s %s)", coqHexBytes(w.Inv), coqHexBytes(w.Ver)))
	}
	return fmt.Sprintf("(Tx %d %d %d %d %d %s %s %s %s)", t.Version, t.Nonce, uint64(t.SysFee), uint64(t.NetFee), t.VUB,
		coqList(ss), coqList(as), coqHexBytes(t.Script), coqList(ws))
}
func (it c17Item) coq() string { return it.coqCtx(nil) }

// the Coq item model has value semantics: a reference is printed as the item it refers to (unfolding)
func (it c17Item) coqCtx(shared []c17Item) string {
	switch it.T {
	case "ref":
		return shared[it.Ref].coqCtx(shared)
	case "any":
		return "IAny"
	case "bool":
		return "(IBool " + coqBool(it.B) + ")"
	case "int":
		z, _ := new(big.Int).SetString(it.Z, 10)
		return "(IInt " + coqZ(z) + ")"
	case "bytes":
		return "(IBytes " + coqHexBytes(it.D) + ")"
	case "buffer":
		return "(IBuffer " + coqHexBytes(it.D) + ")"
	case "array", "struct":
		var l []string
		for _, x := range it.L {
			l = append(l, x.coqCtx(shared))
		}
		n := "IArray"
		if it.T == "struct" {
			n = "IStruct"
		}
		return "(" + n + " " + coqList(l) + ")"
	case "map":
		var l []string
		for i := 0; i+1 < len(it.L); i += 2 {
			l = append(l, "("+it.L[i].coqCtx(shared)+", "+it.L[i+1].coqCtx(shared)+")")
		}
		return "(IMap " + coqList(l) + ")"
	}
	panic("bad item")
}

// ---------- generators ----------

func c17GenHash(r *rng, n int) string {
	b := r.bytes(n)
	switch r.intn(6) {
	case 0:
		for i := range b {
			b[i] = 0
		}
	case 1:
		for i := range b {
			b[i] = 0xff
		}
	case 2:
		b[0] = 0
	}
	return hx(b)
}

func c17GenCond(r *rng, depth int) c17Cond {
	ks := c17Keys()
	leaf := depth <= 1 || r.chance(45)
	if leaf {
		switch r.intn(6) {
		case 0:
			return c17Cond{T: "bool", B: r.bool()}
		case 1:
			return c17Cond{T: "hash", H: c17GenHash(r, 20)}
		case 2:
			return c17Cond{T: "group", H: hx(pick(r, ks).Bytes())}
		case 3:
			return c17Cond{T: "entry"}
		case 4:
			return c17Cond{T: "bycontract", H: c17GenHash(r, 20)}
		default:
			return c17Cond{T: "bygroup", H: hx(pick(r, ks).Bytes())}
		}
	}
	switch r.intn(3) {
	case 0:
		return c17Cond{T: "not", L: []c17Cond{c17GenCond(r, depth-1)}}
	default:
		n := 1 + r.intn(3)
		if r.chance(8) {
			n = 16
		}
		var l []c17Cond
		for i := 0; i < n; i++ {
			d := depth - 1
			if n == 16 {
				d = 1
			}
			l = append(l, c17GenCond(r, d))
		}
		return c17Cond{T: pick(r, []string{"and", "or"}), L: l}
	}
}

func c17GenSigner(r *rng, idx int) c17Signer {
	ks := c17Keys()
	acc := r.bytes(20)
	acc[0] = byte(idx) // distinct accounts within one transaction
	s := c17Signer{Account: hx(acc)}
	switch r.intn(8) {
	case 0:
		s.Scopes = 0x80
	case 1:
		s.Scopes = 0
	case 2:
		s.Scopes = 1
	default:
		s.Scopes = byte(r.intn(2)) | byte(r.intn(2))<<4 | byte(r.intn(2))<<5 | byte(r.intn(2))<<6
	}
	if s.Scopes&0x10 != 0 {
		for i, n := 0, pick(r, []int{0, 1, 2, 16}); i < n; i++ {
			s.Contracts = append(s.Contracts, c17GenHash(r, 20))
		}
	}
	if s.Scopes&0x20 != 0 {
		for i, n := 0, pick(r, []int{0, 1, 2, 3}); i < n; i++ {
			s.Groups = append(s.Groups, hx(pick(r, ks).Bytes()))
		}
	}
	if s.Scopes&0x40 != 0 {
		for i, n := 0, pick(r, []int{0, 1, 2, 3}); i < n; i++ {
			s.Rules = append(s.Rules, c17Rule{Action: byte(r.intn(2)), Cond: c17GenCond(r, 3)})
		}
	}
	return s
}

func c17GenAttr(r *rng, used map[byte]bool) (c17Attr, bool) {
	t := pick(r, []byte{1, 0x11, 0x20, 0x21, 0x21, 0x22, 0xe0, 0xff})
	if t != 0x21 && used[t] {
		return c17Attr{}, false
	}
	used[t] = true
	switch t {
	case 1:
		return c17Attr{T: t}, true
	case 0x11:
		code := pick(r, []byte{0, 0, 0x10, 0x12, 0x14, 0x16, 0x18, 0x1a, 0x1c, 0x1f, 0xff})
		a := c17Attr{T: t, ID: r.next(), Code: code}
		if r.chance(20) {
			a.ID = pick(r, []uint64{0, 1, 1<<63 - 1, 1 << 63, 1<<64 - 1})
		}
		if code == 0 {
			a.Data = hx(r.bytes(pick(r, []int{0, 1, 5, 252, 253, 300})))
		}
		return a, true
	case 0x20:
		return c17Attr{T: t, Height: pick(r, []uint32{0, 1, 255, 256, 1<<32 - 1, uint32(r.next())})}, true
	case 0x21:
		return c17Attr{T: t, Data: c17GenHash(r, 32)}, true
	case 0x22:
		return c17Attr{T: t, NKeys: byte(r.next())}, true
	default:
		return c17Attr{T: t, Data: hx(r.bytes(pick(r, []int{0, 1, 7, 252, 253})))}, true
	}
}

func c17GenTx(r *rng) c17Tx {
	t := c17Tx{Nonce: uint32(r.next()), VUB: uint32(r.next())}
	if r.chance(20) {
		t.Nonce = pick(r, []uint32{0, 1, 0xff, 0x100, 1<<32 - 1})
		t.VUB = pick(r, []uint32{0, 1, 0xffff, 0x10000, 1<<32 - 1})
	}
	fees := []int64{0, 1, 252, 253, 1 << 32, 1<<62 - 1, 1 << 62, int64(r.next() >> 3)}
	t.SysFee = pick(r, fees)
	t.NetFee = pick(r, fees)
	if t.SysFee+t.NetFee < 0 {
		t.NetFee = 0
	}
	if r.chance(10) {
		t.SysFee, t.NetFee = 1<<62, 1<<62-1 // sum = 2^63-1, the largest valid
	}
	ns := pick(r, []int{1, 1, 1, 2, 3, 16})
	na := 0
	if ns < 16 {
		na = r.intn(min(5, 17-ns))
	}
	if r.chance(5) && ns == 1 {
		na = 15
	}
	for i := 0; i < ns; i++ {
		t.Signers = append(t.Signers, c17GenSigner(r, i))
		t.Wits = append(t.Wits, c17Wit{Inv: hx(r.bytes(pick(r, []int{0, 1, 66, 252, 253, 1024}))), Ver: hx(r.bytes(pick(r, []int{0, 1, 40, 252, 253, 1024})))})
	}
	used := map[byte]bool{}
	t.Attrs = []c17Attr{}
	for len(t.Attrs) < na {
		a, ok := c17GenAttr(r, used)
		if !ok {
			if len(used) >= 6 { // only Conflicts can still be added
				used[0x21] = true
				t.Attrs = append(t.Attrs, c17Attr{T: 0x21, Data: c17GenHash(r, 32)})
			}
			continue
		}
		t.Attrs = append(t.Attrs, a)
	}
	t.Script = hx(r.bytes(pick(r, []int{1, 1, 2, 40, 252, 253, 254, 600})))
	return t
}

func c17GenItem(r *rng, depth int, budget *int) c17Item {
	*budget--
	leaf := depth <= 0 || *budget <= 0 || r.chance(55)
	if leaf {
		switch r.intn(6) {
		case 0:
			return c17Item{T: "any"}
		case 1:
			return c17Item{T: "bool", B: r.bool()}
		case 2:
			return c17Item{T: "int", Z: pick(r, latticeIntsCached(r)).String()}
		case 3:
			return c17Item{T: "bytes", D: hx(r.bytes(pick(r, []int{0, 1, 20, 64, 65, 252, 253})))}
		case 4:
			return c17Item{T: "buffer", D: hx(r.bytes(pick(r, []int{0, 1, 33})))}
		default:
			return c17Item{T: "int", Z: fmt.Sprint(int64(r.next()) >> uint(r.intn(64)))}
		}
	}
	n := r.intn(4)
	switch r.intn(3) {
	case 0, 1:
		it := c17Item{T: pick(r, []string{"array", "struct"}), L: []c17Item{}}
		for i := 0; i < n; i++ {
			it.L = append(it.L, c17GenItem(r, depth-1, budget))
		}
		return it
	default:
		it := c17Item{T: "map", L: []c17Item{}}
		seen := map[string]bool{}
		for i := 0; i < n; i++ {
			var k c17Item
			switch r.intn(3) {
			case 0:
				k = c17Item{T: "bool", B: r.bool()}
			case 1:
				k = c17Item{T: "int", Z: fmt.Sprint(r.intn(5) - 2)}
			default:
				k = c17Item{T: "bytes", D: hx(r.bytes(pick(r, []int{0, 1, 2, 64})))}
			}
			id := k.T + "/" + fmt.Sprint(k.B) + k.Z + k.D
			if seen[id] {
				continue
			}
			seen[id] = true
			*budget--
			it.L = append(it.L, k, c17GenItem(r, depth-1, budget))
		}
		return it
	}
}

// header/block values are built directly (no description needed: replay carries the bytes)
func c17GenHeader(r *rng, sr bool) *block.Header {
	h := &block.Header{Version: uint32(r.intn(2)), Timestamp: r.next(), Nonce: r.next(), Index: uint32(r.next()), PrimaryIndex: byte(r.next()),
		StateRootEnabled: sr,
		Script:           transaction.Witness{InvocationScript: r.bytes(pick(r, []int{0, 1, 66, 253})), VerificationScript: r.bytes(pick(r, []int{0, 1, 35, 252}))}}
	copy(h.PrevHash[:], r.bytes(32))
	copy(h.MerkleRoot[:], r.bytes(32))
	copy(h.NextConsensus[:], r.bytes(20))
	if sr {
		copy(h.PrevStateRoot[:], r.bytes(32))
	}
	return h
}

func c17Join(xs []string) string { return strings.Join(xs, ",") }

// the boundary lattice of integers restricted to the VM range [-2^255, 2^255)
var c17IntLattice []*big.Int

func latticeIntsCached(r *rng) []*big.Int {
	if c17IntLattice == nil {
		lo := new(big.Int).Neg(new(big.Int).Lsh(big.NewInt(1), 255))
		hi := new(big.Int).Lsh(big.NewInt(1), 255)
		for _, z := range latticeInts(newRng(99), 40) {
			if z.Cmp(lo) >= 0 && z.Cmp(hi) < 0 {
				c17IntLattice = append(c17IntLattice, z)
			}
		}
	}
	return c17IntLattice
}

// ---- DAG-shaped items: the same compound instance reachable several times from one item ----

func c17Ref(i int) c17Item { return c17Item{T: "ref", Ref: i} }

func c17GenPrim(r *rng) c17Item {
	switch r.intn(5) {
	case 0:
		return c17Item{T: "any"}
	case 1:
		return c17Item{T: "bool", B: r.bool()}
	case 2:
		return c17Item{T: "int", Z: pick(r, latticeIntsCached(r)).String()}
	case 3:
		return c17Item{T: "bytes", D: hx(r.bytes(pick(r, []int{0, 1, 20, 64})))}
	default:
		return c17Item{T: "buffer", D: hx(r.bytes(pick(r, []int{0, 3})))}
	}
}

// a pool of shared compounds (each may contain earlier pool entries) and a top item in which every pool entry
// occurs two or three times at different depths
func c17GenDAG(r *rng) ([]c17Item, c17Item) {
	var shared []c17Item
	np := 1 + r.intn(4)
	for i := 0; i < np; i++ {
		var it c17Item
		sub := func() c17Item { // an element: a primitive, or an earlier shared instance
			if i > 0 && r.chance(45) {
				return c17Ref(r.intn(i))
			}
			return c17GenPrim(r)
		}
		switch r.intn(6) {
		case 0:
			it = c17Item{T: "map", L: []c17Item{}}
		case 1:
			it = c17Item{T: "array", L: []c17Item{}}
		case 2:
			it = c17Item{T: "struct", L: []c17Item{}}
		case 3:
			it = c17Item{T: "map", L: []c17Item{{T: "int", Z: "1"}, sub(), {T: "bytes", D: "6b"}, sub(), {T: "bool", B: true}, sub()}}
		default:
			it = c17Item{T: pick(r, []string{"array", "struct"}), L: []c17Item{}}
			for k, n := 0, 1+r.intn(3); k < n; k++ {
				it.L = append(it.L, sub())
			}
		}
		shared = append(shared, it)
	}
	var wrap func(x c17Item, d int) c17Item
	wrap = func(x c17Item, d int) c17Item {
		for ; d > 0; d-- {
			switch r.intn(3) {
			case 0:
				x = c17Item{T: "array", L: []c17Item{c17GenPrim(r), x}}
			case 1:
				x = c17Item{T: "struct", L: []c17Item{x}}
			default:
				x = c17Item{T: "map", L: []c17Item{{T: "int", Z: fmt.Sprint(d)}, x}}
			}
		}
		return x
	}
	top := c17Item{T: pick(r, []string{"array", "struct"}), L: []c17Item{}}
	for i := range shared {
		for k, n := 0, 2+r.intn(2); k < n; k++ {
			top.L = append(top.L, wrap(c17Ref(i), r.intn(3)))
		}
	}
	if r.bool() { // the shared instances as map values too
		m := c17Item{T: "map", L: []c17Item{}}
		for i := range shared {
			m.L = append(m.L, c17Item{T: "int", Z: fmt.Sprint(i)}, c17Ref(i))
		}
		top.L = append(top.L, m)
	}
	r2 := top.L
	for i := len(r2) - 1; i > 0; i-- { // shuffle
		j := r.intn(i + 1)
		r2[i], r2[j] = r2[j], r2[i]
	}
	return shared, top
}

// doubling chains: shared[0] = empty compound, shared[i+1] = compound of two occurrences of shared[i]:
// the unfolded tree has 2^(k+1)-1 items (k = 10: 2047, the largest below the limit; k = 11: 4095, refused)
func c17GenDoubling(kind string, k int) ([]c17Item, c17Item) {
	mk := func(a, b c17Item, has bool) c17Item {
		switch kind {
		case "map":
			if !has {
				return c17Item{T: "map", L: []c17Item{}}
			}
			return c17Item{T: "map", L: []c17Item{{T: "int", Z: "0"}, a, {T: "int", Z: "1"}, b}}
		default:
			if !has {
				return c17Item{T: kind, L: []c17Item{}}
			}
			return c17Item{T: kind, L: []c17Item{a, b}}
		}
	}
	shared := []c17Item{mk(c17Item{}, c17Item{}, false)}
	for i := 1; i <= k; i++ {
		shared = append(shared, mk(c17Ref(i-1), c17Ref(i-1), true))
	}
	return shared, c17Ref(k)
}

// a shared instance occurring three times in an array padded with Any so that the UNFOLDED item count is exactly
// total: 2048 must be accepted, 2049 refused (a replayed occurrence is charged its full count)
func c17GenBudgetEdge(kind string, total int) ([]c17Item, c17Item) {
	var x c17Item
	cnt := 0
	switch kind {
	case "map":
		x, cnt = c17Item{T: "map", L: []c17Item{{T: "int", Z: "1"}, {T: "any"}}}, 3
	default:
		x, cnt = c17Item{T: kind, L: []c17Item{{T: "any"}}}, 2
	}
	top := c17Item{T: "array", L: []c17Item{c17Ref(0), c17Ref(0), c17Ref(0)}}
	for n := 1 + 3*cnt; n < total; n++ {
		top.L = append(top.L, c17Item{T: "any"})
	}
	return []c17Item{x}, top
}
