package main

// C09, two-layer schedules (kind "sched2"): shared MemCachedStore L1 over shared MemCachedStore L2 over a base store.
// A gate between L1 and L2 parks the reader after its first snapshot, the gate around the base store parks it after the
// second one and splits L2.Persist — the Persist of the MIDDLE layer — into its three regions (as in c09sched.go).
// The reader is one SeekAsync on the top layer with any SearchDepth; a depth-limited seek simply does not reach the later
// gates. Model: Store/Conc2.v; theorems C09_two_layer_reader_atomic / C09_two_layer_reader_depth.
//
// input: {backend, ops: [{t:"w1"|"w2",batch} | {t:"swap2"} | {t:"lwrite2"} | {t:"unswap2"} | {t:"snap1"} | {t:"snap2"} | {t:"read"}],
//         q:{prefix,start,bw,depth}}
// Normalised before the run: exactly one snap1, then one snap2, then one read (missing ones are appended).

import (
	"bytes"
	"context"
	"fmt"
	"time"

	"github.com/nspcc-dev/neo-go/pkg/core/storage"
)

func c09NormSched2(ops []c09SOp) []c09SOp {
	var out []c09SOp
	st := 0 // 0 before snap1, 1 before snap2, 2 before read, 3 after
	for _, o := range ops {
		switch o.T {
		case "snap1":
			if st != 0 {
				continue
			}
			st = 1
		case "snap2":
			if st != 1 {
				continue
			}
			st = 2
		case "read":
			if st != 2 {
				continue
			}
			st = 3
		}
		out = append(out, o)
	}
	for _, t := range []string{"snap1", "snap2", "read"}[st:] {
		out = append(out, c09SOp{T: t})
	}
	return out
}

func c09RunSched2(co *caseOut, in c09SInput, dir string, seq int) error {
	ops := c09NormSched2(in.Ops)
	in.Ops = ops
	base0, err := c09NewStack(in.Backend, dir, seq)
	if err != nil {
		return err
	}
	defer base0.close(dir, in.Backend, seq)
	mkGate := func(inner storage.Store) *c09Gate {
		return &c09Gate{Store: inner,
			seekArrive: make(chan struct{}), seekGo: make(chan struct{}),
			putArrive: make(chan struct{}), putGo: make(chan struct{}),
			putWritten: make(chan struct{}), putGoExit: make(chan struct{})}
	}
	gX := mkGate(base0.base)
	gX.settle = base0.settle
	L2 := storage.NewMemCachedStore(gX)
	g1 := mkGate(L2)
	L1 := storage.NewMemCachedStore(g1)
	prefix, start := unhx(in.Q.Prefix), unhx(in.Q.Start)
	rng := storage.SeekRange{Prefix: prefix, Start: start, Backwards: in.Q.Bw, SearchDepth: in.Q.Depth}

	const (
		idle = iota
		swapped
		written
	)
	pstate := idle
	persistDone := make(chan error, 1)
	rstate := 0 // 0 none, 1 parked between the layers, 2 parked at the base store, 3 done
	var (
		res       []c09KV
		collected chan struct{}
		cancel    context.CancelFunc
	)
	// window flags for known-finding matching (the conditions the theorems exclude)
	w2In12, persistIn := false, false
	var coqActs []string
	batchOf := func(o c09SOp) (map[string][]byte, map[string][]byte, string) {
		mem, stor := map[string][]byte{}, map[string][]byte{}
		var ents []string
		for _, e := range o.Batch {
			if e[0] == nil {
				continue
			}
			k := unhx(*e[0])
			if len(k) == 0 {
				continue
			}
			var v []byte
			if e[1] != nil {
				v = unhx(*e[1])
				if v == nil {
					v = []byte{}
				}
			}
			if k[0] == byte(storage.STStorage) || k[0] == byte(storage.STTempStorage) {
				stor[string(k)] = v
			} else {
				mem[string(k)] = v
			}
			ents = append(ents, fmt.Sprintf("(%s,%s)", coqBytes(k), coqOpt(coqBytes(v), v != nil)))
		}
		return mem, stor, coqList(ents)
	}
	waitReader := func(arrive chan struct{}, next int) error {
		select {
		case <-arrive:
			rstate = next
		case <-collected:
			rstate = 3
		case <-time.After(c09StepTimeout):
			return c09Stuck("c09sched2:select1")
		}
		return nil
	}
	for _, o := range ops {
		switch o.T {
		case "w1":
			mem, stor, c := batchOf(o)
			if err := L1.PutChangeSet(mem, stor); err != nil {
				return err
			}
			coqActs = append(coqActs, "TW1 "+c)
		case "w2":
			mem, stor, c := batchOf(o)
			if err := L2.PutChangeSet(mem, stor); err != nil {
				return err
			}
			coqActs = append(coqActs, "TW2 "+c)
			if rstate == 1 {
				w2In12 = true
			}
			if rstate == 2 && in.Q.Depth != 0 {
				w2In12 = true // (depth-limited statement: no write into the middle layer anywhere in the interval)
			}
		case "swap2":
			coqActs = append(coqActs, "TSwap")
			if pstate != idle {
				break
			}
			gX.putArmed = true
			go func() { _, err := L2.Persist(); persistDone <- err }()
			select {
			case <-gX.putArrive:
				pstate = swapped
				if rstate == 2 || (rstate == 1 && in.Q.Depth != 0) {
					persistIn = true
				}
			case err := <-persistDone:
				gX.putArmed = false
				if err != nil {
					return err
				}
			case <-time.After(c09StepTimeout):
				return c09Stuck("c09sched2:select2")
			}
		case "lwrite2":
			coqActs = append(coqActs, "TLw")
			if pstate != swapped {
				break
			}
			gX.putGo <- struct{}{}
			if err := c09Wait(gX.putWritten, "c09sched2:gX.putWritten"); err != nil {
				return err
			}
			pstate = written
		case "unswap2":
			coqActs = append(coqActs, "TUn")
			if pstate != written {
				break
			}
			gX.putGoExit <- struct{}{}
			select {
			case err := <-persistDone:
				if err != nil {
					return err
				}
			case <-time.After(c09StepTimeout):
				return c09Stuck("c09sched2:select3")
			}
			gX.putArmed = false
			pstate = idle
			if (rstate == 1 || rstate == 2) && in.Q.Depth != 0 {
				persistIn = true
			}
		case "snap1":
			coqActs = append(coqActs, "TSnap1")
			var ctx context.Context
			ctx, cancel = context.WithCancel(context.Background())
			g1.seekArmed, gX.seekArmed = true, true
			ch := L1.SeekAsync(ctx, rng, false)
			collected = make(chan struct{})
			go func() {
				for kv := range ch {
					res = append(res, c09KV{bytes.Clone(kv.Key), bytes.Clone(kv.Value)})
				}
				close(collected)
			}()
			if err := waitReader(g1.seekArrive, 1); err != nil {
				return err
			}
		case "snap2":
			coqActs = append(coqActs, "TSnap2")
			if rstate != 1 {
				break
			}
			g1.seekGo <- struct{}{}
			if err := waitReader(gX.seekArrive, 2); err != nil {
				return err
			}
		case "read":
			coqActs = append(coqActs, "TRead")
			if rstate == 2 {
				gX.seekGo <- struct{}{}
				if err := c09Wait(collected, "c09sched2:collected"); err != nil {
					return err
				}
				rstate = 3
			}
		default:
			return fmt.Errorf("unknown two-layer schedule op %q", o.T)
		}
	}
	if rstate != 3 {
		return fmt.Errorf("two-layer schedule: reader left in state %d", rstate)
	}
	cancel()
	g1.seekArmed, gX.seekArmed = false, false
	switch pstate { // let a pending Persist finish
	case swapped:
		gX.putGo <- struct{}{}
		if err := c09Wait(gX.putWritten, "c09sched2:gX.putWritten"); err != nil {
			return err
		}
		fallthrough
	case written:
		gX.putGoExit <- struct{}{}
		<-persistDone
	}
	impl := map[string]any{"res": c09JSONKVs(res)}
	tag := fmt.Sprintf("d%d-quiet", min(in.Q.Depth, 4))
	if w2In12 || persistIn {
		// outside the hypotheses of C09_two_layer_reader_atomic / _depth: the two-layer form of finding F41
		impl["window"] = "middle-layer-written-or-persisted-inside-the-reader-interval"
		tag = fmt.Sprintf("d%d-disturbed", min(in.Q.Depth, 4))
	}
	c09PerBackend[in.Backend]++
	co.add("sched2", tag, len(res) > 0, in, impl,
		fmt.Sprintf("CSched2 %d %s (R %s %s %s %d) %s", c09BackendNo[in.Backend], coqList(coqActs),
			coqBytes(prefix), coqBytes(start), coqBool(in.Q.Bw), in.Q.Depth, c09CoqKVs(res)))
	return nil
}

func c09GenSched2(r *rng) ([]c09SOp, c09Query) {
	keys := [][]byte{{0x70, 0x01}, {0x70, 0x02}, {0x70, 0x02, 0x00}, {0x70, 0x03}, {0x70, 0xff}, {0x03, 0x01}}
	n := 8 + r.intn(12)
	s1 := r.intn(n)
	s2 := s1 + r.intn(n-s1+1)
	s3 := s2 + r.intn(n-s2+1)
	var ops []c09SOp
	vseq := 0
	pst := 0
	for i := 0; i <= n; i++ {
		if i == s1 {
			ops = append(ops, c09SOp{T: "snap1"})
		}
		if i == s2 {
			ops = append(ops, c09SOp{T: "snap2"})
		}
		if i == s3 {
			ops = append(ops, c09SOp{T: "read"})
		}
		c := r.intn(100)
		switch {
		case c < 50:
			var batch [][2]*string
			used := map[int]bool{}
			for j := 0; j < 1+r.intn(3); j++ {
				ki := r.intn(len(keys))
				if used[ki] {
					continue
				}
				used[ki] = true
				k := hx(keys[ki])
				if r.chance(20) {
					batch = append(batch, [2]*string{&k, nil})
				} else {
					vseq++
					v := hx([]byte{byte(vseq)})
					batch = append(batch, [2]*string{&k, &v})
				}
			}
			t := "w1"
			if r.chance(45) {
				t = "w2"
			}
			ops = append(ops, c09SOp{T: t, Batch: batch})
		case c < 92:
			ops = append(ops, c09SOp{T: []string{"swap2", "lwrite2", "unswap2"}[pst]})
			pst = (pst + 1) % 3
		default:
			ops = append(ops, c09SOp{T: pick(r, []string{"swap2", "lwrite2", "unswap2"})})
		}
	}
	q := c09Query{Prefix: "70", Bw: r.chance(30), Depth: pick(r, []int{0, 0, 0, 1, 2, 3, 4})}
	if r.chance(20) {
		q.Start = "02"
	}
	return ops, q
}
