package main

// C07, kind "attrs": the attribute rules on MIXED attribute lists. A transaction in order in every other respect
// carries a list of attributes of different types in a given order - valid ones (NotValidBefore at or below the
// current height, HighPriority with the committee co-signing, Conflicts naming foreign hashes) and defective ones
// (a second Conflicts with the same hash at ANY distance, a Conflicts naming a transaction on chain, a second
// HighPriority / NotValidBefore / OracleResponse / NotaryAssisted, HighPriority without the committee, NotValidBefore in
// the future, OracleResponse / NotaryAssisted on an ordinary transaction, a reserved type, one attribute beyond the
// 16 that attributes and signers may be together) at every position. It is sent as BYTES (decoded as a peer's
// transaction is: Transaction.isValid runs there) and offered to the pool. Expectation: the model's whole-list
// predicate (Admission/Attrs.v, CAttrs), also evaluated here for the diagnostic.
//
// attribute items: "hp", "nvb" (current height), "nvb-" (one below), "nvb+" (one above: not yet valid), "c<k>" (foreign
// hash k), "cchain" (the funding transaction's hash), "oracle", "notary", "res".

import (
	"fmt"
	"strconv"
	"strings"

	"github.com/nspcc-dev/neo-go/pkg/core/mempool"
	"github.com/nspcc-dev/neo-go/pkg/core/transaction"
	"github.com/nspcc-dev/neo-go/pkg/util"
)

type c07AttrIn struct {
	Seed      uint64   `json:"seed"`
	Attrs     []string `json:"attrs"`
	Committee bool     `json:"committee,omitempty"`
}

func c07RunAttrs(co *caseOut, in c07AttrIn) {
	r := newRng(in.Seed)
	c := c07NewChain(c07Cfg{noReplica: true})
	defer c.close()
	sender := c07MakeAcct(r, 0, 0)
	c.fund(1000_0000_0000, sender)
	cur := c.bc.BlockHeight()
	blk, err := c.bc.GetBlock(c.bc.GetHeaderHash(cur))
	if err != nil || len(blk.Transactions) == 0 {
		panic(c07Fail{"attrs: no funding transaction on chain"})
	}
	onChain := blk.Transactions[0].Hash()
	signers := []*c07Acct{sender}
	if in.Committee {
		signers = append(signers, &c07Acct{M: 1, N: 1, signer: c.val})
	}
	var attrs []transaction.Attribute
	var coq []string
	// the model's predicate, evaluated here for the diagnostic
	okEach, confSeen, singles := true, map[int]bool{}, map[string]int{}
	dupConf := false
	for _, a := range in.Attrs {
		switch {
		case a == "hp":
			attrs = append(attrs, transaction.Attribute{Type: transaction.HighPriority})
			coq = append(coq, "AHigh")
			singles["hp"]++
			okEach = okEach && in.Committee
		case strings.HasPrefix(a, "nvb"):
			h := cur
			if a == "nvb-" && cur > 0 {
				h = cur - 1
			}
			if a == "nvb+" {
				h = cur + 1
			}
			attrs = append(attrs, transaction.Attribute{Type: transaction.NotValidBeforeT, Value: &transaction.NotValidBefore{Height: h}})
			coq = append(coq, fmt.Sprintf("ANvb %d", h))
			singles["nvb"]++
			okEach = okEach && h <= cur
		case a == "cchain":
			attrs = append(attrs, transaction.Attribute{Type: transaction.ConflictsT, Value: &transaction.Conflicts{Hash: onChain}})
			coq = append(coq, "AConf 999")
			dupConf = dupConf || confSeen[999]
			confSeen[999] = true
			okEach = false
		case strings.HasPrefix(a, "c"):
			k, e := strconv.Atoi(a[1:])
			if e != nil || k < 0 || k > 200 {
				panic(c07Fail{"attrs: bad item " + a})
			}
			attrs = append(attrs, transaction.Attribute{Type: transaction.ConflictsT, Value: &transaction.Conflicts{Hash: util.Uint256{0xC0, 0x0F, byte(k)}}})
			coq = append(coq, fmt.Sprintf("AConf %d", k))
			dupConf = dupConf || confSeen[k]
			confSeen[k] = true
		case a == "oracle":
			attrs = append(attrs, transaction.Attribute{Type: transaction.OracleResponseT, Value: &transaction.OracleResponse{ID: 1, Code: transaction.Success, Result: []byte{}}})
			coq = append(coq, "AOracle")
			singles["oracle"]++
			okEach = false
		case a == "notary":
			attrs = append(attrs, transaction.Attribute{Type: transaction.NotaryAssistedT, Value: &transaction.NotaryAssisted{NKeys: 1}})
			coq = append(coq, "ANotary")
			singles["notary"]++
			okEach = false
		case a == "res":
			attrs = append(attrs, transaction.Attribute{Type: transaction.ReservedLowerBound + 5, Value: &transaction.Reserved{Value: []byte{1, 2}}})
			coq = append(coq, "AReserved 229")
			okEach = false
		default:
			panic(c07Fail{"attrs: unknown item " + a})
		}
	}
	want := okEach && !dupConf && len(attrs)+len(signers) <= transaction.MaxAttributes
	for _, n := range singles {
		want = want && n <= 1
	}
	fpb := c.bc.FeePerByte()
	tmp := transaction.New(c07PushOne, 0)
	tmp.Attributes = attrs
	for _, s := range signers {
		tmp.Signers = append(tmp.Signers, transaction.Signer{Account: s.hash()})
	}
	attrFee := c.bc.CalculateAttributesFee(tmp)
	tx, _ := c.build(c07TxSpec{signers: signers, script: c07PushOne, sysfee: 100_0000, vub: cur + 1, attrs: attrs,
		netfee: func(size int, calc int64) int64 { return int64(size)*fpb + calc + attrFee }})
	var perr error
	stage := "pool"
	if p := catch(func() {
		dec, e := transaction.NewTransactionFromBytes(tx.Bytes())
		if e != nil {
			perr, stage = e, "decode"
			return
		}
		perr = c.bc.PoolTx(dec, mempool.New(50, false, nil))
	}); p != "" {
		perr, stage = fmt.Errorf("panic: %s", p), "panic"
	}
	accepted := perr == nil
	impl := map[string]any{"accepted": accepted, "stage": stage, "err": fmt.Sprint(perr), "expected": want}
	tag := "valid"
	if !want {
		tag = "defective"
	}
	tag += fmt.Sprintf("/%d", len(attrs))
	if accepted != want {
		tag = "violation"
	}
	co.add("attrs", tag, !want || len(attrs) >= 3, in, impl,
		fmt.Sprintf("CAttrs %d %s false false false [999] %d%%nat [%s] %s", cur, coqBool(in.Committee), len(signers), strings.Join(coq, ";"), coqBool(accepted)))
	if accepted != want {
		if accepted {
			co.violation("attrs", fmt.Sprintf("a transaction whose attribute list %v breaks the attribute rules was admitted", in.Attrs), in, impl)
		} else {
			co.violation("attrs", fmt.Sprintf("a transaction whose attribute list %v keeps every attribute rule was refused (%s): %v", in.Attrs, stage, perr), in, impl)
		}
	}
}

// c07GenAttrs: directed (every position of the defective attribute(s) in small mixed lists) and random cases.
func c07GenAttrs(r *rng, nrandom int) []c07AttrIn {
	var out []c07AttrIn
	ins := func(l []string, pos int, x string) []string {
		n := append([]string{}, l[:pos]...)
		n = append(n, x)
		return append(n, l[pos:]...)
	}
	emit := func(l []string) {
		hp := 0
		for _, a := range l {
			if a == "hp" {
				hp++
			}
		}
		out = append(out, c07AttrIn{Seed: r.next(), Attrs: l, Committee: hp > 0})
	}
	// a duplicate Conflicts pair at every pair of positions
	for _, others := range [][]string{{"nvb"}, {"nvb", "c1"}, {"hp", "c1", "nvb-"}} {
		for i := 0; i <= len(others); i++ {
			l1 := ins(others, i, "c7")
			for j := i + 1; j <= len(l1); j++ {
				emit(ins(l1, j, "c7"))
			}
		}
		emit(others)
	}
	// one defective attribute at every position
	base := []string{"nvb", "c1", "hp"}
	for _, d := range []string{"cchain", "nvb+", "hp", "oracle", "notary", "res", "c1"} {
		for i := 0; i <= len(base); i++ {
			emit(ins(base, i, d))
		}
	}
	// HighPriority without the committee, behind and before others
	out = append(out, c07AttrIn{Seed: r.next(), Attrs: []string{"c1", "hp"}}, c07AttrIn{Seed: r.next(), Attrs: []string{"hp", "nvb", "c2"}})
	// the limit of 16 attributes and signers together
	for _, n := range []int{15, 16} {
		var l []string
		for k := 0; k < n-1; k++ {
			l = append(l, fmt.Sprintf("c%d", 10+k))
		}
		emit(ins(l, r.intn(len(l)+1), "nvb"))
	}
	// random mixed lists
	for q := 0; q < nrandom; q++ {
		var l []string
		if r.chance(70) {
			l = append(l, pick(r, []string{"nvb", "nvb-"}))
		}
		hp := r.chance(50)
		if hp {
			l = append(l, "hp")
		}
		for k, n := 0, r.intn(5); k < n; k++ {
			l = append(l, fmt.Sprintf("c%d", 1+k))
		}
		if len(l) == 0 {
			l = []string{"c1"}
		}
		for i := len(l) - 1; i > 0; i-- {
			j := r.intn(i + 1)
			l[i], l[j] = l[j], l[i]
		}
		nd := r.intn(3)
		for k := 0; k < nd; k++ {
			d := pick(r, []string{"c1", "c2", "c9", "c9", "cchain", "nvb", "nvb+", "hp", "oracle", "notary", "res"})
			l = ins(l, r.intn(len(l)+1), d)
		}
		out = append(out, c07AttrIn{Seed: r.next(), Attrs: l, Committee: hp || r.chance(20)})
	}
	return out
}
