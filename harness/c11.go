package main

// C11 — trie node storage under reference counting and garbage collection.
//
// One case = one history of one store in one trie mode, driven through the REAL code:
//   via "trie":   mpt.NewTrie + PutBatch (or single Put/Delete) + hook(refcount map) + Flush(index) [+ Collapse]
//   via "module": stateroot.Module.AddMPTBatch + UpdateCurrentLocal (+ dropped blocks: AddMPTBatch, result discarded)
// GC through stateroot.Module.GC.  After EVERY event the whole DataMPT key space is dumped and
//   (i)  checked directly against an independent walker (own node parser, own counting) from every retained root,
//   (ii) handed to the Coq side (Harness/C11.v): mechanism model (TrieRC.Model) and specification table.

import (
	"bytes"
	"encoding/binary"
	"encoding/json"
	"fmt"
	"sort"

	"github.com/nspcc-dev/neo-go/pkg/config"
	"github.com/nspcc-dev/neo-go/pkg/core/mpt"
	"github.com/nspcc-dev/neo-go/pkg/core/stateroot"
	"github.com/nspcc-dev/neo-go/pkg/core/storage"
	"github.com/nspcc-dev/neo-go/pkg/crypto/hash"
	"github.com/nspcc-dev/neo-go/pkg/util"
	"go.uber.org/zap"
)

func init() { register("c11", runC11) }

type c11Ev struct {
	T        string      `json:"t"`                  // "block" | "drop" | "gc" | "restart"
	KV       [][2]string `json:"kv,omitempty"`       // [key hex, value hex or "-" (delete)]
	Single   bool        `json:"single,omitempty"`   // trie driver: Put/Delete one by one instead of PutBatch
	Collapse int         `json:"collapse,omitempty"` // trie driver: Collapse(depth-1) after the flush when > 0
	Persist  bool        `json:"persist,omitempty"`  // flush the write cache to the bottom store after the event
	Keep     int         `json:"keep,omitempty"`     // gc: G = current height - keep
}

type c11Input struct {
	Mode string  `json:"mode"` // "all" | "latest" | "gc"
	Via  string  `json:"via"`  // "trie" | "module"
	Ops  []c11Ev `json:"ops"`
}

// ---- independent node parser / walker over raw table values ----

type c11Node struct {
	typ      byte
	children []util.Uint256 // hashes of non-empty children in order
	idx      []int          // branch: child slot of each entry of children; extension: -1
	key      []byte         // extension: nibbles
	value    []byte         // leaf
}

func c11ReadVarBytes(b []byte) ([]byte, []byte, bool) {
	if len(b) == 0 {
		return nil, nil, false
	}
	var n int
	switch b[0] {
	case 0xfd:
		if len(b) < 3 {
			return nil, nil, false
		}
		n = int(binary.LittleEndian.Uint16(b[1:]))
		b = b[3:]
	case 0xfe, 0xff:
		return nil, nil, false
	default:
		n = int(b[0])
		b = b[1:]
	}
	if len(b) < n {
		return nil, nil, false
	}
	return b[:n], b[n:], true
}

func c11ReadChild(b []byte) (util.Uint256, bool, []byte, bool) { // hash, present, rest, ok
	if len(b) == 0 {
		return util.Uint256{}, false, nil, false
	}
	switch b[0] {
	case 0x04:
		return util.Uint256{}, false, b[1:], true
	case 0x03:
		if len(b) < 33 {
			return util.Uint256{}, false, nil, false
		}
		h, err := util.Uint256DecodeBytesBE(b[1:33])
		return h, true, b[33:], err == nil
	}
	return util.Uint256{}, false, nil, false
}

// c11Parse decodes the serialization of a stored node (without the reference-counting suffix).
func c11Parse(b []byte) (*c11Node, bool) {
	if len(b) == 0 {
		return nil, false
	}
	n := &c11Node{typ: b[0]}
	rest := b[1:]
	switch b[0] {
	case 0x00:
		for i := 0; i < 17; i++ {
			h, present, r, ok := c11ReadChild(rest)
			if !ok {
				return nil, false
			}
			rest = r
			if present {
				n.children = append(n.children, h)
				n.idx = append(n.idx, i)
			}
		}
	case 0x01:
		k, r, ok := c11ReadVarBytes(rest)
		if !ok || len(k) == 0 {
			return nil, false
		}
		n.key = k
		h, present, r2, ok := c11ReadChild(r)
		if !ok || !present {
			return nil, false
		}
		rest = r2
		n.children = []util.Uint256{h}
		n.idx = []int{-1}
	case 0x02:
		v, r, ok := c11ReadVarBytes(rest)
		if !ok {
			return nil, false
		}
		n.value = v
		rest = r
	default:
		return nil, false
	}
	if len(rest) != 0 {
		return nil, false
	}
	return n, true
}

type c11Entry struct {
	node   []byte // serialization without suffix
	active bool
	val    uint32
}

// c11Dump reads every DataMPT key of the store.
func c11Dump(s storage.Store, rc bool) (map[util.Uint256]c11Entry, string) {
	res := map[util.Uint256]c11Entry{}
	bad := ""
	s.Seek(storage.SeekRange{Prefix: []byte{byte(storage.DataMPT)}}, func(k, v []byte) bool {
		if len(k) != 33 {
			bad = "DataMPT key of length " + fmt.Sprint(len(k))
			return true
		}
		h, _ := util.Uint256DecodeBytesBE(k[1:])
		e := c11Entry{active: true}
		if rc {
			if len(v) < 6 {
				bad = "value too short for a reference-counted node at " + h.StringBE()
				return true
			}
			e.node = bytes.Clone(v[:len(v)-5])
			e.active = v[len(v)-5] == 1
			if v[len(v)-5] > 1 {
				bad = "active flag byte is neither 0 nor 1 at " + h.StringBE()
			}
			e.val = binary.LittleEndian.Uint32(v[len(v)-4:])
		} else {
			e.node = bytes.Clone(v)
		}
		res[h] = e
		return true
	})
	return res, bad
}

type c11Walk struct {
	occ     map[util.Uint256]int
	content map[string][]byte
	problem string // first missing / undecodable / mis-hashed node
}

// c11WalkRoot walks the trie named by root over a dump, counting every occurrence.
// liveOnly: inactive entries are treated as absent (the live reader of ModeGC).
func c11WalkRoot(d map[util.Uint256]c11Entry, root util.Uint256, liveOnly bool) *c11Walk {
	w := &c11Walk{occ: map[util.Uint256]int{}, content: map[string][]byte{}}
	if root.Equals(util.Uint256{}) {
		return w
	}
	var rec func(h util.Uint256, path []byte, depth int)
	rec = func(h util.Uint256, path []byte, depth int) {
		if w.problem != "" || depth > 300 {
			return
		}
		e, ok := d[h]
		if !ok || (liveOnly && !e.active) {
			w.problem = "node " + h.StringBE()[:12] + " missing"
			return
		}
		if !hash.DoubleSha256(e.node).Equals(h) {
			w.problem = "node bytes under " + h.StringBE()[:12] + " do not hash to their key"
			return
		}
		n, ok := c11Parse(e.node)
		if !ok {
			w.problem = "node " + h.StringBE()[:12] + " undecodable"
			return
		}
		w.occ[h]++
		switch n.typ {
		case 0x02:
			if len(path)%2 != 0 {
				w.problem = "leaf at odd nibble path"
				return
			}
			k := make([]byte, len(path)/2)
			for i := range k {
				k[i] = path[2*i]<<4 | path[2*i+1]
			}
			w.content[string(k)] = n.value
		case 0x01:
			rec(n.children[0], append(append([]byte{}, path...), n.key...), depth+1)
		case 0x00:
			for i, c := range n.children {
				p := append([]byte{}, path...)
				if n.idx[i] != 16 {
					p = append(p, byte(n.idx[i]))
				}
				rec(c, p, depth+1)
			}
		}
	}
	rec(root, nil, 0)
	return w
}

// ---- one history ----

type c11Ids struct {
	m map[util.Uint256]int
}

func (x *c11Ids) id(h util.Uint256) int {
	if v, ok := x.m[h]; ok {
		return v
	}
	v := len(x.m) + 1
	x.m[h] = v
	return v
}

func c11CoqPairs(xs map[int]int64) string {
	ks := make([]int, 0, len(xs))
	for k := range xs {
		ks = append(ks, k)
	}
	sort.Ints(ks)
	out := make([]string, 0, len(ks))
	for _, k := range ks {
		out = append(out, fmt.Sprintf("(%d%%N, %s)", k, coqZi(xs[k])))
	}
	return coqList(out)
}

func c11CoqDump(ids *c11Ids, d map[util.Uint256]c11Entry) string {
	type row struct {
		id int
		a  bool
		v  uint32
	}
	rows := make([]row, 0, len(d))
	for h, e := range d {
		rows = append(rows, row{ids.id(h), e.active, e.val})
	}
	sort.Slice(rows, func(i, j int) bool { return rows[i].id < rows[j].id })
	out := make([]string, 0, len(rows))
	for _, r := range rows {
		out = append(out, fmt.Sprintf("(%d%%N, (%s, %d))", r.id, coqBool(r.a), r.v))
	}
	return coqList(out)
}

func c11Mode(s string) (mpt.TrieMode, int, bool) {
	switch s {
	case "all":
		return mpt.ModeAll, 0, true
	case "latest":
		return mpt.ModeLatest, 1, true
	case "gc":
		return mpt.ModeGC, 2, true
	}
	return 0, 0, false
}

func c11EqContent(a, b map[string][]byte) bool {
	if len(a) != len(b) {
		return false
	}
	for k, v := range a {
		w, ok := b[k]
		if !ok || !bytes.Equal(v, w) {
			return false
		}
	}
	return true
}

func c11RunHist(co *caseOut, kind string, in c11Input) {
	mode, modeN, ok := c11Mode(in.Mode)
	if !ok || (in.Via != "trie" && in.Via != "module") {
		co.add(kind, "malformed", false, in, nil, "CHist 9 []")
		return
	}
	failed, dropped := false, false
	viol := func(note string, impl any) {
		if failed {
			return // one report per history: the first thing that went wrong
		}
		failed = true
		if dropped {
			note = "after a dropped block: " + note
		}
		co.violation(kind, note, in, impl)
	}

	bottom := storage.NewMemoryStore()
	store := storage.NewMemCachedStore(bottom)
	var (
		tr  *mpt.Trie
		mod *stateroot.Module
	)
	cfg := config.Blockchain{}
	cfg.KeepOnlyLatestState = mode == mpt.ModeLatest
	cfg.RemoveUntraceableBlocks = mode == mpt.ModeGC
	if in.Via == "trie" {
		tr = mpt.NewTrie(nil, mode, store)
	} else {
		mod = stateroot.NewModule(cfg, nil, zap.NewNop(), store)
		if err := mod.Init(0); err != nil {
			viol("Module.Init: "+err.Error(), nil)
			return
		}
	}
	gcCfg := config.Blockchain{}
	gcCfg.RemoveUntraceableBlocks = true
	gcMod := stateroot.NewModule(gcCfg, nil, zap.NewNop(), store)

	ids := &c11Ids{m: map[util.Uint256]int{}}
	contents := []map[string][]byte{{}} // contents[j]: flat key/value map after j blocks
	roots := []util.Uint256{{}}         // roots[j]
	prevOcc := map[util.Uint256]int{}   // occurrences in the committed trie
	gmax := 0
	var coqEvs []string
	shared, left, collected := false, false, false
	aborted := false

	applyKV := func(base map[string][]byte, kv [][2]string) (map[string][]byte, map[string][]byte, [][2][]byte) {
		next := map[string][]byte{}
		for k, v := range base {
			next[k] = v
		}
		batch := map[string][]byte{}
		var seq [][2][]byte
		for _, p := range kv {
			k := unhx(p[0])
			if len(k) == 0 {
				continue
			}
			var v []byte
			if p[1] != "-" {
				v = unhx(p[1])
				if v == nil {
					v = []byte{}
				}
				next[string(k)] = v
			} else {
				delete(next, string(k))
			}
			batch[string(append([]byte{byte(storage.STStorage)}, k...))] = v
			seq = append(seq, [2][]byte{k, v})
		}
		return next, batch, seq
	}

	// checks after an event; n = number of committed blocks
	check := func(evi int, what string) map[util.Uint256]c11Entry {
		n := len(roots) - 1
		vio := func(note string) { viol(fmt.Sprintf("%s [event %d, %s]", note, evi, what), nil) }
		d, bad := c11Dump(store, mode.RC())
		if bad != "" {
			vio(fmt.Sprintf("%s", bad))
		}
		// latest trie: exact counters
		lw := c11WalkRoot(d, roots[n], mode.GC())
		if lw.problem != "" {
			vio(fmt.Sprintf("the latest trie is not readable from the node table (height %d): %s", n, lw.problem))
		} else {
			if !c11EqContent(lw.content, contents[n]) {
				vio(fmt.Sprintf("the latest trie does not hold the expected key/value pairs (height %d)", n))
			}
			if mode.RC() {
				for h, e := range d {
					o := lw.occ[h]
					if e.active && int(e.val) != o {
						if o == 0 {
							vio(fmt.Sprintf("an unreferenced node is still active (node %s, counter %d)", h.StringBE()[:12], e.val))
						} else {
							vio(fmt.Sprintf("a stored counter differs from the occurrences of its node in the latest trie (node %s: stored %d, occurs %d)", h.StringBE()[:12], e.val, o))
						}
						break
					}
					if !e.active && (int(e.val) > n || int(e.val) <= gmax || e.val == 0) {
						vio(fmt.Sprintf("an inactive node carries a stamp outside (gc height, current height] (node %s: stamp %d, range (%d, %d])", h.StringBE()[:12], e.val, gmax, n))
						break
					}
					if e.val > 1 && e.active {
						shared = true
					}
				}
			}
		}
		// every retained height: readable, right content, through the walker and through the real readers
		for j := 0; j <= n; j++ {
			retained := j == n || mode == mpt.ModeAll || (mode == mpt.ModeGC && j >= gmax)
			if roots[j].Equals(util.Uint256{}) {
				continue
			}
			w := c11WalkRoot(d, roots[j], false)
			rdMode := mode &^ mpt.ModeGCFlag
			rt := mpt.NewTrie(mpt.NewHashNode(roots[j]), rdMode, storage.NewMemCachedStore(store))
			var found []storage.KeyValue
			var ferr error
			if p := catch(func() { found, ferr = rt.Find([]byte{}, nil, 10000) }); p != "" {
				vio(fmt.Sprintf("Find on a stored root panics (height %d): %s", j, p))
				continue
			}
			if retained {
				if w.problem != "" {
					vio(fmt.Sprintf("a retained height is not readable from the node table (height %d, gc %d, latest %d): %s", j, gmax, n, w.problem))
					continue
				}
				if !c11EqContent(w.content, contents[j]) {
					vio(fmt.Sprintf("a retained height holds other key/value pairs than recorded (height %d)", j))
				}
				if ferr != nil {
					vio(fmt.Sprintf("Find fails on a retained height (height %d): %v", j, ferr))
					continue
				}
			}
			if ferr == nil {
				// whatever a reader returns without an error must be the recorded state of that height
				got := map[string][]byte{}
				for _, kv := range found {
					got[string(kv.Key)] = kv.Value
				}
				if !c11EqContent(got, contents[j]) {
					note := "retained"
					if !retained {
						note = "stale"
					}
					vio(fmt.Sprintf("Find returns data that is not the state of the height its root belongs to (%s root, height %d)", note, j))
				}
			}
			for k, v := range contents[j] {
				var got []byte
				var err error
				if p := catch(func() { got, err = rt.Get([]byte(k)) }); p != "" {
					vio(fmt.Sprintf("Get on a stored root panics (height %d): %s", j, p))
					break
				}
				if err == nil && !bytes.Equal(got, v) {
					vio(fmt.Sprintf("Get on a stored root returns a wrong value (key %x, height %d)", k, j))
					break
				}
				if err != nil && retained {
					vio(fmt.Sprintf("Get fails on a retained height (key %x, height %d): %v", k, j, err))
					break
				}
			}
		}
		return d
	}

	for evi, ev := range in.Ops {
		if aborted {
			break
		}
		n := len(roots) - 1
		switch ev.T {
		case "block", "drop":
			if ev.T == "drop" && in.Via != "module" {
				continue
			}
			idx := uint32(n + 1)
			next, batch, seq := applyKV(contents[n], ev.KV)
			if len(batch) == 0 {
				continue
			}
			deltas := map[int]int64{}
			inits := map[int]int64{}
			var newRoot util.Uint256
			var dropDump map[util.Uint256]c11Entry
			var lowerBefore map[util.Uint256]c11Entry
			p := catch(func() {
				if in.Via == "trie" {
					cache := storage.NewMemCachedStore(store)
					tr.Store = cache
					if ev.Single {
						for _, kv := range seq {
							var err error
							if kv[1] == nil {
								err = tr.Delete(kv[0])
							} else {
								err = tr.Put(kv[0], kv[1])
							}
							if err != nil {
								panic("trie op failed: " + err.Error())
							}
						}
					} else {
						if _, err := tr.PutBatch(mpt.MapToMPTBatch(batch)); err != nil {
							panic("PutBatch failed: " + err.Error())
						}
					}
					for h, e := range tr.VerifC11RefDeltas() {
						if e.Delta != 0 {
							deltas[ids.id(h)] = int64(e.Delta)
							if e.Initial != 0 {
								inits[ids.id(h)] = int64(e.Initial)
							}
						}
					}
					tr.Flush(idx)
					newRoot = tr.StateRoot()
					if _, err := cache.Persist(); err != nil {
						panic(err)
					}
					tr.Store = store
					if ev.Collapse > 0 {
						tr.Collapse(ev.Collapse - 1)
					}
				} else {
					if ev.T == "drop" {
						lowerBefore, _ = c11Dump(store, mode.RC())
					}
					cache := storage.NewPrivateMemCachedStore(store)
					t2, sr, err := mod.AddMPTBatch(idx, mpt.MapToMPTBatch(batch), cache)
					if err != nil {
						panic("AddMPTBatch failed: " + err.Error())
					}
					newRoot = sr.Root
					if ev.T == "drop" {
						dropDump, _ = c11Dump(cache, mode.RC())
						return
					}
					if _, err := cache.Persist(); err != nil {
						panic(err)
					}
					t2.Store = store
					mod.UpdateCurrentLocal(t2, sr)
				}
			})
			if p != "" {
				viol(fmt.Sprintf("panic: %s [event %d, %s %d]", p, evi, ev.T, idx), nil)
				aborted = true
				break
			}
			if ev.T == "drop" {
				dropped = true
				// the dropped computation must leave the committed store (all layers below the dropped cache) untouched
				after, _ := c11Dump(store, mode.RC())
				same := len(after) == len(lowerBefore)
				for h, e := range lowerBefore {
					a, ok := after[h]
					if !ok || a.active != e.active || a.val != e.val || !bytes.Equal(a.node, e.node) {
						same = false
					}
				}
				if !same {
					viol(fmt.Sprintf("a block computed on an upper cache layer and dropped changed values of the lower layers in place [event %d, drop]", evi), nil)
				}
				dw := c11WalkRoot(dropDump, newRoot, false)
				for h, o := range dw.occ {
					if o != prevOcc[h] {
						deltas[ids.id(h)] = int64(o - prevOcc[h])
					}
				}
				for h, o := range prevOcc {
					if _, ok := dw.occ[h]; !ok {
						deltas[ids.id(h)] = int64(-o)
					}
				}
				if ev.Persist {
					store.Persist()
				}
				d := check(evi, "drop")
				if failed {
					aborted = true
					continue
				}
				coqEvs = append(coqEvs, fmt.Sprintf("HDrop %s %s", c11CoqPairs(deltas), c11CoqDump(ids, d)))
				continue
			}
			contents = append(contents, next)
			roots = append(roots, newRoot)
			if ev.Persist {
				store.Persist()
			}
			d := check(evi, "block")
			if failed {
				// reported directly; the Coq term keeps the events before the failing one
				aborted = true
				break
			}
			lw := c11WalkRoot(d, newRoot, false)
			occs := map[int]int64{}
			for h, o := range lw.occ {
				occs[ids.id(h)] = int64(o)
			}
			if in.Via == "trie" {
				// interface hypothesis of the model, checked on the real code: the block's addRef/removeRef calls
				// net to the difference of occurrences
				if lw.problem == "" {
					exp := map[int]int64{}
					for h, o := range lw.occ {
						if o != prevOcc[h] {
							exp[ids.id(h)] = int64(o - prevOcc[h])
						}
					}
					for h, o := range prevOcc {
						if _, ok := lw.occ[h]; !ok {
							exp[ids.id(h)] = int64(-o)
						}
					}
					okd := len(exp) == len(deltas)
					for k, v := range exp {
						if deltas[k] != v {
							okd = false
						}
					}
					if !okd {
						viol(fmt.Sprintf("addRef/removeRef deltas of the block differ from the change of occurrences [event %d, block %d]", evi, idx),
							map[string]any{"deltas": deltas, "expected": exp})
					}
				}
			} else {
				for h, o := range lw.occ {
					if o != prevOcc[h] {
						deltas[ids.id(h)] = int64(o - prevOcc[h])
					}
				}
				for h, o := range prevOcc {
					if _, ok := lw.occ[h]; !ok {
						deltas[ids.id(h)] = int64(-o)
					}
				}
			}
			for h := range prevOcc {
				if lw.occ[h] == 0 {
					left = true
				}
			}
			if lw.problem == "" {
				prevOcc = lw.occ
			}
			coqEvs = append(coqEvs, fmt.Sprintf("HBlock %s %s %s %s %s", c11CoqPairs(deltas), c11CoqPairs(inits),
				coqBool(in.Via == "trie" && ev.Collapse > 0), c11CoqPairs(occs), c11CoqDump(ids, d)))
		case "restart":
			// the module re-initialised from the store, as after a restart of the node: the in-memory root is a hash node
			if in.Via != "module" || len(contents[n]) == 0 {
				continue
			}
			m2 := stateroot.NewModule(cfg, nil, zap.NewNop(), store)
			var ierr error
			if p := catch(func() { ierr = m2.Init(uint32(n)) }); p != "" || ierr != nil {
				viol(fmt.Sprintf("the module does not re-initialise from the store: %s %v [event %d, restart]", p, ierr, evi), nil)
				aborted = true
				break
			}
			mod = m2
		case "gc":
			if mode != mpt.ModeGC {
				continue
			}
			g := n - ev.Keep
			if g < 0 {
				g = 0
			}
			before := 0
			p := catch(func() {
				store.Persist()
				d0, _ := c11Dump(bottom, true)
				before = len(d0)
				gcMod.GC(uint32(g), bottom)
			})
			if p != "" {
				viol(fmt.Sprintf("panic: %s [event %d, gc %d]", p, evi, g), nil)
				aborted = true
				break
			}
			if g > gmax {
				gmax = g
			}
			d := check(evi, fmt.Sprintf("gc %d", g))
			if failed {
				aborted = true
				break
			}
			if len(d) < before {
				collected = true
			}
			coqEvs = append(coqEvs, fmt.Sprintf("HGC %d %s", g, c11CoqDump(ids, d)))
		}
	}
	tag := in.Mode + "/" + in.Via
	if shared {
		tag += "+shared"
	}
	if left {
		tag += "+left"
	}
	if collected {
		tag += "+collected"
	}
	co.add(kind, tag, shared || left, in, map[string]any{"blocks": len(roots) - 1, "nodes_seen": len(ids.m), "aborted": aborted},
		fmt.Sprintf("CHist %d %s", modeN, coqList(coqEvs)))
}

// ---- generator ----

func c11GenHist(r *rng, mode, via string, drops bool, gcEvery int) c11Input {
	return c11GenHistShape(r, mode, via, drops, gcEvery, "branch")
}

// shape of the in-memory root the key pool produces: "branch" (first nibbles 0 and a), "ext" (every key starts with
// nibble f: an extension, as on a chain with native contracts only), "leaf" (one or two keys), "empty" (a dropped block
// on the empty trie comes first)
func c11GenHistShape(r *rng, mode, via string, drops bool, gcEvery int, shape string) c11Input {
	// key pool built to share long prefixes and to contain keys that are prefixes of one another
	prefixes := [][]byte{{0x01, 0x02}, {0x01, 0x02, 0x03, 0x04}, {0x01, 0x20}, {0xa0}, {0x01}, {0x01, 0x02, 0x03}}
	if shape != "branch" {
		prefixes = [][]byte{{0xf1, 0x02}, {0xf1, 0x02, 0x03, 0x04}, {0xf1, 0x20}, {0xfa}, {0xf1}, {0xf1, 0x02, 0x03}}
	}
	var pool [][]byte
	nk := 5 + r.intn(9)
	if shape == "leaf" {
		nk = 1 + r.intn(2)
	}
	for len(pool) < nk {
		k := append([]byte{}, pick(r, prefixes)...)
		for i, m := 0, r.intn(3); i < m; i++ {
			k = append(k, pick(r, []byte{0x00, 0x01, 0x02, 0x10, 0x11, 0xf0}))
		}
		pool = append(pool, k)
	}
	vals := [][]byte{[]byte("v"), []byte("w"), {0x01, 0x02, 0x03}, {}}
	vals = vals[:2+r.intn(3)]
	in := c11Input{Mode: mode, Via: via}
	nb := 3 + r.intn(7)
	live := map[string]bool{}
	var lastDeleted [][2]string
	for b := 0; b < nb; b++ {
		ev := c11Ev{T: "block"}
		if drops && (b > 0 || shape == "empty") && (r.chance(35) || (shape == "empty" && b == 0)) {
			ev.T = "drop"
		}
		if drops && via == "module" && shape != "branch" && b > 1 && r.chance(20) {
			in.Ops = append(in.Ops, c11Ev{T: "restart"})
		}
		if via == "trie" {
			ev.Single = r.chance(30)
			if r.chance(25) {
				ev.Collapse = 1 + r.intn(4)
			}
		}
		ev.Persist = r.chance(40)
		seen := map[string]bool{}
		if len(lastDeleted) > 0 && r.chance(50) {
			// delete-then-recreate across blocks: bring a deleted key back with the value it had
			p := pick(r, lastDeleted)
			ev.KV = append(ev.KV, p)
			seen[p[0]] = true
		}
		var deleted [][2]string
		for i, m := 0, 1+r.intn(6); i < m; i++ {
			k := hx(pick(r, pool))
			if seen[k] {
				continue
			}
			seen[k] = true
			if live[k] && r.chance(40) {
				ev.KV = append(ev.KV, [2]string{k, "-"})
				deleted = append(deleted, [2]string{k, hx(pick(r, vals))})
			} else if !live[k] && r.chance(10) {
				ev.KV = append(ev.KV, [2]string{k, "-"}) // delete of an absent key
			} else {
				ev.KV = append(ev.KV, [2]string{k, hx(pick(r, vals))})
			}
		}
		if ev.T == "block" {
			for _, p := range ev.KV {
				live[p[0]] = p[1] != "-"
			}
			lastDeleted = deleted
		}
		in.Ops = append(in.Ops, ev)
		if mode == "gc" {
			if gcEvery >= 0 {
				in.Ops = append(in.Ops, c11Ev{T: "gc", Keep: gcEvery})
			} else if r.chance(35) {
				in.Ops = append(in.Ops, c11Ev{T: "gc", Keep: r.intn(4)})
			}
		}
	}
	return in
}

func runC11(args []string) error {
	cf, fs := parseCommon("c11", args)
	fs.Parse(args)
	co := newCaseOut(cf.out, "Harness.C11", "Z",
		"histories of 3-9 blocks over one store per trie mode (all/latest/gc) through mpt.Trie (PutBatch or single Put/Delete, Collapse) and through "+
			"stateroot.Module (AddMPTBatch/UpdateCurrentLocal, dropped blocks, GC at every height or at random heights); keys share long prefixes and are prefixes of "+
			"one another, 2-4 distinct values so that identical leaves recur, delete-then-recreate across blocks; a history is non-trivial when some stored counter "+
			"exceeded 1 or some node left the latest trie; distinct by Coq term")
	co.shard = 60
	if cf.replay != "" {
		cases, err := readReplay(cf.replay)
		if err != nil {
			return err
		}
		for _, c := range cases {
			var x struct {
				Kind  string   `json:"kind"`
				Input c11Input `json:"input"`
			}
			if err := json.Unmarshal(c, &x); err != nil {
				return err
			}
			c11RunHist(co, x.Kind, x.Input)
		}
		return co.finish()
	}
	r := newRng(cf.seed)
	for i := 0; i < cf.n; i++ {
		for _, mode := range []string{"all", "latest", "gc"} {
			gcEvery := -1
			if i%3 == 0 {
				gcEvery = i / 3 % 3
			}
			c11RunHist(co, "rc_trie", c11GenHist(r, mode, "trie", false, gcEvery))
			c11RunHist(co, "rc_module", c11GenHist(r, mode, "module", false, gcEvery))
			if i%2 == 0 {
				c11RunHist(co, "rc_drop", c11GenHist(r, mode, "module", true, gcEvery))
			}
			// dropped blocks on the other shapes of the in-memory root
			c11RunHist(co, "rc_drop", c11GenHistShape(r, mode, "module", true, gcEvery, []string{"ext", "leaf", "empty"}[i%3]))
		}
	}
	return co.finish()
}
