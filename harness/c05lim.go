package main

// C05: native token movements whose POST-EFFECT fails.  postTransfer moves the balances first and then emits the Transfer
// event and calls onNEP17Payment; since Echidna the 513th notification of an execution is refused, the natives panic on
// that error and the execution must FAULT (everything rolled back).  Operation "lim": ONE execution in which the helper
// contract (account 24) emits N notifications, a native method is called (K = 0 NEO transfer, 1 GAS transfer, 2 vote,
// 3 registration by GAS payment), the helper emits P more.  For the transfers the script also reads balanceOf(from) and
// balanceOf(to) before and after the call and returns [before, answer, after], so that "true <=> funds moved" and
// "Transfer event <=> true" are evaluated per EXECUTION (c05LimCheck), beside the block-level clauses and the model.

import (
	"errors"
	"fmt"
	"math/big"

	"github.com/nspcc-dev/neo-go/pkg/core/state"
	"github.com/nspcc-dev/neo-go/pkg/core/transaction"
	"github.com/nspcc-dev/neo-go/pkg/io"
	"github.com/nspcc-dev/neo-go/pkg/smartcontract/callflag"
	"github.com/nspcc-dev/neo-go/pkg/util"
	"github.com/nspcc-dev/neo-go/pkg/vm/emit"
	"github.com/nspcc-dev/neo-go/pkg/vm/opcode"
	"github.com/nspcc-dev/neo-go/pkg/vm/stackitem"
)

const c05FeeLim = 20_0000_0000 // 513 notifications cost about 5 GAS

// c05LimEnds: (from, to) of the native call of a "lim" operation; to = -1 for a vote
func c05LimEnds(op c05Op) (from, to int) {
	from = op.F
	if op.W != 0 {
		from = op.W
	}
	switch op.K {
	case 2:
		return from, -1
	case 3:
		return from, c05ANeo
	}
	return from, op.To
}

func (c *c05Chain) c05LimTx(op c05Op) (*transaction.Transaction, error) {
	u := c.u
	if op.N < 0 || op.P < 0 || op.N > 3000 || op.P > 3000 || op.K < 0 || op.K > 3 {
		return nil, errors.New("lim: bad parameters")
	}
	from, to := c05LimEnds(op)
	if from < 0 || from >= len(u.hashes) || to >= len(u.hashes) || op.To < 0 || op.To >= len(u.hashes) {
		return nil, errors.New("lim: unknown account")
	}
	helper := u.hashes[c05ANotifier]
	w := io.NewBufBinWriter()
	notify := func(n int) {
		emit.AppCall(w.BinWriter, helper, "notifyN", callflag.All, int64(n))
		emit.Opcodes(w.BinWriter, opcode.DROP)
	}
	notify(op.N)
	fee := int64(c05FeeLim)
	switch op.K {
	case 2:
		var key any
		if k, ok := u.keyOfAcct[op.To]; ok && op.To > 0 {
			key = u.keys[k].Bytes()
		}
		emit.AppCall(w.BinWriter, c.neoH, "vote", callflag.All, u.hashes[from], key)
		notify(op.P)
	default:
		tok := c.neoH
		if op.K != 0 {
			tok = c.gasH
		}
		var data any
		if op.K == 3 {
			data = u.keys[u.keyOfAcct[op.F]].Bytes()
		}
		bal := func(a int) { emit.AppCall(w.BinWriter, tok, "balanceOf", callflag.All, u.hashes[a]) }
		bal(from)
		bal(to)
		emit.AppCall(w.BinWriter, tok, "transfer", callflag.All, u.hashes[from], u.hashes[to], op.A, data)
		bal(from)
		bal(to)
		notify(op.P)
		emit.Int(w.BinWriter, 5)
		emit.Opcodes(w.BinWriter, opcode.PACK)
		if to == c05ALooper {
			if op.N+op.P > 200 {
				return nil, errors.New("lim: too many notifications for the small budget of a transfer to the looper")
			}
			fee = 3_0000_0000 // the callback burns whatever is left
		}
	}
	if w.Err != nil {
		return nil, w.Err
	}
	return c.mkTx(util.Uint160{}, "", nil, fee, w.Bytes(), op.F)
}

// c05LimCheck evaluates one halted "lim" execution of a transfer: fills the boolean answer and returns the violated
// clauses (per execution: answer true <=> the sender was debited / the Transfer event was emitted).
func (c *c05Chain) c05LimCheck(op c05Op, aer *state.AppExecResult, tr *c05TxRec) []string {
	if op.K == 2 || !tr.Halt {
		return nil
	}
	var bad []string
	f := func(s string, a ...any) { bad = append(bad, fmt.Sprintf(s, a...)) }
	if len(aer.Stack) != 1 {
		f("post_effect: halted with %d items on the stack", len(aer.Stack))
		return bad
	}
	arr, ok := aer.Stack[0].Value().([]stackitem.Item)
	if !ok || len(arr) != 5 {
		f("post_effect: halted without the [balances, answer, balances] result")
		return bad
	}
	// PACK: the item pushed last comes first
	num := func(it stackitem.Item) *big.Int {
		z, err := it.TryInteger()
		if err != nil {
			return big.NewInt(-1)
		}
		return z
	}
	bt1, bf1, bt0, bf0 := num(arr[0]), num(arr[1]), num(arr[3]), num(arr[4])
	ans, ok := arr[2].(stackitem.Bool)
	if !ok {
		f("post_effect: transfer answered %s, not a boolean", arr[2].String())
		return bad
	}
	tr.Res = 0
	if bool(ans) {
		tr.Res = 1
	}
	from, to := c05LimEnds(op)
	tok := 0
	if op.K != 0 {
		tok = 1
	}
	var own *c05Event
	for i := range tr.Events {
		e := &tr.Events[i]
		if e.Tok == tok && e.From == from && e.To == to {
			own = e
		}
	}
	dFrom, dTo := new(big.Int).Sub(bf1, bf0), new(big.Int).Sub(bt1, bt0)
	if !bool(ans) {
		if dFrom.Sign() != 0 || dTo.Sign() != 0 {
			f("transfer_result: transfer answered false although balances moved (sender %s, receiver %s)", dFrom, dTo)
		}
		if own != nil {
			f("transfer_result: transfer answered false but emitted a Transfer event")
		}
		return bad
	}
	if own == nil || own.Amt != fmt.Sprint(op.A) {
		f("events_match_deltas: transfer answered true without its Transfer event (execution with %d notifications before it)", op.N)
	}
	if from != to && op.A > 0 {
		// the sender's balance of the transferred token is touched by nothing else in this execution
		if dFrom.Cmp(big.NewInt(-op.A)) != 0 {
			f("transfer_result: transfer of %d answered true, the sender's balance changed by %s", op.A, dFrom)
		}
		if to != c05ANeo && dTo.Cmp(big.NewInt(op.A)) != 0 { // the NEO contract burns the GAS it accepts
			f("transfer_result: transfer of %d answered true, the receiver's balance changed by %s", op.A, dTo)
		}
	}
	return bad
}

func c05LimTerm(c *c05Chain, op c05Op) string {
	u := c.u
	from, to := c05LimEnds(op)
	var inner string
	switch op.K {
	case 0:
		inner = fmt.Sprintf("(LNeoT %s %s %s)", c05N(from), c05N(to), coqZi(op.A))
	case 1:
		inner = fmt.Sprintf("(LGasT %s %s %s DNone)", c05N(from), c05N(to), coqZi(op.A))
	case 3:
		inner = fmt.Sprintf("(LGasT %s %s %s (DKey %s))", c05N(from), c05N(to), coqZi(op.A), c05N(u.keyOfAcct[op.F]))
	default:
		key := "None"
		if k, ok := u.keyOfAcct[op.To]; ok && op.To > 0 {
			key = c05OptN(k)
		}
		inner = fmt.Sprintf("(LVote %s %s)", c05N(from), key)
	}
	return fmt.Sprintf("(OLim %d %s %d %s)", op.N, inner, op.P, c05N(c05ANotifier))
}

// c05LimOps: a handful of "lim" operations for one block: the counts are chosen around the limit of 512, taking into
// account what the native call itself is expected to emit (its own event, up to two GAS claims, the callback of the
// helper when it is the receiver), so that the 513th notification falls before, ON and after each post-effect.
func (g *c05Gen) c05LimOps() []c05Op {
	r := g.r
	var out []c05Op
	for i := 0; i < 1+r.intn(3); i++ {
		a := pick(r, c05Signers)
		op := c05Op{T: "lim", F: a}
		switch x := r.intn(100); {
		case x < 40:
			op.K = 0
			op.A = pick(r, []int64{0, 1, 1 + int64(r.intn(40)), g.amount(g.neoBal(a))})
		case x < 75:
			op.K = 1
			op.A = pick(r, []int64{0, 1, int64(r.intn(5_0000_0000)), g.amount(g.gasBal(a))})
		case x < 88:
			op.K = 2
		default:
			op.K = 3
			op.A = c05Big(g.snap.RegPrice).Int64()
			if r.chance(15) {
				op.A++
			}
		}
		switch {
		case op.K == 2:
			// mostly a holder of NEO voting for a registered candidate (a vote that succeeds emits "Vote" and may claim GAS)
			var holders []int
			for _, x := range c05Signers {
				if g.neoBal(x) > 0 {
					holders = append(holders, x)
				}
			}
			if len(holders) > 0 && r.chance(85) {
				op.F = pick(r, holders)
			}
			op.To = pick(r, c05Signers)
			if reg := g.registered(); len(reg) > 0 && r.chance(85) {
				op.To = g.c.u.acctOfKey[pick(r, reg)]
			}
			if r.chance(20) {
				op.To = 0 // the vote is removed
			}
		case op.K == 3:
		default:
			op.To = g.receiver()
			switch y := r.intn(100); {
			case y < 22:
				op.To = c05ANotifier
				// the callback emits amount mod 1000 notifications: none, a few, about the limit, more than the limit
				op.A = int64(r.intn(4))*1000 + pick(r, []int64{0, 1, 2, 3, 500, 509, 510, 511, 512, 513, 600, 999})
			case y < 28:
				op.To = c05AAborter
			case y < 34:
				op.To = c05ALooper
			case y < 42:
				op.To = a
			}
		}
		if r.chance(8) {
			op.W = pick(r, c05Signers) // not witnessed
		}
		// the notifications the call itself is expected to add when it succeeds
		own := 1
		switch op.K {
		case 0:
			own += r.intn(3) // GAS claims of the two sides
		case 2:
			if r.chance(50) {
				// the voter's GAS is claimed earlier in the same block: "Vote" is the only notification of the call
				out = append(out, c05Op{T: "nt", F: op.F, To: op.F, A: 0})
			} else {
				own += r.intn(2) // "Vote" and the voter's GAS claim
			}
		case 3:
			own += 1 + r.intn(2) // the burn and "CandidateStateChanged"
		}
		if op.To == c05ANotifier && op.K <= 1 {
			own += int(op.A % 1000)
		}
		slack := pick(r, []int{-2, -1, 0, 0, 0, 1, 1, 1, 2, 40}) // 1 = the first notification that does not fit
		total := 512 + slack
		switch y := r.intn(10); {
		case y < 5: // everything before the call
			op.N, op.P = total-own, 0
		case y < 8: // the rest after the call
			op.P = r.intn(4)
			op.N = total - own - op.P
		default: // most of it after the call
			op.N = r.intn(30)
			op.P = total - own - op.N
		}
		if op.N < 0 {
			op.N = 0
		}
		if op.P < 0 {
			op.P = 0
		}
		if op.To == c05ALooper && op.K <= 1 {
			op.N, op.P = r.intn(150), r.intn(50) // the callback burns all the gas anyway (small budget)
		}
		out = append(out, op)
	}
	return out
}

// ---------- the other side of Echidna ----------

// c05PreEchidna: a chain with the hard-forks up to Domovoi only.  There is no notification limit: executions with 510..700
// notifications around a NEO / GAS transfer must HALT with the funds moved, the event emitted and the answer true.
// Evaluated in Go only (the Coq model is of the Echidna rules); returns the violations.
func c05PreEchidna(r *rng) (in c05Input, viol []string, err error) {
	in.HF, in.Direct = "domovoi", true
	t := &c05TB{}
	c, err := c05Setup(t, in.HF, nil)
	if err != nil {
		t.done()
		return in, nil, err
	}
	defer c.close()
	prev := c05DumpChain(c.bc, c.u)
	run, err := c05NewRunner(c, func(rec *c05BlockRec) {
		for _, b := range c05Invariants(prev, rec.Dump, rec) {
			viol = append(viol, fmt.Sprintf("block %d: %s", rec.Index, b))
		}
		prev = rec.Dump
	})
	if err != nil {
		return in, nil, err
	}
	g := &c05Gen{r: r, c: c, run: run}
	emit := func(ops ...c05Op) error {
		for _, o := range ops {
			if err := g.emit(o); err != nil {
				return err
			}
		}
		return nil
	}
	if err = g.fund(false); err != nil {
		return in, nil, err
	}
	var lims []int
	for b := 0; b < 3; b++ {
		for i := 0; i < 3; i++ {
			a := pick(r, c05Signers)
			op := c05Op{T: "lim", F: a, K: r.intn(2), To: pick(r, []int{pick(r, c05Signers), pick(r, c05Signers), c05AAcceptor, c05ANotifier})}
			if op.K == 0 {
				op.A = 1 + int64(r.intn(3))
				if g.neoBal(a) < 10 {
					op.K = 1
				}
			}
			if op.K == 1 {
				op.A = 1 + int64(r.intn(2000))
			}
			op.N = pick(r, []int{509, 510, 511, 512, 513, 514, 600})
			op.P = pick(r, []int{0, 0, 1, 2, 100})
			lims = append(lims, len(g.ops))
			if err = emit(op); err != nil {
				return in, nil, err
			}
		}
		if err = emit(c05Op{T: "blk"}); err != nil {
			return in, nil, err
		}
	}
	in.Ops = g.ops
	isLim := map[int]bool{}
	for _, i := range lims {
		isLim[i] = true
	}
	seen := 0
	for _, b := range run.blocks {
		for _, tx := range b.Txs {
			if !isLim[tx.Op] {
				continue
			}
			seen++
			if !tx.Halt || tx.Res != 1 {
				viol = append(viol, fmt.Sprintf("pre_echidna: block %d: an execution with %d + %d notifications around a transfer did not halt with true before Echidna (halt %v, answer %d)",
					b.Index, g.ops[tx.Op].N, g.ops[tx.Op].P, tx.Halt, tx.Res))
			}
		}
	}
	if seen == 0 {
		return in, nil, errors.New("pre-Echidna history: no lim operation entered a block")
	}
	return in, viol, nil
}

var _ = transaction.Transaction{}
