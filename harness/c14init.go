package main

// C14 — the shared frames of a compiled program ("initframe" cases).
//
// pkg/compiler puts the initialisers of all package-level variables and the bodies of ALL init() functions of
// ALL packages (imported ones first) into one method `_initialize` with one INITSLOT; the local slot count of
// that frame has to cover the body with the most locals (and the temporaries of inlined calls in global
// initialisers). `_deploy` functions of all packages share a second frame built the same way, and the static
// slots (INITSSLOT) are counted over all files after the unused variables were removed. Programs here vary
// exactly that: 1-3 files per package, 0-4 init() per file, an imported package (and an inlined helper
// package), an independently drawn number of locals per body (plain, var, multi-assign, nested block, for /
// range / if / switch headers, inlined calls), the body with the most locals first / in the middle / last,
// global initialisers that need temporaries, unused globals, functions with named results and defers.
// Observable: Read() after _initialize (and _deploy) on the real VM versus the same package under the Go
// toolchain. Direct check on the bytecode: every local / argument / static slot index used inside a method
// is below the count its INITSLOT / INITSSLOT reserves.

import (
	"bytes"
	"context"
	"fmt"
	"os"
	"os/exec"
	"path/filepath"
	"strings"
	"time"

	"github.com/nspcc-dev/neo-go/pkg/smartcontract/callflag"
	"github.com/nspcc-dev/neo-go/pkg/vm"
	"github.com/nspcc-dev/neo-go/pkg/vm/opcode"
	"github.com/nspcc-dev/neo-go/pkg/vm/stackitem"
)

type c14InitInput struct {
	Pkg    string            `json:"pkg"`
	Files  map[string]string `json:"files"`             // main package: file name -> source
	Dep    map[string]string `json:"dep,omitempty"`     // imported package <pkg>d: file name -> source
	Inl    string            `json:"inl,omitempty"`     // inlined helper package h<pkg>
	GoOnly map[string]string `json:"go_only,omitempty"` // seen by the Go toolchain only (build tag c14go): path relative to the package -> source
	Deploy bool              `json:"deploy"`            // some package declares _deploy
	Update bool              `json:"update"`            // the isUpdate argument
	Shape  string            `json:"shape,omitempty"`   // local counts of the bodies, in execution order
	Note   string            `json:"note,omitempty"`
}

type c14InitImpl struct {
	VM    string   `json:"vm"`
	Go    string   `json:"go"`
	Fault string   `json:"vm_fault,omitempty"`
	Slots []string `json:"slots,omitempty"`
}

// ---------- generator ----------

type c14IGen struct {
	r  *rng
	sb *strings.Builder
	nv int
	// what the bodies of the package under construction may use
	ints   []string // int globals (accumulators and operands)
	slices []string // []int globals
	two    string   // function with two results
	three  string   // function with three results
	big    string   // function with many locals of its own
	note   string   // note(k)
	note2  string   // note2(k) int
	inl    string   // package name of the inlined helpers ("" = none)
	dep    string   // package name of the imported package ("" = none)
	usedI  bool     // the current file used the inlined package
	usedD  bool     // the current file used the imported package
	small  bool     // this program: the temporaries of an inlined call in a package-level initialiser are what decides the frame
}

func (g *c14IGen) f(format string, a ...any) { fmt.Fprintf(g.sb, format+"\n", a...) }

func (g *c14IGen) v() string { g.nv++; return fmt.Sprintf("v%d", g.nv) }

// a small int expression over the globals; below 2^40
func (g *c14IGen) e() string {
	r := g.r
	switch r.intn(5) {
	case 0:
		return fmt.Sprint(1 + r.intn(40))
	case 1, 2:
		if len(g.ints) > 0 {
			return fmt.Sprintf("%s%%%d + %d", pick(r, g.ints), 50+r.intn(900), r.intn(9))
		}
	case 3:
		if len(g.ints) > 1 {
			return fmt.Sprintf("(%s + %s)%%%d", pick(r, g.ints), pick(r, g.ints), 100+r.intn(900))
		}
	}
	return fmt.Sprint(2 + r.intn(90))
}

func (g *c14IGen) fold(ind, acc, x string) {
	g.f("%s%s = (%s*31 + %s) %% %d", ind, acc, acc, x, c14M)
}

// one group of statements that declares about `want` locals; returns how many it declared
func (g *c14IGen) form(ind, acc string, want int) int {
	r := g.r
	for try := 0; try < 20; try++ {
		switch k := r.intn(17); {
		case k == 0:
			a := g.v()
			g.f("%s%s := %s", ind, a, g.e())
			g.fold(ind, acc, a)
			return 1
		case k == 1: // declared without a value: must be zero, whatever an earlier body left in the slot
			a := g.v()
			g.f("%svar %s int", ind, a)
			g.fold(ind, acc, a+" + 5")
			g.f("%s%s = %s %% 7", ind, a, acc)
			g.fold(ind, acc, a)
			return 1
		case k == 2 && want >= 2 && g.two != "":
			a, b := g.v(), g.v()
			g.f("%s%s, %s := %s(%s)", ind, a, b, g.two, g.e())
			g.fold(ind, acc, a+"*3 + "+b)
			return 2
		case k == 3 && want >= 2:
			a, b := g.v(), g.v()
			g.f("%s%s, %s := %s, %s", ind, a, b, g.e(), g.e())
			g.fold(ind, acc, a+"*5 + "+b)
			return 2
		case k == 4: // nested block(s)
			a := g.v()
			g.f("%s{", ind)
			g.f("%s\t%s := %s", ind, a, g.e())
			n := 1
			if want >= 2 && r.bool() {
				b := g.v()
				g.f("%s\t{", ind)
				g.f("%s\t\t%s := %s + 1", ind, b, a)
				g.fold(ind+"\t\t", acc, b)
				g.f("%s\t}", ind)
				n = 2
			}
			g.fold(ind+"\t", acc, a)
			g.f("%s}", ind)
			return n
		case k == 5: // three-clause loop, the counter and possibly a local of the body
			a := g.v()
			g.f("%sfor %s := 0; %s < %d; %s++ {", ind, a, a, 2+r.intn(3), a)
			n := 1
			if want >= 2 && r.bool() {
				b := g.v()
				g.f("%s\t%s := %s*2 + 1", ind, b, a)
				g.fold(ind+"\t", acc, b)
				n = 2
			} else {
				g.fold(ind+"\t", acc, a)
			}
			g.f("%s}", ind)
			return n
		case k == 6 && want >= 2: // range with index and value
			a, b := g.v(), g.v()
			g.f("%sfor %s, %s := range %s {", ind, a, b, g.sliceExpr())
			g.fold(ind+"\t", acc, a+"*7 + "+b)
			g.f("%s}", ind)
			return 2
		case k == 7: // range with one of them
			a := g.v()
			if r.bool() {
				g.f("%sfor _, %s := range %s {", ind, a, g.sliceExpr())
			} else {
				g.f("%sfor %s := range %s {", ind, a, g.sliceExpr())
			}
			g.fold(ind+"\t", acc, a)
			g.f("%s}", ind)
			return 1
		case k == 8: // if with a declaration in its header
			a := g.v()
			g.f("%sif %s := %s; %s%%2 == 0 {", ind, a, g.e(), a)
			g.fold(ind+"\t", acc, a+" + 1")
			g.f("%s} else {", ind)
			g.fold(ind+"\t", acc, a+" + 2")
			g.f("%s}", ind)
			return 1
		case k == 9: // switch with a declaration in its header
			a := g.v()
			g.f("%sswitch %s := %s; %s %% 3 {", ind, a, g.e(), a)
			g.f("%scase 0:", ind)
			g.fold(ind+"\t", acc, a)
			g.f("%scase 1:", ind)
			g.fold(ind+"\t", acc, a+" + 11")
			g.f("%sdefault:", ind)
			g.fold(ind+"\t", acc, a+" + 23")
			g.f("%s}", ind)
			return 1
		case k == 10 && want >= 3 && g.three != "":
			a, b, c := g.v(), g.v(), g.v()
			g.f("%s%s, %s, %s := %s(%s)", ind, a, b, c, g.three, g.e())
			g.fold(ind, acc, a+" + "+b+"*3 + "+c+"*7")
			return 3
		case k == 11 && want >= 2 && g.three != "": // blank target in the middle
			a, c := g.v(), g.v()
			g.f("%s%s, _, %s := %s(%s)", ind, a, c, g.three, g.e())
			g.fold(ind, acc, a+" + "+c+"*7")
			return 2
		case k == 12 && g.inl != "" && !g.small: // inlined call: its parameter with a call and its own locals land in this frame
			g.usedI = true
			a := g.v()
			g.f("%s%s := %s.Mix(%d, %s(%d))", ind, a, g.inl, 1+r.intn(50), g.note2, 300+r.intn(90))
			g.fold(ind, acc, a)
			return 4
		case k == 13 && g.inl != "" && want >= 2 && !g.small:
			g.usedI = true
			g.fold(ind, acc, fmt.Sprintf("%s.Tri(%s(%d))", g.inl, g.note2, 400+r.intn(90)))
			return 3
		case k == 14: // composite values
			a := g.v()
			switch r.intn(3) {
			case 0:
				g.f("%s%s := []int{%s, %s}", ind, a, g.e(), g.e())
				g.fold(ind, acc, fmt.Sprintf("%s[0] + %s[1]*3 + len(%s)", a, a, a))
			case 1:
				g.f("%svar %s []int", ind, a)
				g.fold(ind, acc, fmt.Sprintf("len(%s) + 9", a))
				g.f("%s%s = append(%s, %s)", ind, a, a, g.e())
				g.fold(ind, acc, a+"[0]")
			default:
				g.f("%s%s := S{a: %s, b: %s}", ind, a, g.e(), g.e())
				g.fold(ind, acc, a+".a + "+a+".b*3")
			}
			return 1
		case k == 15 && g.big != "": // control: many locals, but in a frame of its own
			g.fold(ind, acc, fmt.Sprintf("%s(%s)", g.big, g.e()))
			return 0
		case k == 16 && g.dep != "":
			g.usedD = true
			a := g.v()
			g.f("%s%s := %s.Bump(%d)", ind, a, g.dep, 1+r.intn(30))
			g.fold(ind, acc, a)
			return 1
		}
	}
	a := g.v()
	g.f("%s%s := %s", ind, a, g.e())
	g.fold(ind, acc, a)
	return 1
}

func (g *c14IGen) sliceExpr() string {
	if len(g.slices) > 0 && g.r.bool() {
		return pick(g.r, g.slices)
	}
	return fmt.Sprintf("[]int{%d, %d, %d}", 1+g.r.intn(9), 1+g.r.intn(9), 1+g.r.intn(9))
}

// body emits statements declaring about k locals (k = 0: none at all)
func (g *c14IGen) body(ind string, k int, tag int) int {
	acc := ""
	if len(g.ints) > 0 {
		acc = pick(g.r, g.ints)
	}
	if g.note != "" {
		g.f("%s%s(%d)", ind, g.note, tag)
	}
	if acc == "" { // a package without variables: locals only
		n := 0
		prev := "1"
		for n < k {
			a := g.v()
			g.f("%s%s := %s + %d", ind, a, prev, 1+g.r.intn(9))
			prev = a
			n++
		}
		if n > 0 {
			g.f("%sif %s < 0 {", ind, prev)
			g.f("%s\tpanic(\"unreachable\")", ind)
			g.f("%s}", ind)
		}
		return n
	}
	n := 0
	for n < k {
		n += g.form(ind, acc, k-n)
	}
	if k == 0 && g.r.bool() {
		g.fold(ind, acc, g.e())
	}
	return n
}

type c14IDecl struct {
	text  string
	class int // 0: anything else (shuffled); 1: package-level variable, 2: init() — both keep their relative order
}

// c14InitShape draws the local counts of nb bodies: independent, or with the strict maximum at a chosen place
func c14InitShape(r *rng, nb int) []int {
	cs := make([]int, nb)
	for i := range cs {
		cs[i] = r.intn(7)
	}
	if nb >= 2 && r.chance(60) {
		hi := 3 + r.intn(4)
		for i := range cs {
			cs[i] = r.intn(hi)
		}
		pos := []int{0, nb / 2, nb - 1, nb - 2}[r.intn(4)]
		if pos < 0 {
			pos = 0
		}
		cs[pos] = hi
	}
	return cs
}

// one package; returns its files. main: the contract package (imports dep and inl when non-empty).
func (g *c14IGen) genPackage(name string, main bool, nfiles int, inits []int, shape *[]int, counts []int, depName, inlPath, depPath string,
	deploy bool, deployLocals int, noGlobals bool, deferFile int) (files map[string]string, goOnly string) {
	r := g.r
	g.ints, g.slices = nil, nil
	g.dep, g.inl = "", ""
	if main {
		g.dep = depName
	}
	if inlPath != "" {
		g.inl = "h" + strings.TrimSuffix(name, "d")
	}
	pre := ""
	if !main {
		pre = "d"
	}
	g.note, g.note2, g.two, g.three, g.big = pre+"note", pre+"note2", pre+"two", pre+"three", pre+"big"
	logName := "Log"
	if !main {
		logName = "DLog"
	}
	if noGlobals {
		g.note, g.note2 = "", ""
	}
	letters := []string{"a", "b", "c"}
	perFile := make([][]c14IDecl, nfiles)
	used := make([][2]bool, nfiles) // imports: inl, dep
	var readParts []string          // expressions of Read()
	addc := func(fi int, class int, f func()) {
		old := g.sb
		g.sb = &strings.Builder{}
		g.usedI, g.usedD = false, false
		f()
		perFile[fi] = append(perFile[fi], c14IDecl{text: g.sb.String(), class: class})
		used[fi][0] = used[fi][0] || g.usedI
		used[fi][1] = used[fi][1] || g.usedD
		g.sb = old
	}
	add := func(fi int, global bool, f func()) {
		if global {
			addc(fi, 1, f)
		} else {
			addc(fi, 0, f)
		}
	}
	// ---- fixed declarations of the first file
	add(0, false, func() {
		g.f("type S struct {")
		g.f("\ta, b int")
		g.f("}")
	})
	if !noGlobals {
		add(0, true, func() { g.f("var %s []int", logName) })
	}
	// ---- helper functions, each in a random file
	fn := func(f func()) { add(r.intn(nfiles), false, f) }
	if !noGlobals {
		fn(func() {
			g.f("func %s(k int) {", g.note)
			g.f("\tif len(%s) < 64 {", logName)
			g.f("\t\t%s = append(%s, k)", logName, logName)
			g.f("\t}")
			g.f("}")
		})
		fn(func() {
			g.f("func %s(k int) int {", g.note2)
			g.f("\t%s(k)", g.note)
			g.f("\treturn k%%89 + 1")
			g.f("}")
		})
	}
	fn(func() {
		g.f("func %s(x int) (int, int) {", g.two)
		g.f("\ta := x%%1000 + %d", 1+r.intn(9))
		g.f("\tb := a * %d", 2+r.intn(5))
		g.f("\tc := a + b")
		g.f("\treturn c, a")
		g.f("}")
	})
	fn(func() {
		g.f("func %s(x int) (int, int, int) {", g.three)
		g.f("\ta := x%%1000 + %d", 1+r.intn(9))
		g.f("\treturn a, a * 2, a + %d", r.intn(50))
		g.f("}")
	})
	fn(func() { // more locals than any init(): must not matter, the function has a frame of its own
		g.f("func %s(x int) int {", g.big)
		g.f("\tw0 := x%%1000 + 1")
		nl := 8 + r.intn(6)
		for i := 1; i < nl; i++ {
			g.f("\tw%d := w%d*%d%%%d + %d", i, i-1, 2+r.intn(7), 1000+r.intn(9000), r.intn(9))
		}
		g.f("\treturn w%d", nl-1)
		g.f("}")
	})
	// ---- package-level variables
	nUnusedRef := 0
	var deadRefs []string
	for fi := 0; fi < nfiles; fi++ {
		ng := r.intn(5)
		if noGlobals {
			ng = 0
		}
		if fi == 0 && !noGlobals && ng == 0 {
			ng = 1
		}
		if fi == 0 && g.small && main {
			ng = max(ng, 2)
		}
		for i := 0; i < ng; i++ {
			x := fmt.Sprintf("%sG%s%d", strings.ToUpper(pre), letters[fi], i)
			prev := "3"
			if len(g.ints) > 0 {
				prev = pick(r, g.ints) + "%1000"
			}
			show := !r.chance(15) // shown by Read(); otherwise used by the bodies only (or by nothing: removed)
			kind := r.intn(18)
			if len(g.ints) == 0 {
				kind = r.intn(2) * 3 // the package needs an accumulator first
			} else if g.small && main && fi == 0 && i == 1 {
				kind = 7
			}
			add(fi, true, func() {
				isInt := true
				switch kind {
				case 0:
					g.f("var %s = %d", x, 1+r.intn(900))
				case 1:
					g.f("var %s int", x)
				case 2:
					g.f("var %s = %s*%d + %d", x, prev, 2+r.intn(7), r.intn(9))
				case 3: // several results
					y := x + "y"
					g.f("var %s, %s = %s(%d)", x, y, g.two, 1+r.intn(90))
					g.ints = append(g.ints, y)
					if show {
						readParts = append(readParts, y)
					}
				case 4: // composite literals
					g.f("var %s = []int{%d, %s, %d}", x, 1+r.intn(9), prev, 1+r.intn(9))
					g.slices = append(g.slices, x)
					readParts = append(readParts, "len("+x+")", x+"[0]", x+"[1]", x+"[2]")
					isInt = false
				case 5:
					g.f("var %s = map[int]int{1: %d, 2: %s}", x, 1+r.intn(99), prev)
					readParts = append(readParts, x+"[1]", x+"[2]", "len("+x+")")
					isInt = false
				case 6:
					g.f("var %s = S{a: %d, b: %s}", x, 1+r.intn(99), prev)
					readParts = append(readParts, x+".a", x+".b")
					isInt = false
				case 7: // inlined call with temporaries in the frame of _initialize
					if g.inl != "" && g.note2 != "" {
						g.usedI = true
						g.f("var %s = %s.Mix(%s, %s(%d))", x, g.inl, prev, g.note2, 500+r.intn(90))
					} else {
						g.f("var %s = %s + 1", x, prev)
					}
				case 8: // never referenced: removed together with its slot
					g.f("var %sU = %d", x, 1+r.intn(99))
					isInt = false
				case 9: // never referenced, but the call happens
					g.f("var %sU = %s(%d)", x, g.note2, 600+r.intn(90))
					isInt = false
				case 10:
					g.f("var _ = %s(%d)", g.note2, 700+r.intn(90))
					isInt = false
				case 11:
					g.f("var _ = %d", r.intn(99))
					isInt = false
				case 12: // referenced from a function nobody calls
					g.f("var %sU = %d", x, 1+r.intn(99))
					deadRefs = append(deadRefs, x+"U")
					nUnusedRef++
					isInt = false
				case 13: // blank among several results
					if r.bool() {
						g.f("var %s, _ = %s(%d)", x, g.two, 1+r.intn(90))
					} else {
						g.f("var _, %s = %s(%d)", x, g.two, 1+r.intn(90))
					}
				case 14: // a group
					y := x + "y"
					g.f("var (")
					g.f("\t%s = %d", x, 1+r.intn(99))
					g.f("\t%s = %s + %d", y, x, 1+r.intn(9))
					g.f(")")
					g.ints = append(g.ints, y)
					if show {
						readParts = append(readParts, y)
					}
				case 15:
					if g.dep != "" {
						g.usedD = true
						g.f("var %s = %s.Bump(%d)", x, g.dep, 1+r.intn(30))
					} else {
						g.f("var %s = %s(%d)", x, g.big, 1+r.intn(90))
					}
				case 16: // several results, one of the names never referenced
					g.f("var %s, %sU = %s(%d)", x, x, g.two, 1+r.intn(90))
				default:
					g.f("var %s = %s(%d)", x, g.note2, 800+r.intn(90))
				}
				if isInt {
					g.ints = append(g.ints, x)
					if show {
						readParts = append(readParts, x)
					}
				}
			})
		}
	}
	if noGlobals {
		g.ints = nil
	}
	if nUnusedRef > 0 {
		fn(func() {
			g.f("func %sdead() int {", pre)
			g.f("\treturn %s", strings.Join(deadRefs, " + "))
			g.f("}")
		})
	}
	// ---- a function with named results and deferred calls (the static slot of the recovered value); no panic under it
	hasNR := deferFile >= 0 && deferFile < nfiles && !noGlobals
	if hasNR {
		add(deferFile, false, func() {
			g.f("func %snr(x int) (res int, ok bool) {", pre)
			g.f("\tdefer %s(%d)", g.note, 950+r.intn(9))
			if r.bool() {
				g.f("\tdefer func() {")
				g.f("\t\tif rv := recover(); rv != nil {")
				g.f("\t\t\tres = -1")
				g.f("\t\t}")
				g.f("\t}()")
			}
			g.f("\tt := x%%1000 + %d", 1+r.intn(9))
			g.f("\tres = t * 3")
			g.f("\tok = t%%2 == 0")
			if r.bool() {
				g.f("\treturn")
			} else {
				g.f("\treturn res, ok")
			}
			g.f("}")
		})
		readParts = append(readParts, fmt.Sprintf("%snrv(%d)", pre, 1+r.intn(50)))
		fn(func() {
			g.f("func %snrv(x int) int {", pre)
			g.f("\tv, ok := %snr(x)", pre)
			g.f("\tif ok {")
			g.f("\t\tv += 100000")
			g.f("\t}")
			g.f("\treturn v")
			g.f("}")
		})
	}
	// ---- init() functions
	tag := 100
	if !main {
		tag = 10
	}
	for fi := 0; fi < nfiles; fi++ {
		for i := 0; i < inits[fi]; i++ {
			k := counts[0]
			counts = counts[1:]
			t := tag
			tag++
			addc(fi, 2, func() {
				g.f("func init() {")
				n := g.body("\t", k, t)
				if hasNR && r.chance(20) {
					g.f("\t%s = (%s + %snrv(%d)) %% %d", g.ints[0], g.ints[0], pre, r.intn(50), c14M)
				}
				g.f("}")
				*shape = append(*shape, n)
			})
		}
	}
	// ---- _deploy
	if deploy {
		add(r.intn(nfiles), false, func() {
			g.f("func _deploy(data any, isUpdate bool) {")
			n := g.body("\t", deployLocals, tag+50)
			if len(g.ints) > 0 {
				g.f("\tif isUpdate {")
				g.fold("\t\t", g.ints[0], "77")
				g.f("\t}")
				g.f("\tif data == nil {")
				g.fold("\t\t", g.ints[0], "3")
				g.f("\t}")
			}
			g.f("}")
			*shape = append(*shape, -n-1) // negative: a body of the _deploy frame
		})
	}
	// ---- Read()
	add(nfiles-1, false, func() {
		g.f("func Read() []int {")
		if len(readParts) == 0 {
			g.f("\tr := []int{%d}", 1+r.intn(9))
		} else {
			g.f("\tr := []int{%s}", strings.Join(readParts, ", "))
		}
		if !noGlobals {
			g.f("\tfor _, k := range %s {", logName)
			g.f("\t\tr = append(r, k)")
			g.f("\t}")
		}
		if g.dep != "" {
			g.usedD = true
			g.f("\tfor _, k := range %s.Read() {", g.dep)
			g.f("\t\tr = append(r, k)")
			g.f("\t}")
		}
		g.f("\treturn r")
		g.f("}")
	})
	// F157 (repaired in /repo, 2dc2a57): only the LAST init() of a package was searched for the functions and variables it
	// uses; what an earlier init() alone refers to was dropped. With C14_DENY=initusage every package gets an exported
	// Keep() — a root of that search — mentioning everything the bodies may use, which hides the defect.
	if !c14Allow("initusage") {
		add(r.intn(nfiles), false, func() {
			g.f("func Keep() int {")
			g.f("\tk := 0")
			for _, x := range g.ints {
				g.f("\tk += %s %% 3", x)
			}
			for _, x := range g.slices {
				g.f("\tk += len(%s)", x)
			}
			if !noGlobals {
				g.f("\tk += %s(1)", g.note2)
			}
			g.f("\tt1, t2 := %s(1)", g.two)
			g.f("\tt3, t4, t5 := %s(1)", g.three)
			g.f("\tk += t1 + t2 + t3 + t4 + t5 + %s(1)", g.big)
			if hasNR {
				g.f("\tk += %snrv(1)", pre)
			}
			if g.dep != "" {
				g.usedD = true
				g.f("\tk += %s.Keep() + %s.Bump(1)", g.dep, g.dep)
			}
			g.f("\treturn k")
			g.f("}")
		})
	}
	if !main {
		add(r.intn(nfiles), false, func() {
			g.f("func Bump(k int) int {")
			if len(g.ints) > 0 {
				g.f("\t%s = (%s*7 + k) %% %d", g.ints[0], g.ints[0], c14M)
				g.f("\treturn %s", g.ints[0])
			} else {
				g.f("\treturn k + 1")
			}
			g.f("}")
		})
	}
	// ---- assemble the files: declarations in a random order, the variables in their relative order
	files = map[string]string{}
	for fi := 0; fi < nfiles; fi++ {
		ds := perFile[fi]
		var globals, inits, others []c14IDecl
		for _, d := range ds {
			switch d.class {
			case 1:
				globals = append(globals, d)
			case 2:
				inits = append(inits, d)
			default:
				others = append(others, d)
			}
		}
		if fi == 0 { // the type declaration stays first
			others = others[1:]
		}
		for i := len(others) - 1; i > 0; i-- {
			j := r.intn(i + 1)
			others[i], others[j] = others[j], others[i]
		}
		var sb strings.Builder
		fmt.Fprintf(&sb, "package %s\n\n", name)
		if used[fi][0] {
			fmt.Fprintf(&sb, "import %q\n", inlPath)
		}
		if used[fi][1] {
			fmt.Fprintf(&sb, "import %q\n", depPath)
		}
		sb.WriteString("\n")
		if fi == 0 {
			sb.WriteString(ds[0].text + "\n")
		}
		for len(globals)+len(inits)+len(others) > 0 {
			k := r.intn(len(globals) + len(inits) + len(others))
			switch {
			case k < len(globals):
				sb.WriteString(globals[0].text + "\n")
				globals = globals[1:]
			case k < len(globals)+len(inits):
				sb.WriteString(inits[0].text + "\n")
				inits = inits[1:]
			default:
				sb.WriteString(others[0].text + "\n")
				others = others[1:]
			}
		}
		files[letters[fi]+".go"] = sb.String()
	}
	// the Go toolchain calls _deploy through this
	var gs strings.Builder
	fmt.Fprintf(&gs, "//go:build c14go\n\npackage %s\n\n", name)
	if main && depName != "" {
		fmt.Fprintf(&gs, "import %q\n\n", depPath)
	}
	gs.WriteString("func GoDeploy(data any, isUpdate bool) {\n")
	if main && depName != "" {
		fmt.Fprintf(&gs, "\t%s.GoDeploy(data, isUpdate)\n", depName)
	}
	if deploy {
		gs.WriteString("\t_deploy(data, isUpdate)\n")
	}
	gs.WriteString("}\n")
	return files, gs.String()
}

const c14InitInl = `package %s

func Mix(a, b int) int {
	t := a*2 + 1
	u := b + t
	return u - a
}

func Tri(x int) int {
	p := x + 1
	q := p * 2
	return p + q
}
`

// c14InitGen draws one program.
func c14InitGen(r *rng, pkg string) c14InitInput {
	g := &c14IGen{r: r, sb: &strings.Builder{}}
	in := c14InitInput{Pkg: pkg, Update: r.bool()}
	noGlobals := r.chance(6)
	hasDep := r.chance(60)
	hasInl := r.chance(55) && !noGlobals
	nfMain := 1 + r.intn(3)
	nfDep := 0
	if hasDep {
		nfDep = 1 + r.intn(2)
	}
	var inits []int
	nb := 0
	for i := 0; i < nfDep+nfMain; i++ {
		k := r.intn(5)
		inits = append(inits, k)
		nb += k
	}
	counts := c14InitShape(r, nb)
	if hasInl && r.chance(25) { // few locals in every body: the inlined call of a package-level initialiser needs more
		g.small = true
		for i := range counts {
			counts[i] = r.intn(3)
		}
	}
	depDeploy := hasDep && r.chance(35)
	mainDeploy := r.chance(50)
	in.Deploy = depDeploy || mainDeploy
	// where the function with defers lives: nowhere, some file of the imported package, some file of the main package
	deferAt := r.intn(2*(nfDep+nfMain)) - (nfDep + nfMain)
	inlPath, depPath, depName := "", "", ""
	if hasInl {
		inlPath = c14InlinePath + "/h" + pkg
		in.Inl = fmt.Sprintf(c14InitInl, "h"+pkg)
	}
	var shape []int
	in.GoOnly = map[string]string{}
	if hasDep {
		depName = pkg + "d"
		depPath = "c14gen/" + pkg + "/" + depName
		nd := 0
		for _, k := range inits[:nfDep] {
			nd += k
		}
		df := -1
		if deferAt >= 0 && deferAt < nfDep {
			df = deferAt
		}
		files, goOnly := g.genPackage(depName, false, nfDep, inits[:nfDep], &shape, counts[:nd], "", inlPath, "", depDeploy, r.intn(7), false, df)
		in.Dep = files
		in.GoOnly[depName+"/zz_go.go"] = goOnly
		counts = counts[nd:]
	}
	df := -1
	if deferAt >= nfDep {
		df = deferAt - nfDep
	}
	files, goOnly := g.genPackage(pkg, true, nfMain, inits[nfDep:], &shape, counts, depName, inlPath, depPath, mainDeploy, r.intn(7), noGlobals, df)
	in.Files = files
	in.GoOnly["zz_go.go"] = goOnly
	in.Shape = fmt.Sprint(shape)
	return in
}

// c14InitBig: programs at the one-byte limits of the slot counts. Two or three init() bodies with ~100 locals
// each (their sum exceeds 255, their maximum does not), or some three hundred package-level variables of
// which fewer than 255 are referenced.
func c14InitBig(r *rng, pkg string, kind int) c14InitInput {
	var sb strings.Builder
	fmt.Fprintf(&sb, "package %s\n\nvar A = %d\n\n", pkg, 1+r.intn(9))
	in := c14InitInput{Pkg: pkg}
	var read []string
	switch kind {
	case 0:
		nb := 2 + r.intn(2)
		var shape []int
		for b := 0; b < nb; b++ {
			nl := 90 + r.intn(38)
			if b == 0 && r.bool() {
				nl = 255 // the largest frame there is
			}
			shape = append(shape, nl)
			sb.WriteString("func init() {\n\tv0 := A%1000 + 1\n")
			for i := 1; i < nl; i++ {
				fmt.Fprintf(&sb, "\tv%d := v%d + %d\n", i, i-1, 1+r.intn(3))
			}
			fmt.Fprintf(&sb, "\tA = (A*31 + v%d) %% %d\n}\n\n", nl-1, c14M)
		}
		in.Shape = fmt.Sprint(shape)
		in.Note = "init() bodies whose local counts add up to more than 255"
		read = []string{"A"}
	default:
		nu := 200 + r.intn(40)
		nk := 60 + r.intn(150)
		for i := 0; i < nu || i < nk; i++ {
			if i < nk {
				fmt.Fprintf(&sb, "var K%d = A + %d\n", i, i)
			}
			if i < nu {
				fmt.Fprintf(&sb, "var U%d = %d\n", i, i)
			}
		}
		sb.WriteString("\nfunc init() {\n")
		for i := 0; i < nk; i += 7 {
			fmt.Fprintf(&sb, "\tK%d = (K%d*31 + A) %% %d\n", i, i, c14M)
		}
		sb.WriteString("}\n\n")
		for i := 0; i < nk; i++ {
			read = append(read, fmt.Sprintf("K%d", i))
		}
		in.Shape = fmt.Sprintf("globals used %d unused %d", nk+1, nu)
		in.Note = "more than 255 package-level variables declared, fewer referenced"
	}
	fmt.Fprintf(&sb, "func Read() []int {\n\treturn []int{%s}\n}\n", strings.Join(read, ", "))
	in.Files = map[string]string{"a.go": sb.String()}
	in.GoOnly = map[string]string{"zz_go.go": fmt.Sprintf("//go:build c14go\n\npackage %s\n\nfunc GoDeploy(data any, isUpdate bool) {}\n", pkg)}
	return in
}

// ---------- both back-ends ----------

func c14InitWrite(dir string, ins []c14InitInput) error {
	os.RemoveAll(dir)
	w := func(rel, s string) error {
		p := filepath.Join(dir, rel)
		if err := os.MkdirAll(filepath.Dir(p), 0o755); err != nil {
			return err
		}
		return os.WriteFile(p, []byte(s), 0o644)
	}
	if err := w("go.mod", "module c14gen\n\ngo 1.22\n\nrequire "+c14InlinePath+" v0.0.0\n\nreplace "+c14InlinePath+" => ./inl\n"); err != nil {
		return err
	}
	w("inl/go.mod", "module "+c14InlinePath+"\n\ngo 1.22\n")
	w("inl/doc.go", "package c14h\n")
	var main strings.Builder
	main.WriteString("package main\n\nimport (\n\t\"encoding/hex\"\n\t\"fmt\"\n\t\"os\"\n\t\"reflect\"\n\t\"sort\"\n\t\"strconv\"\n\t\"strings\"\n")
	for _, in := range ins {
		for f, s := range in.Files {
			if err := w(in.Pkg+"/"+f, s); err != nil {
				return err
			}
		}
		for f, s := range in.Dep {
			w(in.Pkg+"/"+in.Pkg+"d/"+f, s)
		}
		for f, s := range in.GoOnly {
			w(in.Pkg+"/"+f, s)
		}
		if in.Inl != "" {
			w("inl/h"+in.Pkg+"/h"+in.Pkg+".go", in.Inl)
		}
		fmt.Fprintf(&main, "\t%q\n", "c14gen/"+in.Pkg)
	}
	main.WriteString(")\n\nvar _ = sort.Strings\nvar _ = strings.Join\nvar _ = hex.EncodeToString\n" + c14GoPrelude)
	main.WriteString("\nfunc main() {\n\tfor _, a := range os.Args[1:] {\n\t\ti, _ := strconv.Atoi(a)\n\t\tswitch i {\n")
	for i, in := range ins {
		fmt.Fprintf(&main, "\t\tcase %d:\n\t\t\temit(%d, func() string { %s.GoDeploy(nil, %v); return canon(reflect.ValueOf(%s.Read())) })\n",
			i, i, in.Pkg, in.Update, in.Pkg)
	}
	main.WriteString("\t\t}\n\t}\n}\n")
	return w("main.go", main.String())
}

// c14InitRunVM: what the node does on deployment and on a later invocation, in one VM so that the static slots
// written by _deploy can be read: _initialize, then _deploy(data = null, isUpdate), then Read().
func c14InitRunVM(cc *c14Compiled, readOff, deployOff int, update bool) (stack []stackitem.Item, fault string) {
	defer func() {
		if r := recover(); r != nil {
			fault = fmt.Sprintf("GO PANIC ESCAPED THE VM: %v", r)
		}
	}()
	v := vm.New()
	steps := int64(0)
	v.SetPriceGetter(func(op opcode.Opcode, p []byte) int64 {
		if steps++; steps > 2_000_000 {
			panic("c14 step limit")
		}
		return 0
	})
	v.SetGasLimit(-1)
	v.LoadScriptWithFlags(cc.script, callflag.All)
	v.Context().Jump(readOff)
	if deployOff >= 0 {
		v.Estack().PushItem(stackitem.NewBool(update))
		v.Estack().PushItem(stackitem.Null{})
		v.Call(deployOff)
	}
	if cc.initOff >= 0 {
		v.Call(cc.initOff)
	}
	if err := v.Run(); err != nil {
		return nil, err.Error()
	}
	n := v.Estack().Len()
	for i := 0; i < n; i++ {
		stack = append(stack, v.Estack().Peek(i).Item())
	}
	return stack, ""
}

func c14SlotIndex(in c14Ins, base0, baseN opcode.Opcode) (int, bool) {
	if in.op >= base0 && in.op < baseN {
		return int(in.op - base0), true
	}
	if in.op == baseN {
		return int(in.param[0]), true
	}
	return 0, false
}

// c14SlotCheck: every slot index used by the code of a method is below what the method reserves
func c14SlotCheck(cc *c14Compiled) (bad []string, checked int) {
	ins, at, err := c14Decode(cc.script)
	if err != nil {
		return []string{"script does not decode: " + err.Error()}, 0
	}
	nstatic := 0
	for _, i := range ins {
		if i.op == opcode.INITSSLOT {
			nstatic = int(i.param[0])
		}
	}
	for _, i := range ins {
		for _, p := range [][2]opcode.Opcode{{opcode.LDSFLD0, opcode.LDSFLD}, {opcode.STSFLD0, opcode.STSFLD}} {
			if n, ok := c14SlotIndex(i, p[0], p[1]); ok {
				checked++
				if n >= nstatic {
					bad = append(bad, fmt.Sprintf("offset %d: %s index %d, INITSSLOT reserves %d", i.off, i.op, n, nstatic))
				}
			}
		}
	}
	for mi := range cc.di.Methods {
		m := &cc.di.Methods[mi]
		is, ok1 := at[int(m.Range.Start)]
		ie, ok2 := at[int(m.Range.End)]
		if !ok1 || !ok2 {
			continue // reported by the meta check
		}
		nl, na := 0, 0
		for k := is; k <= ie && k <= is+1; k++ { // _initialize: INITSSLOT comes first
			if ins[k].op == opcode.INITSLOT {
				nl, na = int(ins[k].param[0]), int(ins[k].param[1])
			}
		}
		for k := is; k <= ie; k++ {
			i := ins[k]
			if n, ok := c14SlotIndex(i, opcode.LDLOC0, opcode.LDLOC); ok {
				checked++
				if n >= nl {
					bad = append(bad, fmt.Sprintf("%s offset %d: %s index %d, INITSLOT reserves %d locals", m.ID, i.off, i.op, n, nl))
				}
			}
			if n, ok := c14SlotIndex(i, opcode.STLOC0, opcode.STLOC); ok {
				checked++
				if n >= nl {
					bad = append(bad, fmt.Sprintf("%s offset %d: %s index %d, INITSLOT reserves %d locals", m.ID, i.off, i.op, n, nl))
				}
			}
			if n, ok := c14SlotIndex(i, opcode.LDARG0, opcode.LDARG); ok {
				checked++
				if n >= na {
					bad = append(bad, fmt.Sprintf("%s offset %d: %s index %d, INITSLOT reserves %d arguments", m.ID, i.off, i.op, n, na))
				}
			}
			if n, ok := c14SlotIndex(i, opcode.STARG0, opcode.STARG); ok {
				checked++
				if n >= na {
					bad = append(bad, fmt.Sprintf("%s offset %d: %s index %d, INITSLOT reserves %d arguments", m.ID, i.off, i.op, n, na))
				}
			}
		}
	}
	return bad, checked
}

// c14InitRun compiles the programs both ways and records one "initframe" case per program.
func c14InitRun(co *caseOut, dir string, ins []c14InitInput) error {
	if len(ins) == 0 {
		return nil
	}
	if err := c14InitWrite(dir, ins); err != nil {
		return err
	}
	// the Go toolchain
	bin := filepath.Join(dir, "c14bin")
	cmd := exec.Command("go", "build", "-tags", "c14go", "-o", bin, ".")
	cmd.Dir = dir
	cmd.Env = c14GoEnv()
	if out, err := cmd.CombinedOutput(); err != nil {
		return fmt.Errorf("the Go toolchain rejects a generated initframe program (generator defect): %v\n%s", err, out)
	}
	for i, in := range ins {
		impl := c14InitImpl{}
		ctx, cancel := context.WithTimeout(context.Background(), 20*time.Second)
		c := exec.CommandContext(ctx, bin, fmt.Sprint(i))
		var out, errb bytes.Buffer
		c.Stdout, c.Stderr = &out, &errb
		err := c.Run()
		cancel()
		line := strings.TrimSpace(out.String())
		pre := fmt.Sprintf("%d ", i)
		switch {
		case strings.HasPrefix(line, pre) && !strings.Contains(line, "\n"):
			impl.Go = strings.TrimPrefix(line, pre)
		case err != nil:
			impl.Go = "F"
		default:
			return fmt.Errorf("initframe %s: unexpected output %q %q", in.Pkg, line, errb.String())
		}
		if impl.Go == "F" {
			return fmt.Errorf("initframe %s fails under the Go toolchain (generator defect): %s", in.Pkg, errb.String())
		}
		// the real compiler and the real VM
		cc, err := c14Compile(filepath.Join(dir, in.Pkg))
		if err != nil {
			what := "the compiler rejects a generated program of the dialect: "
			if strings.Contains(err.Error(), "compiler panic") {
				what = "the compiler panics on a generated program: "
			}
			co.violation("initframe", what+firstLine(err.Error()), in, err.Error())
			continue
		}
		readOff, ok := cc.offsets["Read"]
		deployOff := -1
		for k := range cc.di.Methods {
			if m := &cc.di.Methods[k]; m.Name.Name == "_deploy" || m.ID == "_deploy" {
				deployOff = int(m.Range.Start)
			}
		}
		if !ok {
			co.violation("initframe", "exported function Read is missing from the debug information", in, nil)
			continue
		}
		if in.Deploy != (deployOff >= 0) {
			co.violation("initframe", fmt.Sprintf("_deploy declared: %v, method _deploy in the debug information: %v", in.Deploy, deployOff >= 0), in, nil)
			continue
		}
		st, fault := c14InitRunVM(cc, readOff, deployOff, in.Update)
		switch {
		case fault != "":
			impl.VM, impl.Fault = "F", fault
		case len(st) != 1:
			impl.VM = fmt.Sprintf("!stack-depth-%d", len(st))
		default:
			impl.VM = c14CanonItem(st[0], "[]int", nil)
		}
		bad, checked := c14SlotCheck(cc)
		if v, ok := co.extra["x_slot_checks"].(int); ok {
			co.extra["x_slot_checks"] = v + checked
		} else {
			co.extra["x_slot_checks"] = checked
		}
		if len(bad) > 0 {
			impl.Slots = bad
			co.violation("initframe", "a method uses a slot it does not reserve: "+bad[0], in, impl)
		}
		tag := "plain"
		switch {
		case in.Note != "":
			tag = "limits"
		case in.Deploy && len(in.Dep) > 0:
			tag = "dep+deploy"
		case in.Deploy:
			tag = "deploy"
		case len(in.Dep) > 0:
			tag = "dep"
		}
		co.add("initframe", tag, impl.VM != "F", in, impl,
			fmt.Sprintf("CObs %d %d", c14Hash([]string{impl.Go}), c14Hash([]string{impl.VM})))
	}
	return nil
}

func c14InitGenerate(co *caseOut, cf *commonFlags, r *rng, work string) error {
	n := max(30, cf.n/12)
	var ins []c14InitInput
	shapes := map[string]int{}
	for k := 0; k < n; k++ {
		in := c14InitGen(r, fmt.Sprintf("q%d", k))
		ins = append(ins, in)
		// where the body with the most locals stands among the bodies of _initialize
		var cs []int
		for _, f := range strings.Fields(strings.Trim(in.Shape, "[]")) {
			var x int
			fmt.Sscan(f, &x)
			if x >= 0 {
				cs = append(cs, x)
			}
		}
		mx, at, uniq := -1, -1, true
		for i, c := range cs {
			if c > mx {
				mx, at, uniq = c, i, true
			} else if c == mx {
				uniq = false
			}
		}
		switch {
		case len(cs) < 2:
			shapes["fewer than two bodies"]++
		case !uniq:
			shapes["maximum not unique"]++
		case at == len(cs)-1:
			shapes["maximum last"]++
		case at == 0:
			shapes["maximum first"]++
		default:
			shapes["maximum in the middle"]++
		}
	}
	ins = append(ins, c14InitBig(r, fmt.Sprintf("q%d", n), 0), c14InitBig(r, fmt.Sprintf("q%d", n+1), 1))
	co.extra["x_initframe_shapes"] = shapes
	return c14InitRun(co, filepath.Join(work, "initframe"), ins)
}
