package main

// Identity shortcuts must not skip the type conversion of the result (after the ninth mutation round): every arithmetic /
// bitwise instruction with a neutral element as the OTHER operand (x SHL 0, x ADD 0, 1 MUL x, x AND -1, NEGATE NEGATE, ABS of a
// non-negative, x MIN x, ...), the operand x being a ByteString (empty, minimal, non-minimal encoding), a Boolean or a
// Buffer, followed by type-revealing consumers (ISTYPE Integer, SIZE; the final stack shows the item type as well).
// The VM runs with all hard forks enabled (vm.New), which is what the model specifies.

import "github.com/nspcc-dev/neo-go/pkg/vm/opcode"

func c13NeutralCases() []c13AliasCase {
	var out []c13AliasCase
	type operand struct {
		tag string
		f   func(a *c13Asm)
	}
	ops := []operand{
		{"bytes-empty", func(a *c13Asm) { a.op(opcode.PUSHDATA1, 0) }},
		{"bytes-5", func(a *c13Asm) { a.op(opcode.PUSHDATA1, 1, 5) }},
		{"bytes-nonminimal", func(a *c13Asm) { a.op(opcode.PUSHDATA1, 2, 5, 0) }},
		{"bytes-0100", func(a *c13Asm) { a.op(opcode.PUSHDATA1, 2, 1, 0) }},
		{"bytes-neg", func(a *c13Asm) { a.op(opcode.PUSHDATA1, 1, 0xff) }},
		{"bool-true", func(a *c13Asm) { a.op(opcode.PUSHT) }},
		{"bool-false", func(a *c13Asm) { a.op(opcode.PUSHF) }},
		{"buffer-5", func(a *c13Asm) { a.op(opcode.PUSHDATA1, 1, 5).op(opcode.CONVERT, 0x30) }},
		{"int-5", func(a *c13Asm) { a.op(opcode.PUSH5) }},
	}
	reveal := func(a *c13Asm) { a.op(opcode.DUP).op(opcode.ISTYPE, 0x21).op(opcode.OVER).op(opcode.SIZE) }
	type form struct {
		tag string
		f   func(a *c13Asm, x func(a *c13Asm))
	}
	right := func(n int64, o opcode.Opcode) form {
		return form{o.String() + "-right", func(a *c13Asm, x func(a *c13Asm)) { x(a); a.i(n); a.op(o) }}
	}
	left := func(n int64, o opcode.Opcode) form {
		return form{o.String() + "-left", func(a *c13Asm, x func(a *c13Asm)) { a.i(n); x(a); a.op(o) }}
	}
	forms := []form{
		right(0, opcode.SHL), right(0, opcode.SHR), right(0, opcode.ADD), right(0, opcode.SUB), right(1, opcode.MUL), right(1, opcode.DIV),
		right(1, opcode.POW), right(-1, opcode.AND), right(0, opcode.OR), right(0, opcode.XOR),
		left(0, opcode.ADD), left(1, opcode.MUL), left(-1, opcode.AND), left(0, opcode.OR), left(0, opcode.XOR),
		{"NEGATE-twice", func(a *c13Asm, x func(a *c13Asm)) { x(a); a.op(opcode.NEGATE).op(opcode.NEGATE) }},
		{"ABS", func(a *c13Asm, x func(a *c13Asm)) { x(a); a.op(opcode.ABS) }},
		{"INC-DEC", func(a *c13Asm, x func(a *c13Asm)) { x(a); a.op(opcode.INC).op(opcode.DEC) }},
		{"INVERT-twice", func(a *c13Asm, x func(a *c13Asm)) { x(a); a.op(opcode.INVERT).op(opcode.INVERT) }},
		{"MIN-same", func(a *c13Asm, x func(a *c13Asm)) { x(a); a.op(opcode.DUP).op(opcode.MIN) }},
		{"MAX-same", func(a *c13Asm, x func(a *c13Asm)) { x(a); a.op(opcode.DUP).op(opcode.MAX) }},
		{"MODMUL-1", func(a *c13Asm, x func(a *c13Asm)) { x(a); a.i(1); a.i(1000); a.op(opcode.MODMUL) }},
		{"MODPOW-1", func(a *c13Asm, x func(a *c13Asm)) { x(a); a.i(1); a.i(1000); a.op(opcode.MODPOW) }},
		{"SQRT", func(a *c13Asm, x func(a *c13Asm)) { x(a); a.op(opcode.SQRT) }},
		{"SIGN", func(a *c13Asm, x func(a *c13Asm)) { x(a); a.op(opcode.SIGN) }},
	}
	for _, o := range ops {
		for _, f := range forms {
			a := &c13Asm{}
			f.f(a, o.f)
			reveal(a)
			// and as a map key next to the Integer of the same value: one entry or two?
			a.op(opcode.NEWMAP).op(opcode.DUP).op(opcode.PUSH4).op(opcode.PICK).op(opcode.PUSH1).op(opcode.SETITEM).op(opcode.SIZE)
			out = append(out, c13AliasCase{f.tag + "/" + o.tag, a})
		}
	}
	return out
}
