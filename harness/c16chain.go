package main

// Helpers shared by the c15/c16 harnesses: a neotest chain inside a plain binary (no `go test`), hand-assembled
// contracts (raw NeoVM scripts + manifest), test invocations with observation of storage diff, notifications,
// runtime log entries and nested calls.

import (
	"encoding/json"
	"fmt"
	"sort"
	"strings"
	"testing"

	"github.com/nspcc-dev/neo-go/pkg/config"
	"github.com/nspcc-dev/neo-go/pkg/core"
	"github.com/nspcc-dev/neo-go/pkg/core/interop"
	"github.com/nspcc-dev/neo-go/pkg/core/state"
	"github.com/nspcc-dev/neo-go/pkg/core/storage"
	"github.com/nspcc-dev/neo-go/pkg/core/storage/dbconfig"
	"github.com/nspcc-dev/neo-go/pkg/core/transaction"
	"github.com/nspcc-dev/neo-go/pkg/crypto/keys"
	"github.com/nspcc-dev/neo-go/pkg/io"
	"github.com/nspcc-dev/neo-go/pkg/neotest"
	"github.com/nspcc-dev/neo-go/pkg/neotest/chain"
	"github.com/nspcc-dev/neo-go/pkg/smartcontract"
	"github.com/nspcc-dev/neo-go/pkg/smartcontract/callflag"
	"github.com/nspcc-dev/neo-go/pkg/smartcontract/manifest"
	"github.com/nspcc-dev/neo-go/pkg/smartcontract/nef"
	"github.com/nspcc-dev/neo-go/pkg/smartcontract/trigger"
	"github.com/nspcc-dev/neo-go/pkg/util"
	"github.com/nspcc-dev/neo-go/pkg/vm/emit"
	"github.com/nspcc-dev/neo-go/pkg/vm/opcode"
	"go.uber.org/zap"
	"go.uber.org/zap/zapcore"
)

// c16T is a testing.TB for neotest outside `go test`: failures panic (and are caught by the caller).
type c16T struct {
	testing.TB
	cleanups []func()
}

type c16Fail struct{ msg string }

func (t *c16T) Helper()                         {}
func (t *c16T) Name() string                    { return "nghx" }
func (t *c16T) Logf(string, ...any)             {}
func (t *c16T) Log(...any)                      {}
func (t *c16T) Errorf(f string, a ...any)       { panic(c16Fail{fmt.Sprintf(f, a...)}) }
func (t *c16T) Fatalf(f string, a ...any)       { panic(c16Fail{fmt.Sprintf(f, a...)}) }
func (t *c16T) Fatal(a ...any)                  { panic(c16Fail{fmt.Sprint(a...)}) }
func (t *c16T) Error(a ...any)                  { panic(c16Fail{fmt.Sprint(a...)}) }
func (t *c16T) FailNow()                        { panic(c16Fail{"FailNow"}) }
func (t *c16T) Fail()                           { panic(c16Fail{"Fail"}) }
func (t *c16T) Failed() bool                    { return false }
func (t *c16T) Cleanup(f func())                { t.cleanups = append(t.cleanups, f) }
func (t *c16T) Setenv(string, string)           {}
func (t *c16T) Skip(...any)                     {}
func (t *c16T) Skipf(string, ...any)            {}
func (t *c16T) SkipNow()                        {}
func (t *c16T) Skipped() bool                   { return false }
func (t *c16T) TempDir() string                 { panic("no TempDir") }
func (t *c16T) done() {
	for i := len(t.cleanups) - 1; i >= 0; i-- {
		t.cleanups[i]()
	}
}

type c16Chain struct {
	t  *c16T
	bc *core.Blockchain
	e  *neotest.Executor
	// owner: the single validator/committee multisignature account; holds all NEO and GAS after genesis
	owner neotest.Signer
}

// c16NewChain: single-validator in-memory chain with every known hard-fork enabled from genesis.
func c16NewChain() *c16Chain { return c16NewChainOn(nil) }

// c16NewChainAt opens (or creates) a chain over a LevelDB directory: closing it and calling c16NewChainAt again on
// the same directory is a node restart (everything, contract states included, is rebuilt from the stored form).
func c16NewChainAt(dir string) (*c16Chain, error) {
	st, err := storage.NewLevelDBStore(dbconfig.LevelDBOptions{DataDirectoryPath: dir})
	if err != nil {
		return nil, err
	}
	return c16NewChainOn(st), nil
}

func c16NewChainOn(st storage.Store) *c16Chain {
	return c16NewChainHF(st, func(config.Hardfork) uint32 { return 0 })
}

// c16NewChainHF: like c16NewChainOn with every known hard-fork scheduled at the height given by at(hf)
func c16NewChainHF(st storage.Store, at func(config.Hardfork) uint32) *c16Chain {
	t := &c16T{}
	bc, acc := chain.NewSingleWithOptions(t, &chain.Options{
		Logger: zap.NewNop(),
		Store:  st,
		BlockchainConfigHook: func(c *config.Blockchain) {
			c.Hardforks = map[string]uint32{}
			for _, hf := range config.Hardforks {
				c.Hardforks[hf.String()] = at(hf)
			}
			c.P2PSigExtensions = true
		},
	})
	e := neotest.NewExecutor(t, bc, acc, acc)
	return &c16Chain{t: t, bc: bc, e: e, owner: acc}
}

func (c *c16Chain) close() {
	c.t.done()
	c.t.cleanups = nil
}

// ---- hand-assembled contracts ----

type c16Method struct {
	Name    string
	NParams int
	Void    bool
	Safe    bool
	Body    []byte // raw NeoVM code; arguments are on the evaluation stack, first argument on top
}

type c16ContractSpec struct {
	Name    string
	Methods []c16Method
	Events  []manifest.Event
	Perms   []manifest.Permission
	Groups  []*keys.PrivateKey
	Tokens  []nef.MethodToken // method tokens of the NEF (targets of the CALLT opcode)
}

func c16Key(i int) *keys.PrivateKey {
	b := make([]byte, 32)
	b[31] = byte(i + 1)
	b[0] = 0x11
	k, err := keys.NewPrivateKeyFromBytes(b)
	if err != nil {
		panic(err)
	}
	return k
}

// c16Build lays the method bodies out one after another and writes the manifest.
func c16Build(sender util.Uint160, s c16ContractSpec) *neotest.Contract {
	var script []byte
	m := manifest.NewManifest(s.Name)
	for _, md := range s.Methods {
		ps := make([]manifest.Parameter, md.NParams)
		for i := range ps {
			ps[i] = manifest.Parameter{Name: fmt.Sprintf("a%d", i), Type: smartcontract.AnyType}
		}
		rt := smartcontract.AnyType
		if md.Void {
			rt = smartcontract.VoidType
		}
		m.ABI.Methods = append(m.ABI.Methods, manifest.Method{Name: md.Name, Offset: len(script), Parameters: ps, ReturnType: rt, Safe: md.Safe})
		script = append(script, md.Body...)
	}
	if s.Events != nil {
		m.ABI.Events = s.Events
	}
	m.Permissions = s.Perms
	if m.Permissions == nil {
		m.Permissions = []manifest.Permission{}
	}
	config.Version = "0.0.0"
	ne, err := nef.NewFile(script)
	if err != nil {
		panic(err)
	}
	if len(s.Tokens) > 0 {
		ne.Tokens = s.Tokens
		ne.Checksum = ne.CalculateChecksum()
	}
	h := state.CreateContractHash(sender, ne.Checksum, m.Name)
	for _, k := range s.Groups {
		m.Groups = append(m.Groups, manifest.Group{PublicKey: k.PublicKey(), Signature: k.Sign(h.BytesBE())})
	}
	return &neotest.Contract{Hash: h, NEF: ne, Manifest: m}
}

func (c *c16Chain) deploy(s c16ContractSpec) (ct *neotest.Contract, err error) {
	defer func() {
		if r := recover(); r != nil {
			err = fmt.Errorf("deploy %s: %v", s.Name, r)
		}
	}()
	ct = c16Build(c.owner.ScriptHash(), s)
	c.e.DeployContract(c.t, ct, nil)
	return ct, nil
}

// code helpers
func c16Code(f func(w *io.BinWriter)) []byte {
	w := io.NewBufBinWriter()
	f(w.BinWriter)
	if w.Err != nil {
		panic(w.Err)
	}
	return w.Bytes()
}

// body: SYSCALL name ; (CLEAR for void | keep one result) ; RET
func c16SyscallBody(name string, void bool) []byte {
	return c16Code(func(w *io.BinWriter) {
		emit.Syscall(w, name)
		if void {
			emit.Opcodes(w, opcode.CLEAR)
		}
		emit.Opcodes(w, opcode.RET)
	})
}

// ---- test invocation with observation ----

type c16Obs struct {
	State     string   `json:"state"`           // HALT / FAULT
	Fault     string   `json:"fault,omitempty"` // fault message (truncated)
	GateFault bool     `json:"gate_fault"`      // the fault is a missing-call-flags refusal of the frame under test
	Reached   bool     `json:"reached"`         // the frame under test started executing
	Wrote     bool     `json:"wrote"`           // storage diff non-empty after the frame under test started
	Notified  bool     `json:"notified"`        // notification list or runtime log grew
	Called    bool     `json:"called"`          // another script context ran on top of the frame under test
	Keys      []string `json:"keys,omitempty"`  // changed storage keys (hex, at most 4)
	Events    []string `json:"events,omitempty"`
	Callees   []string `json:"callees,omitempty"`
	Stack     string   `json:"stack,omitempty"` // JSON of the result stack top (when asked for)
	F39       bool     `json:"f39_shape,omitempty"`
}

type c16LogCount struct {
	zapcore.LevelEnabler
	n *int
}

func (c c16LogCount) With([]zapcore.Field) zapcore.Core { return c }
func (c c16LogCount) Check(e zapcore.Entry, ce *zapcore.CheckedEntry) *zapcore.CheckedEntry {
	return ce.AddCore(e, c)
}
func (c c16LogCount) Write(e zapcore.Entry, _ []zapcore.Field) error {
	if e.Message == "runtime log" {
		*c.n++
	}
	return nil
}
func (c c16LogCount) Sync() error { return nil }

// c16Invoke runs `script` as the entry script of a test transaction with the given signers on top of the current
// chain state (nothing is persisted).  The "frame under test" is the first context of script hash `target` running at
// invocation depth 2 (directly called by the entry script) with ... any flags; effects are attributed to it from the
// moment it starts.  entryFlags are the flags of the entry script.
func (c *c16Chain) invoke(script []byte, signers []transaction.Signer, target util.Uint160, depth int, trig trigger.Type, entryFlags callflag.CallFlag, wantStack bool) (obs c16Obs, ic *interop.Context) {
	tx := transaction.New(script, 0)
	tx.Signers = signers
	tx.ValidUntilBlock = c.bc.BlockHeight() + 1
	var err error
	if trig == trigger.Application {
		ic, err = c.bc.GetTestVM(trig, tx, nil)
	} else {
		b, e2 := c.bc.GetFakeNextBlock(c.bc.BlockHeight() + 1)
		if e2 != nil {
			panic(e2)
		}
		ic, err = c.bc.GetTestVM(trig, nil, b)
	}
	if err != nil {
		panic(err)
	}
	nlog := 0
	ic.Log = zap.New(c16LogCount{zapcore.InfoLevel, &nlog})
	ic.VM.SetGasLimit(5000_0000_0000)
	reached := false
	var baseNtf, baseLog int
	baseKeys := map[string]string{}
	callees := map[string]bool{}
	changed := func() map[string]string {
		m := map[string]string{}
		b := ic.DAO.Store.GetBatch()
		for _, kv := range b.Put {
			m[hx(kv.Key)] = "P" + hx(kv.Value)
		}
		for _, kv := range b.Deleted {
			m[hx(kv.Key)] = "D"
		}
		return m
	}
	wholeRun := target.Equals(util.Uint160{})
	if wholeRun {
		reached = true
	}
	ic.VM.SetOnExecHook(func(sh util.Uint160, off int, op opcode.Opcode) {
		d := len(ic.VM.Istack())
		if !reached && d == depth && sh.Equals(target) {
			reached = true
			baseNtf, baseLog = len(ic.Notifications), nlog
			baseKeys = changed()
		}
		if reached && !wholeRun && d > depth {
			callees[sh.StringLE()] = true
		}
		if wholeRun && d > 1 {
			callees[sh.StringLE()] = true
		}
	})
	ic.VM.LoadWithFlags(script, entryFlags)
	var runErr error
	p := catch(func() { runErr = ic.Exec() })
	obs.State = ic.VM.State().String()
	if p != "" {
		obs.State = "PANIC"
		obs.Fault = p
	} else if runErr != nil {
		obs.Fault = runErr.Error()
	}
	if len(obs.Fault) > 160 {
		obs.Fault = obs.Fault[:160]
	}
	obs.GateFault = strings.Contains(obs.Fault, "missing call flags")
	obs.Reached = reached
	if reached {
		ch := changed()
		for k, v := range ch {
			if baseKeys[k] == v {
				delete(ch, k)
			}
		}
		obs.Wrote = len(ch) > 0
		obs.Notified = len(ic.Notifications) > baseNtf || nlog > baseLog
		obs.Called = len(callees) > 0
		ks := make([]string, 0, len(ch))
		for k := range ch {
			ks = append(ks, k)
		}
		sort.Strings(ks)
		if len(ks) > 4 {
			ks = ks[:4]
		}
		if obs.Wrote {
			obs.Keys = ks
		}
		for i := baseNtf; i < len(ic.Notifications) && i < baseNtf+4; i++ {
			obs.Events = append(obs.Events, ic.Notifications[i].Name)
		}
		if nlog > baseLog {
			obs.Events = append(obs.Events, "(runtime log)")
		}
		for k := range callees {
			obs.Callees = append(obs.Callees, k)
		}
		sort.Strings(obs.Callees)
	}
	if wantStack && ic.VM.Estack().Len() > 0 {
		b, _ := json.Marshal(ic.VM.Estack().Peek(0).Item().Value())
		obs.Stack = string(b)
	}
	return obs, ic
}
