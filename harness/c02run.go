package main

import (
	"encoding/json"
	"fmt"
	"runtime"
	"sort"
	"strings"
	"time"

	"github.com/nspcc-dev/neo-go/pkg/config"
	"github.com/nspcc-dev/neo-go/pkg/core"
	"github.com/nspcc-dev/neo-go/pkg/core/block"
	"github.com/nspcc-dev/neo-go/pkg/core/state"
	"github.com/nspcc-dev/neo-go/pkg/core/storage"
	nio "github.com/nspcc-dev/neo-go/pkg/io"
	"github.com/nspcc-dev/neo-go/pkg/util"
)

func init() { register("c02", runC02) }

type c02Op struct {
	K  string `json:"k"` // hdr (N next headers) | blk (next block) | flush | flushgc
	N  int    `json:"n,omitempty"`
	In string `json:"in,omitempty"` // blk: flushes INSIDE the block addition (c02inblock.go): P at storeBlock's lock, W in its back-pressure wait, M after the merge
	D  int    `json:"d,omitempty"`  // fail: N flushes fail (the lower store's PutChangeSet returns an error); the first one hangs inside the store while the next D blocks are added, one more block is added before each further failing flush when B
	B  bool   `json:"b,omitempty"`
}

// c02LastFaults: the failing flushes of the last c02Drive: flushes that failed, blocks added while the first of an op hung
var c02LastFaults struct{ Failed, During, Between int }

// c02Input is the replayable description of one history with its flush schedule.
//   kind "persist": ordinary block processing (Ops), every batch boundary is a crash point;
//   kind "reset":   the same, then Reset(Reset) on a re-opened node, every batch boundary inside it;
//   kind "jump":    state synchronisation of a light node from the source + state jump (Ops = steps
//                   of the synchronisation driver after which the write cache is flushed).
type c02Input struct {
	Cfg     c02Cfg    `json:"cfg"`
	Blocks  [][]c02Tx `json:"blocks"`
	Ops     []c02Op   `json:"ops"`
	Reset   uint32    `json:"reset,omitempty"`
	NodeBat int       `json:"nodebatch,omitempty"`
	At      *int      `json:"at,omitempty"` // informational: the batch index a violation was seen at
	Sched   []int     `json:"sched,omitempty"` // kind "resetord": the choice taken at every point where a background write and a direct write wait together
	One     bool      `json:"one,omitempty"`   // kind "resetord": run only the schedule Sched (otherwise all schedules are enumerated)
}

// ---------------------------------------------------------------------------------------------
// driving the victim

func c02Drive(b *c02Built, in c02Input) (rec *c02Rec, base *c02Store, done []c02Op, fail string) {
	base, err := c02NewStore(in.Cfg.Backend)
	if err != nil {
		return nil, nil, nil, err.Error()
	}
	rec = &c02Rec{base: base.st}
	// between the node and the recording store: a store whose PutChangeSet can be held and made to fail (c01fault.go);
	// the recorder sees the flushes that succeed
	fs := &c01FaultStore{Store: rec}
	c02LastFaults.Failed, c02LastFaults.During, c02LastFaults.Between = 0, 0, 0
	bc, _, fail := c02Open(fs, in.Cfg, nil)
	if fail != "" {
		return rec, base, nil, "victim open: " + fail
	}
	rec.node = func() (uint32, uint32) { return bc.BlockHeight(), bc.HeaderHeight() }
	var ib *c02InBlock
	for _, op := range in.Ops {
		if op.In != "" && ib == nil {
			ib = c02NewInBlock(bc)
			ib.nb = func() int { rec.mu.Lock(); defer rec.mu.Unlock(); return len(rec.batches) }
		}
	}
	c02LastHits, c02LastIB = nil, ib
	if ib != nil {
		c02LastHits = ib.Hits
	}
	go bc.Run()
	top := uint32(len(b.Blocks) - 1)
	fail = c02Try(func() {
		for _, op := range in.Ops {
			switch op.K {
			case "hdr":
				hh := bc.HeaderHeight()
				var hs []*block.Header
				for i := hh + 1; i <= top && len(hs) < op.N; i++ {
					hs = append(hs, &b.Blocks[i].Header)
				}
				if len(hs) == 0 {
					continue
				}
				if err := bc.AddHeaders(hs...); err != nil {
					panic("AddHeaders: " + err.Error())
				}
				done = append(done, c02Op{K: "hdr", N: len(hs)})
			case "blk":
				if op.In != "" {
					i := bc.BlockHeight() + 1
					if i > top {
						continue
					}
					var ops []c02Op
					var err error
					if op.In == "S" {
						ops, err = ib.addStepping(b.Blocks[i], done)
					} else {
						ops, err = ib.add(b.Blocks[i], op.In)
					}
					done = append(done, ops...)
					if err != nil {
						panic(fmt.Sprintf("AddBlock %d (flushes %s): %v", i, op.In, err))
					}
					continue
				}
				cnt := 0
				for j := 0; j < max(1, op.N); j++ {
					i := bc.BlockHeight() + 1
					if i > top {
						break
					}
					if err := bc.AddBlock(b.Blocks[i]); err != nil {
						panic(fmt.Sprintf("AddBlock %d: %v", i, err))
					}
					cnt++
				}
				if cnt > 0 {
					done = append(done, c02Op{K: "blk", N: cnt})
				}
			case "fail":
				// in the model a flush that fails is no operation at all: the cache keeps everything, in order
				n := max(1, op.N)
				addNext := func() bool {
					i := bc.BlockHeight() + 1
					if i > top {
						return false
					}
					if err := bc.AddBlock(b.Blocks[i]); err != nil {
						panic(fmt.Sprintf("AddBlock %d (a flush is failing): %v", i, err))
					}
					done = append(done, c02Op{K: "blk", N: 1})
					return true
				}
				if op.D > 0 {
					entered, gate := fs.arm(true, n)
					res := make(chan error, 1)
					go func() { _, err := bc.VerifPersistAsTimer(); res <- err }() // as the timer of Run: no block-level lock
					select {
					case <-entered:
						for j := 0; j < op.D; j++ {
							if addNext() {
								c02LastFaults.During++
							}
						}
						close(gate)
						if err := <-res; err == nil {
							panic("the flush was to fail and did not")
						}
						c02LastFaults.Failed++
						n--
					case err := <-res:
						// nothing to flush: the store was not called
						fs.disarm()
						if err != nil {
							panic("persist: " + err.Error())
						}
						n = 0
					case <-time.After(c02GateWait):
						panic("the flush did not reach the store")
					}
				} else {
					fs.arm(false, n)
				}
				for ; n > 0; n-- {
					if op.B && op.D > 0 || op.B && n < max(1, op.N) {
						if addNext() {
							c02LastFaults.Between++
						}
					}
					if _, err := bc.VerifPersistAsTimer(); err == nil {
						break // nothing to flush
					}
					c02LastFaults.Failed++
				}
				fs.disarm()
			case "flush":
				if _, err := bc.VerifPersist(); err != nil {
					panic("persist: " + err.Error())
				}
				done = append(done, op)
			case "flushgc":
				if _, err := bc.VerifPersistGC(); err != nil {
					panic("persist: " + err.Error())
				}
				done = append(done, op)
			}
		}
	})
	// clean shutdown: flushes what is left (one more batch when the cache is not empty)
	bc.Close()
	done = append(done, c02Op{K: "flush"})
	return rec, base, done, fail
}

// c02LastHits: the in-block flushes of the last c02Drive that wrote something, per placement
var c02LastHits map[string]int
var c02LastIB *c02InBlock

type c02Recovered struct {
	K      int    `json:"k"`
	Res    string `json:"res"` // ok | fail | broken | stuck
	Height uint32 `json:"h"`
	HdrH   uint32 `json:"hh"`
	Same   bool   `json:"same,omitempty"`
	Err    string `json:"err,omitempty"`
}

type c02Viol func(class, note string, k int)

var c02CrashPoints int

// c02FeedMax limits how many of the remaining blocks a recovered node is fed (0 = all).
var c02FeedMax uint32

// c02CheckNode: the node must be at a height h <= maxAccepted (== wantH when wantH >= 0), equal to the
// reference at h, and must accept the remaining blocks with identical roots.
func c02CheckNode(b *c02Built, bc *core.Blockchain, st storage.Store, cfg c02Cfg, k int, maxAccepted uint32, wantH int, res *c02Recovered, viol c02Viol) {
	c02CrashPoints++
	top := uint32(len(b.Blocks) - 1)
	var h, hh uint32
	if m := c02Try(func() { h, hh = bc.BlockHeight(), bc.HeaderHeight() }); m != "" {
		res.Res = "broken"
		viol("height-query", m, k)
		return
	}
	res.Height, res.HdrH = h, hh
	if h > maxAccepted || h > top {
		viol("height-above-accepted", fmt.Sprintf("recovered height %d above the last accepted block %d", h, maxAccepted), k)
		return
	}
	if wantH >= 0 && h != uint32(wantH) {
		viol("wrong-height", fmt.Sprintf("node is at height %d, expected %d", h, wantH), k)
		return
	}
	if hh < h {
		viol("header-below-block", fmt.Sprintf("header height %d below block height %d", hh, h), k)
	}
	if bc.CurrentBlockHash() != b.Blocks[h].Hash() {
		viol("tip-hash", fmt.Sprintf("tip hash at height %d differs from the reference", h), k)
	}
	m := c02Try(func() {
		sr, err := bc.GetStateRoot(h)
		if err != nil {
			viol("no-root", fmt.Sprintf("no state root at recovered height %d: %v", h, err), k)
		} else if sr.Root != b.Snaps[h].Root {
			viol("root-differs", fmt.Sprintf("state root at recovered height %d differs from the reference", h), k)
		}
		if lr := bc.GetStateModule().CurrentLocalStateRoot(); lr != b.Snaps[h].Root {
			viol("module-root", fmt.Sprintf("state module's current root at height %d differs from the reference", h), k)
		}
		if lh := bc.GetStateModule().CurrentLocalHeight(); lh != h {
			viol("module-height", fmt.Sprintf("state module's height %d != block height %d", lh, h), k)
		}
	})
	if m != "" {
		res.Res = "broken"
		viol("root-query-panics", fmt.Sprintf("state root query at height %d: %s", h, c02Short(m)), k)
		return
	}
	if b.Snaps[h].Dump != nil {
		if d := c02StorageDiff(bc, b.Snaps[h].Dump); d != "" {
			viol("storage-differs", fmt.Sprintf("contract storage at recovered height %d differs from the reference: %s", h, d), k)
		}
	}
	// feed the rest
	if c02FeedMax > 0 && top > h+c02FeedMax {
		top = h + c02FeedMax
	}
	full := top == uint32(len(b.Blocks)-1)
	for i := h + 1; i <= top; i++ {
		var err error
		if m := c02Try(func() { err = bc.AddBlock(b.Blocks[i]) }); m != "" {
			res.Res = "broken"
			viol("addblock-panics", fmt.Sprintf("recovered at %d, adding block %d: %s", h, i, c02Short(m)), k)
			return
		}
		if err != nil {
			res.Res = "broken"
			viol("block-rejected", fmt.Sprintf("recovered at %d, block %d is not accepted: %v", h, i, err), k)
			return
		}
		sr, err := bc.GetStateRoot(i)
		if err != nil || sr.Root != b.Snaps[i].Root {
			viol("later-root-differs", fmt.Sprintf("recovered at %d, state root of block %d differs from the uninterrupted node (%v)", h, i, err), k)
			return
		}
	}
	if !full || b.Snaps[top].Dump == nil {
		return
	}
	if d := c02StorageDiff(bc, b.Snaps[top].Dump); d != "" {
		viol("final-storage-differs", fmt.Sprintf("recovered at %d, final contract storage differs: %s", h, d), k)
	}
	if _, err := bc.VerifPersist(); err != nil {
		viol("final-flush", err.Error(), k)
	}
	if !cfg.GC && !cfg.P2PSX {
		// archival configuration: the whole database must now equal the reference's (storage prefix aside)
		n, ex := c02DiffDumps(c02NormDump(c02Dump(st)), c02NormDump(b.Snaps[top].Dump), nil)
		if n > 0 {
			viol("final-db-differs", fmt.Sprintf("recovered at %d, after the remaining blocks the database differs from the uninterrupted node's in %d keys: %v", h, n, ex), k)
		}
	}
}

func c02Short(s string) string {
	s = strings.Join(strings.Fields(s), " ")
	if i := strings.Index(s, "Error:"); i >= 0 {
		s = s[i:]
	}
	if i := strings.Index(s, " Test:"); i >= 0 {
		s = s[:i]
	}
	if len(s) > 300 {
		s = s[:300]
	}
	return s
}

// c02NormDump maps the database to a form independent of which of the two storage prefixes is current.
func c02NormDump(d map[string][]byte) map[string][]byte {
	cur := byte(storage.STStorage)
	if v, ok := d[string([]byte{byte(storage.SYSVersion)})]; ok {
		cur = c02VersionPrefix(v)
	}
	out := make(map[string][]byte, len(d))
	for k, v := range d {
		switch {
		case k[0] == cur:
			out["S"+k[1:]] = v
		case k[0] == byte(storage.STStorage) || k[0] == byte(storage.STTempStorage):
			out["T"+k[1:]] = v
		case k[0] == byte(storage.SYSVersion):
			out[k] = c02VersionNorm(v)
		case k[0] == byte(storage.STTokenTransferInfo):
			out[k] = c02XInfoNorm(v)
		default:
			out[k] = v
		}
	}
	return out
}

// c02XInfoNorm: TokenTransferInfo is encoded by ranging over a Go map, so equal values have several encodings.
func c02XInfoNorm(v []byte) []byte {
	var ti state.TokenTransferInfo
	r := nio.NewBinReaderFromBuf(v)
	ti.DecodeBinary(r)
	if r.Err != nil {
		return v
	}
	j, _ := json.Marshal(ti) // encoding/json sorts map keys
	return j
}

// dao.Version.Bytes(): value string, 0, storage prefix, flags...
func c02VersionPrefix(v []byte) byte {
	for i, c := range v {
		if c == 0 && i+1 < len(v) {
			return v[i+1]
		}
	}
	return byte(storage.STStorage)
}
func c02VersionNorm(v []byte) []byte {
	o := append([]byte{}, v...)
	for i, c := range o {
		if c == 0 && i+1 < len(o) {
			o[i+1] = 0
			break
		}
	}
	return o
}

// c02StorageDiff compares the node's live contract storage (through the Blockchain API) with the reference dump.
func c02StorageDiff(bc *core.Blockchain, ref map[string][]byte) string {
	cur := byte(storage.STStorage)
	if v, ok := ref[string([]byte{byte(storage.SYSVersion)})]; ok {
		cur = c02VersionPrefix(v)
	}
	want := map[string][]byte{}
	ids := map[int32]bool{}
	for k, v := range ref {
		if k[0] == cur && len(k) >= 5 {
			want[k[1:]] = v
			ids[int32(c02U32([]byte(k[1:5])))] = true
		}
	}
	for id := int32(-20); id < 0; id++ {
		ids[id] = true
	}
	got := map[string][]byte{}
	for id := range ids {
		var idb [4]byte
		idb[0], idb[1], idb[2], idb[3] = byte(id), byte(id>>8), byte(id>>16), byte(id>>24)
		bc.SeekStorage(id, nil, func(k, v []byte) bool {
			got[string(idb[:])+string(k)] = append([]byte{}, v...)
			return true
		})
	}
	n, ex := c02DiffDumps(got, want, nil)
	if n == 0 {
		return ""
	}
	return fmt.Sprintf("%d keys %v", n, ex)
}

// ---------------------------------------------------------------------------------------------
// abstraction of a recorded batch: which abstract keys it writes (compared with the model in Coq)

type c02Index struct {
	blk map[util.Uint256]uint32 // block hash -> index
	tx  map[util.Uint256]uint32 // tx hash -> index of its block
	ntx []int
}

func c02MakeIndex(b *c02Built) *c02Index {
	ix := &c02Index{blk: map[util.Uint256]uint32{}, tx: map[util.Uint256]uint32{}}
	for i, blk := range b.Blocks {
		ix.blk[blk.Hash()] = uint32(i)
		ix.ntx = append(ix.ntx, len(blk.Transactions))
		for _, t := range blk.Transactions {
			ix.tx[t.Hash()] = uint32(i)
		}
	}
	return ix
}

type c02Write struct {
	Key string // Coq term of the abstract key
	Val string // Coq term of option aval
}

// c02Abstract lists the abstract writes of a batch, sorted; several concrete keys of one class are merged
// (a put wins over a delete inside one class: the class is "touched with data").
func c02Abstract(ix *c02Index, b c02Batch) (ws []c02Write, unknown []string) {
	m := map[string]c02Write{}
	set := func(ord, key, val string, isPut bool) {
		if old, ok := m[ord]; ok && !isPut && old.Val != "None" {
			return
		}
		m[ord] = c02Write{Key: key, Val: val}
	}
	for _, mp := range []map[string][]byte{b.Mem, b.Stor} {
		for k, v := range mp {
			put := v != nil
			some := func(s string) string {
				if put {
					return "(Some " + s + ")"
				}
				return "None"
			}
			num := func(off int) uint32 {
				if put && len(v) >= off+4 {
					return c02U32(v[off : off+4])
				}
				return 0
			}
			switch storage.KeyPrefix(k[0]) {
			case storage.SYSVersion:
				p := "false"
				if put && c02VersionPrefix(v) == byte(storage.STTempStorage) {
					p = "true"
				}
				set("a0", "KVersion", some("(APrefix "+p+")"), put)
			case storage.SYSCurrentBlock:
				set("a1", "KCurBlock", some(fmt.Sprintf("(ANum %d)", num(32))), put)
			case storage.SYSCurrentHeader:
				set("a2", "KCurHeader", some(fmt.Sprintf("(ANum %d)", num(32))), put)
			case storage.SYSStateChangeStage:
				s := "None"
				if put {
					s = fmt.Sprintf("(Some (AStage %s %d))", coqBool(v[0]&0x80 != 0), v[0]&0x7f)
				}
				set("a3", "KStage", s, put)
			case storage.SYSStateSyncPoint:
				set("a4", "KSyncPoint", some(fmt.Sprintf("(ANum %d)", num(0))), put)
			case storage.SYSStateSyncCurrentBlockHeight:
				set("a5", "KSyncHeight", some(fmt.Sprintf("(ANum %d)", num(0))), put)
			case storage.SYSStateSyncCheckpoint:
				set("z0", "KAux", some("AAny"), put)
			case storage.DataExecutable:
				if len(k) < 33 {
					unknown = append(unknown, hx([]byte(k)))
					continue
				}
				if len(k) > 33 { // conflict signer record
					set("z0", "KAux", some("AAny"), put)
					continue
				}
				h, _ := util.Uint256DecodeBytesBE([]byte(k[1:33]))
				if i, ok := ix.blk[h]; ok {
					val := "None"
					if put {
						val = "(Some ABlk)"
						if c02HeaderOnly(v) {
							val = "(Some AHdr)"
						}
					}
					set(fmt.Sprintf("b%08d", i), fmt.Sprintf("(KExec %d)", i), val, put)
				} else if i, ok := ix.tx[h]; ok {
					set(fmt.Sprintf("c%08d", i), fmt.Sprintf("(KTxs %d)", i), some("AAny"), put)
				} else {
					unknown = append(unknown, "exec:"+h.StringLE())
				}
			case storage.DataMPT:
				set("e0", "(KMpt 0)", some("AAny"), put)
			case storage.DataMPTAux:
				if len(k) == 5 {
					i := uint32(k[1])<<24 | uint32(k[2])<<16 | uint32(k[3])<<8 | uint32(k[4])
					set(fmt.Sprintf("d%08d", i), fmt.Sprintf("(KRoot %d)", i), some("AAny"), put)
				} else {
					set("z0", "KAux", some("AAny"), put)
				}
			case storage.STStorage:
				set("g0", "(KState false)", some("AAny"), put)
			case storage.STTempStorage:
				set("g1", "(KState true)", some("AAny"), put)
			case storage.STNEP11Transfers, storage.STNEP17Transfers, storage.STTokenTransferInfo:
				set("h0", "(KXfer 0)", some("AAny"), put)
			case storage.IXHeaderHashList:
				set("z0", "KAux", some("AAny"), put)
			default:
				unknown = append(unknown, hx([]byte(k)))
			}
		}
	}
	ords := make([]string, 0, len(m))
	for o := range m {
		ords = append(ords, o)
	}
	sort.Strings(ords)
	for _, o := range ords {
		if m[o].Key == "KAux" { // auxiliary records (local height, validated height, conflict signers...) are not compared
			continue
		}
		ws = append(ws, m[o])
	}
	return
}

var c02srih bool // StateRootInHeader of the scenario being abstracted (header decoding depends on it)

// c02HeaderOnly tells a header-only executable record from a stored block (dao.storeHeader writes the
// header followed by a single zero byte; a block has its transaction hashes and execution results after it).
func c02HeaderOnly(v []byte) bool {
	r := nio.NewBinReaderFromBuf(v[1:])
	blk, err := block.NewTrimmedFromReader(c02srih, r)
	if err != nil {
		return false
	}
	return len(blk.Transactions) == 0 && r.Len() == 0
}

func c02CoqWrites(ws []c02Write) string {
	xs := make([]string, len(ws))
	for i, w := range ws {
		xs[i] = "(" + w.Key + ", " + w.Val + ")"
	}
	return coqList(xs)
}

func c02CoqBatches(ix *c02Index, bs []c02Batch, viol c02Viol) string {
	xs := make([]string, len(bs))
	for i, b := range bs {
		ws, unk := c02Abstract(ix, b)
		if len(unk) > 0 && viol != nil {
			viol("unknown-key", fmt.Sprintf("batch writes keys of no known class: %v", unk[:min(3, len(unk))]), i)
		}
		xs[i] = "(" + coqBool(b.Kind == "gc") + ", " + c02CoqWrites(ws) + ")"
	}
	return coqList(xs)
}

func c02CoqOps(ops []c02Op) string {
	xs := make([]string, 0, len(ops))
	for _, o := range ops {
		switch o.K {
		case "hdr":
			xs = append(xs, fmt.Sprintf("OHdr %d", o.N))
		case "blk":
			for j := 0; j < max(1, o.N); j++ {
				xs = append(xs, "OBlk")
			}
		case "flush":
			xs = append(xs, "OFlush")
		case "flushgc":
			xs = append(xs, "OFlushGC")
		}
	}
	return coqList(xs)
}

func c02CoqNtx(ix *c02Index) string {
	xs := make([]string, len(ix.ntx))
	for i, n := range ix.ntx {
		xs[i] = fmt.Sprint(n)
	}
	return coqList(xs)
}

func c02CoqRecov(rs []c02Recovered) string {
	xs := make([]string, len(rs))
	for i, r := range rs {
		switch r.Res {
		case "ok":
			xs[i] = fmt.Sprintf("ROk %d %d", r.Height, r.HdrH)
		case "broken":
			xs[i] = "RBroken"
		case "stuck":
			xs[i] = "RStuck"
		default:
			xs[i] = "RFail"
		}
	}
	return coqList(xs)
}

// ---------------------------------------------------------------------------------------------
// scenario: ordinary persistence (+ GC)

func c02RunPersist(co *caseOut, in c02Input) error { return c02RunPersistKind(co, in, "persist") }

func c02RunPersistKind(co *caseOut, in c02Input, kind string) error {
	c02srih = in.Cfg.SRIH
	b, err := c02Build(c02History{Cfg: in.Cfg, Blocks: in.Blocks})
	if err != nil {
		return err
	}
	defer b.close()
	ix := c02MakeIndex(b)
	viol := func(class, note string, k int) {
		vin := in
		vin.At = &k
		co.violation(kind, fmt.Sprintf("%s/%s: after batch %d: %s", kind, class, k, note), vin, map[string]any{"k": k, "class": class})
	}
	rec, base, done, fail := c02Drive(b, in)
	hits := c02LastHits
	if base != nil {
		defer base.destroy()
	}
	if fail != "" {
		viol("victim-run", c02Short(fail), -1)
		return nil
	}
	bs := rec.batches
	if kind == "inblock" {
		// every batch carries nothing or everything of a block
		for i, x := range bs {
			if why := c02Aligned(ix, x); why != "" {
				viol("torn-batch", why+" ("+c02Summary(x)+")", i+1)
			}
		}
	}
	// the base store must be exactly the replay of the recorded batches (nothing reaches the database otherwise)
	{
		st, _ := c02NewStore("mem")
		c02Apply(st.st, bs)
		if n, ex := c02DiffDumps(c02Dump(base.st), c02Dump(st.st), nil); n > 0 {
			viol("unrecorded-change", fmt.Sprintf("the database differs from the replay of all recorded batches in %d keys: %v", n, ex), len(bs))
		}
		st.destroy()
	}
	var recov []c02Recovered
	for k := 0; k <= len(bs); k++ {
		var acc uint32
		if k > 0 {
			acc = bs[k-1].Height
		}
		res := c02Recovered{K: k, Res: "ok"}
		st, err := c02NewStore(in.Cfg.Backend)
		if err != nil {
			return err
		}
		if err := c02Apply(st.st, bs[:k]); err != nil {
			st.destroy()
			return err
		}
		bc, _, fail := c02Open(c02NoClose{st.st}, in.Cfg, nil)
		if fail != "" {
			res.Res, res.Err = "fail", c02Short(fail)
			viol("reopen-fails", c02Short(fail), k)
		} else {
			go bc.Run()
			c02CheckNode(b, bc, st.st, in.Cfg, k, acc, -1, &res, viol)
			bc.Close()
		}
		st.destroy()
		recov = append(recov, res)
	}
	// durable states INSIDE a flush (a backend that applies a change set in several commits): each is a crash point
	c02ReportTorn(rec, viol, func(t c02TornFlush, vb c02Batch, vv c02Viol) {
		st, err := c02NewStore(in.Cfg.Backend)
		if err != nil {
			return
		}
		defer st.destroy()
		c02Apply(st.st, []c02Batch{vb})
		res := c02Recovered{K: t.NB, Res: "ok"}
		bc, _, fail := c02Open(c02NoClose{st.st}, in.Cfg, nil)
		if fail != "" {
			vv("reopen-fails", c02Short(fail), t.NB)
			return
		}
		go bc.Run()
		c02CheckNode(b, bc, st.st, in.Cfg, t.NB, t.Height, -1, &res, vv)
		bc.Close()
	})
	// non-triviality: a header-only batch, or a batch with several blocks, and at least three batches
	multi, hdronly := false, false
	prev := uint32(0)
	for _, x := range bs {
		if x.Kind == "put" {
			if x.Height > prev+1 {
				multi = true
			}
			if x.Height == prev && x.HdrH > x.Height {
				hdronly = true
			}
			prev = x.Height
		}
	}
	tag := fmt.Sprintf("%s%s/batches%d", in.Cfg.Backend, map[bool]string{true: "+gc", false: ""}[in.Cfg.GC], min(len(bs)/4*4, 16))
	term := fmt.Sprintf("CPersist %s %s %s %s %s", coqBool(in.Cfg.GC), c02CoqNtx(ix), c02CoqOps(done), c02CoqBatches(ix, bs, viol), c02CoqRecov(recov))
	if kind == "inblock" && c02LastIB != nil && len(c02LastIB.Snaps) > 0 {
		// virtual flushes: the content of the shared write cache before every single write to it
		var items []string
		steps := map[string]int{}
		for _, sn := range c02LastIB.Snaps {
			vb := c02Batch{Kind: "put", Mem: sn.Mem, Stor: sn.Stor, Height: sn.Height}
			steps[sn.At[:strings.IndexByte(sn.At, '/')]]++
			if why := c02Aligned(ix, vb); why != "" {
				viol("torn-cache", fmt.Sprintf("at %s a flush would write a batch that is not block-aligned: %s (%s)", sn.At, why, c02Summary(vb)), sn.NB)
			}
			ws, _ := c02Abstract(ix, vb)
			items = append(items, fmt.Sprintf("(%s, %s)", c02CoqOps(sn.Ops), c02CoqWrites(ws)))
			if len(sn.Mem)+len(sn.Stor) == 0 {
				continue
			}
			st, err := c02NewStore(in.Cfg.Backend)
			if err != nil {
				return err
			}
			c02Apply(st.st, bs[:sn.NB])
			c02Apply(st.st, []c02Batch{vb})
			res := c02Recovered{K: sn.NB, Res: "ok"}
			vv := func(class, note string, k int) { viol("virtual-flush-"+class, "a flush at "+sn.At+": "+note, k) }
			bc, _, fail := c02Open(c02NoClose{st.st}, in.Cfg, nil)
			if fail != "" {
				vv("reopen-fails", c02Short(fail), sn.NB)
			} else {
				go bc.Run()
				c02CheckNode(b, bc, st.st, in.Cfg, sn.NB, sn.Height, -1, &res, vv)
				bc.Close()
			}
			st.destroy()
		}
		maxSteps := 0
		for _, n := range steps {
			maxSteps = max(maxSteps, n)
		}
		co.add(kind, fmt.Sprintf("%s/cache-steps/blocks%d/max%d", in.Cfg.Backend, min(len(steps), 4), maxSteps), len(steps) > 0, in,
			map[string]any{"snapshots": len(c02LastIB.Snaps), "per_block": steps},
			fmt.Sprintf("CCache %s %s", c02CoqNtx(ix), coqList(items)))
	}
	if kind == "failflush" {
		f := c02LastFaults
		tag = fmt.Sprintf("%s%s/failed%d-during%d-between%d", in.Cfg.Backend, map[bool]string{true: "+kols", false: ""}[in.Cfg.KOLS], min(f.Failed, 6), min(f.During, 4), min(f.Between, 3))
		co.add(kind, tag, f.Failed > 0 && f.During+f.Between > 0 && len(bs) >= 3, in, map[string]any{"ops": done, "batches": len(bs), "faults": f, "recovered": recov}, term)
		return nil
	}
	if kind == "inblock" {
		tag = fmt.Sprintf("%s/P%d-W%d-M%d", in.Cfg.Backend, min(hits["P"], 3), min(hits["W"], 3), min(hits["M"], 3))
		co.add(kind, tag, hits["P"] > 0 && hits["W"] > 0 && hits["M"] > 0, in, map[string]any{"ops": done, "batches": len(bs), "in_block_flushes": hits, "recovered": recov}, term)
		return nil
	}
	co.add(kind, tag, len(bs) >= 3 && (multi || hdronly), in, map[string]any{"ops": done, "batches": len(bs), "recovered": recov}, term)
	return nil
}

// ---------------------------------------------------------------------------------------------
// scenario: Reset

func c02StageOf(b c02Batch) string {
	if v, ok := b.Mem[string([]byte{byte(storage.SYSStateChangeStage)})]; ok {
		if v == nil {
			return "del"
		}
		return fmt.Sprintf("%02x", v[0])
	}
	if b.Kind == "gc" {
		return "gc"
	}
	return "-"
}

// c02ResetPrefixes: every prefix of the reset's batches rb, on top of the pre-reset batches pre, is re-opened (which
// resumes the reset); the resumed reset must end in the database of the uninterrupted one, at the target, equal to
// the reference, and accept the remaining blocks.
func c02ResetPrefixes(b *c02Built, in c02Input, pre, rb []c02Batch, c0, target uint32, final map[string][]byte, viol c02Viol) ([]c02Recovered, error) {
	top := uint32(len(b.Blocks) - 1)
	var recov []c02Recovered
	for k := 0; k <= len(rb); k++ {
		res := c02Recovered{K: k, Res: "ok"}
		st, err := c02NewStore(in.Cfg.Backend)
		if err != nil {
			return nil, err
		}
		c02Apply(st.st, pre)
		c02Apply(st.st, rb[:k])
		bc2, _, fail := c02Open(c02NoClose{st.st}, in.Cfg, nil)
		if fail != "" {
			res.Res, res.Err = "fail", c02Short(fail)
			viol("reopen-fails", c02Short(fail), k)
		} else {
			go bc2.Run()
			want := int(target)
			if k == 0 || len(rb) == 0 {
				want = int(c0)
			}
			if k > 0 {
				if _, err := bc2.VerifPersist(); err != nil {
					viol("flush", err.Error(), k)
				}
				n, ex := c02DiffDumps(c02NormDump(c02Dump(st.st)), final, nil)
				res.Same = n == 0
				if n > 0 {
					viol("resumed-db-differs", fmt.Sprintf("the resumed reset ends in a database that differs from the uninterrupted reset's in %d keys: %v", n, ex), k)
				}
			}
			c02CheckNode(b, bc2, st.st, in.Cfg, k, top, want, &res, viol)
			bc2.Close()
		}
		st.destroy()
		recov = append(recov, res)
	}
	return recov, nil
}

func c02RunReset(co *caseOut, in c02Input) error {
	c02srih = in.Cfg.SRIH
	b, err := c02Build(c02History{Cfg: in.Cfg, Blocks: in.Blocks})
	if err != nil {
		return err
	}
	defer b.close()
	ix := c02MakeIndex(b)
	kind := "reset"
	var stages []string
	viol := func(class, note string, k int) {
		vin := in
		vin.At = &k
		stage := "?"
		if k >= 1 && k-1 < len(stages) {
			stage = stages[k-1]
		} else if k == 0 {
			stage = "none"
		}
		co.violation(kind, fmt.Sprintf("%s/%s stage=%s: after batch %d of the reset: %s", kind, class, stage, k, note), vin, map[string]any{"k": k, "class": class, "stage": stage})
	}
	rec, base, _, fail := c02Drive(b, in)
	if base != nil {
		defer base.destroy()
	}
	if fail != "" {
		viol("victim-run", c02Short(fail), -1)
		return nil
	}
	n0 := len(rec.batches)
	// a fresh, non-running node on the same database performs the reset
	bc, _, f := c02Open(rec, in.Cfg, nil)
	if f != "" {
		viol("open-for-reset", c02Short(f), 0)
		return nil
	}
	c0, hh0 := bc.BlockHeight(), bc.HeaderHeight()
	target := in.Reset
	if target > c0 {
		target = c0
	}
	rec.node = func() (uint32, uint32) { return bc.BlockHeight(), bc.HeaderHeight() }
	rec.slowRead = 300 * time.Microsecond
	var rerr error
	m := c02Try(func() { rerr = bc.Reset(target) })
	rec.slowRead = 0
	if m != "" || rerr != nil {
		viol("reset-fails", c02Short(fmt.Sprint(m, rerr)), 0)
		return nil
	}
	rb := rec.batches[n0:]
	for _, x := range rb {
		stages = append(stages, c02StageOf(x))
	}
	final := c02NormDump(c02Dump(base.st))
	// reset_indistinguishable (as far as it goes): everything but trie nodes equals the reference that only
	// ever synchronised to the target; trie nodes of the removed blocks stay behind (unreachable garbage).
	if len(rb) > 0 {
		ref := c02NormDump(b.Snaps[target].Dump)
		n, ex := c02DiffDumps(final, ref, func(k string, va, vb []byte) bool {
			return k[0] == byte(storage.DataMPT) && vb == nil // extra trie nodes only
		})
		if n > 0 {
			viol("not-indistinguishable", fmt.Sprintf("after Reset(%d) the database differs from a node that only synchronised to %d in %d keys (trie garbage aside): %v", target, target, n, ex), len(rb))
		}
	}
	c02ReportTorn(rec, viol, nil)
	recov, err := c02ResetPrefixes(b, in, rec.batches[:n0], rb, c0, target, final, viol)
	if err != nil {
		return err
	}
	keep := false // does the stale-block batch re-store headers (the code with the F20 repair)?
	for i, x := range rb {
		if stages[i] == "88" {
			ws, _ := c02Abstract(ix, x)
			for _, w := range ws {
				if strings.HasPrefix(w.Key, "(KExec") && w.Val == "(Some AHdr)" {
					keep = true
				}
			}
		}
	}
	pfx := c02VersionPrefix(b.Snaps[0].Dump[string([]byte{byte(storage.SYSVersion)})]) == byte(storage.STTempStorage)
	initOK := true // no re-opened node had an unusable state root module (the code with the F21 repair)
	for _, r := range recov {
		if r.Res == "broken" {
			initOK = false
		}
	}
	term := fmt.Sprintf("CReset %s %s %s %d %d %d %s %s %s", coqBool(keep), coqBool(initOK), c02CoqNtx(ix), c0, hh0, target, coqBool(pfx), c02CoqBatches(ix, rb, viol), c02CoqRecov(recov))
	tag := fmt.Sprintf("%s/batches%d/%s", in.Cfg.Backend, len(rb), map[bool]string{true: "hdr-ahead", false: "hdr-at-tip"}[hh0 > c0])
	co.add(kind, tag, len(rb) >= 7 && target < c0, in, map[string]any{"c": c0, "hh": hh0, "target": target, "stages": stages, "recovered": recov}, term)
	return nil
}

// ---------------------------------------------------------------------------------------------
// scenario: state synchronisation + jump

func c02RunJump(co *caseOut, in c02Input) error {
	c02srih = true
	srcCfg := c02Cfg{SRIH: true, Backend: "mem", P2PSX: true}
	b, err := c02Build(c02History{Cfg: srcCfg, Blocks: in.Blocks})
	if err != nil {
		return err
	}
	defer b.close()
	ix := c02MakeIndex(b)
	kind := "jump"
	var stages []string
	viol := func(class, note string, k int) {
		vin := in
		vin.At = &k
		stage := "?"
		if k >= 1 && k-1 < len(stages) {
			stage = stages[k-1]
		} else if k == 0 {
			stage = "none"
		}
		next := "end"
		if k >= 0 && k < len(stages) {
			next = stages[k]
		}
		co.violation(kind, fmt.Sprintf("%s/%s stage=%s: after batch %d (next=%s): %s", kind, class, stage, k, next, note), vin, map[string]any{"k": k, "class": class, "stage": stage, "next": next})
	}
	src, err := c02NewSyncSrc(b)
	if err != nil {
		return err
	}
	if src.top <= src.p || src.p < 2*c02MTB+2 {
		return nil // the chain is too short for a state jump: nothing to check
	}
	cfg := in.Cfg
	cfg.SRIH, cfg.P2PSX, cfg.GC = true, true, true
	cfg.Trusted = src.p - 2*c02MTB + 2
	trust := func(c *config.Blockchain) {
		c.TrustedHeader = config.HashIndex{Hash: b.Blocks[cfg.Trusted].Hash(), Index: cfg.Trusted}
	}
	base, err := c02NewStore(cfg.Backend)
	if err != nil {
		return err
	}
	defer base.destroy()
	rec := &c02Rec{base: base.st}
	bc, _, fail := c02Open(rec, cfg, trust)
	if fail != "" {
		viol("victim-open", c02Short(fail), -1)
		return nil
	}
	rec.node = func() (uint32, uint32) { return bc.BlockHeight(), bc.HeaderHeight() }
	go bc.Run()
	flushAt := map[int]bool{}
	for _, o := range in.Ops {
		if o.K == "flush" {
			flushAt[o.N] = true
		}
	}
	nb := in.NodeBat
	if nb <= 0 {
		nb = 4
	}
	stopRace := make(chan struct{})
	raceDone := make(chan struct{})
	if in.Cfg.Race {
		go func() {
			defer close(raceDone)
			for {
				select {
				case <-stopRace:
					return
				default:
				}
				bc.VerifPersist()
				runtime.Gosched()
			}
		}()
	} else {
		close(raceDone)
	}
	var gate *c02Gate
	if in.Cfg.Race && in.Cfg.Slow {
		gate = c02NewGate(nil)
		rec.gate = gate
	}
	var snaps []c02CacheSnap
	if in.Cfg.Step {
		L := bc.VerifWriteCache()
		src.wrapBlock = func(i uint32, add func() error) error {
			return c02StepCache(bc, fmt.Sprintf("synchronised block %d", i), add, func(k int, at string) {
				mem, stor := L.VerifPendingChanges()
				rec.mu.Lock()
				nbat := len(rec.batches)
				rec.mu.Unlock()
				snaps = append(snaps, c02CacheSnap{Mem: mem, Stor: stor, NB: nbat, Height: bc.BlockHeight(), At: fmt.Sprintf("b%d/%s", i, at)})
			})
		}
	}
	var derr error
	m := c02Try(func() {
		derr = src.drive(bc, nb, func(step int) error {
			if flushAt[step] {
				_, err := bc.VerifPersist()
				return err
			}
			return nil
		})
	})
	if gate != nil {
		gate.close()
		if gate.err != "" {
			return fmt.Errorf("%s", gate.err)
		}
	}
	close(stopRace)
	<-raceDone
	if m != "" || derr != nil {
		bc.Close()
		viol("victim-sync", c02Short(fmt.Sprint(m, derr)), -1)
		return nil
	}
	if bc.BlockHeight() != src.p {
		bc.Close()
		viol("victim-sync", fmt.Sprintf("after synchronisation the node is at %d, state sync point is %d", bc.BlockHeight(), src.p), -1)
		return nil
	}
	nJump := len(rec.batches)
	for i := src.p + 1; i <= src.top; i++ {
		if err := bc.AddBlock(b.Blocks[i]); err != nil {
			viol("victim-after-jump", fmt.Sprintf("block %d after the jump: %v", i, err), nJump)
			break
		}
	}
	bc.Close()
	bs := rec.batches
	for _, x := range bs {
		stages = append(stages, c02StageOf(x))
	}
	src.wrapBlock = nil
	checkAt := func(k int, batches []c02Batch, vv c02Viol) (c02Recovered, error) {
		res := c02Recovered{K: k, Res: "ok"}
		st, err := c02NewStore(cfg.Backend)
		if err != nil {
			return res, err
		}
		c02Apply(st.st, batches)
		bc2, _, fail := c02Open(c02NoClose{st.st}, cfg, trust)
		if fail != "" {
			res.Res, res.Err = "fail", c02Short(fail)
			vv("reopen-fails", c02Short(fail), k)
		} else {
			go bc2.Run()
			h0 := bc2.BlockHeight()
			var derr error
			m := c02Try(func() { derr = src.drive(bc2, 3, nil) })
			switch {
			case m != "" || derr != nil:
				res.Res = "broken"
				vv("resumed-sync-fails", c02Short(fmt.Sprint(m, derr)), k)
			case bc2.BlockHeight() < src.p:
				// the module declared itself done although the chain is below the sync point
				res.Res, res.Height = "stuck", bc2.BlockHeight()
				vv("stuck-below-sync-point", fmt.Sprintf("reopened at %d; the synchronisation module is inactive but the node is at height %d, below the state sync point %d, and cannot process blocks", h0, bc2.BlockHeight(), src.p), k)
			default:
				c02CheckNode(b, bc2, st.st, cfg, k, src.top, -1, &res, vv)
			}
			bc2.Close()
		}
		st.destroy()
		return res, nil
	}
	var recov []c02Recovered
	for k := 0; k <= len(bs); k++ {
		res, err := checkAt(k, bs[:k], viol)
		if err != nil {
			return err
		}
		recov = append(recov, res)
	}
	c02ReportTorn(rec, viol, func(t c02TornFlush, vb c02Batch, vv c02Viol) { checkAt(t.NB, []c02Batch{vb}, vv) })
	// virtual flushes: the content of the shared write cache before every single write of the stepped additions
	vbad := 0
	for _, sn := range snaps {
		if len(sn.Mem)+len(sn.Stor) == 0 {
			continue
		}
		vb := c02Batch{Kind: "put", Mem: sn.Mem, Stor: sn.Stor, Height: sn.Height}
		sn := sn
		vv := func(class, note string, k int) {
			vbad++
			viol("virtual-flush-"+class, fmt.Sprintf("a flush at %s (%s): %s", sn.At, c02Summary(vb), note), k)
		}
		if _, err := checkAt(sn.NB, append(append([]c02Batch{}, bs[:sn.NB]...), vb), vv); err != nil {
			return err
		}
	}
	// only the jump's own batches are compared with the stage machine of the model
	j0 := len(bs)
	for i, s := range stages {
		if s == "02" {
			j0 = i
			break
		}
	}
	j1 := j0
	for j1 < len(bs) && stages[j1] != "-" {
		j1++
	}
	jor := true // does a restart right before the jump perform it (the code with the F22 repair)?
	for _, r := range recov {
		if r.Res == "stuck" {
			jor = false
		}
	}
	term := fmt.Sprintf("CJump %s %d %d %d %s %s", coqBool(jor), src.p, src.top, c02MTB, c02CoqBatches(ix, bs[j0:j1], viol), c02CoqRecov(recov[j0:min(j1+1, len(recov))]))
	tag := fmt.Sprintf("%s/batches%d", cfg.Backend, min(len(bs)/8*8, 40))
	if in.Cfg.Step {
		tag += fmt.Sprintf("/stepped%d", min(len(snaps)/10*10, 50))
	}
	co.add(kind, tag, j1-j0 >= 4, in, map[string]any{"p": src.p, "top": src.top, "stages": stages, "recovered": recov, "virtual_flushes": len(snaps), "virtual_flush_violations": vbad}, term)
	return nil
}

// ---------------------------------------------------------------------------------------------
// generation

func c02GenOps(r *rng, nblocks int, gc bool, hdrAhead int) []c02Op {
	var ops []c02Op
	for i := 0; i < nblocks; i++ {
		if r.chance(30) {
			ops = append(ops, c02Op{K: "hdr", N: 1 + r.intn(3)})
		}
		if r.chance(8) {
			ops = append(ops, c02Op{K: "flush"}) // header-only batch
		}
		ops = append(ops, c02Op{K: "blk"})
		if r.chance(45) {
			if gc {
				ops = append(ops, c02Op{K: "flushgc"})
			} else {
				ops = append(ops, c02Op{K: "flush"})
			}
		}
	}
	if hdrAhead > 0 {
		ops = append(ops, c02Op{K: "hdr", N: hdrAhead})
	}
	return ops
}

// c02GenFailFlush: blocks whose writes overlap in both maps of the write cache (the same balances, total supply and
// fee settings, the tip pointers and, with KeepOnlyLatestState, reference-counted trie nodes that are removed and
// re-created; whole NEO balances moved away and back: storage items deleted and re-created, in both orders around the
// failing flush), a failing flush every few blocks with 0-3 blocks stored while it hangs, then flushes that succeed
func c02GenFailFlush(r *rng, i int) c02Input {
	cfg := c02Cfg{SRIH: r.bool(), Backend: []string{"mem", "mem", "leveldb", "bolt"}[i%4], KOLS: i%3 == 1}
	nb := 10 + r.intn(5)
	h := c02History{Cfg: cfg}
	for b := 0; b < nb; b++ {
		var txs []c02Tx
		if b == 0 {
			for a := 0; a < c02NAcc; a++ {
				txs = append(txs, c02Tx{K: "gas", From: -1, To: a, Amt: 2000_0000_0000})
			}
			txs = append(txs, c02Tx{K: "neo", From: -1, To: 0, Amt: 1000}, c02Tx{K: "neo", From: -1, To: 1, Amt: 500})
		} else {
			txs = append(txs, c02Tx{K: "gas", From: b % 2, To: 2, Amt: int64(1 + r.intn(1000))}) // the same keys in every block
			if r.chance(60) {
				txs = append(txs, c02Tx{K: "neoall", From: r.intn(2), To: 2 + r.intn(2)}) // deletes and re-creates items
			}
			if r.chance(30) {
				txs = append(txs, c02Tx{K: "fee", From: -1, Amt: int64(1000 + r.intn(200))})
			}
			if r.chance(20) {
				txs = append(txs, c02Tx{K: "abort", From: r.intn(c02NAcc)})
			}
		}
		h.Blocks = append(h.Blocks, txs)
	}
	var ops []c02Op
	for b := 0; b < nb; {
		k := 1 + r.intn(2) // blocks before the failing flush (in its batch)
		ops = append(ops, c02Op{K: "blk", N: k})
		b += k
		if r.chance(25) {
			ops = append(ops, c02Op{K: "hdr", N: 1 + r.intn(2)})
		}
		f := c02Op{K: "fail", N: 1 + r.intn(3), B: r.bool()}
		if r.chance(75) {
			f.D = 1 + r.intn(3)
		}
		ops = append(ops, f)
		b += f.D + f.N
		if r.chance(70) {
			ops = append(ops, c02Op{K: "flush"}) // the successful flush right after
		} else {
			ops = append(ops, c02Op{K: "blk", N: 1}, c02Op{K: "flush"})
			b++
		}
	}
	return c02Input{Cfg: cfg, Blocks: h.Blocks, Ops: ops}
}

// c02GenInBlock: every block is added with a generated set of in-block flushes; between blocks sometimes nothing is
// flushed (so that the back-pressure wait has something to wait for), sometimes headers run ahead
func c02GenInBlock(r *rng, i int) c02Input {
	backends := []string{"mem", "leveldb", "bolt"}
	cfg := c02Cfg{SRIH: r.bool(), Backend: backends[i%3]}
	nb := 7 + r.intn(4)
	h := c02GenHistory(r, cfg, nb)
	var ops []c02Op
	for j := 0; j < nb; j++ {
		if r.chance(20) {
			ops = append(ops, c02Op{K: "hdr", N: 1 + r.intn(2)})
		}
		in := ""
		for _, p := range []string{"P", "W", "M"} {
			if r.chance(55) {
				in += p
			}
		}
		if j < 4 { // the first blocks cover every single placement
			in = []string{"P", "W", "M", "S"}[j]
		} else if r.chance(30) {
			in = "S"
		}
		if in == "" {
			in = "PWM"
		}
		if strings.Contains(in, "W") && !strings.Contains(in, "P") && j > 0 && r.chance(70) {
			// leave the previous block in the write cache: plain block, no flush
			ops = append(ops, c02Op{K: "blk"})
			j++
		}
		ops = append(ops, c02Op{K: "blk", In: in})
		if r.chance(25) {
			ops = append(ops, c02Op{K: "flush"})
		}
	}
	return c02Input{Cfg: cfg, Blocks: h.Blocks, Ops: ops}
}

func c02Gen(r *rng, i int) (string, c02Input) {
	backends := []string{"mem", "leveldb", "bolt"}
	switch i % 4 {
	case 0: // archival, ordinary persistence
		cfg := c02Cfg{SRIH: r.bool(), Backend: backends[(i/4)%3]}
		nb := 8 + r.intn(6)
		h := c02GenHistory(r, cfg, nb)
		return "persist", c02Input{Cfg: cfg, Blocks: h.Blocks, Ops: c02GenOps(r, nb, false, 0)}
	case 1: // reset
		cfg := c02Cfg{SRIH: r.bool(), Backend: backends[(i/4+1)%3]}
		nb := 8 + r.intn(5)
		h := c02GenHistory(r, cfg, nb)
		ahead := 0
		nadd := nb
		if r.chance(50) {
			ahead = 1 + r.intn(2)
			nadd = nb - ahead
		}
		return "reset", c02Input{Cfg: cfg, Blocks: h.Blocks, Ops: c02GenOps(r, nadd, false, ahead), Reset: uint32(1 + r.intn(nadd-1))}
	case 2: // light node: GC batches between block batches
		cfg := c02Cfg{SRIH: r.bool(), Backend: backends[(i/4+2)%3], GC: true}
		nb := 18 + r.intn(8)
		h := c02GenHistory(r, cfg, nb)
		return "persist", c02Input{Cfg: cfg, Blocks: h.Blocks, Ops: c02GenOps(r, nb, true, 0)}
	default: // state synchronisation and jump
		cfg := c02Cfg{Backend: backends[(i/4)%3], KOLS: r.bool()}
		nb := 21 + r.intn(3)
		h := c02GenHistory(r, c02Cfg{SRIH: true, P2PSX: true}, nb)
		var ops []c02Op
		for s := 1; s < 60; s++ {
			if r.chance(40) {
				ops = append(ops, c02Op{K: "flush", N: s})
			}
		}
		return "jump", c02Input{Cfg: cfg, Blocks: h.Blocks, Ops: ops, NodeBat: 1 + r.intn(8)}
	}
}

func c02RunCase(co *caseOut, kind string, in c02Input) error {
	switch kind {
	case "persist":
		return c02RunPersist(co, in)
	case "reset":
		return c02RunReset(co, in)
	case "jump":
		return c02RunJump(co, in)
	case "longgc":
		return c02RunLongGC(co, in)
	case "storagesync":
		return c02RunStorageSync(co, in)
	case "resetord":
		return c02RunResetOrd(co, in)
	case "inblock":
		return c02RunPersistKind(co, in, "inblock")
	case "failflush":
		return c02RunPersistKind(co, in, "failflush")
	}
	return fmt.Errorf("unknown case kind %q", kind)
}

func runC02(args []string) error {
	cf, fs := parseCommon("c02", args)
	only := fs.String("only", "", "debugging: run only the fixed families of this kind (longgc|jump|storagesync|resetord|inblock|gen)")
	fs.Parse(args)
	want := func(k string) bool { return *only == "" || *only == k }
	core.VerifSetPersistInterval(time.Hour) // every flush is requested by the harness
	co := newCaseOut(cf.out, "Harness.C02", "N",
		"one case = one generated block history (native transfers, fee changes, faulting scripts; with/without StateRootInHeader; memory/LevelDB/BoltDB) "+
			"run on a node whose store records every atomic batch; EVERY prefix of the batch sequence is re-opened and compared with a reference replica "+
			"(kinds: persist = block processing incl. header-only and GC batches, reset = every boundary inside Reset, jump = every boundary of state synchronisation and state jump); "+
			"non-trivial: persist - at least 3 batches and a header-only batch or a batch carrying several blocks; reset - all seven stage batches observed separately and at least one block removed; jump - all four jump stages observed")
	co.shard = 8
	if cf.replay != "" {
		cases, err := readReplay(cf.replay)
		if err != nil {
			return err
		}
		for _, c := range cases {
			var x struct {
				Kind  string   `json:"kind"`
				Input c02Input `json:"input"`
			}
			var kk struct {
				Kind  string       `json:"kind"`
				Input c02BackendIn `json:"input"`
			}
			var lr struct {
				Kind  string         `json:"kind"`
				Input c02LongResetIn `json:"input"`
			}
			if json.Unmarshal(c, &lr) == nil && lr.Kind == "longreset" {
				if err := c02RunLongReset(co, lr.Input); err != nil {
					return err
				}
				continue
			}
			if json.Unmarshal(c, &kk) == nil && kk.Kind == "backend" {
				if err := c02RunBackend(co, kk.Input); err != nil {
					return err
				}
				continue
			}
			if err := json.Unmarshal(c, &x); err != nil {
				return err
			}
			if err := c02RunCase(co, x.Kind, x.Input); err != nil {
				return err
			}
		}
		co.extra["x_crash_points"] = c02CrashPoints
		return co.finish()
	}
	r := newRng(cf.seed)
	// one long chain: beyond one page of header hashes (quick), beyond two (thorough)
	if want("longgc") {
		n := c02PS + 14
		if cf.tier == "thorough" {
			n = 2*c02PS + 16
		}
		if err := c02RunCase(co, "longgc", c02GenLong(r, n)); err != nil {
			return fmt.Errorf("long chain: %w", err)
		}
	}
	// state synchronisation with a second goroutine flushing continuously: batch boundaries fall between
	// the single Puts of one AddMPTNodes call (H1); not reproducible boundary by boundary, so several runs
	if want("jump") {
		races := 2
		if cf.tier == "thorough" {
			races = 20
		}
		for i := 0; i < races; i++ {
			_, in := c02Gen(r, 3)
			in.Cfg.Race = true
			in.Cfg.Slow = i%2 == 1 // every other run on a slow store
			in.NodeBat = 200
			in.Ops = nil
			if err := c02RunCase(co, "jump", in); err != nil {
				return fmt.Errorf("racing synchronisation %d: %w", i, err)
			}
		}
		// ... and with the shared write cache stepped: a virtual flush before every single write of every
		// synchronised block, the state jump included (deterministic: the content of the cache is read under its lock)
		steps := 1
		if cf.tier == "thorough" {
			steps = 4
		}
		for i := 0; i < steps; i++ {
			_, in := c02Gen(r, 3)
			in.Cfg.Step = true
			in.Ops = nil
			if err := c02RunCase(co, "jump", in); err != nil {
				return fmt.Errorf("stepped synchronisation %d: %w", i, err)
			}
		}
	}
	// contract-storage-based synchronisation (NeoFS mode): ModeLatest and ModeGC light nodes, item batches cut at
	// random sizes, extra flushes between deliveries; and the same with the racing flusher
	if want("storagesync") {
		det, races := 2, 2
		if cf.tier == "thorough" {
			det, races = 12, 12
		}
		for i := 0; i < det+races; i++ {
			if err := c02RunCase(co, "storagesync", c02GenStorageSync(r, i, i >= det)); err != nil {
				return fmt.Errorf("storage synchronisation %d: %w", i, err)
			}
		}
	}
	// Reset on a slow store: every admissible order of the helper goroutine's batches and Reset's direct store
	// operations, every prefix of every order
	if want("resetord") {
		n := 1
		if cf.tier == "thorough" {
			n = 6
		}
		for i := 0; i < n; i++ {
			if err := c02RunCase(co, "resetord", c02GenResetOrd(r)); err != nil {
				return fmt.Errorf("reset on a slow store %d: %w", i, err)
			}
		}
	}
	// a flush INSIDE a block addition: at storeBlock's lock, in its back-pressure wait, after the merge
	if want("inblock") {
		n := 2
		if cf.tier == "thorough" {
			n = 12
		}
		for i := 0; i < n; i++ {
			if err := c02RunCase(co, "inblock", c02GenInBlock(r, i)); err != nil {
				return fmt.Errorf("flush inside a block addition %d: %w", i, err)
			}
		}
	}
	// Reset at the header-hash page boundaries of a long chain
	if want("longreset") {
		if err := c02RunLongReset(co, c02GenLongReset(r, cf.tier == "thorough")); err != nil {
			return fmt.Errorf("reset of a long chain: %w", err)
		}
	}
	// a flush that FAILS (1-3 times, 0-3 blocks stored while it hangs), then flushes that succeed: every durable prefix
	if want("failflush") {
		n := 4
		if cf.tier == "thorough" {
			n = 24
		}
		for i := 0; i < n; i++ {
			if err := c02RunCase(co, "failflush", c02GenFailFlush(r, i)); err != nil {
				return fmt.Errorf("failing flush %d: %w", i, err)
			}
		}
	}
	// ONE change set inside the persistent backend: every durable state while PutChangeSet runs, the error path
	if want("backend") {
		for _, in := range c02GenBackend(r, cf.tier == "thorough") {
			if err := c02RunBackend(co, in); err != nil {
				return fmt.Errorf("backend %s: %w", in.Backend, err)
			}
		}
	}
	for i := 0; i < cf.n && want("gen"); i++ {
		kind, in := c02Gen(r, i)
		if err := c02RunCase(co, kind, in); err != nil {
			return fmt.Errorf("case %d (%s): %w", i, kind, err)
		}
	}
	co.extra["x_crash_points"] = c02CrashPoints
	co.extra["x_observed_backend_flushes"] = c02ObservedFlushes
	if c02InfraErr != nil {
		return c02InfraErr
	}
	return co.finish()
}

func c02Summary(b c02Batch) string {
	cnt := map[string]int{}
	for _, m := range []map[string][]byte{b.Mem, b.Stor} {
		for k, v := range m {
			c := c02Class(k, v)
			if v == nil {
				c = "-" + c02Class(k, []byte{0, 0, 0, 0, 0, 0})
			}
			cnt[c]++
		}
	}
	j, _ := json.Marshal(cnt)
	return b.Kind + " stage=" + c02StageOf(b) + " " + string(j)
}
