package main

// C14 — execution back-ends of the compiler check: the real compiler + the real VM on one side, the
// standard Go toolchain on the other, and a canonical, type-directed rendering of results so that the
// two can be compared.

import (
	"bytes"
	"context"
	"encoding/hex"
	"encoding/json"
	"fmt"
	"math/big"
	"os"
	"os/exec"
	"path/filepath"
	"runtime/debug"
	"sort"
	"strings"
	"sync"
	"time"

	"github.com/nspcc-dev/neo-go/pkg/compiler"
	"github.com/nspcc-dev/neo-go/pkg/smartcontract/callflag"
	"github.com/nspcc-dev/neo-go/pkg/vm"
	"github.com/nspcc-dev/neo-go/pkg/vm/opcode"
	"github.com/nspcc-dev/neo-go/pkg/vm/stackitem"
)

// c14InlinePath is the module path of generated helper packages; pkg/compiler inlines every function
// of a package whose path starts with ".../pkg/compiler/testdata/inline" (analysis.go: canInline).
const c14InlinePath = "github.com/nspcc-dev/neo-go/pkg/compiler/testdata/inline/c14h"

// c14Val is an argument value of an entry function.
type c14Val struct {
	T string  `json:"t"`           // int | bool | string | []int | []byte
	I int64   `json:"i,omitempty"` // int
	B bool    `json:"b,omitempty"` // bool
	S string  `json:"s,omitempty"` // string, []byte (raw bytes as Go string)
	L []int64 `json:"l,omitempty"` // []int
}

func (v c14Val) goLit() string {
	switch v.T {
	case "int":
		return fmt.Sprintf("%d", v.I)
	case "bool":
		return fmt.Sprintf("%v", v.B)
	case "string":
		return fmt.Sprintf("%q", v.S)
	case "[]byte":
		return fmt.Sprintf("[]byte(%q)", v.S)
	case "[]int":
		xs := make([]string, len(v.L))
		for i, x := range v.L {
			xs[i] = fmt.Sprintf("%d", x)
		}
		return "[]int{" + strings.Join(xs, ", ") + "}"
	}
	panic("c14Val: type " + v.T)
}

func (v c14Val) item() stackitem.Item {
	switch v.T {
	case "int":
		return stackitem.NewBigInteger(big.NewInt(v.I))
	case "bool":
		return stackitem.NewBool(v.B)
	case "string":
		return stackitem.NewByteArray([]byte(v.S))
	case "[]byte":
		return stackitem.NewBuffer([]byte(v.S))
	case "[]int":
		xs := make([]stackitem.Item, len(v.L))
		for i, x := range v.L {
			xs[i] = stackitem.NewBigInteger(big.NewInt(x))
		}
		return stackitem.NewArray(xs)
	}
	panic("c14Val: type " + v.T)
}

// c14Func describes an entry function: exported, at most one result.
type c14Func struct {
	Name   string   `json:"name"`
	Params []string `json:"params"` // parameter types
	Ret    string   `json:"ret"`    // result type in Go syntax ("" = none)
}

// c14Unit is one generated program: a main package plus optional inlined-helper packages.
type c14Unit struct {
	Pkg     string            `json:"pkg"`               // package name, also directory name
	Src     string            `json:"src"`               // the main package (one file)
	Helpers map[string]string `json:"helpers,omitempty"` // helper package name -> source
	Funcs   []c14Func         `json:"funcs"`
}

// ---------- canonical results ----------
//
// Rendering is directed by the *Go* result type so that representation choices the dialect leaves open
// do not count: string and []byte compare by their bytes (ByteString vs Buffer), a struct compares
// with the array of its fields, pointer-to-struct likewise, nil and empty slices/maps compare equal,
// maps compare as key-sorted lists.  Integers and booleans must be Integer and Boolean items.
// The Go side renders with the same grammar from reflection (see c14GoPrelude).

func c14CanonItem(it stackitem.Item, typ string, structs map[string][]string) string {
	if strings.HasPrefix(typ, "*") {
		if _, ok := it.(stackitem.Null); ok {
			return "null"
		}
	}
	typ = strings.TrimPrefix(typ, "*")
	switch {
	case typ == "int":
		if it.Type() != stackitem.IntegerT {
			return "!" + it.Type().String() + ":" + c14Raw(it)
		}
		bi, _ := it.TryInteger()
		return bi.String()
	case typ == "bool":
		if it.Type() != stackitem.BooleanT {
			return "!" + it.Type().String() + ":" + c14Raw(it)
		}
		b, _ := it.TryBool()
		return fmt.Sprintf("%v", b)
	case typ == "string" || typ == "[]byte":
		if _, ok := it.(stackitem.Null); ok && typ == "[]byte" {
			return `"x"`
		}
		if it.Type() != stackitem.ByteArrayT && it.Type() != stackitem.BufferT {
			return "!" + it.Type().String() + ":" + c14Raw(it)
		}
		b, _ := it.TryBytes()
		return `"x` + hex.EncodeToString(b) + `"`
	case strings.HasPrefix(typ, "[]") || (strings.HasPrefix(typ, "[") && !strings.HasPrefix(typ, "[]")):
		elem := typ[strings.Index(typ, "]")+1:]
		if _, ok := it.(stackitem.Null); ok {
			return "[]"
		}
		arr, ok := it.Value().([]stackitem.Item)
		if !ok {
			if elem == "byte" { // [N]byte is a Buffer
				b, err := it.TryBytes()
				if err == nil {
					return `"x` + hex.EncodeToString(b) + `"`
				}
			}
			return "!" + it.Type().String() + ":" + c14Raw(it)
		}
		xs := make([]string, len(arr))
		for i := range arr {
			xs[i] = c14CanonItem(arr[i], elem, structs)
		}
		return "[" + strings.Join(xs, ",") + "]"
	case strings.HasPrefix(typ, "map["):
		kt := typ[4:strings.Index(typ, "]")]
		vt := typ[strings.Index(typ, "]")+1:]
		if _, ok := it.(stackitem.Null); ok {
			return "{}"
		}
		m, ok := it.(*stackitem.Map)
		if !ok {
			return "!" + it.Type().String() + ":" + c14Raw(it)
		}
		var kv []string
		for _, e := range m.Value().([]stackitem.MapElement) {
			kv = append(kv, c14CanonItem(e.Key, kt, structs)+":"+c14CanonItem(e.Value, vt, structs))
		}
		sort.Strings(kv)
		return "{" + strings.Join(kv, ",") + "}"
	default:
		fields, ok := structs[typ]
		if !ok {
			return "?" + typ
		}
		arr, ok := it.Value().([]stackitem.Item)
		if !ok || len(arr) != len(fields) {
			return "!" + it.Type().String() + ":" + c14Raw(it)
		}
		xs := make([]string, len(arr))
		for i := range arr {
			xs[i] = c14CanonItem(arr[i], fields[i], structs)
		}
		return "[" + strings.Join(xs, ",") + "]"
	}
}

func c14Raw(it stackitem.Item) string {
	b, err := stackitem.ToJSONWithTypes(it)
	if err != nil {
		return err.Error()
	}
	return string(b)
}

// ---------- the real compiler and the real VM ----------

type c14Compiled struct {
	script  []byte
	di      *compiler.DebugInfo
	offsets map[string]int // method ID -> offset
	initOff int
}

// c14Compile runs the real compiler on the package directory dir.
func c14Compile(dir string) (cc *c14Compiled, err error) {
	defer func() {
		if r := recover(); r != nil {
			err = fmt.Errorf("compiler panic: %v\n%s", r, debug.Stack())
		}
	}()
	nf, di, e := compiler.CompileWithOptions(dir, nil, nil)
	if e != nil {
		return nil, e
	}
	cc = &c14Compiled{script: nf.Script, di: di, offsets: map[string]int{}, initOff: -1}
	for i := range di.Methods {
		m := &di.Methods[i]
		if m.ID == "_initialize" {
			cc.initOff = int(m.Range.Start)
		}
		if m.IsFunction && m.Name.Namespace == di.MainPkg {
			cc.offsets[m.ID] = int(m.Range.Start)
		}
	}
	return cc, nil
}

// generated programs stay far below this many VM instructions per call; after a few runaway calls (a
// miscompiled loop) the limit drops so that a broken compiler does not stall the check
var c14StepLimit int64 = 3_000_000
var c14MaxSteps int64
var c14Runaway int

// instructions executed by the last c14RunVM (the harness is single-threaded on the VM side)
var c14LastSteps int64

// c14RunVM invokes the method at offset off the way the node does (arguments on the stack, first on
// top; _initialize called first when present). Returns the result stack or the fault message.
func c14RunVM(cc *c14Compiled, off int, args []c14Val) (stack []stackitem.Item, fault string) {
	defer func() {
		if r := recover(); r != nil {
			fault = fmt.Sprintf("GO PANIC ESCAPED THE VM: %v", r)
		}
	}()
	v := vm.New()
	steps := int64(0)
	limit := c14StepLimit
	v.SetPriceGetter(func(op opcode.Opcode, p []byte) int64 {
		if steps++; steps > limit {
			panic("c14 step limit") // recovered by VM.execute: the run ends in a fault
		}
		return 0
	})
	v.SetGasLimit(-1)
	v.LoadScriptWithFlags(cc.script, callflag.All)
	for i := len(args) - 1; i >= 0; i-- {
		v.Estack().PushItem(args[i].item())
	}
	v.Context().Jump(off)
	if cc.initOff >= 0 {
		v.Call(cc.initOff)
	}
	err := v.Run()
	c14LastSteps = steps
	if steps > c14MaxSteps && err == nil {
		c14MaxSteps = steps
	}
	if err != nil {
		msg := err.Error()
		if steps > limit {
			msg = "STEP LIMIT: " + msg
			if c14Runaway++; c14Runaway == 4 {
				c14StepLimit = 100_000
			}
		}
		return nil, msg
	}
	n := v.Estack().Len()
	for i := 0; i < n; i++ {
		stack = append(stack, v.Estack().Peek(i).Item())
	}
	return stack, ""
}

// c14VMResult renders the outcome of one call: "F" for a fault, otherwise the canonical value
// (or "V" for a function without result); anything else on the stack is reported.
func c14VMResult(cc *c14Compiled, f c14Func, args []c14Val, structs map[string][]string) (res string, detail string) {
	off, ok := cc.offsets[f.Name]
	if !ok {
		return "!no-method", ""
	}
	st, fault := c14RunVM(cc, off, args)
	if strings.HasPrefix(fault, "STEP LIMIT") && c14Runaway <= 2 {
		// a rare long run of a correct program, or a miscompiled loop: give it ten times the steps once
		saved := c14StepLimit
		c14StepLimit *= 10
		st, fault = c14RunVM(cc, off, args)
		c14StepLimit = saved
	}
	if fault != "" {
		if strings.HasPrefix(fault, "GO PANIC") || strings.HasPrefix(fault, "STEP LIMIT") {
			return "!" + fault, fault
		}
		return "F", fault
	}
	want := 1
	if f.Ret == "" {
		want = 0
	}
	if len(st) != want {
		xs := []string{}
		for _, it := range st {
			xs = append(xs, c14Raw(it))
		}
		return fmt.Sprintf("!stack-depth-%d:%s", len(st), strings.Join(xs, ",")), ""
	}
	if want == 0 {
		return "V", ""
	}
	return c14CanonItem(st[0], f.Ret, structs), ""
}

// ---------- the Go toolchain ----------

// the reflection-based printer linked into the generated main program
const c14GoPrelude = `
func canon(v reflect.Value) string {
	switch v.Kind() {
	case reflect.Int, reflect.Int64:
		return strconv.FormatInt(v.Int(), 10)
	case reflect.Bool:
		return strconv.FormatBool(v.Bool())
	case reflect.String:
		return "\"x" + hex.EncodeToString([]byte(v.String())) + "\""
	case reflect.Slice, reflect.Array:
		if v.Type().Elem().Kind() == reflect.Uint8 {
			b := make([]byte, v.Len())
			for i := range b {
				b[i] = byte(v.Index(i).Uint())
			}
			return "\"x" + hex.EncodeToString(b) + "\""
		}
		xs := make([]string, v.Len())
		for i := range xs {
			xs[i] = canon(v.Index(i))
		}
		return "[" + strings.Join(xs, ",") + "]"
	case reflect.Map:
		var kv []string
		it := v.MapRange()
		for it.Next() {
			kv = append(kv, canon(it.Key())+":"+canon(it.Value()))
		}
		sort.Strings(kv)
		return "{" + strings.Join(kv, ",") + "}"
	case reflect.Ptr:
		if v.IsNil() {
			return "null"
		}
		return canon(v.Elem())
	case reflect.Struct:
		xs := make([]string, v.NumField())
		for i := range xs {
			xs[i] = canon(v.Field(i))
		}
		return "[" + strings.Join(xs, ",") + "]"
	}
	return "?" + v.Kind().String()
}

func emit(i int, f func() string) {
	defer func() {
		if r := recover(); r != nil {
			fmt.Printf("%d F\n", i)
		}
	}()
	fmt.Printf("%d %s\n", i, f())
}
`

type c14GoCall struct {
	Unit int
	Fn   c14Func
	Args []c14Val
}

type c14Workspace struct {
	dir string
	bin string
}

// c14WriteWorkspace lays the units out as a Go workspace:
//
//	go.mod (module c14gen, replace <inline path> => ./inl)   inl/go.mod   inl/<helper>/<helper>.go
//	<pkg>/<pkg>.go     (read by the real compiler and by go build)
//	main.go            (calls of the entry functions; one process per call)
func c14WriteWorkspace(dir string, units []c14Unit, calls []c14GoCall) (*c14Workspace, error) {
	os.RemoveAll(dir)
	if err := os.MkdirAll(filepath.Join(dir, "inl"), 0o755); err != nil {
		return nil, err
	}
	w := func(rel, s string) error {
		p := filepath.Join(dir, rel)
		os.MkdirAll(filepath.Dir(p), 0o755)
		return os.WriteFile(p, []byte(s), 0o644)
	}
	if err := w("go.mod", "module c14gen\n\ngo 1.22\n\nrequire "+c14InlinePath+" v0.0.0\n\nreplace "+c14InlinePath+" => ./inl\n"); err != nil {
		return nil, err
	}
	w("inl/go.mod", "module "+c14InlinePath+"\n\ngo 1.22\n")
	w("inl/doc.go", "package c14h\n")
	var main strings.Builder
	main.WriteString("package main\n\nimport (\n\t\"encoding/hex\"\n\t\"fmt\"\n\t\"os\"\n\t\"reflect\"\n\t\"sort\"\n\t\"strconv\"\n\t\"strings\"\n")
	for _, u := range units {
		if err := w(u.Pkg+"/"+u.Pkg+".go", u.Src); err != nil {
			return nil, err
		}
		for h, src := range u.Helpers {
			w("inl/"+h+"/"+h+".go", src)
		}
		fmt.Fprintf(&main, "\t%q\n", "c14gen/"+u.Pkg)
	}
	main.WriteString(")\n\nvar _ = sort.Strings\nvar _ = strings.Join\nvar _ = hex.EncodeToString\n" + c14GoPrelude)
	main.WriteString("\nfunc main() {\n\tfor _, a := range os.Args[1:] {\n\t\ti, _ := strconv.Atoi(a)\n\t\tswitch i {\n")
	for i, c := range calls {
		as := make([]string, len(c.Args))
		for j, a := range c.Args {
			as[j] = a.goLit()
		}
		call := fmt.Sprintf("%s.%s(%s)", units[c.Unit].Pkg, c.Fn.Name, strings.Join(as, ", "))
		if c.Fn.Ret == "" {
			fmt.Fprintf(&main, "\t\tcase %d:\n\t\t\temit(%d, func() string { %s; return \"V\" })\n", i, i, call)
		} else {
			fmt.Fprintf(&main, "\t\tcase %d:\n\t\t\temit(%d, func() string { return canon(reflect.ValueOf(%s)) })\n", i, i, call)
		}
	}
	main.WriteString("\t\t}\n\t}\n}\n")
	if len(units) == 0 {
		return nil, fmt.Errorf("no units")
	}
	if err := w("main.go", main.String()); err != nil {
		return nil, err
	}
	return &c14Workspace{dir: dir, bin: filepath.Join(dir, "c14bin")}, nil
}

func c14GoEnv() []string {
	var env []string
	for _, e := range os.Environ() {
		if strings.HasPrefix(e, "GOFLAGS=") || strings.HasPrefix(e, "GOPROXY=") || strings.HasPrefix(e, "GOTOOLCHAIN=") ||
			strings.HasPrefix(e, "GOSUMDB=") || strings.HasPrefix(e, "GOWORK=") {
			continue
		}
		env = append(env, e)
	}
	return append(env, "GOFLAGS=-mod=mod", "GOPROXY=off", "GOWORK=off")
}

// build compiles the workspace with the standard toolchain (optimisations on, as `go run` does).
func (w *c14Workspace) build() error {
	cmd := exec.Command("go", "build", "-o", w.bin, ".")
	cmd.Dir = w.dir
	cmd.Env = c14GoEnv()
	out, err := cmd.CombinedOutput()
	if err != nil {
		return fmt.Errorf("go build: %v\n%s", err, out)
	}
	return nil
}

// run executes every call in a process of its own (package initialisation happens afresh, as it does
// for every invocation of a contract) and returns the rendered results by call index.
func (w *c14Workspace) run(n int) ([]string, error) {
	res := make([]string, n)
	var wg sync.WaitGroup
	var mu sync.Mutex
	var firstErr error
	sem := make(chan struct{}, 8)
	for i := 0; i < n; i++ {
		wg.Add(1)
		sem <- struct{}{}
		go func(i int) {
			defer wg.Done()
			defer func() { <-sem }()
			ctx, cancel := context.WithTimeout(context.Background(), 20*time.Second)
			defer cancel()
			cmd := exec.CommandContext(ctx, w.bin, fmt.Sprint(i))
			var out, errb bytes.Buffer
			cmd.Stdout, cmd.Stderr = &out, &errb
			err := cmd.Run()
			if ctx.Err() != nil {
				mu.Lock()
				if firstErr == nil {
					firstErr = fmt.Errorf("call %d does not terminate under the Go toolchain (generator defect)", i)
				}
				mu.Unlock()
				return
			}
			line := strings.TrimSpace(out.String())
			pre := fmt.Sprintf("%d ", i)
			if strings.HasPrefix(line, pre) && !strings.Contains(line, "\n") {
				res[i] = strings.TrimPrefix(line, pre)
				return
			}
			// a failure not caught by recover (fatal error, os.Exit in init, ...) is still a failure of the call
			if err != nil {
				res[i] = "F"
				return
			}
			mu.Lock()
			if firstErr == nil {
				firstErr = fmt.Errorf("call %d: unexpected output %q %q", i, line, errb.String())
			}
			mu.Unlock()
		}(i)
	}
	wg.Wait()
	return res, firstErr
}

func c14JSON(v any) string {
	b, _ := json.Marshal(v)
	return string(b)
}
