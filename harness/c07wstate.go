package main

import (
	"fmt"
	"strings"

	"github.com/nspcc-dev/neo-go/pkg/config"
	"github.com/nspcc-dev/neo-go/pkg/core/native/nativenames"
	"github.com/nspcc-dev/neo-go/pkg/core/state"
	"github.com/nspcc-dev/neo-go/pkg/core/transaction"
	"github.com/nspcc-dev/neo-go/pkg/crypto/hash"
	"github.com/nspcc-dev/neo-go/pkg/io"
	"github.com/nspcc-dev/neo-go/pkg/neotest"
	"github.com/nspcc-dev/neo-go/pkg/smartcontract"
	"github.com/nspcc-dev/neo-go/pkg/smartcontract/callflag"
	"github.com/nspcc-dev/neo-go/pkg/smartcontract/manifest"
	"github.com/nspcc-dev/neo-go/pkg/smartcontract/nef"
	"github.com/nspcc-dev/neo-go/pkg/util"
	"github.com/nspcc-dev/neo-go/pkg/vm/emit"
	"github.com/nspcc-dev/neo-go/pkg/vm/opcode"
)

// wstate: witnesses whose outcome depends on the chain state. A transaction of a funded sender S carries a second
// signer whose witness is a non-standard verification script (or a deployed contract's verify method):
//   lt        Ledger.currentIndex < N           true -> false when the chain reaches N
//   ge        Ledger.currentIndex >= N          false -> true
//   bal       GAS.balanceOf(X) < v              true -> false when a block pays v to X
//   ctl       PUSHT                             stays true (control)
//   contract  deployed contract, verify() = Ledger.currentIndex < N
// It is submitted (again after every block while it is not pooled), blocks are accepted; after every step:
// is it pooled; every pooled transaction's witnesses must verify against the current state (VerifyWitness on this
// node, VerifyTx on the replica, which never pooled it); finally the pool is packed and sent to the replica.

type c07WsIn struct {
	Seed   uint64 `json:"seed"`
	Kind   string `json:"kind"`
	Off    int    `json:"off"`    // N = height at submission + Off (lt, ge, contract); bal: the paying block is the Off-th
	Blocks int    `json:"blocks"` // blocks accepted after the first submission
}

func c07GenWs(r *rng) c07WsIn {
	return c07WsIn{Seed: r.next(), Kind: pick(r, []string{"lt", "lt", "ge", "bal", "ctl", "contract", "contract"}),
		Off: 1 + r.intn(3), Blocks: 1 + r.intn(4)}
}

func c07IndexScript(ledger util.Uint160, n uint32, op opcode.Opcode) []byte {
	w := io.NewBufBinWriter()
	emit.AppCall(w.BinWriter, ledger, "currentIndex", callflag.ReadStates)
	emit.Int(w.BinWriter, int64(n))
	emit.Opcodes(w.BinWriter, op)
	return w.Bytes()
}

func c07RunWs(co *caseOut, in c07WsIn) {
	r := newRng(in.Seed)
	c := c07NewChain(c07Cfg{})
	defer c.close()
	t := c.t
	S := c07MakeAcct(r, 0, 0)
	X := c07MakeAcct(r, 0, 0) // receiver for the balance flip
	c.fund(1000_0000_0000, S)
	ledger := c.e.NativeHash(t, nativenames.Ledger)
	fpb := c.bc.FeePerByte()
	maxgas := c.bc.GetMaxVerificationGAS()
	off := uint32(max(in.Off, 1))
	const payV = 5_0000_0000

	var wHash util.Uint160
	var wScript []byte
	kindCode := 1
	// deployed contract first (costs a block)
	if in.Kind == "contract" {
		config.Version = "0.0.0"
		n := c.bc.BlockHeight() + 1 + off // +1: the deployment block
		body := append(c07IndexScript(ledger, n, opcode.LT), byte(opcode.RET))
		ne, err := nef.NewFile(body)
		if err != nil {
			panic(err)
		}
		m := manifest.NewManifest("c07-verify")
		m.ABI.Methods = []manifest.Method{{Name: manifest.MethodVerify, Offset: 0, ReturnType: smartcontract.BoolType, Safe: true}}
		m.Permissions = []manifest.Permission{*manifest.NewPermission(manifest.PermissionWildcard)}
		h := state.CreateContractHash(c.val.ScriptHash(), ne.Checksum, m.Name)
		c.addBlock(c.e.NewDeployTx(t, &neotest.Contract{Hash: h, NEF: ne, Manifest: m}, nil))
		wHash, kindCode = h, 2
	}
	h0 := c.bc.BlockHeight()
	N := h0 + off
	switch in.Kind {
	case "lt":
		wScript = c07IndexScript(ledger, N, opcode.LT)
	case "ge":
		wScript = c07IndexScript(ledger, N, opcode.GE)
	case "ctl":
		wScript = []byte{byte(opcode.PUSHT)}
	case "bal":
		w := io.NewBufBinWriter()
		emit.AppCall(w.BinWriter, c.gas, "balanceOf", callflag.ReadStates, X.hash())
		emit.Int(w.BinWriter, payV)
		emit.Opcodes(w.BinWriter, opcode.LT)
		wScript = w.Bytes()
	case "contract":
	default:
		panic(c07Fail{"unknown witness kind " + in.Kind})
	}
	if in.Kind != "contract" {
		wHash = hash.Hash160(wScript)
	}
	// truth of the state-dependent witness at a given height / after the paying block
	paid := false
	truth := func() bool {
		cur := c.bc.BlockHeight()
		switch in.Kind {
		case "lt", "contract":
			return cur < N
		case "ge":
			return cur >= N
		case "bal":
			return !paid
		}
		return true
	}
	// the transaction: S pays and signs, the script account co-signs with an empty invocation script
	vub := h0 + uint32(in.Blocks) + 3
	mk := func(nf int64) *transaction.Transaction {
		tx := transaction.New(c07PushOne, 100_0000)
		tx.Nonce = 7_000_000 + uint32(in.Seed%1000)
		tx.ValidUntilBlock = vub
		tx.NetworkFee = nf
		tx.Signers = []transaction.Signer{{Account: S.hash(), Scopes: transaction.CalledByEntry}, {Account: wHash, Scopes: transaction.None}}
		if err := S.signer.SignTx(c.bc.GetConfig().Magic, tx); err != nil {
			panic(err)
		}
		tx.Scripts = append(tx.Scripts, transaction.Witness{InvocationScript: []byte{}, VerificationScript: wScript})
		return tx
	}
	probe := mk(0)
	T := mk(int64(io.GetVarSize(probe))*fpb + 2000_0000) // ample for the call into a native contract
	mp := c.bc.GetMemPool()

	heights := []string{fmt.Sprint(c.bc.BlockHeight())}
	tableStd := []string{"true"}
	tableW := []string{coqBool(truth())}
	var ops []string
	var steps []map[string]any
	diag := ""
	observe := func(what string, isBlock bool) {
		pooled := mp.ContainsKey(T.Hash())
		ops = append(ops, fmt.Sprintf("(%s,%s)", coqBool(isBlock), coqBool(pooled)))
		steps = append(steps, map[string]any{"op": what, "height": c.bc.BlockHeight(), "witness_true": truth(), "pooled": pooled})
		if diag != "" {
			return
		}
		// every pooled transaction's witnesses verify against the current state
		for _, tx := range mp.GetVerifiedTransactions() {
			for i := range tx.Signers {
				w := tx.Scripts[i]
				if _, err := c.bc.VerifyWitness(tx.Signers[i].Account, tx, &w, maxgas); err != nil {
					diag = fmt.Sprintf("after %s at height %d a pooled transaction's witness #%d no longer verifies: %v", what, c.bc.BlockHeight(), i, err)
					return
				}
			}
			if err := c.replica.VerifyTx(tx); err != nil {
				diag = fmt.Sprintf("after %s at height %d a pooled transaction is refused by a node that never pooled it: %v", what, c.bc.BlockHeight(), err)
				return
			}
		}
		if pooled != (truth() && c.bc.BlockHeight() < vub) && !isBlock {
			diag = fmt.Sprintf("submitted at height %d with the witness %v: pooled=%v", c.bc.BlockHeight(), truth(), pooled)
		}
	}
	submit := func() {
		if mp.ContainsKey(T.Hash()) {
			return
		}
		_ = c.bc.PoolTx(T)
		observe("submit", false)
	}
	submit()
	for k := 1; k <= in.Blocks && diag == ""; k++ {
		if in.Kind == "bal" && k == int(off) {
			c.addBlock(c.e.NewTx(t, []neotest.Signer{c.val}, c.gas, "transfer", c.val.ScriptHash(), X.hash(), payV, nil))
			paid = true
		} else {
			c.addBlock()
		}
		heights = append(heights, fmt.Sprint(c.bc.BlockHeight()))
		tableStd = append(tableStd, "true")
		tableW = append(tableW, coqBool(truth()))
		observe(fmt.Sprintf("block %d", k), true)
		if diag == "" {
			submit()
		}
	}
	impl := map[string]any{"steps": steps, "kind": in.Kind, "threshold": N}
	if diag != "" {
		impl["diag"] = diag
	}
	tag := in.Kind
	flipped := false
	for _, x := range tableW {
		flipped = flipped || x != tableW[0]
	}
	if flipped {
		tag += "/flips"
	}
	co.add("wstate", tag, flipped, in, impl,
		fmt.Sprintf("CRefresh %d [%s] [(0,[%s]);(%d,[%s])] [%s]", vub, strings.Join(heights, ";"), strings.Join(tableStd, ";"),
			kindCode, strings.Join(tableW, ";"), strings.Join(ops, ";")))
	if diag != "" {
		co.violation("wstate", diag, in, impl)
		return
	}
	// the pool packed and sent the way peers receive it
	pool := mp.GetVerifiedTransactions()
	sel := c.bc.ApplyPolicyToTxSet(pool)
	b := c.e.NewUnsignedBlock(t, sel...)
	c.e.SignBlock(b)
	if err := c.relay(b); err != nil {
		co.violation("wstate", "the block packed from the pool, serialised and parsed again, is refused by the replica: "+err.Error(), in, impl)
		return
	}
	if err := c.bc.AddBlock(b); err != nil {
		co.violation("wstate", "the block packed from the pool is refused by the node that packed it: "+err.Error(), in, impl)
	}
}
