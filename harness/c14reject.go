package main

// C14 — programs Go rejects. A composite literal with a duplicate index (written, or reached by an unkeyed element
// that continues from the previous one, or through constant expressions), an index outside the array, a negative or
// non-constant index, a duplicate constant map key, a duplicate / unknown / half-keyed struct field is a compile-time
// error in Go. The compiler must reject such a program too (an error, not a panic and not a script), and must
// compile the accepted twin of each. Oracle: go/types on the same source (the programs import nothing).

import (
	"fmt"
	"go/ast"
	"go/parser"
	"go/token"
	"go/types"
	"os"
	"path/filepath"
	"strings"
)

type c14RejectInput struct {
	Pkg  string `json:"pkg"`
	Src  string `json:"src"`
	Note string `json:"note"`
}

type c14RejectImpl struct {
	Go       string `json:"go"`       // "accepted" or "rejected: ..."
	Compiler string `json:"compiler"` // "accepted", "rejected: ...", "panic: ..."
}

const c14RejectHdr = `package %s

type T struct {
	p, q int
}

type S struct {
	a  int
	b  bool
	s  string
	xs []int
	in T
}

const (
	K0 = iota
	K1
	K2
	K3
)
const KN = 6

func Main(a int) int {
	x := %s
	_ = x
	return a
}
`

// literal, does Go accept it, what it is
var c14RejectPool = []struct {
	lit  string
	ok   bool
	note string
}{
	{"[]int{1: 1, 1: 2}", false, "duplicate index"},
	{"[]int{1: 1, 2: 2}", true, ""},
	{"[]int{0: 1, 2, 1: 3}", false, "duplicate index reached by an unkeyed element"},
	{"[]int{0: 1, 2, 3: 3}", true, ""},
	{"[]int{4: 40, 50, 1: 7, 8, 9, 10}", false, "unkeyed elements run into a keyed one"},
	{"[]int{4: 40, 50, 1: 7, 8, 9}", true, ""},
	{"[2]int{2: 1}", false, "index out of array bounds"},
	{"[3]int{2: 1}", true, ""},
	{"[3]int{1, 2, 3, 4}", false, "more elements than the array holds"},
	{"[3]int{1: 2, 3, 4}", false, "unkeyed element beyond the array"},
	{"[4]int{1: 2, 3, 4}", true, ""},
	{"[]int{-1: 2}", false, "negative index"},
	{"[]int{a: 1}", false, "index is not a constant"},
	{"[]int{K3: 1, K1 + K2: 2}", false, "duplicate index through constant expressions"},
	{"[]int{K3: 1, K1 + K1: 2}", true, ""},
	{"[...]string{KN - 1: \"a\", 5: \"b\"}", false, "duplicate index through constant expressions"},
	{"[...]string{2: \"b\", 0: \"a\"}", true, ""},
	{"[2]byte{5: 1}", false, "index out of array bounds (bytes)"},
	{"[]byte{3: 9, 0: 1, 2}", true, ""},
	{"[]byte{3: 9, 0: 1, 2, 3, 4}", false, "duplicate index reached by an unkeyed element (bytes)"},
	{"map[int]int{1: 2, 1: 3}", false, "duplicate constant map key"},
	{"map[int]int{K1: 2, 1: 3}", false, "duplicate constant map key through a constant"},
	{"map[int]int{2: 2, 1: 3}", true, ""},
	{"map[string]int{\"a\": 2, \"a\": 3}", false, "duplicate constant map key"},
	{"S{a: 1, a: 2}", false, "duplicate field"},
	{"S{s: \"x\", a: 1}", true, ""},
	{"S{a: 1, true}", false, "keyed and unkeyed fields mixed"},
	{"S{zz: 1}", false, "unknown field"},
	{"[]S{1: {a: 1}, 1: {b: true}}", false, "duplicate index, elided element type"},
	{"[]S{1: {a: 1}, 0: {b: true}}", true, ""},
	{"[][]int{1: {2: 5, 2: 6}}", false, "duplicate index in a nested literal"},
	{"[][]int{1: {2: 5, 1: 6}, {7}}", true, ""},
}

func c14GoAccepts(src string) error {
	fset := token.NewFileSet()
	f, err := parser.ParseFile(fset, "main.go", src, 0)
	if err != nil {
		return err
	}
	conf := types.Config{}
	_, err = conf.Check("p", fset, []*ast.File{f}, nil)
	return err
}

func c14RejectRun(co *caseOut, dir string, in c14RejectInput) error {
	d := filepath.Join(dir, in.Pkg)
	if err := os.MkdirAll(d, 0o755); err != nil {
		return err
	}
	if err := os.WriteFile(filepath.Join(d, "main.go"), []byte(in.Src), 0o644); err != nil {
		return err
	}
	if err := os.WriteFile(filepath.Join(dir, "go.mod"), []byte("module c14rej\n\ngo 1.22\n"), 0o644); err != nil {
		return err
	}
	impl := c14RejectImpl{Go: "accepted", Compiler: "accepted"}
	g, v := 0, 0
	if err := c14GoAccepts(in.Src); err != nil {
		impl.Go, g = "rejected: "+firstLine(err.Error()), 1
	}
	if _, err := c14Compile(d); err != nil {
		v = 1
		impl.Compiler = "rejected: " + firstLine(err.Error())
		if strings.HasPrefix(err.Error(), "compiler panic") {
			v = 2
			impl.Compiler = firstLine(err.Error())
		}
	}
	tag := "accepted"
	if g == 1 {
		tag = "rejected"
	}
	co.add("reject", tag, true, in, impl, fmt.Sprintf("CObs %d %d", g, v))
	return nil
}

func c14RejectGenerate(co *caseOut, cf *commonFlags, r *rng, work string) error {
	n := min(len(c14RejectPool), max(5, cf.n/80))
	if os.Getenv("C14_REJECT_ALL") != "" { // development: the whole pool
		n = len(c14RejectPool)
	}
	perm := make([]int, len(c14RejectPool))
	for i := range perm {
		perm[i] = i
	}
	for i := len(perm) - 1; i > 0; i-- {
		j := r.intn(i + 1)
		perm[i], perm[j] = perm[j], perm[i]
	}
	for k, pi := range perm[:n] {
		c := c14RejectPool[pi]
		pkg := fmt.Sprintf("rj%d", k)
		in := c14RejectInput{Pkg: pkg, Src: fmt.Sprintf(c14RejectHdr, pkg, c.lit), Note: c.note}
		if err := c14RejectRun(co, filepath.Join(work, "reject"), in); err != nil {
			return err
		}
	}
	return nil
}
