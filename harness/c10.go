package main

// C10 — the state trie is a canonical authenticated map.
// Every case is an operation history on the real mpt.Trie (Put/Delete/PutBatch/Flush/Collapse/reopen
// from the store) followed by ONE observation (StateRoot, Get, Find, TrieStore.Seek, GetProof,
// VerifyProof).  The history is re-executed for every case, so a case replays from its JSON input alone.

import (
	"bytes"
	"crypto/sha256"
	"encoding/json"
	"errors"
	"fmt"
	"os"
	"os/exec"
	"runtime/debug"
	"sort"
	"strings"
	"time"

	"github.com/nspcc-dev/neo-go/pkg/core/mpt"
	"github.com/nspcc-dev/neo-go/pkg/core/storage"
	"github.com/nspcc-dev/neo-go/pkg/crypto/hash"
	nio "github.com/nspcc-dev/neo-go/pkg/io"
	"github.com/nspcc-dev/neo-go/pkg/util"
)

func init() {
	register("c10", runC10)
	register("c10vp", runC10vp)
}

type c10KV struct {
	K string  `json:"k"`
	V *string `json:"v"` // nil = deletion
}

type c10Op struct {
	Op string  `json:"op"` // put del batch flush collapse reopen get getall proofall proof
	K  string  `json:"k,omitempty"`
	V  string  `json:"v,omitempty"`
	KV []c10KV `json:"kv,omitempty"`
	D  int     `json:"d,omitempty"`
}

type c10Query struct {
	K         string   `json:"k,omitempty"`
	Prefix    string   `json:"prefix,omitempty"`
	Start     string   `json:"start,omitempty"`
	Backwards bool     `json:"backwards,omitempty"`
	FromNil   bool     `json:"from_nil,omitempty"`
	Max       int      `json:"max,omitempty"`
	VK        string   `json:"vk,omitempty"`      // verify: the key asked for (proof is taken for K)
	RootIdx   int      `json:"rootidx,omitempty"` // verify: root after that many ops; <= 0 or > len(ops): final root
	Tamper    string   `json:"tamper,omitempty"`
	I         int      `json:"i,omitempty"`
	J         int      `json:"j,omitempty"`
	Bytes     string   `json:"bytes,omitempty"`
	Root      string   `json:"root,omitempty"`   // verify_raw
	Proofs    []string `json:"proofs,omitempty"` // verify_raw
	Msg       string   `json:"msg,omitempty"`    // sha256
}

type c10Input struct {
	Mode int      `json:"mode"`
	Ops  []c10Op  `json:"ops"`
	Q    c10Query `json:"q"`
}

type c10State struct {
	st      *storage.MemCachedStore
	tr      *mpt.Trie
	mode    mpt.TrieMode
	content map[string][]byte
	errs    []bool
	roots   [][]byte
	idx     uint32
	// set when a read made while executing the history disagreed with the content
	readNote string
	// recount the stored reference counters after every Flush (reference-counting modes)
	recount bool
	rcNote  string
}

func c10Root(tr *mpt.Trie) []byte { return tr.StateRoot().BytesBE() }

// c10Scribble flips every byte of a slice the harness owns after the call: a result handed out by the trie, or an
// argument buffer (keys, proof lists) the trie has no business keeping.  Nothing observable may change.
func c10Scribble(bs ...[]byte) {
	for _, b := range bs {
		for i := range b {
			b[i] ^= 0xFF
		}
	}
}

func c10Fresh(content map[string][]byte, reverse bool) []byte {
	st := storage.NewMemCachedStore(storage.NewMemoryStore())
	tr := mpt.NewTrie(nil, mpt.ModeAll, st)
	keys := make([]string, 0, len(content))
	for k := range content {
		keys = append(keys, k)
	}
	sort.Strings(keys)
	if reverse {
		for i, j := 0, len(keys)-1; i < j; i, j = i+1, j-1 {
			keys[i], keys[j] = keys[j], keys[i]
		}
	}
	for _, k := range keys {
		if err := tr.Put([]byte(k), content[k]); err != nil {
			panic("fresh trie: " + err.Error())
		}
	}
	return c10Root(tr)
}

func (s *c10State) flush() {
	s.tr.Flush(s.idx)
	s.idx++
	if s.recount && s.mode.RC() && s.rcNote == "" {
		s.rcNote = s.recountRefs()
	}
}

// recountRefs: an independent walk from the current root over the RAW store records (no Trie involved): in the
// reference-counting modes the stored counter of every node must equal the number of its occurrences in the
// trie, every occurring node must be stored and active, and (ModeLatest) nothing else may be stored.
func (s *c10State) recountRefs() string {
	occ := map[util.Uint256]int{}
	note := ""
	var walk func(h util.Uint256)
	walk = func(h util.Uint256) {
		if note != "" {
			return
		}
		occ[h]++
		if occ[h] > 1 {
			// the sub-trie below was counted once per occurrence already through the first visit's multiplicity
		}
		data, err := s.st.Get(append([]byte{byte(storage.DataMPT)}, h[:]...))
		if err != nil || len(data) < 6 {
			note = fmt.Sprintf("node %s occurs in the trie but has no record in the store", h.StringBE())
			return
		}
		var n mpt.NodeObject
		r := nio.NewBinReaderFromBuf(data[:len(data)-5])
		n.DecodeBinary(r)
		if r.Err != nil {
			note = fmt.Sprintf("record of node %s does not decode: %v", h.StringBE(), r.Err)
			return
		}
		for ch, paths := range mpt.GetChildrenPaths(nil, n.Node) {
			for range paths {
				walk(ch)
			}
		}
	}
	if root := s.tr.StateRoot(); !root.Equals(util.Uint256{}) {
		walk(root)
	}
	if note != "" {
		return note
	}
	seen := map[util.Uint256]bool{}
	s.st.Seek(storage.SeekRange{Prefix: []byte{byte(storage.DataMPT)}}, func(k, v []byte) bool {
		h, err := util.Uint256DecodeBytesBE(k[1:])
		if err != nil || len(v) < 6 {
			note = fmt.Sprintf("malformed record %x", k)
			return false
		}
		seen[h] = true
		active := v[len(v)-5] == 1
		cnt := int(uint32(v[len(v)-4]) | uint32(v[len(v)-3])<<8 | uint32(v[len(v)-2])<<16 | uint32(v[len(v)-1])<<24)
		want := occ[h]
		switch {
		case want > 0 && !active:
			note = fmt.Sprintf("node %s occurs %d time(s) in the trie but its record is inactive", h.StringBE(), want)
		case want > 0 && cnt != want:
			note = fmt.Sprintf("node %s occurs %d time(s) in the trie but its stored counter is %d", h.StringBE(), want, cnt)
		case want == 0 && active:
			note = fmt.Sprintf("node %s does not occur in the trie but its record is active (counter %d)", h.StringBE(), cnt)
		}
		return note == ""
	})
	return note
}

// c10Exec runs the history; the returned string is a non-empty note when the direct specification check
// (root == root of a fresh trie built from the content) fails somewhere.
func c10Exec(in c10Input, checkFresh bool) (*c10State, string) {
	s := &c10State{mode: mpt.TrieMode(in.Mode), content: map[string][]byte{}, recount: checkFresh}
	s.st = storage.NewMemCachedStore(storage.NewMemoryStore())
	s.tr = mpt.NewTrie(nil, s.mode, s.st)
	note, rnote := "", ""
	fresh := func(where string) {
		if !checkFresh || note != "" {
			return
		}
		got := c10Root(s.tr)
		for _, rev := range []bool{false, true} {
			if want := c10Fresh(s.content, rev); !bytes.Equal(got, want) {
				note = fmt.Sprintf("root after the history (%s) differs from the root of a fresh trie built from the final content: %x vs %x", where, got, want)
			}
		}
	}
	for i, o := range in.Ops {
		failed := false
		switch o.Op {
		case "put":
			k, v := unhx(o.K), unhx(o.V)
			if v == nil {
				v = []byte{}
			}
			if err := s.tr.Put(k, v); err != nil {
				failed = true
			} else {
				s.content[string(k)] = bytes.Clone(v)
			}
			c10Scribble(k)
		case "del":
			k := unhx(o.K)
			if err := s.tr.Delete(k); err != nil {
				failed = true
			} else {
				delete(s.content, string(k))
			}
			c10Scribble(k)
		case "batch":
			m := map[string][]byte{}
			for _, e := range o.KV {
				k := append([]byte{byte(storage.STStorage)}, unhx(e.K)...)
				if e.V == nil {
					m[string(k)] = nil
				} else {
					v := unhx(*e.V)
					if v == nil {
						v = []byte{}
					}
					m[string(k)] = v
				}
			}
			if _, err := s.tr.PutBatch(mpt.MapToMPTBatch(m)); err != nil {
				failed = true
			} else {
				for _, e := range o.KV {
					if e.V == nil {
						delete(s.content, string(unhx(e.K)))
					} else {
						v := unhx(*e.V)
						if v == nil {
							v = []byte{}
						}
						s.content[string(unhx(e.K))] = v
					}
				}
			}
		case "get": // a read in the middle of the history: must agree with the content and must not disturb anything
			if n := s.readOne(unhx(o.K)); n != "" && rnote == "" {
				rnote = fmt.Sprintf("op %d: %s", i, n)
			}
		case "getall":
			if n := s.readAll(c10Keys(in.Ops)); n != "" && rnote == "" {
				rnote = fmt.Sprintf("op %d: %s", i, n)
			}
		case "proof": // GetProof (+ VerifyProof) of one key in the middle of the history
			if n := s.proofOne(unhx(o.K)); n != "" && rnote == "" {
				rnote = fmt.Sprintf("op %d: %s", i, n)
			}
		case "proofall": // GetProof + VerifyProof for every stored key
			if n := s.proofAll(); n != "" && rnote == "" {
				rnote = fmt.Sprintf("op %d: %s", i, n)
			}
		case "flush":
			s.flush()
			fresh(fmt.Sprintf("flush at op %d", i))
		case "collapse":
			s.flush()
			s.tr.Collapse(o.D)
		case "reopen":
			s.flush()
			if _, err := s.st.Persist(); err != nil {
				panic(err)
			}
			r := s.tr.StateRoot()
			if r.Equals(util.Uint256{}) {
				s.tr = mpt.NewTrie(nil, s.mode, s.st)
			} else {
				s.tr = mpt.NewTrie(mpt.NewHashNode(r), s.mode, s.st)
			}
		default:
			panic("unknown op " + o.Op)
		}
		s.errs = append(s.errs, failed)
		s.roots = append(s.roots, c10Root(s.tr))
	}
	if checkFresh && rnote == "" {
		// every key the history mentions is read twice at the end (a read must not change what later reads return)
		for pass := 0; pass < 2 && rnote == ""; pass++ {
			if n := s.readAll(c10Keys(in.Ops)); n != "" {
				rnote = fmt.Sprintf("end, pass %d: %s", pass, n)
			}
		}
	}
	fresh("end")
	if rnote != "" {
		s.readNote = "a read disagrees with the content of the history: " + rnote
	}
	return s, note
}

// readOne compares Get with the content; "" when they agree
func (s *c10State) readOne(k []byte) string {
	if len(k) > mpt.MaxKeyLength {
		return ""
	}
	var v []byte
	var err error
	if p := catch(func() { v, err = s.tr.Get(k) }); p != "" {
		return fmt.Sprintf("Get(%x) panicked: %s", k, p)
	}
	want, ok := s.content[string(k)]
	if ok && (err != nil || !bytes.Equal(v, want)) {
		return fmt.Sprintf("Get(%x) = (%x, %v), stored value is %x", k, v, err, want)
	}
	if !ok && err == nil {
		return fmt.Sprintf("Get(%x) = %x, the key is not stored", k, v)
	}
	c10Scribble(v) // the returned value is the caller's
	return ""
}

// proofOne: GetProof succeeds exactly for the stored keys and the proof verifies to the stored value
func (s *c10State) proofOne(k []byte) string {
	if len(k) > mpt.MaxKeyLength {
		return ""
	}
	var pr [][]byte
	var err error
	if p := catch(func() { pr, err = s.tr.GetProof(k) }); p != "" {
		return fmt.Sprintf("GetProof(%x) panicked: %s", k, p)
	}
	want, ok := s.content[string(k)]
	if !ok {
		if err == nil {
			return fmt.Sprintf("GetProof(%x) returned a proof, the key is not stored", k)
		}
		return ""
	}
	if err != nil {
		return fmt.Sprintf("GetProof(%x) of a stored key failed: %v", k, err)
	}
	v, vok, note := c10Verify(s.tr.StateRoot().BytesBE(), k, pr)
	if note != "" {
		return note
	}
	if !vok || !bytes.Equal(v, want) {
		return fmt.Sprintf("VerifyProof(root, %x, GetProof(%x)) = (%x, %v), stored value is %x", k, k, v, vok, want)
	}
	c10Scribble(pr...) // the proof elements and the verified value are the caller's
	c10Scribble(v)
	return ""
}

// proofAll: the proof of every stored key must exist and verify to the stored value under the current root
func (s *c10State) proofAll() string {
	keys := make([]string, 0, len(s.content))
	for k := range s.content {
		keys = append(keys, k)
	}
	sort.Strings(keys)
	root := s.tr.StateRoot()
	for _, k := range keys {
		var pr [][]byte
		var err error
		if p := catch(func() { pr, err = s.tr.GetProof([]byte(k)) }); p != "" {
			return fmt.Sprintf("GetProof(%x) panicked: %s", k, p)
		}
		if err != nil {
			return fmt.Sprintf("GetProof(%x) of a stored key failed: %v", k, err)
		}
		v, ok, note := c10Verify(root.BytesBE(), []byte(k), pr)
		if note != "" {
			return note
		}
		if !ok || !bytes.Equal(v, s.content[k]) {
			return fmt.Sprintf("VerifyProof(root, %x, GetProof(%x)) = (%x, %v), stored value is %x", k, k, v, ok, s.content[k])
		}
		c10Scribble(pr...)
		c10Scribble(v)
	}
	return ""
}

func (s *c10State) readAll(keys [][]byte) string {
	for _, k := range keys {
		if n := s.readOne(k); n != "" {
			return n
		}
	}
	return ""
}

// c10Keys lists every key a history mentions, in a fixed order
func c10Keys(ops []c10Op) [][]byte {
	seen := map[string]bool{}
	var out [][]byte
	add := func(h string) {
		if !seen[h] {
			seen[h] = true
			out = append(out, unhx(h))
		}
	}
	for _, o := range ops {
		switch o.Op {
		case "put", "del", "get", "proof":
			add(o.K)
		case "batch":
			for _, e := range o.KV {
				add(e.K)
			}
		}
	}
	sort.Slice(out, func(i, j int) bool { return bytes.Compare(out[i], out[j]) < 0 })
	return out
}

// c10TryExec runs a history without the direct checks; nil and the message when the implementation panics
func c10TryExec(in c10Input) (s *c10State, p string) {
	p = catch(func() { s, _ = c10Exec(in, false) })
	if p != "" {
		return nil, p
	}
	return s, ""
}

// ---- Coq printers ----

func c10Val(b []byte) string {
	if len(b) > 64 {
		same := true
		for _, x := range b {
			if x != b[0] {
				same = false
				break
			}
		}
		if same {
			return fmt.Sprintf("(rep %d %d)", b[0], len(b))
		}
	}
	return coqBytes(b)
}

func c10SortedKV(kv []c10KV) []c10KV {
	out := append([]c10KV{}, kv...)
	sort.SliceStable(out, func(i, j int) bool { return bytes.Compare(unhx(out[i].K), unhx(out[j].K)) < 0 })
	// a map has one entry per key: the last one wins
	var d []c10KV
	for i, e := range out {
		if i+1 < len(out) && out[i+1].K == e.K {
			continue
		}
		d = append(d, e)
	}
	return d
}

func c10Ops(ops []c10Op) string {
	xs := make([]string, 0, len(ops))
	for _, o := range ops {
		switch o.Op {
		case "put":
			xs = append(xs, fmt.Sprintf("HPut %s %s", coqBytes(unhx(o.K)), c10Val(unhx(o.V))))
		case "del":
			xs = append(xs, "HDel "+coqBytes(unhx(o.K)))
		case "batch":
			var kv []string
			for _, e := range c10SortedKV(o.KV) {
				if e.V == nil {
					kv = append(kv, fmt.Sprintf("(%s, None)", coqBytes(unhx(e.K))))
				} else {
					kv = append(kv, fmt.Sprintf("(%s, Some %s)", coqBytes(unhx(e.K)), c10Val(unhx(*e.V))))
				}
			}
			xs = append(xs, "HBatch "+coqList(kv))
		default:
			xs = append(xs, "HNop")
		}
	}
	return coqList(xs)
}

func c10KVs(kvs [][2][]byte) string {
	xs := make([]string, len(kvs))
	for i, e := range kvs {
		xs[i] = fmt.Sprintf("(%s, %s)", coqBytes(e[0]), c10Val(e[1]))
	}
	return coqList(xs)
}

func c10BytesList(l [][]byte) string {
	xs := make([]string, len(l))
	for i, e := range l {
		xs[i] = coqBytes(e)
	}
	return coqList(xs)
}

func c10HexKVs(kvs [][2][]byte) [][2]string {
	out := make([][2]string, len(kvs))
	for i, e := range kvs {
		out[i] = [2]string{hx(e[0]), hx(e[1])}
	}
	return out
}

func c10HexList(l [][]byte) []string {
	out := make([]string, len(l))
	for i, e := range l {
		out[i] = hx(e)
	}
	return out
}

// ---- proof tampering ----

func c10Tamper(q c10Query, proofs [][]byte, other [][]byte) [][]byte {
	p := make([][]byte, len(proofs))
	for i := range proofs {
		p[i] = bytes.Clone(proofs[i])
	}
	n := len(p)
	at := func(i int) int {
		if n == 0 {
			return 0
		}
		return ((i % n) + n) % n
	}
	switch q.Tamper {
	case "", "none":
	case "drop":
		if n > 0 {
			i := at(q.I)
			p = append(p[:i], p[i+1:]...)
		}
	case "dup":
		if n > 0 {
			p = append(p, p[at(q.I)])
		}
	case "swap":
		if n > 1 {
			i, j := at(q.I), at(q.J)
			p[i], p[j] = p[j], p[i]
		}
	case "reverse":
		for i, j := 0, n-1; i < j; i, j = i+1, j-1 {
			p[i], p[j] = p[j], p[i]
		}
	case "replace":
		if n > 0 {
			p[at(q.I)] = unhx(q.Bytes)
		}
	case "replace_other": // put node J of the proof in place of node I
		if n > 1 {
			p[at(q.I)] = bytes.Clone(proofs[at(q.J)])
		}
	case "flip":
		if n > 0 {
			i := at(q.I)
			if len(p[i]) > 0 {
				p[i][q.J%len(p[i])] ^= 1 << (uint(q.J/7) % 8)
			}
		}
	case "junk": // trailing bytes after a node
		if n > 0 {
			i := at(q.I)
			p[i] = append(p[i], unhx(q.Bytes)...)
		}
	case "extra": // nodes of another key's proof as well
		p = append(p, other...)
	case "only_other":
		p = other
	default:
		panic("unknown tamper " + q.Tamper)
	}
	return p
}

// ---- VerifyProof in a child process (a non-terminating recursion is a fatal error, not a panic) ----

func runC10vp(args []string) error {
	debug.SetMaxStack(8 << 20)
	if len(args) < 3 {
		return errors.New("usage: c10vp root key proof,proof,...")
	}
	rh, err := util.Uint256DecodeBytesBE(unhx(args[0]))
	if err != nil {
		return err
	}
	var proofs [][]byte
	if args[2] != "-" {
		for _, p := range strings.Split(args[2], ",") {
			proofs = append(proofs, unhx(p))
		}
	}
	var v []byte
	var ok bool
	if p := catch(func() { v, ok = mpt.VerifyProof(rh, unhx(args[1]), proofs) }); p != "" {
		fmt.Println("panic:" + p)
		return nil
	}
	if ok {
		fmt.Println("some:" + hx(v))
	} else {
		fmt.Println("none")
	}
	return nil
}

// c10Verify calls mpt.VerifyProof; note != "" when it panicked or did not return.
func c10Verify(root []byte, key []byte, proofs [][]byte) (val []byte, ok bool, note string) {
	rh, err := util.Uint256DecodeBytesBE(root)
	if err != nil {
		panic(err)
	}
	risky := false
	for _, p := range proofs {
		if len(p) > 0 && p[0] == byte(mpt.HashT) {
			risky = true
		}
	}
	if !risky {
		if p := catch(func() { val, ok = mpt.VerifyProof(rh, key, proofs) }); p != "" {
			return nil, false, "VerifyProof panicked: " + p
		}
		return val, ok, ""
	}
	ps := "-"
	if len(proofs) > 0 {
		ps = strings.Join(c10HexList(proofs), ",")
	}
	ks := hx(key)
	cmd := exec.Command(os.Args[0], "c10vp", hx(root), ks, ps)
	var out bytes.Buffer
	cmd.Stdout = &out
	done := make(chan error, 1)
	if err := cmd.Start(); err != nil {
		panic(err)
	}
	go func() { done <- cmd.Wait() }()
	select {
	case err := <-done:
		if err != nil {
			return nil, false, "VerifyProof does not return on this input (child process died: " + err.Error() + "; unbounded recursion ends in a fatal stack overflow)"
		}
	case <-time.After(60 * time.Second):
		cmd.Process.Kill()
		return nil, false, "VerifyProof does not return on this input (timeout)"
	}
	res := strings.TrimSpace(out.String())
	switch {
	case res == "none":
		return nil, false, ""
	case strings.HasPrefix(res, "some:"):
		return unhx(res[5:]), true, ""
	case strings.HasPrefix(res, "panic:"):
		return nil, false, "VerifyProof panicked: " + res[6:]
	}
	return nil, false, "VerifyProof child: unexpected output " + res
}

func c10Nibbles(b []byte) []byte {
	out := make([]byte, 0, 2*len(b))
	for _, x := range b {
		out = append(out, x>>4, x&0x0F)
	}
	return out
}

// c10Diverges: the keys below prefix share a path (in nibbles) that start neither extends nor is a prefix of
func c10Diverges(content map[string][]byte, prefix, start []byte) bool {
	var common []byte
	first := true
	for k := range content {
		if !bytes.HasPrefix([]byte(k), prefix) {
			continue
		}
		rel := c10Nibbles([]byte(k)[len(prefix):])
		if first {
			common, first = rel, false
			continue
		}
		i := 0
		for i < len(common) && i < len(rel) && common[i] == rel[i] {
			i++
		}
		common = common[:i]
	}
	if first {
		return false
	}
	sp := c10Nibbles(start)
	return !bytes.HasPrefix(sp, common) && !bytes.HasPrefix(common, sp)
}

// ---- one case ----

// c10Run: one case; a panic of the implementation anywhere in it is a violation, not a crash of the harness
func c10Run(co *caseOut, kind string, in c10Input) {
	if p := catch(func() { c10RunCase(co, kind, in) }); p != "" {
		co.violation(kind, "panic: "+p, in, nil)
	}
}

func c10RunCase(co *caseOut, kind string, in c10Input) {
	q := in.Q
	if kind == "reads_root" {
		kind = "reads"
	}
	if kind == "modes_root" {
		kind = "modes"
	}
	if kind == "reads" {
		n, _ := co.extra["x_read_histories"].(int)
		co.extra["x_read_histories"] = n + 1
	}
	switch kind {
	case "sha256":
		msg := unhx(q.Msg)
		d := sha256.Sum256(msg)
		co.add(kind, fmt.Sprintf("len%d", len(msg)/64*64), len(msg) > 0, in, hx(d[:]), fmt.Sprintf("CSha %s %s", c10Val(msg), coqBytes(d[:])))
		return
	case "verify_raw":
		var proofs [][]byte
		for _, p := range q.Proofs {
			proofs = append(proofs, unhx(p))
		}
		root, key := unhx(q.Root), unhx(q.K)
		v, ok, note := c10Verify(root, key, proofs)
		if note != "" {
			co.violation(kind, note, in, nil)
			return
		}
		tag := "none"
		if ok {
			tag = "some"
		}
		co.add(kind, tag, len(proofs) > 0, in, map[string]any{"ok": ok, "value": hx(v)},
			fmt.Sprintf("CVerifyRaw %s %s %s %s", coqBytes(root), coqBytes(key), c10BytesList(proofs), coqOpt(coqBytes(v), ok)))
		return
	}

	var s *c10State
	var note string
	if p := catch(func() { s, note = c10Exec(in, kind == "root" || kind == "fresh_root" || kind == "reads" || kind == "modes") }); p != "" {
		co.violation(kind, "panic while executing the history: "+p, in, nil)
		return
	}
	if note != "" {
		if kind == "reads" {
			// a history with reads in the middle: kept apart from the plain history-independence check
			co.violation("reads_root", note, in, nil)
		} else if kind == "modes" {
			co.violation("modes_root", note, in, nil)
		} else {
			co.violation("fresh_root", note, in, nil)
		}
	}
	if s.readNote != "" && (kind == "root" || kind == "reads") {
		co.violation("reads", s.readNote, in, nil)
	}
	if s.rcNote != "" && kind == "modes" {
		co.violation("modes", fmt.Sprintf("storage mode %d: after a Flush the stored reference counters disagree with the trie: %s", in.Mode, s.rcNote), in, nil)
	}
	if s.readNote != "" && kind == "modes" {
		co.violation("modes", fmt.Sprintf("storage mode %d: %s", in.Mode, s.readNote), in, nil)
	}
	if kind == "fresh_root" || kind == "reads" {
		return
	}
	ops := c10Ops(in.Ops)
	nkeys := len(s.content)
	big := nkeys >= 2
	modeTag := fmt.Sprintf("m%d", in.Mode)
	switch kind {
	case "modes":
		// flush, forget everything in memory, re-read every key the history mentions from the stored root
		var reads []string
		impl := map[string]any{}
		p := catch(func() {
			s.flush()
			if _, err := s.st.Persist(); err != nil {
				panic(err)
			}
			tr := mpt.NewTrie(nil, s.mode, s.st)
			if r := s.tr.StateRoot(); !r.Equals(util.Uint256{}) {
				tr = mpt.NewTrie(mpt.NewHashNode(r), s.mode, s.st)
			}
			for _, k := range c10Keys(in.Ops) {
				if len(k) > mpt.MaxKeyLength {
					continue
				}
				v, err := tr.Get(k)
				reads = append(reads, fmt.Sprintf("(%s, %s)", coqBytes(k), coqOpt(c10Val(v), err == nil)))
				if err == nil {
					impl[hx(k)] = hx(v)
				} else {
					impl[hx(k)] = nil
				}
			}
		})
		if p != "" {
			co.violation(kind, "panic while re-reading the keys from the stored root: "+p, in, nil)
			return
		}
		co.add(kind, fmt.Sprintf("%s/keys%d", modeTag, min(nkeys, 8)), big, in, impl, fmt.Sprintf("CGets %s %s", ops, coqList(reads)))
	case "store":
		// the node store after a final Flush: every DataMPT record (hash, value)
		s.flush()
		var dump [][2][]byte
		s.st.Seek(storage.SeekRange{Prefix: []byte{byte(storage.DataMPT)}}, func(k, v []byte) bool {
			dump = append(dump, [2][]byte{bytes.Clone(k[1:]), bytes.Clone(v)})
			return true
		})
		xs := make([]string, len(dump))
		for i, e := range dump {
			xs[i] = fmt.Sprintf("(%s, %s)", coqBytes(e[0]), coqBytes(e[1]))
		}
		r := c10Root(s.tr)
		co.add(kind, fmt.Sprintf("%s/recs%d", modeTag, min(len(dump)/8*8, 64)), big, in, map[string]any{"root": hx(r), "records": len(dump)},
			fmt.Sprintf("CStore %s %s %s %s", ops, coqBool(s.mode.RC()), coqBytes(r), coqList(xs)))
	case "root":
		r := c10Root(s.tr)
		errs := make([]string, len(s.errs))
		for i, e := range s.errs {
			errs[i] = coqBool(e)
		}
		nb := nkeys
		if nb > 8 {
			nb = 8
		}
		co.add(kind, fmt.Sprintf("%s/keys%d", modeTag, nb), big, in, map[string]any{"root": hx(r), "errs": s.errs},
			fmt.Sprintf("CRoot %s %s %s", ops, coqList(errs), coqBytes(r)))
	case "get":
		k := unhx(q.K)
		var v []byte
		var err error
		if p := catch(func() { v, err = s.tr.Get(k) }); p != "" {
			co.violation(kind, "Get panicked: "+p, in, nil)
			return
		}
		tag := "absent"
		if err == nil {
			tag = "present"
		}
		co.add(kind, tag, big, in, map[string]any{"found": err == nil, "value": hx(v)},
			fmt.Sprintf("CGet %s %s %s", ops, coqBytes(k), coqOpt(c10Val(v), err == nil)))
	case "find":
		// as stateroot.FindStates does: a fresh trie over the stored root
		s.flush()
		if r := s.tr.StateRoot(); !r.Equals(util.Uint256{}) {
			s.tr = mpt.NewTrie(mpt.NewHashNode(r), s.mode, s.st)
		}
		prefix, from := unhx(q.Prefix), unhx(q.Start)
		if q.FromNil {
			from = nil
		} else if from == nil {
			from = []byte{}
		}
		var res []storage.KeyValue
		var err error
		if p := catch(func() { res, err = s.tr.Find(prefix, from, q.Max) }); p != "" {
			co.violation(kind, "Find panicked: "+p, in, nil)
			return
		}
		if err != nil && !errors.Is(err, mpt.ErrNotFound) {
			co.violation(kind, "Find failed: "+err.Error(), in, nil)
			return
		}
		var kvs [][2][]byte
		for _, e := range res {
			kvs = append(kvs, [2][]byte{e.Key, e.Value})
		}
		tag := "nostart"
		if len(from) > 0 {
			tag = "start"
		}
		if q.Max < 3 {
			tag += "/max"
		}
		co.add(kind, tag, big && len(kvs) > 0, in, map[string]any{"kvs": c10HexKVs(kvs), "notfound": err != nil},
			fmt.Sprintf("CFind %s %s %s %s %d %s", ops, coqBytes(prefix), coqBytes(from), coqBool(q.FromNil), q.Max, c10KVs(kvs)))
	case "seek":
		s.flush()
		prefix, start := unhx(q.Prefix), unhx(q.Start)
		var kvs [][2][]byte
		p := catch(func() {
			ts := mpt.NewTrieStore(s.tr.StateRoot(), s.mode&^mpt.ModeGCFlag, s.st)
			ts.Seek(storage.SeekRange{Prefix: append([]byte{byte(storage.STStorage)}, prefix...), Start: start, Backwards: q.Backwards},
				func(k, v []byte) bool {
					kvs = append(kvs, [2][]byte{bytes.Clone(k[1:]), bytes.Clone(v)})
					c10Scribble(k, v)
					return true
				})
		})
		if p != "" {
			co.violation(kind, "TrieStore.Seek panicked: "+p, in, nil)
			return
		}
		tag := "fwd"
		if q.Backwards {
			tag = "bwd"
		}
		if len(start) > 0 {
			tag += "/start"
			if c10Diverges(s.content, prefix, start) {
				tag += "-div" // the start point leaves the path that all keys below the prefix share
			}
		} else {
			tag += "/nostart"
		}
		co.add(kind, tag, big && len(kvs) > 0, in, c10HexKVs(kvs),
			fmt.Sprintf("CSeek %s %s %s %s %s", ops, coqBytes(prefix), coqBytes(start), coqBool(q.Backwards), c10KVs(kvs)))
	case "proof":
		k := unhx(q.K)
		var pr [][]byte
		var err error
		if p := catch(func() { pr, err = s.tr.GetProof(k) }); p != "" {
			co.violation(kind, "GetProof panicked: "+p, in, nil)
			return
		}
		tag := "absent"
		if err == nil {
			tag = fmt.Sprintf("len%d", min(len(pr), 6))
		}
		co.add(kind, tag, big && err == nil, in, map[string]any{"found": err == nil, "proof": c10HexList(pr)},
			fmt.Sprintf("CProof %s %s %s", ops, coqBytes(k), coqOpt(c10BytesList(pr), err == nil)))
	case "verify":
		k := unhx(q.K)
		vk := k
		if q.VK != "" {
			vk = unhx(q.VK)
		}
		if q.VK == "-" {
			vk = []byte{}
		}
		pr, err := s.tr.GetProof(k)
		if err != nil {
			pr = nil
		}
		var other [][]byte
		if q.Bytes != "" && (q.Tamper == "extra" || q.Tamper == "only_other") {
			other, err = s.tr.GetProof(unhx(q.Bytes))
			if err != nil {
				other = nil
			}
		}
		ri := q.RootIdx
		if ri <= 0 || ri > len(in.Ops) {
			ri = len(in.Ops)
		}
		root := make([]byte, 32)
		if ri > 0 {
			root = s.roots[ri-1]
		}
		proofs := c10Tamper(q, pr, other)
		genuine := (q.Tamper == "" || q.Tamper == "none") && bytes.Equal(vk, k) && ri == len(in.Ops)
		v, ok, vnote := c10Verify(root, vk, proofs)
		if vnote != "" {
			co.violation(kind, vnote, in, nil)
			return
		}
		tm := q.Tamper
		if tm == "" {
			tm = "none"
		}
		if !bytes.Equal(vk, k) {
			tm += "+otherkey"
		}
		if ri != len(in.Ops) {
			tm += "+oldroot"
		}
		if ok {
			tm += "/some"
		} else {
			tm += "/none"
		}
		co.add(kind, tm, len(proofs) >= 2, in, map[string]any{"root": hx(root), "proofs": c10HexList(proofs), "ok": ok, "value": hx(v)},
			fmt.Sprintf("CVerify %s %d %s %s %s %s %s", ops, ri, coqBytes(root), coqBytes(vk), c10BytesList(proofs), coqBool(genuine), coqOpt(c10Val(v), ok)))
	case "find_dirty":
		// Trie.Find on a trie with unflushed nodes, then Get of every key
		prefix := unhx(q.Prefix)
		var ferr error
		if p := catch(func() { _, ferr = s.tr.Find(prefix, nil, 1000) }); p != "" {
			co.violation(kind, "Find panicked: "+p, in, nil)
			return
		}
		_ = ferr
		keys := make([]string, 0, len(s.content))
		for k := range s.content {
			keys = append(keys, k)
		}
		sort.Strings(keys)
		for _, k := range keys {
			v, err := s.tr.Get([]byte(k))
			if err != nil || !bytes.Equal(v, s.content[k]) {
				co.violation(kind, fmt.Sprintf("after Find(%x) on a trie with unflushed changes, Get(%x) = (%x, %v), stored value is %x", prefix, k, v, err, s.content[k]), in, nil)
				return
			}
		}
	default:
		panic("unknown kind " + kind)
	}
}

// ---- generation ----

func c10Universe(r *rng) [][]byte {
	var base []byte
	switch r.intn(4) {
	case 0:
		base = []byte{}
	case 1:
		base = []byte{0xAA}
	default:
		base = r.bytes(1 + r.intn(3))
	}
	nibs := []byte{0, 1, 2, 3, 0xF}
	bt := func() byte { return pick(r, nibs)<<4 | pick(r, nibs) }
	seen := map[string]bool{}
	var ks [][]byte
	add := func(k []byte) {
		if len(k) == 0 || len(k) > 68 || seen[string(k)] {
			return
		}
		seen[string(k)] = true
		ks = append(ks, bytes.Clone(k))
	}
	n := 3 + r.intn(9)
	for tries := 0; len(ks) < n && tries < 100; tries++ {
		switch r.intn(10) {
		case 0:
			add(base)
		case 1:
			add(append(bytes.Clone(base), bt()))
		case 2, 3:
			if len(ks) > 0 {
				add(append(bytes.Clone(pick(r, ks)), bt()))
			}
		case 4:
			if len(ks) > 0 {
				k := bytes.Clone(pick(r, ks))
				k[len(k)-1] = k[len(k)-1]&0xF0 | pick(r, nibs)
				add(k)
			}
		case 5:
			if len(ks) > 0 {
				k := bytes.Clone(pick(r, ks))
				k[len(k)-1] = k[len(k)-1]&0x0F | pick(r, nibs)<<4
				add(k)
			}
		case 6:
			pad := bytes.Repeat([]byte{0x11}, 10+r.intn(30))
			add(append(append(bytes.Clone(base), pad...), bt()))
		case 7:
			k := append(bytes.Clone(base), bytes.Repeat([]byte{0x22}, 68)...)[:68]
			k[67] = bt()
			add(k)
		case 8:
			add(r.bytes(1 + r.intn(3)))
		case 9:
			if len(ks) > 0 {
				k := pick(r, ks)
				if len(k) > 1 {
					add(k[:len(k)-1])
				}
			}
		}
	}
	if len(ks) == 0 {
		ks = append(ks, []byte{0x01})
	}
	return ks
}

func c10Value(r *rng) []byte {
	switch r.intn(16) {
	case 0:
		return []byte{}
	case 1, 2, 3:
		return []byte{7, 7}
	case 4:
		return bytes.Repeat([]byte{byte(r.intn(3))}, 252+r.intn(3))
	case 5:
		return r.bytes(30 + r.intn(40))
	default:
		return []byte{byte(r.intn(4))}
	}
}

func c10History(r *rng, keys [][]byte, nops int, reads bool) []c10Op {
	var ops []c10Op
	present := map[string]bool{}
	for len(ops) < nops {
		c := r.intn(100)
		switch {
		case c < 50:
			k := pick(r, keys)
			ops = append(ops, c10Op{Op: "put", K: hx(k), V: hx(c10Value(r))})
			present[string(k)] = true
		case c < 70:
			k := pick(r, keys)
			if len(present) > 0 && r.chance(75) {
				var ps []string
				for p := range present {
					ps = append(ps, p)
				}
				sort.Strings(ps)
				k = []byte(pick(r, ps))
			}
			ops = append(ops, c10Op{Op: "del", K: hx(k)})
			delete(present, string(k))
		case c < 82:
			m := 1 + r.intn(6)
			var kv []c10KV
			used := map[string]bool{}
			for i := 0; i < m; i++ {
				k := pick(r, keys)
				if used[string(k)] {
					continue
				}
				used[string(k)] = true
				if r.chance(35) {
					kv = append(kv, c10KV{K: hx(k)})
					delete(present, string(k))
				} else {
					v := hx(c10Value(r))
					kv = append(kv, c10KV{K: hx(k), V: &v})
					present[string(k)] = true
				}
			}
			ops = append(ops, c10Op{Op: "batch", KV: kv})
			if reads && len(kv) > 0 && r.chance(40) {
				// a single Put and reads next to what the batch just built (the batch path creates its own node shapes)
				k := unhx(pick(r, kv).K)
				if len(k) > 0 {
					k = bytes.Clone(k)
					k[len(k)-1] ^= byte(1 + r.intn(3))
					ops = append(ops, c10Op{Op: "put", K: hx(k), V: hx(c10Value(r))}, c10Op{Op: "get", K: hx(k)}, c10Op{Op: "getall"})
					present[string(k)] = true
				}
			}
		case c < 90:
			if !reads {
				continue
			}
			k := pick(r, keys)
			if r.chance(30) {
				k = append(bytes.Clone(k), byte(r.intn(3)))
			}
			ops = append(ops, c10Op{Op: "get", K: hx(k)})
		case c < 92:
			if !reads {
				continue
			}
			ops = append(ops, c10Op{Op: "getall"})
		case c < 95:
			ops = append(ops, c10Op{Op: "flush"})
		case c < 98:
			ops = append(ops, c10Op{Op: "collapse", D: r.intn(4)})
		default:
			ops = append(ops, c10Op{Op: "reopen"})
		}
	}
	return ops
}

// batches that build an extension over a shared prefix, then single puts and reads of sibling keys below it
func c10SiblingHistory(r *rng, keys [][]byte) []c10Op {
	base := pick(r, keys)
	if len(base) > 40 {
		base = base[:40]
	}
	tail := func() []byte { return r.bytes(1 + r.intn(3)) }
	var ops []c10Op
	var mine [][]byte
	for i := 0; i < 2+r.intn(3); i++ {
		k := append(bytes.Clone(base), tail()...)
		mine = append(mine, k)
		v := hx(c10Value(r))
		switch r.intn(3) {
		case 0:
			ops = append(ops, c10Op{Op: "put", K: hx(k), V: v})
		default:
			kv := []c10KV{{K: hx(k), V: &v}}
			if r.chance(30) {
				k2 := append(bytes.Clone(base), tail()...)
				mine = append(mine, k2)
				v2 := hx(c10Value(r))
				kv = append(kv, c10KV{K: hx(k2), V: &v2})
			}
			if r.chance(20) {
				kv = append(kv, c10KV{K: hx(pick(r, mine))})
			}
			ops = append(ops, c10Op{Op: "batch", KV: kv})
		}
		if r.chance(50) {
			ops = append(ops, c10Op{Op: "get", K: hx(pick(r, mine))})
		}
		if r.chance(15) {
			ops = append(ops, pick(r, []c10Op{{Op: "flush"}, {Op: "collapse", D: r.intn(3)}, {Op: "reopen"}, {Op: "del", K: hx(pick(r, mine))}}))
		}
	}
	ops = append(ops, c10Op{Op: "getall"})
	ops = append(ops, c10History(r, append(mine, keys...), r.intn(6), true)...)
	return ops
}

// several flush epochs in which node hashes die and are re-created: the same pair put back, the same value
// (and the same key suffix + value: a shared extension+leaf) under another key, delete-then-recreate across
// flushes; collapse/reopen in between and at the end, then re-reads, proofs and further updates
func c10EpochHistory(r *rng, keys [][]byte) []c10Op {
	p1, p2 := byte(r.intn(8))<<4|byte(r.intn(16)), byte(8+r.intn(8))<<4|byte(r.intn(16))
	s1, s2 := r.bytes(1+r.intn(2)), r.bytes(1+r.intn(2))
	pool := [][]byte{append([]byte{p1}, s1...), append([]byte{p2}, s1...), append([]byte{p1}, s2...), append([]byte{p2}, s2...), {p1}, pick(r, keys), pick(r, keys)}
	vals := [][]byte{{1}, {2}, {1}, {}, {7, 7}}
	type pair struct{ k, v []byte }
	var grave []pair
	present := map[string][]byte{}
	var ops []c10Op
	put := func(k, v []byte) {
		ops = append(ops, c10Op{Op: "put", K: hx(k), V: hx(v)})
		present[string(k)] = v
	}
	del := func(k []byte) {
		if v, ok := present[string(k)]; ok {
			grave = append(grave, pair{k, v})
		}
		ops = append(ops, c10Op{Op: "del", K: hx(k)})
		delete(present, string(k))
	}
	somePresent := func() []byte {
		var ps []string
		for k := range present {
			ps = append(ps, k)
		}
		sort.Strings(ps)
		if len(ps) == 0 {
			return pick(r, pool)
		}
		return []byte(pick(r, ps))
	}
	step := func() {
		switch r.intn(8) {
		case 0, 1:
			put(pick(r, pool), pick(r, vals))
		case 2, 3:
			del(somePresent())
		case 4:
			if len(grave) > 0 { // the same pair again
				g := pick(r, grave)
				put(g.k, g.v)
			}
		case 5:
			if len(grave) > 0 { // the value of a dead pair under another key
				put(pick(r, pool), pick(r, grave).v)
			}
		case 6:
			k := somePresent() // overwrite with the same value: nothing must change
			if v, ok := present[string(k)]; ok {
				put(k, v)
			}
		case 7:
			var kv []c10KV
			used := map[string]bool{}
			for i := 0; i < 2+r.intn(3); i++ {
				k := pick(r, pool)
				if used[string(k)] {
					continue
				}
				used[string(k)] = true
				if r.chance(40) {
					if v, ok := present[string(k)]; ok {
						grave = append(grave, pair{k, v})
					}
					kv = append(kv, c10KV{K: hx(k)})
					delete(present, string(k))
				} else {
					v := pick(r, vals)
					hv := hx(v)
					kv = append(kv, c10KV{K: hx(k), V: &hv})
					present[string(k)] = v
				}
			}
			ops = append(ops, c10Op{Op: "batch", KV: kv})
		}
	}
	reload := func() {
		ops = append(ops, pick(r, []c10Op{{Op: "reopen"}, {Op: "collapse", D: 0}, {Op: "collapse", D: 1}, {Op: "reopen"}}))
	}
	for e := 0; e < 3+r.intn(4); e++ {
		for i := 0; i < 1+r.intn(4); i++ {
			step()
		}
		ops = append(ops, c10Op{Op: "flush"})
		if r.chance(35) {
			reload()
			if r.chance(60) {
				ops = append(ops, c10Op{Op: "getall"}, c10Op{Op: "proofall"})
			}
		}
	}
	reload()
	ops = append(ops, c10Op{Op: "getall"}, c10Op{Op: "proofall"})
	for i := 0; i < 2+r.intn(4); i++ {
		step()
	}
	ops = append(ops, c10Op{Op: "flush"}, c10Op{Op: "reopen"}, c10Op{Op: "getall"}, c10Op{Op: "proofall"})
	return ops
}

// free interleaving for the reference-counting modes: a tiny value alphabet and equal key suffixes (shared leaves and
// shared extension+leaf sub-tries), reads (Get, GetProof) anywhere between the updates and the Flush, on tries that
// are partially collapsed, Flush NOT always followed by Collapse (flush; flush; ...; collapse), reopen at the end
func c10SharedHistory(r *rng, keys [][]byte) []c10Op {
	a, b := byte(r.intn(16))<<4|byte(r.intn(16)), byte(r.intn(16))<<4|byte(r.intn(16))
	suf := [][]byte{{0x11}, {0x11, 0x22}, {byte(r.intn(4))}}
	var pool [][]byte
	for _, p := range [][]byte{{a}, {b}, {a, b}} {
		pool = append(pool, p)
		for _, x := range suf {
			pool = append(pool, append(bytes.Clone(p), x...))
		}
	}
	pool = append(pool, pick(r, keys))
	vals := [][]byte{{1}, {1}, {2}, {}}
	var ops []c10Op
	n := 8 + r.intn(30)
	for len(ops) < n {
		c := r.intn(100)
		k := pick(r, pool)
		switch {
		case c < 28:
			ops = append(ops, c10Op{Op: "put", K: hx(k), V: hx(pick(r, vals))})
		case c < 42:
			ops = append(ops, c10Op{Op: "del", K: hx(k)})
		case c < 48:
			var kv []c10KV
			used := map[string]bool{}
			for i := 0; i < 2+r.intn(3); i++ {
				k2 := pick(r, pool)
				if used[string(k2)] {
					continue
				}
				used[string(k2)] = true
				if r.chance(35) {
					kv = append(kv, c10KV{K: hx(k2)})
				} else {
					hv := hx(pick(r, vals))
					kv = append(kv, c10KV{K: hx(k2), V: &hv})
				}
			}
			ops = append(ops, c10Op{Op: "batch", KV: kv})
		case c < 68:
			ops = append(ops, c10Op{Op: "get", K: hx(k)})
		case c < 76:
			ops = append(ops, c10Op{Op: "proof", K: hx(k)})
		case c < 90:
			ops = append(ops, c10Op{Op: "flush"})
		case c < 96:
			ops = append(ops, c10Op{Op: "collapse", D: r.intn(3)})
		default:
			ops = append(ops, c10Op{Op: "reopen"})
		}
	}
	ops = append(ops, c10Op{Op: "flush"}, c10Op{Op: "reopen"}, c10Op{Op: "getall"}, c10Op{Op: "proofall"})
	return ops
}

// replicated sub-trie: the same tail set with the same values under 3-5 prefixes of equal depth (byte-identical
// non-leaf sub-tries, one stored record each), flushed and collapsed/reopened so that all copies are hash nodes of one
// hash; then updates inside ONE copy at a time interleaved with reads and proofs over ALL copies, with and without
// flushes, and no collapse: every copy must keep its own content (resolution is by value, not by object)
func c10ReplicatedHistory(r *rng) []c10Op {
	ncopies := 3 + r.intn(3)
	depth := 1 + r.intn(2)
	var prefixes [][]byte
	seenP := map[string]bool{}
	for len(prefixes) < ncopies {
		p := r.bytes(depth)
		if r.chance(50) {
			p[depth-1] = p[depth-1]&0xF0 | 0x07 // same last nibble: the extension above the copy is shared too
		}
		if !seenP[string(p)] {
			seenP[string(p)] = true
			prefixes = append(prefixes, p)
		}
	}
	t0 := r.bytes(1 + r.intn(2))
	tails := [][]byte{t0, append(bytes.Clone(t0), byte(r.intn(4))), {t0[0] ^ 0x10}, {t0[0] ^ 0x01, 0x33}}
	tails = tails[:2+r.intn(3)]
	vals := [][]byte{{1}, {2}, {1}, {3, 3}}
	var ops []c10Op
	for ti, t := range tails {
		for _, p := range prefixes {
			ops = append(ops, c10Op{Op: "put", K: hx(append(bytes.Clone(p), t...)), V: hx(vals[ti%len(vals)])})
		}
	}
	if r.chance(30) { // or as one batch per copy
		ops = ops[:0]
		for _, p := range prefixes {
			var kv []c10KV
			for ti, t := range tails {
				hv := hx(vals[ti%len(vals)])
				kv = append(kv, c10KV{K: hx(append(bytes.Clone(p), t...)), V: &hv})
			}
			ops = append(ops, c10Op{Op: "batch", KV: kv})
		}
	}
	ops = append(ops, c10Op{Op: "flush"}, pick(r, []c10Op{{Op: "collapse", D: 0}, {Op: "reopen"}, {Op: "collapse", D: 1}, {Op: "collapse", D: 2}}))
	key := func(ci int) []byte {
		t := pick(r, tails)
		if r.chance(25) {
			t = append(bytes.Clone(t), byte(r.intn(3)))
		}
		return append(bytes.Clone(prefixes[ci]), t...)
	}
	order := make([]int, ncopies)
	for i := range order {
		order[i] = i
	}
	for i := range order { // the copy that is modified changes from step to step, each a few times
		j := i + r.intn(ncopies-i)
		order[i], order[j] = order[j], order[i]
	}
	for _, ci := range order[:ncopies-1] { // one copy is never written
		for i := 0; i < 1+r.intn(3); i++ {
			if r.chance(65) {
				ops = append(ops, c10Op{Op: "put", K: hx(key(ci)), V: hx(pick(r, [][]byte{{9}, {8, 8}, {1}}))})
			} else {
				ops = append(ops, c10Op{Op: "del", K: hx(key(ci))})
			}
			for j := 0; j < r.intn(3); j++ {
				k := key(r.intn(ncopies))
				if r.chance(70) {
					ops = append(ops, c10Op{Op: "get", K: hx(k)})
				} else {
					ops = append(ops, c10Op{Op: "proof", K: hx(k)})
				}
			}
		}
		if r.chance(35) {
			ops = append(ops, c10Op{Op: "flush"})
		}
		if r.chance(40) {
			ops = append(ops, c10Op{Op: "getall"})
		}
	}
	ops = append(ops, c10Op{Op: "getall"}, c10Op{Op: "proofall"}, c10Op{Op: "flush"}, c10Op{Op: "getall"}, c10Op{Op: "proofall"})
	return ops
}

// c10ModeRuns: the history in the reference-counting storage modes (and ModeAll), with reload, re-reads, proofs
// and further updates at the end
func c10ModeRuns(co *caseOut, r *rng, keys [][]byte, base []c10Op) {
	tail := []c10Op{{Op: "flush"}, pick(r, []c10Op{{Op: "reopen"}, {Op: "collapse", D: 0}}), {Op: "getall"}, {Op: "proofall"}}
	tail = append(tail, c10History(r, keys, 1+r.intn(4), false)...)
	tail = append(tail, c10Op{Op: "flush"}, c10Op{Op: "reopen"}, c10Op{Op: "getall"}, c10Op{Op: "proofall"})
	general := append(append([]c10Op{}, base...), tail...)
	epochs := c10EpochHistory(r, keys)
	shared := [][]c10Op{c10SharedHistory(r, keys), c10SharedHistory(r, keys), c10SharedHistory(r, keys)}
	for _, m := range []mpt.TrieMode{mpt.ModeLatest, mpt.ModeGC} {
		c10Run(co, "modes", c10Input{Mode: int(m), Ops: epochs})
		c10Run(co, "modes", c10Input{Mode: int(m), Ops: general})
		for _, sh := range shared {
			c10Run(co, "modes", c10Input{Mode: int(m), Ops: sh})
		}
	}
	for i := 0; i < 2; i++ {
		rep := c10ReplicatedHistory(r)
		for _, m := range []mpt.TrieMode{mpt.ModeLatest, mpt.ModeGC, mpt.ModeAll} {
			c10Run(co, "modes", c10Input{Mode: int(m), Ops: rep})
		}
	}
	if r.chance(25) {
		c10Run(co, "modes", c10Input{Mode: int(mpt.ModeAll), Ops: epochs})
	}
}

// start points around the keys below a prefix
func c10Starts(r *rng, keys [][]byte, prefix []byte) [][]byte {
	var rels [][]byte
	for _, k := range keys {
		if bytes.HasPrefix(k, prefix) {
			rels = append(rels, k[len(prefix):])
		}
	}
	out := [][]byte{{}}
	for _, rel := range rels {
		out = append(out, rel)
		if len(rel) > 0 {
			out = append(out, rel[:r.intn(len(rel))])
			x := bytes.Clone(rel)
			j := r.intn(len(x))
			x[j] += byte(1 + r.intn(2))
			out = append(out, x, x[:j+1])
			y := bytes.Clone(rel)
			y[j] -= byte(1 + r.intn(2))
			out = append(out, y, y[:j+1])
			z := bytes.Clone(rel)
			z[j] ^= 0x10
			out = append(out, z[:j+1])
		}
		out = append(out, append(bytes.Clone(rel), byte(r.intn(3))))
	}
	out = append(out, r.bytes(1), []byte{0x00}, []byte{0xFF})
	return out
}

func c10Generate(co *caseOut, r *rng, h int, tier string) {
	keys := c10Universe(r)
	nops := 4 + r.intn(28)
	if r.chance(15) {
		nops = 1 + r.intn(4)
	}
	mode := 0
	switch r.intn(6) {
	case 0:
		mode = int(mpt.ModeLatest)
	case 1:
		mode = int(mpt.ModeGC)
	}
	in := c10Input{Mode: mode, Ops: c10History(r, keys, nops, false)}
	// histories with reads in the middle (a read must not change anything) are a kind of their own
	{
		rin := c10Input{Mode: mode, Ops: c10History(r, keys, nops, true)}
		if r.chance(40) {
			rin.Ops = c10SiblingHistory(r, keys)
		}
		c10Run(co, "reads", rin)
	}
	run := func(kind string, q c10Query) {
		c := in
		c.Q = q
		c10Run(co, kind, c)
	}
	// expansion from the store matters most for the restructuring done by deletions: collapse or reopen, then delete
	if r.chance(35) {
		var ps []string
		if st0, _ := c10TryExec(in); st0 != nil {
			for k := range st0.content {
				ps = append(ps, k)
			}
		}
		sort.Strings(ps)
		if len(ps) > 0 {
			in.Ops = append(in.Ops, pick(r, []c10Op{{Op: "reopen"}, {Op: "collapse", D: 0}, {Op: "collapse", D: 1}, {Op: "collapse", D: 2}}))
			for _, k := range ps {
				if r.chance(50) {
					in.Ops = append(in.Ops, c10Op{Op: "del", K: hx([]byte(k))})
				}
			}
			if r.chance(50) {
				in.Ops = append(in.Ops, c10Op{Op: "put", K: hx(pick(r, keys)), V: hx(c10Value(r))})
			}
		}
	}
	// final content (to aim the queries)
	st, pnote := c10TryExec(in)
	if st == nil {
		co.violation("root", "panic while executing the history: "+pnote, in, nil)
		return
	}
	var present [][]byte
	for k := range st.content {
		present = append(present, []byte(k))
	}
	sort.Slice(present, func(i, j int) bool { return bytes.Compare(present[i], present[j]) < 0 })

	run("root", c10Query{})
	run("store", c10Query{})
	c10ModeRuns(co, r, keys, in.Ops)
	if h%4 == 0 {
		run("find_dirty", c10Query{Prefix: hx(pick(r, keys)[:0])})
	}
	// reads
	someKey := func() []byte {
		if len(present) > 0 && r.chance(70) {
			return pick(r, present)
		}
		k := pick(r, keys)
		if len(present) > 0 && r.chance(50) {
			k = pick(r, present)
		}
		switch r.intn(5) {
		case 0:
			return k[:r.intn(len(k)+1)]
		case 1:
			return append(bytes.Clone(k), byte(r.intn(3)))
		case 2, 3: // leaves the path of a stored key in the middle (inside an extension key, at a branch)
			x := bytes.Clone(k)
			j := r.intn(len(x))
			x[j] ^= pick(r, []byte{0x01, 0x10, 0x02, 0x20, 0x0f})
			return x
		}
		return k
	}
	for i := 0; i < 3; i++ {
		run("get", c10Query{K: hx(someKey())})
	}
	// range searches
	for i := 0; i < 8; i++ {
		k := pick(r, keys)
		prefix := k[:r.intn(len(k)+1)]
		if r.chance(25) {
			prefix = []byte{}
		}
		if r.chance(5) {
			prefix = r.bytes(1)
		}
		starts := c10Starts(r, keys, prefix)
		start := pick(r, starts)
		if len(prefix)+len(start) > 68 {
			start = start[:68-len(prefix)]
		}
		bw := r.chance(55)
		run("seek", c10Query{Prefix: hx(prefix), Start: hx(start), Backwards: bw})
		if i < 4 {
			run("seek", c10Query{Prefix: hx(prefix), Start: hx(start), Backwards: !bw})
		}
		if i < 3 {
			mx := pick(r, []int{1, 2, 3, 100, 100, 100})
			run("find", c10Query{Prefix: hx(prefix), Start: hx(start), FromNil: len(start) == 0 && r.chance(70), Max: mx})
		}
	}
	// proofs
	for i := 0; i < 2; i++ {
		run("proof", c10Query{K: hx(someKey())})
	}
	if len(present) > 0 {
		k := pick(r, present)
		k2 := pick(r, present)
		run("verify", c10Query{K: hx(k)})
		tampers := []c10Query{
			{K: hx(k), Tamper: "drop", I: r.intn(8)},
			{K: hx(k), Tamper: "dup", I: r.intn(8)},
			{K: hx(k), Tamper: "swap", I: r.intn(8), J: r.intn(8)},
			{K: hx(k), Tamper: "reverse"},
			{K: hx(k), Tamper: "replace", I: r.intn(8), Bytes: hx(r.bytes(1 + r.intn(40)))},
			{K: hx(k), Tamper: "replace_other", I: r.intn(8), J: r.intn(8)},
			{K: hx(k), Tamper: "flip", I: r.intn(8), J: r.intn(600)},
			{K: hx(k), Tamper: "junk", I: r.intn(8), Bytes: hx(r.bytes(1 + r.intn(3)))},
			{K: hx(k), Tamper: "extra", Bytes: hx(k2)},
			{K: hx(k), Tamper: "only_other", Bytes: hx(k2)},
			{K: hx(k), VK: hx(someKey())},
			{K: hx(k), VK: hx(append(bytes.Clone(k), 0))},
			{K: hx(k), RootIdx: 1 + r.intn(len(in.Ops))},
			{K: hx(k2), RootIdx: 1 + r.intn(len(in.Ops)), Tamper: "extra", Bytes: hx(k)},
		}
		nt := 4
		if tier == "thorough" {
			nt = 8
		}
		for i := 0; i < nt; i++ {
			run("verify", pick(r, tampers))
		}
	} else {
		run("verify", c10Query{K: hx(pick(r, keys))})
	}
}

// hand-built node encodings for the decoder (malformed stream)
func c10RawCases(r *rng) []c10Query {
	hh := func(b []byte) string { return hx(hash.DoubleSha256(b).BytesBE()) }
	var out []c10Query
	add := func(key []byte, proofs ...[]byte) {
		var ps []string
		for _, p := range proofs {
			ps = append(ps, hx(p))
		}
		out = append(out, c10Query{Root: hh(proofs[0]), K: hx(key), Proofs: ps})
	}
	leaf := func(v ...byte) []byte { return append([]byte{2, byte(len(v))}, v...) }
	branch := func(children map[int][]byte) []byte {
		b := []byte{0}
		for i := 0; i < 17; i++ {
			if c, ok := children[i]; ok {
				b = append(b, c...)
			} else {
				b = append(b, 4)
			}
		}
		return b
	}
	ref := func(n []byte) []byte { return append([]byte{3}, hash.DoubleSha256(n).BytesBE()...) }
	add([]byte{1}, []byte{4})                                     // a stored empty node
	add([]byte{1}, append([]byte{3}, make([]byte, 32)...))        // a stored hash node
	add([]byte{1}, append([]byte{3}, r.bytes(32)...), leaf(1))    // the same, more nodes around
	add([]byte{}, leaf(0xaa))                                     // leaf at the root, empty key
	add([]byte{}, []byte{2, 0xfd, 1, 0, 0xaa})                    // non-minimal length
	add([]byte{}, []byte{2, 0xfe, 1, 0, 0, 0, 0xaa})              //
	add([]byte{}, []byte{2, 0xff, 1, 0, 0, 0, 0, 0, 0, 0, 0xaa})  //
	add([]byte{}, []byte{2, 0xff, 1, 0, 0, 0, 0, 0, 0, 1, 0xaa})  // huge length
	add([]byte{}, []byte{2, 0xfe, 4, 0, 1, 0, 0xaa})              // 65540 > MaxValueLength
	add([]byte{}, append(leaf(0xaa), 0xff, 0xee))                 // trailing bytes
	add([]byte{}, []byte{2, 5, 1, 2})                             // truncated
	add([]byte{}, []byte{5, 1, 2})                                // unknown type
	add([]byte{}, []byte{})                                       // empty string
	add([]byte{}, []byte{1, 0, 2, 1, 0xcc})                       // extension with empty key and inline leaf
	add([]byte{0x12}, []byte{1, 2, 1, 2, 2, 1, 0xcc})             // extension with inline leaf
	add([]byte{0x12}, []byte{1, 2, 1, 0x12, 2, 1, 0xcc})          // extension key byte is not a nibble
	i, j := r.intn(16), r.intn(16)
	inner := branch(map[int][]byte{j: leaf(0xbb), 16: leaf(0xdd)})
	add([]byte{byte(i<<4 | j)}, branch(map[int][]byte{i: inner}))                     // inline branch with inline leaves
	add([]byte{}, branch(map[int][]byte{16: leaf(0xdd)}))                             // inline value child
	add([]byte{byte(i<<4 | j)}, branch(map[int][]byte{i: ref(inner)}), inner)         // canonical reference
	add([]byte{byte(i<<4 | j)}, branch(map[int][]byte{i: ref(inner)}))                // missing node
	add([]byte{byte(i<<4 | j)}, branch(map[int][]byte{i: ref(inner)}), inner, inner)  // duplicate
	deep := leaf(0xee)
	for k := 0; k < 140; k++ {
		deep = append([]byte{1, 0}, deep...)
	}
	add([]byte{}, deep) // nesting deeper than maxPathLength
	deep = leaf(0xee)
	for k := 0; k < 130; k++ {
		deep = append([]byte{1, 0}, deep...)
	}
	add([]byte{}, deep)
	add([]byte{}, branch(map[int][]byte{})[:10]) // truncated branch
	for k := 0; k < 6; k++ {
		add(r.bytes(r.intn(2)), r.bytes(1+r.intn(40)))
	}
	return out
}

func runC10(args []string) error {
	cf, fs := parseCommon("c10", args)
	fs.Parse(args)
	co := newCaseOut(cf.out, "Harness.C10", "N",
		"operation histories (Put/Delete/PutBatch/Flush/Collapse/reopen, modes All/Latest/GC) over colliding key sets "+
			"(every history also in ModeLatest and ModeGC with a block index per Flush, several flush epochs with node hashes that die and are re-created, then reload from the stored root, all keys re-read, GetProof+VerifyProof of all stored keys, further updates) "+
			"(prefixes of each other, shared nibble prefixes, nibbles 0 and 15, 68-byte keys, equal and empty values), each with one observation: "+
			"StateRoot, Get, Find, TrieStore.Seek (both directions, start points around the keys), GetProof, VerifyProof on genuine and tampered proofs, "+
			"the DataMPT records of the store after a final Flush (read back by the model's lazy expansion); "+
			"hand-built node encodings for the decoder; SHA-256 vectors. A case is non-trivial when the final content has at least 2 keys "+
			"(range searches: and the answer is non-empty; verify: at least 2 proof nodes; sha256: non-empty message); distinct by Coq term")
	co.shard = 60
	if cf.replay != "" {
		cases, err := readReplay(cf.replay)
		if err != nil {
			return err
		}
		for _, c := range cases {
			var x struct {
				Kind  string   `json:"kind"`
				Input c10Input `json:"input"`
			}
			if err := json.Unmarshal(c, &x); err != nil {
				return err
			}
			c10Run(co, x.Kind, x.Input)
		}
		return co.finish()
	}
	r := newRng(cf.seed)
	// SHA-256 against crypto/sha256
	for _, n := range []int{0, 1, 3, 55, 56, 57, 63, 64, 65, 119, 120, 128, 200} {
		c10Run(co, "sha256", c10Input{Q: c10Query{Msg: hx(r.bytes(n))}})
	}
	for _, q := range c10RawCases(r) {
		c10Run(co, "verify_raw", c10Input{Q: q})
	}
	// the length-prefix boundary of io.PutVarUint (0xFFFF is written in the 5-byte form)
	for _, n := range []int{252, 253} {
		c10Run(co, "root", c10Input{Ops: []c10Op{{Op: "put", K: "01", V: hx(bytes.Repeat([]byte{9}, n))}}})
	}
	if cf.tier == "thorough" {
		for _, n := range []int{65534, 65535, 65536, 65539, 65540} {
			c10Run(co, "root", c10Input{Ops: []c10Op{{Op: "put", K: "0102", V: hx(bytes.Repeat([]byte{3}, n))}, {Op: "put", K: "01", V: "05"}}})
		}
	}
	// argument checks
	c10Run(co, "root", c10Input{Ops: []c10Op{{Op: "put", K: "", V: "01"}, {Op: "put", K: hx(bytes.Repeat([]byte{1}, 69)), V: "01"},
		{Op: "put", K: hx(bytes.Repeat([]byte{1}, 68)), V: "01"}, {Op: "del", K: hx(bytes.Repeat([]byte{1}, 69))}, {Op: "del", K: ""},
		{Op: "batch", KV: []c10KV{{K: ""}}}}})
	for h := 0; h < cf.n; h++ {
		c10Generate(co, r, h, cf.tier)
	}
	return co.finish()
}
