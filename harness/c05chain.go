package main

// Shared chain machinery for C05 (token conservation) and C01 (replica differential):
// a neotest multi-validator chain driven from a plain binary (testing.TB shim), a fixed deterministic
// universe of accounts / candidate keys / callback contracts, operations -> transactions,
// and the dump of the NEO / GAS / Notary / Policy contract storage through Blockchain.SeekStorage.

import (
	"github.com/nspcc-dev/neo-go/pkg/smartcontract/manifest"
	"crypto/sha256"
	"encoding/binary"
	"errors"
	"fmt"
	"math/big"
	"os"
	"path/filepath"
	"runtime"
	"sort"
	"strings"
	"sync"
	"testing"

	"github.com/nspcc-dev/neo-go/pkg/compiler"
	"github.com/nspcc-dev/neo-go/pkg/config"
	"github.com/nspcc-dev/neo-go/pkg/core"
	"github.com/nspcc-dev/neo-go/pkg/core/block"
	"github.com/nspcc-dev/neo-go/pkg/core/fee"
	"github.com/nspcc-dev/neo-go/pkg/core/native/nativeids"
	"github.com/nspcc-dev/neo-go/pkg/core/native/nativenames"
	"github.com/nspcc-dev/neo-go/pkg/core/native/noderoles"
	"github.com/nspcc-dev/neo-go/pkg/core/state"
	"github.com/nspcc-dev/neo-go/pkg/core/storage"
	"github.com/nspcc-dev/neo-go/pkg/core/transaction"
	"github.com/nspcc-dev/neo-go/pkg/crypto/keys"
	"github.com/nspcc-dev/neo-go/pkg/encoding/bigint"
	"github.com/nspcc-dev/neo-go/pkg/io"
	"github.com/nspcc-dev/neo-go/pkg/neotest"
	"github.com/nspcc-dev/neo-go/pkg/neotest/chain"
	"github.com/nspcc-dev/neo-go/pkg/smartcontract"
	"github.com/nspcc-dev/neo-go/pkg/smartcontract/callflag"
	"github.com/nspcc-dev/neo-go/pkg/util"
	"github.com/nspcc-dev/neo-go/pkg/vm"
	"github.com/nspcc-dev/neo-go/pkg/vm/emit"
	"github.com/nspcc-dev/neo-go/pkg/vm/opcode"
	"github.com/nspcc-dev/neo-go/pkg/vm/stackitem"
	"github.com/nspcc-dev/neo-go/pkg/vm/vmstate"
	"github.com/nspcc-dev/neo-go/pkg/wallet"
	"go.uber.org/zap"
)

// ---------- testing.TB shim (neotest wants a testing.TB; a failed requirement becomes a panic(c05Fatal)) ----------

type c05Fatal struct{ msg string }

func (f c05Fatal) Error() string { return f.msg }

type c05TB struct {
	testing.TB
	last     string
	cleanups []func()
	dirs     []string
}

func (t *c05TB) Helper()                   {}
func (t *c05TB) Name() string              { return "nghx" }
func (t *c05TB) Logf(string, ...any)       {}
func (t *c05TB) Log(...any)                {}
func (t *c05TB) Errorf(f string, a ...any) { t.last = fmt.Sprintf(f, a...) }
func (t *c05TB) Error(a ...any)            { t.last = fmt.Sprint(a...) }
func (t *c05TB) FailNow()                  { panic(c05Fatal{t.last}) }
func (t *c05TB) Fail()                     {}
func (t *c05TB) Failed() bool              { return t.last != "" }
func (t *c05TB) Fatalf(f string, a ...any) { panic(c05Fatal{fmt.Sprintf(f, a...)}) }
func (t *c05TB) Fatal(a ...any)            { panic(c05Fatal{fmt.Sprint(a...)}) }
func (t *c05TB) Cleanup(f func())          { t.cleanups = append(t.cleanups, f) }
func (t *c05TB) TempDir() string {
	base := ""
	if st, e := os.Stat("/dev/shm"); e == nil && st.IsDir() {
		base = "/dev/shm" // memory-backed: the replicas' fsyncs cost nothing
	}
	d, err := os.MkdirTemp(base, "nghx-gov-")
	if err != nil && base != "" {
		d, err = os.MkdirTemp("", "nghx-gov-")
	}
	if err != nil {
		panic(err)
	}
	t.dirs = append(t.dirs, d)
	return d
}
func (t *c05TB) done() {
	for i := len(t.cleanups) - 1; i >= 0; i-- {
		t.cleanups[i]()
	}
	t.cleanups = nil
	for _, d := range t.dirs {
		os.RemoveAll(d)
	}
	t.dirs = nil
}

// c05Try runs f, turning a failed neotest requirement into an error.
func c05Try(f func()) (err error) {
	defer func() {
		if r := recover(); r != nil {
			if cf, ok := r.(c05Fatal); ok {
				err = cf
				return
			}
			panic(r)
		}
	}()
	f()
	return nil
}

// ---------- universe ----------

const (
	c05NPlain   = 8 // plain accounts 1..8 (own key each)
	c05NStandby = 6 // standby committee members 9..14 (single-signature address of each key)
)

// account kinds (as the model needs them: how a transfer *to* the account continues)
const (
	c05KPlain    = 0
	c05KAcceptor = 1 // deployed contract, onNEP17Payment accepts everything
	c05KNoCb     = 2 // deployed contract without onNEP17Payment (call faults)
	c05KRejector = 3 // deployed contract whose onNEP17Payment aborts
	c05KNotary   = 4
	c05KNeo      = 5
	c05KGas      = 6
	c05KNative   = 7 // other native contract (no onNEP17Payment)
)

// account indices of the fixed universe
const (
	c05AValidators = 0
	c05AAcceptor   = 15
	c05ANoCb       = 16
	c05ARejector   = 17
	c05ANotary     = 18
	c05ANeo        = 19
	c05AGas        = 20
	c05ACommittee  = 21
	c05APolicy     = 22
	c05ANone       = 23 // an address nobody controls (never funded by the setup)
	c05ANotifier   = 24 // helper of the "lim" operations; its onNEP17Payment emits (amount mod 1000) notifications (kind: acceptor)
	c05AAborter    = 25 // onNEP17Payment ABORTs (kind: rejector)
	c05ALooper     = 26 // onNEP17Payment never returns: out of gas (kind: rejector)
	c05AFixed      = 27
)

type c05Universe struct {
	mu      sync.Mutex
	hashes  []util.Uint160 // index -> script hash (grows when an unknown address shows up)
	kinds   []int
	idx     map[util.Uint160]int
	signers []neotest.Signer // for indices that can sign (0..14)
	// candidate keys: key id = rank by PublicKey.Cmp among the 14 universe keys
	keys      []*keys.PublicKey // key id -> key
	keyOfAcct map[int]int       // account index -> key id (accounts 1..14)
	acctOfKey []int             // key id -> account index
	keyIdx    map[string]int    // compressed bytes -> key id
	standby   []int             // standby committee (config order) as key ids
}

func (u *c05Universe) acct(h util.Uint160) int {
	u.mu.Lock()
	defer u.mu.Unlock()
	if i, ok := u.idx[h]; ok {
		return i
	}
	i := len(u.hashes)
	u.hashes = append(u.hashes, h)
	u.kinds = append(u.kinds, c05KPlain)
	u.idx[h] = i
	return i
}

func (u *c05Universe) key(b []byte) int {
	if i, ok := u.keyIdx[string(b)]; ok {
		return i
	}
	return 999
}

func c05PlainAccount(i int) *wallet.Account {
	for ctr := 0; ; ctr++ {
		h := sha256.Sum256([]byte(fmt.Sprintf("verif-gov-account-%d-%d", i, ctr)))
		pk, err := keys.NewPrivateKeyFromBytes(h[:])
		if err == nil {
			return wallet.NewAccountFromPrivateKey(pk)
		}
	}
}

// ---------- callback contracts (compiled once per process) ----------

const c05SrcAcceptor = `package acceptor
import "github.com/nspcc-dev/neo-go/pkg/interop"
func OnNEP17Payment(from interop.Hash160, amount int, data any) {}
`
const c05SrcNoCb = `package nocb
func Dummy() int { return 1 }
`
const c05SrcRejector = `package rejector
import "github.com/nspcc-dev/neo-go/pkg/interop"
func OnNEP17Payment(from interop.Hash160, amount int, data any) { panic("payment refused") }
`

// notifier: the helper of the "lim" operations (NotifyN(n) emits n notifications); as a receiver its callback emits
// (amount mod 1000) notifications.  aborter / looper: callbacks that ABORT / never return (run out of gas).
const c05SrcNotifier = `package notifier
import (
	"github.com/nspcc-dev/neo-go/pkg/interop"
	"github.com/nspcc-dev/neo-go/pkg/interop/runtime"
)
func NotifyN(n int) {
	for i := 0; i < n; i++ {
		runtime.Notify("N", i)
	}
}
func OnNEP17Payment(from interop.Hash160, amount int, data any) { NotifyN(amount % 1000) }
`
const c05SrcAborter = `package aborter
import (
	"github.com/nspcc-dev/neo-go/pkg/interop"
	"github.com/nspcc-dev/neo-go/pkg/interop/util"
)
func OnNEP17Payment(from interop.Hash160, amount int, data any) { util.Abort() }
`
const c05SrcLooper = `package looper
import "github.com/nspcc-dev/neo-go/pkg/interop"
func OnNEP17Payment(from interop.Hash160, amount int, data any) {
	x := 0
	for {
		x++
	}
}
`

type c05Compiled struct{ acceptor, nocb, rejector, notifier, aborter, looper *neotest.Contract }

var c05Contracts *c05Compiled

// c05InHarnessDir runs f with the harness source directory as working directory: the contract compiler resolves
// the interop packages through the module the working directory belongs to (the harness module replaces neo-go by
// the repository under test).
func c05InHarnessDir(f func()) {
	_, file, _, ok := runtime.Caller(0)
	old, err := os.Getwd()
	if ok && err == nil {
		if os.Chdir(filepath.Dir(file)) == nil {
			defer os.Chdir(old)
		}
	}
	f()
}

func c05Compile(t testing.TB, sender util.Uint160) *c05Compiled {
	if c05Contracts == nil {
		mk := func(name, src string) *neotest.Contract {
			return neotest.CompileSource(t, sender, strings.NewReader(src), &compiler.Options{Name: name, NoEventsCheck: true, NoPermissionsCheck: true})
		}
		c05InHarnessDir(func() {
			c05Contracts = &c05Compiled{acceptor: mk("verif-acceptor", c05SrcAcceptor), nocb: mk("verif-nocb", c05SrcNoCb), rejector: mk("verif-rejector", c05SrcRejector),
				aborter: mk("verif-aborter", c05SrcAborter), looper: mk("verif-looper", c05SrcLooper)}
			c05Contracts.notifier = neotest.CompileSource(t, sender, strings.NewReader(c05SrcNotifier), &compiler.Options{Name: "verif-notifier", NoPermissionsCheck: true,
				ContractEvents: []compiler.HybridEvent{{Name: "N", Parameters: []compiler.HybridParameter{{Parameter: manifest.NewParameter("i", smartcontract.IntegerType)}}}}})
		})
	}
	return c05Contracts
}

// ---------- chain ----------

type c05Chain struct {
	t     *c05TB
	bc    *core.Blockchain
	e     *neotest.Executor
	u     *c05Universe
	nonce uint32
	neoH  util.Uint160
	gasH  util.Uint160
	polH  util.Uint160
	notH  util.Uint160
	mgmtH util.Uint160
	desH  util.Uint160
	csz   int // committee size
	nval  int // validators count
}

// c05Hardforks: "all" = every hard-fork from genesis; "gorgon" = up to Gorgon (no Huyao); "echidna" = up to Echidna
func c05Hardforks(mode string) map[string]uint32 {
	m := map[string]uint32{}
	for _, hf := range config.Hardforks {
		if mode == "echidna" && hf.Cmp(config.HFEchidna) > 0 {
			continue
		}
		if mode == "domovoi" && hf.Cmp(config.HFDomovoi) > 0 { // the last hard-fork before Echidna
			continue
		}
		if mode == "gorgon" && hf.Cmp(config.HFGorgon) > 0 {
			continue
		}
		m[hf.String()] = 0
	}
	return m
}

func c05NewChain(t *c05TB, hook func(*config.Blockchain), st storage.Store) (*core.Blockchain, neotest.Signer, neotest.Signer, error) {
	bc, v, c, err := chain.NewMultiWithOptionsNoCheck(t, &chain.Options{
		Logger:               zap.NewNop(),
		BlockchainConfigHook: hook,
		Store:                st,
		SkipRun:              true,
	})
	if err != nil {
		return nil, nil, nil, err
	}
	go bc.Run()
	return bc, v, c, nil
}

// c05Setup creates the chain and the fixed universe; the three callback contracts are deployed in block 1 by
// c05NewRunner (a fixed prelude: it moves no NEO and only burns deployment fees).
func c05Setup(t *c05TB, hfmode string, hook func(*config.Blockchain)) (*c05Chain, error) {
	bc, validators, committee, err := c05NewChain(t, func(c *config.Blockchain) {
		c.Hardforks = c05Hardforks(hfmode)
		c.P2PSigExtensions = true
		if hook != nil {
			hook(c)
		}
	}, nil)
	if err != nil {
		return nil, err
	}
	c := &c05Chain{t: t, bc: bc}
	c.e = neotest.NewExecutor(t, bc, validators, committee)
	c.neoH = c.e.NativeHash(t, nativenames.Neo)
	c.gasH = c.e.NativeHash(t, nativenames.Gas)
	c.polH = c.e.NativeHash(t, nativenames.Policy)
	c.notH = c.e.NativeHash(t, nativenames.Notary)
	c.mgmtH = c.e.NativeHash(t, nativenames.Management)
	c.desH = c.e.NativeHash(t, nativenames.Designation)
	cfg := bc.GetConfig()
	c.csz = cfg.GetCommitteeSize(0)
	c.nval = cfg.GetNumOfCNs(0)

	u := &c05Universe{idx: map[util.Uint160]int{}, keyOfAcct: map[int]int{}, keyIdx: map[string]int{}}
	c.u = u
	add := func(h util.Uint160, kind int, s neotest.Signer) {
		u.idx[h] = len(u.hashes)
		u.hashes = append(u.hashes, h)
		u.kinds = append(u.kinds, kind)
		u.signers = append(u.signers, s)
	}
	add(validators.ScriptHash(), c05KPlain, validators)
	type ka struct {
		k *keys.PublicKey
		a int
	}
	var kas []ka
	for i := 1; i <= c05NPlain; i++ {
		acc := c05PlainAccount(i)
		add(acc.ScriptHash(), c05KPlain, neotest.NewSingleSigner(acc))
		kas = append(kas, ka{acc.PublicKey(), i})
	}
	sb, err := keys.NewPublicKeysFromStrings(cfg.StandbyCommittee)
	if err != nil {
		return nil, err
	}
	cm := committee.(neotest.MultiSigner)
	for i := 0; i < c05NStandby; i++ {
		s := cm.Single(i)
		acc := wallet.NewAccountFromPrivateKey(s.Account().PrivateKey())
		add(acc.ScriptHash(), c05KPlain, neotest.NewSingleSigner(acc))
		kas = append(kas, ka{acc.PublicKey(), 1 + c05NPlain + i})
	}
	sort.Slice(kas, func(i, j int) bool { return kas[i].k.Cmp(kas[j].k) < 0 })
	for id, x := range kas {
		u.keys = append(u.keys, x.k)
		u.keyOfAcct[x.a] = id
		u.acctOfKey = append(u.acctOfKey, x.a)
		u.keyIdx[string(x.k.Bytes())] = id
	}
	for _, k := range sb[:c.csz] {
		u.standby = append(u.standby, u.key(k.Bytes()))
	}
	cs := c05Compile(t, validators.ScriptHash())
	add(cs.acceptor.Hash, c05KAcceptor, nil)
	add(cs.nocb.Hash, c05KNoCb, nil)
	add(cs.rejector.Hash, c05KRejector, nil)
	add(c.notH, c05KNotary, nil)
	add(c.neoH, c05KNeo, nil)
	add(c.gasH, c05KGas, nil)
	add(committee.ScriptHash(), c05KPlain, committee)
	add(c.polH, c05KNative, nil)
	add(util.Uint160{0xde, 0xad, 0xbe, 0xef, 1, 2, 3}, c05KPlain, nil)
	add(cs.notifier.Hash, c05KAcceptor, nil)
	add(cs.aborter.Hash, c05KRejector, nil)
	add(cs.looper.Hash, c05KRejector, nil)
	if len(u.hashes) != c05AFixed {
		return nil, errors.New("universe layout")
	}
	if err := c01RegisterContracts(t, u); err != nil {
		return nil, err
	}
	return c, nil
}

func (c *c05Chain) close() {
	c.bc.Close()
	c.t.done()
}

// mkTx builds and signs a transaction calling hash.method(args) — or running the raw script when script != nil —
// with a fixed system fee; signer indices refer to the universe, the first one pays.
func (c *c05Chain) mkTx(h util.Uint160, method string, args []any, sysFee int64, script []byte, signerIdx ...int) (tx *transaction.Transaction, err error) {
	err = c05Try(func() {
		if script == nil {
			w := io.NewBufBinWriter()
			emit.AppCall(w.BinWriter, h, method, callflag.All, args...)
			if w.Err != nil {
				panic(c05Fatal{w.Err.Error()})
			}
			script = w.Bytes()
		}
		tx = transaction.New(script, 0)
		c.nonce++
		tx.Nonce = c.nonce
		tx.ValidUntilBlock = c.bc.BlockHeight() + 1
		var ss []neotest.Signer
		for _, i := range signerIdx {
			if i == c05ACommittee {
				ss = append(ss, c.committeeSigner())
				continue
			}
			ss = append(ss, c.u.signers[i])
		}
		c.e.SignTx(c.t, tx, sysFee, ss...)
	})
	return
}

// c05NotaryTx builds a transaction with the NotaryAssisted attribute, witnessed for the Notary contract by the first
// designated P2PNotary node (the universe holds its private key).  K = 0: signers [Notary (scope None), payer F]: the
// fees are burnt from the Notary contract and charged to F's deposit by Notary.OnPersist;  K != 0: signers [F, Notary].
// nil, nil = cannot be built now (no notary node designated / the node is not of the universe).
func (c *c05Chain) c05NotaryTx(op c05Op) (tx *transaction.Transaction, err error) {
	err = c05Try(func() {
		u := c.u
		if op.F <= 0 || op.F >= len(u.signers) || u.signers[op.F] == nil || op.To < 0 || op.To >= len(u.hashes) {
			return
		}
		payer, ok := u.signers[op.F].(neotest.SingleSigner)
		if !ok {
			return
		}
		nodes, _, e := c.bc.GetDesignatedByRole(noderoles.P2PNotary)
		if e != nil || len(nodes) == 0 {
			return
		}
		k := u.key(nodes[0].Bytes())
		if k == 999 {
			return
		}
		node, ok := u.signers[u.acctOfKey[k]].(neotest.SingleSigner)
		if !ok {
			return
		}
		w := io.NewBufBinWriter()
		emit.AppCall(w.BinWriter, c.gasH, "transfer", callflag.All, u.hashes[op.F], u.hashes[op.To], op.A, nil)
		t := transaction.New(w.Bytes(), c05FeeSimple)
		c.nonce++
		t.Nonce = c.nonce
		t.ValidUntilBlock = c.bc.BlockHeight() + 1
		t.Attributes = []transaction.Attribute{{Type: transaction.NotaryAssistedT, Value: &transaction.NotaryAssisted{NKeys: uint8(op.N)}}}
		ns := transaction.Signer{Account: c.notH, Scopes: transaction.None}
		ps := transaction.Signer{Account: payer.ScriptHash(), Scopes: transaction.Global}
		if op.K == 0 {
			t.Signers = []transaction.Signer{ns, ps}
		} else {
			t.Signers = []transaction.Signer{ps, ns}
		}
		base := c.bc.GetBaseExecFee()
		nf, sz := fee.Calculate(base, payer.Script())
		size := io.GetVarSize(t) + sz + 68 // the Notary witness: 66 bytes of invocation script, no verification script
		t.NetworkFee = nf + int64(size)*c.bc.FeePerByte() + c.bc.CalculateAttributesFee(t) + vm.PicoGasToDatoshiInt64(40000*base) + 10_0000
		if op.W == 1 && op.K == 0 { // the fees are exactly the deposit
			if d := c.bc.GetUtilityTokenBalance(c.notH, payer.ScriptHash()).Int64(); d-t.SystemFee >= t.NetworkFee {
				t.NetworkFee = d - t.SystemFee
			}
		}
		if os.Getenv("VERIF_DEBUG") != "" {
			fmt.Fprintf(os.Stderr, "na %+v: deposit %v fees %d+%d node key %d height %d\n", op, c.bc.GetUtilityTokenBalance(c.notH, payer.ScriptHash()), t.SystemFee, t.NetworkFee, k, c.bc.BlockHeight())
		}
		magic := uint32(c.bc.GetConfig().Magic)
		nw := transaction.Witness{InvocationScript: node.SignHashable(magic, t), VerificationScript: []byte{}}
		pw := transaction.Witness{InvocationScript: payer.SignHashable(magic, t), VerificationScript: payer.Script()}
		if op.K == 0 {
			t.Scripts = []transaction.Witness{nw, pw}
		} else {
			t.Scripts = []transaction.Witness{pw, nw}
		}
		tx = t
	})
	return
}

// c05Set2: the single-setting operations a "set2" transaction consists of.
func c05Set2(op c05Op) (string, [2]c05Op) {
	name := []string{"setgpb", "setreg", "setfpb", "setexec", "setstor", "setattr"}[((op.K%6)+6)%6]
	a, b := c05Op{T: name, A: op.A}, c05Op{T: name, A: int64(op.N)}
	if name == "setattr" {
		a.N, b.N = 0x22, 0x22
	}
	return name, [2]c05Op{a, b}
}

// mkTxGroupScoped: like mkTx for one signer whose scope is CustomGroups{universe key k} instead of Global.
func (c *c05Chain) mkTxGroupScoped(h util.Uint160, method string, args []any, sysFee int64, signerIdx, k int) (tx *transaction.Transaction, err error) {
	err = c05Try(func() {
		if signerIdx < 0 || signerIdx >= len(c.u.signers) || c.u.signers[signerIdx] == nil {
			panic(c05Fatal{"no signer"})
		}
		w := io.NewBufBinWriter()
		emit.AppCall(w.BinWriter, h, method, callflag.All, args...)
		tx = transaction.New(w.Bytes(), 0)
		c.nonce++
		tx.Nonce = c.nonce
		tx.ValidUntilBlock = c.bc.BlockHeight() + 1
		sg := c.u.signers[signerIdx]
		tx.Signers = []transaction.Signer{{Account: sg.ScriptHash(), Scopes: transaction.CustomGroups, AllowedGroups: []*keys.PublicKey{c.u.keys[k]}}}
		neotest.AddNetworkFee(c.t, c.bc, tx, sg)
		c.e.AddSystemFee(tx, sysFee)
		if e := sg.SignTx(c.bc.GetConfig().Magic, tx); e != nil {
			panic(c05Fatal{e.Error()})
		}
	})
	return
}

// committeeSigner builds the majority multi-signature signer of the committee the chain has NOW (the universe
// holds every private key): committee-only methods check the witness of the current committee address, which
// changes when candidates are voted in.
func (c *c05Chain) committeeSigner() neotest.Signer {
	pubs, err := c.bc.GetCommittee()
	if err != nil {
		panic(c05Fatal{"GetCommittee: " + err.Error()})
	}
	m := smartcontract.GetMajorityHonestNodeCount(len(pubs))
	var accs []*wallet.Account
	for _, p := range pubs {
		k := c.u.key(p.Bytes())
		if k == 999 {
			panic(c05Fatal{"committee member outside the universe"})
		}
		priv := c.u.signers[c.u.acctOfKey[k]].(neotest.SingleSigner).Account().PrivateKey()
		a := wallet.NewAccountFromPrivateKey(priv)
		if err := a.ConvertMultisig(m, pubs); err != nil {
			panic(c05Fatal{err.Error()})
		}
		accs = append(accs, a)
	}
	return neotest.NewMultiSigner(accs...)
}

func (c *c05Chain) addBlock(txs []*transaction.Transaction) (b *block.Block, err error) {
	err = c05Try(func() {
		b = c.e.NewUnsignedBlock(c.t, txs...)
		c.e.SignBlock(b)
		if e := c.bc.AddBlock(b); e != nil {
			panic(c05Fatal{"AddBlock: " + e.Error()})
		}
	})
	return
}

// ---------- operations ----------

// c05Op is one element of a case's "ops" list.  Account fields are universe indices, K is a key id.
type c05Op struct {
	T  string `json:"t"`
	F  int    `json:"f,omitempty"`  // acting account (signs and pays)
	To int    `json:"to,omitempty"` // receiver / target account
	A  int64  `json:"a,omitempty"`  // amount / value
	K  int    `json:"k,omitempty"`  // candidate key id, -1 = none
	N  int    `json:"n,omitempty"`  // count / height / attribute type
	W  int    `json:"w,omitempty"`  // witness: account whose funds are moved when it differs from F ("bad witness" transfers)
	P  int    `json:"p,omitempty"`  // "lim": notifications emitted after the native call (N = before it)
}

const (
	c05FeeSimple   = 2_0000_0000    // 2 GAS: plenty for one native call incl. nested mints and callbacks
	c05FeeRegister = 1010_0000_0000 // registerCandidate burns the register price (1000 GAS by default) as execution fee
)

// c05BuildTx turns an operation into a transaction (nil, nil = not a transaction-producing operation).
func (c *c05Chain) c05BuildTx(op c05Op) (*transaction.Transaction, error) {
	u := c.u
	if op.F < 0 || op.F >= len(u.signers) || u.signers[op.F] == nil {
		return nil, fmt.Errorf("account %d cannot sign", op.F)
	}
	h := func(i int) util.Uint160 {
		if i == c05AReenterA || i == c05AReenterB { // the re-entering receivers (harness/c05reent.go)
			if ct, err := c05ReenterContract(c.t, u.hashes[c05AValidators], i-c05AReenterA); err == nil {
				return ct.Hash
			}
		}
		if i > 100 && i <= 114 { // the storage contract deployed by account i-100 (harness/c01.go)
			if cc, err := c01Compile(c.t, u.hashes[i-100]); err == nil {
				return cc.v1.Hash
			}
		}
		if i < 0 || i >= len(u.hashes) {
			return util.Uint160{}
		}
		return u.hashes[i]
	}
	keyB := func(k int) any {
		if k < 0 || k >= len(u.keys) {
			return nil
		}
		return u.keys[k].Bytes()
	}
	from := op.F
	if op.W != 0 {
		from = op.W
	}
	switch op.T {
	case "nt": // NEO transfer
		return c.mkTx(c.neoH, "transfer", []any{h(from), h(op.To), op.A, nil}, c05FeeSimple, nil, op.F)
	case "gt": // GAS transfer
		return c.mkTx(c.gasH, "transfer", []any{h(from), h(op.To), op.A, nil}, c05FeeSimple, nil, op.F)
	case "vote": // To > 0: vote for the key of account To; otherwise key id K (-1 = remove the vote)
		if op.To > 0 {
			if k, ok := u.keyOfAcct[op.To]; ok {
				op.K = k
			}
		}
		return c.mkTx(c.neoH, "vote", []any{h(from), keyB(op.K)}, c05FeeSimple, nil, op.F)
	case "reg": // registerCandidate with the actor's own key (To > 0: with the key of account To, which does not sign)
		k := u.keyOfAcct[op.F]
		if op.To > 0 {
			if kk, ok := u.keyOfAcct[op.To]; ok {
				k = kk
			}
		}
		price := c05Big(c05DumpChain(c.bc, c.u).RegPrice).Int64()
		return c.mkTx(c.neoH, "registerCandidate", []any{keyB(k)}, price+10_0000_0000, nil, op.F)
	case "regpay": // registration by GAS payment to the NEO contract (Echidna): amount A, data = own key
		return c.mkTx(c.gasH, "transfer", []any{h(op.F), c.neoH, op.A, keyB(u.keyOfAcct[op.F])}, c05FeeSimple, nil, op.F)
	case "unreg":
		return c.mkTx(c.neoH, "unregisterCandidate", []any{keyB(u.keyOfAcct[op.F])}, c05FeeSimple, nil, op.F)
	case "dep": // notary deposit: GAS transfer to Notary, data = [to|nil, till]
		var to any
		if op.To != 0 {
			to = h(op.To)
		}
		return c.mkTx(c.gasH, "transfer", []any{h(op.F), c.notH, op.A, []any{to, int64(op.N)}}, c05FeeSimple, nil, op.F)
	case "wd": // notary withdraw(from, to)
		var to any
		if op.To != 0 {
			to = h(op.To)
		}
		return c.mkTx(c.notH, "withdraw", []any{h(from), to}, c05FeeSimple, nil, op.F)
	case "lock":
		return c.mkTx(c.notH, "lockDepositUntil", []any{h(op.F), int64(op.N)}, c05FeeSimple, nil, op.F)
	case "na": // a GAS transfer F -> To of A carrying NotaryAssisted{NKeys: N}; K = 0: sent by the Notary contract, K != 0: by F
		return c.c05NotaryTx(op)
	case "lim":
		return c.c05LimTx(op)
	case "rdeploy", "rcfg":
		return c.c05ReentTx(op)
	case "fault": // moves NEO and GAS, then aborts: everything but the fee is rolled back
		w := io.NewBufBinWriter()
		emit.AppCall(w.BinWriter, c.neoH, "transfer", callflag.All, h(op.F), h(op.To), op.A, nil)
		emit.Opcodes(w.BinWriter, opcode.DROP)
		emit.AppCall(w.BinWriter, c.gasH, "transfer", callflag.All, h(op.F), h(op.To), op.A, nil)
		emit.Opcodes(w.BinWriter, opcode.DROP, opcode.ABORT)
		return c.mkTx(util.Uint160{}, "", nil, 2*c05FeeSimple, w.Bytes(), op.F)
	case "oog": // a transfer with a system fee too small to finish: faults by gas exhaustion
		return c.mkTx(c.neoH, "transfer", []any{h(op.F), h(op.To), op.A, nil}, 100_0000, nil, op.F)
	// committee operations (validators pay, committee witnesses)
	case "setgpb":
		return c.mkTx(c.neoH, "setGasPerBlock", []any{op.A}, c05FeeSimple, nil, c05AValidators, c05ACommittee)
	case "setreg":
		return c.mkTx(c.neoH, "setRegisterPrice", []any{op.A}, c05FeeSimple, nil, c05AValidators, c05ACommittee)
	case "block":
		return c.mkTx(c.polH, "blockAccount", []any{h(op.To)}, c05FeeSimple, nil, c05AValidators, c05ACommittee)
	case "unblock":
		return c.mkTx(c.polH, "unblockAccount", []any{h(op.To)}, c05FeeSimple, nil, c05AValidators, c05ACommittee)
	case "setfpb":
		return c.mkTx(c.polH, "setFeePerByte", []any{op.A}, c05FeeSimple, nil, c05AValidators, c05ACommittee)
	case "setexec":
		return c.mkTx(c.polH, "setExecFeeFactor", []any{op.A}, c05FeeSimple, nil, c05AValidators, c05ACommittee)
	case "setstor":
		return c.mkTx(c.polH, "setStoragePrice", []any{op.A}, c05FeeSimple, nil, c05AValidators, c05ACommittee)
	case "set2": // the same committee setting updated twice in ONE transaction: K selects it, values A then N
		name, _ := c05Set2(op)
		w := io.NewBufBinWriter()
		for _, v := range []int64{op.A, int64(op.N)} {
			switch name {
			case "setgpb":
				emit.AppCall(w.BinWriter, c.neoH, "setGasPerBlock", callflag.All, v)
			case "setreg":
				emit.AppCall(w.BinWriter, c.neoH, "setRegisterPrice", callflag.All, v)
			case "setfpb":
				emit.AppCall(w.BinWriter, c.polH, "setFeePerByte", callflag.All, v)
			case "setexec":
				emit.AppCall(w.BinWriter, c.polH, "setExecFeeFactor", callflag.All, v)
			case "setstor":
				emit.AppCall(w.BinWriter, c.polH, "setStoragePrice", callflag.All, v)
			default:
				emit.AppCall(w.BinWriter, c.polH, "setAttributeFee", callflag.All, int64(0x22), v)
			}
			emit.Opcodes(w.BinWriter, opcode.DROP)
		}
		return c.mkTx(util.Uint160{}, "", nil, 2*c05FeeSimple, w.Bytes(), c05AValidators, c05ACommittee)
	case "setattr":
		return c.mkTx(c.polH, "setAttributeFee", []any{int64(op.N), op.A}, c05FeeSimple, nil, c05AValidators, c05ACommittee)
	}
	return c.c01BuildTx(op)
}

// ---------- storage dump ----------

type c05NeoAcc struct {
	A      int    `json:"a"`
	Bal    string `json:"bal"`
	Height uint32 `json:"h"`
	Vote   int    `json:"vote"` // key id, -1 = none
	LGPV   string `json:"lgpv"`
}
type c05Bal struct {
	A   int    `json:"a"`
	Bal string `json:"bal"`
}
type c05Cand struct {
	K     int    `json:"k"`
	Reg   bool   `json:"reg"`
	Votes string `json:"votes"`
}
type c05KV struct {
	K int    `json:"k"`
	V string `json:"v"`
}
type c05Dep struct {
	A      int    `json:"a"`
	Amount string `json:"amount"`
	Till   uint32 `json:"till"`
}
type c05Dump struct {
	Height      uint32      `json:"height"`
	NeoTotal    string      `json:"neo_total"`
	GasTotal    string      `json:"gas_total"`
	VotersCount string      `json:"voters_count"`
	Neo         []c05NeoAcc `json:"neo"`
	Gas         []c05Bal    `json:"gas"`
	Cands       []c05Cand   `json:"cands"`
	GPV         []c05KV     `json:"gpv"`
	Deposits    []c05Dep    `json:"deposits"`
	Committee   []c05KV     `json:"committee"` // the stored committee (key, votes at the time it was computed)
	GasPerBlock []c05KV     `json:"gas_per_block"`
	RegPrice    string      `json:"reg_price"`
	Blocked     []int       `json:"blocked"`
	Bad         []string    `json:"bad,omitempty"` // undecodable items
}

func c05Dec(b []byte) *big.Int {
	if b == nil {
		return new(big.Int)
	}
	return bigint.FromBytes(b)
}

// c05DumpChain reads the raw storage items of the NEO, GAS, Notary and Policy contracts and decodes them with the state types.
func c05DumpChain(bc *core.Blockchain, u *c05Universe) *c05Dump {
	d := &c05Dump{Height: bc.BlockHeight()}
	bad := func(f string, a ...any) { d.Bad = append(d.Bad, fmt.Sprintf(f, a...)) }
	hashOf := func(k []byte) (util.Uint160, bool) {
		h, err := util.Uint160DecodeBytesBE(k)
		return h, err == nil
	}
	bc.SeekStorage(nativeids.NeoToken, []byte{20}, func(k, v []byte) bool {
		h, ok := hashOf(k)
		b, err := state.NEOBalanceFromBytes(v)
		if !ok || err != nil {
			bad("NEO account %x: %v", k, err)
			return true
		}
		vote := -1
		if b.VoteTo != nil {
			vote = u.key(b.VoteTo.Bytes())
		}
		d.Neo = append(d.Neo, c05NeoAcc{u.acct(h), b.Balance.String(), b.BalanceHeight, vote, b.LastGasPerVote.String()})
		return true
	})
	bc.SeekStorage(nativeids.GasToken, []byte{20}, func(k, v []byte) bool {
		h, ok := hashOf(k)
		b, err := state.NEP17BalanceFromBytes(v)
		if !ok || err != nil {
			bad("GAS account %x: %v", k, err)
			return true
		}
		d.Gas = append(d.Gas, c05Bal{u.acct(h), b.Balance.String()})
		return true
	})
	d.NeoTotal = c05Dec(bc.GetStorageItem(nativeids.NeoToken, []byte{11})).String()
	d.GasTotal = c05Dec(bc.GetStorageItem(nativeids.GasToken, []byte{11})).String()
	d.VotersCount = c05Dec(bc.GetStorageItem(nativeids.NeoToken, []byte{1})).String()
	d.RegPrice = c05Dec(bc.GetStorageItem(nativeids.NeoToken, []byte{13})).String()
	bc.SeekStorage(nativeids.NeoToken, []byte{33}, func(k, v []byte) bool {
		it, err := stackitem.Deserialize(v)
		if err != nil {
			bad("candidate %x: %v", k, err)
			return true
		}
		arr, ok := it.Value().([]stackitem.Item)
		if !ok || len(arr) != 2 {
			bad("candidate %x: shape", k)
			return true
		}
		reg, _ := arr[0].TryBool()
		votes, err := arr[1].TryInteger()
		if err != nil {
			bad("candidate %x: votes", k)
			return true
		}
		d.Cands = append(d.Cands, c05Cand{u.key(k), reg, votes.String()})
		return true
	})
	bc.SeekStorage(nativeids.NeoToken, []byte{23}, func(k, v []byte) bool {
		d.GPV = append(d.GPV, c05KV{u.key(k), c05Dec(v).String()})
		return true
	})
	bc.SeekStorage(nativeids.NeoToken, []byte{29}, func(k, v []byte) bool {
		if len(k) != 4 {
			bad("gas record key %x", k)
			return true
		}
		d.GasPerBlock = append(d.GasPerBlock, c05KV{int(binary.BigEndian.Uint32(k)), c05Dec(v).String()})
		return true
	})
	if ci := bc.GetStorageItem(nativeids.NeoToken, []byte{14}); ci != nil {
		it, err := stackitem.Deserialize(ci)
		if err != nil {
			bad("committee: %v", err)
		} else if arr, ok := it.Value().([]stackitem.Item); ok {
			for _, x := range arr {
				s, ok := x.Value().([]stackitem.Item)
				if !ok || len(s) != 2 {
					bad("committee element shape")
					continue
				}
				kb, _ := s[0].TryBytes()
				vs, _ := s[1].TryInteger()
				d.Committee = append(d.Committee, c05KV{u.key(kb), vs.String()})
			}
		}
	}
	bc.SeekStorage(nativeids.Notary, []byte{1}, func(k, v []byte) bool {
		h, ok := hashOf(k)
		dep := new(state.Deposit)
		err := stackitem.DeserializeConvertible(v, dep)
		if !ok || err != nil {
			bad("deposit %x: %v", k, err)
			return true
		}
		d.Deposits = append(d.Deposits, c05Dep{u.acct(h), dep.Amount.String(), dep.Till})
		return true
	})
	bc.SeekStorage(nativeids.PolicyContract, []byte{15}, func(k, v []byte) bool {
		h, ok := hashOf(k)
		if !ok {
			bad("blocked key %x", k)
			return true
		}
		d.Blocked = append(d.Blocked, u.acct(h))
		return true
	})
	return d
}

// ---------- Transfer events ----------

type c05Event struct {
	Tok  int    `json:"tok"`  // 0 NEO, 1 GAS
	From int    `json:"from"` // -1 = null (mint)
	To   int    `json:"to"`   // -1 = null (burn)
	Amt  string `json:"amt"`
}

func (c *c05Chain) transferEvents(aer *state.AppExecResult) []c05Event {
	var out []c05Event
	if aer.VMState != vmstate.Halt {
		return nil
	}
	for _, ev := range aer.Events {
		if ev.Name != "Transfer" || (ev.ScriptHash != c.neoH && ev.ScriptHash != c.gasH) {
			continue
		}
		arr := ev.Item.Value().([]stackitem.Item)
		side := func(it stackitem.Item) int {
			if _, ok := it.(stackitem.Null); ok {
				return -1
			}
			b, _ := it.TryBytes()
			h, err := util.Uint160DecodeBytesBE(b)
			if err != nil {
				return 999
			}
			return c.u.acct(h)
		}
		amt, _ := arr[2].TryInteger()
		tok := 0
		if ev.ScriptHash == c.gasH {
			tok = 1
		}
		out = append(out, c05Event{tok, side(arr[0]), side(arr[1]), amt.String()})
	}
	return out
}
