package main

import (
	"fmt"

	"github.com/nspcc-dev/neo-go/pkg/core/block"
	nio "github.com/nspcc-dev/neo-go/pkg/io"
	"github.com/nspcc-dev/neo-go/pkg/neotest"
)

// c06H6 decides hypothesis H2/H6 on a production backend: block n is accepted and still sits in the write
// cache (not flushed); block n+1 is then REJECTED by storeBlock after its trie batch was applied (the
// recorded header n+2 commits to another root).  After a flush the database must equal that of a control
// replica that never saw the rejected block.  Returns a description of the difference ("" = none).
func c06H6(in c06Input, backend string) (string, string, error) {
	b, err := c02Build(c02History{Cfg: in.Cfg, Blocks: in.Blocks})
	if err != nil {
		return "", "", err
	}
	defer b.close()
	top := uint32(len(b.Blocks) - 1)
	if top < 3 {
		return "", "", nil
	}
	cfg := in.Cfg
	cfg.Backend = backend
	n := top - 2 // replicas are flushed at n-1... blocks n, n+1 = top-1, header n+2 = top
	run := func(attack bool) (map[string][]byte, string, error) {
		st, err := c02NewStore(backend)
		if err != nil {
			return nil, "", err
		}
		defer st.destroy()
		bc, vs, fail := c02Open(c02NoClose{st.st}, cfg, nil)
		if fail != "" {
			return nil, "", fmt.Errorf("%s", fail)
		}
		go bc.Run()
		defer bc.Close()
		for i := uint32(1); i < n; i++ {
			if err := bc.AddBlock(b.Blocks[i]); err != nil {
				return nil, "", err
			}
		}
		bc.VerifPersist()
		if err := bc.AddBlock(b.Blocks[n]); err != nil { // stays in the write cache
			return nil, "", err
		}
		verdict := ""
		if attack {
			w := nio.NewBufBinWriter()
			b.Blocks[n+2].Header.EncodeBinary(w.BinWriter)
			h2 := &block.Header{StateRootEnabled: true}
			r := nio.NewBinReaderFromBuf(w.Bytes())
			h2.DecodeBinary(r)
			h2.PrevStateRoot = c06Flip(h2.PrevStateRoot)
			w = nio.NewBufBinWriter()
			h2.EncodeBinary(w.BinWriter)
			h3 := &block.Header{StateRootEnabled: true}
			r = nio.NewBinReaderFromBuf(w.Bytes())
			h3.DecodeBinary(r)
			h3.Script.InvocationScript = vs.(neotest.Signer).SignHashable(uint32(bc.GetConfig().Magic), h3)
			if err := bc.AddHeaders(&b.Blocks[n+1].Header, h3); err != nil {
				return nil, "", err
			}
			err := bc.AddBlock(b.Blocks[n+1])
			verdict = c06Class(err)
		}
		bc.VerifPersist()
		return c02NormDump(c02Dump(st.st)), verdict, nil
	}
	ctl, _, err := run(false)
	if err != nil {
		return "", "", err
	}
	att, verdict, err := run(true)
	if err != nil {
		return "", "", err
	}
	allowed := func(k string, va, vb []byte) bool {
		// the two recorded headers and the header pointer are the permitted difference
		c := c02Class(k, va)
		if va == nil {
			c = c02Class(k, vb)
		}
		return c == "curheader" || (c == "blk" && va == nil)
	}
	nd, ex := c02DiffDumps(ctl, att, allowed)
	if nd == 0 {
		return "", "", nil
	}
	cls := c02DiffClasses(ctl, att, allowed)
	return fmt.Sprintf("verdict=%s: %d keys differ, classes=%s: %v", verdict, nd, cls, ex), cls, nil
}
