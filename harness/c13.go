package main

// c13: NeoVM instructions against the executable specification (coq/VM/Model.v), per instruction on a boundary
// lattice of operands, on zero/maximum length byte strings, on templates for compound types and control flow,
// and on short random instruction sequences.  Every script is run twice on the real VM (determinism).

import (
	"encoding/json"
	"fmt"
	"math/big"

	"github.com/nspcc-dev/neo-go/pkg/vm/opcode"
)

func init() { register("c13", runC13) }

// ---- a tiny assembler ----

type c13Asm struct{ b []byte }

func (a *c13Asm) op(o opcode.Opcode, p ...byte) *c13Asm {
	a.b = append(a.b, byte(o))
	a.b = append(a.b, p...)
	return a
}
func (a *c13Asm) raw(p ...byte) *c13Asm { a.b = append(a.b, p...); return a }

var c13Lo = new(big.Int).Neg(new(big.Int).Lsh(big.NewInt(1), 255))
var c13Hi = new(big.Int).Sub(new(big.Int).Lsh(big.NewInt(1), 255), big.NewInt(1))

func c13InRange(z *big.Int) bool { return z.Cmp(c13Lo) >= 0 && z.Cmp(c13Hi) <= 0 }

// two's complement little-endian of z in exactly w bytes (z must fit)
func c13LE(z *big.Int, w int) []byte {
	m := new(big.Int).Lsh(big.NewInt(1), uint(8*w))
	x := new(big.Int).Mod(z, m)
	be := x.Bytes()
	out := make([]byte, w)
	for i := range be {
		out[i] = be[len(be)-1-i]
	}
	return out
}
func c13Fits(z *big.Int, w int) bool {
	lo := new(big.Int).Neg(new(big.Int).Lsh(big.NewInt(1), uint(8*w-1)))
	hi := new(big.Int).Sub(new(big.Int).Lsh(big.NewInt(1), uint(8*w-1)), big.NewInt(1))
	return z.Cmp(lo) >= 0 && z.Cmp(hi) <= 0
}

// int pushes z (must be within 256 bits); wide forces the widest encoding that still fits at random
func (a *c13Asm) int(z *big.Int, r *rng) *c13Asm {
	if z.IsInt64() && z.Int64() >= -1 && z.Int64() <= 16 && (r == nil || !r.chance(15)) {
		return a.op(opcode.Opcode(int(opcode.PUSH0) + int(z.Int64())))
	}
	ws := []int{1, 2, 4, 8, 16, 32}
	first := 0
	for !c13Fits(z, ws[first]) {
		first++
	}
	k := first
	if r != nil && r.chance(20) {
		k = first + r.intn(len(ws)-first)
	}
	return a.op(opcode.Opcode(int(opcode.PUSHINT8)+k), c13LE(z, ws[k])...)
}
func (a *c13Asm) i(z int64) *c13Asm { return a.int(big.NewInt(z), nil) }

func (a *c13Asm) data(b []byte) *c13Asm {
	switch {
	case len(b) < 256:
		a.op(opcode.PUSHDATA1, byte(len(b)))
	case len(b) < 65536:
		a.op(opcode.PUSHDATA2, byte(len(b)), byte(len(b)>>8))
	default:
		a.op(opcode.PUSHDATA4, byte(len(b)), byte(len(b)>>8), byte(len(b)>>16), byte(len(b)>>24))
	}
	return a.raw(b...)
}
func (a *c13Asm) buffer(b []byte) *c13Asm { return a.data(b).op(opcode.CONVERT, 0x30) }

// ---- the boundary lattice ----

func c13Lattice(r *rng, nrand int) []*big.Int {
	var out []*big.Int
	add := func(x *big.Int) {
		if c13InRange(x) {
			out = append(out, x)
		}
	}
	for _, s := range []int64{0, 1, -1, 2, -2, 3, -3, 7, 10, -10, 16, 17} {
		add(big.NewInt(s))
	}
	for _, k := range []uint{7, 8, 15, 16, 31, 32, 63, 64, 127, 128, 254, 255, 256} {
		p := new(big.Int).Lsh(big.NewInt(1), k)
		for _, d := range []int64{-1, 0, 1} {
			x := new(big.Int).Add(p, big.NewInt(d))
			add(x)
			add(new(big.Int).Neg(x))
		}
	}
	for i := 0; i < nrand; i++ {
		x := new(big.Int).SetBytes(r.bytes(1 + r.intn(32)))
		x.Rsh(x, uint(r.intn(8)))
		if r.bool() {
			x.Neg(x)
		}
		add(x)
	}
	return out
}

// an operand of a random kind (mostly integers from the lattice)
func (a *c13Asm) operand(r *rng, lat []*big.Int, oddKinds int) *c13Asm {
	if !r.chance(oddKinds) {
		return a.int(pick(r, lat), r)
	}
	switch r.intn(10) {
	case 0:
		return a.op(opcode.PUSHT)
	case 1:
		return a.op(opcode.PUSHF)
	case 2:
		return a.op(opcode.PUSHNULL)
	case 3:
		return a.data(r.bytes(r.intn(4)))
	case 4:
		n := pick(r, []int{0, 1, 31, 32, 33, 64, 65})
		b := r.bytes(n)
		if n > 0 && r.bool() {
			b[n-1] = pick(r, []byte{0, 0x80, 0xff, 0x7f})
		}
		return a.data(b)
	case 5:
		return a.buffer(r.bytes(r.intn(5)))
	case 6:
		return a.op(opcode.NEWARRAY0)
	case 7:
		return a.op(opcode.NEWSTRUCT0)
	case 8:
		return a.op(opcode.NEWMAP)
	default:
		return a.op(opcode.PUSHA, 0, 0, 0, 0)
	}
}

type c13Input struct {
	Script string `json:"script"`
	Base   int64  `json:"base"`
	Limit  int64  `json:"limit"`          // datoshi
	Pred   int    `json:"pred,omitempty"` // > 0: the run after Reset() uses predecessor Pred-1 alone (else chosen by the script's hash)
	// kind "load": Script runs Pause instructions, then Script2 is loaded on top (LoadScriptWithHash if WithHash, else LoadScript)
	Script2  string `json:"script2,omitempty"`
	Pause    int    `json:"pause,omitempty"`
	WithHash bool   `json:"with_hash,omitempty"`
}

// c13Run executes the case on the real VM (twice on fresh VMs, once after Reset() on a used VM) and records it.
func c13Run(co *caseOut, kind, tag string, in c13Input) {
	script := unhx(in.Script)
	orig := append([]byte(nil), script...)
	defer func() { // every run below uses the very same slice: a run that writes into it changes what the next one executes
		if string(orig) != string(script) {
			co.violation(kind, "the script bytes were modified by executing the script (a result shares storage with a PUSHDATA constant)", in, hx(script))
		}
	}()
	r1 := c13Exec(script, in.Base, in.Limit)
	r2 := c13Exec(script, in.Base, in.Limit)
	if r1.Panic != "" {
		co.violation(kind, "Go panic escaped Run: "+r1.Panic, in, r1)
		return
	}
	if !c13SameRun(r1, r2) {
		co.violation(kind, "execution is not deterministic: two runs of the same script differ", in, []c13Result{r1, r2})
		return
	}
	r3, ptags := c13ExecReused(script, in.Base, in.Limit, c13PickPreds(script, in.Pred))
	if r3.Panic != "" {
		co.violation(kind, "Go panic escaped Run on a reused VM: "+r3.Panic, in, r3)
		return
	}
	if !c13SameRun(r1, r3) {
		co.violation(kind, "state leaks through VM.Reset(): the execution after Reset() on a VM that had executed [ "+ptags+"] differs from the execution on a fresh VM", in, []c13Result{r1, r3})
		return
	}
	if r1.Halt && in.Limit >= 0 && r1.Gas > in.Limit {
		co.violation(kind, "HALT with GasConsumed > GasLimit", in, r1)
	}
	if len(r1.Stack) > 30000 {
		co.extra["x_skipped_large_result"] = fmt.Sprint(co.extra["x_skipped_large_result"], ".")
		return // result too large to be written as a Coq term; large values are compared through SIZE/EQUAL projections
	}
	out := "fault"
	if r1.Halt {
		out = "halt"
	}
	term := fmt.Sprintf("CRun %s %d %d %d%%positive %s", coqBytes(script), in.Base, in.Limit*10000, r1.Steps+16, r1.coq())
	impl := r1
	if len(impl.Stack) > 400 {
		impl.Stack = impl.Stack[:400] + "..."
	}
	co.add(kind, tag+"/"+out, r1.Steps >= 2, in, impl, term)
}

// c13Bases picks the base fee (pico per price unit) and the gas limit (datoshi).  Scripts that may loop get a
// limit that allows at most a few thousand instructions.
func c13Bases(r *rng, loopy bool) (int64, int64) {
	switch r.intn(4) {
	case 0:
		if loopy {
			return 1, 1 // 10000 pico
		}
		return 1, 20
	case 1:
		if loopy {
			return 10000, int64(2000 + r.intn(4000))
		}
		return 10000, int64(200000 + r.intn(200000))
	default: // the ledger's default: 30 datoshi per unit
		if loopy {
			return 300000, int64(60000 + r.intn(120000))
		}
		return 300000, int64(5000000 + r.intn(20000000))
	}
}

func runC13(args []string) error {
	cf, fs := parseCommon("c13", args)
	fs.Parse(args)
	co := newCaseOut(cf.out, "Harness.C13", "Z",
		"per instruction: operands from the boundary lattice (0, +-1, +-2^k, +-2^k+-1 for k in 7,8,15,16,31,32,63,64,127,128,254,255,256, random widths), "+
			"other item kinds as operands, zero/maximum length byte strings, compound-type and control-flow templates, short random sequences; "+
			"each script run twice on fresh VMs and once after Reset() on a VM that has just executed other scripts (ending by HALT, THROW, faults in try/catch/finally, ABORT, out of gas, limits); a case is non-trivial when the real VM executed at least 2 instructions; distinct by Coq term")
	co.shard = 150
	if cf.replay != "" {
		cases, err := readReplay(cf.replay)
		if err != nil {
			return err
		}
		for _, c := range cases {
			var x struct {
				Kind  string   `json:"kind"`
				Input c13Input `json:"input"`
			}
			if err := json.Unmarshal(c, &x); err != nil {
				return err
			}
			if x.Kind == "load" {
				c13RunLoad(co, "replay", x.Input)
				continue
			}
			c13Run(co, x.Kind, "replay", x.Input)
		}
		return co.finish()
	}
	r := newRng(cf.seed)
	lat := c13Lattice(r, 16)
	emit := func(kind, tag string, a *c13Asm) {
		base, limit := c13Bases(r, kind == "control" || kind == "sequence")
		c13Run(co, kind, tag, c13Input{Script: hx(a.b), Base: base, Limit: limit})
	}
	n := cf.n
	per := max(2, n/40)

	// 0. every VM limit at limit-1, limit, limit+1 (deterministic)
	for _, b := range c13Boundaries() {
		c13Run(co, "boundary", b.tag, c13Input{Script: hx(b.script), Base: b.base, Limit: b.limit})
	}
	// 0b. VM reuse: every predecessor x every probe whose outcome depends on a register Reset() has to clear, and
	// the predecessors themselves as scripts under test
	co.extra["x_predecessors"] = c13PredOutcomes()
	for i := range c13Preds() {
		for _, p := range c13ResetProbes() {
			c13Run(co, "reset", p.tag, c13Input{Script: hx(p.a.b), Base: p.base, Limit: p.limit, Pred: i + 1})
		}
		for _, j := range []int{i, (i + 1) % len(c13Preds())} { // the predecessors themselves, after themselves and after their neighbour
			q := c13Preds()[j]
			c13Run(co, "reset", "pred-"+q.tag, c13Input{Script: hx(q.script), Base: q.base, Limit: q.limit, Pred: i + 1})
		}
	}

	// 0d. aliasing between results and operands
	for _, c := range c13AliasCases() {
		c13Run(co, "alias", c.tag, c13Input{Script: hx(c.a.b), Base: 1, Limit: 100000})
	}
	// 0e. neutral elements: the result is an Integer whatever the operand type
	for _, c := range c13NeutralCases() {
		c13Run(co, "neutral", c.tag, c13Input{Script: hx(c.a.b), Base: 1, Limit: 100000})
	}
	// 0c. slot initialisation more than once (pairs, triples; one context, across CALL; two scripts on one VM)
	c13SlotCases(co, r, 8*per)
	c13LoadCases(co)

	// 1. arithmetic / bitwise / comparison, per instruction
	unary := []opcode.Opcode{opcode.SIGN, opcode.ABS, opcode.NEGATE, opcode.INC, opcode.DEC, opcode.INVERT, opcode.SQRT, opcode.NOT, opcode.NZ}
	for _, op := range unary {
		for i := 0; i < per; i++ {
			a := &c13Asm{}
			a.operand(r, lat, 12).op(op)
			emit("arith1", op.String(), a)
		}
	}
	binary := []opcode.Opcode{opcode.ADD, opcode.SUB, opcode.MUL, opcode.DIV, opcode.MOD, opcode.AND, opcode.OR, opcode.XOR,
		opcode.MIN, opcode.MAX, opcode.NUMEQUAL, opcode.NUMNOTEQUAL, opcode.LT, opcode.LE, opcode.GT, opcode.GE,
		opcode.BOOLAND, opcode.BOOLOR, opcode.EQUAL, opcode.NOTEQUAL}
	for _, op := range binary {
		for i := 0; i < 2*per; i++ {
			a := &c13Asm{}
			a.operand(r, lat, 10).operand(r, lat, 10).op(op)
			emit("arith2", op.String(), a)
		}
	}
	small := []*big.Int{}
	for _, s := range []int64{-2, -1, 0, 1, 2, 3, 7, 8, 31, 63, 64, 127, 128, 254, 255, 256, 257, 1 << 31, 1<<31 - 1, -(1 << 31), 1 << 32} {
		small = append(small, big.NewInt(s))
	}
	for _, op := range []opcode.Opcode{opcode.SHL, opcode.SHR, opcode.POW} {
		for i := 0; i < 3*per; i++ {
			a := &c13Asm{}
			a.operand(r, lat, 5)
			if r.chance(85) {
				a.int(pick(r, small), r)
			} else {
				a.operand(r, lat, 20)
			}
			a.op(op)
			emit("shift", op.String(), a)
		}
	}
	mods := append([]*big.Int{big.NewInt(0), big.NewInt(1), big.NewInt(-1), big.NewInt(2), big.NewInt(7), big.NewInt(-7), big.NewInt(12), c13Hi, c13Lo}, lat[:12]...)
	exps := []*big.Int{big.NewInt(-2), big.NewInt(-1), big.NewInt(0), big.NewInt(1), big.NewInt(2), big.NewInt(3), big.NewInt(10), big.NewInt(255), c13Hi, new(big.Int).Sub(c13Hi, big.NewInt(1))}
	for i := 0; i < 4*per; i++ {
		a := &c13Asm{}
		a.operand(r, lat, 5).operand(r, lat, 5).int(pick(r, mods), r).op(opcode.MODMUL)
		emit("arith3", "MODMUL", a)
		a = &c13Asm{}
		a.operand(r, lat, 5)
		if r.chance(70) {
			a.int(pick(r, exps), r)
		} else {
			a.operand(r, lat, 5)
		}
		if r.chance(70) {
			a.int(pick(r, mods), r)
		} else {
			a.operand(r, lat, 5)
		}
		a.op(opcode.MODPOW)
		emit("arith3", "MODPOW", a)
		a = &c13Asm{}
		a.operand(r, lat, 5).operand(r, lat, 5).operand(r, lat, 5).op(opcode.WITHIN)
		emit("arith3", "WITHIN", a)
	}

	// 2. conversions and type tests: every kind against every type byte
	types := []byte{0x00, 0x10, 0x20, 0x21, 0x28, 0x30, 0x40, 0x41, 0x48, 0x60, 0x22, 0xff}
	for i := 0; i < 6*per; i++ {
		a := &c13Asm{}
		a.operand(r, lat, 60)
		if r.chance(30) { // something inside the compound
			a = &c13Asm{}
			a.operand(r, lat, 50).operand(r, lat, 50).i(2).op(pick(r, []opcode.Opcode{opcode.PACK, opcode.PACKSTRUCT}))
		}
		op := pick(r, []opcode.Opcode{opcode.CONVERT, opcode.CONVERT, opcode.ISTYPE})
		a.op(op, pick(r, types))
		if r.chance(30) {
			a.op(opcode.DUP).op(opcode.CONVERT, pick(r, types))
		}
		emit("convert", op.String(), a)
	}
	// integer <-> byte string round trips on the lattice
	for i := 0; i < 2*per; i++ {
		a := &c13Asm{}
		a.int(pick(r, lat), r).op(opcode.DUP).op(opcode.CONVERT, 0x28).op(opcode.DUP).op(opcode.CONVERT, 0x21).op(opcode.ROT).op(opcode.NUMEQUAL)
		emit("convert", "roundtrip", a)
	}

	// 3. byte strings: zero, boundary and maximum lengths
	lens := []int{0, 1, 2, 31, 32, 33, 64, 65, 255, 256}
	for i := 0; i < 4*per; i++ {
		a := &c13Asm{}
		x := r.bytes(pick(r, lens))
		y := r.bytes(pick(r, lens))
		switch r.intn(9) {
		case 0:
			a.data(x).data(y).op(opcode.CAT)
		case 1:
			a.data(x).i(int64(r.intn(len(x)+2) - 1)).i(int64(r.intn(len(x)+2) - 1)).op(opcode.SUBSTR)
		case 2:
			a.data(x).i(int64(r.intn(len(x)+3) - 1)).op(pick(r, []opcode.Opcode{opcode.LEFT, opcode.RIGHT}))
		case 3:
			a.buffer(x).op(opcode.DUP).i(int64(r.intn(4) - 1)).data(y).i(int64(r.intn(4) - 1)).i(int64(r.intn(len(y)+2) - 1)).op(opcode.MEMCPY)
		case 4:
			a.data(x).op(opcode.DUP).op(opcode.SIZE).op(opcode.SWAP).i(int64(r.intn(len(x)+2) - 1)).op(pick(r, []opcode.Opcode{opcode.PICKITEM, opcode.HASKEY}))
		case 5:
			a.data(x).data(x).op(pick(r, []opcode.Opcode{opcode.EQUAL, opcode.NOTEQUAL}))
		case 6:
			a.buffer(x).op(opcode.DUP).i(int64(r.intn(len(x)+2) - 1)).i(int64(r.intn(400) - 140)).op(opcode.SETITEM)
		case 7:
			a.buffer(x).op(opcode.DUP).op(opcode.REVERSEITEMS).op(opcode.DUP).op(opcode.EQUAL)
		default:
			a.i(int64(pick(r, []int{-1, 0, 1, 32, 33}))).op(opcode.NEWBUFFER).op(opcode.DUP).op(opcode.CONVERT, pick(r, types))
		}
		emit("bytes", "splice", a)
	}
	big1 := []int64{65535, 65536, 65537, 131069, 131070, 131071}
	for i := 0; i < max(6, per); i++ {
		a := &c13Asm{}
		n1 := pick(r, big1)
		switch r.intn(6) {
		case 0:
			a.i(n1).op(opcode.NEWBUFFER).op(opcode.SIZE)
		case 1: // CAT up to / beyond MaxSize
			n2 := pick(r, []int64{1, 65534, 65535, 65536})
			a.int(big.NewInt(n1), nil).op(opcode.NEWBUFFER).int(big.NewInt(n2), nil).op(opcode.NEWBUFFER).op(opcode.CAT).op(opcode.SIZE)
		case 2: // comparing long byte strings faults beyond 65536
			a.int(big.NewInt(n1), nil).op(opcode.NEWBUFFER).op(opcode.CONVERT, 0x28).op(opcode.DUP).op(opcode.EQUAL)
		case 3:
			a.int(big.NewInt(n1), nil).op(opcode.NEWBUFFER).op(opcode.DUP).int(big.NewInt(n1-1), nil).op(opcode.HASKEY).op(opcode.NIP)
		case 4:
			a.int(big.NewInt(n1), nil).op(opcode.NEWBUFFER).int(big.NewInt(n1-2), nil).i(2).op(opcode.SUBSTR).op(opcode.SIZE)
		default:
			a.int(big.NewInt(n1), nil).op(opcode.NEWBUFFER).op(opcode.CONVERT, 0x28).int(big.NewInt(n1-1), nil).op(opcode.RIGHT).op(opcode.SIZE)
		}
		emit("bytes", "maxlen", a)
	}

	// 4. compound types: templates
	for i := 0; i < 8*per; i++ {
		a := &c13Asm{}
		c13Compound(a, r, lat)
		emit("compound", "template", a)
	}
	// 5. control flow and exceptions
	for i := 0; i < 6*per; i++ {
		a := &c13Asm{}
		tag := c13Control(a, r)
		emit("control", tag, a)
	}
	// 6. stack manipulation and slots
	for i := 0; i < 6*per; i++ {
		a := &c13Asm{}
		c13StackOps(a, r, lat)
		emit("stack", "ops", a)
	}
	// 7. short random sequences over the whole instruction set
	all := c13AllOps()
	for i := 0; i < 10*per; i++ {
		a := &c13Asm{}
		for k := r.intn(4); k > 0; k-- {
			a.operand(r, lat, 30)
		}
		for k := 1 + r.intn(4); k > 0; k-- {
			c13RandInstr(a, r, all)
		}
		emit("sequence", "random", a)
	}
	// 8. arbitrary bytes
	for i := 0; i < 2*per; i++ {
		a := &c13Asm{b: r.bytes(1 + r.intn(24))}
		emit("sequence", "bytes", a)
	}
	return co.finish()
}

func c13AllOps() []opcode.Opcode {
	var out []opcode.Opcode
	for b := 0; b < 256; b++ {
		if opcode.IsValid(opcode.Opcode(b)) {
			out = append(out, opcode.Opcode(b))
		}
	}
	return out
}

// one random instruction with a plausible operand
func c13RandInstr(a *c13Asm, r *rng, all []opcode.Opcode) {
	op := pick(r, all)
	switch {
	case op <= opcode.PUSHINT256:
		a.op(op, r.bytes(1<<uint(op))...)
	case op == opcode.PUSHDATA1:
		a.data(r.bytes(r.intn(6)))
	case op == opcode.PUSHDATA2 || op == opcode.PUSHDATA4:
		a.data(r.bytes(r.intn(3)))
	case op == opcode.TRYL:
		a.op(op, byte(r.intn(12)), 0, 0, 0, byte(r.intn(12)), 0, 0, 0)
	case op == opcode.TRY || op == opcode.INITSLOT:
		a.op(op, byte(r.intn(6)), byte(r.intn(6)))
	case op == opcode.CALLT:
		a.op(op, 0, 0)
	case op == opcode.SYSCALL:
		a.op(op, r.bytes(4)...)
	case op == opcode.PUSHA || op == opcode.CALLL || op == opcode.ENDTRYL || (op >= opcode.JMP && op <= opcode.JMPLEL && (op-opcode.JMP)%2 == 1):
		a.op(op, byte(r.intn(10)), 0, 0, 0)
	case op >= opcode.JMP && op <= opcode.CALL || op == opcode.ENDTRY:
		a.op(op, byte(r.intn(10)))
	case op == opcode.ISTYPE || op == opcode.CONVERT || op == opcode.NEWARRAYT:
		a.op(op, pick(r, []byte{0x00, 0x10, 0x20, 0x21, 0x28, 0x30, 0x40, 0x41, 0x48, 0x60, 0x33}))
	case op == opcode.INITSSLOT || op == opcode.LDSFLD || op == opcode.STSFLD || op == opcode.LDLOC || op == opcode.STLOC || op == opcode.LDARG || op == opcode.STARG:
		a.op(op, byte(r.intn(3)))
	default:
		a.op(op)
	}
}

func c13Small(a *c13Asm, r *rng, n int) { a.i(int64(r.intn(n))) }

// compound-type templates: build a few containers (nested, shared), apply collection instructions
func c13Compound(a *c13Asm, r *rng, lat []*big.Int) {
	// a container on the stack
	mk := func() {
		switch r.intn(7) {
		case 0:
			a.op(opcode.NEWARRAY0)
		case 1:
			a.op(opcode.NEWSTRUCT0)
		case 2:
			a.op(opcode.NEWMAP)
		case 3:
			c13Small(a, r, 5)
			a.op(pick(r, []opcode.Opcode{opcode.NEWARRAY, opcode.NEWSTRUCT}))
		case 4:
			c13Small(a, r, 4)
			a.op(opcode.NEWARRAYT, pick(r, []byte{0x00, 0x20, 0x21, 0x28, 0x30, 0x40, 0x99}))
		case 5:
			k := r.intn(4)
			for j := 0; j < k; j++ {
				a.operand(r, lat, 40)
			}
			a.i(int64(k)).op(pick(r, []opcode.Opcode{opcode.PACK, opcode.PACKSTRUCT}))
		default:
			k := r.intn(4)
			for j := 0; j < k; j++ {
				a.operand(r, lat, 30)
				if r.chance(80) {
					a.i(int64(r.intn(3)))
				} else {
					a.operand(r, lat, 60)
				}
			}
			a.i(int64(k)).op(opcode.PACKMAP)
		}
	}
	mk()
	steps := 1 + r.intn(5)
	for s := 0; s < steps; s++ {
		switch r.intn(18) {
		case 0: // append a value, keep container
			a.op(opcode.DUP).operand(r, lat, 40).op(opcode.APPEND)
		case 1: // append the container to itself or another container
			a.op(opcode.DUP)
			if r.bool() {
				a.op(opcode.DUP)
			} else {
				mk()
			}
			a.op(opcode.APPEND)
		case 2:
			a.op(opcode.DUP)
			c13Small(a, r, 4)
			a.operand(r, lat, 40).op(opcode.SETITEM)
		case 3:
			a.op(opcode.DUP)
			c13Small(a, r, 4)
			a.op(pick(r, []opcode.Opcode{opcode.PICKITEM, opcode.HASKEY, opcode.REMOVE}))
			if r.bool() {
				a.op(opcode.DROP)
			}
		case 4:
			a.op(opcode.DUP).op(pick(r, []opcode.Opcode{opcode.SIZE, opcode.KEYS, opcode.VALUES, opcode.UNPACK, opcode.POPITEM, opcode.REVERSEITEMS, opcode.CLEARITEMS}))
		case 5:
			a.op(pick(r, []opcode.Opcode{opcode.SIZE, opcode.KEYS, opcode.VALUES, opcode.UNPACK, opcode.POPITEM, opcode.REVERSEITEMS, opcode.CLEARITEMS}))
		case 6:
			mk()
		case 7:
			a.op(pick(r, []opcode.Opcode{opcode.DUP, opcode.OVER, opcode.SWAP, opcode.TUCK, opcode.ROT, opcode.DROP, opcode.NIP}))
		case 8: // struct inside array: cloning on APPEND/SETITEM
			a.op(opcode.DUP)
			a.operand(r, lat, 20).operand(r, lat, 20).i(2).op(opcode.PACKSTRUCT).op(opcode.DUP).i(1).op(opcode.PACKSTRUCT)
			a.op(opcode.APPEND)
		case 9:
			a.op(opcode.DUP).op(opcode.DUP).op(pick(r, []opcode.Opcode{opcode.EQUAL, opcode.NOTEQUAL}))
		case 10:
			a.op(opcode.DUP).op(opcode.CONVERT, pick(r, []byte{0x40, 0x41, 0x48, 0x20}))
		case 11:
			a.op(opcode.DUP).op(opcode.DUP).op(opcode.VALUES).op(opcode.EQUAL)
		case 12: // two equal structs built separately
			x := pick(r, lat)
			a.int(x, r).i(1).op(opcode.PACKSTRUCT).int(x, r).i(1).op(opcode.PACKSTRUCT).op(opcode.EQUAL)
		case 13:
			a.op(opcode.DUP).operand(r, lat, 40).op(opcode.SWAP).op(opcode.APPEND)
		case 14:
			a.op(opcode.DUP).operand(r, lat, 70).operand(r, lat, 20).op(opcode.SETITEM)
		case 15:
			a.op(opcode.DEPTH).op(pick(r, []opcode.Opcode{opcode.PACK, opcode.PACKSTRUCT}))
		case 16:
			a.op(opcode.DUP).op(opcode.ISNULL).op(opcode.DROP)
		default:
			a.op(opcode.DUP).operand(r, lat, 70).op(pick(r, []opcode.Opcode{opcode.PICKITEM, opcode.HASKEY, opcode.REMOVE}))
		}
	}
}

// control flow templates
func c13Control(a *c13Asm, r *rng) string {
	switch r.intn(14) {
	case 0: // conditional jumps over a push
		op := pick(r, []opcode.Opcode{opcode.JMPEQ, opcode.JMPNE, opcode.JMPGT, opcode.JMPGE, opcode.JMPLT, opcode.JMPLE})
		a.i(int64(r.intn(3)-1)).i(int64(r.intn(3)-1)).op(op, 3).op(opcode.PUSH7).op(opcode.PUSH8)
		return "jmpcmp"
	case 1:
		op := pick(r, []opcode.Opcode{opcode.JMPIF, opcode.JMPIFNOT})
		a.i(int64(r.intn(2))).op(op, 3).op(opcode.PUSH7).op(opcode.PUSH8)
		return "jmpif"
	case 2: // long forms
		op := pick(r, []opcode.Opcode{opcode.JMPL, opcode.JMPIFL, opcode.JMPEQL, opcode.JMPLEL})
		a.i(1).i(1).op(op, 6, 0, 0, 0).op(opcode.PUSH7).op(opcode.PUSH8)
		return "jmpl"
	case 3: // jump to a bad place
		a.op(opcode.JMP, byte(r.intn(256)))
		a.op(opcode.PUSH1).op(opcode.PUSH2)
		return "jmpbad"
	case 4: // CALL a function that adds
		// 0: PUSH2 1: PUSH3 2: CALL +4 (->6) 4: RET  5: NOP 6: ADD 7: RET
		a.op(opcode.PUSH2).op(opcode.PUSH3).op(opcode.CALL, 4).op(opcode.RET).op(opcode.NOP).op(opcode.ADD).op(opcode.RET)
		return "call"
	case 5: // PUSHA / CALLA
		// 0: PUSH5 1: PUSHA +8 (->9) 6: CALLA 7: RET 8: NOP 9: INC 10: RET
		a.op(opcode.PUSH5).op(opcode.PUSHA, 8, 0, 0, 0).op(opcode.CALLA).op(opcode.RET).op(opcode.NOP).op(opcode.INC).op(opcode.RET)
		return "calla"
	case 6: // recursion until the invocation stack limit or gas
		a.op(opcode.CALL, 0)
		return "recursion"
	case 7: // loop counting down
		// 0: PUSH n ; 1: DEC ; 2: DUP ; 3: JMPIF -2 (->1) ; 5: RET
		a.i(int64(1+r.intn(12))).op(opcode.DEC).op(opcode.DUP).op(opcode.JMPIF, 0xfe)
		return "loop"
	case 8: // try / catch
		// 0: TRY c=+6 f=0 ; 3: PUSH1 ; 4: THROW ; 5: NOP ; 6: (catch) PUSH2 ; 7: ENDTRY +2 ; 9: PUSH3
		a.op(opcode.TRY, 6, 0).op(opcode.PUSH1).op(opcode.THROW).op(opcode.NOP).op(opcode.PUSH2).op(opcode.ENDTRY, 2).op(opcode.PUSH3)
		return "trycatch"
	case 9: // try / finally without catch: the exception is rethrown by ENDFINALLY
		// 0: TRY c=0 f=+5 ; 3: PUSH1 ; 4: THROW ; 5: (finally) PUSH2 ; 6: ENDFINALLY ; 7: PUSH3
		a.op(opcode.TRY, 0, 5).op(opcode.PUSH1)
		if r.bool() {
			a.op(opcode.THROW)
		} else {
			a.op(opcode.NOP)
		}
		a.op(opcode.PUSH2).op(opcode.ENDFINALLY).op(opcode.PUSH3)
		return "tryfinally"
	case 10: // try / catch / finally with normal and exceptional exits
		// 0: TRY c=+7 f=+10 ; 3: body ; 5: ENDTRY +8(->13); 7: (catch) PUSH2 ; 8: ENDTRY +5 (->13) ; 10: (finally) PUSH4 ; 11: ENDFINALLY ; 12: NOP ; 13: PUSH5
		a.op(opcode.TRY, 7, 10)
		if r.bool() {
			a.op(opcode.PUSH1).op(opcode.THROW)
		} else {
			a.op(opcode.PUSH1).op(opcode.NOP)
		}
		a.op(opcode.ENDTRY, 8).op(opcode.PUSH2).op(opcode.ENDTRY, 5).op(opcode.PUSH4).op(opcode.ENDFINALLY).op(opcode.NOP).op(opcode.PUSH5)
		return "trycatchfinally"
	case 11: // exception thrown in a callee, caught in the caller; callee has slots
		// 0: TRY c=+7 f=0 ; 3: CALL +8 (->11) ; 5: ENDTRY +5(->10) ; 7: (catch) NOP ; 8: ENDTRY +2 (->10) ; 10: RET ; 11: INITSLOT 1 0 ; 14: NEWARRAY0 ; 15: STLOC0 ; 16: PUSH9 ; 17: THROW
		a.op(opcode.TRY, 7, 0).op(opcode.CALL, 8).op(opcode.ENDTRY, 5).op(opcode.NOP).op(opcode.ENDTRY, 2).op(opcode.RET)
		a.op(opcode.INITSLOT, 1, 0).op(opcode.NEWARRAY0).op(opcode.STLOC0).op(opcode.PUSH9).op(opcode.THROW)
		return "throwcallee"
	case 12: // catchable PICKITEM / SETITEM failures
		a.op(opcode.TRY, 9, 0).op(opcode.NEWARRAY0)
		if r.bool() {
			a.i(int64(r.intn(3))).op(opcode.PICKITEM).op(opcode.NOP)
		} else {
			a.i(int64(r.intn(3))).op(opcode.PUSH1).op(opcode.SETITEM)
		}
		a.op(opcode.ENDTRY, 3).op(opcode.NOP) // 7,8: ENDTRY ; 9: catch
		a.op(opcode.ENDTRY, 2).op(opcode.PUSH6)
		return "throwitem"
	default: // ASSERT / ABORT family, nested TRY depth
		switch r.intn(5) {
		case 0:
			a.i(int64(r.intn(2))).op(opcode.ASSERT).op(opcode.PUSH1)
		case 1:
			a.i(int64(r.intn(2))).data(pick(r, [][]byte{[]byte("ok"), {0xff, 0xfe}, {0xe2, 0x82, 0xac}, {0xc0, 0x80}, {0xed, 0xa0, 0x80}, {}})).op(opcode.ASSERTMSG).op(opcode.PUSH1)
		case 2:
			a.op(opcode.PUSH1).op(pick(r, []opcode.Opcode{opcode.ABORT, opcode.ABORTMSG}))
		case 3:
			k := 15 + r.intn(3)
			for j := 0; j < k; j++ {
				a.op(opcode.TRY, 3, 0)
			}
			a.op(opcode.PUSH1)
		default:
			a.op(opcode.ENDFINALLY)
		}
		return "assert"
	}
}

func c13StackOps(a *c13Asm, r *rng, lat []*big.Int) {
	k := r.intn(6)
	for j := 0; j < k; j++ {
		a.operand(r, lat, 30)
	}
	if r.chance(40) {
		a.op(opcode.INITSSLOT, byte(r.intn(3)))
	}
	if r.chance(40) {
		a.op(opcode.INITSLOT, byte(r.intn(3)), byte(r.intn(3)))
	}
	for r.chance(30) { // further initialisations of either group (must fault when the group is initialised already)
		if r.bool() {
			a.op(opcode.INITSSLOT, byte(r.intn(3)))
		} else {
			a.op(opcode.INITSLOT, byte(r.intn(3)), byte(r.intn(3)))
		}
	}
	ops := []opcode.Opcode{opcode.DEPTH, opcode.DROP, opcode.NIP, opcode.XDROP, opcode.CLEAR, opcode.DUP, opcode.OVER, opcode.PICK, opcode.TUCK,
		opcode.SWAP, opcode.ROT, opcode.ROLL, opcode.REVERSE3, opcode.REVERSE4, opcode.REVERSEN,
		opcode.LDSFLD0, opcode.LDSFLD1, opcode.STSFLD0, opcode.STSFLD1, opcode.LDLOC0, opcode.LDLOC1, opcode.STLOC0, opcode.STLOC1,
		opcode.LDARG0, opcode.LDARG1, opcode.STARG0, opcode.STARG1, opcode.LDSFLD, opcode.STSFLD, opcode.LDLOC, opcode.STLOC, opcode.LDARG, opcode.STARG}
	steps := 1 + r.intn(6)
	for s := 0; s < steps; s++ {
		op := pick(r, ops)
		switch op {
		case opcode.XDROP, opcode.PICK, opcode.ROLL, opcode.REVERSEN:
			a.i(int64(r.intn(5) - 1)).op(op)
		case opcode.LDSFLD, opcode.STSFLD, opcode.LDLOC, opcode.STLOC, opcode.LDARG, opcode.STARG:
			a.op(op, byte(r.intn(3)))
		default:
			a.op(op)
		}
	}
}
