package main

// C06, family "race": transaction admission RACING block acceptance.  Blockchain.PoolTx verifies T against the tip
// under bc.lock.RLock, so that no block can be stored between the verification and the insertion into the pool.
// Ops "<fam>/raced/verify" and "<fam>/raced-add/verify":
//
//   raced      T's witness is a verification script that first asks Ledger.getTransactionHeight for a hash nobody
//              knows: the read reaches the victim's lower store, a wrapper of the harness, which parks it there - the
//              admission of T stands still INSIDE its verification, after the expiry / policy / fee / conflict checks
//              were made at height H.  AddBlock(H+1) is started on another goroutine: it must park at storeBlock's
//              bc.lock.Lock() until the admission is over (runtime.Stack, twice the same); then the read is let go.
//              T must afterwards be in the pool only if a fresh verification at H+1 admits it, and block H+2 carrying
//              T must be refused otherwise.
//   raced-add  the harness holds the MEMPOOL's lock (Pool.VerifLock): PoolTx parks at Pool.Add, after the whole
//              verification.  AddBlock(H+1) must still park at bc.lock.Lock(); a tree that gives the chain lock back
//              before the insertion lets it run into the pool refresh (it parks inside Pool.RemoveStale).
//
// "Block H+1 was stored while an admission stood between its verification and its insertion" is a violation by
// itself (admission-not-atomic), whatever happens to T afterwards.

import (
	"bytes"
	"fmt"
	"runtime"
	"strings"
	"sync"
	"time"

	"github.com/nspcc-dev/neo-go/pkg/core"
	"github.com/nspcc-dev/neo-go/pkg/core/block"
	"github.com/nspcc-dev/neo-go/pkg/core/native/nativenames"
	"github.com/nspcc-dev/neo-go/pkg/core/storage"
	"github.com/nspcc-dev/neo-go/pkg/core/transaction"
	"github.com/nspcc-dev/neo-go/pkg/crypto/hash"
	nio "github.com/nspcc-dev/neo-go/pkg/io"
	"github.com/nspcc-dev/neo-go/pkg/neotest"
	"github.com/nspcc-dev/neo-go/pkg/smartcontract/callflag"
	"github.com/nspcc-dev/neo-go/pkg/util"
	"github.com/nspcc-dev/neo-go/pkg/vm/emit"
	"github.com/nspcc-dev/neo-go/pkg/vm/opcode"
)

var c06RaceFams = []string{"control", "vub", "blocked", "fpb-up20", "balance"}

var c06RaceMagic = util.Uint256{0xc0, 0x06, 0x4a, 0xce}

// c06GateStore parks the read of one key while armed
type c06GateStore struct {
	storage.Store
	mu      sync.Mutex
	key     []byte
	entered chan struct{}
	gate    chan struct{}
}

func (s *c06GateStore) arm() (entered, gate chan struct{}) {
	s.mu.Lock()
	defer s.mu.Unlock()
	s.entered, s.gate = make(chan struct{}), make(chan struct{})
	return s.entered, s.gate
}

func (s *c06GateStore) Get(k []byte) ([]byte, error) {
	if bytes.Equal(k, s.key) {
		s.mu.Lock()
		entered, gate := s.entered, s.gate
		s.entered, s.gate = nil, nil
		s.mu.Unlock()
		if gate != nil {
			close(entered)
			<-gate
		}
	}
	return s.Store.Get(k)
}

func (s *c06GateStore) Close() error { return nil }

//go:noinline
func c06RaceAdd(v *core.Blockchain, b *block.Block, res chan error) { res <- v.AddBlock(b) }

//go:noinline
func c06RacePool(v *core.Blockchain, t *transaction.Transaction, res chan error) { res <- v.PoolTx(t) }

func c06RunRace(co *caseOut, in c06StaleIn) error {
	b, err := c02Build(c02History{Cfg: in.Cfg, Blocks: in.Blocks})
	if err != nil {
		return err
	}
	defer b.close()
	H0 := uint32(len(b.Blocks) - 1)
	snap := b.Snaps[H0].Dump
	kind := "stale"
	for _, op := range in.Ops {
		parts := strings.Split(op, "/")
		if len(parts) != 3 {
			return fmt.Errorf("bad race op %q", op)
		}
		fam, mode := parts[0], parts[1]
		vin := in
		vin.Ops = []string{op}
		viol := func(class, note string) {
			co.violation(kind, fmt.Sprintf("%s/%s op=%s: %s", kind, class, op, note), vin, map[string]any{"op": op, "class": class})
		}
		rb, _, vs, fail := c06Fork(in.Cfg, snap)
		if fail != "" {
			return fmt.Errorf("fork: %s", fail)
		}
		t := &c02T{}
		e := neotest.NewExecutor(t, rb, vs, vs)
		accs := c02Accounts()
		gas := e.NativeHash(t, nativenames.Gas)
		var T *transaction.Transaction
		var pre []*block.Block
		var b1, b2 *block.Block
		var freshErr error
		var H uint32
		fail = c02Try(func() {
			// P: an account whose verification script asks the ledger for an unknown transaction, then checks a signature
			w := nio.NewBufBinWriter()
			emit.AppCall(w.BinWriter, e.NativeHash(t, nativenames.Ledger), "getTransactionHeight", callflag.ReadStates, c06RaceMagic)
			emit.Opcodes(w.BinWriter, opcode.DROP)
			w.WriteBytes(accs[0].Script())
			vscript := w.Bytes()
			P := hash.Hash160(vscript)
			signP := func(tx *transaction.Transaction) {
				tx.Scripts = []transaction.Witness{{InvocationScript: accs[0].SignHashable(uint32(rb.GetConfig().Magic), tx), VerificationScript: vscript}}
			}
			fromP := func(to util.Uint160, amount int64, vub uint32, netFee int64) *transaction.Transaction {
				sw := nio.NewBufBinWriter()
				emit.AppCall(sw.BinWriter, gas, "transfer", callflag.All, P, to, amount, nil)
				emit.Opcodes(sw.BinWriter, opcode.ASSERT)
				tx := transaction.New(sw.Bytes(), 1_0000_0000)
				tx.Nonce = neotest.Nonce()
				tx.ValidUntilBlock = vub
				tx.NetworkFee = netFee
				tx.Signers = []transaction.Signer{{Account: P, Scopes: transaction.CalledByEntry}}
				signP(tx)
				return tx
			}
			// preparation block: fund P
			fund := e.NewUnsignedTx(t, gas, "transfer", e.Validator.ScriptHash(), P, int64(50_0000_0000), nil)
			fund.ValidUntilBlock = rb.BlockHeight() + 3
			pb := e.NewUnsignedBlock(t, e.SignTx(t, fund, 1_0000_0000, e.Validator))
			e.SignBlock(pb)
			if err := rb.AddBlock(pb); err != nil {
				panic("preparation block refused: " + err.Error())
			}
			pre = append(pre, pb)
			H = rb.BlockHeight()
			policyTx := func(method string, args ...any) *transaction.Transaction {
				tx := e.NewUnsignedTx(t, e.NativeHash(t, nativenames.Policy), method, args...)
				tx.ValidUntilBlock = H + 3
				return e.SignTx(t, tx, 5_0000_0000, e.Committee)
			}
			vub := H + 3
			if fam == "vub" {
				vub = H + 1
			}
			T = fromP(accs[1].ScriptHash(), 1, vub, 2000_0000)
			var b1txs []*transaction.Transaction
			switch fam {
			case "control", "vub":
			case "blocked":
				b1txs = append(b1txs, policyTx("blockAccount", P))
			case "fpb-up20":
				b1txs = append(b1txs, policyTx("setFeePerByte", rb.FeePerByte()*200))
			case "balance":
				bal := rb.GetUtilityTokenBalance(P, P)
				b1txs = append(b1txs, fromP(accs[2].ScriptHash(), bal.Int64()-1_5000_0000, H+3, 2000_0000))
			default:
				panic("unknown race family " + fam)
			}
			b1 = e.NewUnsignedBlock(t, b1txs...)
			e.SignBlock(b1)
			if err := rb.AddBlock(b1); err != nil {
				panic("intervening block refused: " + err.Error())
			}
			freshErr = rb.VerifyTx(T)
			b2 = e.NewUnsignedBlock(t, T)
			e.SignBlock(b2)
		})
		rb.Close()
		if fail != "" {
			viol("setup", c02Short(fail))
			continue
		}
		freshOK := freshErr == nil
		// ---- the victim, on a store that can park one read ----
		st := storage.NewMemoryStore()
		mem, stor := map[string][]byte{}, map[string][]byte{}
		for k, v := range snap {
			if c02IsStor(k) {
				stor[k] = bytes.Clone(v)
			} else {
				mem[k] = bytes.Clone(v)
			}
		}
		st.PutChangeSet(mem, stor)
		gs := &c06GateStore{Store: st, key: append([]byte{byte(storage.DataExecutable)}, c06RaceMagic.BytesBE()...)}
		v, _, fail := c02Open(gs, in.Cfg, nil)
		if fail != "" {
			return fmt.Errorf("fork: %s", fail)
		}
		go v.Run()
		func() {
			defer v.Close()
			for _, pb := range pre {
				if err := v.AddBlock(pb); err != nil {
					viol("setup-pre", err.Error())
					return
				}
			}
			mp := v.GetMemPool()
			resA, resB := make(chan error, 1), make(chan error, 1)
			deadline := time.Now().Add(20 * time.Second)
			wait := func(cond func() bool, what string) bool {
				for !cond() {
					if time.Now().After(deadline) {
						viol("infrastructure", what+" did not happen")
						return false
					}
					time.Sleep(50 * time.Microsecond)
				}
				return true
			}
			var release func()
			switch mode {
			case "raced":
				entered, gate := gs.arm()
				go c06RacePool(v, T, resA)
				select {
				case <-entered:
				case err := <-resA:
					viol("setup-pool", fmt.Sprintf("the admission ended before its witness read the store: %v", err))
					close(gate)
					return
				case <-time.After(20 * time.Second):
					viol("infrastructure", "the admission did not reach the store")
					return
				}
				release = func() { close(gate) }
			case "raced-add":
				mp.VerifLock()
				go c06RacePool(v, T, resA)
				if !wait(func() bool {
					state, body := c06GoBody("main.c06RacePool")
					return (strings.HasPrefix(state, "sync.") || state == "semacquire") && strings.Contains(body, "mempool.(*Pool).Add")
				}, "the admission parking at Pool.Add") {
					mp.VerifUnlock()
					return
				}
				release = func() { mp.VerifUnlock() }
			default:
				viol("setup", "unknown mode "+mode)
				return
			}
			// block H+1 from another goroutine: it must wait for the admission
			go c06RaceAdd(v, b1, resB)
			bDone, bAt := false, ""
			var errB error
			last, stable := "", 0
			if !wait(func() bool {
				select {
				case errB = <-resB:
					bDone = true
					return true
				default:
				}
				state, top := c06GoBody("main.c06RaceAdd")
				if top != "" && (strings.HasPrefix(state, "sync.") || state == "semacquire") && top == last {
					stable++
				} else {
					stable = 0
				}
				last = top
				if stable >= 3 {
					switch {
					case strings.Contains(top, "mempool.(*Pool).RemoveStale"):
						bAt = "pool-refresh"
					case strings.Contains(top, "core.(*Blockchain).storeBlock") && !strings.Contains(top, "mempool.(*Pool)"):
						bAt = "chain-lock"
					case mode == "raced" && strings.Contains(top, "storage.(*MemCachedStore).lock"):
						// the parked read holds the write cache's read lock: the block cannot even record its header;
						// this mode checks the outcome only
						bAt = "cache-lock"
					default:
						bAt = "other"
						for _, l := range strings.Split(top, "\n") {
							if !strings.HasPrefix(l, "\t") && !strings.HasPrefix(l, "runtime.") && !strings.HasPrefix(l, "sync.") {
								bAt += " " + l[:min(len(l), 90)]
								break
							}
						}
					}
					return true
				}
				return false
			}, "block H+1 finishing or parking") {
				release()
				return
			}
			if !bDone && strings.HasPrefix(bAt, "other") {
				viol("infrastructure", "block H+1 parked at an unexpected place: "+bAt)
			}
			if bDone || bAt == "pool-refresh" {
				where := "was stored completely"
				if !bDone {
					where = "ran up to the refresh of the pool (parked inside the mempool)"
				}
				viol("admission-not-atomic", fmt.Sprintf("while the admission of T stood between its verification at height %d and its insertion into the pool, block %d %s", H, H+1, where))
			}
			release()
			errA := <-resA
			if !bDone {
				errB = <-resB
			}
			if errB != nil {
				viol("setup-b1", errB.Error())
				return
			}
			kept := mp.ContainsKey(T.Hash())
			if kept && !freshOK {
				viol("stale-tx-kept", fmt.Sprintf("admission raced block %d (PoolTx: %v): the mempool holds a transaction that a fresh verification at this height refuses (%v)", H+1, errA, freshErr))
			}
			var err error
			if m := c02Try(func() { err = v.AddBlock(b2) }); m != "" {
				viol("panic", c02Short(m))
				return
			}
			accepted := err == nil
			if accepted && !freshOK {
				viol("stale-tx-accepted", fmt.Sprintf("block %d carrying a transaction that is invalid at this height (%v) was accepted: its admission raced block %d", H+2, freshErr, H+1))
			}
			if !accepted && freshOK {
				viol("valid-refused", fmt.Sprintf("block %d with a valid transaction refused: %v", H+2, err))
			}
			co.add(kind, fmt.Sprintf("%s/%s/%s", fam, mode, c06Class(err)), true, vin,
				map[string]any{"kept": kept, "fresh_ok": freshOK, "fresh_err": fmt.Sprint(freshErr), "pool_err": fmt.Sprint(errA), "block_waited_at": bAt, "block_done_early": bDone},
				fmt.Sprintf("CStale %d %s %s %s %s %s", 100, coqBool(true), coqBool(true), coqBool(kept), coqBool(freshOK), coqBool(accepted)))
		}()
	}
	return nil
}

func c06RaceOps() []string {
	var ops []string
	for _, f := range c06RaceFams {
		ops = append(ops, f+"/raced/verify")
		if f == "control" || f == "vub" {
			// with the pool's lock held by the harness a block WITH transactions already parks at AddBlock's own look
			// into the pool, before storeBlock: only empty blocks can show where storeBlock waits
			ops = append(ops, f+"/raced-add/verify")
		}
	}
	return ops
}

// c06GoBody: state and stack of the goroutine whose stack contains marker ("" when there is none)
func c06GoBody(marker string) (state, body string) {
	n := runtime.Stack(c02StackBuf, true)
	for _, gr := range strings.Split(string(c02StackBuf[:n]), "\n\n") {
		hdr, b, _ := strings.Cut(gr, "\n")
		if !strings.Contains(b, marker) || strings.Contains(b, "main.c06GoBody") {
			continue
		}
		_, st, _ := strings.Cut(hdr, " [")
		st = strings.TrimSuffix(st, "]:")
		if i := strings.IndexByte(st, ','); i >= 0 {
			st = st[:i]
		}
		return st, b
	}
	return "", ""
}
