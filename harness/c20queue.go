package main

// C20 (i): the real bqueue.Queue over a stub chain.
//
// Serialised mode: the stub chain blocks the Run goroutine inside chain.Height() and chain.AddItem()
// (the only calls Run makes outside its lock regions), so the harness decides the interleaving of
// Put's locked region, Run's two locked regions, AddItem and chain advances from other sources.
// The schedule is an "ops" list; the same list is evaluated by the Coq model (Sync/Queue.v).
// Stress mode: real goroutines, no control; only the specification is evaluated.

import (
	"encoding/json"
	"errors"
	"fmt"
	"os"
	"runtime"
	"strings"
	"sync"
	"time"

	"github.com/nspcc-dev/neo-go/pkg/network/bqueue"
	"go.uber.org/zap"
)

type c20Blk struct {
	idx uint32
	id  int
}

func (b *c20Blk) GetIndex() uint32 { return b.idx }

// c20Ev is the schedule as it happened, for the direct evaluation of the specification
type c20Ev struct {
	K   string // put | att | clear
	Idx uint32
	H   uint32 // put: height Put read; att/clear: chain height at that moment
	OK  bool
}

type c20Att struct {
	Idx uint32 `json:"idx"`
	ID  int    `json:"id"`
	OK  bool   `json:"ok"`
	H   uint32 `json:"h"` // chain height when AddItem was called
}

const (
	c20GateHeight = 1
	c20GateAdd    = 2
	c20GateTried  = 3
	c20GateRead   = 4 // Height() has taken its reading and has not returned yet
)

type c20Stub struct {
	mu       sync.Mutex
	h        uint32
	applied  []uint32
	attempts []c20Att
	lenlog   []int
	relayed  []uint32
	serial   bool
	events   []c20Ev
	curPut   uint32
	lastLook uint32 // height returned to Run's latest Height() call
	putAdv   int    // chain advances from other sources between Put's height reading and its locked region
	skipGate int    // Height() calls from Run still to come that belong to the log statement after a failed AddItem
	failed   uint32 // index of the block of that AddItem
	arrive   chan int
	release  chan int
}

func c20FromRun() bool {
	var pcs [24]uintptr
	n := runtime.Callers(3, pcs[:])
	fr := runtime.CallersFrames(pcs[:n])
	for {
		f, more := fr.Next()
		if strings.Contains(f.Function, "bqueue.(*Queue") && strings.HasSuffix(f.Function, ".Run") {
			return true
		}
		if !more {
			return false
		}
	}
}

func (s *c20Stub) ext() {
	s.h++
	s.applied = append(s.applied, s.h)
}

func (s *c20Stub) Height() uint32 {
	if s.serial && c20FromRun() {
		s.mu.Lock()
		if s.skipGate > 0 {
			s.skipGate--
			h := s.h
			if s.failed > h && s.failed != 0 {
				s.skipGate++ // `Height() < index` holds: the Warn statement reads the height once more
				s.failed = 0
			}
			s.mu.Unlock()
			return h
		}
		s.mu.Unlock()
		s.arrive <- c20GateHeight
		adv := <-s.release
		s.mu.Lock()
		h := s.h
		s.lastLook = h
		for i := 0; i < adv; i++ {
			s.ext()
		}
		s.mu.Unlock()
		// the reading is taken; anything may happen before Run gets to its lock
		s.arrive <- c20GateRead
		<-s.release
		return h
	}
	s.mu.Lock()
	defer s.mu.Unlock()
	h := s.h
	if s.serial {
		s.events = append(s.events, c20Ev{K: "put", Idx: s.curPut, H: h})
		for i := 0; i < s.putAdv; i++ {
			s.ext()
		}
		s.putAdv = 0
	}
	return h
}

func (s *c20Stub) AddItem(b *c20Blk) error {
	fromRun := c20FromRun()
	if s.serial && fromRun {
		s.arrive <- c20GateAdd
		<-s.release
	}
	s.mu.Lock()
	var err error
	if b.idx != s.h+1 {
		err = errors.New("invalid block index")
	} else {
		s.ext()
	}
	if fromRun {
		s.attempts = append(s.attempts, c20Att{b.idx, b.id, err == nil, s.h})
		s.events = append(s.events, c20Ev{K: "att", Idx: b.idx, H: s.h, OK: err == nil})
		if err != nil {
			s.skipGate = 1
			s.failed = b.idx
		}
	}
	s.mu.Unlock()
	if s.serial && fromRun {
		s.arrive <- c20GateTried
		<-s.release
	}
	return err
}

func (s *c20Stub) AddItems(bs ...*c20Blk) error {
	for _, b := range bs {
		if err := s.AddItem(b); err != nil {
			return err
		}
	}
	return nil
}

func (s *c20Stub) extAdvance() {
	s.mu.Lock()
	s.ext()
	s.mu.Unlock()
}

func (s *c20Stub) height() uint32 {
	s.mu.Lock()
	defer s.mu.Unlock()
	return s.h
}

// state of the Run goroutine of the queue under test, read from the goroutine dump:
// 0 = running / blocked elsewhere, 1 = parked in <-checkBlocks, 2 = gone (Run returned)
func c20RunState(buf []byte) int {
	n := runtime.Stack(buf, true)
	txt := string(buf[:n])
	for _, g := range strings.Split(txt, "\n\n") {
		if !strings.Contains(g, "bqueue.(*Queue") || !strings.Contains(g, ".Run(") {
			continue
		}
		lines := strings.SplitN(g, "\n", 3)
		if len(lines) < 2 {
			return 0
		}
		if strings.Contains(lines[0], "[chan receive") && strings.Contains(lines[1], "bqueue.(*Queue") && strings.Contains(lines[1], ".Run(") {
			return 1
		}
		return 0
	}
	return 2
}

const (
	c20Idle = iota
	c20AtHeight
	c20AtAdd
	c20AtTried
	c20AtRead
	c20Stopped
)

type c20QOp struct {
	Op  string `json:"op"` // put | ext | step | discard
	Idx uint32 `json:"idx,omitempty"`
	ID  int    `json:"id,omitempty"`
	Adv int    `json:"adv,omitempty"`
}

type c20QInput struct {
	Cap int      `json:"cap"`
	H0  uint32   `json:"h0"`
	Ops []c20QOp `json:"ops"`
}

type c20QImpl struct {
	Attempts []c20Att   `json:"attempts"`
	Applied  []uint32   `json:"applied"`
	LenLog   []int      `json:"lenlog"`
	Snaps    [][2]int64 `json:"snaps"` // LastQueued() after every op: (lastQ, capacity left)
	Height   uint32     `json:"height"`
	Relayed  []uint32   `json:"relayed"`
	Final    string     `json:"final"` // idle | stopped
	events   []c20Ev
	lastLook uint32
}

var c20StackBuf = make([]byte, 4<<20)

func c20QueueSerial(in c20QInput) (impl c20QImpl, violation string) {
	st := &c20Stub{h: in.H0, serial: true, arrive: make(chan int, 1), release: make(chan int)}
	q := bqueue.New[*c20Blk](st, zap.NewNop(), func(b *c20Blk) { st.mu.Lock(); st.relayed = append(st.relayed, b.idx); st.mu.Unlock() },
		in.Cap, func(l int) {
			fromRun := c20FromRun()
			st.mu.Lock()
			st.lenlog = append(st.lenlog, l)
			if fromRun {
				st.events = append(st.events, c20Ev{K: "clear", H: st.h})
			}
			st.mu.Unlock()
		}, bqueue.NonBlocking)
	objs := map[int]*c20Blk{}
	st.lastLook = in.H0
	done := make(chan struct{})
	go func() { q.Run(); close(done) }()
	deadline := time.Now().Add(60 * time.Second)
	wait := func() int {
		for {
			select {
			case g := <-st.arrive:
				return g // c20GateHeight.. coincide with c20AtHeight..
			default:
			}
			select {
			case <-done:
				return c20Stopped
			default:
			}
			if c20RunState(c20StackBuf) == 1 {
				// parked; an arrival sent just before parking is impossible (it parks only on checkBlocks)
				select {
				case g := <-st.arrive:
					return g
				default:
				}
				return c20Idle
			}
			if time.Now().After(deadline) {
				panic("c20: drainer neither arrives at a gate nor parks")
			}
			runtime.Gosched()
		}
	}
	drn := wait()
	if drn == c20AtHeight { // Run's initial `lastHeight = chain.Height()`: let it read h0 and park
		st.release <- 0
		drn = wait()
		st.release <- 0
		drn = wait()
	}
	snap := func() {
		lq, left := q.LastQueued()
		impl.Snaps = append(impl.Snaps, [2]int64{int64(lq), int64(left)})
	}
	step := func(adv int) {
		switch drn {
		case c20AtHeight:
			st.release <- adv
			drn = wait()
		case c20AtRead:
			for i := 0; i < adv; i++ {
				st.extAdvance()
			}
			st.release <- 0
			drn = wait()
		case c20AtAdd, c20AtTried:
			st.release <- 0
			drn = wait()
		}
	}
	discarded := false
	for _, op := range in.Ops {
		switch op.Op {
		case "put":
			b := objs[op.ID]
			if b == nil || b.idx != op.Idx {
				b = &c20Blk{op.Idx, op.ID}
				objs[op.ID] = b
			}
			st.mu.Lock()
			st.putAdv = op.Adv
			st.curPut = op.Idx
			st.mu.Unlock()
			_ = q.Put(b)
			if drn == c20Idle {
				drn = wait()
			}
		case "ext":
			st.extAdvance()
		case "step":
			step(op.Adv)
		case "discard":
			q.Discard()
			discarded = true
			if drn == c20Idle {
				drn = wait()
			}
		}
		snap()
		if os.Getenv("C20DEBUG") != "" {
			st.mu.Lock()
			fmt.Fprintf(os.Stderr, "op %+v -> drn %d lenlog %v h %d\n", op, drn, st.lenlog, st.h)
			st.mu.Unlock()
		}
	}
	// run the drainer to quiescence
	for i := 0; drn != c20Idle && drn != c20Stopped; i++ {
		if i > 10*in.Cap+1000 {
			violation = "drainer does not come to rest"
			break
		}
		step(0)
	}
	snap()
	impl.Final = "idle"
	if drn == c20Stopped {
		impl.Final = "stopped"
	}
	st.mu.Lock()
	impl.Attempts = append([]c20Att{}, st.attempts...)
	impl.Applied = append([]uint32{}, st.applied...)
	impl.LenLog = append([]int{}, st.lenlog...)
	impl.Relayed = append([]uint32{}, st.relayed...)
	impl.Height = st.h
	impl.events = append([]c20Ev{}, st.events...)
	impl.lastLook = st.lastLook
	st.mu.Unlock()
	// let the goroutine go
	if !discarded {
		q.Discard()
		if drn == c20Idle {
			drn = wait()
		}
	}
	for i := 0; drn != c20Stopped && i < 10*in.Cap+1000; i++ {
		step(0)
	}
	return
}

// ---- specification evaluated directly on what the implementation did ----

// order and uniqueness of what the chain accepted
func c20SpecOrder(h0 uint32, applied []uint32) string {
	for i, x := range applied {
		if x != h0+uint32(i)+1 {
			return fmt.Sprintf("chain accepted %v: position %d is %d, expected %d", applied, i, x, h0+uint32(i)+1)
		}
	}
	return ""
}

// highest contiguous block the queue was effectively given (serialised schedule): a Put counts when the block was inside the
// window of the height Put read (hseen < idx <= hseen+cap: blocks further ahead are dropped by design and have to be delivered
// again); it stops counting when the drainer handed it to the chain too early (possible only for a block exactly one capacity
// ahead of a stale height reading) and cleared the slot. Required: the drainer is at rest and its last look at the chain saw
// the final height (otherwise the next block legitimately waits for the next Put).  Same accounting as
// queue_reaches_max_contiguous in Sync/QueueProofs.v.
func c20SpecMaxContig(in c20QInput, impl c20QImpl) string {
	if impl.Final != "idle" || impl.lastLook != impl.Height {
		return ""
	}
	given := map[uint32]bool{}
	var last *c20Ev
	for i := range impl.events {
		e := &impl.events[i]
		switch e.K {
		case "put":
			if e.Idx > e.H && e.Idx <= e.H+uint32(in.Cap) {
				given[e.Idx] = true
			}
		case "att":
			last = e
		case "clear":
			if last != nil && !last.OK && last.Idx > e.H {
				delete(given, last.Idx)
			}
			last = nil
		}
	}
	for _, op := range in.Ops {
		if op.Op == "discard" {
			return ""
		}
	}
	m := in.H0
	for {
		if m+1 <= impl.Height || given[m+1] {
			m++
		} else {
			break
		}
	}
	if impl.Height < m {
		return fmt.Sprintf("queue came to rest at height %d although every block up to %d was given", impl.Height, m)
	}
	return ""
}

func c20QCoq(in c20QInput, impl c20QImpl) string {
	var ops []string
	for _, o := range in.Ops {
		switch o.Op {
		case "put":
			ops = append(ops, fmt.Sprintf("QPut %d %d %d", o.Idx, o.ID, o.Adv))
		case "ext":
			ops = append(ops, "QExt")
		case "step":
			ops = append(ops, fmt.Sprintf("QStep %d", o.Adv))
		case "discard":
			ops = append(ops, "QDiscard")
		}
	}
	var att, app, ll, sn []string
	for _, a := range impl.Attempts {
		att = append(att, fmt.Sprintf("(%d,%d,%s)", a.Idx, a.ID, coqBool(a.OK)))
	}
	for _, a := range impl.Applied {
		app = append(app, fmt.Sprint(a))
	}
	for _, l := range impl.LenLog {
		ll = append(ll, coqZi(int64(l))+"%Z")
	}
	for _, s := range impl.Snaps {
		sn = append(sn, fmt.Sprintf("(%d,%s%%Z)", s[0], coqZi(s[1])))
	}
	return fmt.Sprintf("CQueue %d %d %s %s %s %s %s %d %s", in.Cap, in.H0, coqList(ops), coqList(att), coqList(app), coqList(ll), coqList(sn),
		impl.Height, coqBool(impl.Final == "stopped"))
}

func c20GenQueue(r *rng, big bool) c20QInput {
	in := c20QInput{Cap: 1 + r.intn(6), H0: uint32(r.intn(4))}
	if r.chance(15) {
		in.Cap = 1 + r.intn(2)
	}
	if big {
		in.Cap = 2 + r.intn(12)
	}
	nops := 5 + r.intn(40)
	if big {
		nops = 40 + r.intn(160)
	}
	h := in.H0 // approximate height, to aim indices around the tip
	id := 0
	var puts []c20QOp
	for i := 0; i < nops; i++ {
		if r.chance(4) {
			// a block one capacity ahead of the tip arrives between the drainer's height reading and its lock
			id++
			in.Ops = append(in.Ops, c20QOp{Op: "step"}, c20QOp{Op: "step"}, c20QOp{Op: "ext"},
				c20QOp{Op: "put", Idx: h + 1 + uint32(in.Cap) + uint32(r.intn(2)), ID: id}, c20QOp{Op: "step"}, c20QOp{Op: "step"}, c20QOp{Op: "step"})
			h++
			continue
		}
		switch x := r.intn(100); {
		case x < 45:
			id++
			var idx uint32
			switch r.intn(10) {
			case 0: // at or below the tip
				idx = h - uint32(r.intn(int(h)+1))
			case 1: // far ahead: window boundary
				idx = h + uint32(in.Cap) + uint32(r.intn(3))
			case 2:
				idx = h + uint32(in.Cap) - uint32(r.intn(2))
			default:
				idx = h + 1 + uint32(r.intn(in.Cap+1))
			}
			op := c20QOp{Op: "put", Idx: idx, ID: id}
			if r.chance(12) {
				op.Adv = 1 + r.intn(2)
				h += uint32(op.Adv)
			}
			if r.chance(10) && len(puts) > 0 { // the same object again
				prev := puts[r.intn(len(puts))]
				op.Idx, op.ID = prev.Idx, prev.ID
			}
			puts = append(puts, op)
			in.Ops = append(in.Ops, op)
		case x < 55:
			in.Ops = append(in.Ops, c20QOp{Op: "ext"})
			h++
		case x < 98:
			op := c20QOp{Op: "step"}
			if r.chance(15) {
				op.Adv = 1 + r.intn(2)
				h += uint32(op.Adv)
			}
			in.Ops = append(in.Ops, op)
			if r.chance(40) {
				h++ // a step often applies a block
			}
		case r.chance(15):
			in.Ops = append(in.Ops, c20QOp{Op: "discard"})
		default:
			in.Ops = append(in.Ops, c20QOp{Op: "step"})
		}
	}
	return in
}

// ---- stress: real concurrency ----

type c20StressInput struct {
	Seed      uint64 `json:"seed"`
	Cap       int    `json:"cap"`
	Top       uint32 `json:"top"`
	Producers int    `json:"producers"`
	Consensus bool   `json:"consensus"`
}

func c20QueueStress(in c20StressInput) (impl c20QImpl, violation string) {
	st := &c20Stub{}
	q := bqueue.New[*c20Blk](st, zap.NewNop(), nil, in.Cap, nil, bqueue.NonBlocking)
	rundone := make(chan struct{})
	go func() { q.Run(); close(rundone) }()
	var wg sync.WaitGroup
	stop := make(chan struct{})
	for p := 0; p < in.Producers; p++ {
		wg.Add(1)
		go func(p int) {
			defer wg.Done()
			rr := newRng(in.Seed*31 + uint64(p))
			id := p * 1000000
			for {
				select {
				case <-stop:
					return
				default:
				}
				h := st.height()
				if h >= in.Top {
					return
				}
				var i uint32
				switch rr.intn(8) {
				case 0:
					i = h + uint32(in.Cap) + uint32(rr.intn(3)) // beyond or at the window edge
				case 1:
					i = h - uint32(rr.intn(int(h)+1))
				default:
					i = h + 1 + uint32(rr.intn(in.Cap))
				}
				if i <= in.Top {
					id++
					_ = q.Put(&c20Blk{i, id})
				}
				if rr.intn(4) == 0 {
					runtime.Gosched()
				}
			}
		}(p)
	}
	if in.Consensus {
		wg.Add(1)
		go func() {
			defer wg.Done()
			rr := newRng(in.Seed*31 + 977)
			for {
				select {
				case <-stop:
					return
				default:
				}
				st.mu.Lock()
				if st.h >= in.Top {
					st.mu.Unlock()
					return
				}
				if rr.intn(3) == 0 {
					st.ext()
				}
				st.mu.Unlock()
				runtime.Gosched()
			}
		}()
	}
	done := make(chan struct{})
	go func() { wg.Wait(); close(done) }()
	select {
	case <-done:
	case <-time.After(120 * time.Second):
		close(stop)
		<-done
		violation = fmt.Sprintf("no convergence: height %d of %d although producers keep delivering every block above the tip", st.height(), in.Top)
	}
	q.Discard()
	<-rundone
	st.mu.Lock()
	impl.Attempts = append([]c20Att{}, st.attempts...)
	impl.Applied = append([]uint32{}, st.applied...)
	impl.Height = st.h
	st.mu.Unlock()
	return
}

type c20QCase struct {
	Kind  string          `json:"kind"`
	Input json.RawMessage `json:"input"`
}

func c20RunQueueCase(co *caseOut, kind string, raw json.RawMessage) error {
	switch kind {
	case "queue":
		var in c20QInput
		if err := json.Unmarshal(raw, &in); err != nil {
			return err
		}
		if in.Cap <= 0 {
			in.Cap = 1
		}
		impl, v := c20QueueSerial(in)
		if v != "" {
			co.violation(kind, v, in, impl)
		}
		if s := c20SpecOrder(in.H0, impl.Applied); s != "" {
			co.violation(kind, "blocks applied out of order or twice: "+s, in, impl)
		}
		if s := c20SpecMaxContig(in, impl); s != "" {
			co.violation(kind, "highest contiguous block not reached: "+s, in, impl)
		}
		nfail := 0
		for _, a := range impl.Attempts {
			if !a.OK {
				nfail++
			}
		}
		tag := fmt.Sprintf("applied%d", min(len(impl.Applied)/4*4, 12))
		if nfail > 0 {
			tag += "+rejected"
		}
		if impl.Final == "stopped" {
			tag += "+discard"
		}
		co.add(kind, tag, len(impl.Attempts) > 0, in, impl, c20QCoq(in, impl))
	case "qstress":
		var in c20StressInput
		if err := json.Unmarshal(raw, &in); err != nil {
			return err
		}
		impl, v := c20QueueStress(in)
		if v != "" {
			co.violation(kind, v, in, map[string]any{"height": impl.Height})
		}
		if s := c20SpecOrder(0, impl.Applied); s != "" {
			co.violation(kind, "blocks applied out of order or twice: "+s, in, nil)
		}
		if impl.Height != in.Top && v == "" {
			co.violation(kind, fmt.Sprintf("final height %d, expected %d", impl.Height, in.Top), in, nil)
		}
		nok := 0
		for _, a := range impl.Attempts {
			if a.OK {
				nok++
			}
		}
		small := map[string]any{"height": impl.Height, "attempts": len(impl.Attempts), "from_queue": nok}
		co.add(kind, fmt.Sprintf("p%d", in.Producers), nok > 0, in, small,
			fmt.Sprintf("CQStress %d %d %d", in.Top, impl.Height, len(impl.Applied)))
	default:
		return fmt.Errorf("unknown kind %s", kind)
	}
	return nil
}

func init() { register("c20", runC20) }

const c20QueueRule = "queue: schedules of Put (at/below the tip, inside the window, at and beyond its edge, same index and same object again, " +
	"height advancing between Put's reading and its locked region), chain advances from other sources, single steps of the drainer " +
	"(height reading, peek, AddItem, clear) and Discard over capacities 1..7 (thorough: ..14); a case is non-trivial when the drainer " +
	"handed at least one block to the chain; qstress: 2-4 concurrent producers re-delivering around the tip plus a concurrent direct " +
	"adder, non-trivial when at least one block reached the chain through the queue"

func runC20(args []string) error {
	cf, fs := parseCommon("c20", args)
	fs.Parse(args)
	co := newCaseOut(cf.out, "Harness.C20", "N", c20QueueRule)
	if cf.replay != "" {
		cases, err := readReplay(cf.replay)
		if err != nil {
			return err
		}
		for _, c := range cases {
			var x c20QCase
			if err := json.Unmarshal(c, &x); err != nil {
				return err
			}
			if err := c20RunQueueCase(co, x.Kind, x.Input); err != nil {
				return err
			}
		}
		return co.finish()
	}
	r := newRng(cf.seed)
	for i := 0; i < cf.n; i++ {
		in := c20GenQueue(r, cf.tier == "thorough" && i%4 == 0)
		raw, _ := json.Marshal(in)
		if err := c20RunQueueCase(co, "queue", raw); err != nil {
			return err
		}
	}
	nstress := max(3, cf.n/100)
	for i := 0; i < nstress; i++ {
		in := c20StressInput{Seed: r.next() % 1000000, Cap: 2 + r.intn(10), Top: uint32(200 + r.intn(800)), Producers: 2 + r.intn(3), Consensus: r.chance(70)}
		raw, _ := json.Marshal(in)
		if err := c20RunQueueCase(co, "qstress", raw); err != nil {
			return err
		}
	}
	return co.finish()
}

// c20race: the concurrent part only, meant to be run from the -race build of the harness (a data race in the
// queue makes the race detector fail the run)
func init() { register("c20race", runC20Race) }

func runC20Race(args []string) error {
	cf, fs := parseCommon("c20race", args)
	fs.Parse(args)
	co := newCaseOut(cf.out, "Harness.C20", "N", c20QueueRule)
	if cf.replay != "" {
		cases, err := readReplay(cf.replay)
		if err != nil {
			return err
		}
		for _, c := range cases {
			var x c20QCase
			if err := json.Unmarshal(c, &x); err != nil {
				return err
			}
			if err := c20RunQueueCase(co, x.Kind, x.Input); err != nil {
				return err
			}
		}
		return co.finish()
	}
	r := newRng(cf.seed + 77)
	for i := 0; i < cf.n; i++ {
		in := c20StressInput{Seed: r.next() % 1000000, Cap: 1 + r.intn(12), Top: uint32(100 + r.intn(400)), Producers: 2 + r.intn(3), Consensus: r.chance(70)}
		raw, _ := json.Marshal(in)
		if err := c20RunQueueCase(co, "qstress", raw); err != nil {
			return err
		}
	}
	return co.finish()
}
