package main

// Coq term printers for the C05 / C01 cases (Harness/C05.v, Harness/C01.v) and the two behaviour probes that tell
// the model which of the two repaired behaviours (F7, F23) the tree under test has.

import (
	"fmt"
	"sort"
	"strings"

	"github.com/nspcc-dev/neo-go/pkg/config"
	"github.com/nspcc-dev/neo-go/pkg/core/transaction"
)

func c05N(i int) string { return fmt.Sprintf("%d%%N", i) }
func c05NList(l []int) string {
	xs := make([]string, len(l))
	for i, x := range l {
		xs[i] = fmt.Sprint(x)
	}
	return "[" + strings.Join(xs, ";") + "]%N"
}
func c05ZS(s string) string {
	if strings.HasPrefix(s, "-") {
		return "(" + s + ")"
	}
	return s
}
func c05OptN(i int) string {
	if i < 0 {
		return "None"
	}
	return "(Some " + c05N(i) + ")"
}

var c05KindNames = []string{"KPlain", "KAcceptor", "KNoCb", "KRejector", "KNotary", "KNeo", "KGas", "KNative"}

// ---------- probes ----------

type c05Fixes struct{ F7, F23, F47 bool }

var c05FixCache = map[string]*c05Fixes{}

// c05Probe measures, on a scratch chain of the tree under test, (F7) whether a Policy.blockAccount of a committee
// candidate with no NEO movement afterwards changes the next-epoch validators of a node that keeps running, and
// (F23) whether a dropped candidate's cached gas-per-vote is gone when it registers again.
func c05Probe(hf string) (*c05Fixes, error) {
	if f, ok := c05FixCache[hf]; ok {
		return f, nil
	}
	mk := func(ops []c05Op) (*c05Chain, *c05Runner, error) {
		t := &c05TB{}
		c, err := c05Setup(t, hf, nil)
		if err != nil {
			t.done()
			return nil, nil, err
		}
		run, err := c05NewRunner(c, nil)
		if err != nil {
			c.close()
			return nil, nil, err
		}
		for _, op := range ops {
			if err := run.submit(op); err != nil {
				c.close()
				return nil, nil, err
			}
		}
		return c, run, nil
	}
	var base []c05Op
	for a := 1; a <= 14; a++ {
		base = append(base, c05Op{T: "gt", F: 0, To: a, A: 30000_0000_0000})
	}
	base = append(base, c05Op{T: "blk"})
	cands := []int{9, 10, 11, 12, 13, 14, 8}
	for i := 0; i < 7; i++ {
		base = append(base, c05Op{T: "nt", F: 0, To: i + 1, A: int64(7-i) * 1000000}, c05Op{T: "reg", F: cands[i]})
	}
	base = append(base, c05Op{T: "blk"})
	for i := 0; i < 7; i++ {
		base = append(base, c05Op{T: "vote", F: i + 1, To: cands[i]})
	}
	for i := 0; i < 16; i++ { // up to height 19 (epochs start at 6, 12, 18)
		base = append(base, c05Op{T: "blk"})
	}
	res := &c05Fixes{}
	// F7
	ops := append(append([]c05Op{}, base...), c05Op{T: "block", To: 9}, c05Op{T: "blk"}, c05Op{T: "blk"}, c05Op{T: "blk"}, c05Op{T: "blk"})
	c, _, err := mk(ops)
	if err != nil {
		return nil, err
	}
	if c.bc.BlockHeight() != 23 {
		c.close()
		return nil, fmt.Errorf("probe: height %d", c.bc.BlockHeight())
	}
	blockedKey := c.u.keyOfAcct[9]
	res.F7 = true
	for _, k := range c.bc.ComputeNextBlockValidators() {
		if c.u.key(k.Bytes()) == blockedKey {
			res.F7 = false
		}
	}
	c.close()
	// F23
	ops = append(append([]c05Op{}, base...), c05Op{T: "vote", F: 1, K: -1}, c05Op{T: "blk"}, c05Op{T: "unreg", F: 9}, c05Op{T: "blk"},
		c05Op{T: "reg", F: 9}, c05Op{T: "blk"}, c05Op{T: "vote", F: 1, To: 9}, c05Op{T: "blk"})
	c, run, err := mk(ops)
	if err != nil {
		return nil, err
	}
	d := run.blocks[len(run.blocks)-1].Dump
	found := false
	for _, a := range d.Neo {
		if a.A == 1 && a.Vote == c.u.keyOfAcct[9] {
			found = true
			res.F23 = a.LGPV == "0"
		}
	}
	c.close()
	if !found {
		return nil, fmt.Errorf("probe: the voter of the F23 scenario did not vote")
	}
	// F47 (needs Faun): set the same whitelist entry twice, read the cached fee through Policy.getWhitelistFeeContracts
	res.F47 = true
	if _, faun := c05Hardforks(hf)[config.HFFaun.String()]; faun {
		ops = []c05Op{{T: "gt", F: 0, To: 13, A: 30000_0000_0000}, {T: "blk"}, {T: "deploy", F: 13}, {T: "blk"},
			{T: "wl", To: 13, A: 7}, {T: "blk"}, {T: "wl", To: 13, A: 900000}, {T: "blk"}}
		c, _, err = mk(ops)
		if err != nil {
			return nil, err
		}
		o := c01Observe(c.bc, c.u, nil)
		c.close()
		if len(o.Whitelist) != 2 || o.Whitelist[0] != 13 {
			return nil, fmt.Errorf("probe: whitelist entry not found (%v %v)", o.Whitelist, o.Err)
		}
		res.F47 = o.Whitelist[1] == 900000
	}
	c05FixCache[hf] = res
	return res, nil
}

// ---------- terms ----------

func c05CfgTerm(c *c05Chain, hf string, fx *c05Fixes) string {
	u := c.u
	kinds := make([]string, len(u.kinds))
	for i, k := range u.kinds {
		kinds[i] = c05KindNames[k]
	}
	hfs := c05Hardforks(hf)
	_, faun := hfs[config.HFFaun.String()]
	_, gorgon := hfs[config.HFGorgon.String()]
	return fmt.Sprintf("(mkCfg %s %s %d [%s] %s %s %s %d %s %s %s %s %s)",
		c05NList(u.acctOfKey), c05NList(u.standby), c.nval, strings.Join(kinds, ";"),
		c05N(c05ANotary), c05N(c05ANeo), c05N(c05AGas), c.bc.GetConfig().InitialGASSupply,
		coqBool(faun), coqBool(gorgon), coqBool(fx.F7), coqBool(fx.F23), coqBool(fx.F47))
}

func c05OpTerm(c *c05Chain, op c05Op, sysfee int64) string {
	u := c.u
	from := op.F
	if op.W != 0 {
		from = op.W
	}
	keyOpt := func(k int) string {
		if k < 0 || k >= len(u.keys) {
			return "None"
		}
		return c05OptN(k)
	}
	ownKey := u.keyOfAcct[op.F]
	switch op.T {
	case "nt":
		return fmt.Sprintf("(ONeoT %s %s %s)", c05N(from), c05N(op.To), coqZi(op.A))
	case "gt":
		return fmt.Sprintf("(OGasT %s %s %s DNone)", c05N(from), c05N(op.To), coqZi(op.A))
	case "na":
		return fmt.Sprintf("(OGasT %s %s %s DNone)", c05N(op.F), c05N(op.To), coqZi(op.A))
	case "vote":
		k := op.K
		if op.To > 0 {
			if kk, ok := u.keyOfAcct[op.To]; ok {
				k = kk
			}
		}
		return fmt.Sprintf("(OVote %s %s)", c05N(from), keyOpt(k))
	case "reg":
		k := ownKey
		if op.To > 0 {
			if kk, ok := u.keyOfAcct[op.To]; ok {
				k = kk
			}
		}
		return fmt.Sprintf("(OReg %s %s)", c05N(k), coqZi(sysfee))
	case "regpay":
		return fmt.Sprintf("(OGasT %s %s %s (DKey %s))", c05N(op.F), c05N(c05ANeo), coqZi(op.A), c05N(ownKey))
	case "unreg":
		return fmt.Sprintf("(OUnreg %s)", c05N(ownKey))
	case "dep":
		to := -1
		if op.To != 0 {
			to = op.To
		}
		return fmt.Sprintf("(OGasT %s %s %s (DDeposit %s %s))", c05N(op.F), c05N(c05ANotary), coqZi(op.A), c05OptN(to), coqZi(int64(op.N)))
	case "wd":
		to := -1
		if op.To != 0 {
			to = op.To
		}
		return fmt.Sprintf("(OWithdraw %s %s)", c05N(from), c05OptN(to))
	case "lock":
		return fmt.Sprintf("(OLock %s %s)", c05N(op.F), coqZi(int64(op.N)))
	case "lim":
		return c05LimTerm(c, op)
	case "fault", "oog":
		return "OAbort"
	case "setgpb":
		return fmt.Sprintf("(OSetGPB %s)", coqZi(op.A))
	case "setreg":
		return fmt.Sprintf("(OSetReg %s)", coqZi(op.A))
	case "block":
		return fmt.Sprintf("(OBlock %s)", c05N(op.To))
	case "unblock":
		return fmt.Sprintf("(OUnblock %s)", c05N(op.To))
	case "setfpb":
		return fmt.Sprintf("(OPolicy 10 %s)", coqZi(op.A))
	case "setexec":
		return fmt.Sprintf("(OPolicy 18 %s)", coqZi(op.A))
	case "setstor":
		return fmt.Sprintf("(OPolicy 19 %s)", coqZi(op.A))
	case "setattr":
		return fmt.Sprintf("(OPolicy %d %s)", 5120+op.N, coqZi(op.A))
	case "deployother":
		return "ODeployOther"
	case "deploy":
		return fmt.Sprintf("(ODeploy %s %s)", c05N(op.F), c01ShapeTerm(u, c01ShapeManifest(c.t, u, op.F, op.K, false)))
	case "cupdate":
		if op.To < 1 || op.To > 14 {
			return "OAbort"
		}
		return fmt.Sprintf("(OUpdate %s %s)", c05N(op.To), c01ShapeTerm(u, c01ShapeManifest(c.t, u, op.To, op.K, true)))
	case "cdestroy":
		return fmt.Sprintf("(ODestroy %s)", c05N(op.To))
	case "role":
		role, ks := c01RoleArgs(u, op)
		return fmt.Sprintf("(ODesignate %s %s)", c05N(role), c05NList(ks))
	case "wl":
		return fmt.Sprintf("(OWhitelist %s (Some %s))", c05N(op.To), coqZi(op.A))
	case "wlrm":
		return fmt.Sprintf("(OWhitelist %s None)", c05N(op.To))
	}
	return "OOpaque"
}

func c05IsCommitteeOp(t string) bool {
	switch t {
	case "setgpb", "setreg", "block", "unblock", "setfpb", "setexec", "setstor", "setattr", "role", "setvub", "setms", "wl", "wlrm", "set2":
		return true
	}
	return false
}

func c05EventTerm(e c05Event) string {
	tok := "NEO"
	if e.Tok == 1 {
		tok = "GAS"
	}
	return fmt.Sprintf("mkEv %s %s %s %s", tok, c05OptN(e.From), c05OptN(e.To), c05ZS(e.Amt))
}

func c05DumpTerm(d *c05Dump) string {
	var sb strings.Builder
	neo := append([]c05NeoAcc{}, d.Neo...)
	sort.Slice(neo, func(i, j int) bool { return neo[i].A < neo[j].A })
	gas := append([]c05Bal{}, d.Gas...)
	sort.Slice(gas, func(i, j int) bool { return gas[i].A < gas[j].A })
	cands := append([]c05Cand{}, d.Cands...)
	sort.Slice(cands, func(i, j int) bool { return cands[i].K < cands[j].K })
	var gpv []c05KV
	for _, x := range d.GPV {
		if x.V != "0" {
			gpv = append(gpv, x)
		}
	}
	sort.Slice(gpv, func(i, j int) bool { return gpv[i].K < gpv[j].K })
	deps := append([]c05Dep{}, d.Deposits...)
	sort.Slice(deps, func(i, j int) bool { return deps[i].A < deps[j].A })
	blocked := append([]int{}, d.Blocked...)
	sort.Ints(blocked)
	gpb := append([]c05KV{}, d.GasPerBlock...)
	sort.Slice(gpb, func(i, j int) bool { return gpb[i].K < gpb[j].K })
	list := func(n int, f func(i int) string) string {
		xs := make([]string, n)
		for i := range xs {
			xs[i] = f(i)
		}
		return "[" + strings.Join(xs, ";") + "]"
	}
	fmt.Fprintf(&sb, "(mkDump %s %s %s ", c05ZS(d.NeoTotal), c05ZS(d.GasTotal), c05ZS(d.VotersCount))
	sb.WriteString(list(len(neo), func(i int) string {
		x := neo[i]
		return fmt.Sprintf("(%s,(%s,%d,%s,%s))", c05N(x.A), c05ZS(x.Bal), x.Height, c05OptN(x.Vote), c05ZS(x.LGPV))
	}) + " ")
	sb.WriteString(list(len(gas), func(i int) string { return fmt.Sprintf("(%s,%s)", c05N(gas[i].A), c05ZS(gas[i].Bal)) }) + " ")
	sb.WriteString(list(len(cands), func(i int) string {
		return fmt.Sprintf("(%s,(%s,%s))", c05N(cands[i].K), coqBool(cands[i].Reg), c05ZS(cands[i].Votes))
	}) + " ")
	sb.WriteString(list(len(gpv), func(i int) string { return fmt.Sprintf("(%s,%s)", c05N(gpv[i].K), c05ZS(gpv[i].V)) }) + " ")
	sb.WriteString(list(len(deps), func(i int) string {
		return fmt.Sprintf("(%s,(%s,%d))", c05N(deps[i].A), c05ZS(deps[i].Amount), deps[i].Till)
	}) + " ")
	sb.WriteString(list(len(d.Committee), func(i int) string { return fmt.Sprintf("(%s,%s)", c05N(d.Committee[i].K), c05ZS(d.Committee[i].V)) }) + " ")
	sb.WriteString(list(len(gpb), func(i int) string { return fmt.Sprintf("(%d,%s)", gpb[i].K, c05ZS(gpb[i].V)) }) + " ")
	sb.WriteString(c05ZS(d.RegPrice) + " " + c05NList(blocked) + ")")
	return sb.String()
}

// c05TxTerms prints the transactions of one block; csig = the committee key ids the committee-only operations
// of that block were co-signed with (recorded when the transaction was built).
func c05TxTerms(c *c05Chain, ops []c05Op, b *c05BlockRec) string {
	var xs []string
	for j, t := range b.Txs {
		op := c05Op{T: "opaque"}
		if t.Op >= 0 && t.Op < len(ops) {
			op = ops[t.Op]
		} else if t.Op == -1 {
			op = c05Op{T: "deployother"} // the prelude deploys the three callback contracts
		}
		tx := b.blk.Transactions[j]
		csig := "[]"
		if c05IsCommitteeOp(op.T) && b.csigs[t.Op] != nil {
			csig = c05NList(b.csigs[t.Op])
		}
		res := "None"
		if t.Res == 1 {
			res = "(Some true)"
		} else if t.Res == 0 {
			res = "(Some false)"
		}
		if op.T == "set2" && t.Halt {
			// two updates of one setting in one transaction = two model transactions, the second without fees
			_, sub := c05Set2(op)
			xs = append(xs, fmt.Sprintf("mkTx %s %d %d %s %s true None", c05N(t.Sender), tx.SystemFee, tx.NetworkFee, csig, c05OpTerm(c, sub[0], tx.SystemFee)),
				fmt.Sprintf("mkTx %s 0 0 %s %s true None", c05N(t.Sender), csig, c05OpTerm(c, sub[1], tx.SystemFee)))
			continue
		}
		if nas := tx.GetAttributes(transaction.NotaryAssistedT); len(nas) != 0 {
			// NotaryAssisted: (NKeys, payer); the payer is the second signer when the Notary contract is the sender
			payer := t.Sender
			if t.Sender == c05ANotary && len(tx.Signers) == 2 {
				payer = c.u.acct(tx.Signers[1].Account)
			}
			xs = append(xs, fmt.Sprintf("mkTxA %s %d %d %s %s %s %s (Some (%d, %s))", c05N(t.Sender), tx.SystemFee, tx.NetworkFee, csig,
				c05OpTerm(c, op, tx.SystemFee), coqBool(t.Halt), res, nas[0].Value.(*transaction.NotaryAssisted).NKeys, c05N(payer)))
			continue
		}
		xs = append(xs, fmt.Sprintf("mkTx %s %d %d %s %s %s %s", c05N(t.Sender), tx.SystemFee, tx.NetworkFee, csig,
			c05OpTerm(c, op, tx.SystemFee), coqBool(t.Halt), res))
	}
	return "[" + strings.Join(xs, ";\n      ") + "]"
}

func c05BlockTerm(c *c05Chain, ops []c05Op, b *c05BlockRec) string {
	var evs []c05Event
	evs = append(evs, b.Pre...)
	for _, t := range b.Txs {
		evs = append(evs, t.Events...)
	}
	evs = append(evs, b.Post...)
	es := make([]string, len(evs))
	for i, e := range evs {
		es[i] = c05EventTerm(e)
	}
	return fmt.Sprintf("mkB %s\n     [%s]\n     %s", c05TxTerms(c, ops, b), strings.Join(es, ";"), c05DumpTerm(b.Dump))
}

func c05CoqCase(c *c05Chain, in c05Input, blocks []*c05BlockRec) string {
	fx, err := c05Probe(in.HF)
	if err != nil {
		panic(err)
	}
	bs := make([]string, len(blocks))
	for i, b := range blocks {
		bs[i] = c05BlockTerm(c, in.Ops, b)
	}
	return fmt.Sprintf("CHist %s\n   [%s]", c05CfgTerm(c, in.HF, fx), strings.Join(bs, ";\n    "))
}

func c01CoqCase(c *c05Chain, in c01Input, blocks []*c05BlockRec, obs []*c01Obs) string {
	fx, err := c05Probe(in.Proto.HF)
	if err != nil {
		panic(err)
	}
	// the model is restarted after every height at which some replica of the case restarts
	seen := map[int]bool{}
	var restarts []string
	for _, rp := range in.Replicas {
		for _, h := range rp.Restarts {
			if !seen[h] {
				seen[h] = true
				restarts = append(restarts, fmt.Sprint(h))
			}
		}
	}
	bs := make([]string, len(blocks))
	for i, b := range blocks {
		o := obs[i]
		pol := []string{fmt.Sprint(o.Policy[0]), fmt.Sprint(o.Policy[1]), fmt.Sprint(o.Policy[2]), fmt.Sprint(o.GasPerBlock), fmt.Sprint(o.RegPrice)}
		if b.Dump != nil { // the stored gas-per-block records (index, value), ascending
			gpb := append([]c05KV{}, b.Dump.GasPerBlock...)
			sort.Slice(gpb, func(x, y int) bool { return gpb[x].K < gpb[y].K })
			for _, kv := range gpb {
				pol = append(pol, fmt.Sprint(kv.K), c05ZS(kv.V))
			}
		}
		blocked := append([]int{}, o.Blocked...)
		sort.Ints(blocked)
		type wf struct{ a, f int64 }
		var wl []wf
		for j := 0; j+1 < len(o.Whitelist); j += 2 {
			wl = append(wl, wf{o.Whitelist[j], o.Whitelist[j+1]})
		}
		sort.Slice(wl, func(x, y int) bool { return wl[x].a < wl[y].a })
		ws := make([]string, len(wl))
		for j, x := range wl {
			a := x.a
			if a < 0 {
				a = 999 // an entry of a contract outside the universe: the model cannot have it
			}
			ws[j] = fmt.Sprintf("(%d%%N,%d)", a, x.f)
		}
		rs := make([]string, len(o.RoleQ))
		for j, q := range o.RoleQ {
			rs[j] = fmt.Sprintf("(%d%%N,%d,%s)", q.Role, q.Index, c05NList(q.Keys))
		}
		cs := make([]string, len(o.ContractQ))
		for j, q := range o.ContractQ {
			cs[j] = fmt.Sprintf("(%d%%N,(%d,%d))", q.A, q.ID, q.Counter)
		}
		ms := make([]string, len(o.ContractQ))
		for j, q := range o.ContractQ {
			ms[j] = fmt.Sprintf("(%d%%N,%s)", q.A, q.Shape)
		}
		bs[i] = fmt.Sprintf("mkGB %s\n     (mkG %s %s %s %s [%s] [%s] [%s] [%s] [%s])", c05TxTerms(c, in.Ops, b),
			c05NList(o.Committee), c05NList(o.NextVals), c05NList(o.NewEpoch), c05NList(blocked), strings.Join(pol, ";"), strings.Join(ws, ";"),
			strings.Join(rs, ";"), strings.Join(cs, ";"), strings.Join(ms, ";"))
	}
	return fmt.Sprintf("CGov %s [%s]\n   [%s]", c05CfgTerm(c, in.Proto.HF, fx), strings.Join(restarts, ";"), strings.Join(bs, ";\n    "))
}
