package main

func c05CoqCase(c *c05Chain, in c05Input, blocks []*c05BlockRec) string { return "CStub" }

func c01CoqCase(c *c05Chain, in c01Input, blocks []*c05BlockRec, obs []*c01Obs) string { return "CStub" }
