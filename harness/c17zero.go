package main

// C17: systematic zero values. For every type of the table with a value generator and for every exported field
// (through nested structs and the first element of slices of structs) the field takes its ZERO value — zero hash, 0,
// "", false, nil slice — or, for slices, the EMPTY non-nil slice; one field at a time and all at once; under the
// configuration flags that change the wire form (the table has header, block with and without StateRootEnabled).
// Law: if the binary decoder accepts the encoding of such a value, then binary AND JSON round trips are the identity
// and unmarshal(marshal(x)) is accepted; "absent" and "present but zero" must not be conflated.

import (
	"bytes"
	"encoding/json"
	"fmt"
	"reflect"
	"strings"

	"github.com/nspcc-dev/neo-go/pkg/core/block"
	"github.com/nspcc-dev/neo-go/pkg/core/state"
	"github.com/nspcc-dev/neo-go/pkg/core/transaction"
	"github.com/nspcc-dev/neo-go/pkg/crypto/keys"
	"github.com/nspcc-dev/neo-go/pkg/io"
	"github.com/nspcc-dev/neo-go/pkg/util"
	"github.com/nspcc-dev/neo-go/pkg/vm/stackitem"
)

// exported fields that are configuration or out-of-band state, not data of the value: the wire-form switches
// (the table has both settings as separate types), the "trimmed" marker, and the trigger of an execution
// (trigger.Type has no zero member: 0 is not a value of the type, its JSON name does not exist)
var c17NotData = map[string]bool{"StateRootEnabled": true, "StateRootInHeader": true, "Trimmed": true, "Trigger": true, "Features": true}

// paths of the fields that can be zeroed: "A.B", "A[0].B"
func c17ZeroPaths(v reflect.Value, prefix string, depth int, out *[]string) {
	for v.Kind() == reflect.Pointer || v.Kind() == reflect.Interface {
		if v.IsNil() {
			return
		}
		v = v.Elem()
	}
	if v.Kind() != reflect.Struct || depth > 3 {
		return
	}
	t := v.Type()
	for i := 0; i < t.NumField(); i++ {
		f := t.Field(i)
		if !f.IsExported() || c17NotData[f.Name] {
			continue
		}
		fv := v.Field(i)
		p := prefix + f.Name
		switch fv.Kind() {
		case reflect.Struct:
			c17ZeroPaths(fv, p+".", depth+1, out) // field by field (some fields of a nested struct are not data)
		case reflect.Slice:
			*out = append(*out, p)
			if fv.Len() > 0 && (fv.Index(0).Kind() == reflect.Struct || (fv.Index(0).Kind() == reflect.Pointer && fv.Index(0).Type().Elem().Kind() == reflect.Struct)) {
				c17ZeroPaths(fv.Index(0), p+"[0].", depth+1, out)
			}
		case reflect.Pointer, reflect.Interface, reflect.Func, reflect.Map, reflect.Chan:
			if fv.Kind() == reflect.Pointer && !fv.IsNil() && fv.Type().Elem().Kind() == reflect.Struct {
				c17ZeroPaths(fv, p+".", depth+1, out) // the pointer itself stays: a nil pointer is not a value of the type
			}
		default:
			*out = append(*out, p)
		}
	}
}

func c17FieldAt(v reflect.Value, path string) (reflect.Value, bool) {
	for _, part := range strings.Split(path, ".") {
		for v.Kind() == reflect.Pointer || v.Kind() == reflect.Interface {
			if v.IsNil() {
				return v, false
			}
			v = v.Elem()
		}
		idx := strings.HasSuffix(part, "[0]")
		part = strings.TrimSuffix(part, "[0]")
		if v.Kind() != reflect.Struct {
			return v, false
		}
		v = v.FieldByName(part)
		if !v.IsValid() {
			return v, false
		}
		if idx {
			if v.Kind() != reflect.Slice || v.Len() == 0 {
				return v, false
			}
			v = v.Index(0)
		}
	}
	return v, v.CanSet()
}

func c17SetZero(f reflect.Value, empty bool) {
	if empty && f.Kind() == reflect.Slice {
		f.Set(reflect.MakeSlice(f.Type(), 0, 0))
		return
	}
	f.Set(reflect.Zero(f.Type()))
}

// zero the named field ("*" = every field of the list, deepest first); two special forms:
// "Item=[]" (a notification with an empty state array), "scope:N" (a signer with scope N and all its lists empty)
func c17ApplyZero(v any, path string, empty bool) bool {
	if path == "Item=[]" {
		ne, ok := v.(*state.NotificationEvent)
		if !ok {
			return false
		}
		ne.Item = stackitem.NewArray([]stackitem.Item{})
		return true
	}
	if strings.HasPrefix(path, "scope:") {
		var sg *transaction.Signer
		switch x := v.(type) {
		case *transaction.Signer:
			sg = x
		case *transaction.Transaction:
			sg = &x.Signers[0]
		default:
			return false
		}
		var n int
		fmt.Sscanf(path, "scope:%d", &n)
		sg.Scopes = transaction.WitnessScope(n)
		if empty {
			sg.AllowedContracts, sg.AllowedGroups, sg.Rules = []util.Uint160{}, []*keys.PublicKey{}, []transaction.WitnessRule{}
		} else {
			sg.AllowedContracts, sg.AllowedGroups, sg.Rules = nil, nil, nil
		}
		return true
	}
	rv := reflect.ValueOf(v)
	if path != "*" {
		f, ok := c17FieldAt(rv, path)
		if !ok {
			return false
		}
		c17SetZero(f, empty)
		return true
	}
	var paths []string
	c17ZeroPaths(rv, "", 0, &paths)
	for i := len(paths) - 1; i >= 0; i-- {
		if f, ok := c17FieldAt(rv, paths[i]); ok {
			c17SetZero(f, empty)
		}
	}
	return true
}

// kind "zero": input {type, seed, idx, v = field path or "*", n = 1 for the empty-slice variant}
func c17ZeroCase(x *c17Runner, in c17Input) {
	co := x.co
	t := c17TypeByName(in.Type)
	if t == nil || t.value == nil {
		panic("no value generator for " + in.Type)
	}
	v, fresh := t.value(newRng(in.Seed*1000003 + uint64(in.Idx)))
	if !c17ApplyZero(v, in.V, in.N == 1) {
		co.hist["zero/"+in.Type+"/no-such-field"]++
		return
	}
	bad := func(note string, impl any) { co.violation("zero", in.Type+": field "+in.V+" zero: "+note, in, impl) }
	s, ok := v.(io.Serializable)
	if !ok {
		return
	}
	var b []byte
	var encErr error
	if p := catch(func() { b, encErr = c17Enc(s) }); p != "" || encErr != nil {
		co.hist["zero/"+in.Type+"/not-encodable"]++ // e.g. a nil pointer where the type needs a value: not a value of the type
		return
	}
	// layout law: zeroing a field of fixed width (a hash, an address; for the flat fixed-layout types also an integer)
	// changes neither the length of the encoding nor its acceptance: "zero" must not be written as "absent"
	if in.V != "*" && !strings.Contains(in.V, ":") && !strings.Contains(in.V, "=") {
		if f, ok := c17FieldAt(reflect.ValueOf(v), in.V); ok {
			k := f.Kind()
			flat := map[string]bool{"header": true, "header/sr": true, "ping": true, "mptroot": true, "extensible": true}[in.Type] || strings.HasPrefix(in.V, "Header.")
			isInt := k >= reflect.Int && k <= reflect.Uint64 || k == reflect.Bool
			if k == reflect.Array || (flat && isInt) {
				v0, fresh0 := t.value(newRng(in.Seed*1000003 + uint64(in.Idx)))
				if b0, err := c17Enc(v0.(io.Serializable)); err == nil {
					if len(b0) != len(b) {
						bad(fmt.Sprintf("the encoding is %d bytes, %d with the field non-zero: a zero value is written as an absent one", len(b), len(b0)), nil)
					} else {
						t0, t1 := fresh0().(io.Serializable), fresh().(io.Serializable)
						r0, r1 := io.NewBinReaderFromBuf(b0), io.NewBinReaderFromBuf(b)
						t0.DecodeBinary(r0)
						t1.DecodeBinary(r1)
						// (a notary request ties its parts together by hash: zeroing a field of the main transaction legitimately
						//  breaks the fallback's Conflicts attribute)
						if r0.Err == nil && r1.Err != nil && in.Type != "notaryrequest" {
							bad("own encoding is refused once the field is zero: "+r1.Err.Error(), hx(b))
						}
					}
				}
			}
		}
	}
	tag := "accepted"
	p := catch(func() {
		tv := fresh().(io.Serializable)
		rd := io.NewBinReaderFromBuf(b)
		tv.DecodeBinary(rd)
		if rd.Err != nil {
			tag = "refused" // the zero value breaks a validity rule of the type (the model decides for the modelled types)
			return
		}
		b2, err := c17Enc(tv)
		if err != nil || !bytes.Equal(b, b2) {
			bad("encode;decode;encode changes the bytes", map[string]string{"first": hx(b), "second": hx(b2)})
		}
		switch xv := v.(type) {
		case *transaction.Transaction:
			if y := tv.(*transaction.Transaction); xv.Hash() != y.Hash() || y.Size() != len(b) {
				bad("hash or size changes over a round trip", nil)
			}
		case *block.Block:
			if y := tv.(*block.Block); xv.Hash() != y.Hash() || y.GetExpectedBlockSize() != len(b) {
				bad("hash changes over a round trip or GetExpectedBlockSize differs from the length", map[string]int{"GetExpectedBlockSize": y.GetExpectedBlockSize(), "len": len(b)})
			}
		case *block.Header:
			if y := tv.(*block.Header); xv.Hash() != y.Hash() {
				bad("hash changes over a round trip", nil)
			}
		}
		if _, isJ := v.(json.Marshaler); !isJ || strings.HasPrefix(in.Type, "merkleblock") {
			return
		}
		tj := fresh()
		if _, isU := tj.(json.Unmarshaler); !isU {
			return
		}
		// JSON is taken from the binary-decoded copy: the generated value may carry hashes cached before the field was zeroed
		j1, err := json.Marshal(tv)
		if err != nil {
			bad("a value that the binary form accepts cannot be marshalled to JSON: "+err.Error(), nil)
			return
		}
		if err := json.Unmarshal(j1, tj); err != nil {
			bad("the JSON form written by the marshaller is refused by the unmarshaller: "+err.Error(), string(j1))
			return
		}
		j2, err := json.Marshal(tj)
		if err != nil || !bytes.Equal(j1, j2) {
			bad("JSON round trip changes the value", map[string]string{"first": string(j1), "second": string(j2)})
			return
		}
		if sj, ok := tj.(io.Serializable); ok {
			if b3, err := c17Enc(sj); err != nil || !bytes.Equal(b3, b) {
				bad("the value read from JSON has a different binary encoding", map[string]string{"binary": hx(b), "afterJSON": hx(b3)})
			}
		}
	})
	if p != "" {
		bad("panic: "+p, nil)
		return
	}
	if x.mode == "c17" {
		// the modelled types: accept/reject and the re-encoding are decided by the model
		if _, m := c17Modelled[in.Type]; m && len(b) <= 6000 && !c17ZeroSeen[in.Type+hx(b)] {
			c17ZeroSeen[in.Type+hx(b)] = true // nil and empty slices, or a field that is zero already, give the same bytes
			x.runCase("dec", c17Input{Type: in.Type, Bytes: hx(b)})
		}
		co.hist["zero/"+in.Type+"/"+tag]++
		return
	}
	co.add("zero", in.Type+"/"+tag, true, in, tag, fmt.Sprintf("direct zero %s %s %d %d %d", in.Type, in.V, in.Seed, in.Idx, in.N))
}

var c17ZeroSeen = map[string]bool{}

// all zero cases of one type
func c17RunZeros(x *c17Runner, name string, seed uint64) {
	t := c17TypeByName(name)
	if t == nil || t.value == nil {
		return
	}
	nidx := 2
	if name == "appexec" {
		nidx = 4 // halted and faulted executions
	}
	if x.mode == "c17" {
		nidx = 1 // the direct run (c17x) takes two generated values per type, the model comparison one
	}
	for idx := 0; idx < nidx; idx++ {
		v, _ := t.value(newRng(seed*1000003 + uint64(idx)))
		var paths []string
		c17ZeroPaths(reflect.ValueOf(v), "", 0, &paths)
		paths = append(paths, "*")
		switch name {
		case "notification":
			paths = append(paths, "Item=[]")
		case "signer", "tx/stream", "tx/bytes":
			for _, sc := range []int{0, 1, 0x10, 0x20, 0x40, 0x70, 0x71, 0x80} {
				paths = append(paths, fmt.Sprintf("scope:%d", sc))
			}
		}
		for _, p := range paths {
			x.runCase("zero", c17Input{Type: name, Seed: seed, Idx: idx, V: p})
			f, ok := c17FieldAt(reflect.ValueOf(v), p)
			if p == "*" || strings.HasPrefix(p, "scope:") || (ok && f.Kind() == reflect.Slice) {
				x.runCase("zero", c17Input{Type: name, Seed: seed, Idx: idx, V: p, N: 1})
			}
		}
	}
}
