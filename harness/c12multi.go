package main

// c12 "multi": several scripts on one VM, loaded on top of each other by SYSCALL the way the node performs contract calls
// (the SYSCALL handler creates the callee's context), with static, local and argument slots populated in every script,
// internal CALL frames in each, and THROW / ABORT / fault / RET at the innermost point, caught (or not) by a TRY in the same
// context, in another context of the same script, or in a calling script.  All direct checks run before every instruction
// as for single scripts (item counter vs independent walk of ALL contexts' stacks and slots, exact while no cycle, limits);
// the model replays with the same loader (Harness/C12.v: CMulti, sys_load).

import (
	"encoding/binary"
	"errors"

	"github.com/nspcc-dev/neo-go/pkg/smartcontract/callflag"
	"github.com/nspcc-dev/neo-go/pkg/util"
	"github.com/nspcc-dev/neo-go/pkg/vm"
	"github.com/nspcc-dev/neo-go/pkg/vm/opcode"
)

// c12Loader: SYSCALL k loads scripts[k-1]: k odd - LoadScriptWithHash (own hash, exactly one result, own stack);
// k even - LoadScriptWithFlags (hash zero like the entry script, all results returned, stack shared when empty)
func c12Loader(scripts []string) func(v *vm.VM, id uint32) error {
	return func(v *vm.VM, id uint32) error {
		k := int(id)
		if k < 1 || k > len(scripts) {
			return errors.New("no such script")
		}
		b := unhx(scripts[k-1])
		if k%2 == 1 {
			v.LoadScriptWithHash(b, util.Uint160{byte(k + 1)}, callflag.NoneFlag)
		} else {
			v.LoadScriptWithFlags(b, callflag.NoneFlag)
		}
		return nil
	}
}

// ---- an assembler with labels (long forms only) ----
type c12L struct {
	b   []byte
	lab map[string]int
	fix []c12Fix
	n   int
}
type c12Fix struct {
	at, from int // operand position; offset base (instruction start)
	label    string
}

func newC12L() *c12L { return &c12L{lab: map[string]int{}} }
func (a *c12L) op(o opcode.Opcode, p ...byte) *c12L {
	a.b = append(a.b, byte(o))
	a.b = append(a.b, p...)
	return a
}
func (a *c12L) fresh(prefix string) string {
	a.n++
	return prefix + string(rune('a'+a.n%26)) + string(rune('0'+a.n/26%10)) + string(rune('0'+a.n/260))
}
func (a *c12L) label(l string) { a.lab[l] = len(a.b) }
func (a *c12L) ref(from int, l string) {
	a.fix = append(a.fix, c12Fix{at: len(a.b), from: from, label: l})
	a.b = append(a.b, 0, 0, 0, 0)
}
func (a *c12L) jumpL(o opcode.Opcode, l string) { // CALL_L, JMP_L, ENDTRY_L, PUSHA
	from := len(a.b)
	a.b = append(a.b, byte(o))
	a.ref(from, l)
}
func (a *c12L) tryL(catch, finally string) {
	from := len(a.b)
	a.b = append(a.b, byte(opcode.TRYL))
	if catch == "" {
		a.b = append(a.b, 0, 0, 0, 0)
	} else {
		a.ref(from, catch)
	}
	if finally == "" {
		a.b = append(a.b, 0, 0, 0, 0)
	} else {
		a.ref(from, finally)
	}
}
func (a *c12L) resolve() []byte {
	for _, f := range a.fix {
		binary.LittleEndian.PutUint32(a.b[f.at:], uint32(int32(a.lab[f.label]-f.from)))
	}
	return a.b
}
func (a *c12L) syscall(k int) {
	a.b = append(a.b, byte(opcode.SYSCALL), byte(k), byte(k>>8), 0, 0)
}

// a value for a slot or the stack: primitives and compounds (nested, shared)
func c12MultiValue(a *c12L, r *rng) {
	switch r.intn(8) {
	case 0:
		a.op(opcode.PUSHNULL)
	case 1:
		a.op(opcode.PUSH0 + opcode.Opcode(r.intn(16)))
	case 2:
		a.op(opcode.PUSHDATA1, 3, 1, 2, 3)
	case 3:
		a.op(opcode.NEWARRAY0)
	case 4:
		a.op(opcode.NEWMAP)
	case 5: // [x, y]
		a.op(opcode.PUSH1).op(opcode.PUSH2).op(opcode.PUSH2).op(opcode.PACK)
	case 6: // [[1]]
		a.op(opcode.PUSH1).op(opcode.PUSH1).op(opcode.PACK).op(opcode.PUSH1).op(opcode.PACK)
	default: // struct with a buffer
		a.op(opcode.PUSH3).op(opcode.NEWBUFFER).op(opcode.PUSH1).op(opcode.PACKSTRUCT)
	}
}

type c12MultiGen struct {
	r       *rng
	nscript int
}

// frame j of script k (k = 0: the entry script): slots, stack leftovers, an optional TRY around the action, what follows
func (g *c12MultiGen) frame(a *c12L, k, j, depth int, later *[]func()) {
	r := g.r
	nl, na := 0, 0
	if j > 0 || r.chance(60) {
		nl, na = r.intn(3), 0
		if j > 0 {
			na = r.intn(3)
		}
		if nl+na == 0 {
			nl = 1
		}
		if j == 0 {
			na = 0
		}
		a.op(opcode.INITSLOT, byte(nl), byte(na))
		for i := 0; i < nl; i++ {
			if r.chance(70) {
				c12MultiValue(a, r)
				a.op(opcode.STLOC0 + opcode.Opcode(i))
			}
		}
	}
	for i := r.intn(3); i > 0; i-- { // items that stay on this script's stack
		c12MultiValue(a, r)
	}
	hasTry := r.chance(45)
	catch, fin, end := "", "", ""
	if hasTry {
		end = a.fresh("e")
		if r.chance(75) {
			catch = a.fresh("c")
		}
		if catch == "" || r.chance(30) {
			fin = a.fresh("f")
		}
		a.tryL(catch, fin)
	}
	// the action
	switch {
	case j < depth:
		nxt := a.fresh("F")
		nargs := 2 // the callee takes up to 2 arguments; push enough
		for i := 0; i < nargs; i++ {
			c12MultiValue(a, r)
		}
		a.jumpL(opcode.CALLL, nxt)
		kk, jj := k, j+1
		*later = append(*later, func() {
			a.label(nxt)
			g.frame(a, kk, jj, depth, later)
		})
	default:
		switch x := r.intn(10); {
		case x < 4 && k+1 <= g.nscript: // call the next script
			a.syscall(k + 1)
		case x < 7:
			c12MultiValue(a, r)
			a.op(opcode.THROW)
		case x == 7:
			a.op(opcode.PUSH1).op(opcode.PUSH0).op(opcode.DIV)
		case x == 8:
			a.op(opcode.ABORT)
		default:
			c12MultiValue(a, r)
		}
	}
	if hasTry {
		a.jumpL(opcode.ENDTRYL, end)
		if catch != "" {
			a.label(catch)
			if r.chance(50) {
				a.op(opcode.DROP)
			}
			if r.chance(15) {
				a.op(opcode.PUSH9).op(opcode.THROW)
			}
			a.jumpL(opcode.ENDTRYL, end)
		}
		if fin != "" {
			a.label(fin)
			if r.chance(50) {
				c12MultiValue(a, r)
				a.op(opcode.DROP)
			}
			a.op(opcode.ENDFINALLY)
		}
		a.label(end)
	}
	// keep executing: a big allocation makes a counter that went wrong visible (limit) and is checked against the walk
	if r.chance(50) {
		a.op(opcode.PUSHINT16, byte(2000&0xff), byte(2000>>8)).op(opcode.NEWARRAY)
		if r.chance(60) {
			a.op(opcode.DROP)
		}
	}
	if r.chance(40) {
		a.op(opcode.DEPTH)
	}
	if nl > 0 && r.chance(40) {
		a.op(opcode.LDLOC0)
	}
	if r.chance(30) { // make the number of results of a loaded script exactly one
		a.op(opcode.CLEAR).op(opcode.PUSH5)
	}
	a.op(opcode.RET)
}

func (g *c12MultiGen) script(k int) []byte {
	r := g.r
	a := newC12L()
	if r.chance(85) {
		ns := 1 + r.intn(3)
		a.op(opcode.INITSSLOT, byte(ns))
		for i := 0; i < ns; i++ {
			if r.chance(70) {
				c12MultiValue(a, r)
				a.op(opcode.STSFLD0 + opcode.Opcode(i))
			}
		}
	}
	var later []func()
	g.frame(a, k, 0, r.intn(4), &later)
	for len(later) > 0 {
		f := later[0]
		later = later[1:]
		f()
	}
	return a.resolve()
}

// c12GenMulti: entry script + 1..2 loaded scripts
func c12GenMulti(r *rng) c12Input {
	g := &c12MultiGen{r: r, nscript: 1 + r.intn(2)}
	in := c12Input{Script: hx(g.script(0)), Base: 1, Limit: 10000000}
	for k := 1; k <= g.nscript; k++ {
		in.Scripts = append(in.Scripts, hx(g.script(k)))
	}
	return in
}

// c12MultiBoundary: deterministic programs for the unwinding of several contexts of a loaded script at once: the callee has
// ns static fields (all counted), `depth` internal CALL frames with a compound in a local each, `left` items left on its own
// stack, and throws at the innermost frame; the caller's TRY is in the context that made the call (inner = 0) or in a
// context below it (inner = 1, 2); afterwards the caller allocates 2000 items and reads its own static field.
func c12MultiBoundary() []c12Input {
	var out []c12Input
	for _, ns := range []int{1, 3} {
		for depth := 0; depth <= 3; depth++ {
			for _, left := range []int{0, 2} {
				for inner := 0; inner <= 2; inner += 1 + depth%2 {
					b := newC12L()
					b.op(opcode.INITSSLOT, byte(ns))
					for i := 0; i < ns; i++ {
						if i%2 == 0 {
							b.op(opcode.NEWARRAY0)
						} else {
							b.op(opcode.PUSH4)
						}
						b.op(opcode.STSFLD0 + opcode.Opcode(i))
					}
					for i := 0; i < left; i++ {
						b.op(opcode.PUSH8)
					}
					for j := 1; j <= depth; j++ {
						l := b.fresh("F")
						b.jumpL(opcode.CALLL, l)
						b.op(opcode.RET)
						b.label(l)
						b.op(opcode.INITSLOT, 1, 0).op(opcode.NEWMAP).op(opcode.STLOC0)
					}
					b.op(opcode.PUSH7).op(opcode.THROW)
					a := newC12L()
					a.op(opcode.INITSSLOT, 1).op(opcode.NEWARRAY0).op(opcode.STSFLD0)
					a.tryL("c", "")
					for j := 1; j <= inner; j++ {
						l := a.fresh("G")
						a.jumpL(opcode.CALLL, l)
						a.jumpL(opcode.ENDTRYL, "e")
						a.label(l)
						a.op(opcode.INITSLOT, 1, 0).op(opcode.PUSH2).op(opcode.STLOC0)
					}
					a.syscall(1)
					if inner == 0 {
						a.jumpL(opcode.ENDTRYL, "e")
					} else {
						a.op(opcode.RET)
					}
					a.label("c")
					a.op(opcode.DROP)
					a.jumpL(opcode.ENDTRYL, "e")
					a.label("e")
					a.op(opcode.PUSHINT16, byte(2000&0xff), byte(2000>>8)).op(opcode.NEWARRAY).op(opcode.DEPTH).op(opcode.LDSFLD0)
					out = append(out, c12Input{Script: hx(a.resolve()), Scripts: []string{hx(b.resolve())}, Base: 1, Limit: 10000000})
				}
			}
		}
	}
	return out
}
