package main

// c12 "multi": several scripts on one VM, loaded on top of each other by SYSCALL the way the node performs contract calls
// (the SYSCALL handler creates the callee's context), with static, local and argument slots populated in every script,
// internal CALL frames in each, and THROW / ABORT / fault / RET at the innermost point, caught (or not) by a TRY in the same
// context, in another context of the same script, or in a calling script.  All direct checks run before every instruction
// as for single scripts (item counter vs independent walk of ALL contexts' stacks and slots, exact while no cycle, limits);
// the model replays with the same loader (Harness/C12.v: CMulti, sys_load).

import (
	"encoding/binary"
	"errors"

	"github.com/nspcc-dev/neo-go/pkg/smartcontract/callflag"
	"github.com/nspcc-dev/neo-go/pkg/smartcontract/manifest"
	"github.com/nspcc-dev/neo-go/pkg/smartcontract/nef"
	"github.com/nspcc-dev/neo-go/pkg/util"
	"github.com/nspcc-dev/neo-go/pkg/vm"
	"github.com/nspcc-dev/neo-go/pkg/vm/opcode"
	"github.com/nspcc-dev/neo-go/pkg/vm/stackitem"
)

// c12Loader: the SYSCALL handler pushes a new context through each of the VM's entry points (see coq/VM/Loader.v):
// id = k | mode<<8 | nargs<<12 | off<<16
//
//	mode 0  k odd: LoadScriptWithHash, k even: LoadScriptWithFlags      1  LoadScript      2  LoadDynamicScript
//	mode 3  LoadNEFMethod without _initialize     4  LoadNEFMethod with _initialize at off     7  LoadNEFMethod with the
//	callbacks a native contract passes (CallFromNative)     5  the contract call: nargs arguments popped from the caller's
//	stack, LoadNEFMethod, arguments pushed onto the callee's stack     6  Call(off)
func c12Loader(scripts []string) func(v *vm.VM, id uint32) error {
	return func(v *vm.VM, id uint32) error {
		k, mode, na, off := int(id&0xff), int(id>>8)&0xf, int(id>>12)&0xf, int(id>>16)
		if mode == 6 {
			v.Call(off)
			return nil
		}
		if k < 1 || k > len(scripts) {
			return errors.New("no such script")
		}
		b := unhx(scripts[k-1])
		hash := util.Uint160{byte(k + 1)}
		nefm := func(initOff int, onUnload vm.ContextUnloadCallback, onUnloaded vm.ContextUnloadedCallback) {
			exe := &nef.File{Header: nef.Header{Magic: nef.Magic, Compiler: "verif"}, Script: b}
			m := manifest.NewManifest("c12")
			v.LoadNEFMethod(exe, m, v.GetCurrentScriptHash(), hash, callflag.All, true, 0, initOff, onUnload, onUnloaded, false)
		}
		switch mode {
		case 0:
			if k%2 == 1 {
				v.LoadScriptWithHash(b, hash, callflag.NoneFlag)
			} else {
				v.LoadScriptWithFlags(b, callflag.NoneFlag)
			}
		case 1:
			v.LoadScript(b)
		case 2:
			v.LoadDynamicScript(b, callflag.NoneFlag)
		case 3:
			nefm(-1, nil, nil)
		case 4:
			nefm(off, nil, nil)
		case 5:
			args := make([]stackitem.Item, na)
			for i := range args {
				args[i] = v.Estack().Pop().Item()
			}
			nefm(-1, nil, nil)
			for i := len(args) - 1; i >= 0; i-- {
				v.Estack().PushItem(args[i])
			}
		case 7:
			nefm(-1, func(*vm.VM, *vm.Context, bool) error { return nil }, func(*vm.VM) {})
		default:
			return errors.New("no such entry point")
		}
		return nil
	}
}

// ---- an assembler with labels (long forms only) ----
type c12L struct {
	b   []byte
	lab map[string]int
	fix []c12Fix
	n   int
}
type c12Fix struct {
	at, from int // operand position; offset base (instruction start)
	label    string
}

func newC12L() *c12L { return &c12L{lab: map[string]int{}} }
func (a *c12L) op(o opcode.Opcode, p ...byte) *c12L {
	a.b = append(a.b, byte(o))
	a.b = append(a.b, p...)
	return a
}
func (a *c12L) fresh(prefix string) string {
	a.n++
	return prefix + string(rune('a'+a.n%26)) + string(rune('0'+a.n/26%10)) + string(rune('0'+a.n/260))
}
func (a *c12L) label(l string) { a.lab[l] = len(a.b) }
func (a *c12L) ref(from int, l string) {
	a.fix = append(a.fix, c12Fix{at: len(a.b), from: from, label: l})
	a.b = append(a.b, 0, 0, 0, 0)
}
func (a *c12L) jumpL(o opcode.Opcode, l string) { // CALL_L, JMP_L, ENDTRY_L, PUSHA
	from := len(a.b)
	a.b = append(a.b, byte(o))
	a.ref(from, l)
}
func (a *c12L) tryL(catch, finally string) {
	from := len(a.b)
	a.b = append(a.b, byte(opcode.TRYL))
	if catch == "" {
		a.b = append(a.b, 0, 0, 0, 0)
	} else {
		a.ref(from, catch)
	}
	if finally == "" {
		a.b = append(a.b, 0, 0, 0, 0)
	} else {
		a.ref(from, finally)
	}
}
func (a *c12L) resolve() []byte {
	for _, f := range a.fix {
		binary.LittleEndian.PutUint32(a.b[f.at:], uint32(int32(a.lab[f.label]-f.from)))
	}
	return a.b
}
func (a *c12L) syscall(k int) { a.syscallM(k, 0, 0, 0) }
func (a *c12L) syscallM(k, mode, nargs, off int) {
	id := uint32(k&0xff) | uint32(mode&0xf)<<8 | uint32(nargs&0xf)<<12 | uint32(off)<<16
	a.b = append(a.b, byte(opcode.SYSCALL), byte(id), byte(id>>8), byte(id>>16), byte(id>>24))
}

// a value for a slot or the stack: primitives and compounds (nested, shared)
func c12MultiValue(a *c12L, r *rng) {
	switch r.intn(8) {
	case 0:
		a.op(opcode.PUSHNULL)
	case 1:
		a.op(opcode.PUSH0 + opcode.Opcode(r.intn(16)))
	case 2:
		a.op(opcode.PUSHDATA1, 3, 1, 2, 3)
	case 3:
		a.op(opcode.NEWARRAY0)
	case 4:
		a.op(opcode.NEWMAP)
	case 5: // [x, y]
		a.op(opcode.PUSH1).op(opcode.PUSH2).op(opcode.PUSH2).op(opcode.PACK)
	case 6: // [[1]]
		a.op(opcode.PUSH1).op(opcode.PUSH1).op(opcode.PACK).op(opcode.PUSH1).op(opcode.PACK)
	default: // struct with a buffer
		a.op(opcode.PUSH3).op(opcode.NEWBUFFER).op(opcode.PUSH1).op(opcode.PACKSTRUCT)
	}
}

type c12MultiGen struct {
	r       *rng
	nscript int
}

// frame j of script k (k = 0: the entry script): slots, stack leftovers, an optional TRY around the action, what follows
func (g *c12MultiGen) frame(a *c12L, k, j, depth int, later *[]func()) {
	r := g.r
	nl, na := 0, 0
	if j > 0 || r.chance(60) {
		nl, na = r.intn(3), 0
		if j > 0 {
			na = r.intn(3)
		}
		if nl+na == 0 {
			nl = 1
		}
		if j == 0 {
			na = 0
		}
		a.op(opcode.INITSLOT, byte(nl), byte(na))
		for i := 0; i < nl; i++ {
			if r.chance(70) {
				c12MultiValue(a, r)
				a.op(opcode.STLOC0 + opcode.Opcode(i))
			}
		}
	}
	for i := r.intn(3); i > 0; i-- { // items that stay on this script's stack
		c12MultiValue(a, r)
	}
	hasTry := r.chance(45)
	catch, fin, end := "", "", ""
	if hasTry {
		end = a.fresh("e")
		if r.chance(75) {
			catch = a.fresh("c")
		}
		if catch == "" || r.chance(30) {
			fin = a.fresh("f")
		}
		a.tryL(catch, fin)
	}
	// the action
	switch {
	case j < depth:
		nxt := a.fresh("F")
		nargs := 2 // the callee takes up to 2 arguments; push enough
		for i := 0; i < nargs; i++ {
			c12MultiValue(a, r)
		}
		a.jumpL(opcode.CALLL, nxt)
		kk, jj := k, j+1
		*later = append(*later, func() {
			a.label(nxt)
			g.frame(a, kk, jj, depth, later)
		})
	default:
		switch x := r.intn(10); {
		case x < 4 && k+1 <= g.nscript: // call the next script, through one of the entry points
			switch m := pick(r, []int{0, 0, 1, 3, 5}); m {
			case 5:
				na := r.intn(3)
				for i := 0; i < na; i++ {
					c12MultiValue(a, r)
				}
				a.syscallM(k+1, 5, na, 0)
			default:
				a.syscallM(k+1, m, 0, 0)
			}
		case x < 7:
			c12MultiValue(a, r)
			a.op(opcode.THROW)
		case x == 7:
			a.op(opcode.PUSH1).op(opcode.PUSH0).op(opcode.DIV)
		case x == 8:
			a.op(opcode.ABORT)
		default:
			c12MultiValue(a, r)
		}
	}
	if hasTry {
		a.jumpL(opcode.ENDTRYL, end)
		if catch != "" {
			a.label(catch)
			if r.chance(50) {
				a.op(opcode.DROP)
			}
			if r.chance(15) {
				a.op(opcode.PUSH9).op(opcode.THROW)
			}
			a.jumpL(opcode.ENDTRYL, end)
		}
		if fin != "" {
			a.label(fin)
			if r.chance(50) {
				c12MultiValue(a, r)
				a.op(opcode.DROP)
			}
			a.op(opcode.ENDFINALLY)
		}
		a.label(end)
	}
	// keep executing: a big allocation makes a counter that went wrong visible (limit) and is checked against the walk
	if r.chance(50) {
		a.op(opcode.PUSHINT16, byte(2000&0xff), byte(2000>>8)).op(opcode.NEWARRAY)
		if r.chance(60) {
			a.op(opcode.DROP)
		}
	}
	if r.chance(40) {
		a.op(opcode.DEPTH)
	}
	if nl > 0 && r.chance(40) {
		a.op(opcode.LDLOC0)
	}
	if r.chance(30) { // make the number of results of a loaded script exactly one
		a.op(opcode.CLEAR).op(opcode.PUSH5)
	}
	a.op(opcode.RET)
}

func (g *c12MultiGen) script(k int) []byte {
	r := g.r
	a := newC12L()
	if r.chance(85) {
		ns := 1 + r.intn(3)
		a.op(opcode.INITSSLOT, byte(ns))
		for i := 0; i < ns; i++ {
			if r.chance(70) {
				c12MultiValue(a, r)
				a.op(opcode.STSFLD0 + opcode.Opcode(i))
			}
		}
	}
	var later []func()
	g.frame(a, k, 0, r.intn(4), &later)
	for len(later) > 0 {
		f := later[0]
		later = later[1:]
		f()
	}
	return a.resolve()
}

// c12GenMulti: entry script + 1..2 loaded scripts
func c12GenMulti(r *rng) c12Input {
	g := &c12MultiGen{r: r, nscript: 1 + r.intn(2)}
	in := c12Input{Script: hx(g.script(0)), Base: 1, Limit: 10000000}
	for k := 1; k <= g.nscript; k++ {
		in.Scripts = append(in.Scripts, hx(g.script(k)))
	}
	return in
}

// c12MultiBoundary: deterministic programs for the unwinding of several contexts of a loaded script at once: the callee has
// ns static fields (all counted), `depth` internal CALL frames with a compound in a local each, `left` items left on its own
// stack, and throws at the innermost frame; the caller's TRY is in the context that made the call (inner = 0) or in a
// context below it (inner = 1, 2); afterwards the caller allocates 2000 items and reads its own static field.
func c12MultiBoundary() []c12Input {
	var out []c12Input
	for _, ns := range []int{1, 3} {
		for depth := 0; depth <= 3; depth++ {
			for _, left := range []int{0, 2} {
				for inner := 0; inner <= 2; inner += 1 + depth%2 {
					b := newC12L()
					b.op(opcode.INITSSLOT, byte(ns))
					for i := 0; i < ns; i++ {
						if i%2 == 0 {
							b.op(opcode.NEWARRAY0)
						} else {
							b.op(opcode.PUSH4)
						}
						b.op(opcode.STSFLD0 + opcode.Opcode(i))
					}
					for i := 0; i < left; i++ {
						b.op(opcode.PUSH8)
					}
					for j := 1; j <= depth; j++ {
						l := b.fresh("F")
						b.jumpL(opcode.CALLL, l)
						b.op(opcode.RET)
						b.label(l)
						b.op(opcode.INITSLOT, 1, 0).op(opcode.NEWMAP).op(opcode.STLOC0)
					}
					b.op(opcode.PUSH7).op(opcode.THROW)
					a := newC12L()
					a.op(opcode.INITSSLOT, 1).op(opcode.NEWARRAY0).op(opcode.STSFLD0)
					a.tryL("c", "")
					for j := 1; j <= inner; j++ {
						l := a.fresh("G")
						a.jumpL(opcode.CALLL, l)
						a.jumpL(opcode.ENDTRYL, "e")
						a.label(l)
						a.op(opcode.INITSLOT, 1, 0).op(opcode.PUSH2).op(opcode.STLOC0)
					}
					a.syscall(1)
					if inner == 0 {
						a.jumpL(opcode.ENDTRYL, "e")
					} else {
						a.op(opcode.RET)
					}
					a.label("c")
					a.op(opcode.DROP)
					a.jumpL(opcode.ENDTRYL, "e")
					a.label("e")
					a.op(opcode.PUSHINT16, byte(2000&0xff), byte(2000>>8)).op(opcode.NEWARRAY).op(opcode.DEPTH).op(opcode.LDSFLD0)
					out = append(out, c12Input{Script: hx(a.resolve()), Scripts: []string{hx(b.resolve())}, Base: 1, Limit: 10000000})
				}
			}
		}
	}
	return out
}

// ---- limits through every context-pushing entry point (after the seventh mutation round) ----

// c12NestScript: a script that builds `inner` (>= 0) further contexts by internal CALLs (counter on the stack), then performs
// the SYSCALL id, and returns what that leaves (exactly one value when the callee returns one).  Contexts of this script
// at the moment of the SYSCALL: inner + 1.
func c12NestScript(inner int, k, mode, nargs, off int) []byte {
	a := newC12L()
	if inner == 0 {
		for i := 0; i < nargs; i++ {
			a.op(opcode.PUSH7)
		}
		a.syscallM(k, mode, nargs, off)
		a.op(opcode.RET)
		return a.resolve()
	}
	a.op(opcode.PUSHINT16, byte((inner-1)&0xff), byte((inner-1)>>8))
	a.jumpL(opcode.CALLL, "f")
	a.op(opcode.RET)
	a.label("f")
	a.op(opcode.DUP)
	a.jumpL(opcode.JMPIFL, "rec")
	a.op(opcode.DROP)
	for i := 0; i < nargs; i++ {
		a.op(opcode.PUSH7)
	}
	a.syscallM(k, mode, nargs, off)
	a.op(opcode.RET)
	a.label("rec")
	a.op(opcode.DEC)
	a.jumpL(opcode.CALLL, "f")
	a.op(opcode.RET)
	return a.resolve()
}

// c12DepthPrograms: the invocation stack is filled to d0 contexts by a mix of entry points (scripts loaded through modes
// 1, 3, 2, 7, 0-odd, 0-even in turn, each adding internal CALL contexts), then ONE more context is pushed through the entry
// point under test: FAULT iff d0 >= 1024 (mode 4 pushes two: iff d0 >= 1023) whatever built the nesting.
func c12DepthPrograms(full bool) []c12Input {
	var out []c12Input
	mids := []int{1, 3, 2, 7, 0, 0} // how scripts 1..6 are loaded (script numbers 1..6; 5 is odd -> WithHash, 6 even -> WithFlags)
	type fin struct{ mode, nargs int }
	for _, f := range []fin{{0, 0}, {1, 0}, {2, 0}, {3, 0}, {4, 0}, {5, 2}, {6, 0}, {7, 0}, {8, 0}} { // 8: mode 0 with an even script number
		d0s := []int{1021, 1022, 1023, 1024}
		if !full { // quick tier: the two nestings on either side of the boundary of this entry point
			d0s = []int{1023, 1024}
			if f.mode == 4 {
				d0s = []int{1022, 1023}
			}
		}
		for _, d0 := range d0s {
			// contexts: entry script e+1, scripts 1..5 each c+1, script 6 (the one that makes the final push) c6+1
			per := (d0 - 7) / 7
			rest := d0 - 7 - 7*per // goes to the entry script
			inner := []int{per + rest, per, per, per, per, per, per}
			var scripts []string
			// final callee: script 7 (odd) / script 8 (even)
			finK, mode := 7, f.mode
			if f.mode == 8 {
				finK, mode = 8, 0
			}
			off := 0
			if f.mode == 4 {
				off = 2 // _initialize at offset 2 of the final callee
			}
			for i := 1; i <= 6; i++ {
				k, m, na, o := i+1, mids[i%len(mids)], 0, 0
				if i == 6 {
					k, m, na, o = finK, mode, f.nargs, off
					if mode == 6 {
						k = 0 // Call(off): a context of script 6 itself, at its leaf
					}
				}
				b := c12NestScript(inner[i], k, m, na, o)
				if i == 6 && mode == 6 {
					// leaf for Call(off): PUSH1 RET appended; patch the offset
					leaf := len(b)
					b = append(b, byte(opcode.PUSH1), byte(opcode.RET))
					b2 := c12NestScript(inner[i], 0, 6, 0, leaf)
					b = append(b2, byte(opcode.PUSH1), byte(opcode.RET))
				}
				scripts = append(scripts, hx(b))
			}
			switch {
			case f.mode == 5:
				scripts = append(scripts, hx([]byte{byte(opcode.DROP), byte(opcode.RET)}), hx([]byte{byte(opcode.DROP), byte(opcode.RET)}))
			case f.mode == 4:
				scripts = append(scripts, hx([]byte{byte(opcode.PUSH1), byte(opcode.RET), byte(opcode.RET)}), hx([]byte{byte(opcode.PUSH1), byte(opcode.RET)}))
			default:
				scripts = append(scripts, hx([]byte{byte(opcode.PUSH1), byte(opcode.RET)}), hx([]byte{byte(opcode.PUSH1), byte(opcode.RET)}))
			}
			entry := c12NestScript(inner[0], 1, mids[0], 0, 0)
			out = append(out, c12Input{Script: hx(entry), Scripts: scripts, Base: 1, Limit: 100000000})
		}
	}
	return out
}

// c12OtherLimits: try nesting is per context (16 in the caller and 16 again in a loaded script are fine, a 17th in one context
// is not); the item limit with items parked in the slots and on the stacks of many contexts and moved as arguments
func c12OtherLimits() []c12Input {
	var out []c12Input
	tryN := func(n int, tail func(a *c12L)) []byte {
		a := newC12L()
		for i := 0; i < n; i++ {
			a.tryL("c", "")
		}
		tail(a)
		a.op(opcode.RET)
		a.label("c")
		a.op(opcode.RET)
		return a.resolve()
	}
	for _, n2 := range []int{15, 16, 17} {
		for _, mode := range []int{1, 3, 4, 6} {
			callee := tryN(n2, func(a *c12L) { a.op(opcode.PUSH1) })
			off := 0
			if mode == 4 || mode == 6 {
				off = len(callee)
				callee = append(callee, byte(opcode.RET))
			}
			entry := tryN(16, func(a *c12L) {
				if mode == 6 {
					a.syscallM(0, 6, 0, 0) // Call(0): the entry script again from its start?  no: its own 17th TRY would fault; use the callee instead
				} else {
					a.syscallM(1, mode, 0, off)
				}
			})
			if mode == 6 {
				continue
			}
			out = append(out, c12Input{Script: hx(entry), Scripts: []string{hx(callee)}, Base: 1, Limit: 10000000})
		}
	}
	// items parked in many contexts: `frames` internal frames, each with 5 local Nulls and 5 items on the stack, then a contract
	// call moving 15 arguments, then NEWARRAY extra in the callee
	for _, extra := range []int{0, 20, 27, 28, 29, 40} {
		a := newC12L()
		a.op(opcode.PUSHINT16, byte(199&0xff), byte(199>>8))
		a.jumpL(opcode.CALLL, "f")
		a.op(opcode.RET)
		a.label("f")
		a.op(opcode.INITSLOT, 5, 1) // the counter is the argument
		for i := 0; i < 4; i++ {
			a.op(opcode.PUSH2)
		}
		a.op(opcode.LDARG0)
		a.jumpL(opcode.JMPIFL, "rec")
		for i := 0; i < 15; i++ {
			a.op(opcode.PUSH3)
		}
		a.syscallM(1, 5, 15, 0)
		a.op(opcode.RET)
		a.label("rec")
		a.op(opcode.LDARG0).op(opcode.DEC)
		a.jumpL(opcode.CALLL, "f")
		a.op(opcode.RET)
		c := newC12L()
		c.op(opcode.PUSHINT16, byte(extra&0xff), byte(extra>>8)).op(opcode.NEWARRAY).op(opcode.DEPTH).op(opcode.PACK).op(opcode.RET)
		out = append(out, c12Input{Script: hx(a.resolve()), Scripts: []string{hx(c.resolve())}, Base: 1, Limit: 100000000})
	}
	// an argument of the maximum item size moved into the callee
	{
		a := newC12L()
		a.op(opcode.PUSHINT32, 0, 0, 0x10, 0).op(opcode.NEWBUFFER)
		a.syscallM(1, 5, 1, 0)
		a.op(opcode.RET)
		c := newC12L()
		c.op(opcode.SIZE).op(opcode.RET)
		out = append(out, c12Input{Script: hx(a.resolve()), Scripts: []string{hx(c.resolve())}, Base: 1, Limit: 100000000})
	}
	return out
}

// c12CatchLoops (after the ninth mutation round): every catchable failure path executed `n` times inside TRY / CATCH with
// compound operands, so that an un-count lost on the error path shows in the counter (vs the walk, after every instruction)
func c12CatchLoops(n int) []c12Input {
	var out []c12Input
	bodies := []func(a *c12L){
		// SETITEM out of range on an Array / a Struct, the value being a fresh Array [1,2]
		func(a *c12L) {
			a.op(opcode.PUSH1).op(opcode.NEWARRAY).op(opcode.PUSH5).op(opcode.PUSH1).op(opcode.PUSH2).op(opcode.PUSH2).op(opcode.PACK).op(opcode.SETITEM)
		},
		func(a *c12L) {
			a.op(opcode.PUSH1).op(opcode.NEWSTRUCT).op(opcode.PUSH5).op(opcode.PUSH1).op(opcode.PUSH2).op(opcode.PUSH2).op(opcode.PACKSTRUCT).op(opcode.SETITEM)
		},
		// ... on a container that is also held in the static slot (count > 0)
		func(a *c12L) {
			a.op(opcode.LDSFLD1).op(opcode.PUSH7).op(opcode.PUSH1).op(opcode.PUSH1).op(opcode.PACK).op(opcode.SETITEM)
		},
		// SETITEM out of range on a Buffer
		func(a *c12L) {
			a.op(opcode.PUSH2).op(opcode.NEWBUFFER).op(opcode.PUSH5).op(opcode.PUSH1).op(opcode.SETITEM)
		},
		// PICKITEM out of range on a nested Array; missing Map key (the Map holds compounds); out of range on a byte string
		func(a *c12L) {
			a.op(opcode.PUSH1).op(opcode.PUSH1).op(opcode.PACK).op(opcode.PUSH1).op(opcode.PACK).op(opcode.PUSH5).op(opcode.PICKITEM)
		},
		func(a *c12L) {
			a.op(opcode.NEWARRAY0).op(opcode.PUSH3).op(opcode.PUSH1).op(opcode.PACKMAP).op(opcode.PUSH9).op(opcode.PICKITEM)
		},
		func(a *c12L) { a.op(opcode.LDSFLD1).op(opcode.PUSH9).op(opcode.PICKITEM) },
		func(a *c12L) { a.op(opcode.PUSHDATA1, 2, 1, 2).op(opcode.PUSH5).op(opcode.PICKITEM) },
		// THROW of a compound that is also referenced elsewhere / of a fresh one
		func(a *c12L) { a.op(opcode.LDSFLD1).op(opcode.THROW) },
		func(a *c12L) { a.op(opcode.PUSH1).op(opcode.PUSH2).op(opcode.PUSH2).op(opcode.PACK).op(opcode.THROW) },
	}
	for _, body := range bodies {
		a := newC12L()
		a.op(opcode.INITSSLOT, 2).op(opcode.PUSHINT16, byte(n&0xff), byte(n>>8)).op(opcode.STSFLD0)
		a.op(opcode.PUSH3).op(opcode.NEWARRAY).op(opcode.STSFLD1)
		a.label("L")
		a.tryL("c", "")
		body(a)
		a.jumpL(opcode.ENDTRYL, "e")
		a.label("c")
		a.op(opcode.DROP)
		a.jumpL(opcode.ENDTRYL, "e")
		a.label("e")
		a.op(opcode.LDSFLD0).op(opcode.DEC).op(opcode.DUP).op(opcode.STSFLD0)
		a.jumpL(opcode.JMPIFL, "L")
		a.op(opcode.DEPTH)
		out = append(out, c12Input{Script: hx(a.resolve()), Base: 1, Limit: 100000000})
	}
	return out
}
