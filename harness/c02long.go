package main

// C02, long chains: removal of untraceable blocks and of header-hash pages (tryRunGC ->
// removeUntraceableBlocks / removeOldHeaderHashes) only happens beyond one, resp. two, pages of 2000 header
// hashes.  MaxTraceableBlocks is small, so a chain of a little over 2000 / 4000 (mostly empty) blocks
// reaches both.  Every batch boundary is a crash point as before.

import (
	"encoding/binary"
	"fmt"
	"sort"

	"github.com/nspcc-dev/neo-go/pkg/core/storage"
	"github.com/nspcc-dev/neo-go/pkg/util"
)

const c02PS = 2000 // headerBatchCount

// c02Deleted lists block indices whose executable record a batch deletes and header-hash pages it deletes.
func c02Deleted(ix *c02Index, b c02Batch) (blocks []uint32, pages []uint32) {
	for k, v := range b.Mem {
		if v != nil {
			continue
		}
		switch storage.KeyPrefix(k[0]) {
		case storage.DataExecutable:
			if len(k) == 33 {
				h, _ := util.Uint256DecodeBytesBE([]byte(k[1:]))
				if i, ok := ix.blk[h]; ok {
					blocks = append(blocks, i)
				}
			}
		case storage.IXHeaderHashList:
			pages = append(pages, binary.BigEndian.Uint32([]byte(k[1:])))
		}
	}
	sort.Slice(blocks, func(i, j int) bool { return blocks[i] < blocks[j] })
	sort.Slice(pages, func(i, j int) bool { return pages[i] < pages[j] })
	return
}

func c02Ranges(xs []uint32) string {
	var rs []string
	for i := 0; i < len(xs); {
		j := i
		for j+1 < len(xs) && xs[j+1] == xs[j]+1 {
			j++
		}
		rs = append(rs, fmt.Sprintf("(%d, %d)", xs[i], xs[j]+1))
		i = j + 1
	}
	return coqList(rs)
}

func c02RunLongGC(co *caseOut, in c02Input) error {
	c02srih = in.Cfg.SRIH
	kind := "longgc"
	// heights at which the victim flushes: the reference keeps its database there
	flushH := map[uint32]bool{}
	{
		h := uint32(0)
		for _, op := range in.Ops {
			switch op.K {
			case "blk":
				h += uint32(max(1, op.N))
			case "flush", "flushgc":
				flushH[h] = true
			}
		}
		flushH[min(h, uint32(len(in.Blocks)))] = true
		flushH[uint32(len(in.Blocks))] = true
	}
	b, err := c02BuildOpt(c02History{Cfg: in.Cfg, Blocks: in.Blocks}, func(h uint32) bool { return flushH[h] })
	if err != nil {
		return err
	}
	defer b.close()
	ix := c02MakeIndex(b)
	viol := func(class, note string, k int) {
		vin := in
		vin.At = &k
		co.violation(kind, fmt.Sprintf("%s/%s: after batch %d: %s", kind, class, k, note), vin, map[string]any{"k": k, "class": class})
	}
	rec, base, done, fail := c02Drive(b, in)
	if base != nil {
		defer base.destroy()
	}
	if fail != "" {
		viol("victim-run", c02Short(fail), -1)
		return nil
	}
	bs := rec.batches
	c02ReportTorn(rec, viol, nil)
	// incremental materialisation (memory backend): maps holding the prefix
	mem, stor := map[string][]byte{}, map[string][]byte{}
	apply := func(x c02Batch) {
		for k, v := range x.Mem {
			if v == nil {
				delete(mem, k)
			} else {
				mem[k] = v
			}
		}
		for k, v := range x.Stor {
			if v == nil {
				delete(stor, k)
			} else {
				stor[k] = v
			}
		}
	}
	saved := c02FeedMax
	c02FeedMax = 5
	defer func() { c02FeedMax = saved }()
	var recov []c02Recovered
	for k := 0; k <= len(bs); k++ {
		if k > 0 {
			apply(bs[k-1])
		}
		var acc uint32
		if k > 0 {
			acc = bs[k-1].Height
		}
		res := c02Recovered{K: k, Res: "ok"}
		st := storage.NewMemoryStore()
		st.PutChangeSet(c02CopyMap(mem), c02CopyMap(stor))
		bc, _, fail := c02Open(c02NoClose{st}, in.Cfg, nil)
		if fail != "" {
			res.Res, res.Err = "fail", c02Short(fail)
			viol("reopen-fails", c02Short(fail), k)
		} else {
			go bc.Run()
			// the header hashes the node answers for (the last ones and the page boundary) are the chain's
			hh := bc.HeaderHeight()
			for _, i := range []uint32{hh, hh - min(hh, 1), hh - min(hh, 7), hh / c02PS * c02PS, hh - min(hh, c02MTB)} {
				if got := bc.GetHeaderHash(i); got != b.Blocks[i].Hash() {
					viol("header-hash", fmt.Sprintf("GetHeaderHash(%d) differs from the chain's (header height %d)", i, hh), k)
				}
			}
			c02CheckNode(b, bc, st, in.Cfg, k, acc, -1, &res, viol)
			bc.Close()
		}
		recov = append(recov, res)
	}
	// what the GC removed, flush by flush
	type flushObs struct {
		h      uint32
		gc     bool
		blocks []uint32
		pages  []uint32
	}
	var fl []flushObs
	fi := 0
	var flushOps []c02Op
	for _, o := range done {
		if o.K == "flush" || o.K == "flushgc" {
			flushOps = append(flushOps, o)
		}
	}
	var kinds []string
	for _, x := range bs {
		blks, pgs := c02Deleted(ix, x)
		if x.Kind == "put" {
			// which flush op produced it: flush ops that found an empty cache produce no batch; heights decide
			gc := false
			for fi < len(flushOps) {
				gc = flushOps[fi].K == "flushgc"
				fi++
				break
			}
			fl = append(fl, flushObs{h: x.Height, gc: gc, blocks: blks})
			kinds = append(kinds, "0")
		} else {
			if len(fl) > 0 {
				fl[len(fl)-1].pages = append(fl[len(fl)-1].pages, pgs...)
			}
			if len(pgs) > 0 {
				kinds = append(kinds, "2")
			} else {
				kinds = append(kinds, "1")
			}
		}
	}
	var fs, os []string
	removedBlocks, removedPages := 0, 0
	for _, f := range fl {
		fs = append(fs, fmt.Sprintf("(%d, %s)", f.h, coqBool(f.gc)))
		os = append(os, fmt.Sprintf("(%s, %s)", c02Ranges(f.blocks), c02Ranges(f.pages)))
		removedBlocks += len(f.blocks)
		removedPages += len(f.pages)
	}
	term := fmt.Sprintf("CLongGC %d %d %d %s %s %s %s", c02PS, c02GCP, c02MTB, coqList(fs), coqList(os), coqList(kinds), c02CoqRecov(recov))
	tag := fmt.Sprintf("blocks%d/removed-blocks%v/removed-pages%v", len(b.Blocks)/1000*1000, removedBlocks > 0, removedPages > 0)
	co.add(kind, tag, removedBlocks > 0, in, map[string]any{"batches": len(bs), "removed_blocks": removedBlocks, "removed_pages": removedPages, "recovered": recov}, term)
	return nil
}

// c02GenLong: n blocks, flushes every ~400 blocks and after every block around the page boundaries.
func c02GenLong(r *rng, n int) c02Input {
	cfg := c02Cfg{SRIH: r.bool(), Backend: "mem", GC: true}
	blocks := make([][]c02Tx, n)
	blocks[0] = []c02Tx{{K: "gas", From: -1, To: 0, Amt: 2000_0000_0000}, {K: "gas", From: -1, To: 1, Amt: 2000_0000_0000}, {K: "neo", From: -1, To: 0, Amt: 1000}}
	dense := func(i int) bool {
		for _, c := range []int{c02PS, 2 * c02PS} {
			if i >= c-3 && i <= c+c02MTB+4 {
				return true
			}
		}
		return i >= n-3
	}
	for i := 1; i < n; i++ {
		if dense(i) && r.chance(60) {
			blocks[i] = []c02Tx{{K: "gas", From: r.intn(2), To: r.intn(c02NAcc), Amt: int64(1 + r.intn(100))}}
		}
	}
	var ops []c02Op
	run := 0
	emit := func() {
		if run > 0 {
			ops = append(ops, c02Op{K: "blk", N: run})
			run = 0
		}
	}
	step := 300 + r.intn(200)
	for i := 1; i <= n; i++ {
		run++
		if dense(i) {
			emit()
			if r.chance(75) {
				ops = append(ops, c02Op{K: "flushgc"})
			}
		} else if i%step == 0 {
			emit()
			ops = append(ops, c02Op{K: "flushgc"})
		}
	}
	emit()
	return c02Input{Cfg: cfg, Blocks: blocks, Ops: ops}
}

// ---------------------------------------------------------------------------------------------
// Reset at the HEADER-HASH PAGE boundaries.  dao.DeleteHeaderHashesHead(since = h+1) has to delete the pages from the
// page of `since` forwards and keep the complete page right before it - HeaderHashes.init needs it as its `previous`
// page.  Reset targets h with h+1 around the multiples of 2000 need a chain longer than a page: the long-chain builder
// (mostly empty blocks), ONE chain for all targets, each target on a fresh copy of the database.
//   (a) the completed reset: the database equals that of a node that only ever saw blocks <= h (trie garbage aside);
//       re-opened, it is at h, equal to the reference, and accepts the following blocks;
//   (b) (targets listed in Prefix) a crash after every batch of the reset: the re-opened node resumes and ends there too.

type c02LongResetIn struct {
	Cfg     c02Cfg    `json:"cfg"`
	Blocks  [][]c02Tx `json:"blocks"`
	Targets []uint32  `json:"targets"`
	Prefix  []uint32  `json:"prefix"` // targets whose every batch boundary is re-opened
}

func c02HeaderPages(d map[string][]byte) []uint32 {
	var ps []uint32
	for k := range d {
		if k[0] == byte(storage.IXHeaderHashList) && len(k) == 5 {
			ps = append(ps, binary.BigEndian.Uint32([]byte(k[1:])))
		}
	}
	sort.Slice(ps, func(i, j int) bool { return ps[i] < ps[j] })
	return ps
}

func c02RunLongReset(co *caseOut, in c02LongResetIn) error {
	c02srih = in.Cfg.SRIH
	kind := "longreset"
	want := map[uint32]bool{uint32(len(in.Blocks)): true}
	for _, t := range in.Targets {
		want[t] = true
	}
	b, err := c02BuildOpt(c02History{Cfg: in.Cfg, Blocks: in.Blocks}, func(h uint32) bool { return want[h] })
	if err != nil {
		return err
	}
	defer b.close()
	saved := c02FeedMax
	c02FeedMax = 3
	defer func() { c02FeedMax = saved }()
	drive := c02Input{Cfg: in.Cfg, Blocks: in.Blocks, Ops: []c02Op{{K: "blk", N: len(in.Blocks)}, {K: "flush"}}}
	rec, base, _, fail := c02Drive(b, drive)
	if base != nil {
		defer base.destroy()
	}
	if fail != "" {
		co.violation(kind, kind+"/victim-run: "+c02Short(fail), in, nil)
		return nil
	}
	pre := rec.batches
	top := uint32(len(b.Blocks) - 1)
	for _, target := range in.Targets {
		if target >= top {
			continue
		}
		vin := in
		vin.Targets = []uint32{target}
		vin.Prefix = nil
		prefixes := false
		for _, p := range in.Prefix {
			if p == target {
				prefixes = true
				vin.Prefix = []uint32{target}
			}
		}
		viol := func(class, note string, k int) {
			co.violation(kind, fmt.Sprintf("%s/%s Reset(%d) of a chain of %d blocks: after batch %d of the reset: %s", kind, class, target, top, k, note), vin, map[string]any{"k": k, "class": class, "target": target})
		}
		st, err := c02NewStore("mem")
		if err != nil {
			return err
		}
		c02Apply(st.st, pre)
		rec2 := &c02Rec{base: st.st}
		bc, _, f := c02Open(rec2, in.Cfg, nil)
		if f != "" {
			viol("open-for-reset", c02Short(f), 0)
			st.destroy()
			continue
		}
		c0 := bc.BlockHeight()
		rec2.node = func() (uint32, uint32) { return bc.BlockHeight(), bc.HeaderHeight() }
		var rerr error
		m := c02Try(func() { rerr = bc.Reset(target) })
		rb := rec2.batches
		final := c02NormDump(c02Dump(st.st))
		pages := c02HeaderPages(final)
		if m != "" || rerr != nil {
			viol("reset-fails", c02Short(fmt.Sprint(m, rerr))+fmt.Sprintf(" (header-hash pages left: %v)", pages), len(rb))
		}
		ref := c02NormDump(b.Snaps[target].Dump)
		if n, ex := c02DiffDumps(final, ref, func(k string, va, vb []byte) bool {
			return k[0] == byte(storage.DataMPT) && vb == nil // extra trie nodes only
		}); n > 0 {
			viol("not-indistinguishable", fmt.Sprintf("after Reset(%d) the database differs from a node that only synchronised to %d in %d keys (trie garbage aside): %v", target, target, n, ex), len(rb))
		}
		// (the node that performed the reset never ran: nothing to close)
		var recov []c02Recovered
		if prefixes {
			cin := c02Input{Cfg: in.Cfg, Blocks: in.Blocks}
			recov, err = c02ResetPrefixes(b, cin, pre, rb, c0, target, final, viol)
			if err != nil {
				st.destroy()
				return err
			}
		} else {
			// the completed reset only
			res := c02Recovered{K: len(rb), Res: "ok"}
			bc2, _, fail := c02Open(c02NoClose{st.st}, in.Cfg, nil)
			if fail != "" {
				res.Res, res.Err = "fail", c02Short(fail)
				viol("reopen-fails", c02Short(fail), len(rb))
			} else {
				go bc2.Run()
				c02CheckNode(b, bc2, st.st, in.Cfg, len(rb), top, int(target), &res, viol)
				bc2.Close()
			}
			recov = append(recov, res)
		}
		st.destroy()
		var ps []string
		for _, p := range pages {
			ps = append(ps, fmt.Sprint(p))
		}
		d := (target + 1) % c02PS
		where := "inside"
		switch {
		case d == 0:
			where = "since=page-start"
		case d == 1:
			where = "since=page-start+1"
		case d == c02PS-1:
			where = "since=page-start-1"
		}
		co.add(kind, fmt.Sprintf("%s/prefixes-%v", where, prefixes), d <= 1 || d == c02PS-1, vin,
			map[string]any{"target": target, "top": top, "batches": len(rb), "pages_after": pages, "recovered": recov},
			fmt.Sprintf("CResetPages %d %d %d %s", c02PS, c0, target, coqList(ps)))
	}
	return nil
}

func c02GenLongReset(r *rng, thorough bool) c02LongResetIn {
	n := c02PS + 14
	targets := []uint32{c02PS - 2, c02PS - 1} // h+1 = 1999, 2000
	prefix := []uint32{c02PS - 1}
	if thorough {
		n = 2*c02PS + 16
		targets = []uint32{1, c02PS - 2, c02PS - 1, c02PS, 2*c02PS - 2, 2*c02PS - 1, 2 * c02PS}
		prefix = targets
	}
	g := c02GenLong(r, n)
	return c02LongResetIn{Cfg: c02Cfg{SRIH: g.Cfg.SRIH, Backend: "mem"}, Blocks: g.Blocks, Targets: targets, Prefix: prefix}
}
