package main

// C02, long chains: removal of untraceable blocks and of header-hash pages (tryRunGC ->
// removeUntraceableBlocks / removeOldHeaderHashes) only happens beyond one, resp. two, pages of 2000 header
// hashes.  MaxTraceableBlocks is small, so a chain of a little over 2000 / 4000 (mostly empty) blocks
// reaches both.  Every batch boundary is a crash point as before.

import (
	"encoding/binary"
	"fmt"
	"sort"

	"github.com/nspcc-dev/neo-go/pkg/core/storage"
	"github.com/nspcc-dev/neo-go/pkg/util"
)

const c02PS = 2000 // headerBatchCount

// c02Deleted lists block indices whose executable record a batch deletes and header-hash pages it deletes.
func c02Deleted(ix *c02Index, b c02Batch) (blocks []uint32, pages []uint32) {
	for k, v := range b.Mem {
		if v != nil {
			continue
		}
		switch storage.KeyPrefix(k[0]) {
		case storage.DataExecutable:
			if len(k) == 33 {
				h, _ := util.Uint256DecodeBytesBE([]byte(k[1:]))
				if i, ok := ix.blk[h]; ok {
					blocks = append(blocks, i)
				}
			}
		case storage.IXHeaderHashList:
			pages = append(pages, binary.BigEndian.Uint32([]byte(k[1:])))
		}
	}
	sort.Slice(blocks, func(i, j int) bool { return blocks[i] < blocks[j] })
	sort.Slice(pages, func(i, j int) bool { return pages[i] < pages[j] })
	return
}

func c02Ranges(xs []uint32) string {
	var rs []string
	for i := 0; i < len(xs); {
		j := i
		for j+1 < len(xs) && xs[j+1] == xs[j]+1 {
			j++
		}
		rs = append(rs, fmt.Sprintf("(%d, %d)", xs[i], xs[j]+1))
		i = j + 1
	}
	return coqList(rs)
}

func c02RunLongGC(co *caseOut, in c02Input) error {
	c02srih = in.Cfg.SRIH
	kind := "longgc"
	// heights at which the victim flushes: the reference keeps its database there
	flushH := map[uint32]bool{}
	{
		h := uint32(0)
		for _, op := range in.Ops {
			switch op.K {
			case "blk":
				h += uint32(max(1, op.N))
			case "flush", "flushgc":
				flushH[h] = true
			}
		}
		flushH[min(h, uint32(len(in.Blocks)))] = true
		flushH[uint32(len(in.Blocks))] = true
	}
	b, err := c02BuildOpt(c02History{Cfg: in.Cfg, Blocks: in.Blocks}, func(h uint32) bool { return flushH[h] })
	if err != nil {
		return err
	}
	defer b.close()
	ix := c02MakeIndex(b)
	viol := func(class, note string, k int) {
		vin := in
		vin.At = &k
		co.violation(kind, fmt.Sprintf("%s/%s: after batch %d: %s", kind, class, k, note), vin, map[string]any{"k": k, "class": class})
	}
	rec, base, done, fail := c02Drive(b, in)
	if base != nil {
		defer base.destroy()
	}
	if fail != "" {
		viol("victim-run", c02Short(fail), -1)
		return nil
	}
	bs := rec.batches
	c02ReportTorn(rec, viol, nil)
	// incremental materialisation (memory backend): maps holding the prefix
	mem, stor := map[string][]byte{}, map[string][]byte{}
	apply := func(x c02Batch) {
		for k, v := range x.Mem {
			if v == nil {
				delete(mem, k)
			} else {
				mem[k] = v
			}
		}
		for k, v := range x.Stor {
			if v == nil {
				delete(stor, k)
			} else {
				stor[k] = v
			}
		}
	}
	saved := c02FeedMax
	c02FeedMax = 5
	defer func() { c02FeedMax = saved }()
	var recov []c02Recovered
	for k := 0; k <= len(bs); k++ {
		if k > 0 {
			apply(bs[k-1])
		}
		var acc uint32
		if k > 0 {
			acc = bs[k-1].Height
		}
		res := c02Recovered{K: k, Res: "ok"}
		st := storage.NewMemoryStore()
		st.PutChangeSet(c02CopyMap(mem), c02CopyMap(stor))
		bc, _, fail := c02Open(c02NoClose{st}, in.Cfg, nil)
		if fail != "" {
			res.Res, res.Err = "fail", c02Short(fail)
			viol("reopen-fails", c02Short(fail), k)
		} else {
			go bc.Run()
			// the header hashes the node answers for (the last ones and the page boundary) are the chain's
			hh := bc.HeaderHeight()
			for _, i := range []uint32{hh, hh - min(hh, 1), hh - min(hh, 7), hh / c02PS * c02PS, hh - min(hh, c02MTB)} {
				if got := bc.GetHeaderHash(i); got != b.Blocks[i].Hash() {
					viol("header-hash", fmt.Sprintf("GetHeaderHash(%d) differs from the chain's (header height %d)", i, hh), k)
				}
			}
			c02CheckNode(b, bc, st, in.Cfg, k, acc, -1, &res, viol)
			bc.Close()
		}
		recov = append(recov, res)
	}
	// what the GC removed, flush by flush
	type flushObs struct {
		h      uint32
		gc     bool
		blocks []uint32
		pages  []uint32
	}
	var fl []flushObs
	fi := 0
	var flushOps []c02Op
	for _, o := range done {
		if o.K == "flush" || o.K == "flushgc" {
			flushOps = append(flushOps, o)
		}
	}
	var kinds []string
	for _, x := range bs {
		blks, pgs := c02Deleted(ix, x)
		if x.Kind == "put" {
			// which flush op produced it: flush ops that found an empty cache produce no batch; heights decide
			gc := false
			for fi < len(flushOps) {
				gc = flushOps[fi].K == "flushgc"
				fi++
				break
			}
			fl = append(fl, flushObs{h: x.Height, gc: gc, blocks: blks})
			kinds = append(kinds, "0")
		} else {
			if len(fl) > 0 {
				fl[len(fl)-1].pages = append(fl[len(fl)-1].pages, pgs...)
			}
			if len(pgs) > 0 {
				kinds = append(kinds, "2")
			} else {
				kinds = append(kinds, "1")
			}
		}
	}
	var fs, os []string
	removedBlocks, removedPages := 0, 0
	for _, f := range fl {
		fs = append(fs, fmt.Sprintf("(%d, %s)", f.h, coqBool(f.gc)))
		os = append(os, fmt.Sprintf("(%s, %s)", c02Ranges(f.blocks), c02Ranges(f.pages)))
		removedBlocks += len(f.blocks)
		removedPages += len(f.pages)
	}
	term := fmt.Sprintf("CLongGC %d %d %d %s %s %s %s", c02PS, c02GCP, c02MTB, coqList(fs), coqList(os), coqList(kinds), c02CoqRecov(recov))
	tag := fmt.Sprintf("blocks%d/removed-blocks%v/removed-pages%v", len(b.Blocks)/1000*1000, removedBlocks > 0, removedPages > 0)
	co.add(kind, tag, removedBlocks > 0, in, map[string]any{"batches": len(bs), "removed_blocks": removedBlocks, "removed_pages": removedPages, "recovered": recov}, term)
	return nil
}

// c02GenLong: n blocks, flushes every ~400 blocks and after every block around the page boundaries.
func c02GenLong(r *rng, n int) c02Input {
	cfg := c02Cfg{SRIH: r.bool(), Backend: "mem", GC: true}
	blocks := make([][]c02Tx, n)
	blocks[0] = []c02Tx{{K: "gas", From: -1, To: 0, Amt: 2000_0000_0000}, {K: "gas", From: -1, To: 1, Amt: 2000_0000_0000}, {K: "neo", From: -1, To: 0, Amt: 1000}}
	dense := func(i int) bool {
		for _, c := range []int{c02PS, 2 * c02PS} {
			if i >= c-3 && i <= c+c02MTB+4 {
				return true
			}
		}
		return i >= n-3
	}
	for i := 1; i < n; i++ {
		if dense(i) && r.chance(60) {
			blocks[i] = []c02Tx{{K: "gas", From: r.intn(2), To: r.intn(c02NAcc), Amt: int64(1 + r.intn(100))}}
		}
	}
	var ops []c02Op
	run := 0
	emit := func() {
		if run > 0 {
			ops = append(ops, c02Op{K: "blk", N: run})
			run = 0
		}
	}
	step := 300 + r.intn(200)
	for i := 1; i <= n; i++ {
		run++
		if dense(i) {
			emit()
			if r.chance(75) {
				ops = append(ops, c02Op{K: "flushgc"})
			}
		} else if i%step == 0 {
			emit()
			ops = append(ops, c02Op{K: "flushgc"})
		}
	}
	emit()
	return c02Input{Cfg: cfg, Blocks: blocks, Ops: ops}
}
