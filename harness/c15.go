package main

// C15 harness: witness scopes and witness rules.
//
//  cond   the exported WitnessCondition.Match of real condition objects against a stub MatchContext, for every call
//         context of a small universe (62 contexts), per condition tree
//  scope  the real runtime.CheckHashedWitness (checkScope, scopeContext, getContractGroups) on a VM whose invocation
//         stack is built with LoadScriptWithHash/LoadNEFMethod to realise each of the 62 contexts, with a stub
//         contract table, per signer list
//  live   System.Runtime.CheckWitness executed inside deployed contracts (with real group signatures) on a neotest
//         chain: entry script, called by entry, deeper, dynamic script, native (GAS) caller
//
// universe: contracts 1,2,3 with groups {1},{1,2},{}; 7 a native(-like) contract without groups; 9 the entry script;
// 8 a dynamic script; accounts 4,5,6.

import (
	"encoding/json"
	"errors"
	"fmt"
	"strings"

	"github.com/nspcc-dev/neo-go/pkg/config"
	"github.com/nspcc-dev/neo-go/pkg/core/block"
	"github.com/nspcc-dev/neo-go/pkg/core/dao"
	"github.com/nspcc-dev/neo-go/pkg/core/interop"
	"github.com/nspcc-dev/neo-go/pkg/core/interop/interopnames"
	"github.com/nspcc-dev/neo-go/pkg/core/interop/runtime"
	"github.com/nspcc-dev/neo-go/pkg/core/native/nativenames"
	"github.com/nspcc-dev/neo-go/pkg/core/state"
	"github.com/nspcc-dev/neo-go/pkg/core/storage"
	"github.com/nspcc-dev/neo-go/pkg/core/transaction"
	"github.com/nspcc-dev/neo-go/pkg/crypto/hash"
	"github.com/nspcc-dev/neo-go/pkg/crypto/keys"
	"github.com/nspcc-dev/neo-go/pkg/io"
	"github.com/nspcc-dev/neo-go/pkg/neotest"
	"github.com/nspcc-dev/neo-go/pkg/smartcontract/callflag"
	"github.com/nspcc-dev/neo-go/pkg/smartcontract/manifest"
	"github.com/nspcc-dev/neo-go/pkg/smartcontract/nef"
	"github.com/nspcc-dev/neo-go/pkg/smartcontract/trigger"
	"github.com/nspcc-dev/neo-go/pkg/util"
	"github.com/nspcc-dev/neo-go/pkg/vm/emit"
	"github.com/nspcc-dev/neo-go/pkg/vm/opcode"
	"go.uber.org/zap"
)

func init() {
	register("c15", func(a []string) error { return runC15("c15", a) })   // exhaustive enumerations
	register("c15r", func(a []string) error { return runC15("c15r", a) }) // random trees / signer lists, live chain sample
}

// ---------- inputs ----------

type c15Cond struct {
	T string     `json:"t"` // bool not and or sh g cbe cbc cbg
	B bool       `json:"b,omitempty"`
	H int        `json:"h,omitempty"`
	G int        `json:"g,omitempty"`
	C *c15Cond   `json:"c,omitempty"`
	L []*c15Cond `json:"l,omitempty"`
}

type c15Rule struct {
	Allow bool     `json:"allow"`
	Cond  *c15Cond `json:"cond"`
}

type c15Signer struct {
	Acct      int       `json:"acct"`
	Scopes    int       `json:"scopes"`
	Contracts []int     `json:"contracts,omitempty"`
	Groups    []int     `json:"groups,omitempty"`
	Rules     []c15Rule `json:"rules,omitempty"`
}

type c15ScopeIn struct {
	Ops []c15Signer `json:"ops"` // the signer list
	H   int         `json:"h"`
}

type c15CondIn struct {
	Cond *c15Cond `json:"cond"`
}

type c15LiveIn struct {
	Ops   []c15Signer `json:"ops"`
	H     int         `json:"h"`
	Shape string      `json:"shape"` // entry | direct | deeper | dyn | dyn-entry | native
	I     int         `json:"i,omitempty"`
	J     int         `json:"j,omitempty"`
	NoRS  bool        `json:"nors,omitempty"` // the frame doing the check lacks ReadStates
}

func (c *c15Cond) coq() string {
	switch c.T {
	case "bool":
		return fmt.Sprintf("(CBool %s)", coqBool(c.B))
	case "not":
		return "(CNot " + c.C.coq() + ")"
	case "and", "or":
		xs := make([]string, len(c.L))
		for i, x := range c.L {
			xs[i] = x.coq()
		}
		k := "CAnd"
		if c.T == "or" {
			k = "COr"
		}
		return "(" + k + " " + coqList(xs) + ")"
	case "sh":
		return fmt.Sprintf("(CScriptHash %d)", c.H)
	case "g":
		return fmt.Sprintf("(CGroup %d)", c.G)
	case "cbe":
		return "CCalledByEntry"
	case "cbc":
		return fmt.Sprintf("(CCalledByContract %d)", c.H)
	case "cbg":
		return fmt.Sprintf("(CCalledByGroup %d)", c.G)
	}
	panic("bad cond " + c.T)
}

func (c *c15Cond) height() int {
	switch c.T {
	case "not":
		return 1 + c.C.height()
	case "and", "or":
		h := 0
		for _, x := range c.L {
			h = max(h, x.height())
		}
		return 1 + h
	}
	return 1
}

func c15Ints(xs []int) string {
	s := make([]string, len(xs))
	for i, x := range xs {
		s[i] = fmt.Sprint(x)
	}
	return coqList(s)
}

func (s c15Signer) coq() string {
	rs := make([]string, len(s.Rules))
	for i, r := range s.Rules {
		a := "Deny"
		if r.Allow {
			a = "Allow"
		}
		rs[i] = fmt.Sprintf("(mk_rule %s %s)", a, r.Cond.coq())
	}
	return fmt.Sprintf("(mk_signer %d %d %s %s %s)", s.Acct, s.Scopes, c15Ints(s.Contracts), c15Ints(s.Groups), coqList(rs))
}

func c15CoqSigners(ss []c15Signer) string {
	xs := make([]string, len(ss))
	for i, s := range ss {
		xs[i] = s.coq()
	}
	return coqList(xs)
}

// ---------- universe -> real objects ----------

type c15Names struct {
	hash  map[int]util.Uint160
	group map[int]*keys.PublicKey
}

func c15StubNames() *c15Names {
	n := &c15Names{hash: map[int]util.Uint160{0: {}}, group: map[int]*keys.PublicKey{}}
	for i := 1; i <= 10; i++ {
		n.hash[i] = util.Uint160{0xa0, byte(i)}
	}
	n.group[1], n.group[2] = c16Key(0).PublicKey(), c16Key(1).PublicKey()
	return n
}

func (n *c15Names) cond(c *c15Cond) transaction.WitnessCondition {
	switch c.T {
	case "bool":
		b := transaction.ConditionBoolean(c.B)
		return &b
	case "not":
		return &transaction.ConditionNot{Condition: n.cond(c.C)}
	case "and":
		a := make(transaction.ConditionAnd, len(c.L))
		for i, x := range c.L {
			a[i] = n.cond(x)
		}
		return &a
	case "or":
		a := make(transaction.ConditionOr, len(c.L))
		for i, x := range c.L {
			a[i] = n.cond(x)
		}
		return &a
	case "sh":
		h := transaction.ConditionScriptHash(n.hash[c.H])
		return &h
	case "g":
		return (*transaction.ConditionGroup)(n.group[c.G])
	case "cbe":
		return transaction.ConditionCalledByEntry{}
	case "cbc":
		h := transaction.ConditionCalledByContract(n.hash[c.H])
		return &h
	case "cbg":
		return (*transaction.ConditionCalledByGroup)(n.group[c.G])
	}
	panic("bad cond " + c.T)
}

func (n *c15Names) signers(ss []c15Signer) []transaction.Signer {
	out := make([]transaction.Signer, len(ss))
	for i, s := range ss {
		t := transaction.Signer{Account: n.hash[s.Acct], Scopes: transaction.WitnessScope(s.Scopes)}
		for _, c := range s.Contracts {
			t.AllowedContracts = append(t.AllowedContracts, n.hash[c])
		}
		for _, g := range s.Groups {
			t.AllowedGroups = append(t.AllowedGroups, n.group[g])
		}
		for _, r := range s.Rules {
			a := transaction.WitnessDeny
			if r.Allow {
				a = transaction.WitnessAllow
			}
			t.Rules = append(t.Rules, transaction.WitnessRule{Action: a, Condition: n.cond(r.Cond)})
		}
		out[i] = t
	}
	return out
}

// contract groups of the universe
var c15Groups = map[int][]int{1: {1}, 2: {1, 2}, 3: {}, 10: {2}, 7: {}}

// ---------- contexts ----------

type c15Ctx struct {
	cal, cur int
	be, rs   bool
}

func c15AllCtx() []c15Ctx {
	var out []c15Ctx
	for _, rs := range []bool{true, false} {
		out = append(out, c15Ctx{0, 9, true, rs})
	}
	for _, be := range []bool{true, false} {
		for _, cur := range []int{1, 2, 3, 10} {
			for _, cal := range []int{0, 1, 2, 3, 10, 9} {
				for _, rs := range []bool{true, false} {
					out = append(out, c15Ctx{cal, cur, be, rs})
				}
			}
		}
	}
	return out
}

// stub MatchContext
type c15Stub struct {
	n *c15Names
	x c15Ctx
}

func (s c15Stub) GetCallingScriptHash() util.Uint160 { return s.n.hash[s.x.cal] }
func (s c15Stub) GetCurrentScriptHash() util.Uint160 { return s.n.hash[s.x.cur] }
func (s c15Stub) IsCalledByEntry() bool               { return s.x.be }
func (s c15Stub) hasGroup(id int, k *keys.PublicKey) (bool, error) {
	if !s.x.rs {
		return false, errors.New("missing ReadStates call flag")
	}
	for _, g := range c15Groups[id] {
		if s.n.group[g].Equal(k) {
			return true, nil
		}
	}
	return false, nil
}
func (s c15Stub) CallingScriptHasGroup(k *keys.PublicKey) (bool, error) { return s.hasGroup(s.x.cal, k) }
func (s c15Stub) CurrentScriptHasGroup(k *keys.PublicKey) (bool, error) { return s.hasGroup(s.x.cur, k) }

func c15Code3(b bool, err error) int {
	if err != nil {
		return 2
	}
	if b {
		return 1
	}
	return 0
}

// stub ledger for interop.NewContext
type c15Ledger struct{}

func (c15Ledger) BlockHeight() uint32                              { return 10 }
func (c15Ledger) CurrentBlockHash() util.Uint256                   { return util.Uint256{} }
func (c15Ledger) GetBlock(util.Uint256) (*block.Block, error)      { return nil, errors.New("no block") }
func (c15Ledger) GetConfig() config.Blockchain                     { return config.Blockchain{} }
func (c15Ledger) GetHeaderHash(uint32) util.Uint256                { return util.Uint256{} }
func (c15Ledger) NativeManagementID() int32                        { return -1 }

type c15Real struct {
	n     *c15Names
	ic    *interop.Context
	nef   nef.File
	manif map[int]*manifest.Manifest
}

func c15NewReal() *c15Real { return c15NewRealT(c15Groups, nil) }

// c15NewRealT: an execution with its own contract table; onLookup (if set) is called inside every contract lookup
// (the natural yield point of an evaluation) before it answers
func c15NewRealT(table map[int][]int, onLookup func()) *c15Real {
	r := &c15Real{n: c15StubNames(), manif: map[int]*manifest.Manifest{}}
	for id, gs := range table {
		m := manifest.NewManifest(fmt.Sprintf("X%d", id))
		for _, g := range gs {
			m.Groups = append(m.Groups, manifest.Group{PublicKey: r.n.group[g]})
		}
		r.manif[id] = m
	}
	byHash := map[util.Uint160]int{}
	for id := range table {
		byHash[r.n.hash[id]] = id
	}
	getContract := func(_ *dao.Simple, h util.Uint160) (*state.Contract, error) {
		if onLookup != nil {
			onLookup()
		}
		id, ok := byHash[h]
		if !ok {
			return nil, errors.New("contract not found")
		}
		return &state.Contract{ContractBase: state.ContractBase{ID: int32(id), Hash: h, Manifest: *r.manif[id]}}, nil
	}
	r.ic = interop.NewContext(trigger.Application, c15Ledger{}, dao.NewSimple(storage.NewMemoryStore(), false), 0, 0,
		getContract, nil, nil, nil, nil, zap.NewNop())
	r.nef = nef.File{Script: []byte{byte(opcode.RET)}}
	return r
}

// check runs the real CheckHashedWitness in a VM whose top context has the given calling/current hashes, depth and flags
func (r *c15Real) check(x c15Ctx, signers []transaction.Signer, h util.Uint160) (res int) {
	v := r.ic.SpawnVM()
	fl := callflag.All
	if !x.rs {
		fl = callflag.All &^ callflag.ReadStates
	}
	ret := []byte{byte(opcode.RET)}
	if x.cur == 9 {
		v.LoadScriptWithHash(ret, r.n.hash[9], fl) // the entry script: calling hash zero
	} else {
		v.LoadScriptWithHash(ret, r.n.hash[9], callflag.All)
		if !x.be { // one more frame in between, so that the checked one is not called by entry
			mid := 3
			v.LoadNEFMethod(&r.nef, r.manif[mid], r.n.hash[9], r.n.hash[mid], callflag.All, true, 0, -1, nil, nil, false)
		}
		v.LoadNEFMethod(&r.nef, r.manif[x.cur], r.n.hash[x.cal], r.n.hash[x.cur], fl, true, 0, -1, nil, nil, false)
	}
	if signers == nil {
		signers = []transaction.Signer{}
	}
	r.ic.UseSigners(signers)
	var b bool
	var err error
	if p := catch(func() { b, err = runtime.CheckHashedWitness(r.ic, h) }); p != "" {
		return 9
	}
	// sanity of the construction itself
	if v.GetCallingScriptHash() != r.n.hash[x.cal] || v.GetCurrentScriptHash() != r.n.hash[x.cur] || len(v.Istack()) != map[bool]int{true: 2, false: 3}[x.be]-map[bool]int{true: 1, false: 0}[x.cur == 9] {
		return 8
	}
	return c15Code3(b, err)
}

func c15HashOf(b []byte) util.Uint160 { return hash.Hash160(b) }

// ---------- case runners ----------

func c15RunCond(co *caseOut, n *c15Names, in c15CondIn) {
	cond := n.cond(in.Cond)
	ctxs := c15AllCtx()
	res := make([]int, len(ctxs))
	nt, nf, ne := 0, 0, 0
	for i, x := range ctxs {
		var b bool
		var err error
		if p := catch(func() { b, err = cond.Match(c15Stub{n, x}) }); p != "" {
			co.violation("cond", "panic in Match: "+p, in, nil)
			return
		}
		res[i] = c15Code3(b, err)
		switch res[i] {
		case 0:
			nf++
		case 1:
			nt++
		default:
			ne++
		}
	}
	tag := fmt.Sprintf("h%d/%s", in.Cond.height(), in.Cond.T)
	co.add("cond", tag, nt > 0 && nf > 0, in, res, fmt.Sprintf("CCond %s %s", in.Cond.coq(), c15Ints(res)))
}

func c15RunScope(co *caseOut, r *c15Real, in c15ScopeIn) {
	ctxs := c15AllCtx()
	res := make([]int, len(ctxs))
	signers := r.n.signers(in.Ops)
	nt, nf := 0, 0
	for i, x := range ctxs {
		res[i] = r.check(x, signers, r.n.hash[in.H])
		if res[i] >= 8 {
			co.violation("scope", fmt.Sprintf("harness: context construction failed (%d) for %+v", res[i], x), in, nil)
			return
		}
		if res[i] == 1 {
			nt++
		}
		if res[i] == 0 {
			nf++
		}
	}
	tag := "nosigner"
	if len(in.Ops) > 0 {
		tag = fmt.Sprintf("%dsig/scopes%d", len(in.Ops), in.Ops[0].Scopes)
	}
	co.add("scope", tag, nt > 0 && nf > 0, in, res, fmt.Sprintf("CScope %s %d %s", c15CoqSigners(in.Ops), in.H, c15Ints(res)))
}

// ---------- live chain ----------

type c15Live struct {
	c  *c16Chain
	x  map[int]*neotest.Contract
	gh util.Uint160
}

func c15NewLive() (lv *c15Live, err error) {
	defer func() {
		if r := recover(); r != nil {
			err = fmt.Errorf("c15 live setup: %v", r)
		}
	}()
	c := c16NewChain()
	lv = &c15Live{c: c, x: map[int]*neotest.Contract{}}
	wild := []manifest.Permission{*manifest.NewPermission(manifest.PermissionWildcard)}
	pay := c16Code(func(w *io.BinWriter) {
		emit.Opcodes(w, opcode.DROP, opcode.DROP)
		emit.Syscall(w, interopnames.SystemRuntimeCheckWitness)
		emit.Opcodes(w, opcode.ASSERT, opcode.RET)
	})
	for id, gs := range map[int][]*keys.PrivateKey{1: {c16Key(0)}, 2: {c16Key(0), c16Key(1)}, 3: {}} {
		ct, err := c.deploy(c16ContractSpec{Name: fmt.Sprintf("X%d", id), Perms: wild, Groups: gs, Methods: []c16Method{
			{Name: "cw", NParams: 1, Body: c16SyscallBody(interopnames.SystemRuntimeCheckWitness, false)},
			{Name: "fwd", NParams: 4, Body: c16SyscallBody(interopnames.SystemContractCall, false)},
			{Name: "load", NParams: 3, Body: c16SyscallBody(interopnames.SystemRuntimeLoadScript, false)},
			{Name: "onNEP17Payment", NParams: 3, Void: true, Body: pay},
		}})
		if err != nil {
			return nil, err
		}
		lv.x[id] = ct
	}
	lv.gh = c.e.NativeHash(c.t, nativenames.Gas)
	return lv, nil
}

func (lv *c15Live) run(co *caseOut, in c15LiveIn) {
	n := &c15Names{hash: map[int]util.Uint160{0: {}, 4: lv.c.owner.ScriptHash(), 5: {5}, 6: {6}, 7: lv.gh, 10: {0xa0, 10}},
		group: map[int]*keys.PublicKey{1: c16Key(0).PublicKey(), 2: c16Key(1).PublicKey()}}
	for id, ct := range lv.x {
		n.hash[id] = ct.Hash
	}
	hv := n.hash[in.H]
	fl := 15
	if in.NoRS {
		fl = 14
	}
	cwScript := c16Code(func(w *io.BinWriter) {
		emit.Bytes(w, hv.BytesBE())
		emit.Syscall(w, interopnames.SystemRuntimeCheckWitness)
	})
	var script []byte
	var x c15Ctx
	entryFlags := callflag.All
	native := false
	switch in.Shape {
	case "entry":
		script = cwScript
		x = c15Ctx{0, 9, true, !in.NoRS}
		if in.NoRS {
			entryFlags = callflag.All &^ callflag.ReadStates
		}
	case "direct":
		script = c16Code(func(w *io.BinWriter) { c16EmitCall(w, n.hash[in.I], "cw", fl, hv) })
		x = c15Ctx{9, in.I, true, !in.NoRS}
	case "deeper":
		script = c16Code(func(w *io.BinWriter) { c16EmitCall(w, n.hash[in.I], "fwd", 15, n.hash[in.J], "cw", fl, []any{hv}) })
		x = c15Ctx{in.I, in.J, false, !in.NoRS}
	case "dyn":
		script = c16Code(func(w *io.BinWriter) { c16EmitCall(w, n.hash[in.I], "load", 15, cwScript, fl, []any{}) })
		x = c15Ctx{in.I, 8, false, !in.NoRS}
		n.hash[8] = util.Uint160(c15HashOf(cwScript))
	case "dyn-entry":
		script = c16Code(func(w *io.BinWriter) {
			emit.Opcodes(w, opcode.NEWARRAY0)
			emit.Int(w, int64(fl))
			emit.Bytes(w, cwScript)
			emit.Syscall(w, interopnames.SystemRuntimeLoadScript)
		})
		x = c15Ctx{9, 8, true, !in.NoRS}
		n.hash[8] = util.Uint160(c15HashOf(cwScript))
	case "native":
		// GAS.transfer(owner -> X_i, 1, data = h): X_i.onNEP17Payment asserts CheckWitness(data); caller is the GAS contract
		script = c16Code(func(w *io.BinWriter) { c16EmitCall(w, lv.gh, "transfer", 15, n.hash[4], n.hash[in.I], 1, hv.BytesBE()) })
		x = c15Ctx{7, in.I, false, true}
		native = true
	default:
		co.violation("live", "harness: unknown shape "+in.Shape, in, nil)
		return
	}
	n.hash[9] = util.Uint160(c15HashOf(script))
	signers := n.signers(in.Ops)
	obs, ic := lv.c.invoke(script, signers, util.Uint160{}, 1, trigger.Application, entryFlags, false)
	res := -1
	switch {
	case obs.State == "HALT" && native:
		res = 1
	case obs.State == "HALT" && ic.VM.Estack().Len() > 0:
		b, err := ic.VM.Estack().Peek(0).Item().TryBool()
		if err == nil {
			res = c15Code3(b, nil)
		}
	case strings.Contains(obs.Fault, "missing ReadStates"), strings.Contains(obs.Fault, "no valid signers"):
		res = 2
	case native && strings.Contains(obs.Fault, "ASSERT"):
		res = 0
	}
	if res < 0 {
		co.violation("live", "harness: unexpected outcome: "+obs.State+" "+obs.Fault, in, obs)
		return
	}
	co.add("live", fmt.Sprintf("%s/res%d", in.Shape, res), res != 2, in, res,
		fmt.Sprintf("CLive %s %d %d %d %s %s %d", c15CoqSigners(in.Ops), in.H, x.cal, x.cur, coqBool(x.be), coqBool(x.rs), res))
}

// ---------- two executions at once ----------

type c15ConcIn struct {
	Ops   []c15Signer `json:"ops"`    // signers of execution #1 (account 5): a Rules signer whose conditions need contract lookups
	Yield int         `json:"yield"`  // execution #1 is parked inside its Yield-th contract lookup (1-based)
	Ctx1  int         `json:"ctx1"`   // index of execution #1's call context in c15ConcCtx
	Ops2  []c15Signer `json:"ops2"`   // signers of execution #2 (account 5)
	Ctx2  int         `json:"ctx2"`   // its call context
}

// the two executions have DIFFERENT contract tables for the same hashes (groups swapped), so that any state leaking
// from one into the other changes an answer
var c15ConcTable1 = map[int][]int{1: {1}, 2: {2}, 3: {}}
var c15ConcTable2 = map[int][]int{1: {2}, 2: {1}, 3: {1, 2}}
var c15ConcCtx = []c15Ctx{{9, 1, true, true}, {2, 1, false, true}, {1, 2, false, true}, {9, 2, true, true}, {3, 3, false, true}}

func c15TableCoq(t map[int][]int) string {
	var xs []string
	for _, id := range []int{1, 2, 3} {
		xs = append(xs, fmt.Sprintf("(%d, %s)", id, c15Ints(t[id])))
	}
	return coqList(xs)
}

func c15SignersEqual(a, b []transaction.Signer) bool {
	ja, _ := json.Marshal(a)
	jb, _ := json.Marshal(b)
	return string(ja) == string(jb) && len(a) == len(b)
}

func c15RunConc(co *caseOut, in c15ConcIn) {
	if in.Ctx1 < 0 || in.Ctx1 >= len(c15ConcCtx) || in.Ctx2 < 0 || in.Ctx2 >= len(c15ConcCtx) {
		return
	}
	x1, x2 := c15ConcCtx[in.Ctx1], c15ConcCtx[in.Ctx2]
	// sequential answers: each execution alone, on fresh contexts
	s1 := c15NewRealT(c15ConcTable1, nil)
	s2 := c15NewRealT(c15ConcTable2, nil)
	sg1, sg2 := s1.n.signers(in.Ops), s2.n.signers(in.Ops2)
	h := s1.n.hash[5]
	seq1 := s1.check(x1, sg1, h)
	seq2 := s2.check(x2, sg2, h)
	// interleaved: #1 parks inside its Yield-th lookup, #2 runs completely, #1 resumes
	parked, release := make(chan struct{}), make(chan struct{})
	nlook := 0
	didPark := false
	e1 := c15NewRealT(c15ConcTable1, func() {
		nlook++
		if nlook == in.Yield {
			didPark = true
			parked <- struct{}{}
			<-release
		}
	})
	e2 := c15NewRealT(c15ConcTable2, nil)
	c1sg, c2sg := e1.n.signers(in.Ops), e2.n.signers(in.Ops2)
	keep1, keep2 := e1.n.signers(in.Ops), e2.n.signers(in.Ops2)
	done := make(chan int, 1)
	go func() { done <- e1.check(x1, c1sg, h) }()
	con1, con2 := -1, -1
	select {
	case <-parked:
		con2 = e2.check(x2, c2sg, h)
		release <- struct{}{}
		con1 = <-done
	case con1 = <-done: // fewer lookups than Yield: nothing to interleave with
		con2 = e2.check(x2, c2sg, h)
	}
	if con1 != seq1 || con2 != seq2 {
		co.violation("conc", fmt.Sprintf("witness answers depend on a concurrent execution: alone %d / %d, interleaved %d / %d (0 refused, 1 granted, 2 fault)", seq1, seq2, con1, con2), in, []int{seq1, seq2, con1, con2})
	}
	if !c15SignersEqual(c1sg, keep1) || !c15SignersEqual(c2sg, keep2) || !c15SignersEqual(sg1, keep1) {
		co.violation("conc", "the signer list was modified by the check", in, nil)
	}
	tag := "no-park"
	if didPark {
		tag = fmt.Sprintf("parked@%d", in.Yield)
	}
	// each execution's answer against the model/spec on ITS OWN context and table
	co.add("conc", tag+"/exec1", didPark, in, []int{seq1, seq2, con1, con2},
		fmt.Sprintf("CLiveT %s %s 5 %d %d %s %s %d", c15TableCoq(c15ConcTable1), c15CoqSigners(in.Ops), x1.cal, x1.cur, coqBool(x1.be), coqBool(x1.rs), con1))
	co.add("conc", tag+"/exec2", didPark, in, []int{seq1, seq2, con1, con2},
		fmt.Sprintf("CLiveT %s %s 5 %d %d %s %s %d", c15TableCoq(c15ConcTable2), c15CoqSigners(in.Ops2), x2.cal, x2.cur, coqBool(x2.be), coqBool(x2.rs), con2))
}

// ---------- a contract changes its own groups (update / destroy) and then the witness is checked ----------

type c15SelfIn struct {
	Stage  int    `json:"stage"`  // 0 before Domovoi, 1 after
	Helper string `json:"helper"` // HG: in group 1 (update leaves it), HP: in no group (update joins group 1)
	Action string `json:"action"` // none | update | destroy
	Shape  string `json:"shape"`  // self: CheckWitness by the changed contract; callee: by a contract it calls afterwards; caller: by its caller after it returned
	Scope  int    `json:"scope"`  // 0 CustomGroups [1]; 1..4 Rules Allow: Group 1, CalledByGroup 1, Not Group 1, Not CalledByGroup 1
}

func c15SelfSigner(scope int) c15Signer {
	g1, cbg1 := &c15Cond{T: "g", G: 1}, &c15Cond{T: "cbg", G: 1}
	switch scope {
	case 1:
		return c15Signer{Acct: 5, Scopes: 64, Rules: []c15Rule{{true, g1}}}
	case 2:
		return c15Signer{Acct: 5, Scopes: 64, Rules: []c15Rule{{true, cbg1}}}
	case 3:
		return c15Signer{Acct: 5, Scopes: 64, Rules: []c15Rule{{true, &c15Cond{T: "not", C: g1}}}}
	case 4:
		return c15Signer{Acct: 5, Scopes: 64, Rules: []c15Rule{{true, &c15Cond{T: "not", C: cbg1}}}}
	}
	return c15Signer{Acct: 5, Scopes: 32, Groups: []int{1}}
}

func c15RunSelf(co *caseOut, in c15SelfIn) {
	s, err := c16SelfGet(in.Stage)
	if err != nil {
		co.violation("selfcw", "harness: "+err.Error(), in, nil)
		return
	}
	h, inGroup := s.HG, true
	if in.Helper == "HP" {
		h, inGroup = s.HP, false
	}
	wild := []manifest.Permission{*manifest.NewPermission(manifest.PermissionWildcard)}
	newMan := func() []byte {
		if inGroup {
			return s.newManifest(in.Helper, wild, nil)
		}
		return s.newManifest(in.Helper, wild, []*keys.PrivateKey{c16Key(0)})
	}
	acct := util.Uint160{5}
	n := &c15Names{hash: map[int]util.Uint160{0: {}, 1: h.Hash, 2: s.K.Hash, 5: acct}, group: map[int]*keys.PublicKey{1: c16Key(0).PublicKey(), 2: c16Key(1).PublicKey()}}
	sg := c15SelfSigner(in.Scope)
	var script []byte
	var x c15Ctx
	hv := acct
	switch in.Shape {
	case "self":
		x = c15Ctx{9, 1, true, true}
		script = c16Code(func(w *io.BinWriter) {
			switch in.Action {
			case "update":
				c16EmitCall(w, h.Hash, "u_cw", 15, newMan(), hv)
			case "destroy":
				c16EmitCall(w, h.Hash, "d_cw", 15, hv)
			default:
				c16EmitCall(w, h.Hash, "cw", 15, hv)
			}
		})
	case "callee":
		x = c15Ctx{1, 2, false, true}
		script = c16Code(func(w *io.BinWriter) {
			switch in.Action {
			case "update":
				c16EmitCall(w, h.Hash, "u_fwd", 15, newMan(), s.K.Hash, "cw", 15, []any{hv})
			case "destroy":
				c16EmitCall(w, h.Hash, "d_fwd", 15, s.K.Hash, "cw", 15, []any{hv})
			default:
				c16EmitCall(w, h.Hash, "fwd", 15, s.K.Hash, "cw", 15, []any{hv})
			}
		})
	default: // caller: K calls the helper (which changes itself and returns), then K checks the witness
		x = c15Ctx{9, 2, true, true}
		script = c16Code(func(w *io.BinWriter) {
			switch in.Action {
			case "update":
				c16EmitCall(w, s.K.Hash, "call_cw", 15, h.Hash, "u_fwd", 15, []any{newMan(), s.C.Hash, "a", 15, []any{}}, hv)
			case "destroy":
				c16EmitCall(w, s.K.Hash, "call_cw", 15, h.Hash, "d_fwd", 15, []any{s.C.Hash, "a", 15, []any{}}, hv)
			default:
				c16EmitCall(w, s.K.Hash, "call_cw", 15, h.Hash, "fwd", 15, []any{s.C.Hash, "a", 15, []any{}}, hv)
			}
		})
	}
	obs, ic := s.c.invoke(script, n.signers([]c15Signer{sg}), util.Uint160{}, 1, trigger.Application, callflag.All, false)
	res := -1
	if obs.State == "HALT" && ic.VM.Estack().Len() > 0 {
		if b, err := ic.VM.Estack().Peek(0).Item().TryBool(); err == nil {
			res = c15Code3(b, nil)
		}
	}
	if res < 0 {
		co.violation("selfcw", "harness: unexpected outcome: "+obs.State+" "+obs.Fault, in, obs)
		return
	}
	// the contract table AT THE MOMENT OF THE CHECK
	now := inGroup
	table := ""
	switch in.Action {
	case "update":
		now = !inGroup
	case "destroy":
		table = "[(2, [])]"
	}
	if table == "" {
		if now {
			table = "[(1, [1]); (2, [])]"
		} else {
			table = "[(1, []); (2, [])]"
		}
	}
	co.add("selfcw", fmt.Sprintf("stage%d/%s/%s/%s/res%d", in.Stage, in.Helper, in.Action, in.Shape, res), true, in, res,
		fmt.Sprintf("CLiveT %s %s 5 %d %d %s %s %d", table, c15CoqSigners([]c15Signer{sg}), x.cal, x.cur, coqBool(x.be), coqBool(x.rs), res))
}

// ---------- enumeration ----------

func c15Leaves() []*c15Cond {
	l := []*c15Cond{{T: "bool", B: true}, {T: "bool", B: false}, {T: "cbe"}}
	for _, h := range []int{1, 2, 3, 10, 9} {
		l = append(l, &c15Cond{T: "sh", H: h})
	}
	for _, h := range []int{0, 1, 2, 3, 10, 9} {
		l = append(l, &c15Cond{T: "cbc", H: h})
	}
	for _, g := range []int{1, 2} {
		l = append(l, &c15Cond{T: "g", G: g}, &c15Cond{T: "cbg", G: g})
	}
	return l
}

func c15Wrap(base []*c15Cond, pairs bool) []*c15Cond {
	var out []*c15Cond
	for _, c := range base {
		out = append(out, &c15Cond{T: "not", C: c}, &c15Cond{T: "and", L: []*c15Cond{c}}, &c15Cond{T: "or", L: []*c15Cond{c}})
	}
	if pairs {
		for _, a := range base {
			for _, b := range base {
				out = append(out, &c15Cond{T: "and", L: []*c15Cond{a, b}}, &c15Cond{T: "or", L: []*c15Cond{a, b}})
			}
		}
	}
	return out
}

func c15RandCond(r *rng, leaves []*c15Cond, depth int) *c15Cond {
	if depth <= 1 || r.chance(20) {
		return pick(r, leaves)
	}
	switch r.intn(5) {
	case 0, 1:
		return &c15Cond{T: "not", C: c15RandCond(r, leaves, depth-1)}
	default:
		n := 1 + r.intn(3)
		l := make([]*c15Cond, n)
		for i := range l {
			l[i] = c15RandCond(r, leaves, depth-1)
		}
		t := "and"
		if r.bool() {
			t = "or"
		}
		return &c15Cond{T: t, L: l}
	}
}

func c15Subsets(xs []int) [][]int {
	out := [][]int{}
	for m := 0; m < 1<<len(xs); m++ {
		s := []int{}
		for i, x := range xs {
			if m>>i&1 == 1 {
				s = append(s, x)
			}
		}
		out = append(out, s)
	}
	return out
}

// a fixed family of rule lists used by the exhaustive scope enumeration
func c15RuleFamily() [][]c15Rule {
	T, F := &c15Cond{T: "bool", B: true}, &c15Cond{T: "bool", B: false}
	cbe := &c15Cond{T: "cbe"}
	sh2 := &c15Cond{T: "sh", H: 2}
	g2 := &c15Cond{T: "g", G: 2}
	cbc1 := &c15Cond{T: "cbc", H: 1}
	cbg1 := &c15Cond{T: "cbg", G: 1}
	not := func(c *c15Cond) *c15Cond { return &c15Cond{T: "not", C: c} }
	and := func(l ...*c15Cond) *c15Cond { return &c15Cond{T: "and", L: l} }
	or := func(l ...*c15Cond) *c15Cond { return &c15Cond{T: "or", L: l} }
	return [][]c15Rule{
		{},
		{{true, T}},
		{{false, T}, {true, T}},
		{{true, F}, {false, cbe}, {true, T}},
		{{true, sh2}},
		{{false, sh2}, {true, cbe}},
		{{true, g2}},
		{{false, not(g2)}, {true, cbc1}},
		{{true, and(cbe, not(sh2))}, {false, T}},
		{{true, or(cbg1, sh2)}},
		{{false, and(not(cbe), or(cbc1, g2))}, {true, not(F)}},
		{{true, not(not(cbg1))}, {true, F}, {false, cbg1}},
	}
}

func runC15(cmd string, args []string) error {
	cf, fs := parseCommon(cmd, args)
	fs.Parse(args)
	co := newCaseOut(cf.out, "Harness.C15", "N",
		"cond: one condition tree evaluated by the real Match in all 98 call contexts; scope: one signer list evaluated by the real CheckHashedWitness in all 98 contexts; "+
			"a cond/scope case is non-trivial when both answers (granted / refused) occur among the contexts; live: CheckWitness inside deployed contracts, non-trivial when it did not fault; distinct by Coq term")
	co.shard = 600
	names := c15StubNames()
	real := c15NewReal()
	var live *c15Live
	getLive := func() (*c15Live, error) {
		if live == nil {
			var err error
			if live, err = c15NewLive(); err != nil {
				return nil, err
			}
		}
		return live, nil
	}
	defer func() {
		if live != nil {
			live.c.close()
		}
		if c16SelfInst != nil {
			c16SelfInst.c.close()
		}
	}()

	if cf.replay != "" {
		cases, err := readReplay(cf.replay)
		if err != nil {
			return err
		}
		for _, c := range cases {
			var x struct {
				Kind  string          `json:"kind"`
				Input json.RawMessage `json:"input"`
			}
			if err := json.Unmarshal(c, &x); err != nil {
				return err
			}
			switch x.Kind {
			case "cond":
				var in c15CondIn
				json.Unmarshal(x.Input, &in)
				c15RunCond(co, names, in)
			case "scope":
				var in c15ScopeIn
				json.Unmarshal(x.Input, &in)
				c15RunScope(co, real, in)
			case "conc":
				var in c15ConcIn
				json.Unmarshal(x.Input, &in)
				c15RunConc(co, in)
			case "selfcw":
				var in c15SelfIn
				json.Unmarshal(x.Input, &in)
				c15RunSelf(co, in)
			case "live":
				var in c15LiveIn
				json.Unmarshal(x.Input, &in)
				lv, err := getLive()
				if err != nil {
					return err
				}
				lv.run(co, in)
			default:
				return fmt.Errorf("unknown kind %q", x.Kind)
			}
		}
		return co.finish()
	}

	r := newRng(cf.seed)
	thorough := cf.tier == "thorough"
	leaves := c15Leaves()
	h2 := append(append([]*c15Cond{}, leaves...), c15Wrap(leaves, true)...)
	fam := c15RuleFamily()
	if cmd == "c15" {
		// every tree of height <= 2 (unary Not/And/Or and binary And/Or over the 16 leaves), and every unary wrapper of those
		if thorough { // in quick these trees go through the real path only (below)
			for _, c := range h2 {
				c15RunCond(co, names, c15CondIn{c})
			}
		}
		for _, c := range c15Wrap(h2, false) {
			c15RunCond(co, names, c15CondIn{c})
		}
		// signer configurations: every combination of the scope bits, and Global, x allowed contracts x allowed groups x the rule family
		scopes := []int{}
		for m := 0; m < 16; m++ {
			scopes = append(scopes, m&1|(m>>1&1)<<4|(m>>2&1)<<5|(m>>3&1)<<6)
		}
		scopes = append(scopes, 128) // Global cannot be combined with other bits in a decoded signer (signer.go DecodeBinary)
		for _, sc := range scopes {
			cs := [][]int{{}, {1, 2, 3}}
			if sc&16 != 0 {
				cs = c15Subsets([]int{1, 2, 3})
			}
			gs := [][]int{{}, {1, 2}}
			if sc&32 != 0 {
				gs = c15Subsets([]int{1, 2})
			}
			rs := [][]c15Rule{{}, fam[1]}
			if sc&64 != 0 {
				rs = fam
			}
			for _, c := range cs {
				for _, g := range gs {
					for _, rl := range rs {
						c15RunScope(co, real, c15ScopeIn{Ops: []c15Signer{{Acct: 5, Scopes: sc, Contracts: c, Groups: g, Rules: rl}}, H: 5})
					}
				}
			}
		}
		// ---- condition trees and rule lists through the REAL path: runtime.CheckHashedWitness with a Rules signer, so that
		// Match runs against the real scopeContext (GetCalling/CurrentScriptHash, Calling/CurrentScriptHasGroup,
		// IsCalledByEntry) on the constructed invocation stacks ----
		ruleCase := func(rules ...c15Rule) {
			c15RunScope(co, real, c15ScopeIn{Ops: []c15Signer{{Acct: 5, Scopes: 64, Rules: rules}}, H: 5})
		}
		// every tree of height <= 2 (binary And/Or in both operand orders) as a single Allow rule and as Deny-then-Allow-all
		T := &c15Cond{T: "bool", B: true}
		for _, c := range h2 {
			ruleCase(c15Rule{true, c})
			ruleCase(c15Rule{false, c}, c15Rule{true, T})
		}
		// every tree that mentions both a current-side and a calling-side group condition together with a third operand,
		// in all operand orders (a defect that lets one group lookup decide the other shows in some order)
		not := func(c *c15Cond) *c15Cond { return &c15Cond{T: "not", C: c} }
		var curSide, calSide []*c15Cond
		for _, g := range []int{1, 2} {
			curSide = append(curSide, &c15Cond{T: "g", G: g}, not(&c15Cond{T: "g", G: g}))
			calSide = append(calSide, &c15Cond{T: "cbg", G: g}, not(&c15Cond{T: "cbg", G: g}))
		}
		third := []*c15Cond{{T: "cbe"}, {T: "sh", H: 2}, {T: "cbc", H: 1}, T, {T: "bool", B: false}}
		orders := [][3]int{{0, 1, 2}, {0, 2, 1}, {1, 0, 2}, {1, 2, 0}, {2, 0, 1}, {2, 1, 0}}
		for _, op := range []string{"and", "or"} {
			for _, a := range curSide {
				for _, b := range calSide {
					for _, o := range [][2]*c15Cond{{a, b}, {b, a}} {
						ruleCase(c15Rule{true, not(&c15Cond{T: op, L: []*c15Cond{o[0], o[1]}})})
					}
					for _, c := range third {
						xs := [3]*c15Cond{a, b, c}
						for _, o := range orders {
							ruleCase(c15Rule{true, &c15Cond{T: op, L: []*c15Cond{xs[o[0]], xs[o[1]], xs[o[2]]}}})
						}
					}
				}
			}
		}
		// rule lists of length 2 and 3 with Allow/Deny over the group-relevant conditions: the lookups of one rule must
		// not influence the next 
		rs := []*c15Cond{{T: "g", G: 1}, {T: "g", G: 2}, {T: "cbg", G: 1}, {T: "cbg", G: 2}, not(&c15Cond{T: "g", G: 2}), not(&c15Cond{T: "cbg", G: 1}), {T: "cbe"}, T}
		var rl []c15Rule
		for _, c := range rs {
			rl = append(rl, c15Rule{true, c}, c15Rule{false, c})
		}
		for _, r1 := range rl {
			for _, r2 := range rl {
				ruleCase(r1, r2)
			}
		}
		for _, r1 := range rl {
			for _, r2 := range rl {
				for _, r3 := range rl {
					if !thorough { // quick: the lists that ask about both the current and the calling contract's groups
						cur, cal := false, false
						for _, x := range []c15Rule{r1, r2, r3} {
							t := x.Cond.T
							if t == "not" {
								t = x.Cond.C.T
							}
							cur = cur || t == "g"
							cal = cal || t == "cbg"
						}
						if !cur || !cal {
							continue
						}
					}
					ruleCase(r1, r2, r3)
				}
			}
		}
		if thorough { // the unary wrappers (height 3) through the real path too (quick: stub context only)
			for _, c := range c15Wrap(h2, false) {
				ruleCase(c15Rule{true, c})
			}
		}
		// the signer-list shapes: no signer; account absent; account = a contract (caller shortcut); duplicates (first wins)
		perm := c15Signer{Acct: 5, Scopes: 128}
		none := c15Signer{Acct: 5, Scopes: 0}
		cbe := c15Signer{Acct: 5, Scopes: 1}
		other := c15Signer{Acct: 4, Scopes: 128}
		for _, h := range []int{5, 6, 1, 2, 9, 0} {
			for _, l := range [][]c15Signer{{}, {other}, {perm}, {none, perm}, {perm, none}, {other, cbe, perm}, {cbe, other}, {{Acct: 1, Scopes: 0}}, {{Acct: 2, Scopes: 16, Contracts: []int{1}}}} {
				c15RunScope(co, real, c15ScopeIn{Ops: l, H: h})
			}
		}
		// two executions with different contract tables: #1 (a Rules signer with >= 2 conditions needing lookups) is parked
		// inside its k-th contract lookup while #2 runs completely
		{
			g := func(n int) *c15Cond { return &c15Cond{T: "g", G: n} }
			cbg := func(n int) *c15Cond { return &c15Cond{T: "cbg", G: n} }
			nt := func(c *c15Cond) *c15Cond { return &c15Cond{T: "not", C: c} }
			and := func(l ...*c15Cond) *c15Cond { return &c15Cond{T: "and", L: l} }
			or := func(l ...*c15Cond) *c15Cond { return &c15Cond{T: "or", L: l} }
			rules1 := [][]c15Rule{
				{{false, g(2)}, {true, g(1)}},
				{{false, cbg(1)}, {true, cbg(2)}},
				{{true, and(g(1), cbg(2))}},
				{{true, and(cbg(2), g(1))}},
				{{false, or(g(2), cbg(1))}, {true, &c15Cond{T: "cbe"}}},
				{{true, and(nt(g(2)), nt(cbg(1)), g(1))}},
				{{false, g(2)}, {false, cbg(1)}, {true, &c15Cond{T: "sh", H: 1}}},
				{{true, or(and(g(2), cbg(2)), and(g(1), nt(cbg(1))))}},
			}
			ops2 := [][]c15Signer{
				{{Acct: 5, Scopes: 64, Rules: []c15Rule{{false, g(2)}, {true, g(1)}}}},
				{{Acct: 5, Scopes: 64, Rules: []c15Rule{{true, and(cbg(1), nt(g(2)))}}}},
				{{Acct: 5, Scopes: 32, Groups: []int{1}}},
				{{Acct: 5, Scopes: 33, Groups: []int{2}}},
				{{Acct: 5, Scopes: 1}},
			}
			for _, rl := range rules1 {
				for _, withGroups := range []bool{false, true} {
					s1 := c15Signer{Acct: 5, Scopes: 64, Rules: rl}
					if withGroups { // the CustomGroups lookup comes first, then the rules
						s1.Scopes, s1.Groups = 96, []int{2}
					}
					for yield := 1; yield <= 3; yield++ {
						for i2, o2 := range ops2 {
							for c1 := 0; c1 < 3; c1++ {
								c15RunConc(co, c15ConcIn{Ops: []c15Signer{s1}, Yield: yield, Ctx1: c1, Ops2: o2, Ctx2: (c1 + i2 + 1) % len(c15ConcCtx)})
							}
						}
					}
				}
			}
		}
		// a contract updates / destroys itself and then the witness is checked, before and after Domovoi
		for stage := 0; stage <= 1; stage++ {
			for _, hp := range []string{"HG", "HP"} {
				for _, act := range []string{"none", "update", "destroy"} {
					for _, sh := range []string{"self", "callee", "caller"} {
						for sc := 0; sc < 5; sc++ {
							c15RunSelf(co, c15SelfIn{Stage: stage, Helper: hp, Action: act, Shape: sh, Scope: sc})
						}
					}
				}
			}
		}
		co.extra["exhaustive"] = true
		co.extra["x_universe"] = "conc: 8 rule lists (x with/without a CustomGroups lookup first) x yield point = 1st/2nd/3rd contract lookup x 5 scopes of the other execution x 3 call contexts, the two executions having swapped group tables; selfcw: {before, after Domovoi} x {contract in / not in the group} x {no change, update toggling the group, destroy} x {check by the contract itself, by a callee, by its caller afterwards} x {CustomGroups, Rules Group / CalledByGroup / Not Group / Not CalledByGroup}; " + "98 call contexts (entry; called-by-entry and deeper: current in 4 contracts x calling in {zero,4 contracts,entry} x ReadStates yes/no; the contracts' groups are {1},{1,2},{},{2}); " +
			"cond (stub context): all trees of height <= 2 over 19 leaves with Not and unary/binary And/Or, and all unary wrappers of those (height 3); " +
			"real path (CheckHashedWitness, Rules signer): all those trees of height <= 2 as Allow rule and as Deny rule followed by Allow-all; all And/Or of a current-side and a calling-side group condition (plain or negated) with a third operand in all 6 orders; all rule lists of length 2 over 16 group-relevant rules and all of length 3 that ask about both the current and the calling contract's groups; thorough: all lists of length 3, all unary wrappers (height 3) as Allow rule, and the height <= 2 trees through the stub context too; " +
			"scope: all 16 combinations of the scope bits + Global x allowed-contract subsets x allowed-group subsets x 12 rule lists; 54 signer-list shapes"
		return co.finish()
	}

	// ---- c15r: random ----
	for i := 0; i < cf.n*2; i++ {
		d := 3
		if r.chance(10) {
			d = 4 // deeper than the decoder admits; Match itself has no limit
		}
		c15RunCond(co, names, c15CondIn{c15RandCond(r, leaves, d)})
	}
	randSigner := func(acct int) c15Signer {
		sc := 0
		for _, b := range []int{1, 16, 32, 64} {
			if r.chance(45) {
				sc |= b
			}
		}
		if r.chance(8) {
			sc = 128
		}
		s := c15Signer{Acct: acct, Scopes: sc}
		s.Contracts = pick(r, c15Subsets([]int{1, 2, 3}))
		s.Groups = pick(r, c15Subsets([]int{1, 2}))
		nr := r.intn(4)
		for j := 0; j < nr; j++ {
			s.Rules = append(s.Rules, c15Rule{r.chance(60), c15RandCond(r, leaves, 3)})
		}
		return s
	}
	for i := 0; i < cf.n; i++ {
		var l []c15Signer
		for j := 0; j < 1+r.intn(3); j++ {
			l = append(l, randSigner(pick(r, []int{5, 5, 5, 4, 1, 6})))
		}
		c15RunScope(co, real, c15ScopeIn{Ops: l, H: pick(r, []int{5, 5, 5, 1, 2, 6})})
	}
	// live sample
	lv, err := getLive()
	if err != nil {
		return err
	}
	nl := cf.n
	if thorough {
		nl = cf.n * 2
	}
	shapes := []string{"entry", "direct", "direct", "deeper", "deeper", "deeper", "dyn", "dyn-entry", "native"}
	for i := 0; i < nl; i++ {
		in := c15LiveIn{Shape: pick(r, shapes), I: 1 + r.intn(3), J: 1 + r.intn(3), NoRS: r.chance(15)}
		in.H = pick(r, []int{5, 5, 5, 5, 6, 1, 2, 3})
		if in.Shape == "native" {
			in.NoRS = false
			in.Ops = []c15Signer{{Acct: 4, Scopes: 128}}
		}
		for j := 0; j < 1+r.intn(2); j++ {
			in.Ops = append(in.Ops, randSigner(pick(r, []int{5, 5, 5, 6})))
		}
		lv.run(co, in)
	}
	// a fixed systematic block on the live chain: every shape x simple scopes
	for _, sh := range []string{"entry", "direct", "deeper", "dyn", "dyn-entry", "native"} {
		for _, s := range []c15Signer{{Acct: 5, Scopes: 128}, {Acct: 5, Scopes: 1}, {Acct: 5, Scopes: 16, Contracts: []int{2}}, {Acct: 5, Scopes: 32, Groups: []int{2}},
			{Acct: 5, Scopes: 64, Rules: fam[7]}, {Acct: 5, Scopes: 64, Rules: fam[9]}, {Acct: 5, Scopes: 0}} {
			for i := 1; i <= 3; i++ {
				in := c15LiveIn{Shape: sh, I: i, J: 1 + i%3, H: 5, Ops: []c15Signer{s}}
				if sh == "native" {
					in.Ops = []c15Signer{{Acct: 4, Scopes: 128}, s}
				}
				lv.run(co, in)
			}
		}
	}
	co.extra["exhaustive"] = false
	return co.finish()
}
