package main

import (
	"fmt"
	"sort"
	"strings"

	"github.com/nspcc-dev/neo-go/pkg/core/mempool"
	"github.com/nspcc-dev/neo-go/pkg/core/transaction"
	"github.com/nspcc-dev/neo-go/pkg/neotest"
	"github.com/nspcc-dev/neo-go/pkg/util"
	"github.com/nspcc-dev/neo-go/pkg/vm/opcode"
)

// respects in which a transaction can be wrong (or, for conf-ok, unusual but valid)
var c07Respects = []string{"sysfee", "script", "expired", "notyet", "blocked", "toobig", "smallfee", "outofgas",
	"onchain", "conflict-onchain", "badsig", "wronghash", "attr-high", "attr-nvb", "attr-dupconf", "attr-conf-onchain",
	"conf-ok", "vub-max", "pool-insufficient", "pool-dup", "pool-conflict"}

type c07AdmitIn struct {
	Seed     uint64   `json:"seed"`
	Shape    [2]int   `json:"shape"`
	Respects []string `json:"respects"`
	Gov      *c07Gov  `json:"gov,omitempty"`
}

// c07Gov: limits the committee sets through the Policy contract before the probe (0 = left at the default)
type c07Gov struct {
	VubInc  uint32 `json:"vubinc,omitempty"`  // setMaxValidUntilBlockIncrement (config: 500)
	Fpb     int64  `json:"fpb,omitempty"`     // setFeePerByte (default 1000)
	ExecFee int64  `json:"execfee,omitempty"` // setExecFeeFactor, in picoGAS since Faun (default 300000 = 30 Datoshi)
	ConfFee int64  `json:"conffee,omitempty"` // setAttributeFee(Conflicts) (otherwise 50000)
}

func c07GenAdmit(r *rng) c07AdmitIn {
	in := c07AdmitIn{Seed: r.next()}
	if r.chance(50) {
		n := 1 + r.intn(4)
		in.Shape = [2]int{1 + r.intn(n), n}
	}
	if r.chance(40) {
		g := &c07Gov{}
		if r.chance(70) {
			g.VubInc = pick(r, []uint32{1, 3, 20, 499, 501, 600, 900})
		}
		if r.chance(60) {
			g.Fpb = pick(r, []int64{1, 200, 999, 1001, 3000})
		}
		if r.chance(50) {
			g.ExecFee = pick(r, []int64{1, 7, 9999, 10001, 123457, 299999, 300001, 600000, 1000000})
		}
		if r.chance(50) {
			g.ConfFee = pick(r, []int64{1, 777, 49999, 50001, 400000})
		}
		in.Gov = g
	}
	if r.chance(8) && in.Gov == nil {
		return in // fully valid
	}
	p := pick(r, c07Respects)
	in.Respects = []string{p}
	if r.chance(45) {
		var q string
		switch {
		case p == "onchain":
			q = "expired"
		case strings.HasPrefix(p, "pool-"):
			q = pick(r, []string{"expired", "script", "smallfee", "badsig", "attr-high", "blocked", "outofgas"})
		default:
			for tries := 0; tries < 10; tries++ {
				q = pick(r, c07Respects)
				if q != p && q != "onchain" && !(strings.HasPrefix(q, "pool-")) && !(p == "smallfee" && q == "outofgas") && !(p == "outofgas" && q == "smallfee") {
					break
				}
				q = ""
			}
		}
		if q != "" && q != p {
			in.Respects = append(in.Respects, q)
		}
	}
	// probe the limit that was just changed
	if g := in.Gov; g != nil {
		hasR := func(x string) bool {
			for _, y := range in.Respects {
				if y == x {
					return true
				}
			}
			return false
		}
		add := func(x string) {
			if !hasR(x) && !hasR("onchain") && len(in.Respects) < 3 {
				in.Respects = append(in.Respects, x)
			}
		}
		if g.VubInc != 0 && r.chance(60) && !hasR("expired") && !hasR("notyet") && !hasR("vub-max") {
			add(pick(r, []string{"notyet", "vub-max"}))
		}
		if g.Fpb != 0 && r.chance(35) && !hasR("outofgas") {
			add("smallfee")
		}
		if g.ExecFee != 0 && r.chance(45) {
			// the probe ALONE (with another defect the transaction is refused for that reason and the threshold is not seen)
			in.Respects = []string{"outofgas"}
			if r.chance(30) {
				in.Respects = append(in.Respects, "conf-ok")
			}
		}
		if g.ConfFee != 0 && r.chance(50) {
			add("conf-ok")
		}
	}
	sort.Strings(in.Respects)
	return in
}

const c07ConflictsFee = 50000

// c07Defective: does the list of respects contain a real defect (conf-ok and vub-max are unusual but valid)
func c07Defective(rs []string) bool {
	for _, x := range rs {
		if x != "conf-ok" && x != "vub-max" {
			return true
		}
	}
	return false
}

func c07RunAdmit(co *caseOut, in c07AdmitIn) {
	has := map[string]bool{}
	for _, x := range in.Respects {
		has[x] = true
		c07Seen[x]++
	}
	r := newRng(in.Seed)
	c := c07NewChain(c07Cfg{})
	defer c.close()
	t := c.t
	sender := c07MakeAcct(r, in.Shape[0], in.Shape[1])
	blocked := c07MakeAcct(r, 0, 0)
	other := c07MakeAcct(r, 0, 0)
	c.fund(1000_0000_0000, sender, other)
	// a price on Conflicts attributes and a blocked account (one block)
	pol := c.e.CommitteeInvoker(c.policy)
	// the limits as the committee sets them now: from here on these values (known by construction), not the node's
	// getters, parametrise the expected behaviour
	confFee, fpb, maxInc, base := int64(c07ConflictsFee), int64(1000), c.bc.GetConfig().MaxValidUntilBlockIncrement, int64(30)*10000
	gov := in.Gov
	if gov == nil {
		gov = &c07Gov{}
	}
	if gov.ConfFee != 0 {
		confFee = gov.ConfFee
	}
	prelude := []*transaction.Transaction{
		pol.PrepareInvoke(t, "setAttributeFee", int64(transaction.ConflictsT), confFee),
		pol.PrepareInvoke(t, "blockAccount", blocked.hash()),
	}
	if gov.VubInc != 0 {
		maxInc = gov.VubInc
		prelude = append(prelude, pol.PrepareInvoke(t, "setMaxValidUntilBlockIncrement", int64(maxInc)))
	}
	if gov.Fpb != 0 {
		fpb = gov.Fpb
		prelude = append(prelude, pol.PrepareInvoke(t, "setFeePerByte", fpb))
	}
	if gov.ExecFee != 0 {
		base = gov.ExecFee
		prelude = append(prelude, pol.PrepareInvoke(t, "setExecFeeFactor", gov.ExecFee))
	}
	setup := c.addBlock(prelude...)
	for _, ptx := range prelude {
		c.e.CheckHalt(t, ptx.Hash())
	}
	c.baseOverride = base
	if c.bc.FeePerByte() != fpb || c.bc.GetMaxValidUntilBlockIncrement() != maxInc || c.bc.GetBaseExecFee() != base {
		co.violation("admit", fmt.Sprintf("the node reports fee per byte %d, MaxValidUntilBlockIncrement %d, base exec fee %d; the Policy contract was set to %d, %d, %d",
			c.bc.FeePerByte(), c.bc.GetMaxValidUntilBlockIncrement(), c.bc.GetBaseExecFee(), fpb, maxInc, base), in, nil)
		return
	}

	// A transaction that is put on chain first (respect onchain) has to be valid when its block is made at the
	// current height: ValidUntilBlock <= height + the GOVERNED increment. With an increment of 1 that is the height of
	// its own block, so at the later submission it has necessarily expired as well: the case is onchain+expired then
	// (the facts for the model are read from the transaction itself, so the expectation follows).
	if has["onchain"] && maxInc < 2 {
		has["expired"] = true
	}
	spec := c07TxSpec{signers: []*c07Acct{sender}, script: c07PushOne, sysfee: 100_0000}
	// how many blocks will still be added before the submission
	pending := uint32(0)
	if has["conflict-onchain"] || has["onchain"] {
		pending = 1
	}
	hSubmit := c.bc.BlockHeight() + pending
	spec.vub = hSubmit + 1
	scriptOK, attrsOK := true, true
	if has["sysfee"] {
		spec.sysfee = c.bc.GetConfig().MaxBlockSystemFee + 1
	}
	if has["script"] {
		spec.script = []byte{byte(opcode.PUSHDATA1), 5, 1}
		scriptOK = false
	}
	if has["toobig"] {
		spec.script = make([]byte, transaction.MaxTransactionSize+1)
		for i := range spec.script {
			spec.script[i] = byte(opcode.NOP)
		}
		if has["script"] {
			spec.script[len(spec.script)-1] = byte(opcode.PUSHDATA1)
		}
	}
	if has["expired"] {
		spec.vub = hSubmit
	}
	if has["notyet"] {
		spec.vub = hSubmit + maxInc + 1
	}
	if has["vub-max"] && !has["expired"] && !has["notyet"] && !has["onchain"] {
		spec.vub = hSubmit + maxInc // the last admissible value
	}
	if has["onchain"] && has["expired"] {
		spec.vub = hSubmit // valid when included at hSubmit, expired afterwards
	}
	if has["blocked"] {
		spec.signers = append(spec.signers, blocked)
	}
	nconf := 0
	if has["attr-high"] {
		spec.attrs = append(spec.attrs, transaction.Attribute{Type: transaction.HighPriority})
		attrsOK = false
	}
	if has["attr-nvb"] {
		spec.attrs = append(spec.attrs, transaction.Attribute{Type: transaction.NotValidBeforeT, Value: &transaction.NotValidBefore{Height: hSubmit + 5}})
		attrsOK = false
	}
	if has["attr-dupconf"] {
		h := util.Uint256{0xD0, 0x0D}
		for k := 0; k < 2; k++ {
			spec.attrs = append(spec.attrs, transaction.Attribute{Type: transaction.ConflictsT, Value: &transaction.Conflicts{Hash: h}})
		}
		nconf += 2
		attrsOK = false
	}
	if has["attr-conf-onchain"] {
		spec.attrs = append(spec.attrs, transaction.Attribute{Type: transaction.ConflictsT, Value: &transaction.Conflicts{Hash: setup.Transactions[0].Hash()}})
		nconf++
		attrsOK = false
	}
	if has["conf-ok"] {
		spec.attrs = append(spec.attrs, transaction.Attribute{Type: transaction.ConflictsT, Value: &transaction.Conflicts{Hash: util.Uint256{0xC0, 0x0F}}})
		nconf++
	}
	// a poor sender
	if has["pool-insufficient"] {
		poor := c07MakeAcct(r, in.Shape[0], in.Shape[1])
		c.fund(50_0000, poor) // less than the system fee alone
		spec.signers[0] = poor
		hSubmit = c.bc.BlockHeight() + pending
		if !has["expired"] && !has["notyet"] {
			spec.vub = hSubmit + 1
		} else if has["expired"] {
			spec.vub = hSubmit
		} else {
			spec.vub = hSubmit + maxInc + 1
		}
	}
	attrFee := int64(nconf) * confFee * int64(len(spec.signers))
	delta := int64(0)
	spec.netfee = func(size int, calc int64) int64 {
		switch {
		case has["smallfee"]:
			return int64(size)*fpb + attrFee - 1
		case has["outofgas"]:
			return int64(size)*fpb + attrFee + calc - 1
		}
		return int64(size)*fpb + attrFee + calc + delta
	}
	hashOK, sigOK := true, true
	if has["badsig"] || has["wronghash"] {
		bs, wh := has["badsig"], has["wronghash"]
		spec.mutate = func(tx *transaction.Transaction) {
			if wh {
				// the other account's (valid) witness in place of the sender's
				tmp := *tx
				tmp.Scripts = nil
				tmp.Signers = []transaction.Signer{{Account: other.hash()}}
				if err := other.signer.SignTx(c.bc.GetConfig().Magic, &tmp); err != nil {
					panic(err)
				}
				tx.Scripts[0] = tmp.Scripts[0]
			}
			if bs {
				inv := append([]byte{}, tx.Scripts[0].InvocationScript...)
				inv[len(inv)-1] ^= 0x55
				tx.Scripts[0].InvocationScript = inv
			}
		}
		hashOK, sigOK = !wh, !bs && !wh
	}
	mp := mempool.New(50, false, nil)
	var pre []*transaction.Transaction
	// a tight balance and an earlier transaction of the same sender in the pool
	if has["pool-conflict"] {
		tight := c07MakeAcct(r, in.Shape[0], in.Shape[1])
		spec.signers[0] = tight
		spec2 := c07TxSpec{signers: []*c07Acct{tight}, script: c07PushOne, sysfee: 100_0000, vub: hSubmit + 1,
			netfee: func(size int, calc int64) int64 { return int64(size)*fpb + calc }}
		probe, _ := c.build(spec)
		probe2, _ := c.build(spec2)
		// enough for either transaction alone, one Datoshi short of both
		c.fund(probe.SystemFee+probe.NetworkFee+probe2.SystemFee+probe2.NetworkFee-1, tight)
		hSubmit = c.bc.BlockHeight() + pending
		spec2.vub = hSubmit + 1
		first, _ := c.build(spec2)
		if err := c.bc.PoolTx(first, mp); err != nil {
			panic(c07Fail{"the first transaction of the tight sender was refused: " + err.Error()})
		}
		pre = append(pre, first)
		if has["expired"] {
			spec.vub = hSubmit
		} else if has["notyet"] {
			spec.vub = hSubmit + maxInc + 1
		} else {
			spec.vub = hSubmit + 1
		}
	}
	tx, _ := c.build(spec)
	onChain, conflictOnChain := false, false
	if has["conflict-onchain"] {
		// an on-chain transaction co-signed by the sender names tx's hash
		x := c.e.NewUnsignedTx(t, c.gas, "symbol")
		x.Attributes = []transaction.Attribute{{Type: transaction.ConflictsT, Value: &transaction.Conflicts{Hash: tx.Hash()}}}
		x = c.e.SignTx(t, x, 1000_0000, c.val, spec.signers[0].signer)
		c.addBlock(x)
		conflictOnChain = true
	}
	if has["onchain"] {
		c.addBlock(tx)
		onChain = true
	}
	if has["pool-dup"] {
		// the duplicate needs a valid first submission; only meaningful when nothing else is wrong
		if err := c.bc.PoolTx(tx, mp); err == nil {
			pre = append(pre, tx)
		}
	}
	err := c.bc.PoolTx(tx, mp)
	cls, name := c07Class(err)

	// ---- the case for Coq: facts known by construction ----
	var ws []string
	for i, a := range spec.signers {
		h, s := true, true
		if i == 0 {
			h, s = hashOK, sigOK
		}
		ws = append(ws, fmt.Sprintf("(%s,%s,%s)", a.coqShape(), coqBool(h), coqBool(s)))
	}
	mkTx := func(id int, x *transaction.Transaction) string {
		sg := make([]int, len(x.Signers))
		for i := range sg {
			sg[i] = 2 + i
		}
		var cf []int
		for k := range x.GetAttributes(transaction.ConflictsT) {
			cf = append(cf, 1000+k) // foreign hashes: none of them is in the private pool
		}
		if has["attr-dupconf"] && len(cf) >= 2 {
			cf[1] = cf[0]
		}
		return fmt.Sprintf("mkTx %d %s %d %d %d %s %s None", id, c08Ints(sg), x.SystemFee, x.NetworkFee, x.Size(),
			coqBool(x.HasAttribute(transaction.HighPriority)), c08Ints(cf))
	}
	var preT []string
	xid := 0
	for i, p := range pre {
		if p == tx {
			preT = append(preT, mkTx(0, p))
		} else {
			preT = append(preT, mkTx(1+i, p))
		}
	}
	bal := c.bc.GetUtilityTokenBalance(spec.signers[0].hash(), util.Uint160{})
	chainT := fmt.Sprintf("(mkChain %d %d %d %d %d)", c.bc.BlockHeight(), maxInc, fpb,
		c.bc.GetConfig().MaxBlockSystemFee, c.bc.GetMaxVerificationGAS())
	factsT := fmt.Sprintf("(mkFacts %s %d %d %d %d %d %s %s %s [] %s)", coqBool(scriptOK), tx.ValidUntilBlock, tx.Size(), tx.SystemFee,
		tx.NetworkFee, attrFee, coqBool(!has["blocked"]), coqBool(onChain), coqBool(conflictOnChain), coqBool(attrsOK))
	implT := "None"
	if err != nil {
		implT = fmt.Sprintf("(Some %d)", cls)
	}
	term := fmt.Sprintf("CAdmit %d %s %s %s %s (%s) [((2,0),%s)] %s", base, chainT, factsT, coqList(ws), coqList(preT), mkTx(xid, tx), bal.String(), implT)
	impl := map[string]any{"class": name, "size": tx.Size(), "netfee": tx.NetworkFee, "sysfee": tx.SystemFee, "vub": tx.ValidUntilBlock,
		"height": c.bc.BlockHeight(), "balance": bal.String(), "pooled": mp.Count()}
	tag := strings.Join(in.Respects, "+")
	if tag == "" {
		tag = "valid"
	}
	if cls == 99 {
		co.violation("admit", "PoolTx returned an error outside the modelled classes: "+name, in, impl)
		return
	}
	co.add("admit", tag, c07Defective(in.Respects), in, impl, term)
	// direct: pooled exactly when accepted; a refusal leaves the private pool as it was
	want := len(pre)
	if err == nil {
		want++
	}
	if mp.Count() != want {
		co.violation("admit", fmt.Sprintf("the pool holds %d transactions after the submission, expected %d (%s)", mp.Count(), want, name), in, impl)
	}
	if err == nil && c07Defective(in.Respects) {
		co.violation("admit", "a transaction defective in "+tag+" was admitted", in, impl)
	}
	if err != nil && !c07Defective(in.Respects) {
		co.violation("admit", "a valid transaction was refused: "+err.Error(), in, impl)
	}
	_ = neotest.Nonce
}
