package main

// C02 — a crash at any flush boundary leaves a consistent, resumable chain prefix.
// Exhaustive fault enumeration per history: a recording storage.Store sits under the real
// Blockchain and logs every atomic batch (PutChangeSet / SeekGC commit) the node issues; for
// EVERY prefix of that batch sequence a store holding exactly that prefix is materialised, a
// Blockchain is opened on it and compared with a reference replica.

import (
	"bytes"
	"encoding/binary"
	"encoding/json"
	"fmt"
	"os"
	"path/filepath"
	"sort"
	"strings"
	"sync"
	"testing"
	"time"

	"github.com/nspcc-dev/neo-go/pkg/config"
	"github.com/nspcc-dev/neo-go/pkg/core"
	"github.com/nspcc-dev/neo-go/pkg/core/block"
	"github.com/nspcc-dev/neo-go/pkg/core/native/nativenames"
	"github.com/nspcc-dev/neo-go/pkg/core/storage"
	"github.com/nspcc-dev/neo-go/pkg/core/storage/dbconfig"
	"github.com/nspcc-dev/neo-go/pkg/core/transaction"
	"github.com/nspcc-dev/neo-go/pkg/crypto/keys"
	"github.com/nspcc-dev/neo-go/pkg/neotest"
	"github.com/nspcc-dev/neo-go/pkg/neotest/chain"
	"github.com/nspcc-dev/neo-go/pkg/util"
	"github.com/nspcc-dev/neo-go/pkg/vm/opcode"
	"github.com/nspcc-dev/neo-go/pkg/wallet"
	"go.uber.org/zap"
	"go.uber.org/zap/zapcore"
)

// ---------------------------------------------------------------------------------------------
// testing.TB stand-in for neotest (the private method of testing.TB is promoted from the embedded
// nil interface; every method neotest/require actually calls is overridden here).

type c02T struct {
	testing.TB
	cleanups []func()
}

type c02Fail struct{ msg string }

func (t *c02T) Helper()                           {}
func (t *c02T) Name() string                      { return "nghx" }
func (t *c02T) Logf(string, ...any)               {}
func (t *c02T) Log(...any)                        {}
func (t *c02T) Errorf(f string, a ...any)         { panic(c02Fail{fmt.Sprintf(f, a...)}) }
func (t *c02T) Error(a ...any)                    { panic(c02Fail{fmt.Sprint(a...)}) }
func (t *c02T) Fatalf(f string, a ...any)         { panic(c02Fail{fmt.Sprintf(f, a...)}) }
func (t *c02T) Fatal(a ...any)                    { panic(c02Fail{fmt.Sprint(a...)}) }
func (t *c02T) FailNow()                          { panic(c02Fail{"FailNow"}) }
func (t *c02T) Fail()                             { panic(c02Fail{"Fail"}) }
func (t *c02T) Failed() bool                      { return false }
func (t *c02T) Cleanup(f func())                  { t.cleanups = append(t.cleanups, f) }
func (t *c02T) TempDir() string                   { d, _ := os.MkdirTemp("", "nghx-c02-"); return d }
func (t *c02T) Setenv(string, string)             {}
func (t *c02T) Skip(...any)                       {}
func (t *c02T) SkipNow()                          {}
func (t *c02T) Skipf(string, ...any)              {}
func (t *c02T) Skipped() bool                     { return false }
func (t *c02T) runCleanups() {
	for i := len(t.cleanups) - 1; i >= 0; i-- {
		t.cleanups[i]()
	}
	t.cleanups = nil
}

// c02Try runs f and returns the failure text of a failed require / a panic ("" when fine).
func c02Try(f func()) (msg string) {
	defer func() {
		if r := recover(); r != nil {
			if cf, ok := r.(c02Fail); ok {
				msg = "require: " + cf.msg
			} else {
				msg = fmt.Sprintf("panic: %v", r)
			}
		}
	}()
	f()
	return ""
}

// ---------------------------------------------------------------------------------------------
// chain configuration

type c02Cfg struct {
	SRIH    bool   `json:"srih"`    // StateRootInHeader
	GC      bool   `json:"gc"`      // RemoveUntraceableBlocks (+ small MaxTraceableBlocks and GC period)
	Backend string `json:"backend"` // mem | leveldb | bolt
	P2PSX   bool   `json:"p2psx,omitempty"` // P2PStateExchangeExtensions (state jump scenario)
	NeoFS   bool   `json:"neofs,omitempty"` // NeoFSStateSyncExtensions: contract-storage-based state synchronisation
	KOLS    bool   `json:"kols,omitempty"`  // KeepOnlyLatestState
	Trusted uint32 `json:"trusted,omitempty"` // TrustedHeader index (hash taken from the source chain)
	NoVerify bool  `json:"noverify,omitempty"` // VerifyTransactions off
	Race     bool  `json:"race,omitempty"`     // a second goroutine flushes continuously during synchronisation (batch boundaries between single Puts)
	Step     bool   `json:"step,omitempty"`    // state jump: the block additions of the synchronisation run under c02StepCache (a virtual flush before every write to the shared cache)
	MTB      uint32 `json:"mtb,omitempty"`     // MaxTraceableBlocks (without RemoveUntraceableBlocks), MaxValidUntilBlockIncrement 3
	Slow     bool  `json:"slow,omitempty"`     // with Race: slow-store mode (c02gate.go) - a write is let through only when every node goroutine is parked, so each flush stays in flight while the synchronising goroutine runs ahead
}

const (
	c02MTB = 6 // MaxTraceableBlocks in GC configurations
	c02GCP = 2 // GarbageCollectionPeriod
	c02SSI = 4 // StateSyncInterval
)

func (c c02Cfg) hook(b *config.Blockchain) {
	b.StateRootInHeader = c.SRIH
	if c.GC || c.P2PSX || c.NeoFS {
		b.MaxTraceableBlocks = c02MTB
		b.MaxValidUntilBlockIncrement = c02MTB / 2
	}
	if c.MTB > 0 {
		b.MaxTraceableBlocks = c.MTB
		b.MaxValidUntilBlockIncrement = 3
	}
	if c.GC {
		b.Ledger.RemoveUntraceableBlocks = true
		b.Ledger.GarbageCollectionPeriod = c02GCP
	}
	if c.P2PSX {
		b.P2PStateExchangeExtensions = true
		b.StateSyncInterval = c02SSI
	}
	if c.NeoFS {
		b.NeoFSStateSyncExtensions = true
		b.NeoFSStateFetcher.Enabled = true
		b.NeoFSBlockFetcher.Enabled = true
		b.StateSyncInterval = c02SSI
	}
	b.Ledger.KeepOnlyLatestState = c.KOLS
	if c.NoVerify {
		b.VerifyTransactions = false
	}
}

// the node's logger: silent, except that a Fatal entry is printed and turned into a panic (zap's default
// would end the whole harness process with exit status 1 and no message)
var c02Nop = zap.New(zapcore.NewCore(zapcore.NewConsoleEncoder(zap.NewDevelopmentEncoderConfig()), zapcore.AddSync(os.Stderr), zap.FatalLevel),
	zap.WithFatalHook(zapcore.WriteThenPanic))

// c02Open opens a Blockchain on st. It never lets a panic escape.
func c02Open(st storage.Store, cfg c02Cfg, extra func(*config.Blockchain)) (bc *core.Blockchain, sg neotest.Signer, fail string) {
	t := &c02T{}
	fail = c02Try(func() {
		bc, sg = chain.NewSingleWithOptions(t, &chain.Options{
			Logger: c02Nop,
			BlockchainConfigHook: func(b *config.Blockchain) {
				cfg.hook(b)
				if extra != nil {
					extra(b)
				}
			},
			Store:   st,
			SkipRun: true,
		})
	})
	return
}

// ---------------------------------------------------------------------------------------------
// recording store

type c02Batch struct {
	Kind   string            // "put" | "gc"
	Mem    map[string][]byte // nil value = delete
	Stor   map[string][]byte
	Height uint32 // block height of the node (RAM) at commit time
	HdrH   uint32
	Who    string // slow-store mode: "D" = issued by the goroutine that runs the operation (direct), "B" = by another goroutine
}

type c02Rec struct {
	base    storage.Store
	mu      sync.Mutex
	batches []c02Batch
	node    func() (uint32, uint32)
	onBatch func(i int)
	closed  bool
	// slowRead delays every read that reaches the base store. Reset flushes its stages from a helper
	// goroutine while the main goroutine already prepares the next stage; two stages are merged into one
	// batch when the helper has not yet started. Every stage reads from the base store, so a delay here
	// lets the helper start first and the finest batch sequence (all logical boundaries) is observed.
	slowRead time.Duration
	// gate (slow-store mode, c02gate.go): every write waits until the harness lets it through
	gate *c02Gate
	// torn: durable states of the backend, seen while it applied a flush of the node, that hold a part of it (c02backend.go)
	torn []c02TornFlush
}

// c02TornFlush: the database after backend commit Seq (of Of) of the flush that became batch NB: batches [0, NB) and a part of batch NB
type c02TornFlush struct {
	NB, Seq, Of int
	State       c02CSState
	Dump        map[string][]byte
	Height      uint32
}

var (
	c02InfraErr        error
	c02ObservedFlushes int
)

func c02IsStor(k string) bool {
	return len(k) > 0 && (k[0] == byte(storage.STStorage) || k[0] == byte(storage.STTempStorage))
}

func c02CopyMap(m map[string][]byte) map[string][]byte {
	r := make(map[string][]byte, len(m))
	for k, v := range m {
		if v == nil {
			r[k] = nil
		} else {
			r[k] = bytes.Clone(v)
		}
	}
	return r
}

func (s *c02Rec) heights() (uint32, uint32) {
	if s.node == nil {
		return 0, 0
	}
	return s.node()
}

func (s *c02Rec) Get(k []byte) ([]byte, error) {
	if s.slowRead > 0 {
		time.Sleep(s.slowRead)
	}
	return s.base.Get(k)
}
func (s *c02Rec) Seek(r storage.SeekRange, f func(k, v []byte) bool) {
	if s.slowRead > 0 {
		time.Sleep(s.slowRead)
	}
	s.base.Seek(r, f)
}
func (s *c02Rec) PutChangeSet(puts map[string][]byte, stor map[string][]byte) error {
	who := ""
	if g := s.gate; g != nil {
		w, leave := g.enter("put")
		defer leave()
		who = w
	}
	s.mu.Lock()
	defer s.mu.Unlock()
	h, hh := s.heights()
	b := c02Batch{Kind: "put", Mem: c02CopyMap(puts), Stor: c02CopyMap(stor), Height: h, HdrH: hh, Who: who}
	var err error
	if s.gate == nil {
		// a persistent backend: every durable state the backend goes through while it applies this change set
		var obs *c02PutObs
		obs, err = c02ObservedPut(s.base, puts, stor)
		if err != nil && strings.HasPrefix(err.Error(), "infrastructure:") && c02InfraErr == nil {
			c02InfraErr = err
		}
		if obs != nil {
			c02ObservedFlushes++
			for _, d := range obs.torn() {
				t := c02TornFlush{NB: len(s.batches), Seq: d.Seq, Of: obs.Commits, State: d.State, Dump: d.Dump, Height: h}
				if d.File != "" {
					if img, ierr := c02OpenBolt(d.File); ierr == nil {
						t.Dump = c02Dump(img)
						img.Close()
					}
				}
				s.torn = append(s.torn, t)
			}
			obs.dropImages()
		}
	} else {
		err = s.base.PutChangeSet(puts, stor)
	}
	if err == nil {
		s.batches = append(s.batches, b)
		if s.onBatch != nil {
			s.onBatch(len(s.batches) - 1)
		}
	}
	return err
}
func (s *c02Rec) SeekGC(r storage.SeekRange, keepCont func(k, v []byte) (bool, bool)) error {
	who := ""
	if g := s.gate; g != nil {
		w, leave := g.enter("gc")
		defer leave()
		who = w
	}
	s.mu.Lock()
	defer s.mu.Unlock()
	if s.slowRead > 0 {
		time.Sleep(s.slowRead)
	}
	h, hh := s.heights()
	b := c02Batch{Kind: "gc", Mem: map[string][]byte{}, Stor: map[string][]byte{}, Height: h, HdrH: hh, Who: who}
	err := s.base.SeekGC(r, func(k, v []byte) (bool, bool) {
		keep, cont := keepCont(k, v)
		if !keep {
			if c02IsStor(string(k)) {
				b.Stor[string(k)] = nil
			} else {
				b.Mem[string(k)] = nil
			}
		}
		return keep, cont
	})
	if err == nil && len(b.Mem)+len(b.Stor) > 0 {
		s.batches = append(s.batches, b)
		if s.onBatch != nil {
			s.onBatch(len(s.batches) - 1)
		}
	}
	return err
}
func (s *c02Rec) Close() error { s.closed = true; return nil } // the harness owns the base store

// ---------------------------------------------------------------------------------------------
// backends and materialisation of batch prefixes

type c02Store struct {
	st  storage.Store
	dir string
}

func c02NewStore(kind string) (*c02Store, error) {
	switch kind {
	case "", "mem":
		return &c02Store{st: storage.NewMemoryStore()}, nil
	case "leveldb":
		d, err := os.MkdirTemp(c02TmpRoot(), "c02-ldb-")
		if err != nil {
			return nil, err
		}
		st, err := storage.NewLevelDBStore(dbconfig.LevelDBOptions{DataDirectoryPath: d})
		return &c02Store{st: st, dir: d}, err
	case "bolt":
		d, err := os.MkdirTemp(c02TmpRoot(), "c02-bolt-")
		if err != nil {
			return nil, err
		}
		st, err := c02OpenBolt(filepath.Join(d, "db.bolt")) // reports its commits to the harness (c02backend.go)
		if err != nil {
			return &c02Store{dir: d}, err
		}
		return &c02Store{st: st, dir: d}, nil
	}
	return nil, fmt.Errorf("unknown backend %q", kind)
}

func c02TmpRoot() string {
	if fi, err := os.Stat("/dev/shm"); err == nil && fi.IsDir() {
		return "/dev/shm"
	}
	return ""
}

func (s *c02Store) destroy() {
	if s.st != nil {
		_ = c02Try(func() { s.st.Close() })
	}
	if s.dir != "" {
		os.RemoveAll(s.dir)
	}
}

func c02Apply(st storage.Store, bs []c02Batch) error {
	for _, b := range bs {
		if err := st.PutChangeSet(c02CopyMap(b.Mem), c02CopyMap(b.Stor)); err != nil {
			return err
		}
	}
	return nil
}

// c02Dump returns the whole content of a store (MemoryStore keeps tombstones: skipped by Seek).
func c02Dump(st storage.Store) map[string][]byte {
	out := map[string][]byte{}
	for p := 0; p < 256; p++ {
		st.Seek(storage.SeekRange{Prefix: []byte{byte(p)}}, func(k, v []byte) bool {
			out[string(k)] = bytes.Clone(v)
			return true
		})
	}
	return out
}

// noClose wraps a store so that Blockchain.Close does not wipe/close it.
type c02NoClose struct{ storage.Store }

func (c02NoClose) Close() error { return nil }

// ---------------------------------------------------------------------------------------------
// history: transactions and blocks built on a source chain which is also the reference replica

type c02Tx struct {
	K    string `json:"k"`              // gas | neo | fee | abort | vote | reg
	From int    `json:"from,omitempty"` // account index, -1 = validator/committee
	To   int    `json:"to,omitempty"`
	Amt  int64  `json:"amt,omitempty"`
}

type c02History struct {
	Cfg    c02Cfg    `json:"cfg"`
	Blocks [][]c02Tx `json:"blocks"` // block i+1 carries Blocks[i]
}

const c02NAcc = 4

func c02Accounts() []neotest.Signer {
	accs := make([]neotest.Signer, c02NAcc)
	for i := range accs {
		b := make([]byte, 32)
		b[0] = 0x17
		b[31] = byte(i + 1)
		pk, err := keys.NewPrivateKeyFromBytes(b)
		if err != nil {
			panic(err)
		}
		accs[i] = neotest.NewSingleSigner(wallet.NewAccountFromPrivateKey(pk))
	}
	return accs
}

func c02GenHistory(r *rng, cfg c02Cfg, nblocks int) c02History {
	h := c02History{Cfg: cfg}
	for i := 0; i < nblocks; i++ {
		var txs []c02Tx
		switch {
		case i == 0: // fund everybody
			for a := 0; a < c02NAcc; a++ {
				txs = append(txs, c02Tx{K: "gas", From: -1, To: a, Amt: 2000_0000_0000})
			}
			txs = append(txs, c02Tx{K: "neo", From: -1, To: 0, Amt: 1000}, c02Tx{K: "neo", From: -1, To: 1, Amt: 500})
		default:
			n := r.intn(4)
			if r.chance(15) {
				n = 0
			}
			for j := 0; j < n; j++ {
				switch r.intn(10) {
				case 0, 1, 2:
					txs = append(txs, c02Tx{K: "gas", From: r.intn(c02NAcc), To: r.intn(c02NAcc), Amt: int64(1 + r.intn(1000))})
				case 3, 4:
					txs = append(txs, c02Tx{K: "neo", From: r.intn(2), To: r.intn(c02NAcc), Amt: int64(1 + r.intn(20))})
				case 5:
					txs = append(txs, c02Tx{K: "neo", From: -1, To: r.intn(c02NAcc), Amt: int64(1 + r.intn(50))})
				case 6:
					txs = append(txs, c02Tx{K: "fee", From: -1, Amt: int64(1000 + r.intn(200))})
				case 7:
					txs = append(txs, c02Tx{K: "abort", From: r.intn(c02NAcc)})
				case 8:
					txs = append(txs, c02Tx{K: "gas", From: -1, To: r.intn(c02NAcc), Amt: int64(1 + r.intn(100000))})
				case 9:
					// move the whole NEO balance away and back later: deletes and re-creates storage items
					txs = append(txs, c02Tx{K: "neoall", From: r.intn(2), To: 2 + r.intn(2)})
				}
			}
		}
		h.Blocks = append(h.Blocks, txs)
	}
	return h
}

type c02Snap struct {
	Root    util.Uint256
	Hash    util.Uint256
	Dump    map[string][]byte // whole database after a flush at this height
}

type c02Built struct {
	H      c02History
	Blocks []*block.Block // index i = block i (0 = genesis)
	Snaps  []c02Snap      // per height
	src    *core.Blockchain
	srcT   *c02T
}

func c02MakeTx(t *c02T, e *neotest.Executor, accs []neotest.Signer, x c02Tx) *transaction.Transaction {
	who := func(i int) neotest.Signer {
		if i < 0 || i >= len(accs) {
			return e.Validator
		}
		return accs[i]
	}
	gas := e.NativeHash(t, nativenames.Gas)
	neo := e.NativeHash(t, nativenames.Neo)
	switch x.K {
	case "gas":
		return e.NewTx(t, []neotest.Signer{who(x.From)}, gas, "transfer", who(x.From).ScriptHash(), who(x.To).ScriptHash(), x.Amt, nil)
	case "neo":
		return e.NewTx(t, []neotest.Signer{who(x.From)}, neo, "transfer", who(x.From).ScriptHash(), who(x.To).ScriptHash(), x.Amt, nil)
	case "neoall":
		bal, _ := e.Chain.GetGoverningTokenBalance(who(x.From).ScriptHash())
		if bal.Sign() == 0 { // nothing to move: send it back the other way
			x.From, x.To = x.To, x.From
			bal, _ = e.Chain.GetGoverningTokenBalance(who(x.From).ScriptHash())
		}
		return e.NewTx(t, []neotest.Signer{who(x.From)}, neo, "transfer", who(x.From).ScriptHash(), who(x.To).ScriptHash(), bal.Int64(), nil)
	case "fee":
		return e.NewTx(t, []neotest.Signer{e.Committee}, e.NativeHash(t, nativenames.Policy), "setFeePerByte", x.Amt)
	case "abort":
		tx := transaction.New([]byte{byte(opcode.PUSH1), byte(opcode.ABORT)}, 0)
		tx.Nonce = neotest.Nonce()
		tx.ValidUntilBlock = e.Chain.BlockHeight() + 1
		return e.SignTx(t, tx, 1_0000_0000, who(x.From))
	}
	panic("unknown tx kind " + x.K)
}

// c02Build executes the history on a source chain (memory store, same configuration, flushed after
// every block), keeps the blocks and a snapshot of the reference database at every height.
func c02Build(h c02History) (*c02Built, error) { return c02BuildOpt(h, nil) }

// c02BuildOpt: wantDump tells at which heights the whole reference database is kept (nil = all).
func c02BuildOpt(h c02History, wantDump func(uint32) bool) (*c02Built, error) {
	t := &c02T{}
	base := storage.NewMemoryStore()
	cfg := h.Cfg
	cfg.Backend = "mem"
	bc, vs, fail := c02Open(c02NoClose{base}, cfg, nil)
	if fail != "" {
		return nil, fmt.Errorf("source chain: %s", fail)
	}
	go bc.Run()
	b := &c02Built{H: h, src: bc, srcT: t}
	g, gerr := bc.GetBlock(bc.GetHeaderHash(0))
	if gerr != nil {
		return nil, gerr
	}
	b.Blocks = []*block.Block{g}
	accs := c02Accounts()
	snap := func() {
		bc.VerifPersist()
		hgt := bc.BlockHeight()
		sr, err := bc.GetStateRoot(hgt)
		if err != nil {
			panic(err)
		}
		var dump map[string][]byte
		if wantDump == nil || wantDump(hgt) {
			dump = c02Dump(base)
		}
		b.Snaps = append(b.Snaps, c02Snap{Root: sr.Root, Hash: bc.CurrentBlockHash(), Dump: dump})
	}
	fail = c02Try(func() {
		e := neotest.NewExecutor(t, bc, vs, vs)
		snap()
		for _, txs := range h.Blocks {
			var real []*transaction.Transaction
			for _, x := range txs {
				var tx *transaction.Transaction
				if m := c02Try(func() { tx = c02MakeTx(t, e, accs, x) }); m != "" {
					continue
				}
				// a transaction that the block's scratch pool would refuse is left out
				real = append(real, tx)
			}
			var blk *block.Block
			for {
				m := c02Try(func() { blk = e.AddNewBlock(t, real...) })
				if m == "" {
					break
				}
				if len(real) == 0 {
					panic("cannot add an empty block: " + m)
				}
				real = real[:len(real)-1]
			}
			b.Blocks = append(b.Blocks, blk)
			snap()
		}
	})
	if fail != "" {
		bc.Close()
		return nil, fmt.Errorf("building history: %s", fail)
	}
	return b, nil
}

func (b *c02Built) close() {
	if b.src != nil {
		b.src.Close()
		b.src = nil
	}
}

// ---------------------------------------------------------------------------------------------
// key classes (for the batch summary compared with the model, and for dump comparison)

func c02Class(k string, v []byte) string {
	switch storage.KeyPrefix(k[0]) {
	case storage.DataExecutable:
		if len(v) == 0 {
			return "exec?"
		}
		if v[0] == storage.ExecBlock {
			return "blk"
		}
		if len(v) == 5 {
			return "conflict"
		}
		return "tx"
	case storage.DataMPT:
		return "mpt"
	case storage.DataMPTAux:
		if len(k) == 5 {
			return "root"
		}
		return "mptaux"
	case storage.STStorage:
		return "st70"
	case storage.STTempStorage:
		return "st71"
	case storage.STNEP11Transfers, storage.STNEP17Transfers:
		return "xfer"
	case storage.STTokenTransferInfo:
		return "xinfo"
	case storage.IXHeaderHashList:
		return "hhl"
	case storage.SYSCurrentBlock:
		return "curblock"
	case storage.SYSCurrentHeader:
		return "curheader"
	case storage.SYSStateSyncCurrentBlockHeight:
		return "syncheight"
	case storage.SYSStateSyncPoint:
		return "syncpoint"
	case storage.SYSStateChangeStage:
		return "stage"
	case storage.SYSStateSyncCheckpoint:
		return "checkpoint"
	case storage.SYSVersion:
		return "version"
	}
	return fmt.Sprintf("other%02x", k[0])
}

// c02DiffDumps lists keys on which two dumps differ, grouped by class (at most lim examples).
func c02DiffDumps(a, b map[string][]byte, skip func(k string, va, vb []byte) bool) (n int, ex []string) {
	keys := map[string]bool{}
	for k := range a {
		keys[k] = true
	}
	for k := range b {
		keys[k] = true
	}
	ks := make([]string, 0, len(keys))
	for k := range keys {
		ks = append(ks, k)
	}
	sort.Strings(ks)
	for _, k := range ks {
		va, oka := a[k]
		vb, okb := b[k]
		if oka && okb && bytes.Equal(va, vb) {
			continue
		}
		if skip != nil && skip(k, va, vb) {
			continue
		}
		n++
		if len(ex) < 6 {
			v := va
			if !oka {
				v = vb
			}
			side := "differs"
			if !oka {
				side = "only-in-second"
			} else if !okb {
				side = "only-in-first"
			}
			ex = append(ex, fmt.Sprintf("%s:%s:%s", c02Class(k, v), hx([]byte(k)), side))
		}
	}
	return
}

// c02DiffClasses names the record classes on which two dumps differ ("mpt+root").
func c02DiffClasses(a, b map[string][]byte, skip func(k string, va, vb []byte) bool) string {
	set := map[string]bool{}
	for _, m := range []map[string][]byte{a, b} {
		for k := range m {
			va, oka := a[k]
			vb, okb := b[k]
			if oka && okb && bytes.Equal(va, vb) {
				continue
			}
			if skip != nil && skip(k, va, vb) {
				continue
			}
			v := va
			if !oka {
				v = vb
			}
			set[c02Class(k, v)] = true
		}
	}
	var cs []string
	for c := range set {
		cs = append(cs, c)
	}
	sort.Strings(cs)
	return strings.Join(cs, "+")
}

func c02U32(b []byte) uint32 { return binary.LittleEndian.Uint32(b) }

var _ = json.Marshal
var _ = time.Now
